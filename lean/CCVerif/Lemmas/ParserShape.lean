import CCVerif.Model.Parser
import CCVerif.Lemmas.CheckerTotal
set_option linter.unusedVariables false
set_option linter.unusedSectionVars false
/-!
Helper lemmas of C06 / C04 — the parser model only builds trees of the grammar's shape.

`RawWf Γ c raw`: the RAW tree `raw` (bracket nodes `PUNC_PL` still inside, as built by `RemoveBrackets`)
is turned by `CreateSyntaxTree` (`stripBrackets`) into a tree of `Checker.Wf Γ c` — the shape predicate of
the checker theorems of C03 (arity, token payload, non-empty index lists, set / logic / declaration
positions). This file: one lemma per semantic action ("raw constructors").

`TokOK Γ t`: what the parser needs of a token — identifiers carry their spelling, `Pr/pr/Fi` carry a
non-empty index tuple (`LexerBase::ParseData`), and a function name is not LOGIC-typed in the context `Γ`
(the one place where `Wf` depends on `Γ`).
-/
namespace CCVerif.ParserShape
open CCVerif.Syntax CCVerif.Generated CCVerif.Lexer CCVerif.Parser CCVerif.Types CCVerif.Checker

def TokOK (Γ : Ctx) (t : LTok) : Prop :=
  ((t.id = .ID_LOCAL ∨ t.id = .ID_GLOBAL ∨ t.id = .ID_FUNCTION ∨ t.id = .ID_PREDICATE ∨ t.id = .ID_RADICAL) →
    ∃ x, t.data = .text x) ∧
  ((t.id = .BIGPR ∨ t.id = .SMALLPR ∨ t.id = .FILTER) → ∃ idx, idx ≠ [] ∧ t.data = .tuple idx) ∧
  (t.id = .ID_FUNCTION → ∀ f, t.data = .text f → lookup Γ.types f ≠ some .logic)

def AllOK (Γ : Ctx) (ts : Toks) : Prop := ∀ t, t ∈ ts → TokOK Γ t

variable {Γ : Ctx}

@[simp] theorem allOK_nil : AllOK Γ [] := by intro t h; cases h
theorem allOK_cons (t : LTok) (ts : Toks) : AllOK Γ (t :: ts) ↔ TokOK Γ t ∧ AllOK Γ ts := by
  simp [AllOK]
theorem allOK_drop (n : Nat) {ts : Toks} (h : AllOK Γ ts) : AllOK Γ (ts.drop n) :=
  fun t ht => h t (List.mem_of_mem_drop ht)
theorem allOK_takeWhile (p : LTok → Bool) {ts : Toks} (h : AllOK Γ ts) : AllOK Γ (ts.takeWhile p) :=
  fun t ht => h t ((List.takeWhile_prefix p).subset ht)

theorem TokOK.text {t : LTok} (h : TokOK Γ t)
    (hid : t.id = .ID_LOCAL ∨ t.id = .ID_GLOBAL ∨ t.id = .ID_FUNCTION ∨ t.id = .ID_PREDICATE ∨ t.id = .ID_RADICAL) :
    ∃ x, t.data = .text x := h.1 hid
theorem TokOK.tuple {t : LTok} (h : TokOK Γ t) (hid : t.id = .BIGPR ∨ t.id = .SMALLPR ∨ t.id = .FILTER) :
    ∃ idx, idx ≠ [] ∧ t.data = .tuple idx := h.2.1 hid

/-- the raw tree becomes a `Wf Γ c` tree when its bracket nodes are removed -/
def RawWf (Γ : Ctx) (c : Cat) (raw : Ast) : Prop := ∃ t, stripBrackets raw = some t ∧ Wf Γ c t

def AllRaw (Γ : Ctx) (c : Cat) (l : List Ast) : Prop := ∀ k, k ∈ l → RawWf Γ c k

@[simp] theorem allRaw_nil {c : Cat} : AllRaw Γ c [] := by intro k h; cases h
theorem allRaw_cons {c : Cat} (a : Ast) (l : List Ast) : AllRaw Γ c (a :: l) ↔ RawWf Γ c a ∧ AllRaw Γ c l := by
  simp [AllRaw]
theorem allRaw_append {c : Cat} (l₁ l₂ : List Ast) : AllRaw Γ c (l₁ ++ l₂) ↔ AllRaw Γ c l₁ ∧ AllRaw Γ c l₂ := by
  simp only [AllRaw, List.mem_append]
  exact ⟨fun h => ⟨fun k hk => h k (Or.inl hk), fun k hk => h k (Or.inr hk)⟩, fun h k hk => hk.elim (h.1 k) (h.2 k)⟩

/-! ## `stripBrackets` on nodes -/

theorem strip_node {id : Tok} (d : TokData) (lo hi : Int) (kids : List Ast) (h : id ≠ .PUNC_PL) :
    stripBrackets (.node id d lo hi kids) = (stripBracketsList kids).map (Ast.node id d lo hi) := by
  rw [stripBrackets.eq_def]
  have : (id == Tok.PUNC_PL) = false := by
    cases hb : (id == Tok.PUNC_PL) with
    | false => rfl
    | true => exact absurd (by cases id <;> first | rfl | cases hb) h
  simp only [this]
  cases stripBracketsList kids <;> rfl

theorem strip_pl (d : TokData) (lo hi : Int) (kids : List Ast) :
    stripBrackets (.node .PUNC_PL d lo hi kids) = match kids with | k :: _ => stripBrackets k | [] => none := by
  rw [stripBrackets.eq_def]; rfl

theorem strip_list_nil : stripBracketsList [] = some [] := by rw [stripBracketsList]
theorem strip_list_cons {k k' : Ast} {ks ks' : List Ast} (h1 : stripBrackets k = some k')
    (h2 : stripBracketsList ks = some ks') : stripBracketsList (k :: ks) = some (k' :: ks') := by
  rw [stripBracketsList, h1, h2]

/-- a list of raw trees strips to a list of `Wf` trees of the same length -/
theorem allRaw_strip {c : Cat} : ∀ (l : List Ast), AllRaw Γ c l →
    ∃ l', stripBracketsList l = some l' ∧ (∀ k, k ∈ l' → Wf Γ c k) ∧ l'.length = l.length
  | [], _ => ⟨[], strip_list_nil, by simp, rfl⟩
  | a :: l, h => by
    rw [allRaw_cons] at h
    obtain ⟨a', ha, wa⟩ := h.1
    obtain ⟨l', hl, wl, hlen⟩ := allRaw_strip l h.2
    refine ⟨a' :: l', strip_list_cons ha hl, ?_, by simp [hlen]⟩
    intro k hk
    rcases List.mem_cons.1 hk with rfl | hk
    · exact wa
    · exact wl k hk

/-- building a node other than a bracket from raw children -/
theorem rawWf_node {c : Cat} {id : Tok} {d : TokData} {lo hi : Int} {kids : List Ast} (hid : id ≠ .PUNC_PL)
    {ks' : List Ast} (hs : stripBracketsList kids = some ks') (hw : Wf Γ c (.node id d lo hi ks')) :
    RawWf Γ c (.node id d lo hi kids) :=
  ⟨.node id d lo hi ks', by rw [strip_node d lo hi kids hid, hs]; rfl, hw⟩

theorem strip1 {a a' : Ast} (ha : stripBrackets a = some a') : stripBracketsList [a] = some [a'] :=
  strip_list_cons ha strip_list_nil
theorem strip2 {a a' b b' : Ast} (ha : stripBrackets a = some a') (hb : stripBrackets b = some b') :
    stripBracketsList [a, b] = some [a', b'] := strip_list_cons ha (strip1 hb)
theorem strip3 {a a' b b' c c' : Ast} (ha : stripBrackets a = some a') (hb : stripBrackets b = some b')
    (hc : stripBrackets c = some c') : stripBracketsList [a, b, c] = some [a', b', c'] := strip_list_cons ha (strip2 hb hc)
theorem strip4 {a a' b b' c c' d d' : Ast} (ha : stripBrackets a = some a') (hb : stripBrackets b = some b')
    (hc : stripBrackets c = some c') (hd : stripBrackets d = some d') :
    stripBracketsList [a, b, c, d] = some [a', b', c', d'] := strip_list_cons ha (strip3 hb hc hd)

theorem strip_list_append {l l' : List Ast} {e e' : Ast} (hl : stripBracketsList l = some l')
    (he : stripBrackets e = some e') : stripBracketsList (l ++ [e]) = some (l' ++ [e']) := by
  induction l generalizing l' with
  | nil => rw [strip_list_nil] at hl; cases hl; exact strip1 he
  | cons k ks ih =>
    rw [stripBracketsList] at hl
    cases h1 : stripBrackets k with
    | none => rw [h1] at hl; cases hl
    | some k' =>
      cases h2 : stripBracketsList ks with
      | none => rw [h1, h2] at hl; cases hl
      | some ks' =>
        rw [h1, h2] at hl; cases hl
        exact strip_list_cons h1 (ih h2)

/-- a product node has at least two factors, all of them set expressions -/
theorem wf_decart_inv {d : TokData} {lo hi : Int} {ks : List Ast} (h : Wf Γ .S (.node .DECART d lo hi ks)) :
    2 ≤ ks.length ∧ ∀ k, k ∈ ks → Wf Γ .S k := by
  cases h with
  | sMany _ hall => exact ⟨by simp, hall⟩
  | sGlobal h => simp at h
  | sArith h => simp at h
  | sUnary h => simp at h
  | sSetbin h => simp at h
  | sProj h => simp at h

/-! ## `Wf` does not look at ranges -/

theorem wf_setRange {c : Cat} {id : Tok} {d : TokData} {lo hi lo' hi' : Int} {ks : List Ast}
    (h : Wf Γ c (.node id d lo hi ks)) : Wf Γ c (.node id d lo' hi' ks) := by
  cases h with
  | sGlobal h => exact .sGlobal h
  | sLocal => exact .sLocal
  | sRadical => exact .sRadical
  | sInt => exact .sInt
  | sIntset => exact .sIntset
  | sEmpty => exact .sEmpty
  | sArith h a b => exact .sArith h a b
  | sUnary h a => exact .sUnary h a
  | sSetbin h a b => exact .sSetbin h a b
  | sEnum h => exact .sEnum h
  | sMany h a => exact .sMany h a
  | sProj h a b => exact .sProj h a b
  | sFilter h a b => exact .sFilter h a b
  | sDeclarative a b c => exact .sDeclarative a b c
  | sImperative a b => exact .sImperative a b
  | sRecShort a b c => exact .sRecShort a b c
  | sRecFull a b c d => exact .sRecFull a b c d
  | sCall a b => exact .sCall a b
  | lNot a => exact .lNot a
  | lBin h a b => exact .lBin h a b
  | lPred h a b => exact .lPred h a b
  | lQuant h a b c => exact .lQuant h a b c
  | lCall a => exact .lCall a
  | lIterate a b => exact .lIterate a b
  | lAssign a b => exact .lAssign a b
  | dLocal => exact .dLocal
  | dTuple a => exact .dTuple a
  | deOfD wd =>
    cases wd with
    | dLocal => exact .deOfD .dLocal
    | dTuple a => exact .deOfD (.dTuple a)
  | deEnum a => exact .deEnum a

/-! ## the semantic actions -/

theorem raw_removeBrackets {c : Cat} {e : Ast} (l r : LTok) (h : RawWf Γ c e) : RawWf Γ c (removeBrackets l e r) := by
  obtain ⟨t, ht, wt⟩ := h
  unfold removeBrackets setRange
  cases e with
  | node id d lo hi kids =>
    simp only [Ast.id, Ast.data, Ast.kids]
    by_cases hid : id = .PUNC_PL
    · subst hid
      -- the operand is itself a bracket node: both strip to the same tree
      refine ⟨t, ?_, wt⟩
      rw [strip_pl] at ht ⊢
      simp only []
      rw [strip_pl]
      exact ht
    · rw [strip_node d lo hi kids hid] at ht
      cases hk : stripBracketsList kids with
      | none => rw [hk] at ht; cases ht
      | some ks' =>
        rw [hk] at ht; simp only [Option.map_some, Option.some.injEq] at ht; subst ht
        refine ⟨.node id d l.lo r.hi ks', ?_, wf_setRange wt⟩
        rw [strip_pl]
        simp only []
        rw [strip_node d l.lo r.hi kids hid, hk]; rfl

theorem setOp_cases {id : Tok} (h : isSetOp id = true) :
    (id = .PLUS ∨ id = .MINUS ∨ id = .MULTIPLY) ∨ (id = .UNION ∨ id = .INTERSECTION ∨ id = .SET_MINUS ∨ id = .SYMMINUS) ∨
    id = .DECART := by
  cases id <;> simp_all [isSetOp]

theorem predOp_cases {id : Tok} (h : isPredOp id = true) :
    id = .EQUAL ∨ id = .NOTEQUAL ∨ id = .GREATER ∨ id = .LESSER ∨ id = .GREATER_OR_EQ ∨ id = .LESSER_OR_EQ ∨
    id = .IN ∨ id = .NOTIN ∨ id = .SUBSET ∨ id = .SUBSET_OR_EQ ∨ id = .NOTSUBSET := by
  cases id <;> simp_all [isPredOp]

theorem logicOp_cases {id : Tok} (h : isLogicOp id = true) :
    id = .AND ∨ id = .OR ∨ id = .IMPLICATION ∨ id = .EQUIVALENT := by
  cases id <;> simp_all [isLogicOp]

theorem ne_pl_of {id : Tok} {l : List Tok} (h : id ∈ l) (hl : Tok.PUNC_PL ∉ l) : id ≠ .PUNC_PL := by
  rintro rfl; exact hl h

/-- `BinaryOperation` with a set operator other than `×` -/
theorem raw_binary_set {a b : Ast} {op : LTok} (hop : isSetOp op.id = true) (hd : op.id ≠ .DECART)
    (ha : RawWf Γ .S a) (hb : RawWf Γ .S b) : RawWf Γ .S (binaryOperation a op b) := by
  obtain ⟨a', sa, wa⟩ := ha; obtain ⟨b', sb, wb⟩ := hb
  unfold binaryOperation
  rcases setOp_cases hop with h | h | h
  · exact rawWf_node (by rcases h with h | h | h <;> rw [h] <;> decide) (strip2 sa sb) (.sArith h wa wb)
  · exact rawWf_node (by rcases h with h | h | h | h <;> rw [h] <;> decide) (strip2 sa sb) (.sSetbin h wa wb)
  · exact absurd h hd

/-- `Decartian` -/
theorem raw_decartian {a b : Ast} {op : LTok} (hop : op.id = .DECART)
    (ha : RawWf Γ .S a) (hb : RawWf Γ .S b) : RawWf Γ .S (decartian a op b) := by
  obtain ⟨a', sa, wa⟩ := ha; obtain ⟨b', sb, wb⟩ := hb
  unfold decartian
  split
  · rename_i hid
    cases a with
    | node id d lo hi kids =>
      have hid' : id = .DECART := by
        simp only [Ast.id] at hid
        cases id <;> first | rfl | cases hid
      subst hid'
      simp only [Ast.id, Ast.data, Ast.lo, Ast.kids]
      rw [strip_node d lo hi kids (by decide)] at sa
      cases hk : stripBracketsList kids with
      | none => rw [hk] at sa; cases sa
      | some ks' =>
        rw [hk] at sa; simp only [Option.map_some, Option.some.injEq] at sa; subst sa
        obtain ⟨hlen, hall⟩ := wf_decart_inv wa
        match ks', hlen, hall, hk with
        | x :: y :: rest, _, hall, hk =>
          refine rawWf_node (by decide) (strip_list_append hk sb) ?_
          exact .sMany (Or.inl rfl) (by
            intro k hk'
            simp at hk'
            rcases hk' with rfl | rfl | hk' | rfl
            · exact hall _ (by simp)
            · exact hall _ (by simp)
            · exact hall _ (by simp [hk'])
            · exact wb)
  · unfold binaryOperation
    rw [hop]
    exact rawWf_node (by decide) (strip2 sa sb) (.sMany (Or.inl rfl) (by
      intro k hk; simp at hk; rcases hk with rfl | rfl <;> assumption))

/-- `BinaryOperation` with a predicate symbol -/
theorem raw_binary_pred {a b : Ast} {op : LTok} (hop : isPredOp op.id = true)
    (ha : RawWf Γ .S a) (hb : RawWf Γ .S b) : RawWf Γ .L (binaryOperation a op b) := by
  obtain ⟨a', sa, wa⟩ := ha; obtain ⟨b', sb, wb⟩ := hb
  unfold binaryOperation
  have h := predOp_cases hop
  exact rawWf_node (by rcases h with h | h | h | h | h | h | h | h | h | h | h <;> rw [h] <;> decide)
    (strip2 sa sb) (.lPred h wa wb)

/-- `BinaryOperation` with a connective -/
theorem raw_binary_logic {a b : Ast} {op : LTok} (hop : isLogicOp op.id = true)
    (ha : RawWf Γ .L a) (hb : RawWf Γ .L b) : RawWf Γ .L (binaryOperation a op b) := by
  obtain ⟨a', sa, wa⟩ := ha; obtain ⟨b', sb, wb⟩ := hb
  unfold binaryOperation
  have h := logicOp_cases hop
  exact rawWf_node (by rcases h with h | h | h | h <;> rw [h] <;> decide) (strip2 sa sb) (.lBin h wa wb)

/-- `variable :∈ setexpr` / `variable := setexpr` -/
theorem raw_binary_iter {v b : Ast} {op : LTok} (hop : op.id = .ITERATE ∨ op.id = .ASSIGN)
    (hv : RawWf Γ .D v) (hb : RawWf Γ .S b) : RawWf Γ .L (binaryOperation v op b) := by
  obtain ⟨v', sv, wv⟩ := hv; obtain ⟨b', sb, wb⟩ := hb
  unfold binaryOperation
  rcases hop with h | h <;> rw [h]
  · exact rawWf_node (by decide) (strip2 sv sb) (.lIterate wv wb)
  · exact rawWf_node (by decide) (strip2 sv sb) (.lAssign wv wb)

/-- leaves in a set position -/
theorem raw_leaf {t : LTok} (ht : TokOK Γ t)
    (hid : t.id = .LIT_INTEGER ∨ t.id = .LIT_EMPTYSET ∨ t.id = .LIT_INTSET ∨ t.id = .ID_GLOBAL ∨ t.id = .ID_LOCAL ∨
      t.id = .ID_RADICAL ∨ t.id = .ID_FUNCTION ∨ t.id = .ID_PREDICATE) : RawWf Γ .S (leaf t) := by
  unfold leaf
  rcases hid with h | h | h | h | h | h | h | h
  · rw [h]; exact rawWf_node (by decide) strip_list_nil .sInt
  · rw [h]; exact rawWf_node (by decide) strip_list_nil .sEmpty
  · rw [h]; exact rawWf_node (by decide) strip_list_nil .sIntset
  · obtain ⟨x, hx⟩ := ht.text (by simp [h]); rw [h, hx]
    exact rawWf_node (by decide) strip_list_nil (.sGlobal (Or.inl rfl))
  · obtain ⟨x, hx⟩ := ht.text (by simp [h]); rw [h, hx]
    exact rawWf_node (by decide) strip_list_nil .sLocal
  · obtain ⟨x, hx⟩ := ht.text (by simp [h]); rw [h, hx]
    exact rawWf_node (by decide) strip_list_nil .sRadical
  · obtain ⟨x, hx⟩ := ht.text (by simp [h]); rw [h, hx]
    exact rawWf_node (by decide) strip_list_nil (.sGlobal (Or.inr (Or.inl rfl)))
  · obtain ⟨x, hx⟩ := ht.text (by simp [h]); rw [h, hx]
    exact rawWf_node (by decide) strip_list_nil (.sGlobal (Or.inr (Or.inr rfl)))

/-- a local variable in a declaration position -/
theorem raw_leaf_decl {t : LTok} (ht : TokOK Γ t) (hid : t.id = .ID_LOCAL) : RawWf Γ .D (leaf t) := by
  unfold leaf
  obtain ⟨x, hx⟩ := ht.text (by simp [hid]); rw [hid, hx]
  exact rawWf_node (by decide) strip_list_nil .dLocal

/-- `FunctionCall` -/
theorem raw_call {t : LTok} {args : List Ast} {lo hi : Int} (ht : TokOK Γ t)
    (hid : t.id = .ID_FUNCTION ∨ t.id = .ID_PREDICATE) (ha : AllRaw Γ .S args) (hn : 1 ≤ args.length) :
    RawWf Γ (if t.id == .ID_PREDICATE then .L else .S) (.node .NT_FUNC_CALL .none lo hi (leaf t :: args)) := by
  obtain ⟨args', sargs, wargs, hlen⟩ := allRaw_strip args ha
  obtain ⟨x, hx⟩ := ht.text (by rcases hid with h | h <;> simp [h])
  have sleaf : stripBrackets (leaf t) = some (.node t.id (.text x) t.lo t.hi []) := by
    unfold leaf; rw [hx]
    rw [strip_node _ _ _ _ (by rcases hid with h | h <;> rw [h] <;> decide), strip_list_nil]; rfl
  have hs := strip_list_cons sleaf sargs
  cases args' with
  | nil => simp at hlen; omega
  | cons a0 as =>
    rcases hid with h | h
    · have : (t.id == Tok.ID_PREDICATE) = false := by rw [h]; rfl
      rw [this]
      exact rawWf_node (by decide) hs (.sCall (ht.2.2 h x hx) wargs)
    · have : (t.id == Tok.ID_PREDICATE) = true := by rw [h]; rfl
      rw [this]
      exact rawWf_node (by decide) hs (.lCall wargs)

/-- `TextOperator` -/
theorem raw_textOperator {t rp : LTok} {e : Ast} (ht : TokOK Γ t)
    (hid : t.id = .BOOL ∨ t.id = .DEBOOL ∨ t.id = .REDUCE ∨ t.id = .BIGPR ∨ t.id = .SMALLPR ∨ t.id = .CARD ∨ t.id = .BOOLEAN)
    (he : RawWf Γ .S e) : RawWf Γ .S (textOperator t e rp) := by
  obtain ⟨e', se, we⟩ := he
  unfold textOperator
  rcases hid with h | h | h | h | h | h | h
  · rw [h]; exact rawWf_node (by decide) (strip1 se) (.sUnary (by simp) we)
  · rw [h]; exact rawWf_node (by decide) (strip1 se) (.sUnary (by simp) we)
  · rw [h]; exact rawWf_node (by decide) (strip1 se) (.sUnary (by simp) we)
  · obtain ⟨idx, hne, hx⟩ := ht.tuple (by simp [h]); rw [h, hx]
    exact rawWf_node (by decide) (strip1 se) (.sProj (Or.inl rfl) hne we)
  · obtain ⟨idx, hne, hx⟩ := ht.tuple (by simp [h]); rw [h, hx]
    exact rawWf_node (by decide) (strip1 se) (.sProj (Or.inr rfl) hne we)
  · rw [h]; exact rawWf_node (by decide) (strip1 se) (.sUnary (by simp) we)
  · rw [h]; exact rawWf_node (by decide) (strip1 se) (.sUnary (by simp) we)

/-- `BOOLEAN boolean` -/
theorem raw_unary_boolean {t : LTok} {e : Ast} (hid : t.id = .BOOLEAN) (he : RawWf Γ .S e) :
    RawWf Γ .S (unaryOperation t e) := by
  obtain ⟨e', se, we⟩ := he
  unfold unaryOperation
  rw [hid]; exact rawWf_node (by decide) (strip1 se) (.sUnary (by simp) we)

/-- `NOT logic_no_binary` -/
theorem raw_unary_not {t : LTok} {e : Ast} (hid : t.id = .NOT) (he : RawWf Γ .L e) :
    RawWf Γ .L (unaryOperation t e) := by
  obtain ⟨e', se, we⟩ := he
  unfold unaryOperation
  rw [hid]; exact rawWf_node (by decide) (strip1 se) (.lNot we)

/-- `FilterCall` -/
theorem raw_filter {t : LTok} {params : List Ast} {e : Ast} {lo hi : Int} (ht : TokOK Γ t) (hid : t.id = .FILTER)
    (hp : AllRaw Γ .S params) (hn : 1 ≤ params.length) (he : RawWf Γ .S e) :
    RawWf Γ .S (.node t.id t.data lo hi (params ++ [e])) := by
  obtain ⟨ps', sps, wps, hlen⟩ := allRaw_strip params hp
  obtain ⟨e', se, we⟩ := he
  obtain ⟨idx, hne, hx⟩ := ht.tuple (by simp [hid])
  rw [hid, hx]
  cases ps' with
  | nil => simp at hlen; omega
  | cons p0 ps =>
    refine rawWf_node (by decide) (strip_list_append sps se) ?_
    exact .sFilter hne (by
      intro k hk
      simp at hk
      rcases hk with rfl | hk | rfl
      · exact wps _ (by simp)
      · exact wps _ (by simp [hk])
      · exact we) (by simp)

/-- `TermDeclaration` -/
theorem raw_declarative {v d p : Ast} {lo hi : Int} (hv : RawWf Γ .D v) (hd : RawWf Γ .S d) (hp : RawWf Γ .L p) :
    RawWf Γ .S (.node .NT_DECLARATIVE_EXPR .none lo hi [v, d, p]) := by
  obtain ⟨v', sv, wv⟩ := hv; obtain ⟨d', sd, wd⟩ := hd; obtain ⟨p', sp, wp⟩ := hp
  exact rawWf_node (by decide) (strip3 sv sd sp) (.sDeclarative wv wd wp)

/-- `FullRecursion` -/
theorem raw_recursive_full {v d c s : Ast} {lo hi : Int} (hv : RawWf Γ .D v) (hd : RawWf Γ .S d) (hc : RawWf Γ .L c)
    (hs : RawWf Γ .S s) : RawWf Γ .S (.node .NT_RECURSIVE_FULL .none lo hi [v, d, c, s]) := by
  obtain ⟨v', sv, wv⟩ := hv; obtain ⟨d', sd, wd⟩ := hd; obtain ⟨c', sc, wc⟩ := hc; obtain ⟨s', ss, ws⟩ := hs
  exact rawWf_node (by decide) (strip4 sv sd sc ss) (.sRecFull wv wd wc ws)

/-- `ShortRecursion` -/
theorem raw_recursive_short {v d c : Ast} {lo hi : Int} (hv : RawWf Γ .D v) (hd : RawWf Γ .S d) (hc : RawWf Γ .S c) :
    RawWf Γ .S (.node .NT_RECURSIVE_SHORT .none lo hi [v, d, c]) := by
  obtain ⟨v', sv, wv⟩ := hv; obtain ⟨d', sd, wd⟩ := hd; obtain ⟨c', sc, wc⟩ := hc
  exact rawWf_node (by decide) (strip3 sv sd sc) (.sRecShort wv wd wc)

/-- `Imperative` -/
theorem raw_imperative {v : Ast} {bs : List Ast} {lo hi : Int} (hv : RawWf Γ .S v) (hb : AllRaw Γ .L bs) :
    RawWf Γ .S (.node .NT_IMPERATIVE_EXPR .none lo hi (v :: bs)) := by
  obtain ⟨v', sv, wv⟩ := hv
  obtain ⟨bs', sbs, wbs, _⟩ := allRaw_strip bs hb
  exact rawWf_node (by decide) (strip_list_cons sv sbs) (.sImperative wv wbs)

/-- `ReplaceBrackets(NT_ENUMERATION)` -/
theorem raw_enumeration {items : List Ast} {lo hi : Int} (hi' : AllRaw Γ .S items) (hn : 1 ≤ items.length) :
    RawWf Γ .S (.node .NT_ENUMERATION .none lo hi items) := by
  obtain ⟨is', sis, wis, hlen⟩ := allRaw_strip items hi'
  cases is' with
  | nil => simp at hlen; omega
  | cons a ks => exact rawWf_node (by decide) sis (.sEnum wis)

/-- `ReplaceBrackets(NT_TUPLE)` -/
theorem raw_tuple {items : List Ast} {lo hi : Int} (hi' : AllRaw Γ .S items) (hn : 2 ≤ items.length) :
    RawWf Γ .S (.node .NT_TUPLE .none lo hi items) := by
  obtain ⟨is', sis, wis, hlen⟩ := allRaw_strip items hi'
  match is', hlen, sis, wis with
  | [], hlen, _, _ => simp at hlen; omega
  | [_], hlen, _, _ => simp at hlen; omega
  | a :: b :: ks, _, sis, wis => exact rawWf_node (by decide) sis (.sMany (Or.inr rfl) wis)

/-- `Quantifier` -/
theorem raw_quant {t : LTok} {decl d p : Ast} {lo hi : Int} (hid : t.id = .FORALL ∨ t.id = .EXISTS)
    (hv : RawWf Γ .DE decl) (hd : RawWf Γ .S d) (hp : RawWf Γ .L p) :
    RawWf Γ .L (.node t.id t.data lo hi [decl, d, p]) := by
  obtain ⟨v', sv, wv⟩ := hv; obtain ⟨d', sd, wd⟩ := hd; obtain ⟨p', sp, wp⟩ := hp
  exact rawWf_node (by rcases hid with h | h <;> rw [h] <;> decide) (strip3 sv sd sp) (.lQuant hid wv wd wp)

theorem raw_de_of_d {v : Ast} (h : RawWf Γ .D v) : RawWf Γ .DE v := by
  obtain ⟨v', sv, wv⟩ := h; exact ⟨v', sv, .deOfD wv⟩

/-- `NT_ENUM_DECL` -/
theorem raw_enumDecl {vs : List Ast} {lo hi : Int} (h : AllRaw Γ .D vs) :
    RawWf Γ .DE (.node .NT_ENUM_DECL .none lo hi vs) := by
  obtain ⟨vs', svs, wvs, _⟩ := allRaw_strip vs h
  exact rawWf_node (by decide) svs (.deEnum wvs)

/-! ## `TupleDeclaration` -/

theorem wf_tuple_inv {c : Cat} (hc : c = .S ∨ c = .L) {d : TokData} {lo hi : Int} {ks : List Ast}
    (h : Wf Γ c (.node .NT_TUPLE d lo hi ks)) : 2 ≤ ks.length ∧ ∀ k, k ∈ ks → Wf Γ .S k := by
  rcases hc with rfl | rfl
  · cases h with
    | sMany _ hall => exact ⟨by simp, hall⟩
    | sGlobal h => simp at h
    | sArith h => simp at h
    | sUnary h => simp at h
    | sSetbin h => simp at h
    | sProj h => simp at h
  · cases h with
    | lBin h => simp at h
    | lPred h => simp at h
    | lQuant h => simp at h

theorem wf_local_inv {c : Cat} (hc : c = .S ∨ c = .L) {d : TokData} {lo hi : Int} {ks : List Ast}
    (h : Wf Γ c (.node .ID_LOCAL d lo hi ks)) : ∃ x, d = .text x := by
  rcases hc with rfl | rfl
  · cases h with
    | sLocal => exact ⟨_, rfl⟩
    | sGlobal h => simp at h
    | sArith h => simp at h
    | sUnary h => simp at h
    | sSetbin h => simp at h
    | sMany h => simp at h
    | sProj h => simp at h
  · cases h with
    | lBin h => simp at h
    | lPred h => simp at h
    | lQuant h => simp at h

mutual
/-- what `TupleDeclaration` returns has no bracket nodes -/
theorem tupleDecl_noBrackets : ∀ (a b : Ast), tupleDecl a = some b → stripBrackets b = some b
  | .node id d lo hi kids, b, h => by
    rw [tupleDecl] at h
    split at h
    · split at h
      · rename_i ks hks
        cases h
        rw [strip_node _ _ _ _ (by decide), tupleDeclList_noBrackets kids ks hks]; rfl
      · cases h
    · split at h
      · rename_i hid
        have hid' : id = .ID_LOCAL := by cases id <;> first | rfl | cases hid
        subst hid'
        split at h
        · rename_i ks hks
          cases h
          rw [strip_node _ _ _ _ (by decide), tupleDeclList_noBrackets kids ks hks]; rfl
        · cases h
      · cases h
theorem tupleDeclList_noBrackets : ∀ (l m : List Ast), tupleDeclList l = some m → stripBracketsList m = some m
  | [], m, h => by rw [tupleDeclList] at h; cases h; exact strip_list_nil
  | k :: ks, m, h => by
    rw [tupleDeclList] at h
    split at h
    · rename_i k' ks' h1 h2
      cases h
      exact strip_list_cons (tupleDecl_noBrackets k k' h1) (tupleDeclList_noBrackets ks ks' h2)
    · cases h
end

mutual
theorem tupleDecl_wf : ∀ (a b a' : Ast), tupleDecl a = some b → stripBrackets a = some a' → Wf Γ .S a' → Wf Γ .D b
  | .node id d lo hi kids, b, a', h, hs, hw => by
    rw [tupleDecl] at h
    split at h
    · rename_i hid
      have hid' : id = .NT_TUPLE := by cases id <;> first | rfl | cases hid
      subst hid'
      split at h
      · rename_i ks hks
        cases h
        rw [strip_node _ _ _ _ (by decide)] at hs
        cases hk : stripBracketsList kids with
        | none => rw [hk] at hs; cases hs
        | some ks' =>
          rw [hk] at hs; simp only [Option.map_some, Option.some.injEq] at hs; subst hs
          obtain ⟨hlen, hall⟩ := wf_tuple_inv (Or.inl rfl) hw
          obtain ⟨w1, w2⟩ := tupleDeclList_wf kids ks ks' hks hk hall
          match ks, w1, w2 with
          | [], _, w2 => simp at w2; omega
          | k :: ks, w1, _ => exact .dTuple w1
      · cases h
    · split at h
      · rename_i hid
        have hid' : id = .ID_LOCAL := by cases id <;> first | rfl | cases hid
        subst hid'
        split at h
        · rename_i ks hks
          cases h
          rw [strip_node _ _ _ _ (by decide)] at hs
          cases hk : stripBracketsList kids with
          | none => rw [hk] at hs; cases hs
          | some ks' =>
            rw [hk] at hs; simp only [Option.map_some, Option.some.injEq] at hs; subst hs
            obtain ⟨x, rfl⟩ := wf_local_inv (Or.inl rfl) hw
            exact .dLocal
        · cases h
      · cases h
theorem tupleDeclList_wf : ∀ (l m l' : List Ast), tupleDeclList l = some m → stripBracketsList l = some l' →
    (∀ k, k ∈ l' → Wf Γ .S k) → (∀ k, k ∈ m → Wf Γ .D k) ∧ m.length = l'.length
  | [], m, l', h, hs, _ => by
    rw [tupleDeclList] at h; cases h
    rw [strip_list_nil] at hs; cases hs
    exact ⟨by simp, rfl⟩
  | k :: ks, m, l', h, hs, hw => by
    rw [tupleDeclList] at h
    split at h
    · rename_i k' ks' h1 h2
      cases h
      rw [stripBracketsList] at hs
      cases e1 : stripBrackets k with
      | none => rw [e1] at hs; cases hs
      | some k'' =>
        cases e2 : stripBracketsList ks with
        | none => rw [e1, e2] at hs; cases hs
        | some ks'' =>
          rw [e1, e2] at hs; cases hs
          have wk := tupleDecl_wf k k' k'' h1 e1 (hw _ (by simp))
          obtain ⟨w1, w2⟩ := tupleDeclList_wf ks ks' ks'' h2 e2 (fun x hx => hw x (by simp [hx]))
          refine ⟨?_, by simp [w2]⟩
          intro x hx
          rcases List.mem_cons.1 hx with rfl | hx
          · exact wk
          · exact w1 x hx
    · cases h
end

/-- `TupleDeclaration` of a raw tuple -/
theorem raw_tupleDecl {c : Cat} (hc : c = .S ∨ c = .L) {e e' : Ast} (he : RawWf Γ c e) (hid : e.id = .NT_TUPLE)
    (h : tupleDecl e = some e') : RawWf Γ .D e' := by
  obtain ⟨t, st, wt⟩ := he
  have wS : Wf Γ .S t := by
    rcases hc with rfl | rfl
    · exact wt
    · -- a logic phrase is never a tuple
      cases e with
      | node id d lo hi kids =>
        simp only [Ast.id] at hid; subst hid
        rw [strip_node _ _ _ _ (by decide)] at st
        cases hk : stripBracketsList kids with
        | none => rw [hk] at st; cases st
        | some ks' =>
          rw [hk] at st; simp only [Option.map_some, Option.some.injEq] at st; subst st
          obtain ⟨hlen, hall⟩ := wf_tuple_inv (Or.inr rfl) wt
          match ks', hlen, hall with
          | x :: y :: rest, _, hall => exact .sMany (Or.inr rfl) hall
  exact ⟨e', tupleDecl_noBrackets e e' h, tupleDecl_wf e e' t h st wS⟩

/-- a raw local variable (left of `:∈` / `:=`) is a declaration -/
theorem raw_local_decl {c : Cat} (hc : c = .S ∨ c = .L) {e : Ast} (he : RawWf Γ c e) (hid : e.id = .ID_LOCAL) :
    RawWf Γ .D e := by
  obtain ⟨t, st, wt⟩ := he
  cases e with
  | node id d lo hi kids =>
    simp only [Ast.id] at hid; subst hid
    rw [strip_node _ _ _ _ (by decide)] at st
    cases hk : stripBracketsList kids with
    | none => rw [hk] at st; cases st
    | some ks' =>
      rw [hk] at st; simp only [Option.map_some, Option.some.injEq] at st; subst st
      obtain ⟨x, rfl⟩ := wf_local_inv hc wt
      exact ⟨_, by rw [strip_node _ _ _ _ (by decide), hk]; rfl, .dLocal⟩

end CCVerif.ParserShape
