import CCVerif.Lemmas.CheckerScope
import CCVerif.Lemmas.CheckerTotal
/-!
Soundness of the checker model with respect to `Spec.HasType` on the fragment `Core1`
(C03 `check_sound_partial1`): every construct of the expression grammar — the binder-free core,
bound variables, quantifiers with variable / tuple / enumerated declarations, the declarative
set-builder, ×, tuples, enumerations, imperative and recursive terms, filters, calls with template
instantiation. One lemma per construct (`*_ok`), parametric in what is known about the children
(`VOk` for expressions, `DOk` / `DEOk` for declaration patterns, `BOk` for imperative blocks).
-/
namespace CCVerif.Checker
open CCVerif.Syntax CCVerif.Types CCVerif.Spec

/-! ## what a successful visit establishes -/

/-- expression `e` (category `c`: set or logic position) visited with fuel `n` -/
def VOk (Γ : Ctx) (n : Nat) (c : Cat) (e : Ast) : Prop :=
  ∀ (p : Option Tok) (s s' : St) (Δ : Env), visit Γ n p e s = (.ok (), s') → GoodSt s → Rel Γ s Δ →
    HasType Γ Δ e s'.cur ∧ Same s s' ∧ (c = .L → s'.cur = .logic) ∧
      (c = .S → isOperandPos p = true → ∃ t, s'.cur = .ty t) ∧ (CtxOk Γ → CleanE Γ s'.cur)

/-- `ViLocal` declares (instead of looking up) the variable -/
def DeclMode (s : St) : Prop := s.localDecl ≠ 0 ∨ s.argDecl ≠ 0

theorem DeclMode.of_sameF {s s' : St} (h : DeclMode s) (hf : SameF s s') : DeclMode s' := by
  rcases h with h | h
  · exact Or.inl (by rw [hf.localDecl]; exact h)
  · exact Or.inr (by rw [hf.argDecl]; exact h)

/-- declaration pattern visited in declaration mode with `currentType = t` -/
def DOk (Γ : Ctx) (n : Nat) (pat : Ast) : Prop :=
  ∀ (p : Option Tok) (s s' : St) (Δ : Env) (t : Ty), visit Γ n p pat s = (.ok (), s') →
    s.cur = .ty t → DeclMode s → Rel Γ s Δ → (CtxOk Γ → CleanTy Γ t) →
    ∃ Δ', Binds Δ pat t Δ' ∧ Rel Γ s' Δ' ∧ Ext s s' ∧ s'.cur = .ty t

/-- the same without the claim about `currentType` afterwards (enumerated declarations) -/
def DEOk (Γ : Ctx) (n : Nat) (pat : Ast) : Prop :=
  ∀ (p : Option Tok) (s s' : St) (Δ : Env) (t : Ty), visit Γ n p pat s = (.ok (), s') →
    s.cur = .ty t → DeclMode s → Rel Γ s Δ → (CtxOk Γ → CleanTy Γ t) →
    ∃ Δ', Binds Δ pat t Δ' ∧ Rel Γ s' Δ' ∧ Ext s s'

theorem DOk.toDE {Γ : Ctx} {n : Nat} {pat : Ast} (h : DOk Γ n pat) : DEOk Γ n pat := by
  intro p s s' Δ t hv hc hl hr hct
  obtain ⟨Δ', b, r, e, _⟩ := h p s s' Δ t hv hc hl hr hct
  exact ⟨Δ', b, r, e⟩

/-! ## inversion lemmas that keep the state -/

theorem setCur_ok' {t : ExprTy} {s s' : St} (h : setCur t s = (.ok (), s')) : s'.cur = t ∧ Same s s' := by
  simp [setCur] at h; subst h
  exact ⟨rfl, Same.of_locals rfl ⟨rfl, rfl, rfl, rfl, id⟩⟩

theorem expectTy_ok' {site : String} {r : ExprTy} {t : Ty} {s s' : St}
    (h : expectTy site r s = (.ok t, s')) : r = .ty t ∧ s = s' := by
  unfold expectTy at h
  cases r with
  | logic => simp [stuckM] at h
  | ty t' => simp [M.pure] at h; exact ⟨by rw [h.1], h.2⟩

theorem getSt_ok {a s s' : St} (h : getSt s = (.ok a, s')) : s = a ∧ s = s' := by
  simp [getSt] at h; exact ⟨h.1, h.2⟩

theorem textOf_ok {t : Tok} {x nm : String} {lo hi : Int} {ks : List Ast} {s s' : St}
    (h : textOf (.node t (.text x) lo hi ks) s = (.ok nm, s')) : x = nm ∧ s = s' := by
  simp [textOf, M.pure, Ast.data] at h; exact ⟨h.1, h.2⟩

theorem childType_ok' {v : Visitor} {a : Ast} {i : Nat} {τ : ExprTy} {s s' : St}
    (h : childType v a i s = (.ok τ, s')) :
    ∃ k s1, a.kid i = some k ∧ v (some a.id) k s = (.ok (), s1) ∧ s1.cur = τ ∧ Same s1 s' := by
  unfold childType at h
  obtain ⟨k, s0, h1, h2⟩ := bind_ok h
  obtain ⟨hk, hs⟩ := kidM_ok h1
  subst hs
  refine ⟨k, ?_⟩
  dsimp only at h2
  cases hv : v (some a.id) k s0 with
  | mk r s1 =>
    rw [hv] at h2
    cases r with
    | ok u =>
      simp at h2
      obtain ⟨h2a, h2b⟩ := h2
      subst h2b
      exact ⟨s1, hk, rfl, h2a, Same.of_locals rfl ⟨rfl, rfl, rfl, rfl, id⟩⟩
    | fail => simp at h2
    | stuck x => simp at h2

theorem childTypeDebool_ok' {v : Visitor} {a : Ast} {i eid : Nat} {tok : Bool} {d : Ty} {s s' : St}
    (h : childTypeDebool v a i eid tok s = (.ok d, s')) :
    ∃ k s1 t, a.kid i = some k ∧ v (some a.id) k s = (.ok (), s1) ∧ s1.cur = .ty t ∧ Debool t d ∧ Same s1 s' := by
  unfold childTypeDebool at h
  obtain ⟨r, s0, h1, h2⟩ := bind_ok h
  obtain ⟨k, s1, hk, hv, hc, hsame⟩ := childType_ok' h1
  cases r with
  | logic => exact absurd h2 failSilent_ok
  | ty t =>
    dsimp only at h2
    split at h2
    · rename_i hany
      obtain ⟨e, hs⟩ := pure_ok h2; subst e; subst hs
      refine ⟨k, s1, t, hk, hv, hc, ?_, hsame⟩
      cases t with
      | base b => simp [Ty.isAny] at hany; subst hany; exact Debool.any
      | coll b => simp [Ty.isAny] at hany
      | tuple cs => simp [Ty.isAny] at hany
    · split at h2
      · obtain ⟨e, hs⟩ := pure_ok h2; subst e; subst hs
        exact ⟨k, s1, _, hk, hv, hc, Debool.coll _, hsame⟩
      · obtain ⟨k', s2, _, h4⟩ := bind_ok h2
        split at h4
        · exact absurd h4 errFailTok_ok
        · exact absurd h4 errFail_ok

theorem debool_clean {Γ : Ctx} {t d : Ty} (h : Debool t d) (ht : CleanTy Γ t) : CleanTy Γ d := by
  cases h with
  | coll => exact idsIn_coll.mp ht
  | any => exact ht

/-! ## children -/

theorem childType_spec {Γ : Ctx} {n : Nat} {c : Cat} {a k : Ast} {i : Nat} {τ : ExprTy} {s s' : St} {Δ : Env}
    (hk : a.kid i = some k) (hv : VOk Γ n c k)
    (h : childType (visit Γ n) a i s = (.ok τ, s')) (hg : GoodSt s) (hr : Rel Γ s Δ) :
    HasType Γ Δ k τ ∧ Same s s' ∧ (c = .L → τ = .logic) ∧
      (emptySetInvalidParents.contains a.id = true → notEmptyLit k) ∧
      (c = .S → isOperandPos (some a.id) = true → ∃ t, τ = .ty t) ∧ (CtxOk Γ → CleanE Γ τ) := by
  obtain ⟨k', s1, hk', hvis, hc, hsame⟩ := childType_ok' h
  rw [hk] at hk'; cases hk'
  obtain ⟨ht, hs, hl, hty, hcl⟩ := hv _ _ _ _ hvis hg hr
  exact ⟨hc ▸ ht, hs.trans hsame, fun e => hc ▸ hl e, fun hp => not_empty_of_ok Γ hp hvis,
    fun e1 e2 => hc ▸ hty e1 e2, fun hx => hc ▸ hcl hx⟩

theorem childTypeDebool_spec {Γ : Ctx} {n : Nat} {c : Cat} {a k : Ast} {i eid : Nat} {tok : Bool} {d : Ty}
    {s s' : St} {Δ : Env}
    (hk : a.kid i = some k) (hv : VOk Γ n c k)
    (h : childTypeDebool (visit Γ n) a i eid tok s = (.ok d, s')) (hg : GoodSt s) (hr : Rel Γ s Δ) :
    ∃ t, HasType Γ Δ k (.ty t) ∧ Debool t d ∧ Same s s' ∧
      (emptySetInvalidParents.contains a.id = true → notEmptyLit k) ∧ (CtxOk Γ → CleanTy Γ d) := by
  obtain ⟨k', s1, t, hk', hvis, hc, hdb, hsame⟩ := childTypeDebool_ok' h
  rw [hk] at hk'; cases hk'
  obtain ⟨ht, hs, _, _, hcl⟩ := hv _ _ _ _ hvis hg hr
  refine ⟨t, hc ▸ ht, hdb, hs.trans hsame, fun hp => not_empty_of_ok Γ hp hvis, fun hx => ?_⟩
  have h1 := hcl hx
  rw [hc] at h1
  exact debool_clean hdb h1

theorem notL {P : Prop} : Cat.S = Cat.L → P := fun h => by cases h
theorem notS {P : Prop} : Cat.L = Cat.S → P := fun h => by cases h

theorem isTy {p : Option Tok} {s' : St} {t : Ty} (h : s'.cur = .ty t) {c : Cat} :
    c = .S → isOperandPos p = true → ∃ t, s'.cur = .ty t := fun _ _ => ⟨t, h⟩

theorem cleanOf {Γ : Ctx} {s' : St} {t : Ty} (h : s'.cur = .ty t) (hc : CtxOk Γ → CleanTy Γ t) :
    CtxOk Γ → CleanE Γ s'.cur := fun hx => by rw [h]; exact hc hx

theorem cleanL {Γ : Ctx} {s' : St} (h : s'.cur = .logic) : CtxOk Γ → CleanE Γ s'.cur :=
  fun _ => by rw [h]; trivial

/-! ## leaves -/

theorem global_ok {Γ : Ctx} {n : Nat} {tok : Tok} {x : String} {lo hi : Int} {ks : List Ast}
    (htok : tok = .ID_GLOBAL ∨ tok = .ID_FUNCTION ∨ tok = .ID_PREDICATE) :
    VOk Γ (n+1) .S (.node tok (.text x) lo hi ks) := by
  intro p s s' Δ h hg hr
  have hd : dispatch Γ (visit Γ n) p (.node tok (.text x) lo hi ks) = viGlobal Γ p (.node tok (.text x) lo hi ks) := by
    rcases htok with rfl | rfl | rfl <;> rfl
  simp only [visit, hd] at h
  unfold viGlobal at h
  obtain ⟨al, s1, h1, h⟩ := bind_ok h
  simp [textOf, M.pure, Ast.data] at h1
  obtain ⟨rfl, rfl⟩ := h1
  by_cases hf : (lookup Γ.funcs x).isSome = true
  · simp only [hf, if_true] at h; exact absurd h errFail_ok
  · simp only [hf, Bool.false_eq_true, if_false] at h
    cases ht : lookup Γ.types x with
    | none => simp only [ht] at h; exact absurd h errFail_ok
    | some τ =>
      simp only [ht] at h
      by_cases hop : (isLogicTy τ && isOperandPos p) = true
      · simp only [hop, if_true] at h; exact absurd h errFail_ok
      · simp only [hop, Bool.false_eq_true, if_false] at h
        obtain ⟨hcur, hsame⟩ := setCur_ok' h
        refine ⟨hcur ▸ HasType.global htok (by simpa using hf) ht, hsame, notL, fun _ hop' => ?_, fun hx => ?_⟩
        · cases τ with
          | ty t => exact ⟨t, hcur⟩
          | logic => simp [isLogicTy, hop'] at hop
        · rw [hcur]
          cases τ with
          | logic => trivial
          | ty t =>
            have hfn : lookup Γ.funcs x = none := by
              cases hl : lookup Γ.funcs x with
              | none => rfl
              | some d => rw [hl] at hf; simp at hf
            exact hx.globals x t ht hfn

theorem local_ok {Γ : Ctx} {n : Nat} {x : String} {lo hi : Int} {ks : List Ast} :
    VOk Γ (n+1) .S (.node .ID_LOCAL (.text x) lo hi ks) := by
  intro p s s' Δ h hg hr
  change viLocal (.node .ID_LOCAL (.text x) lo hi ks) s = _ at h
  unfold viLocal at h
  obtain ⟨nm, s1, h1, g1⟩ := bind_ok h
  obtain ⟨rfl, rfl⟩ := textOf_ok h1
  obtain ⟨s0, s2, h2, g2⟩ := bind_ok g1
  obtain ⟨rfl, rfl⟩ := getSt_ok h2
  have hcond : (decide (s.localDecl > 0) || decide (s.argDecl > 0)) = false := by
    simp [hg.1, hg.2.1]
  simp only [hcond, Bool.false_eq_true, if_false] at g2
  obtain ⟨t, s3, h3, g3⟩ := bind_ok g2
  obtain ⟨⟨l, hview⟩, hs12, _⟩ := getLocal_ok h3
  obtain ⟨hcur, hs23⟩ := setCur_ok' g3
  have hget : Δ.get? x = some t := by rw [hr.vars x, hview]; rfl
  exact ⟨hcur ▸ HasType.local_ hget, hs12.trans hs23, notL, isTy hcur, cleanOf hcur (fun hx => hr.clean hx x t hget)⟩

theorem radical_ok {Γ : Ctx} {n : Nat} {x : String} {lo hi : Int} {ks : List Ast} (hx : CtxOk Γ → CleanId Γ x) :
    VOk Γ (n+1) .S (.node .ID_RADICAL (.text x) lo hi ks) := by
  intro p s s' Δ h hg hr
  change viRadical Γ (.node .ID_RADICAL (.text x) lo hi ks) s = _ at h
  unfold viRadical at h
  obtain ⟨nm, s1, h1, g1⟩ := bind_ok h
  obtain ⟨rfl, rfl⟩ := textOf_ok h1
  obtain ⟨s0, s2, h2, g2⟩ := bind_ok g1
  obtain ⟨rfl, rfl⟩ := getSt_ok h2
  by_cases hc : (s.funcDecl == 0 && !Γ.isTypification) = true
  · simp only [hc, if_true] at g2; exact absurd g2 errFail_ok
  · simp only [hc, Bool.false_eq_true, if_false] at g2
    obtain ⟨hcur, hsame⟩ := setCur_ok' g2
    refine ⟨hcur ▸ HasType.radical ?_, hsame, notL, isTy hcur,
      cleanOf hcur (fun hc' => idsIn_coll.mpr (idsIn_base.mpr (hx hc')))⟩
    by_cases hfd : s.funcDecl = 0
    · right; simpa [hfd] using hc
    · left; exact hr.fd hfd

theorem int_ok {Γ : Ctx} {n : Nat} {d : TokData} {lo hi : Int} {ks : List Ast} :
    VOk Γ (n+1) .S (.node .LIT_INTEGER d lo hi ks) := by
  intro p s s' Δ h hg hr
  change setCur _ s = _ at h
  obtain ⟨hcur, hsame⟩ := setCur_ok' h
  exact ⟨hcur ▸ HasType.int, hsame, notL, isTy hcur, cleanOf hcur (fun _ => cleanTy_Z Γ)⟩

theorem intset_ok {Γ : Ctx} {n : Nat} {d : TokData} {lo hi : Int} {ks : List Ast} :
    VOk Γ (n+1) .S (.node .LIT_INTSET d lo hi ks) := by
  intro p s s' Δ h hg hr
  change setCur _ s = _ at h
  obtain ⟨hcur, hsame⟩ := setCur_ok' h
  exact ⟨hcur ▸ HasType.intset, hsame, notL, isTy hcur, cleanOf hcur (fun _ => idsIn_coll.mpr (cleanTy_Z Γ))⟩

theorem emptyset_ok {Γ : Ctx} {n : Nat} {d : TokData} {lo hi : Int} {ks : List Ast} :
    VOk Γ (n+1) .S (.node .LIT_EMPTYSET d lo hi ks) := by
  intro p s s' Δ h hg hr
  change viEmptySet p (.node .LIT_EMPTYSET d lo hi ks) s = _ at h
  unfold viEmptySet at h
  by_cases hp : emptySetMisused p = true
  · simp only [hp, if_true] at h; exact absurd h errFail_ok
  · simp only [hp, Bool.false_eq_true, if_false] at h
    obtain ⟨hcur, hsame⟩ := setCur_ok' h
    exact ⟨hcur ▸ HasType.emptyset, hsame, notL, isTy hcur, cleanOf hcur (fun _ => cleanTy_emptySet Γ)⟩

/-! ## operators of the core -/

theorem arith_ok {Γ : Ctx} {n : Nat} {tok : Tok} {d : TokData} {lo hi : Int} {a b : Ast}
    (htok : tok = .PLUS ∨ tok = .MINUS ∨ tok = .MULTIPLY) (ha : VOk Γ n .S a) (hb : VOk Γ n .S b) :
    VOk Γ (n+1) .S (.node tok d lo hi [a, b]) := by
  intro p s s' Δ h hg hr
  have hd : dispatch Γ (visit Γ n) p (.node tok d lo hi [a, b]) = viArithmetic Γ (visit Γ n) (.node tok d lo hi [a, b]) := by
    rcases htok with rfl | rfl | rfl <;> rfl
  simp only [visit, hd] at h
  unfold viArithmetic at h
  obtain ⟨r1, s1, h1, g1⟩ := bind_ok h
  obtain ⟨i1, m1, _, _, _, c1⟩ := childType_spec kid0 ha h1 hg hr
  obtain ⟨t1, s2, h2, g2⟩ := bind_ok g1
  obtain ⟨rfl, rfl⟩ := expectTy_ok' h2
  by_cases ha1 : (!isArithmetic Γ.traits t1) = true
  · simp only [ha1, if_true] at g2; exact absurd g2 kidErr_ok
  · simp only [ha1, Bool.false_eq_true, if_false] at g2
    obtain ⟨r2, s3, h3, g3⟩ := bind_ok g2
    obtain ⟨i2, m2, _, _, _, c2⟩ := childType_spec kid1 hb h3 (hg.of_same m1) (hr.of_same m1)
    obtain ⟨t2, s4, h4, g4⟩ := bind_ok g3
    obtain ⟨rfl, rfl⟩ := expectTy_ok' h4
    by_cases ha2 : (!isArithmetic Γ.traits t2) = true
    · simp only [ha2, if_true] at g4; exact absurd g4 kidErr_ok
    · simp only [ha2, Bool.false_eq_true, if_false] at g4
      cases hm : merge Γ.traits t1 t2 with
      | none => simp only [hm] at g4; exact absurd g4 kidErr_ok
      | some t =>
        simp only [hm] at g4
        obtain ⟨hcur, m3⟩ := setCur_ok' g4
        exact ⟨hcur ▸ HasType.arith htok i1 i2 (by simpa using ha1) (by simpa using ha2) hm,
          (m1.trans m2).trans m3, notL, isTy hcur,
          cleanOf hcur (fun hx => idsIn_merge _ _ _ _ hm (c1 hx) (c2 hx))⟩

theorem card_ok {Γ : Ctx} {n : Nat} {d : TokData} {lo hi : Int} {a : Ast} (ha : VOk Γ n .S a) :
    VOk Γ (n+1) .S (.node .CARD d lo hi [a]) := by
  intro p s s' Δ h hg hr
  change viCard (visit Γ n) (.node .CARD d lo hi [a]) s = _ at h
  unfold viCard at h
  obtain ⟨dd, s1, h1, g1⟩ := bind_ok h
  obtain ⟨t, i1, hdb, m1, hne, _⟩ := childTypeDebool_spec kid0 ha h1 hg hr
  obtain ⟨hcur, m2⟩ := setCur_ok' g1
  exact ⟨hcur ▸ HasType.card (hne rfl) i1 hdb, m1.trans m2, notL, isTy hcur, cleanOf hcur (fun _ => cleanTy_Z Γ)⟩

theorem boolean_ok {Γ : Ctx} {n : Nat} {d : TokData} {lo hi : Int} {a : Ast} (ha : VOk Γ n .S a) :
    VOk Γ (n+1) .S (.node .BOOLEAN d lo hi [a]) := by
  intro p s s' Δ h hg hr
  change viBoolean (visit Γ n) (.node .BOOLEAN d lo hi [a]) s = _ at h
  unfold viBoolean at h
  obtain ⟨dd, s1, h1, g1⟩ := bind_ok h
  obtain ⟨t, i1, hdb, m1, _, c1⟩ := childTypeDebool_spec kid0 ha h1 hg hr
  obtain ⟨hcur, m2⟩ := setCur_ok' g1
  exact ⟨hcur ▸ HasType.boolean i1 hdb, m1.trans m2, notL, isTy hcur,
    cleanOf hcur (fun hx => idsIn_coll.mpr (idsIn_coll.mpr (c1 hx)))⟩

theorem debool_ok {Γ : Ctx} {n : Nat} {d : TokData} {lo hi : Int} {a : Ast} (ha : VOk Γ n .S a) :
    VOk Γ (n+1) .S (.node .DEBOOL d lo hi [a]) := by
  intro p s s' Δ h hg hr
  change viDebool (visit Γ n) (.node .DEBOOL d lo hi [a]) s = _ at h
  unfold viDebool at h
  obtain ⟨dd, s1, h1, g1⟩ := bind_ok h
  obtain ⟨t, i1, hdb, m1, hne, c1⟩ := childTypeDebool_spec kid0 ha h1 hg hr
  obtain ⟨hcur, m2⟩ := setCur_ok' g1
  exact ⟨hcur ▸ HasType.debool (hne rfl) i1 hdb, m1.trans m2, notL, isTy hcur, cleanOf hcur c1⟩

theorem reduce_ok {Γ : Ctx} {n : Nat} {d : TokData} {lo hi : Int} {a : Ast} (ha : VOk Γ n .S a) :
    VOk Γ (n+1) .S (.node .REDUCE d lo hi [a]) := by
  intro p s s' Δ h hg hr
  change viReduce (visit Γ n) (.node .REDUCE d lo hi [a]) s = _ at h
  unfold viReduce at h
  obtain ⟨r1, s1, h1, g1⟩ := bind_ok h
  obtain ⟨i1, m1, _, hne, _, c1⟩ := childType_spec kid0 ha h1 hg hr
  obtain ⟨t1, s2, h2, g2⟩ := bind_ok g1
  obtain ⟨rfl, rfl⟩ := expectTy_ok' h2
  have hne := hne rfl
  by_cases hany : anyOrEmptySet t1 = true
  · simp only [hany, if_true] at g2
    obtain ⟨hcur, m2⟩ := setCur_ok' g2
    exact ⟨hcur ▸ HasType.reduceAny hne i1 (anyOrEmptySet_cases hany), m1.trans m2, notL, isTy hcur,
      cleanOf hcur (fun _ => cleanTy_emptySet Γ)⟩
  · simp only [hany, Bool.false_eq_true, if_false] at g2
    cases t1 with
    | base x => exact absurd g2 kidErr_ok
    | tuple cs => exact absurd g2 kidErr_ok
    | coll b => cases b with
      | base x => exact absurd g2 kidErr_ok
      | tuple cs => exact absurd g2 kidErr_ok
      | coll e =>
        obtain ⟨hcur, m2⟩ := setCur_ok' g2
        exact ⟨hcur ▸ HasType.reduce hne i1, m1.trans m2, notL, isTy hcur,
          cleanOf hcur (fun hx => idsIn_coll.mp (c1 hx))⟩

theorem order_ok {Γ : Ctx} {n : Nat} {tok : Tok} {d : TokData} {lo hi : Int} {a b : Ast}
    (htok : tok = .GREATER ∨ tok = .LESSER ∨ tok = .GREATER_OR_EQ ∨ tok = .LESSER_OR_EQ)
    (ha : VOk Γ n .S a) (hb : VOk Γ n .S b) : VOk Γ (n+1) .L (.node tok d lo hi [a, b]) := by
  intro p s s' Δ h hg hr
  have hd : dispatch Γ (visit Γ n) p (.node tok d lo hi [a, b]) = viIntegerPredicate Γ (visit Γ n) (.node tok d lo hi [a, b]) := by
    rcases htok with rfl | rfl | rfl | rfl <;> rfl
  simp only [visit, hd] at h
  unfold viIntegerPredicate at h
  obtain ⟨r1, s1, h1, g1⟩ := bind_ok h
  obtain ⟨i1, m1, _, _⟩ := childType_spec kid0 ha h1 hg hr
  obtain ⟨t1, s2, h2, g2⟩ := bind_ok g1
  obtain ⟨rfl, rfl⟩ := expectTy_ok' h2
  by_cases ha1 : (!isOrdered Γ.traits t1) = true
  · simp only [ha1, if_true] at g2; exact absurd g2 kidErr_ok
  · simp only [ha1, Bool.false_eq_true, if_false] at g2
    obtain ⟨r2, s3, h3, g3⟩ := bind_ok g2
    obtain ⟨i2, m2, _, _⟩ := childType_spec kid1 hb h3 (hg.of_same m1) (hr.of_same m1)
    obtain ⟨t2, s4, h4, g4⟩ := bind_ok g3
    obtain ⟨rfl, rfl⟩ := expectTy_ok' h4
    by_cases ha2 : (!isOrdered Γ.traits t2) = true
    · simp only [ha2, if_true] at g4; exact absurd g4 kidErr_ok
    · simp only [ha2, Bool.false_eq_true, if_false] at g4
      by_cases hcm : (!compat Γ.traits t1 t2) = true
      · simp only [hcm, if_true] at g4; exact absurd g4 kidErr_ok
      · simp only [hcm, Bool.false_eq_true, if_false] at g4
        obtain ⟨hcur, m3⟩ := setCur_ok' g4
        exact ⟨hcur ▸ HasType.order htok i1 i2 (by simpa using ha1) (by simpa using ha2) (by simpa using hcm),
          (m1.trans m2).trans m3, fun _ => hcur, notS, cleanL hcur⟩

theorem equal_ok {Γ : Ctx} {n : Nat} {tok : Tok} {d : TokData} {lo hi : Int} {a b : Ast}
    (htok : tok = .EQUAL ∨ tok = .NOTEQUAL)
    (ha : VOk Γ n .S a) (hb : VOk Γ n .S b) : VOk Γ (n+1) .L (.node tok d lo hi [a, b]) := by
  intro p s s' Δ h hg hr
  have hd : dispatch Γ (visit Γ n) p (.node tok d lo hi [a, b]) = viEquals Γ (visit Γ n) (.node tok d lo hi [a, b]) := by
    rcases htok with rfl | rfl <;> rfl
  simp only [visit, hd] at h
  unfold viEquals at h
  obtain ⟨r1, s1, h1, g1⟩ := bind_ok h
  obtain ⟨i1, m1, _, _⟩ := childType_spec kid0 ha h1 hg hr
  obtain ⟨t1, s2, h2, g2⟩ := bind_ok g1
  obtain ⟨rfl, rfl⟩ := expectTy_ok' h2
  obtain ⟨r2, s3, h3, g3⟩ := bind_ok g2
  obtain ⟨i2, m2, _, _⟩ := childType_spec kid1 hb h3 (hg.of_same m1) (hr.of_same m1)
  obtain ⟨t2, s4, h4, g4⟩ := bind_ok g3
  obtain ⟨rfl, rfl⟩ := expectTy_ok' h4
  by_cases hcm : (!compat Γ.traits t1 t2) = true
  · simp only [hcm, if_true] at g4; exact absurd g4 kidErr_ok
  · simp only [hcm, Bool.false_eq_true, if_false] at g4
    obtain ⟨hcur, m3⟩ := setCur_ok' g4
    exact ⟨hcur ▸ HasType.equal htok i1 i2 (by simpa using hcm), (m1.trans m2).trans m3, fun _ => hcur, notS, cleanL hcur⟩

theorem elem_ok {Γ : Ctx} {n : Nat} {tok : Tok} {d : TokData} {lo hi : Int} {a b : Ast}
    (htok : tok = .IN ∨ tok = .NOTIN)
    (ha : VOk Γ n .S a) (hb : VOk Γ n .S b) : VOk Γ (n+1) .L (.node tok d lo hi [a, b]) := by
  intro p s s' Δ h hg hr
  have hd : dispatch Γ (visit Γ n) p (.node tok d lo hi [a, b]) = viSetexprPredicate Γ (visit Γ n) (.node tok d lo hi [a, b]) := by
    rcases htok with rfl | rfl <;> rfl
  have hsub : isSubsetTok (Ast.node tok d lo hi [a, b]).id = false := by
    rcases htok with rfl | rfl <;> rfl
  simp only [visit, hd] at h
  unfold viSetexprPredicate at h
  obtain ⟨d2, s1, h1, g1⟩ := bind_ok h
  obtain ⟨t2, i2, hdb, m1, _⟩ := childTypeDebool_spec kid1 hb h1 hg hr
  simp only [hsub, Bool.false_eq_true, if_false] at g1
  obtain ⟨r1, s2, h2, g2⟩ := bind_ok g1
  obtain ⟨i1, m2, _, _⟩ := childType_spec kid0 ha h2 (hg.of_same m1) (hr.of_same m1)
  cases r1 with
  | logic => simp only [compatE] at g2; exact absurd g2 kidErr_ok
  | ty t1 =>
    simp only [compatE] at g2
    cases hcm : compat Γ.traits t1 d2 with
    | false => simp only [hcm] at g2; exact absurd g2 kidErr_ok
    | true =>
      simp only [hcm] at g2
      obtain ⟨hcur, m3⟩ := setCur_ok' g2
      exact ⟨hcur ▸ HasType.elem htok i1 i2 hdb hcm, (m1.trans m2).trans m3, fun _ => hcur, notS, cleanL hcur⟩

theorem subset_ok {Γ : Ctx} {n : Nat} {tok : Tok} {d : TokData} {lo hi : Int} {a b : Ast}
    (htok : tok = .SUBSET ∨ tok = .SUBSET_OR_EQ ∨ tok = .NOTSUBSET)
    (ha : VOk Γ n .S a) (hb : VOk Γ n .S b) : VOk Γ (n+1) .L (.node tok d lo hi [a, b]) := by
  intro p s s' Δ h hg hr
  have hd : dispatch Γ (visit Γ n) p (.node tok d lo hi [a, b]) = viSetexprPredicate Γ (visit Γ n) (.node tok d lo hi [a, b]) := by
    rcases htok with rfl | rfl | rfl <;> rfl
  have hsub : isSubsetTok (Ast.node tok d lo hi [a, b]).id = true := by
    rcases htok with rfl | rfl | rfl <;> rfl
  simp only [visit, hd] at h
  unfold viSetexprPredicate at h
  obtain ⟨d2, s1, h1, g1⟩ := bind_ok h
  obtain ⟨t2, i2, hdb, m1, _⟩ := childTypeDebool_spec kid1 hb h1 hg hr
  simp only [hsub, if_true] at g1
  obtain ⟨r1, s2, h2, g2⟩ := bind_ok g1
  obtain ⟨i1, m2, _, _⟩ := childType_spec kid0 ha h2 (hg.of_same m1) (hr.of_same m1)
  cases r1 with
  | logic => simp only [compatE] at g2; exact absurd g2 kidErr_ok
  | ty t1 =>
    simp only [compatE] at g2
    cases hcm : compat Γ.traits t1 (.coll d2) with
    | false => simp only [hcm] at g2; exact absurd g2 kidErr_ok
    | true =>
      simp only [hcm] at g2
      obtain ⟨hcur, m3⟩ := setCur_ok' g2
      exact ⟨hcur ▸ HasType.subset htok i1 i2 hdb hcm, (m1.trans m2).trans m3, fun _ => hcur, notS, cleanL hcur⟩

theorem not_ok {Γ : Ctx} {n : Nat} {d : TokData} {lo hi : Int} {a : Ast} (ha : VOk Γ n .L a) :
    VOk Γ (n+1) .L (.node .NOT d lo hi [a]) := by
  intro p s s' Δ h hg hr
  change viAllLogic (visit Γ n) (.node .NOT d lo hi [a]) s = _ at h
  unfold viAllLogic at h
  obtain ⟨u, s1, h1, g1⟩ := bind_ok h
  obtain ⟨hcur, m2⟩ := setCur_ok' g1
  simp only [Ast.kids, visitAll] at h1
  obtain ⟨u1, s2, hv, g2⟩ := bind_ok h1
  obtain ⟨_, rfl⟩ := pure_ok g2
  obtain ⟨i1, m1, hl, _, _⟩ := ha _ _ _ _ hv hg hr
  exact ⟨hcur ▸ HasType.not (hl rfl ▸ i1), m1.trans m2, fun _ => hcur, notS, cleanL hcur⟩

theorem logbin_ok {Γ : Ctx} {n : Nat} {tok : Tok} {d : TokData} {lo hi : Int} {a b : Ast}
    (htok : tok = .AND ∨ tok = .OR ∨ tok = .IMPLICATION ∨ tok = .EQUIVALENT)
    (ha : VOk Γ n .L a) (hb : VOk Γ n .L b) : VOk Γ (n+1) .L (.node tok d lo hi [a, b]) := by
  intro p s s' Δ h hg hr
  have hd : dispatch Γ (visit Γ n) p (.node tok d lo hi [a, b]) = viAllLogic (visit Γ n) (.node tok d lo hi [a, b]) := by
    rcases htok with rfl | rfl | rfl | rfl <;> rfl
  simp only [visit, hd] at h
  unfold viAllLogic at h
  obtain ⟨u, s1, h1, g1⟩ := bind_ok h
  obtain ⟨hcur, m3⟩ := setCur_ok' g1
  simp only [Ast.kids, visitAll] at h1
  obtain ⟨u1, s2, hv1, g2⟩ := bind_ok h1
  obtain ⟨u2, s3, hv2, g3⟩ := bind_ok g2
  obtain ⟨_, rfl⟩ := pure_ok g3
  obtain ⟨i1, m1, hl1, _, _⟩ := ha _ _ _ _ hv1 hg hr
  obtain ⟨i2, m2, hl2, _, _⟩ := hb _ _ _ _ hv2 (hg.of_same m1) (hr.of_same m1)
  exact ⟨hcur ▸ HasType.logbin htok (hl1 rfl ▸ i1) (hl2 rfl ▸ i2), (m1.trans m2).trans m3, fun _ => hcur, notS, cleanL hcur⟩

theorem setbin_ok {Γ : Ctx} {n : Nat} {tok : Tok} {d : TokData} {lo hi : Int} {a b : Ast}
    (htok : tok = .UNION ∨ tok = .INTERSECTION ∨ tok = .SET_MINUS ∨ tok = .SYMMINUS)
    (ha : VOk Γ n .S a) (hb : VOk Γ n .S b) : VOk Γ (n+1) .S (.node tok d lo hi [a, b]) := by
  intro p s s' Δ h hg hr
  have hd : dispatch Γ (visit Γ n) p (.node tok d lo hi [a, b]) = viSetexprBinary Γ (visit Γ n) (.node tok d lo hi [a, b]) := by
    rcases htok with rfl | rfl | rfl | rfl <;> rfl
  have hpar : emptySetInvalidParents.contains (Ast.node tok d lo hi [a, b]).id = true := by
    rcases htok with rfl | rfl | rfl | rfl <;> rfl
  simp only [visit, hd] at h
  unfold viSetexprBinary at h
  obtain ⟨d1, s1, h1, g1⟩ := bind_ok h
  obtain ⟨t1, i1, hdb1, m1, hne1, c1⟩ := childTypeDebool_spec kid0 ha h1 hg hr
  obtain ⟨d2, s2, h2, g2⟩ := bind_ok g1
  obtain ⟨t2, i2, hdb2, m2, hne2, c2⟩ := childTypeDebool_spec kid1 hb h2 (hg.of_same m1) (hr.of_same m1)
  cases hm : merge Γ.traits d1 d2 with
  | none => simp only [hm] at g2; exact absurd g2 kidErr_ok
  | some m =>
    simp only [hm] at g2
    obtain ⟨hcur, m3⟩ := setCur_ok' g2
    exact ⟨hcur ▸ HasType.setbin htok (hne1 hpar) (hne2 hpar) i1 hdb1 i2 hdb2 hm, (m1.trans m2).trans m3, notL,
      isTy hcur, cleanOf hcur (fun hx => idsIn_coll.mpr (idsIn_merge _ _ _ _ hm (c1 hx) (c2 hx)))⟩

theorem bigpr_ok {Γ : Ctx} {n : Nat} {idx : List Int} {lo hi : Int} {a : Ast} (ha : VOk Γ n .S a) :
    VOk Γ (n+1) .S (.node .BIGPR (.tuple idx) lo hi [a]) := by
  intro p s s' Δ h hg hr
  change viProjectSet (visit Γ n) (.node .BIGPR (.tuple idx) lo hi [a]) s = _ at h
  unfold viProjectSet at h
  obtain ⟨arg, s1, h1, g1⟩ := bind_ok h
  obtain ⟨t, i1, hdb, m1, hne, c1⟩ := childTypeDebool_spec kid0 ha h1 hg hr
  have hne := hne rfl
  by_cases hany : arg.isAny = true
  · simp only [hany, if_true] at g1
    obtain ⟨hcur, m2⟩ := setCur_ok' g1
    have := isAny_eq hany; subst this
    exact ⟨hcur ▸ HasType.bigprAny hne i1 hdb, m1.trans m2, notL, isTy hcur, cleanOf hcur (fun _ => cleanTy_emptySet Γ)⟩
  · simp only [hany, Bool.false_eq_true, if_false] at g1
    cases arg with
    | base x => exact absurd g1 kidErrTok_ok
    | coll b => exact absurd g1 kidErrTok_ok
    | tuple cs =>
      simp only [] at g1
      obtain ⟨idx', s2, h2, g2⟩ := bind_ok g1
      simp [tupleOfData, Ast.data, M.pure] at h2
      obtain ⟨rfl, rfl⟩ := h2
      cases hp : pickComponents cs idx with
      | none => simp only [hp] at g2; exact absurd g2 kidErrTok_ok
      | some comps =>
        simp only [hp] at g2
        obtain ⟨tt, s3, h3, g3⟩ := bind_ok g2
        obtain ⟨hne2, rfl⟩ := mkTuple_ok h3
        have hs : s1 = s3 := by
          unfold mkTuple at h3; split at h3
          · exact absurd h3 stuck_ok
          · exact (pure_ok h3).2
        subst hs
        obtain ⟨hcur, m2⟩ := setCur_ok' g3
        exact ⟨hcur ▸ HasType.bigpr hne i1 hdb (pick_of_pickComponents cs idx comps hp) hne2, m1.trans m2, notL,
          isTy hcur, cleanOf hcur (fun hx => idsIn_coll.mpr (idsIn_tupleOf
            (idsIn_pick (idsIn_tuple.mp (c1 hx)) idx comps (pick_of_pickComponents cs idx comps hp))))⟩

theorem smallpr_ok {Γ : Ctx} {n : Nat} {idx : List Int} {lo hi : Int} {a : Ast} (ha : VOk Γ n .S a) :
    VOk Γ (n+1) .S (.node .SMALLPR (.tuple idx) lo hi [a]) := by
  intro p s s' Δ h hg hr
  change viProjectTuple (visit Γ n) (.node .SMALLPR (.tuple idx) lo hi [a]) s = _ at h
  unfold viProjectTuple at h
  obtain ⟨r1, s1, h1, g1⟩ := bind_ok h
  obtain ⟨i1, m1, _, hne, _, c1⟩ := childType_spec kid0 ha h1 hg hr
  obtain ⟨arg, s2, h2, g2⟩ := bind_ok g1
  obtain ⟨rfl, rfl⟩ := expectTy_ok' h2
  have hne := hne rfl
  by_cases hany : arg.isAny = true
  · simp only [hany, if_true] at g2
    obtain ⟨hcur, m2⟩ := setCur_ok' g2
    have := isAny_eq hany; subst this
    exact ⟨hcur ▸ HasType.smallprAny hne i1, m1.trans m2, notL, isTy hcur, cleanOf hcur (fun _ => cleanTy_R0 Γ)⟩
  · simp only [hany, Bool.false_eq_true, if_false] at g2
    cases arg with
    | base x => exact absurd g2 kidErrTok_ok
    | coll b => exact absurd g2 kidErrTok_ok
    | tuple cs =>
      simp only [] at g2
      obtain ⟨idx', s3, h3, g3⟩ := bind_ok g2
      simp [tupleOfData, Ast.data, M.pure] at h3
      obtain ⟨rfl, rfl⟩ := h3
      cases hp : pickComponents cs idx with
      | none => simp only [hp] at g3; exact absurd g3 kidErrTok_ok
      | some comps =>
        simp only [hp] at g3
        obtain ⟨tt, s4, h4, g4⟩ := bind_ok g3
        obtain ⟨hne2, rfl⟩ := mkTuple_ok h4
        have hs : s1 = s4 := by
          unfold mkTuple at h4; split at h4
          · exact absurd h4 stuck_ok
          · exact (pure_ok h4).2
        subst hs
        obtain ⟨hcur, m2⟩ := setCur_ok' g4
        exact ⟨hcur ▸ HasType.smallpr hne i1 (pick_of_pickComponents cs idx comps hp) hne2, m1.trans m2, notL,
          isTy hcur, cleanOf hcur (fun hx => idsIn_tupleOf
            (idsIn_pick (idsIn_tuple.mp (c1 hx)) idx comps (pick_of_pickComponents cs idx comps hp)))⟩

/-! ## lists of operands: tuples, ×, enumerations -/

theorem drop_of_getElem? {α : Type} : ∀ (l : List α) (i : Nat) (k : α), l[i]? = some k →
    l.drop i = k :: l.drop (i + 1)
  | [], i, k, h => by simp at h
  | x :: xs, 0, k, h => by simp at h; simp [h]
  | x :: xs, i+1, k, h => by
    simp only [List.getElem?_cons_succ] at h
    simpa using drop_of_getElem? xs i k h

theorem typesAll_ok {Γ : Ctx} {n : Nat} {a : Ast} {site : String} {Δ : Env}
    (hk : ∀ k ∈ a.kids, VOk Γ n .S k) :
    ∀ (m i : Nat) (s s' : St) (ts : List Ty), typesAll (visit Γ n) a site m i s = (.ok ts, s') →
      i + m = a.kids.length → GoodSt s → Rel Γ s Δ →
      HasTypes Γ Δ (a.kids.drop i) ts ∧ Same s s' ∧ (CtxOk Γ → IdsInL (CleanId Γ) ts)
  | 0, i, s, s', ts, h, hl, hg, hr => by
    obtain ⟨rfl, rfl⟩ := pure_ok h
    rw [List.drop_eq_nil_of_le (by omega)]
    exact ⟨HasTypes.nil, Same.refl _, fun _ => idsInL_nil⟩
  | m+1, i, s, s', ts, h, hl, hg, hr => by
    unfold typesAll at h
    obtain ⟨r, s1, h1, g1⟩ := bind_ok h
    obtain ⟨k, _, hki, _, _, _⟩ := childType_ok' h1
    have hmem : k ∈ a.kids := List.mem_of_getElem? hki
    obtain ⟨i1, m1, _, _, _, c1⟩ := childType_spec hki (hk k hmem) h1 hg hr
    obtain ⟨t, s2, h2, g2⟩ := bind_ok g1
    obtain ⟨rfl, rfl⟩ := expectTy_ok' h2
    obtain ⟨ts', s3, h3, g3⟩ := bind_ok g2
    obtain ⟨rfl, rfl⟩ := pure_ok g3
    obtain ⟨i2, m2, c2⟩ := typesAll_ok hk m (i+1) _ _ _ h3 (by omega) (hg.of_same m1) (hr.of_same m1)
    rw [drop_of_getElem? a.kids i k hki]
    exact ⟨HasTypes.cons i1 i2, m1.trans m2, fun hx => idsInL_cons.mpr ⟨c1 hx, c2 hx⟩⟩

theorem deboolAll_ok {Γ : Ctx} {n : Nat} {a : Ast} {eid : Nat} {Δ : Env}
    (hk : ∀ k ∈ a.kids, VOk Γ n .S k) :
    ∀ (m i : Nat) (s s' : St) (ts : List Ty), deboolAll (visit Γ n) a eid m i s = (.ok ts, s') →
      i + m = a.kids.length → GoodSt s → Rel Γ s Δ →
      HasSets Γ Δ (a.kids.drop i) ts ∧ Same s s' ∧ (CtxOk Γ → IdsInL (CleanId Γ) ts)
  | 0, i, s, s', ts, h, hl, hg, hr => by
    obtain ⟨rfl, rfl⟩ := pure_ok h
    rw [List.drop_eq_nil_of_le (by omega)]
    exact ⟨HasSets.nil, Same.refl _, fun _ => idsInL_nil⟩
  | m+1, i, s, s', ts, h, hl, hg, hr => by
    unfold deboolAll at h
    obtain ⟨e, s1, h1, g1⟩ := bind_ok h
    obtain ⟨k, _, _, hki, _, _, _, _⟩ := childTypeDebool_ok' h1
    have hmem : k ∈ a.kids := List.mem_of_getElem? hki
    obtain ⟨t, i1, hdb, m1, _, c1⟩ := childTypeDebool_spec hki (hk k hmem) h1 hg hr
    obtain ⟨ts', s3, h3, g3⟩ := bind_ok g1
    obtain ⟨rfl, rfl⟩ := pure_ok g3
    obtain ⟨i2, m2, c2⟩ := deboolAll_ok hk m (i+1) _ _ _ h3 (by omega) (hg.of_same m1) (hr.of_same m1)
    rw [drop_of_getElem? a.kids i k hki]
    exact ⟨HasSets.cons i1 hdb i2, m1.trans m2, fun hx => idsInL_cons.mpr ⟨c1 hx, c2 hx⟩⟩

theorem enumGo_ok {Γ : Ctx} {n : Nat} {a : Ast} {Δ : Env}
    (hk : ∀ k ∈ a.kids, VOk Γ n .S k) :
    ∀ (m i : Nat) (t r : Ty) (s s' : St), enumGo Γ (visit Γ n) a m i t s = (.ok r, s') →
      i + m = a.kids.length → GoodSt s → Rel Γ s Δ →
      ∃ ts, HasTypes Γ Δ (a.kids.drop i) ts ∧ mergeAll Γ.traits t ts = some r ∧ Same s s' ∧
        (CtxOk Γ → IdsInL (CleanId Γ) ts)
  | 0, i, t, r, s, s', h, hl, hg, hr => by
    obtain ⟨rfl, rfl⟩ := pure_ok h
    rw [List.drop_eq_nil_of_le (by omega)]
    exact ⟨[], HasTypes.nil, rfl, Same.refl _, fun _ => idsInL_nil⟩
  | m+1, i, t, r, s, s', h, hl, hg, hr => by
    unfold enumGo at h
    obtain ⟨rr, s1, h1, g1⟩ := bind_ok h
    obtain ⟨k, _, hki, _, _, _⟩ := childType_ok' h1
    have hmem : k ∈ a.kids := List.mem_of_getElem? hki
    obtain ⟨i1, m1, _, _, _, c1⟩ := childType_spec hki (hk k hmem) h1 hg hr
    obtain ⟨ct, s2, h2, g2⟩ := bind_ok g1
    obtain ⟨rfl, rfl⟩ := expectTy_ok' h2
    cases hm : merge Γ.traits t ct with
    | none => simp only [hm] at g2; exact absurd g2 kidErr_ok
    | some mt =>
      simp only [hm] at g2
      obtain ⟨ts, i2, hma, m2, c2⟩ := enumGo_ok hk m (i+1) _ _ _ _ g2 (by omega) (hg.of_same m1) (hr.of_same m1)
      rw [drop_of_getElem? a.kids i k hki]
      exact ⟨ct :: ts, HasTypes.cons i1 i2, by simp only [mergeAll, hm]; exact hma, m1.trans m2,
        fun hx => idsInL_cons.mpr ⟨c1 hx, c2 hx⟩⟩

theorem mkTuple_ok' {site : String} {cs : List Ty} {t : Ty} {s s' : St}
    (h : mkTuple site cs s = (.ok t, s')) : cs ≠ [] ∧ t = Ty.tupleOf cs ∧ s = s' := by
  obtain ⟨h1, h2⟩ := mkTuple_ok h
  refine ⟨h1, h2, ?_⟩
  unfold mkTuple at h; split at h
  · exact absurd h stuck_ok
  · exact (pure_ok h).2

theorem tuple_ok {Γ : Ctx} {n : Nat} {d : TokData} {lo hi : Int} {a b : Ast} {ks : List Ast}
    (hk : ∀ k ∈ a :: b :: ks, VOk Γ n .S k) : VOk Γ (n+1) .S (.node .NT_TUPLE d lo hi (a :: b :: ks)) := by
  intro p s s' Δ h hg hr
  change viTuple (visit Γ n) (.node .NT_TUPLE d lo hi (a :: b :: ks)) s = _ at h
  unfold viTuple at h
  obtain ⟨cs, s1, h1, g1⟩ := bind_ok h
  obtain ⟨i1, m1, c1⟩ := typesAll_ok (a := .node .NT_TUPLE d lo hi (a :: b :: ks)) hk _ 0 _ _ _ h1 (by simp) hg hr
  obtain ⟨t, s2, h2, g2⟩ := bind_ok g1
  obtain ⟨_, rfl, rfl⟩ := mkTuple_ok' h2
  obtain ⟨hcur, m2⟩ := setCur_ok' g2
  simp only [Ast.kids, List.drop_zero] at i1
  refine ⟨?_, m1.trans m2, notL, isTy hcur, cleanOf hcur (fun hx => idsIn_tupleOf (c1 hx))⟩
  rw [hcur]
  cases i1 with
  | cons ia r1 => cases r1 with
    | cons ib r2 => exact HasType.tuple (HasTypes.cons ia (HasTypes.cons ib r2))

theorem decart_ok {Γ : Ctx} {n : Nat} {d : TokData} {lo hi : Int} {a b : Ast} {ks : List Ast}
    (hk : ∀ k ∈ a :: b :: ks, VOk Γ n .S k) : VOk Γ (n+1) .S (.node .DECART d lo hi (a :: b :: ks)) := by
  intro p s s' Δ h hg hr
  change viDecart (visit Γ n) (.node .DECART d lo hi (a :: b :: ks)) s = _ at h
  unfold viDecart at h
  obtain ⟨cs, s1, h1, g1⟩ := bind_ok h
  obtain ⟨i1, m1, c1⟩ := deboolAll_ok (a := .node .DECART d lo hi (a :: b :: ks)) hk _ 0 _ _ _ h1 (by simp) hg hr
  obtain ⟨t, s2, h2, g2⟩ := bind_ok g1
  obtain ⟨_, rfl, rfl⟩ := mkTuple_ok' h2
  obtain ⟨hcur, m2⟩ := setCur_ok' g2
  simp only [Ast.kids, List.drop_zero] at i1
  refine ⟨?_, m1.trans m2, notL, isTy hcur, cleanOf hcur (fun hx => idsIn_coll.mpr (idsIn_tupleOf (c1 hx)))⟩
  rw [hcur]
  cases i1 with
  | cons ia da r1 => cases r1 with
    | cons ib db r2 => exact HasType.decart (HasSets.cons ia da (HasSets.cons ib db r2))

theorem enumeration_ok {Γ : Ctx} {n : Nat} {tok : Tok} {d : TokData} {lo hi : Int} {a : Ast} {ks : List Ast}
    (htok : tok = .NT_ENUMERATION ∨ tok = .BOOL)
    (hk : ∀ k ∈ a :: ks, VOk Γ n .S k) : VOk Γ (n+1) .S (.node tok d lo hi (a :: ks)) := by
  intro p s s' Δ h hg hr
  have hd : dispatch Γ (visit Γ n) p (.node tok d lo hi (a :: ks)) = viEnumeration Γ (visit Γ n) (.node tok d lo hi (a :: ks)) := by
    rcases htok with rfl | rfl <;> rfl
  simp only [visit, hd] at h
  unfold viEnumeration at h
  obtain ⟨r, s1, h1, g1⟩ := bind_ok h
  obtain ⟨i1, m1, _, _, _, c1⟩ := childType_spec kid0 (hk a (by simp)) h1 hg hr
  obtain ⟨t0, s2, h2, g2⟩ := bind_ok g1
  obtain ⟨rfl, rfl⟩ := expectTy_ok' h2
  obtain ⟨t, s3, h3, g3⟩ := bind_ok g2
  obtain ⟨ts, i2, hma, m2, c2⟩ := enumGo_ok (a := .node tok d lo hi (a :: ks)) hk _ 1 _ _ _ _ h3 (by simp only [Ast.kids, List.length_cons]; omega)
    (hg.of_same m1) (hr.of_same m1)
  obtain ⟨hcur, m3⟩ := setCur_ok' g3
  simp only [Ast.kids, List.drop_succ_cons, List.drop_zero] at i2
  exact ⟨hcur ▸ HasType.enumeration htok (HasTypes.cons i1 i2) hma, (m1.trans m2).trans m3, notL, isTy hcur,
    cleanOf hcur (fun hx => idsIn_coll.mpr (idsIn_mergeAll _ _ _ _ hma (c1 hx) (c2 hx)))⟩

/-! ## declaration patterns -/

theorem dlocal_ok {Γ : Ctx} {n : Nat} {x : String} {lo hi : Int} {ks : List Ast} :
    DOk Γ (n+1) (.node .ID_LOCAL (.text x) lo hi ks) := by
  intro p s s' Δ t h hc hl hr hct
  change viLocal (.node .ID_LOCAL (.text x) lo hi ks) s = _ at h
  unfold viLocal at h
  obtain ⟨nm, s1, h1, g1⟩ := bind_ok h
  obtain ⟨rfl, rfl⟩ := textOf_ok h1
  obtain ⟨s0, s2, h2, g2⟩ := bind_ok g1
  obtain ⟨rfl, rfl⟩ := getSt_ok h2
  have hcond : (decide (s.localDecl > 0) || decide (s.argDecl > 0)) = true := by
    simp only [Bool.or_eq_true, decide_eq_true_eq]
    rcases hl with hl | hl
    · left; omega
    · right; omega
  simp only [hcond, if_true] at g2
  obtain ⟨t', s3, h3, g3⟩ := bind_ok g2
  obtain ⟨e, rfl⟩ := expectTy_ok' h3
  rw [hc] at e; cases e
  obtain ⟨hnone, hview, hf, hcur⟩ := addLocal_ok g3
  have hhas : Δ.has x = false := by rw [Env.has_eq, hr.vars x, hnone]; rfl
  refine ⟨Δ.add x t, Binds.var hhas,
    ⟨fun y => ?_, fun hne => ?_, fun hx => cleanEnv_add (hr.clean hx) (hct hx) hhas⟩, ⟨fun y => ?_, hf⟩, hcur.trans hc⟩
  · rw [Env.get?_add _ _ _ hhas, hview y]
    by_cases hy : y = x
    · simp [hy]
    · simp [hy, hr.vars y]
  · exact hr.fd (by rw [← hf.funcDecl]; exact hne)
  · rw [hview y]
    by_cases hy : y = x
    · subst hy; right; exact ⟨hnone, t, by simp⟩
    · left; simp [hy]

theorem tupleDeclGo_ok {Γ : Ctx} {n : Nat} {par : Tok} : ∀ (ks : List Ast) (cs : List Ty) (s s' : St) (Δ : Env),
    (∀ k ∈ ks, DOk Γ n k) → tupleDeclGo (visit Γ n) par ks cs s = (.ok (), s') → ks.length = cs.length →
    DeclMode s → Rel Γ s Δ → (CtxOk Γ → IdsInL (CleanId Γ) cs) →
    ∃ Δ', BindsEach Δ ks cs Δ' ∧ Rel Γ s' Δ' ∧ Ext s s'
  | [], [], s, s', Δ, _, h, _, _, hr, _ => by
    obtain ⟨_, rfl⟩ := pure_ok h
    exact ⟨Δ, BindsEach.nil, hr, Ext.refl _⟩
  | [], _ :: _, _, _, _, _, _, hl, _, _, _ => by simp at hl
  | _ :: _, [], _, _, _, _, _, hl, _, _, _ => by simp at hl
  | k :: ks, c :: cs, s, s', Δ, hk, h, hl, hd, hr, hct => by
    unfold tupleDeclGo at h
    obtain ⟨_, s1, h1, g1⟩ := bind_ok h
    obtain ⟨hc1, m1⟩ := setCur_ok' h1
    obtain ⟨_, s2, h2, g2⟩ := bind_ok g1
    obtain ⟨Δ1, b1, r1, e1, _⟩ := hk k (by simp) _ _ _ _ _ h2 hc1 (hd.of_sameF m1.2) (hr.of_same m1)
      (fun hx => (idsInL_cons.mp (hct hx)).1)
    obtain ⟨Δ2, b2, r2, e2⟩ := tupleDeclGo_ok ks cs s2 s' Δ1 (fun k' hk' => hk k' (by simp [hk'])) g2
      (by simpa using hl) ((hd.of_sameF m1.2).of_sameF e1.2) r1 (fun hx => (idsInL_cons.mp (hct hx)).2)
    exact ⟨Δ2, BindsEach.cons b1 b2, r2, (m1.ext.trans e1).trans e2⟩

theorem dtuple_ok {Γ : Ctx} {n : Nat} {d : TokData} {lo hi : Int} {ks : List Ast}
    (hk : ∀ k ∈ ks, DOk Γ n k) : DOk Γ (n+1) (.node .NT_TUPLE_DECL d lo hi ks) := by
  intro p s s' Δ t h hc hl hr hct
  change viTupleDeclaration (visit Γ n) (.node .NT_TUPLE_DECL d lo hi ks) s = _ at h
  unfold viTupleDeclaration at h
  obtain ⟨s0, s1, h1, g1⟩ := bind_ok h
  obtain ⟨rfl, rfl⟩ := getSt_ok h1
  obtain ⟨t', s2, h2, g2⟩ := bind_ok g1
  obtain ⟨e, rfl⟩ := expectTy_ok' h2
  rw [hc] at e; cases e
  cases t with
  | base x => exact absurd g2 kidErr_ok
  | coll b => exact absurd g2 kidErr_ok
  | tuple cs =>
    simp only [] at g2
    by_cases hlen : (cs.length != (Ast.node Tok.NT_TUPLE_DECL d lo hi ks).kids.length) = true
    · simp only [hlen, if_true] at g2; exact absurd g2 kidErr_ok
    · simp only [hlen, Bool.false_eq_true, if_false] at g2
      obtain ⟨_, s3, h3, g3⟩ := bind_ok g2
      have hlen' : ks.length = cs.length := by
        have := hlen; simp only [Ast.kids, bne_iff_ne, ne_eq, Decidable.not_not] at this; exact this.symm
      obtain ⟨Δ', b, r, e⟩ := tupleDeclGo_ok ks cs s s3 Δ hk h3 hlen' hl hr (fun hx => idsIn_tuple.mp (hct hx))
      obtain ⟨hcur, m⟩ := setCur_ok' g3
      exact ⟨Δ', Binds.tuple b, r.of_same m, e.trans m.ext, hcur⟩

theorem visitAll_decl_ok {Γ : Ctx} {n : Nat} {par : Tok} {t : Ty} : ∀ (ks : List Ast) (s s' : St) (Δ : Env),
    (∀ k ∈ ks, DOk Γ n k) → visitAll (visit Γ n) par ks s = (.ok (), s') → s.cur = .ty t →
    DeclMode s → Rel Γ s Δ → (CtxOk Γ → CleanTy Γ t) → ∃ Δ', BindsAll Δ ks t Δ' ∧ Rel Γ s' Δ' ∧ Ext s s'
  | [], s, s', Δ, _, h, _, _, hr, _ => by
    obtain ⟨_, rfl⟩ := pure_ok h
    exact ⟨Δ, BindsAll.nil, hr, Ext.refl _⟩
  | k :: ks, s, s', Δ, hk, h, hc, hd, hr, hct => by
    unfold visitAll at h
    obtain ⟨_, s2, h2, g2⟩ := bind_ok h
    obtain ⟨Δ1, b1, r1, e1, c1⟩ := hk k (by simp) _ _ _ _ _ h2 hc hd hr hct
    obtain ⟨Δ2, b2, r2, e2⟩ := visitAll_decl_ok ks s2 s' Δ1 (fun k' hk' => hk k' (by simp [hk'])) g2 c1
      (hd.of_sameF e1.2) r1 hct
    exact ⟨Δ2, BindsAll.cons b1 b2, r2, e1.trans e2⟩

theorem deenum_ok {Γ : Ctx} {n : Nat} {d : TokData} {lo hi : Int} {ks : List Ast}
    (hk : ∀ k ∈ ks, DOk Γ n k) : DEOk Γ (n+1) (.node .NT_ENUM_DECL d lo hi ks) := by
  intro p s s' Δ t h hc hl hr hct
  change viAllLogic (visit Γ n) (.node .NT_ENUM_DECL d lo hi ks) s = _ at h
  unfold viAllLogic at h
  obtain ⟨_, s1, h1, g1⟩ := bind_ok h
  obtain ⟨Δ', b, r, e⟩ := visitAll_decl_ok ks s s1 Δ hk h1 hc hl hr hct
  obtain ⟨_, m⟩ := setCur_ok' g1
  exact ⟨Δ', Binds.enum b, r.of_same m, e.trans m.ext⟩

/-! ## binders: quantifiers and the declarative set-builder -/

/-- what `EndScope` does to a visible variable -/
def decLevel (p : Ty × Int) : Option (Ty × Int) := if p.2 - 1 < 0 then none else some (p.1, p.2 - 1)

/-- a scope opened on `s` (state `s0`), extended by declarations at level 0 (state `s3`) and
closed (state `s4`) shows the variables of `s` again -/
theorem scope_close {s s0 s3 s4 : St} (hlv : Lv s)
    (h0 : ∀ x, view s0.locals x = (view s.locals x).map (fun p => (p.1, p.2 + 1)))
    (h3 : ∀ x, view s3.locals x = view s0.locals x ∨ (view s0.locals x = none ∧ ∃ t, view s3.locals x = some (t, 0)))
    (h4 : ∀ x, view s4.locals x = (view s3.locals x).bind (fun p => if p.2 - 1 < 0 then none else some (p.1, p.2 - 1))) :
    ∀ x, view s4.locals x = view s.locals x := by
  intro x
  rw [h4 x]
  rcases h3 x with e | ⟨hn, t, e⟩
  · rw [e, h0 x]
    cases hv : view s.locals x with
    | none => rfl
    | some q =>
      obtain ⟨t, l⟩ := q
      have := hlv x t l hv
      simp only [Option.map, Option.bind]
      have h1 : ¬ (l + 1 - 1 < 0) := by omega
      have h2 : l + 1 - 1 = l := by omega
      rw [if_neg h1, h2]
  · rw [e]
    rw [h0 x] at hn
    cases hv : view s.locals x with
    | none => simp
    | some q => rw [hv] at hn; simp at hn

theorem GoodSt.of_ext {s s' : St} (hg : GoodSt s) (h : Ext s s') : GoodSt s' := by
  refine ⟨h.2.localDecl.trans hg.1, h.2.argDecl.trans hg.2.1, fun x t l hx => ?_, h.2.uniq hg.2.2.2⟩
  rcases h.1 x with e | ⟨_, t', e⟩
  · exact hg.2.2.1 x t l (by rw [← e]; exact hx)
  · rw [e] at hx; cases hx; exact Int.le_refl 0

theorem startScope_spec {Γ : Ctx} {s s0 : St} {Δ : Env} (h : startScope s = (.ok (), s0)) (hg : GoodSt s) (hr : Rel Γ s Δ) :
    GoodSt s0 ∧ Rel Γ s0 Δ := by
  obtain ⟨hv, hf, _⟩ := startScope_ok h
  refine ⟨⟨hf.localDecl.trans hg.1, hf.argDecl.trans hg.2.1, fun x t l hx => ?_, hf.uniq hg.2.2.2⟩,
    ⟨fun x => ?_, fun hne => ?_, hr.clean⟩⟩
  · rw [hv x] at hx
    cases hvx : view s.locals x with
    | none => rw [hvx] at hx; simp at hx
    | some q =>
      rw [hvx] at hx; simp at hx
      have := hg.2.2.1 x q.1 q.2 hvx
      omega
  · rw [hv x, hr.vars x]
    cases view s.locals x <;> rfl
  · exact hr.fd (by rw [← hf.funcDecl]; exact hne)

theorem incLocalDecl_ok {s s' : St}
    (h : modifySt (fun s => { s with localDecl := s.localDecl + 1 }) s = (.ok (), s')) :
    s'.locals = s.locals ∧ s'.cur = s.cur ∧ s'.localDecl = s.localDecl + 1 ∧ s'.argDecl = s.argDecl ∧
      s'.funcDecl = s.funcDecl ∧ s'.args = s.args := by
  have := modifySt_ok h; subst this; exact ⟨rfl, rfl, rfl, rfl, rfl, rfl⟩

theorem decLocalDecl_ok {s s' : St}
    (h : modifySt (fun s => { s with localDecl := s.localDecl - 1 }) s = (.ok (), s')) :
    s'.locals = s.locals ∧ s'.cur = s.cur ∧ s'.localDecl = s.localDecl - 1 ∧ s'.argDecl = s.argDecl ∧
      s'.funcDecl = s.funcDecl ∧ s'.args = s.args := by
  have := modifySt_ok h; subst this; exact ⟨rfl, rfl, rfl, rfl, rfl, rfl⟩

theorem visitChildDecl_spec {Γ : Ctx} {n : Nat} {a pat : Ast} {i : Nat} {dom : Ty} {s s' : St} {Δ : Env}
    (hk : a.kid i = some pat) (hp : DEOk Γ n pat)
    (h : visitChildDecl (visit Γ n) a i dom s = (.ok (), s')) (hr : Rel Γ s Δ) (hct : CtxOk Γ → CleanTy Γ dom) :
    ∃ Δ', Binds Δ pat dom Δ' ∧ Rel Γ s' Δ' ∧ Ext s s' := by
  unfold visitChildDecl at h
  obtain ⟨_, s1, h1, g1⟩ := bind_ok h
  obtain ⟨hc1, m1⟩ := setCur_ok' h1
  obtain ⟨_, s2, h2, g2⟩ := bind_ok g1
  obtain ⟨l2, c2, d2, a2, f2, r2⟩ := incLocalDecl_ok h2
  obtain ⟨_, s3, h3, g3⟩ := bind_ok g2
  unfold visitChild at h3
  obtain ⟨k, s2', hk', hv⟩ := bind_ok h3
  obtain ⟨hk'', rfl⟩ := kidM_ok hk'
  rw [hk] at hk''; cases hk''
  obtain ⟨_, s4, h4, g4⟩ := bind_ok g3
  obtain ⟨l4, c4, d4, a4, f4, r4⟩ := decLocalDecl_ok h4
  obtain ⟨_, m5⟩ := setCur_ok' g4
  have hr1 := hr.of_same m1
  have hr2 : Rel Γ s2' Δ :=
    ⟨fun x => by rw [l2]; exact hr1.vars x, fun hne => hr1.fd (by rw [← f2]; exact hne), hr1.clean⟩
  obtain ⟨Δ', b, r3, e23⟩ := hp _ _ _ _ dom hv (by rw [c2]; exact hc1) (Or.inl (by rw [d2]; omega)) hr2 hct
  have hr4 : Rel Γ s4 Δ' :=
    ⟨fun x => by rw [l4]; exact r3.vars x, fun hne => r3.fd (by rw [← f4]; exact hne), r3.clean⟩
  refine ⟨Δ', b, hr4.of_same m5, ⟨fun x => ?_, ⟨?_, ?_, ?_, ?_, ?_⟩⟩⟩
  · have e5 : view s'.locals x = view s3.locals x := by rw [m5.1 x, l4]
    have e1 : view s2'.locals x = view s.locals x := by rw [l2, m1.1 x]
    rcases e23.1 x with e | ⟨hn, t, e⟩
    · exact Or.inl (e5.trans (e.trans e1))
    · exact Or.inr ⟨e1.symm.trans hn, t, e5.trans e⟩
  · rw [m5.2.localDecl, d4, e23.2.localDecl, d2, m1.2.localDecl]; omega
  · rw [m5.2.argDecl, a4, e23.2.argDecl, a2, m1.2.argDecl]
  · rw [m5.2.funcDecl, f4, e23.2.funcDecl, f2, m1.2.funcDecl]
  · rw [m5.2.args, r4, e23.2.args, r2, m1.2.args]
  · intro hu
    apply m5.2.uniq; rw [l4]; apply e23.2.uniq; rw [l2]; exact m1.2.uniq hu

/-- the common part of `ViQuantifier` and `ViDeclarative` -/
def binderM (v : Visitor) (a : Ast) (fin : Ty → M Unit) : M Unit :=
  M.bind startScope fun _ =>
  M.bind (childTypeDebool v a 1 EID.invalidTypeOperation) fun domain =>
  M.bind (visitChildDecl v a 0 domain) fun _ =>
  M.bind (visitChild v a 2) fun _ =>
  M.bind (endScope a.lo) fun _ => fin domain

theorem viQuantifier_eq (v : Visitor) (a : Ast) : viQuantifier v a = binderM v a (fun _ => setCur .logic) := rfl
theorem viDeclarative_eq (v : Visitor) (a : Ast) :
    viDeclarative v a = binderM v a (fun d => setCur (.ty (.coll d))) := rfl

theorem kid2 {t d lo hi} {a b c : Ast} {ks : List Ast} : (Ast.node t d lo hi (a :: b :: c :: ks)).kid 2 = some c := rfl

theorem binder_spec {Γ : Ctx} {n : Nat} {tok : Tok} {d : TokData} {lo hi : Int} {pat dom body : Ast}
    {fin : Ty → M Unit} {s s' : St} {Δ : Env}
    (hp : DEOk Γ n pat) (hd : VOk Γ n .S dom) (hb : VOk Γ n .L body)
    (h : binderM (visit Γ n) (.node tok d lo hi [pat, dom, body]) fin s = (.ok (), s')) (hg : GoodSt s) (hr : Rel Γ s Δ) :
    ∃ t e Δ' s5, HasType Γ Δ dom (.ty t) ∧ Debool t e ∧ Binds Δ pat e Δ' ∧ HasType Γ Δ' body .logic ∧
      Same s s5 ∧ fin e s5 = (.ok (), s') ∧ (CtxOk Γ → CleanTy Γ e) := by
  unfold binderM at h
  obtain ⟨_, s0, h0, g0⟩ := bind_ok h
  obtain ⟨hg0, hr0⟩ := startScope_spec h0 hg hr
  obtain ⟨hv0, hf0, _⟩ := startScope_ok h0
  obtain ⟨e, s1, h1, g1⟩ := bind_ok g0
  obtain ⟨t, i1, hdb, m1, _, c1⟩ := childTypeDebool_spec kid1 hd h1 hg0 hr0
  obtain ⟨_, s2, h2, g2⟩ := bind_ok g1
  obtain ⟨Δ', b, r2, e12⟩ := visitChildDecl_spec kid0 hp h2 (hr0.of_same m1) c1
  obtain ⟨_, s3, h3, g3⟩ := bind_ok g2
  unfold visitChild at h3
  obtain ⟨k, s2', hk', hv⟩ := bind_ok h3
  obtain ⟨hk'', rfl⟩ := kidM_ok hk'
  rw [kid2] at hk''; cases hk''
  have hg1 := hg0.of_same m1
  have hg2 : GoodSt s2' := hg1.of_ext e12
  obtain ⟨i3, m3, hl3, _, _⟩ := hb _ _ _ _ hv hg2 r2
  obtain ⟨_, s4, h4, g4⟩ := bind_ok g3
  obtain ⟨hv4, hf4, _⟩ := endScope_ok h4
  refine ⟨t, e, Δ', s4, i1, hdb, b, hl3 rfl ▸ i3, ⟨?_, ?_⟩, g4, c1⟩
  · refine scope_close (s0 := s0) (s3 := s3) hg.2.2.1 hv0 (fun x => ?_) hv4
    rw [m3.1 x]
    rcases e12.1 x with e | ⟨hn, t', e⟩
    · exact Or.inl (e.trans (m1.1 x))
    · exact Or.inr ⟨(m1.1 x).symm.trans hn, t', e⟩
  · exact (((hf0.trans m1.2).trans e12.2).trans m3.2).trans hf4

theorem quant_ok {Γ : Ctx} {n : Nat} {tok : Tok} {d : TokData} {lo hi : Int} {pat dom body : Ast}
    (htok : tok = .FORALL ∨ tok = .EXISTS)
    (hp : DEOk Γ n pat) (hd : VOk Γ n .S dom) (hb : VOk Γ n .L body) :
    VOk Γ (n+1) .L (.node tok d lo hi [pat, dom, body]) := by
  intro p s s' Δ h hg hr
  have hdisp : dispatch Γ (visit Γ n) p (.node tok d lo hi [pat, dom, body]) =
      viQuantifier (visit Γ n) (.node tok d lo hi [pat, dom, body]) := by
    rcases htok with rfl | rfl <;> rfl
  simp only [visit, hdisp, viQuantifier_eq] at h
  obtain ⟨t, e, Δ', s5, i1, hdb, b, i3, m, hfin, _⟩ := binder_spec hp hd hb h hg hr
  obtain ⟨hcur, m2⟩ := setCur_ok' hfin
  exact ⟨hcur ▸ HasType.quant htok i1 hdb b i3, m.trans m2, fun _ => hcur, notS, cleanL hcur⟩

theorem declarative_ok {Γ : Ctx} {n : Nat} {d : TokData} {lo hi : Int} {pat dom body : Ast}
    (hp : DEOk Γ n pat) (hd : VOk Γ n .S dom) (hb : VOk Γ n .L body) :
    VOk Γ (n+1) .S (.node .NT_DECLARATIVE_EXPR d lo hi [pat, dom, body]) := by
  intro p s s' Δ h hg hr
  change viDeclarative (visit Γ n) (.node .NT_DECLARATIVE_EXPR d lo hi [pat, dom, body]) s = _ at h
  rw [viDeclarative_eq] at h
  obtain ⟨t, e, Δ', s5, i1, hdb, b, i3, m, hfin, ce⟩ := binder_spec hp hd hb h hg hr
  obtain ⟨hcur, m2⟩ := setCur_ok' hfin
  exact ⟨hcur ▸ HasType.declarative i1 hdb b i3, m.trans m2, notL, isTy hcur,
    cleanOf hcur (fun hx => idsIn_coll.mpr (ce hx))⟩

/-! ## imperative terms -/

/-- a block of an imperative term: afterwards the environment is extended by what it declares -/
def BOk (Γ : Ctx) (n : Nat) (b : Ast) : Prop :=
  ∀ (p : Option Tok) (s s' : St) (Δ : Env), visit Γ n p b s = (.ok (), s') → GoodSt s → Rel Γ s Δ →
    ∃ Δ', (∀ bs Δ2, Blocks Γ Δ' bs Δ2 → Blocks Γ Δ (b :: bs) Δ2) ∧ Rel Γ s' Δ' ∧ Ext s s'

theorem iterate_ok {Γ : Ctx} {n : Nat} {d : TokData} {lo hi : Int} {pat dom : Ast}
    (hp : DEOk Γ n pat) (hd : VOk Γ n .S dom) : BOk Γ (n+1) (.node .ITERATE d lo hi [pat, dom]) := by
  intro p s s' Δ h hg hr
  change viIterate (visit Γ n) (.node .ITERATE d lo hi [pat, dom]) s = _ at h
  unfold viIterate at h
  obtain ⟨e, s1, h1, g1⟩ := bind_ok h
  obtain ⟨t, i1, hdb, m1, _, c1⟩ := childTypeDebool_spec kid1 hd h1 hg hr
  obtain ⟨Δ', b, r2, e12⟩ := visitChildDecl_spec kid0 hp g1 (hr.of_same m1) c1
  exact ⟨Δ', fun bs Δ2 hb => Blocks.iterate i1 hdb b hb, r2, m1.ext.trans e12⟩

theorem assign_ok {Γ : Ctx} {n : Nat} {d : TokData} {lo hi : Int} {pat ex : Ast}
    (hp : DEOk Γ n pat) (hd : VOk Γ n .S ex) : BOk Γ (n+1) (.node .ASSIGN d lo hi [pat, ex]) := by
  intro p s s' Δ h hg hr
  change viAssign (visit Γ n) (.node .ASSIGN d lo hi [pat, ex]) s = _ at h
  unfold viAssign at h
  obtain ⟨r, s1, h1, g1⟩ := bind_ok h
  obtain ⟨i1, m1, _, _, _, c1⟩ := childType_spec kid1 hd h1 hg hr
  obtain ⟨t, s2, h2, g2⟩ := bind_ok g1
  obtain ⟨rfl, rfl⟩ := expectTy_ok' h2
  obtain ⟨Δ', b, r2, e12⟩ := visitChildDecl_spec kid0 hp g2 (hr.of_same m1) (fun hx => c1 hx)
  exact ⟨Δ', fun bs Δ2 hb => Blocks.assign i1 b hb, r2, m1.ext.trans e12⟩

theorem cond_ok {Γ : Ctx} {n : Nat} {b : Ast} (hb : VOk Γ n .L b) (h1 : b.id ≠ .ITERATE) (h2 : b.id ≠ .ASSIGN) :
    BOk Γ n b := by
  intro p s s' Δ h hg hr
  obtain ⟨i1, m1, hl, _, _⟩ := hb _ _ _ _ h hg hr
  exact ⟨Δ, fun bs Δ2 hbs => Blocks.cond h1 h2 (hl rfl ▸ i1) hbs, hr.of_same m1, m1.ext⟩

theorem blocks_ok {Γ : Ctx} {n : Nat} {par : Tok} : ∀ (bs : List Ast) (s s' : St) (Δ : Env),
    (∀ b ∈ bs, BOk Γ n b) → visitAll (visit Γ n) par bs s = (.ok (), s') → GoodSt s → Rel Γ s Δ →
    ∃ Δ', Blocks Γ Δ bs Δ' ∧ Rel Γ s' Δ' ∧ Ext s s'
  | [], s, s', Δ, _, h, _, hr => by
    obtain ⟨_, rfl⟩ := pure_ok h
    exact ⟨Δ, Blocks.nil, hr, Ext.refl _⟩
  | b :: bs, s, s', Δ, hk, h, hg, hr => by
    unfold visitAll at h
    obtain ⟨_, s2, h2, g2⟩ := bind_ok h
    obtain ⟨Δ1, f1, r1, e1⟩ := hk b (by simp) _ _ _ _ h2 hg hr
    obtain ⟨Δ2, b2, r2, e2⟩ := blocks_ok bs s2 s' Δ1 (fun k' hk' => hk k' (by simp [hk'])) g2 (hg.of_ext e1) r1
    exact ⟨Δ2, f1 bs Δ2 b2, r2, e1.trans e2⟩

theorem imperative_ok {Γ : Ctx} {n : Nat} {d : TokData} {lo hi : Int} {value : Ast} {blocks : List Ast}
    (hv : VOk Γ n .S value) (hb : ∀ b ∈ blocks, BOk Γ n b) :
    VOk Γ (n+1) .S (.node .NT_IMPERATIVE_EXPR d lo hi (value :: blocks)) := by
  intro p s s' Δ h hg hr
  change viImperative (visit Γ n) (.node .NT_IMPERATIVE_EXPR d lo hi (value :: blocks)) s = _ at h
  unfold viImperative at h
  obtain ⟨_, s0, h0, g0⟩ := bind_ok h
  obtain ⟨hg0, hr0⟩ := startScope_spec h0 hg hr
  obtain ⟨hv0, hf0, _⟩ := startScope_ok h0
  obtain ⟨_, s1, h1, g1⟩ := bind_ok g0
  simp only [visitFrom, Ast.kids, List.drop_succ_cons, List.drop_zero] at h1
  obtain ⟨Δ', bl, r1, e01⟩ := blocks_ok blocks s0 s1 Δ hb h1 hg0 hr0
  obtain ⟨r, s2, h2, g2⟩ := bind_ok g1
  obtain ⟨i2, m2, _, _, _, c2⟩ := childType_spec kid0 hv h2 (hg0.of_ext e01) r1
  obtain ⟨_, s3, h3, g3⟩ := bind_ok g2
  obtain ⟨hv3, hf3, _⟩ := endScope_ok h3
  obtain ⟨t, s4, h4, g4⟩ := bind_ok g3
  obtain ⟨rfl, rfl⟩ := expectTy_ok' h4
  obtain ⟨hcur, m5⟩ := setCur_ok' g4
  have m03 : Same s s3 := by
    refine ⟨scope_close (s0 := s0) (s3 := s2) hg.2.2.1 hv0 (fun x => ?_) hv3, ((hf0.trans e01.2).trans m2.2).trans hf3⟩
    rw [m2.1 x]; exact e01.1 x
  exact ⟨hcur ▸ HasType.imperative bl i2, m03.trans m5, notL, isTy hcur,
    cleanOf hcur (fun hx => idsIn_coll.mpr (c2 hx))⟩

/-! ## recursive terms -/

theorem clearLocals_spec {s0 s sc : St} (h : clearLocals s = (.ok (), sc)) (hu : Uniq s.locals)
    (h0 : ∀ x t l, view s0.locals x = some (t, l) → 1 ≤ l)
    (hext : ∀ x, view s.locals x = view s0.locals x ∨ (view s0.locals x = none ∧ ∃ t, view s.locals x = some (t, 0))) :
    (∀ x, view sc.locals x = view s0.locals x) ∧ SameF s sc := by
  have := modifySt_ok h; subst this
  refine ⟨fun x => ?_, ⟨rfl, rfl, rfl, rfl, fun hu' => ?_⟩⟩
  · show view (s.locals.filter fun v => v.level > 0) x = _
    rw [view_clear hu x]
    rcases hext x with e | ⟨hn, t, e⟩
    · rw [e]
      cases hv : view s0.locals x with
      | none => rfl
      | some q =>
        obtain ⟨t, l⟩ := q
        have := h0 x t l hv
        have hl : l > 0 := by omega
        simp [Option.bind, hl]
    · rw [e, hn]; simp [Option.bind]
  · unfold Uniq names at hu' ⊢
    exact (List.Sublist.map _ List.filter_sublist).nodup hu'

theorem noWarn_same {f : St → St} {s s' : St} (h : modifySt f s = (.ok (), s'))
    (hl : (f s).locals = s.locals) (h1 : (f s).localDecl = s.localDecl) (h2 : (f s).argDecl = s.argDecl)
    (h3 : (f s).funcDecl = s.funcDecl) (h4 : (f s).args = s.args) : Same s s' := by
  have := modifySt_ok h; subst this
  exact Same.of_locals hl ⟨h1, h2, h3, h4, fun hu => by rw [hl]; exact hu⟩

theorem rounds_ok {Γ : Ctx} {n : Nat} {a pat step : Ast} {idx : Nat} {Δ : Env} {s0 : St}
    (hkp : a.kid 0 = some pat) (hks : a.kid idx = some step)
    (hp : DEOk Γ n pat) (hst : VOk Γ n .S step)
    (hg0 : GoodSt s0) (h0lv : ∀ x t l, view s0.locals x = some (t, l) → 1 ≤ l) (hr0 : Rel Γ s0 Δ) :
    ∀ (k : Nat) (vt τ : Ty) (s s' : St),
      recursionRounds Γ.traits (visit Γ n) a idx k vt s = (.ok (some τ), s') → Ext s0 s →
      (CtxOk Γ → CleanTy Γ vt) →
      StepReach Γ Δ pat step vt τ ∧ (CtxOk Γ → CleanTy Γ τ) ∧
        ∃ Δτ tτ, Binds Δ pat τ Δτ ∧ HasType Γ Δτ step (.ty tτ) ∧ merge Γ.traits tτ τ = some τ ∧
          Rel Γ s' Δτ ∧ Ext s0 s'
  | 0, vt, τ, s, s', h, _, _ => by
    unfold recursionRounds at h
    have := (pure_ok h).1; cases this
  | k+1, vt, τ, s, s', h, he, hct => by
    unfold recursionRounds at h
    obtain ⟨_, sc, h1, g1⟩ := bind_ok h
    obtain ⟨hvc, hfc⟩ := clearLocals_spec h1 (he.2.uniq hg0.2.2.2) h0lv he.1
    have m0c : Same s0 sc := ⟨hvc, he.2.trans hfc⟩
    obtain ⟨_, s1, h2, g2⟩ := bind_ok g1
    obtain ⟨Δit, b, r1, e1⟩ := visitChildDecl_spec hkp hp h2 (hr0.of_same m0c) hct
    obtain ⟨r, s2, h3, g3⟩ := bind_ok g2
    obtain ⟨i3, m3, _, _, _, c3⟩ := childType_spec hks hst h3 ((hg0.of_same m0c).of_ext e1) r1
    obtain ⟨nt, s3, h4, g4⟩ := bind_ok g3
    obtain ⟨rfl, rfl⟩ := expectTy_ok' h4
    have he2 : Ext s0 s2 := (m0c.ext.trans e1).trans m3.ext
    cases hm : merge Γ.traits nt vt with
    | none =>
      simp only [hm] at g4
      have := (pure_ok g4).1; cases this
    | some nv =>
      simp only [hm] at g4
      by_cases heq : (nv == vt) = true
      · simp only [heq, if_true] at g4
        obtain ⟨e, rfl⟩ := pure_ok g4
        cases e
        have : nv = vt := by simpa using heq
        subst this
        exact ⟨StepReach.refl, hct, Δit, nt, b, i3, hm, r1.of_same m3, he2⟩
      · simp only [heq, Bool.false_eq_true, if_false] at g4
        obtain ⟨sr, cτ, Δτ, tτ, bτ, iτ, mτ, rτ, eτ⟩ :=
          rounds_ok hkp hks hp hst hg0 h0lv hr0 k nv τ s2 s' g4 he2
            (fun hx => idsIn_merge _ _ _ _ hm (c3 hx) (hct hx))
        exact ⟨StepReach.step b i3 hm sr, cτ, Δτ, tτ, bτ, iτ, mτ, rτ, eτ⟩

/-- `ViRecursion` with the two things that depend on the token as parameters -/
def recBody (Γ : Ctx) (v : Visitor) (a : Ast) (isFull : Bool) (idx : Nat) : M Unit :=
  M.bind startScope fun _ =>
  M.bind (childType v a 1) fun initR =>
  M.bind (expectTy "ViRecursion" initR) fun initT =>
  M.bind (visitChildDecl v a 0 initT) fun _ =>
  M.bind (childType v a idx) fun itR =>
  match compatE Γ.traits itR initR with
  | none => stuckM "bad_variant_access:AreCompatible"
  | some false =>
    M.bind (kidM a idx) fun k => errFail EID.typesNotEqual k.lo
  | some true =>
    M.bind (expectTy "ViRecursion" itR) fun it0 =>
    match merge Γ.traits it0 initT with
    | none => M.bind (kidM a idx) fun k => errFail EID.typesNotEqual k.lo
    | some vt0 =>
    M.bind (modifySt fun s => { s with noWarn := s.noWarn + 1 }) fun _ =>
    M.bind (recursionRounds Γ.traits v a idx typeDeductionDepth vt0) fun stable =>
    M.bind (modifySt fun s => { s with noWarn := s.noWarn - 1 }) fun _ =>
    match stable with
    | none => M.bind (kidM a idx) fun k => errFail EID.typesNotEqual k.lo
    | some vt =>
    M.bind (if isFull then visitChild v a 2 else M.pure ()) fun _ =>
    M.bind (endScope a.lo) fun _ =>
    setCur (.ty vt)

theorem viRecursion_eq (Γ : Ctx) (v : Visitor) (a : Ast) :
    viRecursion Γ v a = recBody Γ v a (a.id == .NT_RECURSIVE_FULL) (if a.id == .NT_RECURSIVE_FULL then 3 else 2) := rfl

theorem recBody_spec {Γ : Ctx} {n : Nat} {a pat init step cond : Ast} {isFull : Bool} {idx : Nat}
    {s s' : St} {Δ : Env}
    (hkp : a.kid 0 = some pat) (hki : a.kid 1 = some init) (hks : a.kid idx = some step)
    (hkc : isFull = true → a.kid 2 = some cond)
    (hp : DEOk Γ n pat) (hin : VOk Γ n .S init) (hst : VOk Γ n .S step) (hc : isFull = true → VOk Γ n .L cond)
    (h : recBody Γ (visit Γ n) a isFull idx s = (.ok (), s')) (hg : GoodSt s) (hr : Rel Γ s Δ) :
    ∃ t0 t1 v0 τ tτ Δ0 Δτ, HasType Γ Δ init (.ty t0) ∧ Binds Δ pat t0 Δ0 ∧ HasType Γ Δ0 step (.ty t1) ∧
      compat Γ.traits t1 t0 = true ∧ merge Γ.traits t1 t0 = some v0 ∧ StepReach Γ Δ pat step v0 τ ∧
      Binds Δ pat τ Δτ ∧ HasType Γ Δτ step (.ty tτ) ∧ merge Γ.traits tτ τ = some τ ∧
      (isFull = true → HasType Γ Δτ cond .logic) ∧
      s'.cur = .ty τ ∧ Same s s' ∧ (CtxOk Γ → CleanTy Γ τ) := by
  unfold recBody at h
  obtain ⟨_, s0, h0, g0⟩ := bind_ok h
  obtain ⟨hg0, hr0⟩ := startScope_spec h0 hg hr
  obtain ⟨hv0, hf0, _⟩ := startScope_ok h0
  have h0lv : ∀ x t l, view s0.locals x = some (t, l) → 1 ≤ l := by
    intro x t l hx
    rw [hv0 x] at hx
    cases hvx : view s.locals x with
    | none => rw [hvx] at hx; simp at hx
    | some q =>
      rw [hvx] at hx; simp at hx
      have := hg.2.2.1 x q.1 q.2 hvx
      omega
  obtain ⟨initR, sA, hA, gA⟩ := bind_ok g0
  obtain ⟨iA, mA, _, _, _, cA⟩ := childType_spec hki hin hA hg0 hr0
  obtain ⟨t0, sA', hA', gA'⟩ := bind_ok gA
  obtain ⟨rfl, rfl⟩ := expectTy_ok' hA'
  obtain ⟨_, sB, hB, gB⟩ := bind_ok gA'
  obtain ⟨Δ0, b0, rB, eB⟩ := visitChildDecl_spec hkp hp hB (hr0.of_same mA) (fun hx => cA hx)
  obtain ⟨itR, sC, hC, gC⟩ := bind_ok gB
  obtain ⟨iC, mC, _, _, _, cC⟩ := childType_spec hks hst hC ((hg0.of_same mA).of_ext eB) rB
  have e0C : Ext s0 sC := (mA.ext.trans eB).trans mC.ext
  cases itR with
  | logic => simp only [compatE] at gC; exact absurd gC kidErr_ok
  | ty t1 =>
    simp only [compatE] at gC
    cases hcm : compat Γ.traits t1 t0 with
    | false => simp only [hcm] at gC; exact absurd gC kidErr_ok
    | true =>
      simp only [hcm] at gC
      obtain ⟨it0, sC', hC', gC'⟩ := bind_ok gC
      obtain ⟨e, rfl⟩ := expectTy_ok' hC'
      cases e
      cases hm0 : merge Γ.traits t1 t0 with
      | none => simp only [hm0] at gC'; exact absurd gC' kidErr_ok
      | some v0 =>
      simp only [hm0] at gC'
      obtain ⟨_, sD, hD, gD⟩ := bind_ok gC'
      have mD : Same sC sD := noWarn_same hD rfl rfl rfl rfl rfl
      obtain ⟨stable, sE, hE, gE⟩ := bind_ok gD
      obtain ⟨_, sF, hF, gF⟩ := bind_ok gE
      have mF : Same sE sF := noWarn_same hF rfl rfl rfl rfl rfl
      cases stable with
      | none => exact absurd gF kidErr_ok
      | some τ =>
        simp only [] at gF
        obtain ⟨sr, cτ, Δτ, tτ, bτ, iτ, mτ, rE, eE⟩ :=
          rounds_ok hkp hks hp hst hg0 h0lv hr0 _ _ _ _ _ hE (e0C.trans mD.ext)
            (fun hx => idsIn_merge _ _ _ _ hm0 (cC hx) (cA hx))
        obtain ⟨_, sG, hG, gG⟩ := bind_ok gF
        have e0F : Ext s0 sF := eE.trans mF.ext
        have hcond : (isFull = true → HasType Γ Δτ cond .logic) ∧ Same sF sG := by
          cases isFull with
          | false =>
            simp only [Bool.false_eq_true, if_false] at hG
            obtain ⟨_, rfl⟩ := pure_ok hG
            exact ⟨fun hf => (by cases hf), Same.refl _⟩
          | true =>
            simp only [if_true] at hG
            unfold visitChild at hG
            obtain ⟨k, sF', hk', hv⟩ := bind_ok hG
            obtain ⟨hk'', rfl⟩ := kidM_ok hk'
            rw [hkc rfl] at hk''; cases hk''
            obtain ⟨ic, mc, hl, _, _⟩ := hc rfl _ _ _ _ hv (hg0.of_ext e0F) (rE.of_same mF)
            exact ⟨fun _ => hl rfl ▸ ic, mc⟩
        obtain ⟨_, sH, hH, gH⟩ := bind_ok gG
        obtain ⟨hvH, hfH, _⟩ := endScope_ok hH
        obtain ⟨hcur, mI⟩ := setCur_ok' gH
        have e0G : Ext s0 sG := e0F.trans hcond.2.ext
        have msH : Same s sH :=
          ⟨scope_close (s0 := s0) (s3 := sG) hg.2.2.1 hv0 e0G.1 hvH, (hf0.trans e0G.2).trans hfH⟩
        exact ⟨t0, t1, v0, τ, tτ, Δ0, Δτ, iA, b0, iC, hcm, hm0, sr, bτ, iτ, mτ, hcond.1, hcur,
          msH.trans mI, cτ⟩

theorem recShort_ok {Γ : Ctx} {n : Nat} {d : TokData} {lo hi : Int} {pat init step : Ast}
    (hp : DEOk Γ n pat) (hin : VOk Γ n .S init) (hst : VOk Γ n .S step) :
    VOk Γ (n+1) .S (.node .NT_RECURSIVE_SHORT d lo hi [pat, init, step]) := by
  intro p s s' Δ h hg hr
  change viRecursion Γ (visit Γ n) (.node .NT_RECURSIVE_SHORT d lo hi [pat, init, step]) s = _ at h
  rw [viRecursion_eq] at h
  have h' : recBody Γ (visit Γ n) (.node .NT_RECURSIVE_SHORT d lo hi [pat, init, step]) false 2 s = (.ok (), s') := h
  obtain ⟨t0, t1, v0, τ, tτ, Δ0, Δτ, iA, b0, iC, hcm, hm0, sr, bτ, iτ, mτ, _, hcur, msame, cm⟩ :=
    recBody_spec (cond := pat) kid0 kid1 kid2 (fun hf => by cases hf) hp hin hst (fun hf => by cases hf) h' hg hr
  exact ⟨hcur ▸ HasType.recShort iA b0 iC hcm hm0 sr bτ iτ mτ, msame, notL, isTy hcur, cleanOf hcur cm⟩

theorem kid3 {t d lo hi} {a b c e : Ast} {ks : List Ast} : (Ast.node t d lo hi (a :: b :: c :: e :: ks)).kid 3 = some e := rfl

theorem recFull_ok {Γ : Ctx} {n : Nat} {d : TokData} {lo hi : Int} {pat init cond step : Ast}
    (hp : DEOk Γ n pat) (hin : VOk Γ n .S init) (hc : VOk Γ n .L cond) (hst : VOk Γ n .S step) :
    VOk Γ (n+1) .S (.node .NT_RECURSIVE_FULL d lo hi [pat, init, cond, step]) := by
  intro p s s' Δ h hg hr
  change viRecursion Γ (visit Γ n) (.node .NT_RECURSIVE_FULL d lo hi [pat, init, cond, step]) s = _ at h
  rw [viRecursion_eq] at h
  have h' : recBody Γ (visit Γ n) (.node .NT_RECURSIVE_FULL d lo hi [pat, init, cond, step]) true 3 s = (.ok (), s') := h
  obtain ⟨t0, t1, v0, τ, tτ, Δ0, Δτ, iA, b0, iC, hcm, hm0, sr, bτ, iτ, mτ, ic, hcur, msame, cm⟩ :=
    recBody_spec kid0 kid1 kid3 (fun _ => kid2) hp hin hst (fun _ => hc) h' hg hr
  exact ⟨hcur ▸ HasType.recFull iA b0 iC hcm hm0 sr bτ iτ mτ (ic rfl), msame, notL, isTy hcur, cleanOf hcur cm⟩

/-! ## term-function and predicate calls -/

theorem checkArgsGo_ok {Γ : Ctx} {n : Nat} {a : Ast} {fn : String} {Δ : Env}
    (hk : ∀ i k, 1 ≤ i → a.kid i = some k → VOk Γ n .S k) :
    ∀ (m : Nat) (decl : List (String × Ty)) (child : Nat) (subs subs' : Subst) (s s' : St),
      checkArgsGo Γ (visit Γ n) a fn m decl child subs s = (.ok subs', s') → 1 ≤ child →
      child + m = a.kids.length → decl.length = m → GoodSt s → Rel Γ s Δ →
      ∃ ats, HasTypes Γ Δ (a.kids.drop child) ats ∧ ats.length = m ∧
        foldCT Γ.traits fn subs (decl.zip ats) = some subs' ∧ Same s s' ∧ (CtxOk Γ → IdsInL (CleanId Γ) ats)
  | 0, decl, child, subs, subs', s, s', h, _, hl, hd, _, _ => by
    unfold checkArgsGo at h
    obtain ⟨rfl, rfl⟩ := pure_ok h
    rw [List.drop_eq_nil_of_le (by omega)]
    have : decl = [] := List.length_eq_zero_iff.mp hd
    subst this
    exact ⟨[], HasTypes.nil, rfl, rfl, Same.refl _, fun _ => idsInL_nil⟩
  | m+1, decl, child, subs, subs', s, s', h, hc1, hl, hd, hg, hr => by
    unfold checkArgsGo at h
    obtain ⟨ct, s1, h1, g1⟩ := bind_ok h
    obtain ⟨k, _, hki, _, _, _⟩ := childType_ok' h1
    obtain ⟨i1, m1, _, _, _, c1⟩ := childType_spec hki (hk child k hc1 hki) h1 hg hr
    cases ct with
    | logic => exact absurd g1 failSilent_ok
    | ty vt =>
      simp only [] at g1
      cases decl with
      | nil => simp at hd
      | cons d rest =>
        obtain ⟨dn, dt⟩ := d
        simp only [] at g1
        cases hct : compareTemplated Γ.traits subs (mangle fn dt) vt with
        | mk ok subs1 =>
          rw [hct] at g1
          cases ok with
          | false => exact absurd g1 kidErr_ok
          | true =>
            simp only [] at g1
            obtain ⟨ats, i2, hlen, hf, m2, c2⟩ := checkArgsGo_ok hk m rest (child+1) subs1 subs' s1 s' g1 (by omega)
              (by omega) (by simpa using hd) (hg.of_same m1) (hr.of_same m1)
            rw [drop_of_getElem? a.kids child k hki]
            refine ⟨vt :: ats, HasTypes.cons i1 i2, by simp [hlen], ?_, m1.trans m2,
              fun hx => idsInL_cons.mpr ⟨c1 hx, c2 hx⟩⟩
            simp only [List.zip_cons_cons, foldCT, hct]
            exact hf

/-- what `ViFunctionCall` establishes; `hctx`: the context is well formed for template instantiation -/
theorem call_core {Γ : Ctx} {n : Nat} {d : TokData} {lo hi lf hf : Int} {tf : Tok} {f : String} {kf as : List Ast}
    {p : Option Tok} {s s' : St} {Δ : Env} (hctx : CtxOk Γ)
    (hk : ∀ k ∈ as, VOk Γ n .S k)
    (h : visit Γ (n+1) p (.node .NT_FUNC_CALL d lo hi (.node tf (.text f) lf hf kf :: as)) s = (.ok (), s'))
    (hg : GoodSt s) (hr : Rel Γ s Δ) :
    ∃ ft τ, lookup Γ.types f = some ft ∧ s'.cur = τ ∧ (ft = .logic → τ = .logic) ∧ (∀ t, ft = .ty t → ∃ t', τ = .ty t') ∧
      HasType Γ Δ (.node .NT_FUNC_CALL d lo hi (.node tf (.text f) lf hf kf :: as)) τ ∧ Same s s' ∧ CleanE Γ τ := by
  change viFunctionCall Γ (visit Γ n) (.node .NT_FUNC_CALL d lo hi (.node tf (.text f) lf hf kf :: as)) s = _ at h
  unfold viFunctionCall at h
  obtain ⟨k0, s1, hk0, g1⟩ := bind_ok h
  obtain ⟨hk0', rfl⟩ := kidM_ok hk0
  rw [kid0] at hk0'; cases hk0'
  obtain ⟨fn, s2, h2, g2⟩ := bind_ok g1
  obtain ⟨rfl, rfl⟩ := textOf_ok h2
  cases hft : lookup Γ.types f with
  | none => simp only [hft] at g2; exact absurd g2 errFail_ok
  | some ft =>
    simp only [hft] at g2
    obtain ⟨subs, s3, h3, g3⟩ := bind_ok g2
    unfold checkFuncArguments at h3
    cases hfd : lookup Γ.funcs f with
    | none => simp only [hfd] at h3; exact absurd h3 kidErr_ok
    | some decl =>
      simp only [hfd] at h3
      by_cases hlen : (decl.length != (Ast.node Tok.NT_FUNC_CALL d lo hi (.node tf (.text f) lf hf kf :: as)).kids.length - 1) = true
      · simp only [hlen, if_true] at h3; exact absurd h3 kidErr_ok
      · simp only [hlen, Bool.false_eq_true, if_false] at h3
        have hdl : decl.length = as.length := by
          have := hlen; simp only [Ast.kids, List.length_cons, bne_iff_ne, ne_eq, Decidable.not_not] at this
          omega
        have hkids : ∀ i k, 1 ≤ i → (Ast.node Tok.NT_FUNC_CALL d lo hi (.node tf (.text f) lf hf kf :: as)).kid i = some k →
            VOk Γ n .S k := by
          intro i k hi hki
          cases i with
          | zero => omega
          | succ j =>
            simp only [Ast.kid, Ast.kids, List.getElem?_cons_succ] at hki
            exact hk k (List.mem_of_getElem? hki)
        have hgo := checkArgsGo_ok (Δ := Δ) hkids _ decl 1 [] subs _ s3 h3
        obtain ⟨ats, iats, hal, hfold, m3, cats⟩ := hgo (by omega)
          (by simp only [Ast.kids, List.length_cons]; omega) (by simp only [Ast.kids, List.length_cons]; omega) hg hr
        simp only [Ast.kids, List.drop_succ_cons, List.drop_zero] at iats
        have hal' : ats.length = decl.length := by rw [hal]; simp only [Ast.kids, List.length_cons]; omega
        have hfs : (lookup Γ.funcs f).isSome = true := by rw [hfd]; rfl
        have hclean := cats hctx
        have hnm : ∀ pr ∈ decl.zip ats, NoMangled f pr.2 := by
          intro pr hpr
          have : pr.2 ∈ ats := (List.of_mem_zip hpr).2
          exact cleanTy_noMangled (idsInL_mem hclean this) hfs
        obtain ⟨cons, σ, hcons, hsolve, hinv, hbound, _⟩ :=
          args_sound Γ.traits f (specStep Γ.traits) (specStep_some Γ.traits) (decl.zip ats) [] [] [] subs
            (inv_nil f) (solve_nil _ _) hnm hfold
        have hcall := HasType.call (Γ := Γ) (Δ := Δ) (d := d) (lo := lo) (hi := hi)
          (fn := .node tf (.text f) lf hf kf) (f := f) (as := as) (ft := ft) (decl := decl) (ats := ats)
          (cons := cons) (σ := σ) rfl hft hfd iats hal' hcons hsolve
        have hσclean : ∀ q ∈ σ, IdsIn (CleanId Γ) q.2 :=
          idsIn_solve Γ.traits cons [] σ hsolve
            (idsIn_foldSpec Γ.traits (decl.zip ats) [] cons hcons (fun q hq => by simp at hq)
              (fun pr hpr => idsInL_mem hclean (List.of_mem_zip hpr).2))
            (fun q hq => by simp at hq)
        cases ft with
        | logic =>
          simp only [] at g3
          obtain ⟨hcur, m4⟩ := setCur_ok' g3
          exact ⟨.logic, .logic, rfl, hcur, fun _ => rfl, fun t ht => (by cases ht), hcall, m3.trans m4, trivial⟩
        | ty t =>
          simp only [] at g3
          obtain ⟨hcur, m4⟩ := setCur_ok' g3
          have hres := hctx.results f t decl hft hfd
          have hbt : Bound f subs t := by
            intro r hr'
            obtain ⟨dd, hdd, hrd⟩ := hres.2 r hr'
            obtain ⟨v, hv⟩ := zip_mem_left hdd hal'.symm
            exact hbound (dd, v) hv r hrd
          have heq := call_result (f := f) hinv t hbt
          rw [heq] at hcur
          refine ⟨.ty t, _, rfl, hcur, fun e => (by cases e), fun t' _ => ⟨_, rfl⟩, hcall, m3.trans m4, ?_⟩
          exact idsIn_instantiate hσclean (cleanId_R0 Γ) t _ (by omega) hres.1

theorem callS_ok {Γ : Ctx} {n : Nat} {d : TokData} {lo hi lf hf : Int} {tf : Tok} {f : String} {kf as : List Ast}
    (hctx : CtxOk Γ) (hnl : lookup Γ.types f ≠ some .logic) (hk : ∀ k ∈ as, VOk Γ n .S k) :
    VOk Γ (n+1) .S (.node .NT_FUNC_CALL d lo hi (.node tf (.text f) lf hf kf :: as)) := by
  intro p s s' Δ h hg hr
  obtain ⟨ft, τ, hft, hcur, _, hty, hcall, hsame, hcl⟩ := call_core hctx hk h hg hr
  refine ⟨hcur ▸ hcall, hsame, notL, fun _ _ => ?_, fun _ => hcur ▸ hcl⟩
  cases ft with
  | logic => exact absurd hft hnl
  | ty t => obtain ⟨t', ht'⟩ := hty t rfl; exact ⟨t', hcur.trans ht'⟩

theorem callL_ok {Γ : Ctx} {n : Nat} {d : TokData} {lo hi lf hf : Int} {tf : Tok} {f : String} {kf as : List Ast}
    (hctx : CtxOk Γ) (hlog : lookup Γ.types f = some .logic) (hk : ∀ k ∈ as, VOk Γ n .S k) :
    VOk Γ (n+1) .L (.node .NT_FUNC_CALL d lo hi (.node tf (.text f) lf hf kf :: as)) := by
  intro p s s' Δ h hg hr
  obtain ⟨ft, τ, hft, hcur, hlg, _, hcall, hsame, hcl⟩ := call_core hctx hk h hg hr
  rw [hlog] at hft
  cases hft
  have hτ := hlg rfl
  exact ⟨hcur ▸ hcall, hsame, fun _ => hcur.trans hτ, notS, fun _ => hcur ▸ hcl⟩

/-! ## filters -/

theorem kid_param {t : Tok} {d : TokData} {lo hi : Int} {params : List Ast} {arg : Ast} {j : Nat}
    (hj : j < params.length) : (Ast.node t d lo hi (params ++ [arg])).kid j = params[j]? := by
  simp only [Ast.kid, Ast.kids]
  exact List.getElem?_append_left hj

theorem kid_arg {t : Tok} {d : TokData} {lo hi : Int} {params : List Ast} {arg : Ast} :
    (Ast.node t d lo hi (params ++ [arg])).kid params.length = some arg := by
  simp [Ast.kid, Ast.kids]

theorem kid_lt {a k : Ast} {i : Nat} (h : a.kid i = some k) : i < a.kids.length := by
  simp only [Ast.kid] at h
  exact (List.getElem?_eq_some_iff.mp h).1

theorem visitParamsGo_ok {Γ : Ctx} {n : Nat} {d : TokData} {lo hi : Int} {params : List Ast} {arg : Ast} {Δ : Env}
    (hk : ∀ k ∈ params, VOk Γ n .S k) :
    ∀ (m i : Nat) (s s' : St), visitParamsGo (visit Γ n) (.node .FILTER d lo hi (params ++ [arg])) m i s = (.ok (), s') →
      i + m = params.length → GoodSt s → Rel Γ s Δ → ∃ pts, HasTypes Γ Δ (params.drop i) pts ∧ Same s s'
  | 0, i, s, s', h, hl, _, _ => by
    obtain ⟨_, rfl⟩ := pure_ok h
    rw [List.drop_eq_nil_of_le (by omega)]
    exact ⟨[], HasTypes.nil, Same.refl _⟩
  | m+1, i, s, s', h, hl, hg, hr => by
    unfold visitParamsGo at h
    obtain ⟨r, s1, h1, g1⟩ := bind_ok h
    obtain ⟨k, _, hki, _, _, _⟩ := childType_ok' h1
    rw [kid_param (by omega)] at hki
    have hmem : k ∈ params := List.mem_of_getElem? hki
    obtain ⟨i1, m1, _, _, hty, _⟩ := childType_spec (by rw [kid_param (by omega)]; exact hki) (hk k hmem) h1 hg hr
    obtain ⟨t, rfl⟩ := hty rfl rfl
    obtain ⟨pts, i2, m2⟩ := visitParamsGo_ok hk m (i+1) s1 s' g1 (by omega) (hg.of_same m1) (hr.of_same m1)
    rw [drop_of_getElem? params i k hki]
    exact ⟨t :: pts, HasTypes.cons i1 i2, m1.trans m2⟩

theorem filterParamsGo_ok {Γ : Ctx} {n : Nat} {d : TokData} {lo hi : Int} {params : List Ast} {arg : Ast} {Δ : Env}
    (hk : ∀ k ∈ params, VOk Γ n .S k) :
    ∀ (m i : Nat) (bases : List Ty) (s s' : St),
      filterParamsGo Γ (visit Γ n) (.node .FILTER d lo hi (params ++ [arg])) m i bases s = (.ok (), s') →
      i + m = params.length → GoodSt s → Rel Γ s Δ →
      ∃ pts, HasTypes Γ Δ (params.drop i) pts ∧
        (∀ p ∈ pts.zip bases, ∃ pb, p.1 = .coll pb ∧ compat Γ.traits p.2 pb = true) ∧ Same s s'
  | 0, i, bases, s, s', h, hl, _, _ => by
    obtain ⟨_, rfl⟩ := pure_ok h
    rw [List.drop_eq_nil_of_le (by omega)]
    exact ⟨[], HasTypes.nil, fun p hp => by simp at hp, Same.refl _⟩
  | m+1, i, bases, s, s', h, hl, hg, hr => by
    unfold filterParamsGo at h
    obtain ⟨r, s1, h1, g1⟩ := bind_ok h
    obtain ⟨k, _, hki, _, _, _⟩ := childType_ok' h1
    rw [kid_param (by omega)] at hki
    have hmem : k ∈ params := List.mem_of_getElem? hki
    obtain ⟨i1, m1, _, _, _, _⟩ := childType_spec (by rw [kid_param (by omega)]; exact hki) (hk k hmem) h1 hg hr
    obtain ⟨pt, s2, h2, g2⟩ := bind_ok g1
    obtain ⟨rfl, rfl⟩ := expectTy_ok' h2
    cases bases with
    | nil => exact absurd g2 stuck_ok
    | cons b rest =>
      simp only [] at g2
      cases pt with
      | base x => exact absurd g2 kidErr_ok
      | tuple cs => exact absurd g2 kidErr_ok
      | coll pb =>
        simp only [] at g2
        by_cases hc : compat Γ.traits b pb = true
        · simp only [hc, if_true] at g2
          obtain ⟨pts, i2, hz, m2⟩ :=
            filterParamsGo_ok hk m (i+1) rest s1 s' g2 (by omega) (hg.of_same m1) (hr.of_same m1)
          rw [drop_of_getElem? params i k hki]
          refine ⟨.coll pb :: pts, HasTypes.cons i1 i2, fun p hp => ?_, m1.trans m2⟩
          simp only [List.zip_cons_cons, List.mem_cons] at hp
          rcases hp with rfl | hp
          · exact ⟨pb, rfl, hc⟩
          · exact hz p hp
        · simp only [hc, Bool.false_eq_true, if_false] at g2
          exact absurd g2 kidErr_ok

theorem filter_ok {Γ : Ctx} {n : Nat} {idx : List Int} {lo hi : Int} {params : List Ast} {arg : Ast}
    (hidx : idx ≠ []) (hpne : params ≠ []) (hk : ∀ k ∈ params, VOk Γ n .S k) (ha : VOk Γ n .S arg) :
    VOk Γ (n+1) .S (.node .FILTER (.tuple idx) lo hi (params ++ [arg])) := by
  intro p s s' Δ h hg hr
  change viFilter Γ (visit Γ n) (.node .FILTER (.tuple idx) lo hi (params ++ [arg])) s = _ at h
  unfold viFilter at h
  obtain ⟨idx', s0, h0, g0⟩ := bind_ok h
  simp [tupleOfData, Ast.data, M.pure] at h0
  obtain ⟨rfl, rfl⟩ := h0
  have hn : (Ast.node Tok.FILTER (.tuple idx) lo hi (params ++ [arg])).kids.length = params.length + 1 := by
    simp [Ast.kids]
  have hpl : 1 ≤ params.length := by
    cases params with
    | nil => exact absurd rfl hpne
    | cons _ _ => simp
  simp only [hn, Nat.add_sub_cancel] at g0
  by_cases har : (!(idx.length + 1 == params.length + 1) && decide (params.length + 1 > 2)) = true
  · simp only [har, if_true] at g0; exact absurd g0 errFail_ok
  · simp only [har, Bool.false_eq_true, if_false] at g0
    obtain ⟨r, s1, h1, g1⟩ := bind_ok g0
    obtain ⟨iA, mA, _, _, _, cA⟩ := childType_spec kid_arg ha h1 hg hr
    obtain ⟨argT, s2, h2, g2⟩ := bind_ok g1
    obtain ⟨rfl, rfl⟩ := expectTy_ok' h2
    have hg1 := hg.of_same mA
    have hr1 := hr.of_same mA
    by_cases hany : anyOrEmptySet argT = true
    · simp only [hany, if_true] at g2
      obtain ⟨_, s3, h3, g3⟩ := bind_ok g2
      obtain ⟨pts, iP, mP⟩ := visitParamsGo_ok hk _ 0 _ _ h3 (by omega) hg1 hr1
      obtain ⟨hcur, m3⟩ := setCur_ok' g3
      simp only [List.drop_zero] at iP
      have hlen : params.length = idx.length ∨ params.length = 1 := by
        by_cases ht : (idx.length + 1 == params.length + 1) = true
        · left; have : idx.length + 1 = params.length + 1 := by simpa using ht
          omega
        · right
          simp only [ht, Bool.not_false, Bool.true_and, decide_eq_true_eq] at har
          omega
      exact ⟨hcur ▸ HasType.filterAny hidx hlen iA (anyOrEmptySet_cases hany) iP, (mA.trans mP).trans m3, notL,
        isTy hcur, cleanOf hcur (fun _ => cleanTy_emptySet Γ)⟩
    · simp only [hany, Bool.false_eq_true, if_false] at g2
      cases argT with
      | base x => exact absurd g2 kidErrTok_ok
      | tuple cs => exact absurd g2 kidErrTok_ok
      | coll b =>
        cases b with
        | base x => exact absurd g2 kidErrTok_ok
        | coll c => exact absurd g2 kidErrTok_ok
        | tuple cs =>
          simp only [] at g2
          cases hp : pickComponents cs idx with
          | none => simp only [hp] at g2; exact absurd g2 kidErrTok_ok
          | some bases =>
            simp only [hp] at g2
            have hpick := pick_of_pickComponents cs idx bases hp
            by_cases ht : (idx.length + 1 == params.length + 1) = true
            · simp only [ht, if_true] at g2
              obtain ⟨_, s3, h3, g3⟩ := bind_ok g2
              obtain ⟨pts, iP, hz, mP⟩ := filterParamsGo_ok hk _ 0 bases _ _ h3 (by omega) hg1 hr1
              obtain ⟨hcur, m3⟩ := setCur_ok' g3
              simp only [List.drop_zero] at iP
              have hlen : params.length = idx.length := by
                have : idx.length + 1 = params.length + 1 := by simpa using ht
                omega
              exact ⟨hcur ▸ HasType.filterEach hidx hlen iA hpick iP hz, (mA.trans mP).trans m3, notL, isTy hcur,
                cleanOf hcur (fun hx => cA hx)⟩
            · simp only [ht, Bool.false_eq_true, if_false] at g2
              simp only [ht, Bool.not_false, Bool.true_and, decide_eq_true_eq] at har
              have hp1 : params.length = 1 := by omega
              obtain ⟨prm, hprm⟩ : ∃ prm, params = [prm] := by
                cases params with
                | nil => simp at hp1
                | cons x xs =>
                  cases xs with
                  | nil => exact ⟨x, rfl⟩
                  | cons _ _ => simp at hp1
              subst hprm
              obtain ⟨pr, s3, h3, g3⟩ := bind_ok g2
              obtain ⟨iP, mP, _, _, _, _⟩ := childType_spec (k := prm) rfl (hk prm (by simp)) h3 hg1 hr1
              obtain ⟨pt, s4, h4, g4⟩ := bind_ok g3
              obtain ⟨rfl, rfl⟩ := expectTy_ok' h4
              obtain ⟨et, s5, h5, g5⟩ := bind_ok g4
              obtain ⟨_, rfl, rfl⟩ := mkTuple_ok' h5
              by_cases hc : (pt.isColl && compat Γ.traits (.coll (Ty.tupleOf bases)) pt) = true
              · simp only [hc, if_true] at g5
                obtain ⟨hcur, m3⟩ := setCur_ok' g5
                have hc' : pt.isColl = true ∧ compat Γ.traits (.coll (Ty.tupleOf bases)) pt = true := by
                  simpa using hc
                have hne1 : idx.length ≠ 1 := by
                  intro e; rw [e] at ht; simp at ht
                exact ⟨hcur ▸ HasType.filterOne hidx hne1 iA hpick iP hc'.1 hc'.2, (mA.trans mP).trans m3, notL,
                  isTy hcur, cleanOf hcur (fun hx => cA hx)⟩
              · simp only [hc, Bool.false_eq_true, if_false] at g5
                exact absurd g5 kidErr_ok

/-! ## the fragment and the induction -/

mutual
/-- the fragment = every construct of the expression grammar, with the parser's arities and the
set / logic / declaration positions (`Cat`, as in `Wf` of Lemmas/CheckerTotal): the binder-free core,
bound variables, radicals, ×, tuples, enumerations and `bool`, quantifiers (variable, tuple pattern,
enumerated declaration), the declarative set-builder, imperative terms I{e | blocks} with blocks
`p:∈S`, `p:=e` and conditions, recursive terms R{p:=e | step}, R{p:=e | cond | step}, filters, and
calls of term-functions and predicates. The side conditions beyond the shape: a call needs the
context to be well formed for template instantiation (`CtxOk`); a call in a logic position names a
global whose declared type is LOGIC, a call in a set position one whose type is not; a radical
token is not itself a mangled name when the context is `CtxOk`. -/
inductive Core1 (Γ : Ctx) : Cat → Ast → Prop where
  | sGlobal {tok : Tok} {x : String} {lo hi : Int} {ks : List Ast} :
      tok = .ID_GLOBAL ∨ tok = .ID_FUNCTION ∨ tok = .ID_PREDICATE → Core1 Γ .S (.node tok (.text x) lo hi ks)
  | sLocal {x : String} {lo hi : Int} {ks : List Ast} : Core1 Γ .S (.node .ID_LOCAL (.text x) lo hi ks)
  | sRadical {x : String} {lo hi : Int} {ks : List Ast} :
      (CtxOk Γ → CleanId Γ x) → Core1 Γ .S (.node .ID_RADICAL (.text x) lo hi ks)
  | sInt {d : TokData} {lo hi : Int} {ks : List Ast} : Core1 Γ .S (.node .LIT_INTEGER d lo hi ks)
  | sIntset {d : TokData} {lo hi : Int} {ks : List Ast} : Core1 Γ .S (.node .LIT_INTSET d lo hi ks)
  | sEmpty {d : TokData} {lo hi : Int} {ks : List Ast} : Core1 Γ .S (.node .LIT_EMPTYSET d lo hi ks)
  | sArith {tok : Tok} {d : TokData} {lo hi : Int} {a b : Ast} :
      tok = .PLUS ∨ tok = .MINUS ∨ tok = .MULTIPLY → Core1 Γ .S a → Core1 Γ .S b → Core1 Γ .S (.node tok d lo hi [a, b])
  | sUnary {tok : Tok} {d : TokData} {lo hi : Int} {a : Ast} :
      tok = .CARD ∨ tok = .BOOLEAN ∨ tok = .DEBOOL ∨ tok = .REDUCE ∨ tok = .BOOL →
      Core1 Γ .S a → Core1 Γ .S (.node tok d lo hi [a])
  | sSetbin {tok : Tok} {d : TokData} {lo hi : Int} {a b : Ast} :
      tok = .UNION ∨ tok = .INTERSECTION ∨ tok = .SET_MINUS ∨ tok = .SYMMINUS →
      Core1 Γ .S a → Core1 Γ .S b → Core1 Γ .S (.node tok d lo hi [a, b])
  | sEnum {d : TokData} {lo hi : Int} {a : Ast} {ks : List Ast} :
      (∀ k, k ∈ a :: ks → Core1 Γ .S k) → Core1 Γ .S (.node .NT_ENUMERATION d lo hi (a :: ks))
  | sMany {tok : Tok} {d : TokData} {lo hi : Int} {a b : Ast} {ks : List Ast} :
      tok = .DECART ∨ tok = .NT_TUPLE →
      (∀ k, k ∈ a :: b :: ks → Core1 Γ .S k) → Core1 Γ .S (.node tok d lo hi (a :: b :: ks))
  | sProj {tok : Tok} {idx : List Int} {lo hi : Int} {a : Ast} :
      tok = .BIGPR ∨ tok = .SMALLPR → Core1 Γ .S a → Core1 Γ .S (.node tok (.tuple idx) lo hi [a])
  | sDeclarative {d : TokData} {lo hi : Int} {p dom body : Ast} :
      Core1 Γ .D p → Core1 Γ .S dom → Core1 Γ .L body → Core1 Γ .S (.node .NT_DECLARATIVE_EXPR d lo hi [p, dom, body])
  | lNot {d : TokData} {lo hi : Int} {a : Ast} : Core1 Γ .L a → Core1 Γ .L (.node .NOT d lo hi [a])
  | lBin {tok : Tok} {d : TokData} {lo hi : Int} {a b : Ast} :
      tok = .AND ∨ tok = .OR ∨ tok = .IMPLICATION ∨ tok = .EQUIVALENT →
      Core1 Γ .L a → Core1 Γ .L b → Core1 Γ .L (.node tok d lo hi [a, b])
  | lOrder {tok : Tok} {d : TokData} {lo hi : Int} {a b : Ast} :
      tok = .GREATER ∨ tok = .LESSER ∨ tok = .GREATER_OR_EQ ∨ tok = .LESSER_OR_EQ →
      Core1 Γ .S a → Core1 Γ .S b → Core1 Γ .L (.node tok d lo hi [a, b])
  | lEqual {tok : Tok} {d : TokData} {lo hi : Int} {a b : Ast} :
      tok = .EQUAL ∨ tok = .NOTEQUAL → Core1 Γ .S a → Core1 Γ .S b → Core1 Γ .L (.node tok d lo hi [a, b])
  | lElem {tok : Tok} {d : TokData} {lo hi : Int} {a b : Ast} :
      tok = .IN ∨ tok = .NOTIN → Core1 Γ .S a → Core1 Γ .S b → Core1 Γ .L (.node tok d lo hi [a, b])
  | lSubset {tok : Tok} {d : TokData} {lo hi : Int} {a b : Ast} :
      tok = .SUBSET ∨ tok = .SUBSET_OR_EQ ∨ tok = .NOTSUBSET →
      Core1 Γ .S a → Core1 Γ .S b → Core1 Γ .L (.node tok d lo hi [a, b])
  | lQuant {tok : Tok} {d : TokData} {lo hi : Int} {p dom body : Ast} :
      tok = .FORALL ∨ tok = .EXISTS → Core1 Γ .DE p → Core1 Γ .S dom → Core1 Γ .L body →
      Core1 Γ .L (.node tok d lo hi [p, dom, body])
  | dLocal {x : String} {lo hi : Int} {ks : List Ast} : Core1 Γ .D (.node .ID_LOCAL (.text x) lo hi ks)
  | dTuple {d : TokData} {lo hi : Int} {ks : List Ast} :
      (∀ k, k ∈ ks → Core1 Γ .D k) → Core1 Γ .D (.node .NT_TUPLE_DECL d lo hi ks)
  | deOfD {k : Ast} : Core1 Γ .D k → Core1 Γ .DE k
  | deEnum {d : TokData} {lo hi : Int} {ks : List Ast} :
      (∀ k, k ∈ ks → Core1 Γ .D k) → Core1 Γ .DE (.node .NT_ENUM_DECL d lo hi ks)
  | sImperative {d : TokData} {lo hi : Int} {value : Ast} {blocks : List Ast} :
      Core1 Γ .S value → (∀ b, b ∈ blocks → Core1B Γ b) →
      Core1 Γ .S (.node .NT_IMPERATIVE_EXPR d lo hi (value :: blocks))
  | sFilter {idx : List Int} {lo hi : Int} {params : List Ast} {arg : Ast} :
      idx ≠ [] → params ≠ [] → (∀ k, k ∈ params → Core1 Γ .S k) → Core1 Γ .S arg →
      Core1 Γ .S (.node .FILTER (.tuple idx) lo hi (params ++ [arg]))
  | sCall {d : TokData} {lo hi lf hf : Int} {tf : Tok} {f : String} {kf as : List Ast} :
      CtxOk Γ → lookup Γ.types f ≠ some .logic → (∀ k, k ∈ as → Core1 Γ .S k) →
      Core1 Γ .S (.node .NT_FUNC_CALL d lo hi (.node tf (.text f) lf hf kf :: as))
  | lCall {d : TokData} {lo hi lf hf : Int} {tf : Tok} {f : String} {kf as : List Ast} :
      CtxOk Γ → lookup Γ.types f = some .logic → (∀ k, k ∈ as → Core1 Γ .S k) →
      Core1 Γ .L (.node .NT_FUNC_CALL d lo hi (.node tf (.text f) lf hf kf :: as))
  | sRecShort {d : TokData} {lo hi : Int} {p init step : Ast} :
      Core1 Γ .D p → Core1 Γ .S init → Core1 Γ .S step → Core1 Γ .S (.node .NT_RECURSIVE_SHORT d lo hi [p, init, step])
  | sRecFull {d : TokData} {lo hi : Int} {p init cond step : Ast} :
      Core1 Γ .D p → Core1 Γ .S init → Core1 Γ .L cond → Core1 Γ .S step →
      Core1 Γ .S (.node .NT_RECURSIVE_FULL d lo hi [p, init, cond, step])
/-- blocks of an imperative term -/
inductive Core1B (Γ : Ctx) : Ast → Prop where
  | iterate {d : TokData} {lo hi : Int} {p dom : Ast} :
      Core1 Γ .D p → Core1 Γ .S dom → Core1B Γ (.node .ITERATE d lo hi [p, dom])
  | assign {d : TokData} {lo hi : Int} {p ex : Ast} :
      Core1 Γ .D p → Core1 Γ .S ex → Core1B Γ (.node .ASSIGN d lo hi [p, ex])
  | cond {b : Ast} : Core1 Γ .L b → Core1B Γ b
end

theorem Core1.logic_id {Γ : Ctx} {e : Ast} (hc : Core1 Γ .L e) : e.id ≠ .ITERATE ∧ e.id ≠ .ASSIGN := by
  cases hc with
  | lNot _ => simp [Ast.id]
  | lBin h _ _ => rcases h with rfl | rfl | rfl | rfl <;> simp [Ast.id]
  | lOrder h _ _ => rcases h with rfl | rfl | rfl | rfl <;> simp [Ast.id]
  | lEqual h _ _ => rcases h with rfl | rfl <;> simp [Ast.id]
  | lElem h _ _ => rcases h with rfl | rfl <;> simp [Ast.id]
  | lSubset h _ _ => rcases h with rfl | rfl | rfl <;> simp [Ast.id]
  | lQuant h _ _ _ => rcases h with rfl | rfl <;> simp [Ast.id]
  | lCall _ _ _ => simp [Ast.id]

theorem visit_zero_ok {Γ : Ctx} {p : Option Tok} {e : Ast} {s s' : St} : ¬ visit Γ 0 p e s = (.ok (), s') :=
  fun h => absurd h stuck_ok

theorem core1_decl (Γ : Ctx) : ∀ (n : Nat) (e : Ast), Core1 Γ .D e → DOk Γ n e
  | 0, _, _ => fun _ _ _ _ _ h => absurd h visit_zero_ok
  | n+1, e, hc => by
    cases hc with
    | dLocal => exact dlocal_ok
    | dTuple hk => exact dtuple_ok (fun k hm => core1_decl Γ n k (hk k hm))

theorem core1_declE (Γ : Ctx) : ∀ (n : Nat) (e : Ast), Core1 Γ .DE e → DEOk Γ n e
  | 0, _, _ => fun _ _ _ _ _ h => absurd h visit_zero_ok
  | n+1, e, hc => by
    cases hc with
    | deOfD h => exact (core1_decl Γ (n+1) e h).toDE
    | deEnum hk => exact deenum_ok (fun k hm => core1_decl Γ n k (hk k hm))

theorem core1_sound (Γ : Ctx) : ∀ (n : Nat),
    (∀ e, Core1 Γ .S e → VOk Γ n .S e) ∧ (∀ e, Core1 Γ .L e → VOk Γ n .L e) ∧ (∀ b, Core1B Γ b → BOk Γ n b)
  | 0 => ⟨fun _ _ _ _ _ _ h => absurd h visit_zero_ok, fun _ _ _ _ _ _ h => absurd h visit_zero_ok,
          fun _ _ _ _ _ _ h => absurd h visit_zero_ok⟩
  | n+1 => by
    obtain ⟨ihS, ihL, ihB⟩ := core1_sound Γ n
    have hL : ∀ e, Core1 Γ .L e → VOk Γ (n+1) .L e := by
      intro e hc
      cases hc with
      | lNot ca => exact not_ok (ihL _ ca)
      | lBin htok ca cb => exact logbin_ok htok (ihL _ ca) (ihL _ cb)
      | lOrder htok ca cb => exact order_ok htok (ihS _ ca) (ihS _ cb)
      | lEqual htok ca cb => exact equal_ok htok (ihS _ ca) (ihS _ cb)
      | lElem htok ca cb => exact elem_ok htok (ihS _ ca) (ihS _ cb)
      | lSubset htok ca cb => exact subset_ok htok (ihS _ ca) (ihS _ cb)
      | lQuant htok cp cd cb => exact quant_ok htok (core1_declE Γ n _ cp) (ihS _ cd) (ihL _ cb)
      | lCall hctx hlog hk => exact callL_ok hctx hlog (fun k hm => ihS _ (hk k hm))
    refine ⟨?_, hL, ?_⟩
    · intro e hc
      cases hc with
      | sGlobal htok => exact global_ok htok
      | sLocal => exact local_ok
      | sRadical hx => exact radical_ok hx
      | sInt => exact int_ok
      | sIntset => exact intset_ok
      | sEmpty => exact emptyset_ok
      | sArith htok ca cb => exact arith_ok htok (ihS _ ca) (ihS _ cb)
      | sUnary htok ca =>
        rcases htok with rfl | rfl | rfl | rfl | rfl
        · exact card_ok (ihS _ ca)
        · exact boolean_ok (ihS _ ca)
        · exact debool_ok (ihS _ ca)
        · exact reduce_ok (ihS _ ca)
        · exact enumeration_ok (Or.inr rfl) (fun k hm => by simp at hm; subst hm; exact ihS _ ca)
      | sSetbin htok ca cb => exact setbin_ok htok (ihS _ ca) (ihS _ cb)
      | sEnum hk => exact enumeration_ok (Or.inl rfl) (fun k hm => ihS _ (hk k hm))
      | sMany htok hk =>
        rcases htok with rfl | rfl
        · exact decart_ok (fun k hm => ihS _ (hk k hm))
        · exact tuple_ok (fun k hm => ihS _ (hk k hm))
      | sProj htok ca =>
        rcases htok with rfl | rfl
        · exact bigpr_ok (ihS _ ca)
        · exact smallpr_ok (ihS _ ca)
      | sDeclarative cp cd cb =>
        exact declarative_ok (core1_decl Γ n _ cp).toDE (ihS _ cd) (ihL _ cb)
      | sImperative cv cb => exact imperative_ok (ihS _ cv) (fun b hm => ihB _ (cb b hm))
      | sFilter hidx hpne hk ca => exact filter_ok hidx hpne (fun k hm => ihS _ (hk k hm)) (ihS _ ca)
      | sCall hctx hnl hk => exact callS_ok hctx hnl (fun k hm => ihS _ (hk k hm))
      | sRecShort cp ci cs => exact recShort_ok (core1_decl Γ n _ cp).toDE (ihS _ ci) (ihS _ cs)
      | sRecFull cp ci cc cs => exact recFull_ok (core1_decl Γ n _ cp).toDE (ihS _ ci) (ihL _ cc) (ihS _ cs)
    · intro b hc
      cases hc with
      | iterate cp cd => exact iterate_ok (core1_decl Γ n _ cp).toDE (ihS _ cd)
      | assign cp cd => exact assign_ok (core1_decl Γ n _ cp).toDE (ihS _ cd)
      | cond cl => exact cond_ok (hL _ cl) (Core1.logic_id cl).1 (Core1.logic_id cl).2

end CCVerif.Checker
