import CCVerif.Lemmas.ParserWfSteps
set_option linter.unusedVariables false
set_option linter.unusedSectionVars false
/-!
The parser model only builds trees of the executable grammar `Wf.wf` (prover-Wf) — part 3: the step of `primary`,
the induction on the fuel, the entry points, `SemanticCheck`, and the result on token streams:

* `parseToks_wfAst` — every tree `parseToks` returns satisfies `Wf.wfAst`, whenever the tokens the parser sees carry
  the payload of their kind (`ParserWf.TokOK`);
* `parseToks_wf_ND` — … and, when its root is not a global declaration, `Wf.wf .ND`: the first half of the carrier
  `SchemaGen.defShaped` of the schema-level theorems.
-/
namespace CCVerif.ParserWf
open CCVerif.Syntax CCVerif.Generated CCVerif.Lexer CCVerif.Parser CCVerif.Wf

theorem step_primary (f : Nat) (ih : ParserWf f) :
    ∀ toks k e r, AllOK toks → primary (f + 1) toks = some (k, e, r) →
    RawWf (catK k) e ∧ AllOK r ∧ (peek toks = .BOOLEAN → k = .set) := by
  intro toks k e r ht h
  rw [primary.eq_def] at h; parser_cases h
  all_goals try (cases h; done)
  all_goals cases h
  all_goals try tok_eqs
  all_goals shape_close

theorem parserWf_succ (f : Nat) (ih : ParserWf f) : ParserWf (f + 1) where
  enumE := fun toks h => resL_intro fun es r he => step_enumE f ih toks es r h he
  enumTail := fun acc toks h => resL_intro fun es r he => step_enumTail f ih acc toks es r h he
  varE := fun toks h => resV_intro fun v r he => step_varE f ih toks v r h he
  varPackTail := fun acc toks h => resL_intro fun es r he => step_varPackTail f ih acc toks es r h he
  argDecls := fun acc toks h => resA_intro fun es r he => step_argDecls f ih acc toks es r h he
  blocks := fun acc toks h => resL_intro fun es r he => step_blocks f ih acc toks es r h he
  primary := fun toks h => resP_intro fun k e r he => step_primary f ih toks k e r h he
  setE := fun m toks h => resT_intro fun k e r he => step_setE f ih m toks k e r h he
  setLoop := fun m k lhs toks h1 h2 => resT_intro fun k' e r he => step_setLoop f ih m k lhs toks k' e r h1 h2 he
  predE := fun toks h => resT_intro fun k e r he => step_predE f ih toks k e r h he
  logE := fun m toks h => resT_intro fun k e r he => step_logE f ih m toks k e r h he
  logLoop := fun m k lhs toks h1 h2 => resT_intro fun k' e r he => step_logLoop f ih m k lhs toks k' e r h1 h2 he

/-- **the `Wf.wfR` invariant of the whole recursive-descent parser**, every fuel -/
theorem parserWf : ∀ f : Nat, ParserWf f
  | 0 => parserWf_zero
  | f + 1 => parserWf_succ f (parserWf f)

/-! ## the entry points -/

/-- raw definition: an expression or a function definition -/
def RawDef (raw : Ast) : Prop := RawWf .ND raw

/-- `Wf.wfAst` with the relaxed table -/
def wfAstR : Ast → Bool
  | .node id data lo hi kids =>
    if id == .PUNC_DEFINE || id == .PUNC_STRUCT then
      noData data && (match kids with
        | [g] => id == .PUNC_DEFINE && wfR .GN g
        | [g, e] => wfR .GN g && wfR .ND e
        | _ => false)
    else wfR .ND (.node id data lo hi kids)

theorem wfAstR_node (id : Tok) (d : TokData) (lo hi : Int) (ks : List Ast) :
    wfAstR (.node id d lo hi ks) =
      if (id == Tok.PUNC_DEFINE || id == Tok.PUNC_STRUCT) = true then
        noData d && (match ks with
          | [g] => id == .PUNC_DEFINE && wfR .GN g
          | [g, e] => wfR .GN g && wfR .ND e
          | _ => false)
      else wfR .ND (.node id d lo hi ks) := rfl
theorem wfAst_node (id : Tok) (d : TokData) (lo hi : Int) (ks : List Ast) :
    wfAst (.node id d lo hi ks) =
      if (id == Tok.PUNC_DEFINE || id == Tok.PUNC_STRUCT) = true then
        noData d && (match ks with
          | [g] => id == .PUNC_DEFINE && wf .GN g
          | [g, e] => wf .GN g && wf .ND e
          | _ => false)
      else wf .ND (.node id d lo hi ks) := rfl

/-- raw whole input -/
def RawTop (raw : Ast) : Prop := ∃ t, stripBrackets raw = some t ∧ wfAstR t = true

theorem rawDef_of_expr {c : Cat} {e : Ast} (hc : c = .S ∨ c = .L) (h : RawWf c e) : RawDef e := by
  obtain ⟨t, st, wt⟩ := h
  rcases hc with rfl | rfl
  · exact ⟨t, st, wfR_LS_ND (wfR_S_LS wt)⟩
  · exact ⟨t, st, wfR_LS_ND (wfR_L_LS wt)⟩

theorem nest_logicOrSet (f : Nat) (toks : Toks) (e : Ast) (r : Toks) (ht : AllOK toks)
    (h : logicOrSet f toks = some (e, r)) : (RawWf .S e ∨ RawWf .L e) ∧ AllOK r := by
  have ih := parserWf f
  unfold logicOrSet at h; parser_cases h
  all_goals try (cases h; done)
  all_goals cases h
  all_goals try tok_eqs
  all_goals shape_close

/-- `FunctionDeclaration` -/
theorem raw_funcdef {ds : List Ast} {e : Ast} {lo hi la ha : Int} (hd : AllRawArg ds) (hn : 1 ≤ ds.length)
    (he : RawWf .S e ∨ RawWf .L e) :
    RawDef (.node .NT_FUNC_DEFINITION .none lo hi [.node .NT_ARGUMENTS .none la ha ds, e]) := by
  obtain ⟨ds', sds, wds, hlen⟩ := allRaw_strip ds hd
  have wargs : RawWf .ARGS (.node .NT_ARGUMENTS .none la ha ds) :=
    rawWf_node (by decide) sds (wfR_all (mn := 1) (c' := .AD) rfl rfl (by omega) wds)
  obtain ⟨a', sa, wa⟩ := wargs
  have wls : RawWf .LS e := by
    rcases he with ⟨t, st, wt⟩ | ⟨t, st, wt⟩
    · exact ⟨t, st, wfR_S_LS wt⟩
    · exact ⟨t, st, wfR_L_LS wt⟩
  obtain ⟨e', se, we⟩ := wls
  exact rawWf_node (by decide) (ParserShape.strip2 sa se) (wfR_seq (cs := [.ARGS, .LS]) rfl rfl (wfSeqR2 wa we))

theorem nest_noDeclaration (f : Nat) (toks : Toks) (e : Ast) (r : Toks) (ht : AllOK toks)
    (h : noDeclaration f toks = some (e, r)) : RawDef e ∧ AllOK r := by
  have ih := parserWf f
  have i0 := nest_logicOrSet f
  unfold noDeclaration at h; parser_cases h
  all_goals try (cases h; done)
  all_goals try (injection h with h; injection h with h1 h2; subst h1 h2)
  all_goals try tok_eqs
  all_goals grind (gen := 20) (ematch := 20) [allOK_cons, allOK_nil, rawDef_of_expr, raw_funcdef, allRawArg_nil, spanOf]

theorem wfAstR_of_ND {t : Ast} (h : wfR .ND t = true) : wfAstR t = true := by
  cases t with
  | node id d lo hi ks =>
    have hid : ¬ ((id == Tok.PUNC_DEFINE || id == Tok.PUNC_STRUCT) = true) := by
      intro hid
      simp only [Bool.or_eq_true] at hid
      rcases hid with hid | hid
      · have := tok_beq_eq _ _ hid; subst this
        have e : shapeR .ND .PUNC_DEFINE = none := rfl
        rw [wfR, e] at h; cases h
      · have := tok_beq_eq _ _ hid; subst this
        have e : shapeR .ND .PUNC_STRUCT = none := rfl
        rw [wfR, e] at h; cases h
    rw [wfAstR_node, if_neg hid]
    exact h

theorem rawTop_of_def {e : Ast} (h : RawDef e) : RawTop e := by
  obtain ⟨t, st, wt⟩ := h
  exact ⟨t, st, wfAstR_of_ND wt⟩

theorem gn_facts : ∀ i : Tok, (i = .ID_GLOBAL ∨ i = .ID_FUNCTION ∨ i = .ID_PREDICATE) →
    shapeR .GN i = some .leaf ∧ kindOf i = .leaf ∧ i ≠ .PUNC_PL := by
  intro i h
  rcases h with h | h | h <;> subst h <;> exact ⟨rfl, rfl, by decide⟩

/-- `FinalizeCstEmpty` -/
theorem raw_define1 {g m : LTok} {lo hi : Int} (hg : TokOK g) (hm' : TokOK m)
    (hid : g.id = .ID_GLOBAL ∨ g.id = .ID_FUNCTION ∨ g.id = .ID_PREDICATE) (hm : m.id = .PUNC_DEFINE) :
    RawTop (.node m.id m.data lo hi [leaf g]) := by
  obtain ⟨f1, f2, f3⟩ := gn_facts g.id hid
  obtain ⟨g', sg, wg⟩ := raw_leaf_cat (c := .GN) hg f2 f1 f3
  have hn : noData m.data = true := tok_op hm' (by rw [hm]; rfl)
  rw [hm]
  refine ⟨.node .PUNC_DEFINE m.data lo hi [g'], by rw [ParserShape.strip_node _ _ _ _ (by decide), ParserShape.strip1 sg]; rfl, ?_⟩
  simp +decide [wfAstR, hn, wg]

/-- `FinalizeCstExpression` -/
theorem raw_define2 {g m : LTok} {e : Ast} {lo hi : Int} (hg : TokOK g) (hm' : TokOK m)
    (hid : g.id = .ID_GLOBAL ∨ g.id = .ID_FUNCTION ∨ g.id = .ID_PREDICATE) (hm : m.id = .PUNC_DEFINE ∨ m.id = .PUNC_STRUCT)
    (he : RawDef e) : RawTop (.node m.id m.data lo hi [leaf g, e]) := by
  obtain ⟨f1, f2, f3⟩ := gn_facts g.id hid
  obtain ⟨g', sg, wg⟩ := raw_leaf_cat (c := .GN) hg f2 f1 f3
  obtain ⟨t, st, wt⟩ := he
  rcases hm with h | h
  · have hn : noData m.data = true := tok_op hm' (by rw [h]; rfl)
    rw [h]
    refine ⟨.node .PUNC_DEFINE m.data lo hi [g', t], by rw [ParserShape.strip_node _ _ _ _ (by decide), ParserShape.strip2 sg st]; rfl, ?_⟩
    simp +decide [wfAstR, hn, wg, wt]
  · have hn : noData m.data = true := tok_op hm' (by rw [h]; rfl)
    rw [h]
    refine ⟨.node .PUNC_STRUCT m.data lo hi [g', t], by rw [ParserShape.strip_node _ _ _ _ (by decide), ParserShape.strip2 sg st]; rfl, ?_⟩
    simp +decide [wfAstR, hn, wg, wt]

theorem nest_expression (f : Nat) (toks : Toks) (e : Ast) (ht : AllOK toks)
    (h : expression f toks = some e) : RawTop e := by
  have i0 := nest_noDeclaration f
  unfold expression at h; parser_cases h
  all_goals try (cases h; done)
  all_goals try (injection h with h; subst h)
  all_goals try tok_eqs
  all_goals grind (gen := 20) (ematch := 20) [allOK_cons, allOK_nil, raw_define1, raw_define2, rawTop_of_def]

/-! ## `SemanticCheck` -/

/-- a relaxed whole input that passes `SemanticCheck` is `Wf.wfAst` -/
theorem wfAst_of_wfAstR {t : Ast} (hw : wfAstR t = true) (hs : semanticCheck none t = true) : wfAst t = true := by
  cases t with
  | node id d lo hi ks =>
    rw [wfAstR_node] at hw
    rw [wfAst_node]
    by_cases hid : (id == Tok.PUNC_DEFINE || id == Tok.PUNC_STRUCT) = true
    · rw [if_pos hid] at hw ⊢
      simp only [Bool.and_eq_true] at hw ⊢
      refine ⟨hw.1, ?_⟩
      rw [sem_node] at hs
      simp only [Bool.and_eq_true] at hs
      have hq : ∀ c, Pos c (some id) := by
        intro c _
        simp only [Bool.or_eq_true] at hid
        rcases hid with hid | hid <;> (have := tok_beq_eq _ _ hid; subst this; rfl)
      have hks := hs.2
      have h2 := hw.2
      match ks, hks, h2 with
      | [], _, h2 => simp at h2
      | [g], hks, h2 =>
        simp only [semanticCheckList, Bool.and_eq_true] at hks
        simp only [Bool.and_eq_true] at h2 ⊢
        exact ⟨h2.1, wf_of_wfR g .GN _ h2.2 hks.1 (hq _)⟩
      | [g, e], hks, h2 =>
        simp only [semanticCheckList, Bool.and_eq_true] at hks
        simp only [Bool.and_eq_true] at h2 ⊢
        exact ⟨wf_of_wfR g .GN _ h2.1 hks.1 (hq _), wf_of_wfR e .ND _ h2.2 hks.2.1 (hq _)⟩
      | _ :: _ :: _ :: _, _, h2 => simp at h2
    · rw [if_neg hid] at hw ⊢
      exact wf_of_wfR_top hw hs

/-- **every tree `parseToks` returns satisfies `Wf.wfAst`**, whenever the tokens the parser sees carry the payload of
their kind -/
theorem parseToks_wfAst (ts : Toks) (t : Ast)
    (ht : AllOK (ts.takeWhile (fun t => t.id != .END && t.id != .INTERRUPT))) (h : parseToks ts = some t) :
    wfAst t = true := by
  unfold parseToks at h
  simp only [] at h
  split at h
  · cases h
  · split at h
    · rename_i raw hraw
      split at h
      · rename_i hsem
        obtain ⟨t', st, wt⟩ := nest_expression _ _ raw ht hraw
        rw [h] at st; cases st
        exact wfAst_of_wfAstR wt (sem_strip raw t none h hsem)
      · cases h
    · cases h

/-- … and a tree whose root is not a global declaration is a phrase `no_declaration` -/
theorem parseToks_wf_ND (ts : Toks) (t : Ast)
    (ht : AllOK (ts.takeWhile (fun t => t.id != .END && t.id != .INTERRUPT))) (h : parseToks ts = some t)
    (h1 : t.id ≠ .PUNC_DEFINE) (h2 : t.id ≠ .PUNC_STRUCT) : wf .ND t = true := by
  have hw := parseToks_wfAst ts t ht h
  cases t with
  | node id d lo hi ks =>
    simp only [Ast.id] at h1 h2
    have hid : ¬ ((id == Tok.PUNC_DEFINE || id == Tok.PUNC_STRUCT) = true) := by
      simp only [Bool.or_eq_true, not_or]
      exact ⟨fun e => h1 (tok_beq_eq _ _ e), fun e => h2 (tok_beq_eq _ _ e)⟩
    rw [wfAst_node, if_neg hid] at hw
    exact hw

end CCVerif.ParserWf
