import CCVerif.Model.Oss
import CCVerif.Lemmas.Oss
import CCVerif.Lemmas.OssRel
import CCVerif.Lemmas.OssInv
import CCVerif.Lemmas.OssTop
import CCVerif.Lemmas.OssExec
/-!
C19, result of an execution: while the operands of `p` are synchronised (attached, the handle's hash
is the document's content), no reaction chain touches the operation handle of `p` — so after
`SaveOperationResult(p)` the re-check of the children leaves `p` itself `done`.
-/
namespace CCVerif.Oss

/-- operand `q` is attached and its handle carries the content of the document -/
def SyncQ (q : Pid) (d : Dyn) : Prop :=
  ∃ n, (d.handle q).src = some n ∧ (d.source n).map (·.content) = some (d.handle q).coreHash

theorem SyncC.syncQ {q : Pid} {c : Content} {d : Dyn} (h : SyncC q c d) : SyncQ q d := by
  obtain ⟨n, e1, e2, e3⟩ := h
  exact ⟨n, e1, by rw [e2, e3]⟩

theorem SyncQ.of_eq {q : Pid} {d d' : Dyn} (h : SyncQ q d) (hh : d'.handle q = d.handle q)
    (hs : ∀ n, (d'.source n).map (·.content) = (d.source n).map (·.content)) : SyncQ q d' := by
  obtain ⟨n, e1, e2⟩ := h
  exact ⟨n, by rw [hh]; exact e1, by rw [hs, hh]; exact e2⟩

/-- both operands synchronised -/
def StabPre (p1 p2 : Pid) (d : Dyn) : Prop := SyncQ p1 d ∧ SyncQ p2 d

theorem StabPre.of_eq {p1 p2 : Pid} {d d' : Dyn} (h : StabPre p1 p2 d) (h1 : d'.handle p1 = d.handle p1)
    (h2 : d'.handle p2 = d.handle p2) (hs : ∀ n, (d'.source n).map (·.content) = (d.source n).map (·.content)) :
    StabPre p1 p2 d' := ⟨h.1.of_eq h1 hs, h.2.of_eq h2 hs⟩

theorem StabPre.stuck {p1 p2 : Pid} {d : Dyn} (h : StabPre p1 p2 d) (w : String) : StabPre p1 p2 (d.stuck w) :=
  h.of_eq rfl rfl (fun _ => rfl)

theorem stab_foldl {α} (P : Dyn → Prop) (op : Dyn → OpHandle) (g : Dyn → α → Dyn)
    (hg : ∀ d x, P d → op (g d x) = op d ∧ P (g d x)) :
    ∀ (l : List α) (d : Dyn), P d → op (l.foldl g d) = op d ∧ P (l.foldl g d)
  | [], _, h => ⟨rfl, h⟩
  | x :: l, d, h => by
    obtain ⟨e1, h1⟩ := hg d x h
    obtain ⟨e2, h2⟩ := stab_foldl P op g hg l (g d x) h1
    exact ⟨e2.trans e1, h2⟩

theorem stab_foldl_fst {α β} (P : Dyn → Prop) (op : Dyn → OpHandle) (g : Dyn × β → α → Dyn × β)
    (hg : ∀ acc x, P acc.1 → op (g acc x).1 = op acc.1 ∧ P (g acc x).1) :
    ∀ (l : List α) (acc : Dyn × β), P acc.1 → op (l.foldl g acc).1 = op acc.1 ∧ P (l.foldl g acc).1
  | [], _, h => ⟨rfl, h⟩
  | x :: l, acc, h => by
    obtain ⟨e1, h1⟩ := hg acc x h
    obtain ⟨e2, h2⟩ := stab_foldl_fst P op g hg l (g acc x) h1
    exact ⟨e2.trans e1, h2⟩

theorem checkFinish_op_ne (o : Oracle) (c : Pid) (r : Dyn × List Bool) (p : Pid) (h : p ≠ c) :
    (checkFinish o c r).op p = r.1.op p := by
  unfold CCVerif.Oss.checkFinish
  dsimp only
  rw [Dyn.op_setOp, if_neg h]
  split <;> split <;> rfl

/-- the reaction chain leaves the operation handle of `p` alone while its operands are synchronised -/
theorem reactions_stab (s : Struct) (o : Oracle) (wf : s.graph.Wf) (p p1 p2 : Pid) (hpar : s.graph.parentsOf p = [p1, p2]) :
    ∀ f : Nat,
    (∀ d n, StabPre p1 p2 d → (announce s o f d n).op p = d.op p ∧ StabPre p1 p2 (announce s o f d n)) ∧
    (∀ d q, StabPre p1 p2 d → (syncPict s o f d q).op p = d.op p ∧ StabPre p1 p2 (syncPict s o f d q)) ∧
    (∀ d q, p ∉ s.graph.childrenOf q → StabPre p1 p2 d →
      (coreChange s o f d q).op p = d.op p ∧ StabPre p1 p2 (coreChange s o f d q)) ∧
    (∀ d q, StabPre p1 p2 d → (updateSync s o f d q).op p = d.op p ∧ StabPre p1 p2 (updateSync s o f d q)) ∧
    (∀ d q, StabPre p1 p2 d → (dataFor s o f d q).1.op p = d.op p ∧ StabPre p1 p2 (dataFor s o f d q).1) ∧
    (∀ d c, c ≠ p → StabPre p1 p2 d → (checkOp s o f d c).op p = d.op p ∧ StabPre p1 p2 (checkOp s o f d c))
  | 0 => by
    refine ⟨?_, ?_, ?_, ?_, ?_, ?_⟩
    · intro d n h; simp only [announce]; exact ⟨rfl, h.stuck _⟩
    · intro d q h; simp only [syncPict]; exact ⟨rfl, h.stuck _⟩
    · intro d q _ h; simp only [coreChange]; exact ⟨rfl, h.stuck _⟩
    · intro d q h; simp only [updateSync]; exact ⟨rfl, h.stuck _⟩
    · intro d q h; simp only [dataFor]; exact ⟨rfl, h.stuck _⟩
    · intro d c _ h; simp only [checkOp]; exact ⟨rfl, h.stuck _⟩
  | f + 1 => by
    obtain ⟨ihA, ihS, ihC, ihU, ihD, ihK⟩ := reactions_stab s o wf p p1 p2 hpar f
    have hA : ∀ d n, StabPre p1 p2 d → (announce s o (f + 1) d n).op p = d.op p ∧ StabPre p1 p2 (announce s o (f + 1) d n) := by
      intro d n h
      rw [announce_succ]
      cases hx : d.source n with
      | none => exact ⟨rfl, h⟩
      | some x =>
        dsimp only
        have h1 : StabPre p1 p2 (d.setSource (annSource x)) := by
          refine h.of_eq (d' := d.setSource (annSource x)) rfl rfl ?_
          intro m
          rw [Dyn.source_setSource_of (y := annSource x) hx rfl]
          split
          · rename_i e; subst e; rw [hx]; rfl
          · rfl
        split
        · exact ⟨rfl, h⟩
        · split
          · exact ⟨rfl, h1⟩
          · split
            · exact ⟨rfl, h1⟩
            · exact ihS _ _ h1
    have hS : ∀ d q, StabPre p1 p2 d → (syncPict s o (f + 1) d q).op p = d.op p ∧ StabPre p1 p2 (syncPict s o (f + 1) d q) := by
      intro d q h
      rw [syncPict_succ]
      cases hsrc : (d.handle q).src with
      | none => exact ⟨rfl, h.stuck _⟩
      | some n =>
        dsimp only
        -- the last stage only sets the descriptor
        have last : ∀ d2 : Dyn, (d2.handle q).src = some n → StabPre p1 p2 d2 →
            (syncStage3 d2 q n).op p = d2.op p ∧ StabPre p1 p2 (syncStage3 d2 q n) := by
          intro d2 hs2 h2
          refine ⟨rfl, ?_⟩
          have key : ∀ r, SyncQ r d2 → SyncQ r (syncStage3 d2 q n) := by
            intro r ⟨m, e1, e2⟩
            unfold syncStage3
            by_cases hr : r = q
            · subst hr
              refine ⟨m, by simp [e1], ?_⟩
              simpa using e2
            · exact ⟨m, by simp [hr, e1], by simpa [hr] using e2⟩
          exact ⟨key p1 h2.1, key p2 h2.2⟩
        by_cases hq : q = p1 ∨ q = p2
        · -- an operand: its hash is already the content, nothing changes
          have hsq : SyncQ q d := by rcases hq with rfl | rfl; exact h.1; exact h.2
          obtain ⟨m, e1, e2⟩ := hsq
          rw [hsrc] at e1; injection e1 with e1; subst e1
          have hnew : newHashOf d q n = (d.handle q).coreHash := by
            unfold newHashOf; rw [e2]; rfl
          have hst1 : syncStage1 d q n = d.setHandle q (d.handle q) := by
            unfold syncStage1; rw [hnew]
          have h2eq : syncStage2 s o f d q n = d.setHandle q (d.handle q) := by
            unfold syncStage2
            rw [hnew]
            simp only [bne_self_eq_false, Bool.false_and, Bool.false_eq_true, if_false]
            exact hst1
          rw [h2eq]
          have hP : StabPre p1 p2 (d.setHandle q (d.handle q)) := by
            apply h.of_eq
            · rw [Dyn.handle_setHandle]; split
              · rename_i e; rw [e]
              · rfl
            · rw [Dyn.handle_setHandle]; split
              · rename_i e; rw [e]
              · rfl
            · intro _; rfl
          exact last _ (by simp [hsrc]) hP
        · have hq1 : p1 ≠ q := fun e => hq (Or.inl e.symm)
          have hq2 : p2 ≠ q := fun e => hq (Or.inr e.symm)
          have hP1 : StabPre p1 p2 (syncStage1 d q n) := by
            apply h.of_eq
            · simp [syncStage1, hq1]
            · simp [syncStage1, hq2]
            · intro _; rfl
          have hs1 : ((syncStage1 d q n).handle q).src = some n := by simp [syncStage1, hsrc]
          have hnc : p ∉ s.graph.childrenOf q := by
            intro hc
            have := ((Graph.mem_childrenOf wf).1 hc).2
            rw [hpar] at this
            simp only [List.mem_cons, List.not_mem_nil, or_false] at this
            exact hq this
          have h2 : (syncStage2 s o f d q n).op p = d.op p ∧ StabPre p1 p2 (syncStage2 s o f d q n) ∧
              ((syncStage2 s o f d q n).handle q).src = some n := by
            unfold syncStage2
            split
            · obtain ⟨a, b⟩ := ihC _ q hnc hP1
              exact ⟨a, b, (reactions_frame s o f).2.2.1 _ q |>.src q n hs1⟩
            · exact ⟨rfl, hP1, hs1⟩
          obtain ⟨a, b⟩ := last _ h2.2.2 h2.2.1
          exact ⟨a.trans h2.1, b⟩
    have hC : ∀ d q, p ∉ s.graph.childrenOf q → StabPre p1 p2 d →
        (coreChange s o (f + 1) d q).op p = d.op p ∧ StabPre p1 p2 (coreChange s o (f + 1) d q) := by
      intro d q hnc h
      rw [coreChange_succ]
      have : ∀ (l : List Pid), (∀ c ∈ l, c ≠ p) → ∀ d, StabPre p1 p2 d →
          (l.foldl (markStep s o f) d).op p = d.op p ∧ StabPre p1 p2 (l.foldl (markStep s o f) d) := by
        intro l
        induction l with
        | nil => intro _ d h; exact ⟨rfl, h⟩
        | cons c l ih =>
          intro hl d h
          simp only [List.foldl_cons]
          have hcp : c ≠ p := hl c List.mem_cons_self
          have hstep : (markStep s o f d c).op p = d.op p ∧ StabPre p1 p2 (markStep s o f d c) := by
            unfold markStep
            split
            · exact ⟨rfl, h.stuck _⟩
            · obtain ⟨a, b⟩ := ihK d c hcp h
              refine ⟨?_, b.of_eq rfl rfl (fun _ => rfl)⟩
              rw [Dyn.op_setOp, if_neg (Ne.symm hcp)]; exact a
          obtain ⟨a, b⟩ := ih (fun x hx => hl x (List.mem_cons_of_mem _ hx)) _ hstep.2
          exact ⟨a.trans hstep.1, b⟩
      exact this _ (fun c hc e => hnc (e ▸ hc)) d h
    have hU : ∀ d q, StabPre p1 p2 d → (updateSync s o (f + 1) d q).op p = d.op p ∧ StabPre p1 p2 (updateSync s o (f + 1) d q) := by
      intro d q h
      rw [updateSync_succ]
      split
      · exact ⟨rfl, h⟩
      · exact ihA _ _ h
    have hD : ∀ d q, StabPre p1 p2 d → (dataFor s o (f + 1) d q).1.op p = d.op p ∧ StabPre p1 p2 (dataFor s o (f + 1) d q).1 := by
      intro d q h
      rw [dataFor_succ]
      split
      · exact ⟨rfl, h⟩
      · split
        · exact ⟨rfl, h⟩
        · cases hsrc : (d.handle q).src with
          | some n => exact ⟨rfl, h⟩
          | none =>
            dsimp only
            cases hb : (d.handle q).desc.bind d.source with
            | none => exact ⟨rfl, h⟩
            | some x =>
              dsimp only
              obtain ⟨m, _, hm⟩ := Option.bind_eq_some_iff.1 hb
              have hq1 : p1 ≠ q := by
                rintro rfl
                obtain ⟨k, e, _⟩ := h.1
                rw [hsrc] at e; cases e
              have hq2 : p2 ≠ q := by
                rintro rfl
                obtain ⟨k, e, _⟩ := h.2
                rw [hsrc] at e; cases e
              have hP : StabPre p1 p2 (openStage d q x) := by
                apply h.of_eq
                · simp [openStage, hq1]
                · simp [openStage, hq2]
                · intro k
                  unfold openStage
                  rw [Dyn.source_setHandle, Dyn.source_setSource_of (y := openSource x) hm rfl]
                  split
                  · rename_i e; subst e; rw [hm]; rfl
                  · rfl
              exact ihS _ q hP
    have hK : ∀ d c, c ≠ p → StabPre p1 p2 d → (checkOp s o (f + 1) d c).op p = d.op p ∧ StabPre p1 p2 (checkOp s o (f + 1) d c) := by
      intro d c hcp h
      rw [checkOp_succ]
      obtain ⟨a, b⟩ := stab_foldl_fst (StabPre p1 p2) (fun d => d.op p) (callStep s o f)
        (by
          intro acc q hacc
          obtain ⟨a1, b1⟩ := ihU acc.1 q hacc
          obtain ⟨a2, b2⟩ := ihD _ q b1
          exact ⟨a2.trans a1, b2⟩) (s.graph.parentsOf c) (d, []) h
      refine ⟨?_, b.of_eq (checkFinish_handle o c _ p1) (checkFinish_handle o c _ p2)
        (fun n => by rw [checkFinish_source])⟩
      rw [checkFinish_op_ne o c _ p (Ne.symm hcp)]
      exact a
    exact ⟨hA, hS, hC, hU, hD, hK⟩

/-- after `SaveOperationResult(p)` from a state where both operands are synchronised, `p` is neither
broken nor outdated, keeps its definition, and its document holds the content written -/
theorem saveResult_done {s : Struct} (g : GraphOk s) (o : Oracle) (dS : Dyn) (p p1 p2 : Pid) (c c1 c2 : Content)
    (hps : p ∈ s.storage) (hpar : s.graph.parentsOf p = [p1, p2]) (hs1 : p1 ∈ s.storage) (hs2 : p2 ∈ s.storage)
    (i : DInv s dS) (y1 : SyncC p1 c1 dS) (y2 : SyncC p2 c2 dS) :
    (((saveResult s Variant.repaired o dS p c (some c1, some c2)).1.op p).broken = false) ∧
    (((saveResult s Variant.repaired o dS p c (some c1, some c2)).1.op p).outdated = false) ∧
    (((saveResult s Variant.repaired o dS p c (some c1, some c2)).1.op p).type = (dS.op p).type) ∧
    ∃ n, ((saveResult s Variant.repaired o dS p c (some c1, some c2)).1.handle p).src = some n ∧
      ((saveResult s Variant.repaired o dS p c (some c1, some c2)).1.source n).map (·.content) = some c := by
  rw [saveResult_repaired]
  dsimp only
  have hne1 : p1 ≠ p := by rintro rfl; exact g.irrefl p1 (by rw [hpar]; simp)
  have hne2 : p2 ≠ p := by rintro rfl; exact g.irrefl p2 (by rw [hpar]; simp)
  have ru := updateChildren_rel g o ((winState s o dS p c).setOp p (doneOp ((winState s o dS p c).op p) (some c1, some c2))) p
    (((winState s o dS p c).handle p).coreHash != (dS.handle p).coreHash)
  obtain ⟨_, wp, wq, wops, _, wsrc, wsm⟩ := window_spec o i hps (winPre_of i hps c)
  have wfree := (winPre_of i hps c).free
  have wp : (winState s o dS p c).handle p = ⟨some (inputTarget ({ dS with dnd := dS.dnd + 1 } : Dyn) p).2,
    some (inputTarget ({ dS with dnd := dS.dnd + 1 } : Dyn) p).2, c⟩ := wp
  have wq : ∀ q, q ≠ p → (winState s o dS p c).handle q = dS.handle q := wq
  have wops : ∀ q, (winState s o dS p c).op q = dS.op q := wops
  have wsrc : ((winState s o dS p c).source (inputTarget ({ dS with dnd := dS.dnd + 1 } : Dyn) p).2).map (·.content) = some c := wsrc
  have wsm : ∀ m, m ≠ (inputTarget ({ dS with dnd := dS.dnd + 1 } : Dyn) p).2 → (winState s o dS p c).source m = dS.source m := wsm
  generalize winState s o dS p c = W at wp wq wops wsrc wsm ru ⊢
  generalize (inputTarget ({ dS with dnd := dS.dnd + 1 } : Dyn) p).2 = n at wp wsrc wsm wfree
  have syW : ∀ q cq, q ∈ s.storage → q ≠ p → SyncC q cq dS → SyncC q cq (W.setOp p (doneOp (W.op p) (some c1, some c2))) := by
    intro q cq hq hqp ⟨m, e1, e2, e3⟩
    have hmn : m ≠ n := by rintro rfl; exact wfree q hq hqp (Handle.ed_of_src e1)
    refine ⟨m, ?_, ?_, ?_⟩
    · rw [Dyn.handle_setOp, wq q hqp]; exact e1
    · rw [Dyn.source_setOp, wsm m hmn]; exact e2
    · rw [Dyn.handle_setOp, wq q hqp]; exact e3
  have hP : StabPre p1 p2 (W.setOp p (doneOp (W.op p) (some c1, some c2))) :=
    ⟨(syW p1 c1 hs1 hne1 y1).syncQ, (syW p2 c2 hs2 hne2 y2).syncQ⟩
  -- the loop over the children never touches `p`
  have hloop : ∀ (ch : Bool) (l : List Pid), (∀ x ∈ l, x ≠ p) → ∀ d, StabPre p1 p2 d →
      (l.foldl (updStep s o p ch) d).op p = d.op p ∧ StabPre p1 p2 (l.foldl (updStep s o p ch) d) := by
    intro ch l
    induction l with
    | nil => intro _ d h; exact ⟨rfl, h⟩
    | cons x l ih =>
      intro hl d h
      simp only [List.foldl_cons]
      have hxp : x ≠ p := hl x List.mem_cons_self
      have hstep : (updStep s o p ch d x).op p = d.op p ∧ StabPre p1 p2 (updStep s o p ch d x) := by
        unfold updStep
        have h1 : (if (s.graph.parentIndex p x).isNone = true then d.stuck "ParentIndex.value()" else d).op p = d.op p ∧
            StabPre p1 p2 (if (s.graph.parentIndex p x).isNone = true then d.stuck "ParentIndex.value()" else d) := by
          split
          · exact ⟨rfl, h.stuck _⟩
          · exact ⟨rfl, h⟩
        generalize (if (s.graph.parentIndex p x).isNone = true then d.stuck "ParentIndex.value()" else d) = d1 at h1
        dsimp only
        obtain ⟨a, b⟩ := (reactions_stab s o g.wf p p1 p2 hpar (fuelOf d1)).2.2.2.2.2 d1 x hxp h1.2
        split
        · refine ⟨?_, b.of_eq rfl rfl (fun _ => rfl)⟩
          rw [Dyn.op_setOp, if_neg (Ne.symm hxp)]; exact a.trans h1.1
        · exact ⟨a.trans h1.1, b⟩
      obtain ⟨a, b⟩ := ih (fun y hy => hl y (List.mem_cons_of_mem _ hy)) _ hstep.2
      exact ⟨a.trans hstep.1, b⟩
  rw [updateChildren_repaired] at ru ⊢
  obtain ⟨hop, _⟩ := hloop ((W.handle p).coreHash != (dS.handle p).coreHash) (s.graph.childrenOf p)
    (fun x hx => ((Graph.mem_childrenOf g.wf).1 hx).1) _ hP
  rw [hop, Dyn.op_setOp, if_pos rfl]
  refine ⟨rfl, rfl, by rw [← wops p]; rfl, n, ?_, ?_⟩
  · apply ru.r0.frame.src p n
    rw [Dyn.handle_setOp, wp]
  · rw [ru.r0.frame.content n, Dyn.source_setOp]; exact wsrc

end CCVerif.Oss
