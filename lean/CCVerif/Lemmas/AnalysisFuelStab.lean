import CCVerif.Lemmas.AnalysisFuel
/-!
Helper lemmas of C04, part 5 — the fuel `fuelFor` of the parser model is sufficient.

`Stab f`: each of the twelve parser functions, called on `n` tokens with fuel `f ≥ 32·n + rank`
(`rank` = 1 … 5: how many functions can be entered before a token is consumed), returns with fuel
`f + 1` exactly what it returns with fuel `f` — in particular a `none` is a syntax error, never an
exhausted fuel. Proof: a result `some x` persists by `Mono`; for a result `none` the body is analysed
case by case, every recursive call is on at most as many tokens (`Len`) and so within the bound of
the induction hypothesis.
-/
namespace CCVerif.Analysis
open CCVerif.Syntax CCVerif.Generated CCVerif.Lexer CCVerif.Parser

structure Stab (f : Nat) : Prop where
  enumE : ∀ toks, 32 * toks.length + 3 ≤ f → enumE (f + 1) toks = enumE f toks
  enumTail : ∀ acc toks, 32 * toks.length + 1 ≤ f → enumTail (f + 1) acc toks = enumTail f acc toks
  varE : ∀ toks, 32 * toks.length + 2 ≤ f → varE (f + 1) toks = varE f toks
  varPackTail : ∀ acc toks, 32 * toks.length + 1 ≤ f → varPackTail (f + 1) acc toks = varPackTail f acc toks
  argDecls : ∀ acc toks, 32 * toks.length + 1 ≤ f → argDecls (f + 1) acc toks = argDecls f acc toks
  blocks : ∀ acc toks, 32 * toks.length + 5 ≤ f → blocks (f + 1) acc toks = blocks f acc toks
  primary : ∀ toks, 32 * toks.length + 1 ≤ f → primary (f + 1) toks = primary f toks
  setE : ∀ m toks, 32 * toks.length + 2 ≤ f → setE (f + 1) m toks = setE f m toks
  setLoop : ∀ m k lhs toks, 32 * toks.length + 1 ≤ f → setLoop (f + 1) m k lhs toks = setLoop f m k lhs toks
  predE : ∀ toks, 32 * toks.length + 3 ≤ f → predE (f + 1) toks = predE f toks
  logE : ∀ m toks, 32 * toks.length + 4 ≤ f → logE (f + 1) m toks = logE f m toks
  logLoop : ∀ m k lhs toks, 32 * toks.length + 1 ≤ f → logLoop (f + 1) m k lhs toks = logLoop f m k lhs toks

theorem stab_zero : Stab 0 := by
  constructor <;> intros <;> omega

set_option maxHeartbeats 800000 in
theorem stab_step_enumE (f : Nat) (ih : Stab f) :
    ∀ toks, 32 * toks.length + 3 ≤ f + 1 → enumE (f + 2) toks = enumE (f + 1) toks := by
  have i1 := ih.enumE; have i2 := ih.enumTail; have i3 := ih.varE; have i4 := ih.varPackTail
  have i5 := ih.argDecls; have i6 := ih.blocks; have i7 := ih.primary; have i8 := ih.setE
  have i9 := ih.setLoop; have i10 := ih.predE; have i11 := ih.logE; have i12 := ih.logLoop
  have l := len f
  have l1 := l.enumE; have l2 := l.enumTail; have l3 := l.varE; have l4 := l.varPackTail
  have l5 := l.argDecls; have l6 := l.blocks; have l7 := l.primary; have l8 := l.setE
  have l9 := l.setLoop; have l10 := l.predE; have l11 := l.logE; have l12 := l.logLoop
  intro toks hn
  cases hres : enumE (f + 1) toks with
  | some x => exact (mono (f + 1)).enumE toks x hres
  | none =>
    rw [enumE.eq_def] at hres ⊢
    simp only [] at hres ⊢
    repeat' (split at hres)
    all_goals try (cases hres; done)
    all_goals grind [length_drop_one_le]

set_option maxHeartbeats 800000 in
theorem stab_step_enumTail (f : Nat) (ih : Stab f) :
    ∀ acc toks, 32 * toks.length + 1 ≤ f + 1 → enumTail (f + 2) acc toks = enumTail (f + 1) acc toks := by
  have i1 := ih.enumE; have i2 := ih.enumTail; have i3 := ih.varE; have i4 := ih.varPackTail
  have i5 := ih.argDecls; have i6 := ih.blocks; have i7 := ih.primary; have i8 := ih.setE
  have i9 := ih.setLoop; have i10 := ih.predE; have i11 := ih.logE; have i12 := ih.logLoop
  have l := len f
  have l1 := l.enumE; have l2 := l.enumTail; have l3 := l.varE; have l4 := l.varPackTail
  have l5 := l.argDecls; have l6 := l.blocks; have l7 := l.primary; have l8 := l.setE
  have l9 := l.setLoop; have l10 := l.predE; have l11 := l.logE; have l12 := l.logLoop
  intro acc toks hn
  cases hres : enumTail (f + 1) acc toks with
  | some x => exact (mono (f + 1)).enumTail acc toks x hres
  | none =>
    rw [enumTail.eq_def] at hres ⊢
    simp only [] at hres ⊢
    repeat' (split at hres)
    all_goals try (cases hres; done)
    all_goals grind [length_drop_one_le]

set_option maxHeartbeats 800000 in
theorem stab_step_varE (f : Nat) (ih : Stab f) :
    ∀ toks, 32 * toks.length + 2 ≤ f + 1 → varE (f + 2) toks = varE (f + 1) toks := by
  have i1 := ih.enumE; have i2 := ih.enumTail; have i3 := ih.varE; have i4 := ih.varPackTail
  have i5 := ih.argDecls; have i6 := ih.blocks; have i7 := ih.primary; have i8 := ih.setE
  have i9 := ih.setLoop; have i10 := ih.predE; have i11 := ih.logE; have i12 := ih.logLoop
  have l := len f
  have l1 := l.enumE; have l2 := l.enumTail; have l3 := l.varE; have l4 := l.varPackTail
  have l5 := l.argDecls; have l6 := l.blocks; have l7 := l.primary; have l8 := l.setE
  have l9 := l.setLoop; have l10 := l.predE; have l11 := l.logE; have l12 := l.logLoop
  intro toks hn
  cases hres : varE (f + 1) toks with
  | some x => exact (mono (f + 1)).varE toks x hres
  | none =>
    rw [varE.eq_def] at hres ⊢
    simp only [] at hres ⊢
    repeat' (split at hres)
    all_goals try (cases hres; done)
    all_goals grind [length_drop_one_le]

set_option maxHeartbeats 800000 in
theorem stab_step_varPackTail (f : Nat) (ih : Stab f) :
    ∀ acc toks, 32 * toks.length + 1 ≤ f + 1 → varPackTail (f + 2) acc toks = varPackTail (f + 1) acc toks := by
  have i1 := ih.enumE; have i2 := ih.enumTail; have i3 := ih.varE; have i4 := ih.varPackTail
  have i5 := ih.argDecls; have i6 := ih.blocks; have i7 := ih.primary; have i8 := ih.setE
  have i9 := ih.setLoop; have i10 := ih.predE; have i11 := ih.logE; have i12 := ih.logLoop
  have l := len f
  have l1 := l.enumE; have l2 := l.enumTail; have l3 := l.varE; have l4 := l.varPackTail
  have l5 := l.argDecls; have l6 := l.blocks; have l7 := l.primary; have l8 := l.setE
  have l9 := l.setLoop; have l10 := l.predE; have l11 := l.logE; have l12 := l.logLoop
  intro acc toks hn
  cases hres : varPackTail (f + 1) acc toks with
  | some x => exact (mono (f + 1)).varPackTail acc toks x hres
  | none =>
    rw [varPackTail.eq_def] at hres ⊢
    simp only [] at hres ⊢
    repeat' (split at hres)
    all_goals try (cases hres; done)
    all_goals grind [length_drop_one_le]

set_option maxHeartbeats 800000 in
theorem stab_step_argDecls (f : Nat) (ih : Stab f) :
    ∀ acc toks, 32 * toks.length + 1 ≤ f + 1 → argDecls (f + 2) acc toks = argDecls (f + 1) acc toks := by
  have i1 := ih.enumE; have i2 := ih.enumTail; have i3 := ih.varE; have i4 := ih.varPackTail
  have i5 := ih.argDecls; have i6 := ih.blocks; have i7 := ih.primary; have i8 := ih.setE
  have i9 := ih.setLoop; have i10 := ih.predE; have i11 := ih.logE; have i12 := ih.logLoop
  have l := len f
  have l1 := l.enumE; have l2 := l.enumTail; have l3 := l.varE; have l4 := l.varPackTail
  have l5 := l.argDecls; have l6 := l.blocks; have l7 := l.primary; have l8 := l.setE
  have l9 := l.setLoop; have l10 := l.predE; have l11 := l.logE; have l12 := l.logLoop
  intro acc toks hn
  cases hres : argDecls (f + 1) acc toks with
  | some x => exact (mono (f + 1)).argDecls acc toks x hres
  | none =>
    rw [argDecls.eq_def] at hres ⊢
    simp only [] at hres ⊢
    repeat' (split at hres)
    all_goals try (cases hres; done)
    all_goals grind [length_drop_one_le]

set_option maxHeartbeats 800000 in
theorem stab_step_blocks (f : Nat) (ih : Stab f) :
    ∀ acc toks, 32 * toks.length + 5 ≤ f + 1 → blocks (f + 2) acc toks = blocks (f + 1) acc toks := by
  have i1 := ih.enumE; have i2 := ih.enumTail; have i3 := ih.varE; have i4 := ih.varPackTail
  have i5 := ih.argDecls; have i6 := ih.blocks; have i7 := ih.primary; have i8 := ih.setE
  have i9 := ih.setLoop; have i10 := ih.predE; have i11 := ih.logE; have i12 := ih.logLoop
  have l := len f
  have l1 := l.enumE; have l2 := l.enumTail; have l3 := l.varE; have l4 := l.varPackTail
  have l5 := l.argDecls; have l6 := l.blocks; have l7 := l.primary; have l8 := l.setE
  have l9 := l.setLoop; have l10 := l.predE; have l11 := l.logE; have l12 := l.logLoop
  intro acc toks hn
  cases hres : blocks (f + 1) acc toks with
  | some x => exact (mono (f + 1)).blocks acc toks x hres
  | none =>
    rw [blocks.eq_def] at hres ⊢
    simp only [] at hres ⊢
    repeat' (split at hres)
    all_goals try (cases hres; done)
    all_goals grind [length_drop_one_le]

set_option maxHeartbeats 2000000 in
theorem stab_step_primary (f : Nat) (ih : Stab f) :
    ∀ toks, 32 * toks.length + 1 ≤ f + 1 → primary (f + 2) toks = primary (f + 1) toks := by
  have i1 := ih.enumE; have i2 := ih.enumTail; have i3 := ih.varE; have i4 := ih.varPackTail
  have i5 := ih.argDecls; have i6 := ih.blocks; have i7 := ih.primary; have i8 := ih.setE
  have i9 := ih.setLoop; have i10 := ih.predE; have i11 := ih.logE; have i12 := ih.logLoop
  have l := len f
  have l1 := l.enumE; have l2 := l.enumTail; have l3 := l.varE; have l4 := l.varPackTail
  have l5 := l.argDecls; have l6 := l.blocks; have l7 := l.primary; have l8 := l.setE
  have l9 := l.setLoop; have l10 := l.predE; have l11 := l.logE; have l12 := l.logLoop
  intro toks hn
  cases hres : primary (f + 1) toks with
  | some x => exact (mono (f + 1)).primary toks x hres
  | none =>
    rw [primary.eq_def] at hres ⊢
    simp only [] at hres ⊢
    repeat' (split at hres)
    all_goals try (cases hres; done)
    all_goals grind [length_drop_one_le]

set_option maxHeartbeats 800000 in
theorem stab_step_setE (f : Nat) (ih : Stab f) :
    ∀ m toks, 32 * toks.length + 2 ≤ f + 1 → setE (f + 2) m toks = setE (f + 1) m toks := by
  have i1 := ih.enumE; have i2 := ih.enumTail; have i3 := ih.varE; have i4 := ih.varPackTail
  have i5 := ih.argDecls; have i6 := ih.blocks; have i7 := ih.primary; have i8 := ih.setE
  have i9 := ih.setLoop; have i10 := ih.predE; have i11 := ih.logE; have i12 := ih.logLoop
  have l := len f
  have l1 := l.enumE; have l2 := l.enumTail; have l3 := l.varE; have l4 := l.varPackTail
  have l5 := l.argDecls; have l6 := l.blocks; have l7 := l.primary; have l8 := l.setE
  have l9 := l.setLoop; have l10 := l.predE; have l11 := l.logE; have l12 := l.logLoop
  intro m toks hn
  cases hres : setE (f + 1) m toks with
  | some x => exact (mono (f + 1)).setE m toks x hres
  | none =>
    rw [setE.eq_def] at hres ⊢
    simp only [] at hres ⊢
    repeat' (split at hres)
    all_goals try (cases hres; done)
    all_goals grind [length_drop_one_le]

set_option maxHeartbeats 800000 in
theorem stab_step_setLoop (f : Nat) (ih : Stab f) :
    ∀ m k lhs toks, 32 * toks.length + 1 ≤ f + 1 → setLoop (f + 2) m k lhs toks = setLoop (f + 1) m k lhs toks := by
  have i1 := ih.enumE; have i2 := ih.enumTail; have i3 := ih.varE; have i4 := ih.varPackTail
  have i5 := ih.argDecls; have i6 := ih.blocks; have i7 := ih.primary; have i8 := ih.setE
  have i9 := ih.setLoop; have i10 := ih.predE; have i11 := ih.logE; have i12 := ih.logLoop
  have l := len f
  have l1 := l.enumE; have l2 := l.enumTail; have l3 := l.varE; have l4 := l.varPackTail
  have l5 := l.argDecls; have l6 := l.blocks; have l7 := l.primary; have l8 := l.setE
  have l9 := l.setLoop; have l10 := l.predE; have l11 := l.logE; have l12 := l.logLoop
  intro m k lhs toks hn
  cases hres : setLoop (f + 1) m k lhs toks with
  | some x => exact (mono (f + 1)).setLoop m k lhs toks x hres
  | none =>
    rw [setLoop.eq_def] at hres ⊢
    simp only [] at hres ⊢
    repeat' (split at hres)
    all_goals try (cases hres; done)
    all_goals grind [length_drop_one_le]

set_option maxHeartbeats 800000 in
theorem stab_step_predE (f : Nat) (ih : Stab f) :
    ∀ toks, 32 * toks.length + 3 ≤ f + 1 → predE (f + 2) toks = predE (f + 1) toks := by
  have i1 := ih.enumE; have i2 := ih.enumTail; have i3 := ih.varE; have i4 := ih.varPackTail
  have i5 := ih.argDecls; have i6 := ih.blocks; have i7 := ih.primary; have i8 := ih.setE
  have i9 := ih.setLoop; have i10 := ih.predE; have i11 := ih.logE; have i12 := ih.logLoop
  have l := len f
  have l1 := l.enumE; have l2 := l.enumTail; have l3 := l.varE; have l4 := l.varPackTail
  have l5 := l.argDecls; have l6 := l.blocks; have l7 := l.primary; have l8 := l.setE
  have l9 := l.setLoop; have l10 := l.predE; have l11 := l.logE; have l12 := l.logLoop
  intro toks hn
  cases hres : predE (f + 1) toks with
  | some x => exact (mono (f + 1)).predE toks x hres
  | none =>
    rw [predE.eq_def] at hres ⊢
    simp only [] at hres ⊢
    repeat' (split at hres)
    all_goals try (cases hres; done)
    all_goals grind [length_drop_one_le]

set_option maxHeartbeats 800000 in
theorem stab_step_logE (f : Nat) (ih : Stab f) :
    ∀ m toks, 32 * toks.length + 4 ≤ f + 1 → logE (f + 2) m toks = logE (f + 1) m toks := by
  have i1 := ih.enumE; have i2 := ih.enumTail; have i3 := ih.varE; have i4 := ih.varPackTail
  have i5 := ih.argDecls; have i6 := ih.blocks; have i7 := ih.primary; have i8 := ih.setE
  have i9 := ih.setLoop; have i10 := ih.predE; have i11 := ih.logE; have i12 := ih.logLoop
  have l := len f
  have l1 := l.enumE; have l2 := l.enumTail; have l3 := l.varE; have l4 := l.varPackTail
  have l5 := l.argDecls; have l6 := l.blocks; have l7 := l.primary; have l8 := l.setE
  have l9 := l.setLoop; have l10 := l.predE; have l11 := l.logE; have l12 := l.logLoop
  intro m toks hn
  cases hres : logE (f + 1) m toks with
  | some x => exact (mono (f + 1)).logE m toks x hres
  | none =>
    rw [logE.eq_def] at hres ⊢
    simp only [] at hres ⊢
    repeat' (split at hres)
    all_goals try (cases hres; done)
    all_goals grind [length_drop_one_le]

set_option maxHeartbeats 800000 in
theorem stab_step_logLoop (f : Nat) (ih : Stab f) :
    ∀ m k lhs toks, 32 * toks.length + 1 ≤ f + 1 → logLoop (f + 2) m k lhs toks = logLoop (f + 1) m k lhs toks := by
  have i1 := ih.enumE; have i2 := ih.enumTail; have i3 := ih.varE; have i4 := ih.varPackTail
  have i5 := ih.argDecls; have i6 := ih.blocks; have i7 := ih.primary; have i8 := ih.setE
  have i9 := ih.setLoop; have i10 := ih.predE; have i11 := ih.logE; have i12 := ih.logLoop
  have l := len f
  have l1 := l.enumE; have l2 := l.enumTail; have l3 := l.varE; have l4 := l.varPackTail
  have l5 := l.argDecls; have l6 := l.blocks; have l7 := l.primary; have l8 := l.setE
  have l9 := l.setLoop; have l10 := l.predE; have l11 := l.logE; have l12 := l.logLoop
  intro m k lhs toks hn
  cases hres : logLoop (f + 1) m k lhs toks with
  | some x => exact (mono (f + 1)).logLoop m k lhs toks x hres
  | none =>
    rw [logLoop.eq_def] at hres ⊢
    simp only [] at hres ⊢
    repeat' (split at hres)
    all_goals try (cases hres; done)
    all_goals grind [length_drop_one_le]

theorem stab_succ (f : Nat) (ih : Stab f) : Stab (f + 1) :=
  ⟨stab_step_enumE f ih, stab_step_enumTail f ih, stab_step_varE f ih, stab_step_varPackTail f ih, stab_step_argDecls f ih, stab_step_blocks f ih, stab_step_primary f ih, stab_step_setE f ih, stab_step_setLoop f ih, stab_step_predE f ih, stab_step_logE f ih, stab_step_logLoop f ih⟩

theorem stab : ∀ f : Nat, Stab f
  | 0 => stab_zero
  | f + 1 => stab_succ f (stab f)

/-- from the bound on, the result of `logE` does not depend on the fuel -/
theorem logE_stable (m : Nat) (toks : Toks) (f : Nat) (h : 32 * toks.length + 4 ≤ f) :
    ∀ d : Nat, logE (f + d) m toks = logE f m toks
  | 0 => rfl
  | d + 1 => by
    rw [← Nat.add_assoc, (stab (f + d)).logE m toks (by omega)]
    exact logE_stable m toks f h d

theorem argDecls_stable (acc : List Ast) (toks : Toks) (f : Nat) (h : 32 * toks.length + 1 ≤ f) :
    ∀ d : Nat, argDecls (f + d) acc toks = argDecls f acc toks
  | 0 => rfl
  | d + 1 => by
    rw [← Nat.add_assoc, (stab (f + d)).argDecls acc toks (by omega)]
    exact argDecls_stable acc toks f h d

theorem logicOrSet_stable (toks : Toks) (f d : Nat) (h : 32 * toks.length + 4 ≤ f) :
    logicOrSet (f + d) toks = logicOrSet f toks := by
  unfold logicOrSet; rw [logE_stable 0 toks f h d]

theorem noDeclaration_stable (toks : Toks) (f d : Nat) (h : 32 * toks.length + 4 ≤ f) :
    noDeclaration (f + d) toks = noDeclaration f toks := by
  unfold noDeclaration
  cases toks with
  | nil => rfl
  | cons ls rest =>
    simp only [List.length_cons] at h
    simp only []
    split
    · rw [argDecls_stable [] rest f (by omega) d]
      have hl := (len f).argDecls [] rest
      split
      · rename_i d0 ds rs r1 heq
        have := hl _ _ heq
        simp only [List.length_cons] at this
        rw [logicOrSet_stable r1 f d (by omega)]
      · rfl
    · exact logicOrSet_stable _ f d (by simp only [List.length_cons]; omega)

/-- **sufficiency of the fuel**: with fuel at least `32·n + 4` for `n` tokens `expression` returns
the same result as with any larger fuel -/
theorem expression_stable (toks : Toks) (f d : Nat) (h : 32 * toks.length + 4 ≤ f) :
    expression (f + d) toks = expression f toks := by
  unfold expression
  split
  · rename_i g m rest
    simp only [List.length_cons] at h
    rw [noDeclaration_stable rest f d (by omega),
      noDeclaration_stable (g :: m :: rest) f d (by simp only [List.length_cons]; omega)]
  · rw [noDeclaration_stable toks f d h]

end CCVerif.Analysis
