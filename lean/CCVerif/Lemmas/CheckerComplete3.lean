import CCVerif.Lemmas.CheckerCompleteTop
import CCVerif.Lemmas.TemplatesComplete
/-!
Completeness of the checker model (C03 `check_complete_partial2`), part 4: filters `Fi i,j [P…](A)` in
both forms (one parameter per index / one parameter set of tuples, and the any-type corner), and calls
of term-functions and predicates `F[a1, …, an]` with and without template parameters.
Same pattern as Lemmas/CheckerComplete (`bind_ex` / `childType_cv`).
-/
namespace CCVerif.Checker
open CCVerif.Syntax CCVerif.Types CCVerif.Spec

theorem hasTypes_length {Γ : Ctx} {Δ : Env} : ∀ {ks : List Ast} {ts : List Ty}, HasTypes Γ Δ ks ts → ts.length = ks.length
  | [], _, h => by cases h; rfl
  | _ :: _, _, h => by
    cases h with
    | cons _ h2 => simp [hasTypes_length h2]

/-! ## filters -/

/-- inversion of the three filter rules on an arbitrary list of children -/
theorem inv_filter {Γ : Ctx} {Δ : Env} {idx : List Int} {lo hi : Int} {ks : List Ast} {τ : ExprTy}
    (ht : HasType Γ Δ (.node .FILTER (.tuple idx) lo hi ks) τ) :
    (∃ params arg cs bases pts, ks = params ++ [arg] ∧ idx ≠ [] ∧ params.length = idx.length ∧
      HasType Γ Δ arg (.ty (.coll (.tuple cs))) ∧ pick cs idx = some bases ∧ HasTypes Γ Δ params pts ∧
      (∀ p ∈ pts.zip bases, ∃ pb, p.1 = .coll pb ∧ compat Γ.traits p.2 pb = true) ∧ τ = .ty (.coll (.tuple cs))) ∨
    (∃ param arg cs bases pt, ks = [param, arg] ∧ idx ≠ [] ∧ idx.length ≠ 1 ∧
      HasType Γ Δ arg (.ty (.coll (.tuple cs))) ∧ pick cs idx = some bases ∧ HasType Γ Δ param (.ty pt) ∧
      pt.isColl = true ∧ compat Γ.traits (.coll (Ty.tupleOf bases)) pt = true ∧ τ = .ty (.coll (.tuple cs))) ∨
    (∃ params arg t pts, ks = params ++ [arg] ∧ idx ≠ [] ∧ (params.length = idx.length ∨ params.length = 1) ∧
      HasType Γ Δ arg (.ty t) ∧ (t = Ty.R0 ∨ t = Ty.emptySet) ∧ HasTypes Γ Δ params pts ∧ τ = .ty Ty.emptySet) := by
  cases ht with
  | filterEach h1 h2 h3 h4 h5 h6 => exact Or.inl ⟨_, _, _, _, _, rfl, h1, h2, h3, h4, h5, h6, rfl⟩
  | filterOne h1 h2 h3 h4 h5 h6 h7 => exact Or.inr (Or.inl ⟨_, _, _, _, _, rfl, h1, h2, h3, h4, h5, h6, h7, rfl⟩)
  | filterAny h1 h2 h3 h4 h5 => exact Or.inr (Or.inr ⟨_, _, _, _, rfl, h1, h2, h3, h4, h5, rfl⟩)
  | _ => exfalso; simp_all

theorem pick_length (cs : List Ty) : ∀ (idx : List Int) (comps : List Ty), pick cs idx = some comps →
    comps.length = idx.length
  | [], comps, h => by simp [pick] at h; subst h; rfl
  | i :: is, comps, h => by
    unfold pick at h
    by_cases hi : 1 ≤ i ∧ i ≤ cs.length
    · simp only [hi, and_self, if_true] at h
      generalize cs[(i - 1).toNat]? = oc at h
      cases oc with
      | none => simp at h
      | some c =>
        cases h2 : pick cs is with
        | none => simp [h2] at h
        | some rest =>
          simp only [h2, Option.some.injEq] at h
          subst h
          simp [pick_length cs is rest h2]
    · simp [hi] at h

theorem append_single_inj {α : Type} {xs ys : List α} {a b : α} (h : xs ++ [a] = ys ++ [b]) : xs = ys ∧ a = b := by
  obtain ⟨h1, h2⟩ := List.append_inj' h rfl
  exact ⟨h1, by simpa using h2⟩

/-- the parameter visits of the any-type case -/
theorem visitParamsGo_c {Γ : Ctx} {n : Nat} {d : TokData} {lo hi : Int} {params : List Ast} {arg : Ast} {Δ : Env}
    (hk : ∀ k ∈ params, CV Γ n .S k) :
    ∀ (m i : Nat) (s : St) (pts : List Ty), HasTypes Γ Δ (params.drop i) pts → i + m = params.length →
      GoodSt s → RelC Γ s Δ →
      ∃ s', visitParamsGo (visit Γ n) (.node .FILTER d lo hi (params ++ [arg])) m i s = (.ok (), s') ∧ Same s s'
  | 0, i, s, pts, _, _, _, _ => ⟨s, rfl, Same.refl s⟩
  | m+1, i, s, pts, h, hl, hg, hr => by
    have hip : i < params.length := by omega
    have hpi : params[i]? = some params[i] := by simp [hip]
    have hki : (Ast.node Tok.FILTER d lo hi (params ++ [arg])).kid i = some params[i] := by
      rw [kid_param hip]; exact hpi
    rw [drop_of_getElem? params i _ hpi] at h
    cases h with
    | cons h1 h2 =>
      obtain ⟨s1, r1, m1⟩ := childType_cv hki (hk _ (List.getElem_mem hip)) h1 hg hr (fun _ _ => ⟨_, rfl⟩)
        (nomis (t := .FILTER) (by decide))
      obtain ⟨s2, r2, m2⟩ := visitParamsGo_c hk m (i+1) s1 _ h2 (by omega) (hg.of_same m1) (hr.of_same m1)
      refine ⟨s2, ?_, m1.trans m2⟩
      unfold visitParamsGo
      rw [bind_eq r1]; exact r2

/-- the parameter loop of the one-parameter-per-index case -/
theorem filterParamsGo_c {Γ : Ctx} {n : Nat} {d : TokData} {lo hi : Int} {params : List Ast} {arg : Ast} {Δ : Env}
    (hk : ∀ k ∈ params, CV Γ n .S k) :
    ∀ (m i : Nat) (bases : List Ty) (s : St) (pts : List Ty), HasTypes Γ Δ (params.drop i) pts →
      (∀ p ∈ pts.zip bases, ∃ pb, p.1 = .coll pb ∧ compat Γ.traits p.2 pb = true) → bases.length = m →
      i + m = params.length → GoodSt s → RelC Γ s Δ →
      ∃ s', filterParamsGo Γ (visit Γ n) (.node .FILTER d lo hi (params ++ [arg])) m i bases s = (.ok (), s') ∧ Same s s'
  | 0, i, bases, s, pts, _, _, _, _, _, _ => ⟨s, rfl, Same.refl s⟩
  | m+1, i, bases, s, pts, h, hz, hb, hl, hg, hr => by
    have hip : i < params.length := by omega
    have hpi : params[i]? = some params[i] := by simp [hip]
    have hki : (Ast.node Tok.FILTER d lo hi (params ++ [arg])).kid i = some params[i] := by
      rw [kid_param hip]; exact hpi
    rw [drop_of_getElem? params i _ hpi] at h
    cases h with
    | cons h1 h2 =>
      rename_i t ts
      cases bases with
      | nil => simp at hb
      | cons b rest =>
        obtain ⟨pb, hpb, hcomp⟩ := hz (t, b) (by simp)
        simp only at hpb hcomp
        subst hpb
        obtain ⟨s1, r1, m1⟩ := childType_cv hki (hk _ (List.getElem_mem hip)) h1 hg hr (fun _ _ => ⟨_, rfl⟩)
          (nomis (t := .FILTER) (by decide))
        obtain ⟨s2, r2, m2⟩ := filterParamsGo_c hk m (i+1) rest s1 ts h2
          (fun p hp => hz p (by simp [hp])) (by simpa using hb) (by omega) (hg.of_same m1) (hr.of_same m1)
        refine ⟨s2, ?_, m1.trans m2⟩
        unfold filterParamsGo
        rw [bind_eq r1, bind_eq (expectTy_fwd _ _ _)]
        simp only [hcomp, if_true]
        exact r2

theorem filter_c {Γ : Ctx} {n : Nat} {idx : List Int} {lo hi : Int} {params : List Ast} {arg : Ast}
    (hk : ∀ k ∈ params, CV Γ n .S k) (ha : CV Γ n .S arg) :
    CV0 Γ (n+1) .S (.node .FILTER (.tuple idx) lo hi (params ++ [arg])) := by
  intro p s Δ τ ht hg hr hp1 hp2
  change ∃ s', viFilter Γ (visit Γ n) (.node .FILTER (.tuple idx) lo hi (params ++ [arg])) s = _ ∧ _
  have hn : (Ast.node Tok.FILTER (.tuple idx) lo hi (params ++ [arg])).kids.length = params.length + 1 := by
    simp [Ast.kids]
  have hnm : emptySetMisused (some (Ast.node Tok.FILTER (.tuple idx) lo hi (params ++ [arg])).id) = true → notEmptyLit arg :=
    nomis (t := .FILTER) (by decide)
  unfold viFilter
  refine bind_ex (tupleOfData_fwd _) ?_
  simp only [hn, Nat.add_sub_cancel]
  rcases inv_filter ht with ⟨params', arg', cs, bases, pts, hks, hidx, hlen, hA, hpick, hP, hz, rfl⟩ |
    ⟨param, arg', cs, bases, pt, hks, hidx, hne1, hA, hpick, hP, hcoll, hcomp, rfl⟩ |
    ⟨params', arg', t, pts, hks, hidx, hlen, hA, hor, hP, rfl⟩
  · -- one parameter per index
    obtain ⟨rfl, rfl⟩ := append_single_inj hks
    have htp : (idx.length + 1 == params.length + 1) = true := by simp [hlen]
    simp only [htp, Bool.not_true, Bool.false_and, Bool.false_eq_true, if_false, if_true]
    obtain ⟨s1, r1, m1⟩ := childType_cv kid_arg ha hA hg hr (fun _ _ => ⟨_, rfl⟩) hnm
    refine bind_ex r1 (bind_ex (expectTy_fwd _ _ _) ?_)
    simp only [anyOrEmptySet, Ty.isAny, Bool.false_or, Bool.false_eq_true, if_false,
      pickComponents_of_pick _ _ _ hpick]
    obtain ⟨s2, r2, m2⟩ := filterParamsGo_c (d := .tuple idx) (lo := lo) (hi := hi) (arg := arg) hk params.length 0
      bases s1 pts (by simpa using hP) hz (by rw [pick_length _ _ _ hpick, hlen]) (by omega)
      (hg.of_same m1) (hr.of_same m1)
    exact bind_ex r2 ⟨_, rfl, rfl⟩
  · -- a single parameter: a set of tuples
    have hks' : params ++ [arg] = [param] ++ [arg'] := hks
    obtain ⟨rfl, rfl⟩ := append_single_inj hks'
    have htp : (idx.length + 1 == 2) = false := by
      simp only [beq_eq_false_iff_ne, ne_eq]; omega
    simp only [List.length_singleton, Nat.reduceAdd, gt_iff_lt, Nat.lt_irrefl, decide_false, Bool.and_false,
      Bool.false_eq_true, if_false, htp]
    obtain ⟨s1, r1, m1⟩ := childType_cv (a := .node .FILTER (.tuple idx) lo hi ([param] ++ [arg])) (i := 1) rfl ha hA hg hr
      (fun _ _ => ⟨_, rfl⟩) hnm
    refine bind_ex r1 (bind_ex (expectTy_fwd _ _ _) ?_)
    simp only [anyOrEmptySet, Ty.isAny, Bool.false_or, Bool.false_eq_true, if_false,
      pickComponents_of_pick _ _ _ hpick]
    obtain ⟨s2, r2, m2⟩ := childType_cv (a := .node .FILTER (.tuple idx) lo hi ([param] ++ [arg])) (i := 0) rfl
      (hk param (by simp)) hP (hg.of_same m1) (hr.of_same m1) (fun _ _ => ⟨_, rfl⟩) (nomis (t := .FILTER) (by decide))
    refine bind_ex r2 (bind_ex (expectTy_fwd _ _ _) ?_)
    have hbne : bases ≠ [] := by
      intro e
      have := pick_length _ _ _ hpick
      rw [e] at this
      cases idx with
      | nil => exact hidx rfl
      | cons _ _ => simp at this
    refine bind_ex (mkTuple_fwd _ hbne _) ?_
    simp only [hcoll, hcomp, Bool.and_self, if_true]
    exact ⟨_, rfl, rfl⟩
  · -- the argument is the any-type or `∅`
    obtain ⟨rfl, rfl⟩ := append_single_inj hks
    have hc : (!(idx.length + 1 == params.length + 1) && decide (params.length + 1 > 2)) = false := by
      rcases hlen with h | h
      · simp [h]
      · simp [h]
    simp only [hc, Bool.false_eq_true, if_false]
    obtain ⟨s1, r1, m1⟩ := childType_cv kid_arg ha hA hg hr (fun _ _ => ⟨_, rfl⟩) hnm
    refine bind_ex r1 (bind_ex (expectTy_fwd _ _ _) ?_)
    have hany : anyOrEmptySet t = true := by rcases hor with rfl | rfl <;> decide
    simp only [hany, if_true]
    obtain ⟨s2, r2, m2⟩ := visitParamsGo_c (d := .tuple idx) (lo := lo) (hi := hi) (arg := arg) hk params.length 0 s1 pts
      (by simpa using hP) (by omega) (hg.of_same m1) (hr.of_same m1)
    exact bind_ex r2 ⟨_, rfl, rfl⟩

/-! ## calls -/

/-- the types of well-typed operands mention no mangled template parameter (via the soundness lemmas) -/
theorem hasTypes_clean {Γ : Ctx} {n : Nat} {Δ : Env} {s : St} (par : Tok)
    (hpar : emptySetInvalidParents.contains par = false) :
    ∀ (ks : List Ast) (ts : List Ty), (∀ k ∈ ks, CV Γ n .S k) → (∀ k ∈ ks, VOk Γ n .S k) → HasTypes Γ Δ ks ts →
      GoodSt s → RelC Γ s Δ → CtxOk Γ → IdsInL (CleanId Γ) ts
  | [], _, _, _, h, _, _, _ => by cases h; exact idsInL_nil
  | k :: ks, _, hc, hv, h, hg, hr, hctx => by
    cases h with
    | cons h1 h2 =>
      rename_i t ts
      obtain ⟨s1, r1, hcur, _⟩ := hc k (by simp) (some par) s Δ (.ty t) h1 hg hr (fun _ _ => ⟨t, rfl⟩) (nomis hpar)
      have hcl := (hv k (by simp) (some par) s s1 Δ r1 hg hr.rel).2.2.2.2 hctx
      rw [hcur] at hcl
      exact idsInL_cons.mpr ⟨hcl, hasTypes_clean par hpar ks ts (fun k' hk' => hc k' (by simp [hk']))
        (fun k' hk' => hv k' (by simp [hk'])) h2 hg hr hctx⟩

/-- the loop of `CheckFuncArguments` follows the pure fold `foldCT` -/
theorem checkArgsGo_c {Γ : Ctx} {n : Nat} {a : Ast} {fn : String} {Δ : Env}
    (hk : ∀ i k, 1 ≤ i → a.kid i = some k → CV Γ n .S k) (hnm : emptySetInvalidParents.contains a.id = false) :
    ∀ (m : Nat) (decl : List (String × Ty)) (child : Nat) (subs subs' : Subst) (s : St) (ats : List Ty),
      HasTypes Γ Δ (a.kids.drop child) ats → foldCT Γ.traits fn subs (decl.zip ats) = some subs' → 1 ≤ child →
      child + m = a.kids.length → decl.length = m → GoodSt s → RelC Γ s Δ →
      ∃ s', checkArgsGo Γ (visit Γ n) a fn m decl child subs s = (.ok subs', s') ∧ Same s s'
  | 0, decl, child, subs, subs', s, ats, h, hf, _, hl, hd, _, _ => by
    rw [List.drop_eq_nil_of_le (by omega)] at h
    cases h
    have : decl = [] := List.length_eq_zero_iff.mp hd
    subst this
    simp only [List.zip_nil_left, foldCT, Option.some.injEq] at hf
    subst hf
    exact ⟨s, rfl, Same.refl s⟩
  | m+1, decl, child, subs, subs', s, ats, h, hf, hc1, hl, hd, hg, hr => by
    have hi : child < a.kids.length := by omega
    have hki : a.kid child = some a.kids[child] := by simp [Ast.kid, hi]
    rw [drop_of_getElem? a.kids child _ hki] at h
    cases h with
    | cons h1 h2 =>
      rename_i vt ats'
      cases decl with
      | nil => simp at hd
      | cons dd rest =>
        obtain ⟨dn, dt⟩ := dd
        simp only [List.zip_cons_cons, foldCT] at hf
        cases hct : compareTemplated Γ.traits subs (mangle fn dt) vt with
        | mk ok subs1 =>
          rw [hct] at hf
          cases ok with
          | false => simp at hf
          | true =>
            simp only [] at hf
            obtain ⟨s1, r1, m1⟩ := childType_cv hki (hk child _ hc1 hki) h1 hg hr (fun _ _ => ⟨_, rfl⟩) (nomis hnm)
            obtain ⟨s2, r2, m2⟩ := checkArgsGo_c hk hnm m rest (child+1) subs1 subs' s1 ats' h2 hf (by omega) (by omega)
              (by simpa using hd) (hg.of_same m1) (hr.of_same m1)
            refine ⟨s2, ?_, m1.trans m2⟩
            unfold checkArgsGo
            rw [bind_eq r1]
            simp only [hct]
            exact r2

theorem call_c {Γ : Ctx} {n : Nat} {c : Cat} {d : TokData} {lo hi lf hf : Int} {tf : Tok} {f : String}
    {kf as : List Ast} (hctx : CtxOk Γ) (hk : ∀ k ∈ as, CV Γ n .S k) (hv : ∀ k ∈ as, VOk Γ n .S k) :
    CV0 Γ (n+1) c (.node .NT_FUNC_CALL d lo hi (.node tf (.text f) lf hf kf :: as)) := by
  intro p s Δ τ ht hg hr hp1 hp2
  change ∃ s', viFunctionCall Γ (visit Γ n) (.node .NT_FUNC_CALL d lo hi (.node tf (.text f) lf hf kf :: as)) s = _ ∧ _
  cases ht with
  | call hfn hft hfd hats hlen hcons hsolve =>
    rename_i f' ft decl ats cons σ
    simp only [Ast.data, TokData.text.injEq] at hfn
    subst hfn
    unfold viFunctionCall
    refine bind_ex (kidM_fwd kid0 s) (bind_ex (textOf_fwd s) ?_)
    simp only [hft]
    have hnmc : emptySetInvalidParents.contains Tok.NT_FUNC_CALL = false := by decide
    have hfs : (lookup Γ.funcs f).isSome = true := by rw [hfd]; rfl
    have hclean := hasTypes_clean (s := s) .NT_FUNC_CALL hnmc as ats hk hv hats hg hr hctx
    have hnmg : ∀ pr ∈ decl.zip ats, NoMangled f pr.2 := by
      intro pr hpr
      have : pr.2 ∈ ats := (List.of_mem_zip hpr).2
      exact cleanTy_noMangled (idsInL_mem hclean this) hfs
    obtain ⟨subs, hfold, hinv, hbound⟩ := args_complete Γ.traits f (decl.zip ats) [] [] [] cons σ (inv_nil f)
      (solve_nil _ _) hnmg hcons hsolve
    have hkids : ∀ i k, 1 ≤ i → (Ast.node Tok.NT_FUNC_CALL d lo hi (.node tf (.text f) lf hf kf :: as)).kid i = some k →
        CV Γ n .S k := by
      intro i k hi hki
      cases i with
      | zero => omega
      | succ j =>
        simp only [Ast.kid, Ast.kids, List.getElem?_cons_succ] at hki
        exact hk k (List.mem_of_getElem? hki)
    have hal : ats.length = as.length := hasTypes_length hats
    obtain ⟨s1, r1, m1⟩ := checkArgsGo_c (Δ := Δ) (fn := f) hkids hnmc as.length decl 1 [] subs s ats
      (by simpa [Ast.kids] using hats) hfold (by omega) (by simp [Ast.kids]; omega) (by omega) hg hr
    have rA : checkFuncArguments Γ (visit Γ n) (.node .NT_FUNC_CALL d lo hi (.node tf (.text f) lf hf kf :: as)) f s
        = (.ok subs, s1) := by
      unfold checkFuncArguments
      simp only [hfd]
      have hne : (decl.length != (Ast.node Tok.NT_FUNC_CALL d lo hi (.node tf (.text f) lf hf kf :: as)).kids.length - 1)
          = false := by
        simp only [Ast.kids, List.length_cons, Nat.add_sub_cancel, bne_eq_false_iff_eq]; omega
      simp only [hne, Bool.false_eq_true, if_false]
      simpa [Ast.kids] using r1
    refine bind_ex rA ?_
    cases ft with
    | logic => exact ⟨_, rfl, rfl⟩
    | ty t =>
      simp only []
      have hres := hctx.results f t decl hft hfd
      have hbt : Bound f subs t := by
        intro r hr'
        obtain ⟨dd, hdd, hrd⟩ := hres.2 r hr'
        obtain ⟨v, hv'⟩ := zip_mem_left hdd hlen.symm
        exact hbound (dd, v) hv' r hrd
      have heq := call_result (f := f) hinv t hbt
      refine ⟨_, rfl, ?_⟩
      show ExprTy.ty (if subs.isEmpty then mangle f t else substBase subs (mangle f t)) = _
      rw [heq]
  | _ => exfalso; simp_all

end CCVerif.Checker
