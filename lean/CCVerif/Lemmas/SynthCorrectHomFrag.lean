import CCVerif.Lemmas.SynthCorrectHom
import CCVerif.Lemmas.SynthCorrectFrag
/-!
C12, the SEMANTIC clause, identification: the bridge to the token-level schema of the C12 models and
the definition fragment as an instance of `Homomorphic`.

* `View.CompatibleHom` — reading commutes with ANY substitution of the mention tokens;
* `LikeWithLike`, `AcyclicSchema` — the two semantic conditions of an admissible table, on the model's
  data (the model takes the code's verdict `semOk` as an input);
* `quotientOf_view` — a result described by `StageExact` (Lemmas/SynthExact.lean: `Equate`, and the
  duplicate removal alone), viewed, is a `QuotientOf`;
* `fragHom : Homomorphic fragA`, `fragView_compatibleHom`.
-/
namespace CCVerif.SynthCorrect
open CCVerif CCVerif.Translation CCVerif.Dedup CCVerif.Merge CCVerif.Equate CCVerif.Synth
open CCVerif.SchemaGen (Analysis Lawful ContentOnly Homomorphic QuotientOf entryOf FullyCorrect fragA
  fragA_lawful findAliasL)
open CCVerif.Schema (Kind Def Info renDef resultInfo)

variable {D I : Type} {A : Analysis D I}

/-- reading commutes with every substitution of the mention tokens -/
def View.CompatibleHom (V : View D) (H : Homomorphic A) : Prop :=
  ∀ (φ : String → String) (d : List Tok), V.read (d.map (renTok φ)) = H.homD φ (V.read d)

/-- LIKE WITH LIKE: constituents with one image have the same entry (status, typification) once the
names are substituted — base set with base set, constant with constant, derived constituents of equal
typification up to the identification -/
def LikeWithLike (V : View D) (A : Analysis D I) (H : Homomorphic A) (l : Schema) (tr : Tr)
    (Q : String → String) : Prop :=
  ∀ c ∈ l, ∀ d ∈ l, image tr c.uid = image tr d.uid →
    H.homI Q (entryOf A (V.store l) c.uid) = H.homI Q (entryOf A (V.store l) d.uid)

/-- the definitions of `r` do not depend on themselves (the precheck "the value is not reachable from
the key" of the code; an input `semOk` of the model) -/
def AcyclicSchema (V : View D) (A : Analysis D I) (r : Schema) : Prop :=
  ∃ rk : Nat → Nat, ∀ c ∈ r, ∀ m ∈ A.mentions (V.read c.definition), ∀ c2 ∈ r, c2.alias = m →
    rk c2.uid < rk c.uid

theorem quotientOf_view (V : View D) (H : Homomorphic A) (hV : V.CompatibleHom H)
    {l r : Schema} {tr : Tr} {eqs : List Entry} {Q : String → String} (hQ : StageExact l r tr eqs Q)
    (hlike : LikeWithLike V A H l tr Q) (hac : AcyclicSchema V A r) :
    QuotientOf A H (image tr) Q (V.store l) (V.store r) where
  nodupU := by rw [uids_store]; exact hQ.nodupU
  nodupA := by rw [aliases_store]; exact hQ.nodupA
  img := by
    intro c' hc'
    obtain ⟨c, hc, rfl⟩ := List.mem_map.1 hc'
    obtain ⟨s, hs, hsu⟩ := List.mem_map.1 (hQ.img c.uid (List.mem_map.2 ⟨c, hc, rfl⟩))
    exact ⟨V.cst s, List.mem_map.2 ⟨s, hs, rfl⟩, hsu, (hQ.aliasOf c hc s hs hsu).symm⟩
  kept := by
    intro s' hs'
    obtain ⟨s, hs, rfl⟩ := List.mem_map.1 hs'
    obtain ⟨c, hc, _, hnk, himg⟩ := hQ.kept s hs
    obtain ⟨s2, hs2, hu2, hk2, hd2, _⟩ := hQ.content c hc hnk
    have : s2 = s := eq_of_mem_nodup (·.uid) r s2 s hQ.nodupU hs2 hs (by rw [hu2, himg])
    subst this
    refine ⟨V.cst c, List.mem_map.2 ⟨c, hc, rfl⟩, ?_⟩
    unfold View.cst
    simp only
    rw [hu2, hk2, hd2, hV, ← hQ.aliasOf c hc s2 hs2 hu2]
  like := by
    intro c' hc' d' hd' e
    obtain ⟨c, hc, rfl⟩ := List.mem_map.1 hc'
    obtain ⟨d, hd, rfl⟩ := List.mem_map.1 hd'
    exact hlike c hc d hd e
  acyclic := by
    obtain ⟨rk, hrk⟩ := hac
    refine ⟨rk, ?_⟩
    intro c' hc' m hm v' hv'
    obtain ⟨c, hc, rfl⟩ := List.mem_map.1 hc'
    obtain ⟨c2', hc2', rfl, rfl⟩ := SchemaGen.findAliasL_mem hv'
    obtain ⟨c2, hc2, rfl⟩ := List.mem_map.1 hc2'
    exact hrk c hc _ hm c2 hc2 rfl

/-! ## the fragment -/

open CCVerif.SchemaGen (fragType tyOf fragType_eq_some renInfo tyOf_map_renInfo resultInfo_map) in
/-- the definition fragment satisfies the hypothesis: a well-typed union stays well-typed when names
are identified, with the substituted typification -/
def fragHom : Homomorphic fragA where
  homD := renDef
  homI := renInfo
  mentions_hom := fun φ d => Schema.mentions_renDef φ d
  ok_hom := by
    intro φ i h
    show (i.ty.map φ).isSome = true
    have : i.ty.isSome = true := h
    cases hi : i.ty with
    | none => rw [hi] at this; cases this
    | some _ => rfl
  missing := by
    intro sk ctx c m hm hc
    show (resultInfo (fragType ctx c)).ty.isSome = false
    cases hf : fragType ctx c with
    | none => rfl
    | some t =>
      exfalso
      have hm' : m ∈ c.defn.mentions := hm
      rcases fragType_eq_some.1 hf with ⟨_, hd, _⟩ | ⟨_, n, ns, hd, hall⟩
      · rw [hd] at hm'; cases hm'
      · rw [hd] at hm'
        have := hall m hm'
        rw [hc] at this
        cases this
  analyse_hom := by
    intro φ sk sk' ctx ctx' c hok h
    show resultInfo (fragType ctx' _) = renInfo φ (resultInfo (fragType ctx c))
    have hok' : (resultInfo (fragType ctx c)).ty.isSome = true := hok
    cases hf : fragType ctx c with
    | none => rw [hf] at hok'; cases hok'
    | some t =>
      have : fragType ctx' { c with alias := φ c.alias, defn := renDef φ c.defn } = some (φ t) := by
        apply fragType_eq_some.2
        rcases fragType_eq_some.1 hf with ⟨hk, hd, ht⟩ | ⟨hk, n, ns, hd, hall⟩
        · left
          refine ⟨hk, ?_, by rw [ht]⟩
          show renDef φ c.defn = .empty
          rw [hd]; rfl
        · right
          refine ⟨hk, φ n, ns.map φ, ?_, ?_⟩
          · show renDef φ c.defn = _
            rw [hd]; rfl
          · intro m' hm'
            have hm'' : m' ∈ (n :: ns).map φ := hm'
            obtain ⟨m, hm, rfl⟩ := List.mem_map.1 hm''
            have hmm : m ∈ fragA.mentions c.defn := by
              show m ∈ c.defn.mentions
              rw [hd]; exact hm
            rw [h m hmm, tyOf_map_renInfo, hall m hm]
            rfl
      rw [this]
      exact resultInfo_map φ (some t)

theorem fragView_compatibleHom : fragView.CompatibleHom fragHom := fun φ d => fragRead_map φ d

end CCVerif.SynthCorrect
