import CCVerif.Model.Oss
/-!
Helper lemmas for C19: the index bookkeeping of the graph facet (`FindItemIndex`, `Item2ID`,
`AddItem`, `Erase` with index shifting, `LoadParent`), the grid, and the key sets.
-/
namespace CCVerif.Oss

/-! ## graph facet -/

/-- well-formedness of the index bookkeeping -/
structure Graph.Wf (g : Graph) : Prop where
  nodup : g.items.Nodup
  len : g.adj.length = g.items.length
  idx : ∀ l ∈ g.adj, ∀ j ∈ l, j < g.items.length

theorem Graph.findItemIndex_eq_some {g : Graph} {p : Pid} {i : Nat} (h : g.findItemIndex p = some i) :
    g.items[i]? = some p := by
  unfold Graph.findItemIndex at h
  split at h
  · rename_i hlt
    injection h with h; subst h
    rw [List.getElem?_eq_getElem hlt, List.getElem_idxOf hlt]
  · cases h

theorem Graph.findItemIndex_of_getElem? {g : Graph} (hn : g.items.Nodup) {p : Pid} {i : Nat}
    (h : g.items[i]? = some p) : g.findItemIndex p = some i := by
  obtain ⟨hi, rfl⟩ := List.getElem?_eq_some_iff.1 h
  unfold Graph.findItemIndex
  rw [List.Nodup.idxOf_getElem hn i hi, if_pos hi]

theorem Graph.findItemIndex_eq_none {g : Graph} {p : Pid} : g.findItemIndex p = none ↔ p ∉ g.items := by
  unfold Graph.findItemIndex
  rw [← List.idxOf_lt_length_iff]
  split <;> simp_all

theorem Graph.findItemIndex_isSome {g : Graph} {p : Pid} : (∃ i, g.findItemIndex p = some i) ↔ p ∈ g.items := by
  constructor
  · rintro ⟨i, h⟩
    exact List.mem_of_getElem? (Graph.findItemIndex_eq_some h)
  · intro h
    cases hf : g.findItemIndex p with
    | some i => exact ⟨i, rfl⟩
    | none => exact absurd h (Graph.findItemIndex_eq_none.1 hf)

theorem Graph.row_mem_adj {g : Graph} {i : Nat} {j : Nat} (h : j ∈ g.row i) : ∃ l ∈ g.adj, j ∈ l := by
  unfold Graph.row at h
  rw [List.getD_eq_getElem?_getD] at h
  cases hl : g.adj[i]? with
  | none => rw [hl] at h; simp at h
  | some l => rw [hl] at h; exact ⟨l, List.mem_of_getElem? hl, h⟩

theorem Graph.Wf.row_lt {g : Graph} (w : g.Wf) {i j : Nat} (h : j ∈ g.row i) : j < g.items.length := by
  obtain ⟨l, hl, hj⟩ := Graph.row_mem_adj h
  exact w.idx l hl j hj

/-- `Index2PIDs` when every index is in range: nothing is dropped -/
theorem Graph.index2PIDs_length {g : Graph} {l : List Nat} (h : ∀ j ∈ l, j < g.items.length) :
    (g.index2PIDs l).length = l.length := by
  induction l with
  | nil => rfl
  | cons a l ih =>
    have ha : a < g.items.length := h a (List.mem_cons_self)
    simp only [Graph.index2PIDs, List.filterMap_cons, List.getElem?_eq_getElem ha, List.length_cons]
    have := ih (fun j hj => h j (List.mem_cons_of_mem _ hj))
    simp only [Graph.index2PIDs] at this
    rw [this]

theorem Graph.mem_index2PIDs {g : Graph} {l : List Nat} {q : Pid} :
    q ∈ g.index2PIDs l ↔ ∃ j ∈ l, g.items[j]? = some q := by
  simp [Graph.index2PIDs, List.mem_filterMap]

/-- two graphs that agree on the items at the listed indices translate them alike -/
theorem Graph.index2PIDs_congr {g g' : Graph} {l : List Nat} (h : ∀ j ∈ l, g'.items[j]? = g.items[j]?) :
    g'.index2PIDs l = g.index2PIDs l := by
  induction l with
  | nil => rfl
  | cons a l ih =>
    simp only [Graph.index2PIDs, List.filterMap_cons, h a List.mem_cons_self]
    have := ih (fun j hj => h j (List.mem_cons_of_mem _ hj))
    simp only [Graph.index2PIDs] at this
    rw [this]

/-! ### `Item2ID` -/

theorem Graph.item2ID_spec (g : Graph) (w : g.Wf) (p : Pid) :
    (g.item2ID p).1.Wf ∧
    (g.item2ID p).1.items[(g.item2ID p).2]? = some p ∧
    (∀ j, j < g.items.length → (g.item2ID p).1.items[j]? = g.items[j]?) ∧
    (∀ i, i < g.adj.length → (g.item2ID p).1.adj[i]? = g.adj[i]?) ∧
    (∀ q, q ∈ (g.item2ID p).1.items ↔ q ∈ g.items ∨ q = p) ∧
    (∀ i, g.adj.length ≤ i → (g.item2ID p).1.row i = []) ∧
    g.items.length ≤ (g.item2ID p).1.items.length := by
  unfold Graph.item2ID
  cases hf : g.findItemIndex p with
  | some i =>
    refine ⟨w, Graph.findItemIndex_eq_some hf, fun _ _ => rfl, fun _ _ => rfl, ?_, ?_, Nat.le_refl _⟩
    · intro q
      constructor
      · exact Or.inl
      · rintro (h | rfl)
        · exact h
        · exact List.mem_of_getElem? (Graph.findItemIndex_eq_some hf)
    · intro i hi
      simp [Graph.row, List.getD_eq_getElem?_getD, List.getElem?_eq_none hi]
  | none =>
    have hp : p ∉ g.items := Graph.findItemIndex_eq_none.1 hf
    refine ⟨⟨?_, ?_, ?_⟩, ?_, ?_, ?_, ?_, ?_, ?_⟩
    · simp only [List.nodup_append, List.nodup_cons, List.not_mem_nil, not_false_eq_true, List.nodup_nil,
        and_self, List.mem_cons, or_false, forall_eq, true_and]
      exact ⟨w.nodup, fun a ha hap => hp (hap ▸ ha)⟩
    · simp [w.len]
    · intro l hl j hj
      simp only [List.mem_append, List.mem_cons, List.not_mem_nil, or_false] at hl
      rcases hl with hl | rfl
      · have := w.idx l hl j hj
        simp only [List.length_append, List.length_cons, List.length_nil]; omega
      · cases hj
    · simp
    · intro j hj; simp [List.getElem?_append_left hj]
    · intro i hi; simp [List.getElem?_append_left hi]
    · intro q; simp
    · intro i hi
      simp only [Graph.row, List.getD_eq_getElem?_getD]
      rw [List.getElem?_append_right hi]
      cases h : i - g.adj.length with
      | zero => simp
      | succ n => simp
    · simp

/-- `ParentsOf` is the same before and after `Item2ID` -/
theorem Graph.parentsOf_item2ID (g : Graph) (w : g.Wf) (p q : Pid) :
    (g.item2ID p).1.parentsOf q = g.parentsOf q := by
  obtain ⟨w', hp, hitems, hadj, hmem, hrow, _⟩ := g.item2ID_spec w p
  unfold Graph.parentsOf
  cases hq : g.findItemIndex q with
  | some i =>
    have hi := Graph.findItemIndex_eq_some hq
    have hilt : i < g.items.length := (List.getElem?_eq_some_iff.1 hi).1
    have : (g.item2ID p).1.findItemIndex q = some i :=
      Graph.findItemIndex_of_getElem? w'.nodup (by rw [hitems i hilt]; exact hi)
    rw [this]
    have hrowEq : (g.item2ID p).1.row i = g.row i := by
      simp only [Graph.row, List.getD_eq_getElem?_getD]
      rw [hadj i (by rw [w.len]; exact hilt)]
    simp only [hrowEq]
    apply Graph.index2PIDs_congr
    intro j hj
    exact hitems j (w.row_lt hj)
  | none =>
    have hq' : q ∉ g.items := Graph.findItemIndex_eq_none.1 hq
    cases hq2 : (g.item2ID p).1.findItemIndex q with
    | none => rfl
    | some i =>
      -- q is the new item: its row is empty
      have hi := Graph.findItemIndex_eq_some hq2
      have hge : g.adj.length ≤ i := by
        rw [w.len]
        apply Nat.le_of_not_lt
        intro hlt
        have := hitems i hlt
        rw [hi] at this
        exact hq' (List.mem_of_getElem? this.symm)
      simp [hrow i hge, Graph.index2PIDs]

/-! ### setting one row -/

theorem Graph.setRow_spec (g : Graph) (w : g.Wf) (i : Nat) (c : Pid) (hc : g.items[i]? = some c)
    (l : List Nat) (hl : ∀ j ∈ l, j < g.items.length) :
    ({ g with adj := g.adj.set i l } : Graph).Wf ∧
    ∀ q, ({ g with adj := g.adj.set i l } : Graph).parentsOf q = if q = c then g.index2PIDs l else g.parentsOf q := by
  have hilt : i < g.items.length := (List.getElem?_eq_some_iff.1 hc).1
  refine ⟨⟨w.nodup, by simp [w.len], ?_⟩, ?_⟩
  · intro r hr j hj
    rcases List.mem_or_eq_of_mem_set hr with h | rfl
    · exact w.idx r h j hj
    · exact hl j hj
  · intro q
    unfold Graph.parentsOf
    have hfind : ({ g with adj := g.adj.set i l } : Graph).findItemIndex q = g.findItemIndex q := rfl
    rw [hfind]
    cases hq : g.findItemIndex q with
    | none =>
      have : q ≠ c := fun h => (Graph.findItemIndex_eq_none.1 hq) (h ▸ List.mem_of_getElem? hc)
      simp [this]
    | some k =>
      have hk := Graph.findItemIndex_eq_some hq
      by_cases hqc : q = c
      · subst hqc
        have hki : k = i := by
          have h1 := Graph.findItemIndex_of_getElem? w.nodup hc
          rw [hq] at h1; injection h1
        subst hki
        simp only [if_true]
        have : ({ g with adj := g.adj.set k l } : Graph).row k = l := by
          simp only [Graph.row, List.getD_eq_getElem?_getD]
          rw [List.getElem?_set_self (by rw [w.len]; exact hilt)]; rfl
        rw [this]; rfl
      · have hki : k ≠ i := by
          intro h; subst h
          rw [hc] at hk; injection hk with hk; exact hqc hk.symm
        simp only [if_neg hqc]
        have : ({ g with adj := g.adj.set i l } : Graph).row k = g.row k := by
          simp only [Graph.row, List.getD_eq_getElem?_getD]
          rw [List.getElem?_set_ne (Ne.symm hki)]
        rw [this]; rfl

/-! ### `AddItem` with two operands (`InsertOperation`) -/

theorem Graph.addItem_spec (g : Graph) (w : g.Wf) (item a b : Pid) :
    (g.addItem item [a, b]).Wf ∧
    (g.addItem item [a, b]).parentsOf item = [a, b] ∧
    (∀ q, q ≠ item → (g.addItem item [a, b]).parentsOf q = g.parentsOf q) ∧
    (∀ q, q ∈ (g.addItem item [a, b]).items ↔ q ∈ g.items ∨ q = a ∨ q = b ∨ q = item) := by
  obtain ⟨w1, ha1, hi1, _, hm1, _, hle1⟩ := g.item2ID_spec w a
  obtain ⟨w2, hb2, hi2, _, hm2, _, hle2⟩ := (g.item2ID a).1.item2ID_spec w1 b
  obtain ⟨w3, hc3, hi3, _, hm3, _, hle3⟩ := ((g.item2ID a).1.item2ID b).1.item2ID_spec w2 item
  have hia : (g.item2ID a).2 < (g.item2ID a).1.items.length := (List.getElem?_eq_some_iff.1 ha1).1
  have hib : ((g.item2ID a).1.item2ID b).2 < ((g.item2ID a).1.item2ID b).1.items.length :=
    (List.getElem?_eq_some_iff.1 hb2).1
  have ha3 : (((g.item2ID a).1.item2ID b).1.item2ID item).1.items[(g.item2ID a).2]? = some a := by
    rw [hi3 _ (by omega), hi2 _ hia]; exact ha1
  have hb3 : (((g.item2ID a).1.item2ID b).1.item2ID item).1.items[((g.item2ID a).1.item2ID b).2]? = some b := by
    rw [hi3 _ hib]; exact hb2
  have hla : (g.item2ID a).2 < (((g.item2ID a).1.item2ID b).1.item2ID item).1.items.length :=
    (List.getElem?_eq_some_iff.1 ha3).1
  have hlb : ((g.item2ID a).1.item2ID b).2 < (((g.item2ID a).1.item2ID b).1.item2ID item).1.items.length :=
    (List.getElem?_eq_some_iff.1 hb3).1
  have hset := Graph.setRow_spec _ w3 _ item hc3 [(g.item2ID a).2, ((g.item2ID a).1.item2ID b).2]
    (by intro j hj; simp only [List.mem_cons, List.not_mem_nil, or_false] at hj; rcases hj with rfl | rfl <;> assumption)
  have hunf : g.addItem item [a, b] =
      { (((g.item2ID a).1.item2ID b).1.item2ID item).1 with
        adj := (((g.item2ID a).1.item2ID b).1.item2ID item).1.adj.set (((g.item2ID a).1.item2ID b).1.item2ID item).2
          [(g.item2ID a).2, ((g.item2ID a).1.item2ID b).2] } := by
    simp [Graph.addItem, Graph.items2ID]
  rw [hunf]
  refine ⟨hset.1, ?_, ?_, ?_⟩
  · rw [hset.2 item, if_pos rfl]
    simp [Graph.index2PIDs, ha3, hb3]
  · intro q hq
    rw [hset.2 q, if_neg hq, Graph.parentsOf_item2ID _ w2, Graph.parentsOf_item2ID _ w1, Graph.parentsOf_item2ID _ w]
  · intro q
    show q ∈ (((g.item2ID a).1.item2ID b).1.item2ID item).1.items ↔ _
    rw [hm3, hm2, hm1]
    constructor
    · rintro (((h | h) | h) | h)
      · exact Or.inl h
      · exact Or.inr (Or.inl h)
      · exact Or.inr (Or.inr (Or.inl h))
      · exact Or.inr (Or.inr (Or.inr h))
    · rintro (h | h | h | h)
      · exact Or.inl (Or.inl (Or.inl h))
      · exact Or.inl (Or.inl (Or.inr h))
      · exact Or.inl (Or.inr h)
      · exact Or.inr h

/-! ### `Erase` of a leaf: index shifting -/

theorem filterMap_congr' {α β} {f g : α → Option β} {l : List α} (h : ∀ a ∈ l, f a = g a) :
    l.filterMap f = l.filterMap g := by
  induction l with
  | nil => rfl
  | cons a l ih =>
    simp only [List.filterMap_cons, h a List.mem_cons_self]
    rw [ih (fun b hb => h b (List.mem_cons_of_mem _ hb))]

theorem getElem?_eraseIdx_shift {α} (l : List α) (k j : Nat) (hj : j ≠ k) :
    (l.eraseIdx k)[shiftIdx k j]? = l[j]? := by
  unfold shiftIdx
  rw [List.getElem?_eraseIdx]
  split
  · rename_i h
    have : ¬ (j - 1 < k) := by omega
    rw [if_neg this]
    congr 1; omega
  · rename_i h
    have : j < k := by omega
    rw [if_pos this]

theorem Graph.erase_spec (g : Graph) (w : g.Wf) (p : Pid) (k : Nat) (hk : g.findItemIndex p = some k)
    (hleaf : ∀ l ∈ g.adj, k ∉ l) :
    (g.erase p).Wf ∧ (∀ q, q ≠ p → (g.erase p).parentsOf q = g.parentsOf q) ∧
    (g.erase p).parentsOf p = [] ∧ (∀ q, q ∈ (g.erase p).items ↔ q ∈ g.items ∧ q ≠ p) := by
  have hkp := Graph.findItemIndex_eq_some hk
  have hklt : k < g.items.length := (List.getElem?_eq_some_iff.1 hkp).1
  have hunf : g.erase p = { items := g.items.eraseIdx k, adj := (g.adj.eraseIdx k).map (·.map (shiftIdx k)) } := by
    simp [Graph.erase, hk]
  have hmem : ∀ q, q ∈ g.items.eraseIdx k ↔ q ∈ g.items ∧ q ≠ p := by
    intro q
    rw [List.mem_eraseIdx_iff_getElem?]
    constructor
    · rintro ⟨i, hik, hi⟩
      refine ⟨List.mem_of_getElem? hi, ?_⟩
      rintro rfl
      have h1 := Graph.findItemIndex_of_getElem? w.nodup hi
      rw [hk] at h1; injection h1 with h1; exact hik h1.symm
    · rintro ⟨hq, hqp⟩
      obtain ⟨i, hi⟩ := List.getElem?_of_mem hq
      refine ⟨i, ?_, hi⟩
      rintro rfl
      rw [hkp] at hi; injection hi with hi; exact hqp hi.symm
  have wf' : ({ items := g.items.eraseIdx k, adj := (g.adj.eraseIdx k).map (·.map (shiftIdx k)) } : Graph).Wf := by
    refine ⟨List.Nodup.eraseIdx k w.nodup, ?_, ?_⟩
    · simp only [List.length_map]
      rw [List.length_eraseIdx_of_lt (by rw [w.len]; exact hklt), List.length_eraseIdx_of_lt hklt, w.len]
    · intro l' hl' j' hj'
      simp only [List.mem_map] at hl'
      obtain ⟨l, hl, rfl⟩ := hl'
      have hl0 : l ∈ g.adj := (List.eraseIdx_sublist g.adj k).subset hl
      simp only [List.mem_map] at hj'
      obtain ⟨j, hj, rfl⟩ := hj'
      have hjn := w.idx l hl0 j hj
      have hjk : j ≠ k := fun h => hleaf l hl0 (h ▸ hj)
      show shiftIdx k j < (g.items.eraseIdx k).length
      rw [List.length_eraseIdx_of_lt hklt]
      unfold shiftIdx; split <;> omega
  rw [hunf]
  refine ⟨wf', ?_, ?_, hmem⟩
  · intro q hqp
    unfold Graph.parentsOf
    cases hq : g.findItemIndex q with
    | none =>
      have : q ∉ g.items.eraseIdx k := fun h => (Graph.findItemIndex_eq_none.1 hq) ((hmem q).1 h).1
      have h2 : ({ items := g.items.eraseIdx k, adj := (g.adj.eraseIdx k).map (·.map (shiftIdx k)) } : Graph).findItemIndex q = none :=
        Graph.findItemIndex_eq_none.2 this
      rw [h2]
    | some i =>
      have hi := Graph.findItemIndex_eq_some hq
      have hik : i ≠ k := by
        rintro rfl
        rw [hkp] at hi; injection hi with hi; exact hqp hi.symm
      have h2 : ({ items := g.items.eraseIdx k, adj := (g.adj.eraseIdx k).map (·.map (shiftIdx k)) } : Graph).findItemIndex q
          = some (shiftIdx k i) :=
        Graph.findItemIndex_of_getElem? wf'.nodup (by
          show (g.items.eraseIdx k)[shiftIdx k i]? = some q
          rw [getElem?_eraseIdx_shift _ _ _ hik]; exact hi)
      rw [h2]
      have hrow : ({ items := g.items.eraseIdx k, adj := (g.adj.eraseIdx k).map (·.map (shiftIdx k)) } : Graph).row (shiftIdx k i)
          = (g.row i).map (shiftIdx k) := by
        simp only [Graph.row, List.getD_eq_getElem?_getD, List.getElem?_map]
        rw [getElem?_eraseIdx_shift _ _ _ hik]
        cases g.adj[i]? <;> simp
      simp only [hrow, Graph.index2PIDs, List.filterMap_map]
      apply filterMap_congr'
      intro j hj
      have hjk : j ≠ k := by
        obtain ⟨l, hl, hjl⟩ := Graph.row_mem_adj hj
        exact fun h => hleaf l hl (h ▸ hjl)
      show (g.items.eraseIdx k)[shiftIdx k j]? = g.items[j]?
      exact getElem?_eraseIdx_shift _ _ _ hjk
  · have : p ∉ g.items.eraseIdx k := fun h => ((hmem p).1 h).2 rfl
    have h2 : ({ items := g.items.eraseIdx k, adj := (g.adj.eraseIdx k).map (·.map (shiftIdx k)) } : Graph).findItemIndex p = none :=
      Graph.findItemIndex_eq_none.2 this
    simp [Graph.parentsOf, h2]

/-! ### `ChildrenOf` is the converse of `ParentsOf` -/

theorem Graph.row_nonempty_lt {g : Graph} {i j : Nat} (h : j ∈ g.row i) : i < g.adj.length := by
  unfold Graph.row at h
  rw [List.getD_eq_getElem?_getD] at h
  apply Nat.lt_of_not_le
  intro hle
  rw [List.getElem?_eq_none hle] at h
  simp at h

theorem Graph.mem_parentsOf {g : Graph} (w : g.Wf) {c p : Pid} :
    p ∈ g.parentsOf c ↔ ∃ i k, g.items[i]? = some c ∧ g.items[k]? = some p ∧ k ∈ g.row i := by
  unfold Graph.parentsOf
  constructor
  · intro h
    cases hc : g.findItemIndex c with
    | none => rw [hc] at h; simp at h
    | some i =>
      rw [hc] at h
      obtain ⟨k, hk, hkp⟩ := Graph.mem_index2PIDs.1 h
      exact ⟨i, k, Graph.findItemIndex_eq_some hc, hkp, hk⟩
  · rintro ⟨i, k, hi, hk, hki⟩
    rw [Graph.findItemIndex_of_getElem? w.nodup hi]
    exact Graph.mem_index2PIDs.2 ⟨k, hki, hk⟩

theorem Graph.mem_childrenOf {g : Graph} (w : g.Wf) {c p : Pid} :
    c ∈ g.childrenOf p ↔ c ≠ p ∧ p ∈ g.parentsOf c := by
  rw [Graph.mem_parentsOf w]
  unfold Graph.childrenOf
  constructor
  · intro h
    cases hp : g.findItemIndex p with
    | none => rw [hp] at h; simp at h
    | some k =>
      rw [hp] at h
      have hkp := Graph.findItemIndex_eq_some hp
      obtain ⟨i, hi, hic⟩ := Graph.mem_index2PIDs.1 h
      simp only [List.mem_flatMap, List.mem_range] at hi
      obtain ⟨i', _, hi'⟩ := hi
      split at hi'
      · rename_i hne
        simp only [List.mem_map, List.mem_filter, beq_iff_eq] at hi'
        obtain ⟨x, ⟨hx, rfl⟩, rfl⟩ := hi'
        refine ⟨?_, i', x, hic, hkp, hx⟩
        rintro rfl
        have := Graph.findItemIndex_of_getElem? w.nodup hic
        rw [hp] at this; injection this with this
        simp [this] at hne
      · cases hi'
  · rintro ⟨hcp, i, k, hi, hk, hki⟩
    rw [Graph.findItemIndex_of_getElem? w.nodup hk]
    apply Graph.mem_index2PIDs.2
    refine ⟨i, ?_, hi⟩
    simp only [List.mem_flatMap, List.mem_range]
    refine ⟨i, Graph.row_nonempty_lt hki, ?_⟩
    have hik : i ≠ k := by
      rintro rfl
      rw [hi] at hk; injection hk with hk; exact hcp hk
    have : (i != k) = true := by simp [hik]
    rw [if_pos this]
    simp only [List.mem_map, List.mem_filter, beq_iff_eq]
    exact ⟨k, ⟨hki, rfl⟩, trivial⟩

/-! ### `EdgeList`: the connections saved for a child are its parents, in order -/

theorem flatMap_range_single {β} (f : Nat → List β) (k : Nat) :
    ∀ n, k < n → (∀ i, i < n → i ≠ k → f i = []) → (List.range n).flatMap f = f k
  | 0, h, _ => absurd h (Nat.not_lt_zero _)
  | n + 1, h, hz => by
    rw [List.range_succ, List.flatMap_append]
    simp only [List.flatMap_cons, List.flatMap_nil, List.append_nil]
    by_cases hk : k = n
    · subst hk
      have : (List.range k).flatMap f = [] := by
        rw [List.flatMap_eq_nil_iff]
        intro i hi
        have hi' := List.mem_range.1 hi
        exact hz i (by omega) (by omega)
      rw [this, List.nil_append]
    · rw [flatMap_range_single f k n (by omega) (fun i hi hik => hz i (by omega) hik), hz n (by omega) (Ne.symm hk),
        List.append_nil]

theorem flatMap_range_nil {β} (f : Nat → List β) (n : Nat) (hz : ∀ i, i < n → f i = []) :
    (List.range n).flatMap f = [] := by
  rw [List.flatMap_eq_nil_iff]
  intro i hi
  exact hz i (List.mem_range.1 hi)

/-- the connections contributed by row `i` -/
def Graph.rowEdges (g : Graph) (i : Nat) : List (Pid × Pid) :=
  (g.row i).filterMap fun j =>
    match g.items[i]?, g.items[j]? with
    | some c, some p => some (c, p)
    | _, _ => none

theorem Graph.edgeList_eq (g : Graph) : g.edgeList = (List.range g.adj.length).flatMap g.rowEdges := rfl

theorem Graph.rowEdges_fst {g : Graph} {i : Nat} {e : Pid × Pid} (h : e ∈ g.rowEdges i) : g.items[i]? = some e.1 := by
  simp only [Graph.rowEdges, List.mem_filterMap] at h
  obtain ⟨j, _, hj⟩ := h
  split at hj
  · rename_i c p hc hp
    injection hj with hj; subst hj; exact hc
  · cases hj

theorem Graph.rowEdges_snd (g : Graph) (i : Nat) (q : Pid) (hi : g.items[i]? = some q) :
    (g.rowEdges i).map (·.2) = g.index2PIDs (g.row i) := by
  simp only [Graph.rowEdges, Graph.index2PIDs, List.map_filterMap, hi]
  apply filterMap_congr'
  intro j _
  cases g.items[j]? <;> rfl

theorem Graph.edgeList_fibre (g : Graph) (w : g.Wf) (q : Pid) :
    (g.edgeList.filter (·.1 == q)).map (·.2) = g.parentsOf q := by
  rw [Graph.edgeList_eq, List.filter_flatMap]
  unfold Graph.parentsOf
  cases hq : g.findItemIndex q with
  | none =>
    have hq' : q ∉ g.items := Graph.findItemIndex_eq_none.1 hq
    rw [flatMap_range_nil]
    · rfl
    · intro i _
      rw [List.filter_eq_nil_iff]
      intro e he
      have := Graph.rowEdges_fst he
      simp only [beq_iff_eq]
      rintro rfl
      exact hq' (List.mem_of_getElem? this)
  | some k =>
    have hk := Graph.findItemIndex_eq_some hq
    have hklt : k < g.adj.length := by rw [w.len]; exact (List.getElem?_eq_some_iff.1 hk).1
    rw [flatMap_range_single _ k _ hklt]
    · have : (g.rowEdges k).filter (·.1 == q) = g.rowEdges k := by
        rw [List.filter_eq_self]
        intro e he
        have := Graph.rowEdges_fst he
        rw [hk] at this; injection this with this
        simp [this]
      rw [this, Graph.rowEdges_snd g k q hk]
    · intro i _ hik
      rw [List.filter_eq_nil_iff]
      intro e he
      have := Graph.rowEdges_fst he
      simp only [beq_iff_eq]
      rintro rfl
      have h2 := Graph.findItemIndex_of_getElem? w.nodup this
      rw [hq] at h2; injection h2 with h2; exact hik h2.symm

theorem Graph.mem_edgeList {g : Graph} (w : g.Wf) {c p : Pid} : (c, p) ∈ g.edgeList ↔ p ∈ g.parentsOf c := by
  rw [← Graph.edgeList_fibre g w c]
  simp only [List.mem_map, List.mem_filter, beq_iff_eq]
  constructor
  · intro h; exact ⟨(c, p), ⟨h, rfl⟩, rfl⟩
  · rintro ⟨⟨c', p'⟩, ⟨h, rfl⟩, rfl⟩; exact h

/-- a list of pairs whose fibres have no repeated second component has no repeated pair -/
theorem nodup_of_fibres {E : List (Pid × Pid)} (h : ∀ c, ((E.filter (·.1 == c)).map (·.2)).Nodup) : E.Nodup := by
  induction E with
  | nil => exact List.nodup_nil
  | cons e E ih =>
    rw [List.nodup_cons]
    constructor
    · intro he
      have := h e.1
      simp only [List.filter_cons, beq_self_eq_true, if_true, List.map_cons, List.nodup_cons] at this
      apply this.1
      exact List.mem_map.2 ⟨e, List.mem_filter.2 ⟨he, by simp⟩, rfl⟩
    · apply ih
      intro c
      have := h c
      simp only [List.filter_cons] at this
      split at this
      · exact (List.nodup_cons.1 this).2
      · exact this

/-! ### `LoadParent` -/

def Graph.loadParents (g : Graph) (E : List (Pid × Pid)) : Graph := E.foldl (fun g e => (g.loadParent e.1 e.2).1) g

theorem Graph.loadParent_spec (g : Graph) (w : g.Wf) (c p : Pid) (hcp : c ≠ p)
    (h1 : p ∉ g.parentsOf c) (h2 : c ∉ g.parentsOf p) :
    (g.loadParent c p).1.Wf ∧
    (∀ q, (g.loadParent c p).1.parentsOf q = if q = c then g.parentsOf c ++ [p] else g.parentsOf q) ∧
    (∀ q, q ∈ (g.loadParent c p).1.items ↔ q ∈ g.items ∨ q = c ∨ q = p) := by
  obtain ⟨w1, hc1, hi1, _, hm1, _, hle1⟩ := g.item2ID_spec w c
  obtain ⟨w2, hp2, hi2, _, hm2, _, hle2⟩ := (g.item2ID c).1.item2ID_spec w1 p
  have hic : (g.item2ID c).2 < (g.item2ID c).1.items.length := (List.getElem?_eq_some_iff.1 hc1).1
  have hc2 : ((g.item2ID c).1.item2ID p).1.items[(g.item2ID c).2]? = some c := by rw [hi2 _ hic]; exact hc1
  have hpar : ∀ q, ((g.item2ID c).1.item2ID p).1.parentsOf q = g.parentsOf q := by
    intro q; rw [Graph.parentsOf_item2ID _ w1, Graph.parentsOf_item2ID _ w]
  have hn1 : (((g.item2ID c).1.item2ID p).1.row (g.item2ID c).2).contains ((g.item2ID c).1.item2ID p).2 = false := by
    rw [Bool.eq_false_iff]
    intro hcon
    apply h1
    rw [← hpar c]
    exact (Graph.mem_parentsOf w2).2 ⟨_, _, hc2, hp2, by simpa using hcon⟩
  have hn2 : (((g.item2ID c).1.item2ID p).1.row ((g.item2ID c).1.item2ID p).2).contains (g.item2ID c).2 = false := by
    rw [Bool.eq_false_iff]
    intro hcon
    apply h2
    rw [← hpar p]
    exact (Graph.mem_parentsOf w2).2 ⟨_, _, hp2, hc2, by simpa using hcon⟩
  have hunf : (g.loadParent c p).1 =
      { ((g.item2ID c).1.item2ID p).1 with
        adj := ((g.item2ID c).1.item2ID p).1.adj.set (g.item2ID c).2
          (((g.item2ID c).1.item2ID p).1.row (g.item2ID c).2 ++ [((g.item2ID c).1.item2ID p).2]) } := by
    have hb : (c == p) = false := by simpa using hcp
    simp only [Graph.loadParent, hb, Bool.false_eq_true, if_false, hn1, hn2, Bool.or_self]
  have hlp : ((g.item2ID c).1.item2ID p).2 < ((g.item2ID c).1.item2ID p).1.items.length :=
    (List.getElem?_eq_some_iff.1 hp2).1
  have hset := Graph.setRow_spec _ w2 _ c hc2
    (((g.item2ID c).1.item2ID p).1.row (g.item2ID c).2 ++ [((g.item2ID c).1.item2ID p).2])
    (by
      intro j hj
      rcases List.mem_append.1 hj with hj | hj
      · exact w2.row_lt hj
      · simp only [List.mem_cons, List.not_mem_nil, or_false] at hj; rw [hj]; exact hlp)
  rw [hunf]
  refine ⟨hset.1, ?_, ?_⟩
  · intro q
    rw [hset.2 q]
    by_cases hq : q = c
    · subst hq
      simp only [if_true]
      rw [← hpar q]
      have hf := Graph.findItemIndex_of_getElem? w2.nodup hc2
      simp only [Graph.parentsOf, hf, Graph.index2PIDs, List.filterMap_append, List.filterMap_cons, hp2,
        List.filterMap_nil]
    · simp only [if_neg hq]; exact hpar q
  · intro q
    show q ∈ ((g.item2ID c).1.item2ID p).1.items ↔ _
    rw [hm2, hm1]
    constructor
    · rintro ((h | h) | h)
      · exact Or.inl h
      · exact Or.inr (Or.inl h)
      · exact Or.inr (Or.inr h)
    · rintro (h | h | h)
      · exact Or.inl (Or.inl h)
      · exact Or.inl (Or.inr h)
      · exact Or.inr h

theorem Graph.loadParents_spec : ∀ (E D : List (Pid × Pid)) (g : Graph), g.Wf →
    (∀ q, g.parentsOf q = (D.filter (·.1 == q)).map (·.2)) →
    (D ++ E).Nodup → (∀ e ∈ D ++ E, e.1 ≠ e.2) → (∀ e ∈ D ++ E, (e.2, e.1) ∉ D ++ E) →
    (g.loadParents E).Wf ∧
    (∀ q, (g.loadParents E).parentsOf q = ((D ++ E).filter (·.1 == q)).map (·.2)) ∧
    (∀ q, q ∈ (g.loadParents E).items ↔ q ∈ g.items ∨ ∃ e ∈ E, q = e.1 ∨ q = e.2)
  | [], D, g, w, hD, _, _, _ => by
    simp only [Graph.loadParents, List.foldl_nil, List.append_nil]
    exact ⟨w, hD, fun q => by simp⟩
  | e :: E, D, g, w, hD, hnd, hne, hrev => by
    have heD : e ∉ D := by
      intro h
      have := (List.nodup_append.1 hnd).2.2 e h e (List.mem_cons_self) 
      exact this rfl
    have hcp : e.1 ≠ e.2 := hne e (List.mem_append_right _ List.mem_cons_self)
    have h1 : e.2 ∉ g.parentsOf e.1 := by
      rw [hD]
      intro h
      simp only [List.mem_map, List.mem_filter, beq_iff_eq] at h
      obtain ⟨x, ⟨hx, hx1⟩, hx2⟩ := h
      apply heD
      have : x = e := Prod.ext hx1 hx2
      exact this ▸ hx
    have h2 : e.1 ∉ g.parentsOf e.2 := by
      rw [hD]
      intro h
      simp only [List.mem_map, List.mem_filter, beq_iff_eq] at h
      obtain ⟨x, ⟨hx, hx1⟩, hx2⟩ := h
      apply hrev e (List.mem_append_right _ List.mem_cons_self)
      have : x = (e.2, e.1) := Prod.ext hx1 hx2
      exact List.mem_append_left _ (this ▸ hx)
    obtain ⟨w', hpar', hmem'⟩ := Graph.loadParent_spec g w e.1 e.2 hcp h1 h2
    have happ : (D ++ [e]) ++ E = D ++ e :: E := by simp
    have hD' : ∀ q, (g.loadParent e.1 e.2).1.parentsOf q = ((D ++ [e]).filter (·.1 == q)).map (·.2) := by
      intro q
      rw [hpar' q, List.filter_append, List.map_append]
      by_cases hq : q = e.1
      · subst hq
        simp [hD]
      · have : (e.1 == q) = false := by simpa using (Ne.symm hq)
        simp [hq, this, hD]
    obtain ⟨w'', hpar'', hmem''⟩ := Graph.loadParents_spec E (D ++ [e]) _ w' hD'
      (by rw [happ]; exact hnd) (by rw [happ]; exact hne) (by rw [happ]; exact hrev)
    have hfold : g.loadParents (e :: E) = (g.loadParent e.1 e.2).1.loadParents E := rfl
    rw [hfold]
    refine ⟨w'', ?_, ?_⟩
    · intro q; rw [hpar'' q, happ]
    · intro q
      rw [hmem'' q, hmem' q]
      constructor
      · rintro ((h | h | h) | ⟨x, hx, h⟩)
        · exact Or.inl h
        · exact Or.inr ⟨e, List.mem_cons_self, Or.inl h⟩
        · exact Or.inr ⟨e, List.mem_cons_self, Or.inr h⟩
        · exact Or.inr ⟨x, List.mem_cons_of_mem _ hx, h⟩
      · rintro (h | ⟨x, hx, h⟩)
        · exact Or.inl (Or.inl h)
        · rcases List.mem_cons.1 hx with rfl | hx
          · rcases h with h | h
            · exact Or.inl (Or.inr (Or.inl h))
            · exact Or.inl (Or.inr (Or.inr h))
          · exact Or.inr ⟨x, hx, h⟩

/-! ## grid facet -/

structure Grid.Wf (g : Grid) : Prop where
  keys : (g.map (·.1)).Nodup
  vals : (g.map (·.2)).Nodup

theorem Grid.contains_iff {g : Grid} {pos : Pos} : g.contains pos = true ↔ pos ∈ g.map (·.1) := by
  simp only [Grid.contains, List.any_eq_true, beq_iff_eq, List.mem_map]

theorem Grid.cell_isSome_iff {g : Grid} {pos : Pos} : (g.cell pos).isSome = true ↔ pos ∈ g.map (·.1) := by
  rw [← Grid.contains_iff]
  simp [Grid.cell, Grid.contains, List.any_eq_true]

theorem closestFreeGo_free {g : Grid} : ∀ (f : Nat) (l r pos : Pos), closestFreeGo g f l r = some pos → g.contains pos = false
  | 0, _, _, _, h => by simp [closestFreeGo] at h
  | f + 1, l, r, pos, h => by
    unfold closestFreeGo at h
    split at h
    · rename_i hl; injection h with h; subst h; simpa using hl
    · split at h
      · rename_i hr; injection h with h; subst h; simpa using hr
      · exact closestFreeGo_free f _ _ pos h

theorem Grid.closestFreePos_free {g : Grid} {start pos : Pos} (h : g.closestFreePos start = some pos) :
    pos ∉ g.map (·.1) := by
  intro hm
  have := closestFreeGo_free _ _ _ _ h
  rw [Grid.contains_iff.2 hm] at this
  cases this

theorem Grid.posOf_eq_none {g : Grid} {p : Pid} (h : p ∉ g.map (·.2)) : g.posOf p = none := by
  simp only [Grid.posOf, Option.map_eq_none_iff, List.find?_eq_none, beq_iff_eq]
  intro x hx hxp
  exact h (List.mem_map.2 ⟨x, hx, hxp⟩)

theorem Grid.erasePid_of_not_mem {g : Grid} {p : Pid} (h : p ∉ g.map (·.2)) : g.erasePid p = g := by
  simp [Grid.erasePid, Grid.posOf_eq_none h]

theorem Grid.filter_pos_of_not_mem {g : Grid} {pos : Pos} (h : pos ∉ g.map (·.1)) : g.filter (·.1 != pos) = g := by
  rw [List.filter_eq_self]
  intro x hx
  simp only [bne_iff_ne, ne_eq]
  rintro rfl
  exact h (List.mem_map.2 ⟨x, hx, rfl⟩)

theorem Grid.setPosFor_fresh {g : Grid} {p : Pid} {pos : Pos} (hp : p ∉ g.map (·.2)) (hpos : pos ∉ g.map (·.1)) :
    g.setPosFor p pos = (pos, p) :: g := by
  simp [Grid.setPosFor, Grid.erasePid_of_not_mem hp, Grid.filter_pos_of_not_mem hpos]

theorem Grid.Wf.cons {g : Grid} (w : g.Wf) {p : Pid} {pos : Pos} (hp : p ∉ g.map (·.2)) (hpos : pos ∉ g.map (·.1)) :
    Grid.Wf ((pos, p) :: g) :=
  ⟨by simp only [List.map_cons, List.nodup_cons]; exact ⟨hpos, w.keys⟩,
   by simp only [List.map_cons, List.nodup_cons]; exact ⟨hp, w.vals⟩⟩

theorem injOn_of_nodup_map' {α β} {f : α → β} {l : List α} (h : (l.map f).Nodup) :
    ∀ x ∈ l, ∀ y ∈ l, f x = f y → x = y := by
  induction l with
  | nil => intro x hx; cases hx
  | cons a l ih =>
    simp only [List.map_cons, List.nodup_cons, List.mem_map, not_exists, not_and] at h
    intro x hx y hy hxy
    rcases List.mem_cons.1 hx with rfl | hx' <;> rcases List.mem_cons.1 hy with rfl | hy'
    · rfl
    · exact absurd hxy.symm (h.1 y hy')
    · exact absurd hxy (h.1 x hx')
    · exact ih h.2 x hx' y hy' hxy

/-- `ossGridFacet::Erase` removes exactly the cell of the pict -/
theorem Grid.erasePid_spec {g : Grid} (w : g.Wf) (p : Pid) :
    (g.erasePid p).Wf ∧ (∀ q, q ∈ (g.erasePid p).map (·.2) ↔ q ∈ g.map (·.2) ∧ q ≠ p) := by
  unfold Grid.erasePid
  cases hpos : g.posOf p with
  | none =>
    refine ⟨w, fun q => ⟨fun h => ⟨h, ?_⟩, fun h => h.1⟩⟩
    rintro rfl
    simp only [Grid.posOf, Option.map_eq_none_iff, List.find?_eq_none, beq_iff_eq] at hpos
    obtain ⟨x, hx, hxq⟩ := List.mem_map.1 h
    exact hpos x hx hxq
  | some pos =>
    simp only [Grid.posOf, Option.map_eq_some_iff] at hpos
    obtain ⟨c, hc, rfl⟩ := hpos
    have hcm : c ∈ g := List.mem_of_find?_eq_some hc
    have hcp : c.2 = p := by simpa using List.find?_some hc
    refine ⟨⟨?_, ?_⟩, ?_⟩
    · exact List.Nodup.sublist (List.Sublist.map _ List.filter_sublist) w.keys
    · exact List.Nodup.sublist (List.Sublist.map _ List.filter_sublist) w.vals
    · intro q
      simp only [List.mem_map, List.mem_filter, bne_iff_ne, ne_eq]
      constructor
      · rintro ⟨x, ⟨hx, hx1⟩, rfl⟩
        refine ⟨⟨x, hx, rfl⟩, ?_⟩
        intro hxp
        have : x = c := injOn_of_nodup_map' w.vals x hx c hcm (by rw [hxp, hcp])
        exact hx1 (this ▸ rfl)
      · rintro ⟨⟨x, hx, rfl⟩, hxp⟩
        refine ⟨x, ⟨hx, ?_⟩, rfl⟩
        intro h1
        have : x = c := injOn_of_nodup_map' w.keys x hx c hcm h1
        exact hxp (this ▸ hcp)

/-! ## the dynamic tables -/

theorem find?_key_filter_ne {β} (l : List (Pid × β)) (p q : Pid) (h : q ≠ p) :
    (l.filter (·.1 != p)).find? (·.1 == q) = l.find? (·.1 == q) := by
  rw [List.find?_filter]
  congr 1
  funext a
  by_cases ha : a.1 = q
  · simp [ha, h]
  · simp [ha]

@[simp] theorem Dyn.op_setOp (d : Dyn) (p q : Pid) (o : OpHandle) :
    (d.setOp p o).op q = if q = p then o else d.op q := by
  unfold Dyn.setOp Dyn.op
  by_cases h : q = p
  · subst h; simp
  · have : (p == q) = false := by simpa using (Ne.symm h)
    simp only [List.find?_cons, this, if_neg h]
    rw [find?_key_filter_ne _ _ _ h]

@[simp] theorem Dyn.handle_setHandle (d : Dyn) (p q : Pid) (x : Handle) :
    (d.setHandle p x).handle q = if q = p then x else d.handle q := by
  unfold Dyn.setHandle Dyn.handle
  by_cases h : q = p
  · subst h; simp
  · have : (p == q) = false := by simpa using (Ne.symm h)
    simp only [List.find?_cons, this, if_neg h]
    rw [find?_key_filter_ne _ _ _ h]

@[simp] theorem Dyn.handle_setOp (d : Dyn) (p q : Pid) (o : OpHandle) : (d.setOp p o).handle q = d.handle q := rfl
@[simp] theorem Dyn.op_setHandle (d : Dyn) (p q : Pid) (x : Handle) : (d.setHandle p x).op q = d.op q := rfl
@[simp] theorem Dyn.source_setOp (d : Dyn) (p : Pid) (o : OpHandle) (n : SrcName) : (d.setOp p o).source n = d.source n := rfl
@[simp] theorem Dyn.source_setHandle (d : Dyn) (p : Pid) (x : Handle) (n : SrcName) : (d.setHandle p x).source n = d.source n := rfl
@[simp] theorem Dyn.op_stuck (d : Dyn) (w : String) (q : Pid) : (d.stuck w).op q = d.op q := rfl
@[simp] theorem Dyn.handle_stuck (d : Dyn) (w : String) (q : Pid) : (d.stuck w).handle q = d.handle q := rfl
@[simp] theorem Dyn.source_stuck (d : Dyn) (w : String) (n : SrcName) : (d.stuck w).source n = d.source n := rfl
@[simp] theorem Dyn.op_setSource (d : Dyn) (x : Source) (q : Pid) : (d.setSource x).op q = d.op q := rfl
@[simp] theorem Dyn.handle_setSource (d : Dyn) (x : Source) (q : Pid) : (d.setSource x).handle q = d.handle q := rfl
@[simp] theorem Dyn.dnd_setOp (d : Dyn) (p : Pid) (o : OpHandle) : (d.setOp p o).dnd = d.dnd := rfl
@[simp] theorem Dyn.dnd_setHandle (d : Dyn) (p : Pid) (x : Handle) : (d.setHandle p x).dnd = d.dnd := rfl
@[simp] theorem Dyn.dnd_setSource (d : Dyn) (x : Source) : (d.setSource x).dnd = d.dnd := rfl
@[simp] theorem Dyn.dnd_stuck (d : Dyn) (w : String) : (d.stuck w).dnd = d.dnd := rfl
@[simp] theorem Dyn.nextName_setOp (d : Dyn) (p : Pid) (o : OpHandle) : (d.setOp p o).nextName = d.nextName := rfl
@[simp] theorem Dyn.nextName_setHandle (d : Dyn) (p : Pid) (x : Handle) : (d.setHandle p x).nextName = d.nextName := rfl
@[simp] theorem Dyn.nextName_setSource (d : Dyn) (x : Source) : (d.setSource x).nextName = d.nextName := rfl
@[simp] theorem Dyn.nextName_stuck (d : Dyn) (w : String) : (d.stuck w).nextName = d.nextName := rfl

/-- replacing the record of a document by one with the same name -/
theorem Dyn.source_setSource (d : Dyn) (x : Source) (n : SrcName) :
    (d.setSource x).source n = if n = x.name then (d.source n).map (fun _ => x) else d.source n := by
  unfold Dyn.setSource Dyn.source
  simp only [List.find?_map]
  have hcomp : ((fun y : Source => y.name == n) ∘ fun y => if (y.name == x.name) = true then x else y)
      = fun y : Source => y.name == n := by
    funext y
    simp only [Function.comp]
    by_cases hy : y.name = x.name
    · simp [hy]
    · simp [hy]
  rw [hcomp]
  cases hf : d.env.find? (fun y => y.name == n) with
  | none => simp
  | some y =>
    have hyn : y.name = n := by simpa using List.find?_some hf
    by_cases hn : n = x.name
    · simp [hn, hyn]
    · have : ¬ y.name = x.name := by rw [hyn]; exact hn
      simp [hn, this]

/-- what the reactions to source events leave alone -/
structure Frame (d d' : Dyn) : Prop where
  /-- formal contents (and existence) of all documents -/
  content : ∀ n, (d'.source n).map (·.content) = (d.source n).map (·.content)
  /-- `outdated` is never cleared -/
  outdated : ∀ c, (d.op c).outdated = true → (d'.op c).outdated = true
  /-- definition of every operation, translations, ghost `built` -/
  opFix : ∀ c, (d'.op c).type = (d.op c).type ∧ (d'.op c).opts = (d.op c).opts ∧
    (d'.op c).translations = (d.op c).translations ∧ (d'.op c).built = (d.op c).built
  /-- an attached source stays attached -/
  src : ∀ p n, (d.handle p).src = some n → (d'.handle p).src = some n
  /-- a fault is never forgotten -/
  fault : d.fault ≠ none → d'.fault ≠ none

theorem Frame.refl (d : Dyn) : Frame d d :=
  ⟨fun _ => rfl, fun _ h => h, fun _ => ⟨rfl, rfl, rfl, rfl⟩, fun _ _ h => h, fun h => h⟩

theorem Frame.trans {a b c : Dyn} (h1 : Frame a b) (h2 : Frame b c) : Frame a c :=
  ⟨fun n => (h2.content n).trans (h1.content n),
   fun x h => h2.outdated x (h1.outdated x h),
   fun x => ⟨(h2.opFix x).1.trans (h1.opFix x).1, (h2.opFix x).2.1.trans (h1.opFix x).2.1,
     (h2.opFix x).2.2.1.trans (h1.opFix x).2.2.1, (h2.opFix x).2.2.2.trans (h1.opFix x).2.2.2⟩,
   fun p n h => h2.src p n (h1.src p n h),
   fun h => h2.fault (h1.fault h)⟩

theorem Frame.stuck (d : Dyn) (w : String) : Frame d (d.stuck w) :=
  ⟨fun _ => rfl, fun _ h => h, fun _ => ⟨rfl, rfl, rfl, rfl⟩, fun _ _ h => h, fun _ => by simp [Dyn.stuck]⟩

theorem Frame.setDnd (d : Dyn) (k : Nat) : Frame d { d with dnd := k } :=
  ⟨fun _ => rfl, fun _ h => h, fun _ => ⟨rfl, rfl, rfl, rfl⟩, fun _ _ h => h, fun h => h⟩

/-- a handle update that keeps an attached source -/
theorem Frame.setHandle (d : Dyn) (p : Pid) (x : Handle) (h : ∀ n, (d.handle p).src = some n → x.src = some n) :
    Frame d (d.setHandle p x) := by
  refine ⟨fun _ => rfl, fun _ h => h, fun _ => ⟨rfl, rfl, rfl, rfl⟩, ?_, fun h => h⟩
  intro q n hq
  rw [Dyn.handle_setHandle]
  split
  · rename_i e; subst e; exact h n hq
  · exact hq

/-- a source update that keeps name and content -/
theorem Frame.setSource (d : Dyn) (x y : Source) (hx : d.source x.name = some x) (hn : y.name = x.name)
    (hc : y.content = x.content) : Frame d (d.setSource y) := by
  refine ⟨?_, fun _ h => h, fun _ => ⟨rfl, rfl, rfl, rfl⟩, fun _ _ h => h, fun h => h⟩
  intro n
  rw [Dyn.source_setSource]
  split
  · rename_i e
    rw [e, hn, hx]; simp [hc]
  · rfl

/-- an operation-handle update that only touches `broken` / sets `outdated` -/
theorem Frame.setOp (d : Dyn) (p : Pid) (x : OpHandle) (h1 : x.type = (d.op p).type) (h2 : x.opts = (d.op p).opts)
    (h3 : x.translations = (d.op p).translations) (h4 : x.built = (d.op p).built)
    (h5 : (d.op p).outdated = true → x.outdated = true) : Frame d (d.setOp p x) := by
  refine ⟨fun _ => rfl, ?_, ?_, fun _ _ h => h, fun h => h⟩
  · intro c hc
    rw [Dyn.op_setOp]; split
    · rename_i e; subst e; exact h5 hc
    · exact hc
  · intro c
    rw [Dyn.op_setOp]; split
    · rename_i e; subst e; exact ⟨h1, h2, h3, h4⟩
    · exact ⟨rfl, rfl, rfl, rfl⟩

theorem Frame.foldl {α} (g : Dyn → α → Dyn) (hg : ∀ d x, Frame d (g d x)) : ∀ (l : List α) (d : Dyn), Frame d (l.foldl g d)
  | [], d => Frame.refl d
  | x :: l, d => (hg d x).trans (Frame.foldl g hg l (g d x))

theorem Dyn.source_name {d : Dyn} {n : SrcName} {x : Source} (h : d.source n = some x) : x.name = n := by
  simpa using List.find?_some h

theorem Frame.foldl_fst {α β} (g : Dyn × β → α → Dyn × β) (hg : ∀ acc x, Frame acc.1 (g acc x).1) :
    ∀ (l : List α) (acc : Dyn × β), Frame acc.1 (l.foldl g acc).1
  | [], acc => Frame.refl acc.1
  | x :: l, acc => (hg acc x).trans (Frame.foldl_fst g hg l (g acc x))

theorem Frame.setBroken (d : Dyn) (p : Pid) (b : Bool) : Frame d (d.setOp p { d.op p with broken := b }) :=
  Frame.setOp d p _ rfl rfl rfl rfl (fun h => h)

theorem Frame.setOutdated (d : Dyn) (p : Pid) : Frame d (d.setOp p { d.op p with outdated := true }) :=
  Frame.setOp d p _ rfl rfl rfl rfl (fun _ => rfl)

theorem Frame.stuckIf (d : Dyn) (c : Bool) (w : String) : Frame d (if c = true then d.stuck w else d) := by
  split
  · exact Frame.stuck _ _
  · exact Frame.refl _

theorem Frame.checkFinish (o : Oracle) (p : Pid) (r : Dyn × List Bool) : Frame r.1 (checkFinish o p r) := by
  unfold CCVerif.Oss.checkFinish
  exact ((Frame.stuckIf _ _ _).trans (Frame.stuckIf _ _ _)).trans (Frame.setBroken _ p _)

/-- the reactions to source events (`TriggerSave` → `UpdateOnSrcChange` → `UpdateHashes` →
`OnCoreChange` → `CheckOperation` → `CallFor` → `UpdateSync` / `DataFor` → …) change neither the
content of a document nor the definition of an operation, never clear `outdated`, never detach
a source -/
theorem reactions_frame (s : Struct) (o : Oracle) : ∀ f : Nat,
    (∀ d n, Frame d (announce s o f d n)) ∧ (∀ d p, Frame d (syncPict s o f d p)) ∧
    (∀ d p, Frame d (coreChange s o f d p)) ∧ (∀ d p, Frame d (updateSync s o f d p)) ∧
    (∀ d p, Frame d (dataFor s o f d p).1) ∧ (∀ d p, Frame d (checkOp s o f d p))
  | 0 => by
    refine ⟨?_, ?_, ?_, ?_, ?_, ?_⟩ <;> intro d x
    · simp only [announce]; exact Frame.stuck _ _
    · simp only [syncPict]; exact Frame.stuck _ _
    · simp only [coreChange]; exact Frame.stuck _ _
    · simp only [updateSync]; exact Frame.stuck _ _
    · simp only [dataFor]; exact Frame.stuck _ _
    · simp only [checkOp]; exact Frame.stuck _ _
  | f + 1 => by
    obtain ⟨ihA, ihS, ihC, ihU, ihD, ihK⟩ := reactions_frame s o f
    have hA : ∀ d n, Frame d (announce s o (f + 1) d n) := by
      intro d n
      simp only [announce]
      cases hs : d.source n with
      | none => exact Frame.refl d
      | some src =>
        dsimp only
        split
        · exact Frame.refl d
        · have hn := Dyn.source_name hs
          have h1 : Frame d (d.setSource { src with saved := true, announced := src.content }) :=
            Frame.setSource d src _ (by rw [hn]; exact hs) rfl rfl
          split
          · exact h1
          · split
            · exact h1
            · exact h1.trans (ihS _ _)
    have hS : ∀ d p, Frame d (syncPict s o (f + 1) d p) := by
      intro d p
      simp only [syncPict]
      cases hsrc : (d.handle p).src with
      | none => exact Frame.stuck _ _
      | some n =>
        dsimp only
        refine Frame.trans ?_ (Frame.setHandle _ p _ (fun m hm => hm))
        split
        · exact (Frame.setHandle d p _ (fun m hm => by simpa [hsrc] using hm)).trans (ihC _ _)
        · exact Frame.setHandle d p _ (fun m hm => by simpa [hsrc] using hm)
    have hC : ∀ d p, Frame d (coreChange s o (f + 1) d p) := by
      intro d p
      simp only [coreChange]
      apply Frame.foldl
      intro d c
      split
      · exact Frame.stuck _ _
      · exact (ihK d c).trans (Frame.setOutdated _ c)
    have hU : ∀ d p, Frame d (updateSync s o (f + 1) d p) := by
      intro d p
      simp only [updateSync]
      split
      · exact Frame.refl d
      · exact ihA _ _
    have hD : ∀ d p, Frame d (dataFor s o (f + 1) d p).1 := by
      intro d p
      simp only [dataFor]
      split
      · exact Frame.refl d
      · split
        · exact Frame.refl d
        · cases hsrc : (d.handle p).src with
          | some n => exact Frame.refl d
          | none =>
            dsimp only
            cases hb : (d.handle p).desc.bind d.source with
            | none => exact Frame.refl d
            | some src =>
              dsimp only
              obtain ⟨m, _, hm⟩ := Option.bind_eq_some_iff.1 hb
              have hn := Dyn.source_name hm
              have h1 : Frame d (d.setSource { src with opened := true, announced := src.content }) :=
                Frame.setSource d src _ (by rw [hn]; exact hm) rfl rfl
              have h2 : Frame (d.setSource { src with opened := true, announced := src.content })
                  ((d.setSource { src with opened := true, announced := src.content }).setHandle p
                    { (d.setSource { src with opened := true, announced := src.content }).handle p with src := some src.name }) :=
                Frame.setHandle _ p _ (fun k hk => by
                  rw [Dyn.handle_setSource, hsrc] at hk; cases hk)
              exact (h1.trans h2).trans (ihS _ _)
    have hK : ∀ d p, Frame d (checkOp s o (f + 1) d p) := by
      intro d p
      simp only [checkOp]
      have hfold := Frame.foldl_fst
        (fun (acc : Dyn × List Bool) q =>
          ((dataFor s o f (updateSync s o f acc.1 q) q).1, acc.2 ++ [(dataFor s o f (updateSync s o f acc.1 q) q).2.isSome]))
        (fun acc q => (ihU acc.1 q).trans (ihD _ q)) (s.graph.parentsOf p) (d, [])
      exact hfold.trans (Frame.checkFinish o p _)
    exact ⟨hA, hS, hC, hU, hD, hK⟩

/-- after `OnCoreChange(p)` every (operable) child of `p` carries `outdated` -/
theorem coreChange_marks (s : Struct) (o : Oracle) (f : Nat) (d : Dyn) (p : Pid) :
    ∀ c ∈ s.graph.childrenOf p, s.isOperable c = true → ((coreChange s o (f + 1) d p).op c).outdated = true := by
  simp only [coreChange]
  have hstep : ∀ d c, Frame d (if (!s.isOperable c) = true then d.stuck "operations.at"
      else (checkOp s o f d c).setOp c { (checkOp s o f d c).op c with outdated := true }) := by
    intro d c
    split
    · exact Frame.stuck _ _
    · exact ((reactions_frame s o f).2.2.2.2.2 d c).trans (Frame.setOutdated _ c)
  generalize s.graph.childrenOf p = l
  induction l generalizing d with
  | nil => intro c hc; cases hc
  | cons x l ih =>
    intro c hc hop
    simp only [List.foldl_cons]
    rcases List.mem_cons.1 hc with rfl | hc'
    · apply (Frame.foldl _ hstep l _).outdated
      simp [hop]
    · exact ih _ c hc' hop

theorem statusOf_ne_done_of_outdated (s : Struct) (d : Dyn) (c : Pid) (h : (d.op c).outdated = true) :
    statusOf s d c ≠ .done := by
  unfold statusOf
  simp only [h, if_true]
  split
  · intro e; cases e
  · split
    · intro e; cases e
    · split
      · intro e; cases e
      · split <;> (intro e; cases e)

/-! ### `SaveOperationResult` -/

theorem Frame.setOpAny (d : Dyn) (p : Pid) (x : OpHandle) :
    (∀ n, ((d.setOp p x).source n) = d.source n) ∧ (∀ q, (d.setOp p x).handle q = d.handle q) ∧
    (d.setOp p x).fault = d.fault := ⟨fun _ => rfl, fun _ => rfl, rfl⟩

theorem writeData_spec (d : Dyn) (n : SrcName) (c : Content) :
    (writeData d n c).fault ≠ none ∨ ((writeData d n c).source n).map (·.content) = some c := by
  unfold writeData
  cases hs : d.source n with
  | none => left; simp [Dyn.stuck]
  | some src =>
    right
    have hn := Dyn.source_name hs
    dsimp only
    rw [Dyn.source_setSource]
    simp only [hn, if_true, hs, Option.map_some]

theorem writeData_fault (d : Dyn) (n : SrcName) (c : Content) : d.fault ≠ none → (writeData d n c).fault ≠ none := by
  unfold writeData
  cases d.source n with
  | none => intro _; simp [Dyn.stuck]
  | some src => exact fun h => h

theorem writeData_handle (d : Dyn) (n : SrcName) (c : Content) (q : Pid) : (writeData d n c).handle q = d.handle q := by
  unfold writeData
  cases d.source n <;> rfl

theorem connectInternal_spec (s : Struct) (o : Oracle) (d : Dyn) (p : Pid) (n : SrcName) :
    ((connectInternal s o d p n).handle p).src = some n ∧
    (∀ m, ((connectInternal s o d p n).source m).map (·.content) = (d.source m).map (·.content)) ∧
    (∀ c, ((connectInternal s o d p n).op c).built = (d.op c).built) ∧
    (d.fault ≠ none → (connectInternal s o d p n).fault ≠ none) := by
  unfold connectInternal
  dsimp only
  have f1 := (reactions_frame s o (fuelOf d)).1 d n
  have f2 := (reactions_frame s o (fuelOf ((announce s o (fuelOf d) d n).setHandle p
    { (announce s o (fuelOf d) d n).handle p with src := some n }))).2.1
    ((announce s o (fuelOf d) d n).setHandle p { (announce s o (fuelOf d) d n).handle p with src := some n }) p
  refine ⟨?_, ?_, ?_, ?_⟩
  · apply f2.src
    simp
  · intro m
    rw [f2.content m]
    exact f1.content m
  · intro c
    rw [(f2.opFix c).2.2.2]
    exact (f1.opFix c).2.2.2
  · intro h
    exact f2.fault (f1.fault h)

theorem updateChildren_frame (s : Struct) (v : Variant) (o : Oracle) (d : Dyn) (p : Pid) (ch : Bool) :
    Frame d (updateChildren s v o d p ch) := by
  unfold updateChildren
  apply Frame.foldl
  intro d c
  dsimp only
  have h1 := Frame.stuckIf d (s.graph.parentIndex p c).isNone "ParentIndex.value()"
  generalize (if (s.graph.parentIndex p c).isNone = true then d.stuck "ParentIndex.value()" else d) = d1 at h1 ⊢
  have h2 := (reactions_frame s o (fuelOf d1)).2.2.2.2.2 d1 c
  generalize checkOp s o (fuelOf d1) d1 c = d2 at h2 ⊢
  refine (h1.trans h2).trans ?_
  split
  · exact Frame.setOutdated _ c
  · exact Frame.refl _

theorem inputTarget_fault (d : Dyn) (p : Pid) : d.fault ≠ none → (inputTarget d p).1.fault ≠ none := by
  unfold inputTarget
  cases (d.handle p).src <;> exact fun h => h

/-- after `SaveOperationResult`: the pictogram's source holds the content written, the ghost
records the operand contents (unless the model faulted on the way) -/
theorem saveResult_spec (s : Struct) (v : Variant) (o : Oracle) (d : Dyn) (p : Pid) (c : Content)
    (built : Option Content × Option Content) (hok : (saveResult s v o d p c built).1.fault = none) :
    ∃ n, ((saveResult s v o d p c built).1.handle p).src = some n ∧
      ((saveResult s v o d p c built).1.source n).map (·.content) = some c ∧
      ((saveResult s v o d p c built).1.op p).built = some built := by
  unfold saveResult at hok ⊢
  dsimp only at hok ⊢
  -- names for the stages
  generalize hd1 : ({ d with dnd := d.dnd + 1 } : Dyn) = d1 at hok ⊢
  generalize ht : inputTarget d1 p = t at hok ⊢
  generalize hd3 : writeData t.1 t.2 c = d3 at hok ⊢
  obtain ⟨hsrc4, hcont4, hbuilt4, hfault4⟩ := connectInternal_spec s o d3 p t.2
  generalize hd4 : connectInternal s o d3 p t.2 = d4 at hok hsrc4 hcont4 hbuilt4 hfault4 ⊢
  have f5 : Frame d4 (if v.narrow = true then { d4 with dnd := d4.dnd - 1 } else d4) := by
    split
    · exact Frame.setDnd _ _
    · exact Frame.refl _
  generalize hd5 : (if v.narrow = true then ({ d4 with dnd := d4.dnd - 1 } : Dyn) else d4) = d5 at hok f5 ⊢
  generalize hd6 : d5.setOp p { d5.op p with translations := true, broken := false, outdated := false, built := some built } = d6 at hok ⊢
  have f7 := updateChildren_frame s v o d6 p ((d6.handle p).coreHash != (d.handle p).coreHash)
  generalize hd7 : updateChildren s v o d6 p ((d6.handle p).coreHash != (d.handle p).coreHash) = d7 at hok f7 ⊢
  have f8 : Frame d7 (if v.narrow = true then d7 else { d7 with dnd := d7.dnd - 1 }) := by
    split
    · exact Frame.refl _
    · exact Frame.setDnd _ _
  generalize hd8 : (if v.narrow = true then d7 else ({ d7 with dnd := d7.dnd - 1 } : Dyn)) = d8 at hok f8 ⊢
  have f68 : Frame d6 d8 := f7.trans f8
  -- no fault at the end, hence none after the write
  have h6fault : d6.fault = d5.fault := by rw [← hd6]; rfl
  have hd3ok : d3.fault = none := by
    apply Classical.byContradiction
    intro h
    have h4 := hfault4 h
    have h5 := f5.fault h4
    rw [← h6fault] at h5
    exact (f68.fault h5) hok
  have hcont3 : (d3.source t.2).map (·.content) = some c := by
    rcases writeData_spec t.1 t.2 c with h | h
    · rw [hd3] at h; exact absurd hd3ok h
    · rw [hd3] at h; exact h
  refine ⟨t.2, ?_, ?_, ?_⟩
  · apply f68.src
    rw [← hd6, Dyn.handle_setOp]
    exact f5.src p t.2 hsrc4
  · rw [f68.content t.2, ← hd6, Dyn.source_setOp, f5.content t.2, hcont4 t.2]
    exact hcont3
  · rw [(f68.opFix p).2.2.2, ← hd6, Dyn.op_setOp, if_pos rfl]

end CCVerif.Oss
