import CCVerif.Lemmas.EvalExamples
import CCVerif.Lemmas.EvalNormRel
/-! Concrete member of the stage-6 fragment (flat tuple patterns in `∀ ∃ D{}`), shared by `Properties/C01.lean`
and `Properties/C02.lean`:
`D{(a,b)∈{(1,2),(2,3)} | ∃(c,d)∈{(1,2),(2,3)} b=c} = {(1,2)} & ∀(x,y)∈{(1,2),(2,3)} x<y`. -/
namespace CCVerif.Eval.Examples
open CCVerif.Syntax CCVerif.Spec CCVerif.Norm CCVerif.Eval
open Ty

def pairs : Ast := nd .NT_ENUMERATION [nd .NT_TUPLE [lit 1, lit 2], nd .NT_TUPLE [lit 2, lit 3]]
def pat (a b : String) : Ast := nd .NT_TUPLE_DECL [loc a, loc b]
def e7 : Ast :=
  nd .AND [nd .EQUAL [nd .NT_DECLARATIVE_EXPR [pat "a" "b", pairs, nd .EXISTS [pat "c" "d", pairs, nd .EQUAL [loc "b", loc "c"]]],
      nd .NT_ENUMERATION [nd .NT_TUPLE [lit 1, lit 2]]],
    nd .FORALL [pat "x" "y", pairs, nd .LESSER [loc "x", loc "y"]]]

def pr1 (k : Int) (a : Ast) : Ast := .node .SMALLPR (.tuple [k]) 0 0 [a]
/-- the normal form of `e7`: the patterns became `@ab`, `@cd`, `@xy` -/
def e7n : Ast :=
  nd .AND [nd .EQUAL [nd .NT_DECLARATIVE_EXPR [loc "@ab", pairs, nd .EXISTS [loc "@cd", pairs,
        nd .EQUAL [pr1 2 (loc "@ab"), pr1 1 (loc "@cd")]]],
      nd .NT_ENUMERATION [nd .NT_TUPLE [lit 1, lit 2]]],
    nd .FORALL [loc "@xy", pairs, nd .LESSER [pr1 1 (loc "@xy"), pr1 2 (loc "@xy")]]]

theorem pair_frag (rz : Rz) (Γ : TCtx) (m n : Int) : FragR env0 [] 6 rz Γ (nd .NT_TUPLE [lit m, lit n]) (nd .NT_TUPLE [lit m, lit n])
    (.ty (.tuple [Z, Z])) := by
  refine FragR.tuple _ _ _ [lit m, lit n] [lit m, lit n] [Z, Z] (by simp) rfl rfl ?_
  intro q hq
  simp only [List.zip_cons_cons, List.zip_nil_right, List.mem_cons, List.not_mem_nil, or_false] at hq
  rcases hq with rfl | rfl <;> exact .lit ..

theorem pairs_frag (rz : Rz) (Γ : TCtx) : FragR env0 [] 6 rz Γ pairs pairs (.ty (.coll (.tuple [Z, Z]))) := by
  refine FragR.enum _ _ _ _ _ (by simp) rfl ?_
  intro q hq
  simp only [List.zip_cons_cons, List.zip_nil_right, List.mem_cons, List.not_mem_nil, or_false] at hq
  rcases hq with rfl | rfl <;> exact pair_frag ..

theorem e7_frag : FragR env0 [] 6 [] [] e7 e7n .logic := by
  refine .conn _ _ _ (Or.inl rfl) (.eq (τ := .coll (.tuple [Z, Z])) _ _ _ (Or.inl rfl) ?_ ?_) ?_
  · refine FragR.declTup (ts := [Z, Z]) _ _ _ _ _ _ [("a", 0, 0), ("b", 0, 0)] "@ab" (by decide) rfl (by decide) (by decide)
      (by intro q hq; simp at hq; rcases hq with rfl | rfl <;> exact ⟨rfl, rfl, by simp⟩) rfl rfl (by decide) (by simp) rfl
      (pairs_frag ..) ?_
    refine FragR.quantTup (ts := [Z, Z]) _ _ _ _ _ _ [("c", 0, 0), ("d", 0, 0)] "@cd" (by decide) (Or.inr rfl) rfl (by decide)
      (by decide) (by intro q hq; simp at hq; rcases hq with rfl | rfl <;> exact ⟨rfl, rfl, by decide⟩) rfl rfl (by decide)
      (by decide) rfl (pairs_frag ..) ?_
    exact .eq (τ := Z) _ _ _ (Or.inl rfl) (.locPr _ "b" "@ab" 2 0 0 (by decide) rfl rfl) (.locPr _ "c" "@cd" 1 0 0 (by decide) rfl rfl)
  · refine FragR.enum _ _ _ _ _ (by simp) rfl ?_
    intro q hq
    simp only [List.zip_cons_cons, List.zip_nil_right, List.mem_cons, List.not_mem_nil, or_false] at hq
    subst hq; exact pair_frag ..
  · refine FragR.quantTup (ts := [Z, Z]) _ _ _ _ _ _ [("x", 0, 0), ("y", 0, 0)] "@xy" (by decide) (Or.inl rfl) rfl (by decide)
      (by decide) (by intro q hq; simp at hq; rcases hq with rfl | rfl <;> exact ⟨rfl, rfl, by simp⟩) rfl rfl (by decide)
      (by simp) rfl (pairs_frag ..) ?_
    exact .cmp _ _ _ (Or.inr (Or.inl rfl)) (.locPr _ "x" "@xy" 1 0 0 (by decide) rfl rfl) (.locPr _ "y" "@xy" 2 0 0 (by decide) rfl rfl)

theorem e7_nocollide : NoCollide (patsOf e7) := by
  unfold NoCollide
  rw [show patsOf e7 = [["a", "b"], ["c", "d"], ["x", "y"]] from rfl]
  decide


end CCVerif.Eval.Examples
