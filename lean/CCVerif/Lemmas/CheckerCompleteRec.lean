import CCVerif.Lemmas.CheckerComplete3
/-!
Completeness of the checker model (C03 `check_complete_partial2`), part 5: the recursive terms
`R{p := init | step}` and `R{p := init | cond | step}` under the explicit bound hypothesis "the join chain
of the rule stabilises within `typeDeductionDepth` rounds" (`RecBounded`). The rules `HasType.recShort` /
`recFull` allow a chain `StepReach` of any length; `ViRecursion` gives up after `typeDeductionDepth = 5`
rounds (`recursion_needs_bound_counterexample` in Properties/C03 shows the hypothesis is needed).
-/
namespace CCVerif.Checker
open CCVerif.Syntax CCVerif.Types CCVerif.Spec

/-- the chain of type deduction as the checker walks it: from `σ`, with the variable at `σ` the step has the
type `σ'`; if `σ' ⊔ σ = σ` the chain has reached its fixed point (`stop`), otherwise it goes on from the
strictly different join (`step`). The index counts the rounds (`stop` is a round). -/
inductive StepReachN (Γ : Ctx) : Env → Ast → Ast → Nat → Ty → Ty → Prop where
  | stop {Δ Δτ : Env} {p step : Ast} {k : Nat} {τ tτ : Ty} :
      Binds Δ p τ Δτ → HasType Γ Δτ step (.ty tτ) → merge Γ.traits tτ τ = some τ →
      StepReachN Γ Δ p step (k+1) τ τ
  | step {Δ Δσ : Env} {p step : Ast} {k : Nat} {σ σ' σ'' τ : Ty} :
      Binds Δ p σ Δσ → HasType Γ Δσ step (.ty σ') → merge Γ.traits σ' σ = some σ'' → σ'' ≠ σ →
      StepReachN Γ Δ p step k σ'' τ → StepReachN Γ Δ p step (k+1) σ τ

theorem StepReachN.mono {Γ : Ctx} {Δ : Env} {p step : Ast} {k : Nat} {σ τ : Ty}
    (h : StepReachN Γ Δ p step k σ τ) : StepReachN Γ Δ p step (k+1) σ τ := by
  induction h with
  | stop b i m => exact .stop b i m
  | step b i m hne _ ih => exact .step b i m hne ih

theorem StepReachN.mono_le {Γ : Ctx} {Δ : Env} {p step : Ast} {k k' : Nat} {σ τ : Ty}
    (h : StepReachN Γ Δ p step k σ τ) (hk : k ≤ k') : StepReachN Γ Δ p step k' σ τ := by
  induction hk with
  | refl => exact h
  | step _ ih => exact ih.mono

/-- every chain of the rule that ends in a fixed point is a bounded chain for SOME number of rounds -/
theorem stepReachN_of_stepReach {Γ : Ctx} {Δ Δτ : Env} {p step : Ast} {τ tτ : Ty}
    (bτ : Binds Δ p τ Δτ) (iτ : HasType Γ Δτ step (.ty tτ)) (mτ : merge Γ.traits tτ τ = some τ) :
    ∀ {v0 : Ty}, StepReach Γ Δ p step v0 τ → ∃ k, StepReachN Γ Δ p step k v0 τ
  | _, .refl => ⟨1, .stop bτ iτ mτ⟩
  | σ, .step (σ'' := σ'') b i m sr => by
    obtain ⟨k, hk⟩ := stepReachN_of_stepReach bτ iτ mτ sr
    by_cases e : σ'' = σ
    · subst e; exact ⟨k, hk⟩
    · exact ⟨k+1, .step b i m e hk⟩

/-- the bound hypothesis of the completeness theorem for `R{}`: whenever the premises of the rule hold
(chain `StepReach` from `v0` to a type `τ` the step stays within), the chain stabilises within
`typeDeductionDepth` rounds of the checker -/
def RecBounded (Γ : Ctx) (p step : Ast) : Prop :=
  ∀ (Δ Δτ : Env) (v0 τ tτ : Ty), StepReach Γ Δ p step v0 τ → Binds Δ p τ Δτ → HasType Γ Δτ step (.ty tτ) →
    merge Γ.traits tτ τ = some τ → StepReachN Γ Δ p step typeDeductionDepth v0 τ

theorem clearLocals_fwd (s : St) :
    clearLocals s = (.ok (), { s with locals := s.locals.filter fun v => v.level > 0 }) := rfl

/-- the retry loop of `ViRecursion` along a bounded chain -/
theorem rounds_c {Γ : Ctx} {n : Nat} {cp : Cat} {a pat step : Ast} {idx : Nat} {Δ : Env} {s0 : St}
    (hkp : a.kid 0 = some pat) (hks : a.kid idx = some step) (hnm : emptySetInvalidParents.contains a.id = false)
    (hp : CD Γ n cp pat) (hps : DEOk Γ n pat) (hst : CV Γ n .S step) (hsts : VOk Γ n .S step)
    (hg0 : GoodSt s0) (h0lv : ∀ x t l, view s0.locals x = some (t, l) → 1 ≤ l) (hr0 : RelC Γ s0 Δ) :
    ∀ (k : Nat) (vt τ : Ty) (s : St), StepReachN Γ Δ pat step k vt τ → Ext s0 s → (CtxOk Γ → CleanTy Γ vt) →
      ∃ s', recursionRounds Γ.traits (visit Γ n) a idx k vt s = (.ok (some τ), s') ∧
        (∀ Δτ', Binds Δ pat τ Δτ' → RelC Γ s' Δτ')
  | 0, vt, τ, s, h, _, _ => by cases h
  | k+1, vt, τ, s, h, he, hct => by
    have h1 := clearLocals_fwd s
    obtain ⟨hvc, hfc⟩ := clearLocals_spec h1 (he.2.uniq hg0.2.2.2) h0lv he.1
    have m0c : Same s0 { s with locals := s.locals.filter fun v => v.level > 0 } := ⟨hvc, he.2.trans hfc⟩
    cases h with
    | stop b i m =>
      rename_i Δτ tτ
      obtain ⟨s1, r1, rc1, e1⟩ := visitChildDecl_c hkp hp hps b (hr0.of_same m0c) hct
      obtain ⟨s2, r2, m2⟩ := childType_cv hks hst i ((hg0.of_same m0c).of_ext e1) rc1 (fun _ _ => ⟨_, rfl⟩) (nomis hnm)
      refine ⟨s2, ?_, ?_⟩
      · unfold recursionRounds
        rw [bind_eq h1, bind_eq r1, bind_eq r2, bind_eq (expectTy_fwd _ _ _)]
        simp only [m, beq_self_eq_true, if_true]
        rfl
      · intro Δτ' b'
        obtain ⟨s1', r1', rc1', _⟩ := visitChildDecl_c hkp hp hps b' (hr0.of_same m0c) hct
        have e := r1.symm.trans r1'
        cases e
        exact rc1'.of_same m2
    | step b i m hne sr =>
      rename_i Δσ σ' σ''
      obtain ⟨s1, r1, rc1, e1⟩ := visitChildDecl_c hkp hp hps b (hr0.of_same m0c) hct
      have hg1 := (hg0.of_same m0c).of_ext e1
      obtain ⟨s2, r2, m2⟩ := childType_cv hks hst i hg1 rc1 (fun _ _ => ⟨_, rfl⟩) (nomis hnm)
      obtain ⟨_, _, _, _, _, c3⟩ := childType_spec hks hsts r2 hg1 rc1.rel
      have he2 : Ext s0 s2 := (m0c.ext.trans e1).trans m2.ext
      obtain ⟨s', r', hrel⟩ := rounds_c hkp hks hnm hp hps hst hsts hg0 h0lv hr0 k σ'' τ s2 sr he2
        (fun hx => idsIn_merge _ _ _ _ m (c3 hx) (hct hx))
      refine ⟨s', ?_, hrel⟩
      unfold recursionRounds
      rw [bind_eq h1, bind_eq r1, bind_eq r2, bind_eq (expectTy_fwd _ _ _)]
      have hb : (σ'' == vt) = false := by simpa using hne
      simp only [m, hb, Bool.false_eq_true, if_false]
      exact r'

/-- `ViRecursion` (both forms) on a derivation whose chain is bounded -/
theorem recBody_c {Γ : Ctx} {n : Nat} {cp : Cat} {a pat init step cond : Ast} {isFull : Bool} {idx : Nat}
    {s : St} {Δ Δ0 Δτ : Env} {t0 t1 v0 τ : Ty}
    (hkp : a.kid 0 = some pat) (hki : a.kid 1 = some init) (hks : a.kid idx = some step)
    (hkc : isFull = true → a.kid 2 = some cond) (hnm : emptySetInvalidParents.contains a.id = false)
    (hp : CD Γ n cp pat) (hps : DEOk Γ n pat) (hin : CV Γ n .S init) (hins : VOk Γ n .S init)
    (hst : CV Γ n .S step) (hsts : VOk Γ n .S step) (hc : isFull = true → CV Γ n .L cond)
    (iA : HasType Γ Δ init (.ty t0)) (b0 : Binds Δ pat t0 Δ0) (iC : HasType Γ Δ0 step (.ty t1))
    (hcm : compat Γ.traits t1 t0 = true) (hm0 : merge Γ.traits t1 t0 = some v0)
    (srN : StepReachN Γ Δ pat step typeDeductionDepth v0 τ)
    (bτ : Binds Δ pat τ Δτ) (ic : isFull = true → HasType Γ Δτ cond .logic)
    (hg : GoodSt s) (hr : RelC Γ s Δ) :
    ∃ s', recBody Γ (visit Γ n) a isFull idx s = (.ok (), s') ∧ s'.cur = .ty τ := by
  unfold recBody
  obtain ⟨s0, r0, hg0, hr0⟩ := startScope_c hg hr
  obtain ⟨hv0, _, _⟩ := startScope_ok r0
  have h0lv : ∀ x t l, view s0.locals x = some (t, l) → 1 ≤ l := by
    intro x t l hx
    rw [hv0 x] at hx
    cases hvx : view s.locals x with
    | none => rw [hvx] at hx; simp at hx
    | some q =>
      rw [hvx] at hx; simp at hx
      have := hg.2.2.1 x q.1 q.2 hvx
      omega
  refine bind_ex r0 ?_
  obtain ⟨sA, rA, mA⟩ := childType_cv hki hin iA hg0 hr0 (fun _ _ => ⟨_, rfl⟩) (nomis hnm)
  obtain ⟨_, _, _, _, _, cA⟩ := childType_spec hki hins rA hg0 hr0.rel
  refine bind_ex rA (bind_ex (expectTy_fwd _ _ _) ?_)
  obtain ⟨sB, rB, rcB, eB⟩ := visitChildDecl_c hkp hp hps b0 (hr0.of_same mA) (fun hx => cA hx)
  refine bind_ex rB ?_
  have hgB := (hg0.of_same mA).of_ext eB
  obtain ⟨sC, rC, mC⟩ := childType_cv hks hst iC hgB rcB (fun _ _ => ⟨_, rfl⟩) (nomis hnm)
  obtain ⟨_, _, _, _, _, cC⟩ := childType_spec hks hsts rC hgB rcB.rel
  refine bind_ex rC ?_
  simp only [compatE, hcm]
  refine bind_ex (expectTy_fwd _ _ _) ?_
  simp only [hm0]
  refine bind_ex (modifySt_fwd _ _) ?_
  have e0C : Ext s0 sC := (mA.ext.trans eB).trans mC.ext
  have mD : Same sC { sC with noWarn := sC.noWarn + 1 } := Same.of_locals rfl ⟨rfl, rfl, rfl, rfl, id⟩
  obtain ⟨sE, rE, hrel⟩ := rounds_c hkp hks hnm hp hps hst hsts hg0 h0lv hr0 typeDeductionDepth v0 τ _ srN
    (e0C.trans mD.ext) (fun hx => idsIn_merge _ _ _ _ hm0 (cC hx) (cA hx))
  refine bind_ex rE (bind_ex (modifySt_fwd _ _) ?_)
  obtain ⟨_, _, _, _, _, _, _, _, eE⟩ := rounds_ok hkp hks hps hsts hg0 h0lv hr0.rel _ _ _ _ _ rE (e0C.trans mD.ext)
    (fun hx => idsIn_merge _ _ _ _ hm0 (cC hx) (cA hx))
  simp only []
  have mF : Same sE { sE with noWarn := sE.noWarn - 1 } := Same.of_locals rfl ⟨rfl, rfl, rfl, rfl, id⟩
  cases isFull with
  | false =>
    simp only [Bool.false_eq_true, if_false]
    exact bind_ex (pure_fwd _ _) (bind_ex (modifySt_fwd _ _) ⟨_, rfl, rfl⟩)
  | true =>
    simp only [if_true]
    obtain ⟨sG, rG, _, _⟩ := hc rfl (some a.id) _ Δτ .logic (ic rfl) (hg0.of_ext (eE.trans mF.ext))
      ((hrel Δτ bτ).of_same mF) (fun e => by cases e) (nomis hnm)
    exact bind_ex (visitChild_fwd (hkc rfl) rG) (bind_ex (modifySt_fwd _ _) ⟨_, rfl, rfl⟩)

theorem recShort_c {Γ : Ctx} {n : Nat} {cp : Cat} {d : TokData} {lo hi : Int} {pat init step : Ast}
    (hp : CD Γ n cp pat) (hps : DEOk Γ n pat) (hin : CV Γ n .S init) (hins : VOk Γ n .S init)
    (hst : CV Γ n .S step) (hsts : VOk Γ n .S step) (hb : RecBounded Γ pat step) :
    CV0 Γ (n+1) .S (.node .NT_RECURSIVE_SHORT d lo hi [pat, init, step]) := by
  intro p s Δ τ ht hg hr _ _
  cases ht with
  | recShort iA b0 iC hcm hm0 sr bτ iτ mτ =>
    show ∃ s', recBody Γ (visit Γ n) (.node .NT_RECURSIVE_SHORT d lo hi [pat, init, step]) false 2 s = _ ∧ _
    exact recBody_c (cond := pat) kid0 kid1 kid2 (fun h => by cases h)
      (show emptySetInvalidParents.contains Tok.NT_RECURSIVE_SHORT = false by decide) hp hps hin hins hst hsts
      (fun h => by cases h) iA b0 iC hcm hm0 (hb _ _ _ _ _ sr bτ iτ mτ) bτ (fun h => by cases h) hg hr
  | _ => exfalso; simp_all

theorem recFull_c {Γ : Ctx} {n : Nat} {cp : Cat} {d : TokData} {lo hi : Int} {pat init cond step : Ast}
    (hp : CD Γ n cp pat) (hps : DEOk Γ n pat) (hin : CV Γ n .S init) (hins : VOk Γ n .S init)
    (hc : CV Γ n .L cond) (hst : CV Γ n .S step) (hsts : VOk Γ n .S step) (hb : RecBounded Γ pat step) :
    CV0 Γ (n+1) .S (.node .NT_RECURSIVE_FULL d lo hi [pat, init, cond, step]) := by
  intro p s Δ τ ht hg hr _ _
  cases ht with
  | recFull iA b0 iC hcm hm0 sr bτ iτ mτ ic =>
    show ∃ s', recBody Γ (visit Γ n) (.node .NT_RECURSIVE_FULL d lo hi [pat, init, cond, step]) true 3 s = _ ∧ _
    exact recBody_c kid0 kid1 kid3 (fun _ => kid2)
      (show emptySetInvalidParents.contains Tok.NT_RECURSIVE_FULL = false by decide) hp hps hin hins hst hsts
      (fun _ => hc) iA b0 iC hcm hm0 (hb _ _ _ _ _ sr bτ iτ mτ) bτ (fun _ => ic) hg hr
  | _ => exfalso; simp_all

/-! ## a sufficient condition for the bound -/

theorem reach_const {Γ : Ctx} {Δ : Env} {p step : Ast} {T : Ty}
    (hF : ∀ Δσ σ', HasType Γ Δσ step (.ty σ') → σ' = T)
    (hM : ∀ σ σ'', merge Γ.traits T σ = some σ'' → σ'' = T) :
    ∀ {σ τ : Ty}, σ = T → StepReach Γ Δ p step σ τ → τ = T
  | _, _, e, .refl => e
  | _, _, _, .step _ i m sr => reach_const hF hM (by rw [hF _ _ i] at m; exact hM _ _ m) sr

theorem reachN_const {Γ : Ctx} {Δ Δτ : Env} {p step : Ast} {T τ tτ : Ty}
    (hF : ∀ Δσ σ', HasType Γ Δσ step (.ty σ') → σ' = T)
    (hM : ∀ σ σ'', merge Γ.traits T σ = some σ'' → σ'' = T)
    (bτ : Binds Δ p τ Δτ) (iτ : HasType Γ Δτ step (.ty tτ)) (mτ : merge Γ.traits tτ τ = some τ) :
    ∀ {v0 : Ty}, StepReach Γ Δ p step v0 τ → StepReachN Γ Δ p step 2 v0 τ
  | _, .refl => .stop bτ iτ mτ
  | σ, .step (σ'' := σ'') b i m sr => by
    have e2 : σ'' = T := by
      have m' := m
      rw [hF _ _ i] at m'; exact hM _ _ m'
    by_cases e : σ'' = σ
    · subst e; exact reachN_const hF hM bτ iτ mτ sr
    · have eτ := reach_const hF hM e2 sr
      have : σ'' = τ := e2.trans eτ.symm
      subst this
      exact .step b i m e (.stop bτ iτ mτ)

/-- if the step has the same type `T` whatever the type of the variable, and joining `T` into a type gives `T`
(e.g. `a∪X1` : ℬ(X1) over a base set), the chain stabilises within two rounds -/
theorem recBounded_of_const {Γ : Ctx} {p step : Ast} (T : Ty)
    (hF : ∀ Δσ σ', HasType Γ Δσ step (.ty σ') → σ' = T)
    (hM : ∀ σ σ'', merge Γ.traits T σ = some σ'' → σ'' = T) : RecBounded Γ p step := by
  intro Δ Δτ v0 τ tτ sr bτ iτ mτ
  exact (reachN_const hF hM bτ iτ mτ sr).mono_le (by decide)

end CCVerif.Checker
