import CCVerif.Lemmas.ParserShape
import CCVerif.Lemmas.WfWide
set_option linter.unusedVariables false
set_option linter.unusedSectionVars false
/-!
The parser model only builds trees of the executable grammar `Wf.wf` (prover-Wf) — part 1: one lemma per semantic
action, for the RELAXED predicate `Wf.wfR` (what the grammar guarantees before `SemanticCheck`).

Same architecture as `Lemmas/ParserShape.lean` (whose `stripBrackets` lemmas are reused), with the stronger,
executable predicate: leaves have no children and carry the payload the lexer gives their kind (`wfLeaf`), operator
nodes carry no payload, `Pr/pr/Fi` an index tuple, the head of a call is a leaf of the right kind, arities are exact.

`TokOK t` (`tokW`): what is needed of a token — an identifier / literal token has the payload `Wf.wfLeaf` asks of a
leaf of its kind, `Pr/pr/Fi` carry `indexData`, every other token carries no data.
-/
namespace CCVerif.ParserWf
open CCVerif.Syntax CCVerif.Generated CCVerif.Lexer CCVerif.Parser CCVerif.Wf
open CCVerif.ParserShape (strip_node strip_pl strip_list_nil strip_list_cons strip1 strip2 strip3 strip4
  strip_list_append tupleDecl_noBrackets)

inductive TKind where
  | leaf | idx | op
deriving DecidableEq

def kindOf : Tok → TKind
  | .ID_LOCAL | .ID_GLOBAL | .ID_FUNCTION | .ID_PREDICATE | .ID_RADICAL | .LIT_INTEGER | .LIT_INTSET
  | .LIT_EMPTYSET => .leaf
  | .BIGPR | .SMALLPR | .FILTER => .idx
  | _ => .op

/-- the payload of the token is the one of its kind -/
def tokW (t : LTok) : Bool :=
  match kindOf t.id with
  | .leaf => wfLeaf t.id t.data
  | .idx => indexData t.data
  | .op => noData t.data

def TokOK (t : LTok) : Prop := tokW t = true
def AllOK (ts : Toks) : Prop := ∀ t, t ∈ ts → TokOK t

@[simp] theorem allOK_nil : AllOK [] := by intro t h; cases h
theorem allOK_cons (t : LTok) (ts : Toks) : AllOK (t :: ts) ↔ TokOK t ∧ AllOK ts := by
  simp [AllOK]
theorem allOK_drop (n : Nat) {ts : Toks} (h : AllOK ts) : AllOK (ts.drop n) :=
  fun t ht => h t (List.mem_of_mem_drop ht)
theorem allOK_takeWhile (p : LTok → Bool) {ts : Toks} (h : AllOK ts) : AllOK (ts.takeWhile p) :=
  fun t ht => h t ((List.takeWhile_prefix p).subset ht)

theorem tok_op {t : LTok} (h : TokOK t) (hk : kindOf t.id = .op) : noData t.data = true := by
  unfold TokOK tokW at h; rw [hk] at h; exact h
theorem tok_idx {t : LTok} (h : TokOK t) (hk : kindOf t.id = .idx) : indexData t.data = true := by
  unfold TokOK tokW at h; rw [hk] at h; exact h
theorem tok_leaf {t : LTok} (h : TokOK t) (hk : kindOf t.id = .leaf) : wfLeaf t.id t.data = true := by
  unfold TokOK tokW at h; rw [hk] at h; exact h

/-- the raw tree becomes a `wfR c` tree when its bracket nodes are removed -/
def RawWf (c : Cat) (raw : Ast) : Prop := ∃ t, stripBrackets raw = some t ∧ wfR c t = true
def AllRaw (c : Cat) (l : List Ast) : Prop := ∀ k, k ∈ l → RawWf c k

@[simp] theorem allRaw_nil {c : Cat} : AllRaw c [] := by intro k h; cases h
theorem allRaw_cons {c : Cat} (a : Ast) (l : List Ast) : AllRaw c (a :: l) ↔ RawWf c a ∧ AllRaw c l := by
  simp [AllRaw]
theorem allRaw_append {c : Cat} (l₁ l₂ : List Ast) : AllRaw c (l₁ ++ l₂) ↔ AllRaw c l₁ ∧ AllRaw c l₂ := by
  simp only [AllRaw, List.mem_append]
  exact ⟨fun h => ⟨fun k hk => h k (Or.inl hk), fun k hk => h k (Or.inr hk)⟩, fun h k hk => hk.elim (h.1 k) (h.2 k)⟩

/-! ## `wfR` node by node -/

theorem wfR_leaf {c : Cat} {id : Tok} {d : TokData} {lo hi : Int} (hsh : shapeR c id = some .leaf)
    (hd : wfLeaf id d = true) : wfR c (.node id d lo hi []) = true := by
  rw [wfR, hsh]; simp [hd]
theorem wfR_seq {c : Cat} {id : Tok} {d : TokData} {lo hi : Int} {ks : List Ast} {cs : List Cat}
    (hsh : shapeR c id = some (.seq cs)) (hd : noData d = true) (hk : wfSeqR cs ks = true) :
    wfR c (.node id d lo hi ks) = true := by
  rw [wfR, hsh]; simp [hd, hk]
theorem wfR_seqIdx {c : Cat} {id : Tok} {d : TokData} {lo hi : Int} {ks : List Ast} {cs : List Cat}
    (hsh : shapeR c id = some (.seqIdx cs)) (hd : indexData d = true) (hk : wfSeqR cs ks = true) :
    wfR c (.node id d lo hi ks) = true := by
  rw [wfR, hsh]; simp [hd, hk]
theorem wfR_all {c : Cat} {id : Tok} {d : TokData} {lo hi : Int} {ks : List Ast} {mn : Nat} {c' : Cat}
    (hsh : shapeR c id = some (.all mn c')) (hd : noData d = true) (hn : mn ≤ ks.length) (hk : wfAllR c' ks = true) :
    wfR c (.node id d lo hi ks) = true := by
  rw [wfR, hsh]; simp [hd, hk, hn]
theorem wfR_allIdx {c : Cat} {id : Tok} {d : TokData} {lo hi : Int} {ks : List Ast} {mn : Nat} {c' : Cat}
    (hsh : shapeR c id = some (.allIdx mn c')) (hd : indexData d = true) (hn : mn ≤ ks.length)
    (hk : wfAllR c' ks = true) : wfR c (.node id d lo hi ks) = true := by
  rw [wfR, hsh]; simp [hd, hk, hn]
theorem wfR_headAll {c : Cat} {id : Tok} {d : TokData} {lo hi : Int} {k : Ast} {ks : List Ast} {mn : Nat} {h c' : Cat}
    (hsh : shapeR c id = some (.headAll h mn c')) (hd : noData d = true) (hh : wfR h k = true) (hn : mn ≤ ks.length)
    (hk : wfAllR c' ks = true) : wfR c (.node id d lo hi (k :: ks)) = true := by
  rw [wfR, hsh]; simp [hd, wfHeadR, hh, hk, hn]

theorem wfSeqR1 {c : Cat} {a : Ast} (ha : wfR c a = true) : wfSeqR [c] [a] = true := by simp [wfSeqR, ha]
theorem wfSeqR2 {c1 c2 : Cat} {a b : Ast} (ha : wfR c1 a = true) (hb : wfR c2 b = true) :
    wfSeqR [c1, c2] [a, b] = true := by simp [wfSeqR, ha, hb]
theorem wfSeqR3 {c1 c2 c3 : Cat} {a b c : Ast} (ha : wfR c1 a = true) (hb : wfR c2 b = true) (hc : wfR c3 c = true) :
    wfSeqR [c1, c2, c3] [a, b, c] = true := by simp [wfSeqR, ha, hb, hc]
theorem wfSeqR4 {c1 c2 c3 c4 : Cat} {a b c d : Ast} (ha : wfR c1 a = true) (hb : wfR c2 b = true)
    (hc : wfR c3 c = true) (hd : wfR c4 d = true) : wfSeqR [c1, c2, c3, c4] [a, b, c, d] = true := by
  simp [wfSeqR, ha, hb, hc, hd]

theorem wfAllR_cons {c : Cat} {a : Ast} {l : List Ast} : wfAllR c (a :: l) = (wfR c a && wfAllR c l) := by
  rw [wfAllR]
theorem wfAllR_append {c : Cat} {b : Ast} : ∀ (l : List Ast), wfAllR c (l ++ [b]) = (wfAllR c l && wfR c b)
  | [] => by simp [wfAllR]
  | a :: l => by
    rw [List.cons_append, wfAllR_cons, wfAllR_cons, wfAllR_append l, Bool.and_assoc]

/-- change of category when the tables agree at the token of the root -/
theorem wfR_shape_eq {c c' : Cat} {t : Ast} (h : shapeR c t.id = none ∨ shapeR c' t.id = shapeR c t.id)
    (hw : wfR c t = true) : wfR c' t = true := by
  cases t with
  | node id d lo hi ks =>
    simp only [Ast.id] at h
    rw [wfR] at hw ⊢
    rcases h with h | h
    · rw [h] at hw; cases hw
    · rw [h]; exact hw

/-- a list of raw trees strips to a list of `wfR` trees of the same length -/
theorem allRaw_strip {c : Cat} : ∀ (l : List Ast), AllRaw c l →
    ∃ l', stripBracketsList l = some l' ∧ wfAllR c l' = true ∧ l'.length = l.length
  | [], _ => ⟨[], strip_list_nil, by simp [wfAllR], rfl⟩
  | a :: l, h => by
    rw [allRaw_cons] at h
    obtain ⟨a', ha, wa⟩ := h.1
    obtain ⟨l', hl, wl, hlen⟩ := allRaw_strip l h.2
    exact ⟨a' :: l', strip_list_cons ha hl, by rw [wfAllR_cons, wa, wl]; rfl, by simp [hlen]⟩

theorem rawWf_node {c : Cat} {id : Tok} {d : TokData} {lo hi : Int} {kids : List Ast} (hid : id ≠ .PUNC_PL)
    {ks' : List Ast} (hs : stripBracketsList kids = some ks') (hw : wfR c (.node id d lo hi ks') = true) :
    RawWf c (.node id d lo hi kids) :=
  ⟨.node id d lo hi ks', by rw [strip_node d lo hi kids hid, hs]; rfl, hw⟩

theorem wfR_setRange {c : Cat} {id : Tok} {d : TokData} {lo hi lo' hi' : Int} {ks : List Ast}
    (h : wfR c (.node id d lo hi ks) = true) : wfR c (.node id d lo' hi' ks) = true := by
  rw [wfR] at h ⊢; exact h

/-! ## facts about the tables, by cases on the token -/

theorem setop_facts : ∀ i : Tok, isSetOp i = true → i ≠ .DECART →
    shapeR .S i = some (.seq [.S, .S]) ∧ kindOf i = .op ∧ i ≠ .PUNC_PL := by
  intro i; cases i <;> simp +decide [isSetOp]
theorem predop_facts : ∀ i : Tok, isPredOp i = true →
    shapeR .L i = some (.seq [.S, .S]) ∧ kindOf i = .op ∧ i ≠ .PUNC_PL := by
  intro i; cases i <;> simp +decide [isPredOp]
theorem logicop_facts : ∀ i : Tok, isLogicOp i = true →
    shapeR .L i = some (.seq [.L, .L]) ∧ kindOf i = .op ∧ i ≠ .PUNC_PL := by
  intro i; cases i <;> simp +decide [isLogicOp]
theorem shapeR_L_B : ∀ i : Tok, shapeR .B i = shapeR .L i := by
  intro i; cases i <;> rfl
theorem shapeR_V_VP : ∀ i : Tok, shapeR .V i = none ∨ shapeR .VP i = shapeR .V i := by
  intro i; cases i <;> first | (left; rfl) | (right; rfl)
theorem shapeR_LS_ND : ∀ i : Tok, shapeR .LS i = none ∨ shapeR .ND i = shapeR .LS i := by
  intro i; cases i <;> first | (left; rfl) | (right; rfl)
theorem shapeR_S_LS : ∀ i : Tok, i ≠ .NT_FUNC_CALL → shapeR .S i = none ∨ shapeR .LS i = shapeR .S i := by
  intro i; cases i <;> first | (intro _; left; rfl) | (intro _; right; rfl) | (intro h; exact absurd rfl h)
theorem shapeR_L_LS : ∀ i : Tok, i ≠ .NT_FUNC_CALL → shapeR .L i = none ∨ shapeR .LS i = shapeR .L i := by
  intro i; cases i <;> first | (intro _; left; rfl) | (intro _; right; rfl) | (intro h; exact absurd rfl h)
theorem shapeR_FN_FP : ∀ i : Tok, shapeR .FN i = none ∨ shapeR .FP i = shapeR .FN i := by
  intro i; cases i <;> first | (left; rfl) | (right; rfl)
theorem shapeR_PN_FP : ∀ i : Tok, shapeR .PN i = none ∨ shapeR .FP i = shapeR .PN i := by
  intro i; cases i <;> first | (left; rfl) | (right; rfl)

theorem wfR_L_B {t : Ast} (h : wfR .L t = true) : wfR .B t = true :=
  wfR_shape_eq (Or.inr (shapeR_L_B t.id)) h
theorem wfAllR_L_B : ∀ {l : List Ast}, wfAllR .L l = true → wfAllR .B l = true
  | [], _ => by simp [wfAllR]
  | a :: l, h => by
    rw [wfAllR_cons] at h ⊢
    simp only [Bool.and_eq_true] at h ⊢
    exact ⟨wfR_L_B h.1, wfAllR_L_B h.2⟩
theorem wfR_V_VP {t : Ast} (h : wfR .V t = true) : wfR .VP t = true := wfR_shape_eq (shapeR_V_VP t.id) h
theorem wfR_LS_ND {t : Ast} (h : wfR .LS t = true) : wfR .ND t = true := wfR_shape_eq (shapeR_LS_ND t.id) h

/-- a call in a set or logic position is a call in a `logic_or_setexpr` position -/
theorem wfR_call_LS {c hc : Cat} {d : TokData} {lo hi : Int} {ks : List Ast}
    (hsh : shapeR c .NT_FUNC_CALL = some (.headAll hc 1 .S))
    (hfp : ∀ i : Tok, shapeR hc i = none ∨ shapeR .FP i = shapeR hc i)
    (h : wfR c (.node .NT_FUNC_CALL d lo hi ks) = true) : wfR .LS (.node .NT_FUNC_CALL d lo hi ks) = true := by
  rw [wfR, hsh] at h
  have e : shapeR .LS .NT_FUNC_CALL = some (.headAll .FP 1 .S) := rfl
  rw [wfR, e]
  simp only [Bool.and_eq_true] at h ⊢
  refine ⟨h.1, ?_⟩
  cases ks with
  | nil => have := h.2; simp [wfHeadR] at this
  | cons k ks =>
    have h2 := h.2
    rw [wfHeadR] at h2 ⊢
    simp only [Bool.and_eq_true] at h2 ⊢
    exact ⟨⟨wfR_shape_eq (hfp k.id) h2.1.1, h2.1.2⟩, h2.2⟩

theorem wfR_S_LS {t : Ast} (h : wfR .S t = true) : wfR .LS t = true := by
  cases t with
  | node id d lo hi ks =>
    by_cases hid : id = .NT_FUNC_CALL
    · subst hid; exact wfR_call_LS (c := .S) (hc := .FN) rfl shapeR_FN_FP h
    · exact wfR_shape_eq (shapeR_S_LS id hid) h
theorem wfR_L_LS {t : Ast} (h : wfR .L t = true) : wfR .LS t = true := by
  cases t with
  | node id d lo hi ks =>
    by_cases hid : id = .NT_FUNC_CALL
    · subst hid; exact wfR_call_LS (c := .L) (hc := .PN) rfl shapeR_PN_FP h
    · exact wfR_shape_eq (shapeR_L_LS id hid) h

/-! ## the semantic actions -/

theorem raw_removeBrackets {c : Cat} {e : Ast} (l r : LTok) (h : RawWf c e) : RawWf c (removeBrackets l e r) := by
  obtain ⟨t, ht, wt⟩ := h
  unfold removeBrackets setRange
  cases e with
  | node id d lo hi kids =>
    simp only [Ast.id, Ast.data, Ast.kids]
    by_cases hid : id = .PUNC_PL
    · subst hid
      refine ⟨t, ?_, wt⟩
      rw [strip_pl] at ht ⊢
      simp only []
      rw [strip_pl]
      exact ht
    · rw [strip_node d lo hi kids hid] at ht
      cases hk : stripBracketsList kids with
      | none => rw [hk] at ht; cases ht
      | some ks' =>
        rw [hk] at ht; simp only [Option.map_some, Option.some.injEq] at ht; subst ht
        refine ⟨.node id d l.lo r.hi ks', ?_, wfR_setRange wt⟩
        rw [strip_pl]
        simp only []
        rw [strip_node d l.lo r.hi kids hid, hk]; rfl

/-- `BinaryOperation` with a set operator other than `×` -/
theorem raw_binary_set {a b : Ast} {op : LTok} (ht : TokOK op) (hop : isSetOp op.id = true) (hd : op.id ≠ .DECART)
    (ha : RawWf .S a) (hb : RawWf .S b) : RawWf .S (binaryOperation a op b) := by
  obtain ⟨a', sa, wa⟩ := ha; obtain ⟨b', sb, wb⟩ := hb
  obtain ⟨f1, f2, f3⟩ := setop_facts op.id hop hd
  exact rawWf_node f3 (strip2 sa sb) (wfR_seq f1 (tok_op ht f2) (wfSeqR2 wa wb))

theorem decart_inv {d : TokData} {lo hi : Int} {ks : List Ast} (h : wfR .S (.node .DECART d lo hi ks) = true) :
    noData d = true ∧ 2 ≤ ks.length ∧ wfAllR .S ks = true := by
  have e : shapeR .S .DECART = some (.all 2 .S) := rfl
  rw [wfR, e] at h
  simpa [and_assoc] using h

/-- `Decartian` -/
theorem raw_decartian {a b : Ast} {op : LTok} (ht : TokOK op) (hop : op.id = .DECART)
    (ha : RawWf .S a) (hb : RawWf .S b) : RawWf .S (decartian a op b) := by
  obtain ⟨a', sa, wa⟩ := ha; obtain ⟨b', sb, wb⟩ := hb
  unfold decartian
  split
  · rename_i hid
    cases a with
    | node id d lo hi kids =>
      have hid' : id = .DECART := tok_beq_eq _ _ hid
      subst hid'
      simp only [Ast.id, Ast.data, Ast.lo, Ast.kids]
      rw [strip_node d lo hi kids (by decide)] at sa
      cases hk : stripBracketsList kids with
      | none => rw [hk] at sa; cases sa
      | some ks' =>
        rw [hk] at sa; simp only [Option.map_some, Option.some.injEq] at sa; subst sa
        obtain ⟨hd, hlen, hall⟩ := decart_inv wa
        refine rawWf_node (by decide) (strip_list_append hk sb) ?_
        exact wfR_all (mn := 2) (c' := .S) rfl hd (by simp; omega) (by rw [wfAllR_append, hall, wb]; rfl)
  · unfold binaryOperation
    have hn : noData op.data = true := tok_op ht (by rw [hop]; rfl)
    rw [hop]
    exact rawWf_node (by decide) (strip2 sa sb)
      (wfR_all (mn := 2) (c' := .S) rfl hn (by simp) (by simp [wfAllR, wa, wb]))

/-- `BinaryOperation` with a predicate symbol -/
theorem raw_binary_pred {a b : Ast} {op : LTok} (ht : TokOK op) (hop : isPredOp op.id = true)
    (ha : RawWf .S a) (hb : RawWf .S b) : RawWf .L (binaryOperation a op b) := by
  obtain ⟨a', sa, wa⟩ := ha; obtain ⟨b', sb, wb⟩ := hb
  obtain ⟨f1, f2, f3⟩ := predop_facts op.id hop
  exact rawWf_node f3 (strip2 sa sb) (wfR_seq f1 (tok_op ht f2) (wfSeqR2 wa wb))

/-- `BinaryOperation` with a connective -/
theorem raw_binary_logic {a b : Ast} {op : LTok} (ht : TokOK op) (hop : isLogicOp op.id = true)
    (ha : RawWf .L a) (hb : RawWf .L b) : RawWf .L (binaryOperation a op b) := by
  obtain ⟨a', sa, wa⟩ := ha; obtain ⟨b', sb, wb⟩ := hb
  obtain ⟨f1, f2, f3⟩ := logicop_facts op.id hop
  exact rawWf_node f3 (strip2 sa sb) (wfR_seq f1 (tok_op ht f2) (wfSeqR2 wa wb))

/-- `variable :∈ setexpr` / `variable := setexpr` (relaxed: a logic phrase until `SemanticCheck`) -/
theorem raw_binary_iter {v b : Ast} {op : LTok} (ht : TokOK op) (hop : op.id = .ITERATE ∨ op.id = .ASSIGN)
    (hv : RawWf .V v) (hb : RawWf .S b) : RawWf .L (binaryOperation v op b) := by
  obtain ⟨v', sv, wv⟩ := hv; obtain ⟨b', sb, wb⟩ := hb
  unfold binaryOperation
  rcases hop with h | h
  · have hn : noData op.data = true := tok_op ht (by rw [h]; rfl)
    rw [h]
    exact rawWf_node (by decide) (strip2 sv sb) (wfR_seq (cs := [.V, .S]) rfl hn (wfSeqR2 wv wb))
  · have hn : noData op.data = true := tok_op ht (by rw [h]; rfl)
    rw [h]
    exact rawWf_node (by decide) (strip2 sv sb) (wfR_seq (cs := [.V, .S]) rfl hn (wfSeqR2 wv wb))

theorem leaf_facts : ∀ i : Tok, (i = .LIT_INTEGER ∨ i = .LIT_EMPTYSET ∨ i = .LIT_INTSET ∨ i = .ID_GLOBAL ∨ i = .ID_LOCAL ∨
      i = .ID_RADICAL ∨ i = .ID_FUNCTION ∨ i = .ID_PREDICATE) →
    shapeR .S i = some .leaf ∧ kindOf i = .leaf ∧ i ≠ .PUNC_PL := by
  intro i h
  rcases h with h | h | h | h | h | h | h | h <;> subst h <;> exact ⟨rfl, rfl, by decide⟩

/-- leaves in a set position -/
theorem raw_leaf {t : LTok} (ht : TokOK t)
    (hid : t.id = .LIT_INTEGER ∨ t.id = .LIT_EMPTYSET ∨ t.id = .LIT_INTSET ∨ t.id = .ID_GLOBAL ∨ t.id = .ID_LOCAL ∨
      t.id = .ID_RADICAL ∨ t.id = .ID_FUNCTION ∨ t.id = .ID_PREDICATE) : RawWf .S (leaf t) := by
  obtain ⟨f1, f2, f3⟩ := leaf_facts t.id hid
  exact rawWf_node f3 strip_list_nil (wfR_leaf f1 (tok_leaf ht f2))

/-- a leaf of one identifier kind in the category that accepts exactly such leaves -/
theorem raw_leaf_cat {t : LTok} {c : Cat} (ht : TokOK t) (hk : kindOf t.id = .leaf) (hsh : shapeR c t.id = some .leaf)
    (hpl : t.id ≠ .PUNC_PL) : RawWf c (leaf t) :=
  rawWf_node hpl strip_list_nil (wfR_leaf hsh (tok_leaf ht hk))

/-- a local variable in a declaration position -/
theorem raw_leaf_decl {t : LTok} (ht : TokOK t) (hid : t.id = .ID_LOCAL) : RawWf .V (leaf t) :=
  raw_leaf_cat ht (by rw [hid]; rfl) (by rw [hid]; rfl) (by rw [hid]; decide)

/-- `FunctionCall` of a term function -/
theorem raw_call_S {t : LTok} {args : List Ast} {lo hi : Int} (ht : TokOK t) (hid : t.id = .ID_FUNCTION)
    (ha : AllRaw .S args) (hn : 1 ≤ args.length) :
    RawWf .S (.node .NT_FUNC_CALL .none lo hi (leaf t :: args)) := by
  obtain ⟨args', sargs, wargs, hlen⟩ := allRaw_strip args ha
  obtain ⟨l', sl, wl⟩ := raw_leaf_cat (c := .FN) ht (by rw [hid]; rfl) (by rw [hid]; rfl) (by rw [hid]; decide)
  exact rawWf_node (by decide) (strip_list_cons sl sargs)
    (wfR_headAll (h := .FN) (mn := 1) (c' := .S) rfl rfl wl (by omega) wargs)

/-- `FunctionCall` of a predicate -/
theorem raw_call_L {t : LTok} {args : List Ast} {lo hi : Int} (ht : TokOK t) (hid : t.id = .ID_PREDICATE)
    (ha : AllRaw .S args) (hn : 1 ≤ args.length) :
    RawWf .L (.node .NT_FUNC_CALL .none lo hi (leaf t :: args)) := by
  obtain ⟨args', sargs, wargs, hlen⟩ := allRaw_strip args ha
  obtain ⟨l', sl, wl⟩ := raw_leaf_cat (c := .PN) ht (by rw [hid]; rfl) (by rw [hid]; rfl) (by rw [hid]; decide)
  exact rawWf_node (by decide) (strip_list_cons sl sargs)
    (wfR_headAll (h := .PN) (mn := 1) (c' := .S) rfl rfl wl (by omega) wargs)

theorem textfn_facts : ∀ i : Tok, (i = .BOOL ∨ i = .DEBOOL ∨ i = .REDUCE ∨ i = .CARD ∨ i = .BOOLEAN) →
    shapeR .S i = some (.seq [.S]) ∧ kindOf i = .op ∧ i ≠ .PUNC_PL := by
  intro i h
  rcases h with h | h | h | h | h <;> subst h <;> exact ⟨rfl, rfl, by decide⟩
theorem proj_facts : ∀ i : Tok, (i = .BIGPR ∨ i = .SMALLPR) →
    shapeR .S i = some (.seqIdx [.S]) ∧ kindOf i = .idx ∧ i ≠ .PUNC_PL := by
  intro i h
  rcases h with h | h <;> subst h <;> exact ⟨rfl, rfl, by decide⟩

/-- `TextOperator` -/
theorem raw_textOperator {t rp : LTok} {e : Ast} (ht : TokOK t)
    (hid : t.id = .BOOL ∨ t.id = .DEBOOL ∨ t.id = .REDUCE ∨ t.id = .BIGPR ∨ t.id = .SMALLPR ∨ t.id = .CARD ∨ t.id = .BOOLEAN)
    (he : RawWf .S e) : RawWf .S (textOperator t e rp) := by
  obtain ⟨e', se, we⟩ := he
  unfold textOperator
  have hc : (t.id = .BOOL ∨ t.id = .DEBOOL ∨ t.id = .REDUCE ∨ t.id = .CARD ∨ t.id = .BOOLEAN) ∨
      (t.id = .BIGPR ∨ t.id = .SMALLPR) := by
    rcases hid with h | h | h | h | h | h | h <;> simp [h]
  rcases hc with h | h
  · obtain ⟨f1, f2, f3⟩ := textfn_facts t.id h
    exact rawWf_node f3 (strip1 se) (wfR_seq f1 (tok_op ht f2) (wfSeqR1 we))
  · obtain ⟨f1, f2, f3⟩ := proj_facts t.id h
    exact rawWf_node f3 (strip1 se) (wfR_seqIdx f1 (tok_idx ht f2) (wfSeqR1 we))

/-- `BOOLEAN boolean` -/
theorem raw_unary_boolean {t : LTok} {e : Ast} (ht : TokOK t) (hid : t.id = .BOOLEAN) (he : RawWf .S e) :
    RawWf .S (unaryOperation t e) := by
  obtain ⟨e', se, we⟩ := he
  unfold unaryOperation
  obtain ⟨f1, f2, f3⟩ := textfn_facts t.id (by simp [hid])
  exact rawWf_node f3 (strip1 se) (wfR_seq f1 (tok_op ht f2) (wfSeqR1 we))

/-- `NOT logic_no_binary` -/
theorem raw_unary_not {t : LTok} {e : Ast} (ht : TokOK t) (hid : t.id = .NOT) (he : RawWf .L e) :
    RawWf .L (unaryOperation t e) := by
  obtain ⟨e', se, we⟩ := he
  unfold unaryOperation
  have hn : noData t.data = true := tok_op ht (by rw [hid]; rfl)
  rw [hid]
  exact rawWf_node (by decide) (strip1 se) (wfR_seq (cs := [.L]) rfl hn (wfSeqR1 we))

/-- `FilterCall` -/
theorem raw_filter {t : LTok} {params : List Ast} {e : Ast} {lo hi : Int} (ht : TokOK t) (hid : t.id = .FILTER)
    (hp : AllRaw .S params) (hn : 1 ≤ params.length) (he : RawWf .S e) :
    RawWf .S (.node t.id t.data lo hi (params ++ [e])) := by
  obtain ⟨ps', sps, wps, hlen⟩ := allRaw_strip params hp
  obtain ⟨e', se, we⟩ := he
  have hx : indexData t.data = true := tok_idx ht (by rw [hid]; rfl)
  rw [hid]
  exact rawWf_node (by decide) (strip_list_append sps se)
    (wfR_allIdx (mn := 2) (c' := .S) rfl hx (by simp; omega) (by rw [wfAllR_append, wps, we]; rfl))

/-- `TermDeclaration` -/
theorem raw_declarative {v d p : Ast} {lo hi : Int} (hv : RawWf .V v) (hd : RawWf .S d) (hp : RawWf .L p) :
    RawWf .S (.node .NT_DECLARATIVE_EXPR .none lo hi [v, d, p]) := by
  obtain ⟨v', sv, wv⟩ := hv; obtain ⟨d', sd, wd⟩ := hd; obtain ⟨p', sp, wp⟩ := hp
  exact rawWf_node (by decide) (strip3 sv sd sp) (wfR_seq (cs := [.V, .S, .L]) rfl rfl (wfSeqR3 wv wd wp))

/-- `FullRecursion` -/
theorem raw_recursive_full {v d c s : Ast} {lo hi : Int} (hv : RawWf .V v) (hd : RawWf .S d) (hc : RawWf .L c)
    (hs : RawWf .S s) : RawWf .S (.node .NT_RECURSIVE_FULL .none lo hi [v, d, c, s]) := by
  obtain ⟨v', sv, wv⟩ := hv; obtain ⟨d', sd, wd⟩ := hd; obtain ⟨c', sc, wc⟩ := hc; obtain ⟨s', ss, ws⟩ := hs
  exact rawWf_node (by decide) (strip4 sv sd sc ss)
    (wfR_seq (cs := [.V, .S, .L, .S]) rfl rfl (wfSeqR4 wv wd wc ws))

/-- `ShortRecursion` -/
theorem raw_recursive_short {v d c : Ast} {lo hi : Int} (hv : RawWf .V v) (hd : RawWf .S d) (hc : RawWf .S c) :
    RawWf .S (.node .NT_RECURSIVE_SHORT .none lo hi [v, d, c]) := by
  obtain ⟨v', sv, wv⟩ := hv; obtain ⟨d', sd, wd⟩ := hd; obtain ⟨c', sc, wc⟩ := hc
  exact rawWf_node (by decide) (strip3 sv sd sc) (wfR_seq (cs := [.V, .S, .S]) rfl rfl (wfSeqR3 wv wd wc))

/-- `Imperative` -/
theorem raw_imperative {v : Ast} {bs : List Ast} {lo hi : Int} (hv : RawWf .S v) (hb : AllRaw .L bs)
    (hn : 1 ≤ bs.length) : RawWf .S (.node .NT_IMPERATIVE_EXPR .none lo hi (v :: bs)) := by
  obtain ⟨v', sv, wv⟩ := hv
  obtain ⟨bs', sbs, wbs, hlen⟩ := allRaw_strip bs hb
  exact rawWf_node (by decide) (strip_list_cons sv sbs)
    (wfR_headAll (h := .S) (mn := 1) (c' := .B) rfl rfl wv (by omega) (wfAllR_L_B wbs))

/-- `ReplaceBrackets(NT_ENUMERATION)` -/
theorem raw_enumeration {items : List Ast} {lo hi : Int} (hi' : AllRaw .S items) (hn : 1 ≤ items.length) :
    RawWf .S (.node .NT_ENUMERATION .none lo hi items) := by
  obtain ⟨is', sis, wis, hlen⟩ := allRaw_strip items hi'
  exact rawWf_node (by decide) sis (wfR_all (mn := 1) (c' := .S) rfl rfl (by omega) wis)

/-- `ReplaceBrackets(NT_TUPLE)` -/
theorem raw_tuple {items : List Ast} {lo hi : Int} (hi' : AllRaw .S items) (hn : 2 ≤ items.length) :
    RawWf .S (.node .NT_TUPLE .none lo hi items) := by
  obtain ⟨is', sis, wis, hlen⟩ := allRaw_strip items hi'
  exact rawWf_node (by decide) sis (wfR_all (mn := 2) (c' := .S) rfl rfl (by omega) wis)

theorem quant_facts : ∀ i : Tok, (i = .FORALL ∨ i = .EXISTS) →
    shapeR .L i = some (.seq [.VP, .S, .L]) ∧ kindOf i = .op ∧ i ≠ .PUNC_PL := by
  intro i h
  rcases h with h | h <;> subst h <;> exact ⟨rfl, rfl, by decide⟩

/-- `Quantifier` -/
theorem raw_quant {t : LTok} {decl d p : Ast} {lo hi : Int} (ht : TokOK t) (hid : t.id = .FORALL ∨ t.id = .EXISTS)
    (hv : RawWf .VP decl) (hd : RawWf .S d) (hp : RawWf .L p) :
    RawWf .L (.node t.id t.data lo hi [decl, d, p]) := by
  obtain ⟨v', sv, wv⟩ := hv; obtain ⟨d', sd, wd⟩ := hd; obtain ⟨p', sp, wp⟩ := hp
  obtain ⟨f1, f2, f3⟩ := quant_facts t.id hid
  exact rawWf_node f3 (strip3 sv sd sp) (wfR_seq f1 (tok_op ht f2) (wfSeqR3 wv wd wp))

theorem raw_de_of_d {v : Ast} (h : RawWf .V v) : RawWf .VP v := by
  obtain ⟨v', sv, wv⟩ := h; exact ⟨v', sv, wfR_V_VP wv⟩

/-- `NT_ENUM_DECL`: at least two variables -/
theorem raw_enumDecl {vs : List Ast} {lo hi : Int} (h : AllRaw .V vs) (h1 : 1 ≤ vs.length)
    (h2 : ∀ single, vs = [single] → False) : RawWf .VP (.node .NT_ENUM_DECL .none lo hi vs) := by
  obtain ⟨vs', svs, wvs, hlen⟩ := allRaw_strip vs h
  have h3 : 2 ≤ vs.length := by
    match vs, h1, h2 with
    | [], h1, _ => simp at h1
    | [x], _, h2 => exact absurd rfl (fun e => h2 x e)
    | _ :: _ :: _, _, _ => simp
  exact rawWf_node (by decide) svs (wfR_all (mn := 2) (c' := .V) rfl rfl (by omega) wvs)

/-! ## `TupleDeclaration` -/

theorem tuple_inv {d : TokData} {lo hi : Int} {ks : List Ast} (h : wfR .S (.node .NT_TUPLE d lo hi ks) = true) :
    noData d = true ∧ 2 ≤ ks.length ∧ wfAllR .S ks = true := by
  have e : shapeR .S .NT_TUPLE = some (.all 2 .S) := rfl
  rw [wfR, e] at h
  simpa [and_assoc] using h

theorem local_inv {d : TokData} {lo hi : Int} {ks : List Ast} (h : wfR .S (.node .ID_LOCAL d lo hi ks) = true) :
    ks = [] ∧ wfLeaf .ID_LOCAL d = true := by
  have e : shapeR .S .ID_LOCAL = some .leaf := rfl
  rw [wfR, e] at h
  simpa using h

theorem stripList_length : ∀ (l l' : List Ast), stripBracketsList l = some l' → l'.length = l.length
  | [], l', h => by rw [strip_list_nil] at h; cases h; rfl
  | k :: ks, l', h => by
    rw [stripBracketsList] at h
    cases e1 : stripBrackets k with
    | none => rw [e1] at h; cases h
    | some k' =>
      cases e2 : stripBracketsList ks with
      | none => rw [e1, e2] at h; cases h
      | some ks' =>
        rw [e1, e2] at h; cases h
        simp [stripList_length ks ks' e2]

mutual
theorem tupleDecl_wf : ∀ (a b a' : Ast), tupleDecl a = some b → stripBrackets a = some a' → wfR .S a' = true →
    wfR .V b = true
  | .node id d lo hi kids, b, a', h, hs, hw => by
    rw [tupleDecl] at h
    split at h
    · rename_i hid
      have hid' : id = .NT_TUPLE := tok_beq_eq _ _ hid
      subst hid'
      split at h
      · rename_i ks hks
        cases h
        rw [strip_node _ _ _ _ (by decide)] at hs
        cases hk : stripBracketsList kids with
        | none => rw [hk] at hs; cases hs
        | some ks' =>
          rw [hk] at hs; simp only [Option.map_some, Option.some.injEq] at hs; subst hs
          obtain ⟨hd, hlen, hall⟩ := tuple_inv hw
          obtain ⟨w1, w2⟩ := tupleDeclList_wf kids ks ks' hks hk hall
          exact wfR_all (mn := 2) (c' := .V) rfl hd (by omega) w1
      · cases h
    · split at h
      · rename_i hid
        have hid' : id = .ID_LOCAL := tok_beq_eq _ _ hid
        subst hid'
        split at h
        · rename_i ks hks
          cases h
          rw [strip_node _ _ _ _ (by decide)] at hs
          cases hk : stripBracketsList kids with
          | none => rw [hk] at hs; cases hs
          | some ks' =>
            rw [hk] at hs; simp only [Option.map_some, Option.some.injEq] at hs; subst hs
            obtain ⟨hnil, hleaf⟩ := local_inv hw
            subst hnil
            obtain ⟨w1, w2⟩ := tupleDeclList_wf kids ks [] hks hk (by simp [wfAllR])
            have : ks = [] := by
              cases ks with
              | nil => rfl
              | cons _ _ => simp at w2
            subst this
            exact wfR_leaf rfl hleaf
        · cases h
      · cases h
theorem tupleDeclList_wf : ∀ (l m l' : List Ast), tupleDeclList l = some m → stripBracketsList l = some l' →
    wfAllR .S l' = true → wfAllR .V m = true ∧ m.length = l'.length
  | [], m, l', h, hs, _ => by
    rw [tupleDeclList] at h; cases h
    rw [strip_list_nil] at hs; cases hs
    exact ⟨by simp [wfAllR], rfl⟩
  | k :: ks, m, l', h, hs, hw => by
    rw [tupleDeclList] at h
    split at h
    · rename_i k' ks' h1 h2
      cases h
      rw [stripBracketsList] at hs
      cases e1 : stripBrackets k with
      | none => rw [e1] at hs; cases hs
      | some k'' =>
        cases e2 : stripBracketsList ks with
        | none => rw [e1, e2] at hs; cases hs
        | some ks'' =>
          rw [e1, e2] at hs; cases hs
          rw [wfAllR_cons] at hw
          simp only [Bool.and_eq_true] at hw
          have wk := tupleDecl_wf k k' k'' h1 e1 hw.1
          obtain ⟨w1, w2⟩ := tupleDeclList_wf ks ks' ks'' h2 e2 hw.2
          exact ⟨by rw [wfAllR_cons, wk, w1]; rfl, by simp [w2]⟩
    · cases h
end

/-- `TupleDeclaration` of a raw tuple -/
theorem raw_tupleDecl {c : Cat} (hc : c = .S ∨ c = .L) {e e' : Ast} (he : RawWf c e) (hid : e.id = .NT_TUPLE)
    (h : tupleDecl e = some e') : RawWf .V e' := by
  obtain ⟨t, st, wt⟩ := he
  have wS : wfR .S t = true := by
    rcases hc with rfl | rfl
    · exact wt
    · -- a logic phrase is never a tuple
      cases e with
      | node id d lo hi kids =>
        simp only [Ast.id] at hid; subst hid
        rw [strip_node _ _ _ _ (by decide)] at st
        cases hk : stripBracketsList kids with
        | none => rw [hk] at st; cases st
        | some ks' =>
          rw [hk] at st; simp only [Option.map_some, Option.some.injEq] at st; subst st
          have e : shapeR .L .NT_TUPLE = none := rfl
          rw [wfR, e] at wt
          cases wt
  exact ⟨e', tupleDecl_noBrackets e e' h, tupleDecl_wf e e' t h st wS⟩

/-- a raw local variable (left of `:∈` / `:=`) is a declaration -/
theorem raw_local_decl {c : Cat} (hc : c = .S ∨ c = .L) {e : Ast} (he : RawWf c e) (hid : e.id = .ID_LOCAL) :
    RawWf .V e := by
  obtain ⟨t, st, wt⟩ := he
  cases e with
  | node id d lo hi kids =>
    simp only [Ast.id] at hid; subst hid
    rw [strip_node _ _ _ _ (by decide)] at st
    cases hk : stripBracketsList kids with
    | none => rw [hk] at st; cases st
    | some ks' =>
      rw [hk] at st; simp only [Option.map_some, Option.some.injEq] at st; subst st
      refine ⟨_, by rw [strip_node _ _ _ _ (by decide), hk]; rfl, ?_⟩
      rcases hc with rfl | rfl
      · obtain ⟨hnil, hleaf⟩ := local_inv wt
        subst hnil
        exact wfR_leaf rfl hleaf
      · have e : shapeR .L .ID_LOCAL = none := rfl
        rw [wfR, e] at wt
        cases wt

end CCVerif.ParserWf
