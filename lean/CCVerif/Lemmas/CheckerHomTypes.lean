import CCVerif.Lemmas.CheckerEqvTypes
/-!
Stability of the type algebra of the checker (`Model/Types.lean`) under a NON-INJECTIVE identification
of base names (`THom`), in the SUCCESS direction: compatible types stay compatible, a successful merge
stays a successful merge with the image result. `Z` and `R0` are fixed and reflected, radicals are kept
and reflected. The bijective case (equalities) is `CheckerEqvTypes`.

* `merge_inj` (M1): a successful merge of two types with the same image is a merge of equal types.
* `merge_stable` (M2): the stability test `c == b` of the recursion rounds is reflected.
-/
namespace CCVerif.Types
open CCVerif

/-- an identification of base names: not necessarily injective; `Z`, `R0` are fixed and reflected,
radicals are kept and reflected -/
structure THom where
  b : String → String
  bZ : ∀ x, (b x == Ty.intName) = (x == Ty.intName)
  bR0 : ∀ x, (b x == Ty.anyName) = (x == Ty.anyName)
  brad : ∀ x, isRadical (b x) = isRadical x

abbrev hR (t : THom) : Ty → Ty := renTy t.b
abbrev hRL (t : THom) : List Ty → List Ty := renTyL t.b
abbrev hRE (t : THom) : ExprTy → ExprTy := renE t.b

/-- like with like on traits: identified base names have the same traits -/
def TraitsHom (t : THom) (te te' : TraitEnv) : Prop := ∀ id, lookup te' (t.b id) = lookup te id

section
variable (t : THom)

theorem THom.any_of_eq {x y : String} (h : t.b x = t.b y) : (x == Ty.anyName) = (y == Ty.anyName) := by
  rw [← t.bR0 x, ← t.bR0 y, h]

theorem THom.int_of_eq {x y : String} (h : t.b x = t.b y) : (x == Ty.intName) = (y == Ty.intName) := by
  rw [← t.bZ x, ← t.bZ y, h]

theorem THom.b_int : t.b Ty.intName = Ty.intName := by
  have := t.bZ Ty.intName
  simpa using this

theorem THom.b_any : t.b Ty.anyName = Ty.anyName := by
  have := t.bR0 Ty.anyName
  simpa using this

theorem base_beq_base (x y : String) : (Ty.base x == Ty.base y) = (x == y) := by
  show Ty.beq _ _ = _
  rw [Ty.beq]

theorem base_beq_Z (x : String) : (Ty.base x == Ty.Z) = (x == Ty.intName) := base_beq_base x _

theorem hR_Z : hR t Ty.Z = Ty.Z := by
  show Ty.base (t.b Ty.intName) = _
  rw [t.b_int]; rfl

theorem hR_R0 : hR t Ty.R0 = Ty.R0 := by
  show Ty.base (t.b Ty.anyName) = _
  rw [t.b_any]; rfl

theorem hR_emptySet : hR t Ty.emptySet = Ty.emptySet := by
  show Ty.coll (hR t Ty.R0) = _
  rw [hR_R0]; rfl

theorem isAny_hR : ∀ a : Ty, (hR t a).isAny = a.isAny
  | .base id => t.bR0 id
  | .tuple _ => rfl
  | .coll _ => rfl

theorem isColl_hR : ∀ a : Ty, (hR t a).isColl = a.isColl
  | .base _ => rfl
  | .tuple _ => rfl
  | .coll _ => rfl

theorem tupleOf_hRL : ∀ cs : List Ty, hR t (Ty.tupleOf cs) = Ty.tupleOf (hRL t cs)
  | [] => rfl
  | [_] => rfl
  | _ :: _ :: _ => rfl

theorem length_hRL (cs : List Ty) : (hRL t cs).length = cs.length := by
  show (renTyL _ cs).length = _
  rw [renTyL_eq_map, List.length_map]

theorem isEmpty_hRL (cs : List Ty) : (hRL t cs).isEmpty = cs.isEmpty := by
  cases cs <;> rfl

theorem testIndex_hRL (cs : List Ty) (i : Int) : Ty.testIndex (hRL t cs) i = Ty.testIndex cs i := by
  unfold Ty.testIndex
  rw [length_hRL]

theorem component_hRL (cs : List Ty) (i : Int) :
    Ty.component? (hRL t cs) i = (Ty.component? cs i).map (hR t) := by
  unfold Ty.component?
  split
  · show (renTyL _ cs)[(i - 1).toNat]? = _
    rw [renTyL_eq_map, List.getElem?_map]
  · rfl

theorem beq_Z_hR : ∀ a : Ty, (hR t a == Ty.Z) = (a == Ty.Z)
  | .base x => by
    show (Ty.base (t.b x) == Ty.Z) = _
    rw [base_beq_Z, base_beq_Z, t.bZ]
  | .tuple _ => rfl
  | .coll _ => rfl

/-! ## traits -/

section traits
variable {te te' : TraitEnv} (hte : TraitsHom t te te')
include hte

theorem traitsFor_hR : ∀ a : Ty, traitsFor te' (hR t a) = traitsFor te a
  | .base id => by
    show (if t.b id == Ty.intName then _ else _) = _
    rw [t.bZ, hte id]
    rfl
  | .tuple _ => rfl
  | .coll _ => rfl

theorem isArithmetic_hR (a : Ty) : isArithmetic te' (hR t a) = isArithmetic te a := by
  unfold isArithmetic; rw [traitsFor_hR t hte]

theorem isOrdered_hR (a : Ty) : isOrdered te' (hR t a) = isOrdered te a := by
  unfold isOrdered; rw [traitsFor_hR t hte]

theorem convertsFromInt_hR (a : Ty) : convertsFromInt te' (hR t a) = convertsFromInt te a := by
  unfold convertsFromInt; rw [traitsFor_hR t hte]

theorem commonType_hR (a b : Ty) :
    commonType te' (hR t a) (hR t b) = (commonType te a b).map (hR t) := by
  unfold commonType
  rw [beq_Z_hR, beq_Z_hR, convertsFromInt_hR t hte, convertsFromInt_hR t hte]
  split
  · split <;> rfl
  · split
    · split <;> rfl
    · rfl

end traits

/-! ## M1: a successful merge of two types with the same image is a merge of equal types -/

/-- a successful merge of two distinct base names: one is `R0` or one is `Z` -/
theorem merge_base_cases (te : TraitEnv) {a b : String} {c : Ty}
    (h : merge te (.base a) (.base b) = some c) :
    (a = b ∧ c = .base a) ∨ (a ≠ b ∧ a = Ty.anyName ∧ c = .base b) ∨
    (a ≠ b ∧ a ≠ Ty.anyName ∧ b = Ty.anyName ∧ c = .base a) ∨
    (a ≠ b ∧ a ≠ Ty.anyName ∧ b ≠ Ty.anyName ∧ a = Ty.intName ∧ c = .base b) ∨
    (a ≠ b ∧ a ≠ Ty.anyName ∧ b ≠ Ty.anyName ∧ a ≠ Ty.intName ∧ b = Ty.intName ∧ c = .base a) := by
  simp only [merge] at h
  by_cases h1 : a = b
  · left
    rw [if_pos (by simpa using h1)] at h
    exact ⟨h1, by simpa using h.symm⟩
  · right
    rw [if_neg (by simpa using h1)] at h
    by_cases h2 : a = Ty.anyName
    · left
      rw [if_pos (by simpa using h2)] at h
      exact ⟨h1, h2, by simpa using h.symm⟩
    · right
      rw [if_neg (by simpa using h2)] at h
      by_cases h3 : b = Ty.anyName
      · left
        rw [if_pos (by simpa using h3)] at h
        exact ⟨h1, h2, h3, by simpa using h.symm⟩
      · right
        rw [if_neg (by simpa using h3)] at h
        unfold commonType at h
        rw [base_beq_Z, base_beq_Z] at h
        by_cases h4 : a = Ty.intName
        · left
          rw [if_pos (by simpa using h4)] at h
          split at h
          · exact ⟨h1, h2, h3, h4, by simpa using h.symm⟩
          · exact absurd h (by simp)
        · right
          rw [if_neg (by simpa using h4)] at h
          by_cases h5 : b = Ty.intName
          · rw [if_pos (by simpa using h5)] at h
            split at h
            · exact ⟨h1, h2, h3, h4, h5, by simpa using h.symm⟩
            · exact absurd h (by simp)
          · rw [if_neg (by simpa using h5)] at h
            exact absurd h (by simp)

theorem THom.eq_any_of_eq {x y : String} (h : t.b x = t.b y) (hx : x = Ty.anyName) : y = Ty.anyName := by
  have := t.any_of_eq h
  rw [hx] at this
  simpa using this.symm

theorem THom.eq_int_of_eq {x y : String} (h : t.b x = t.b y) (hx : x = Ty.intName) : y = Ty.intName := by
  have := t.int_of_eq h
  rw [hx] at this
  simpa using this.symm

mutual
theorem merge_inj (te : TraitEnv) : ∀ a b c : Ty, merge te a b = some c → hR t a = hR t b → a = b
  | .base a, .base b, c, hm, he => by
    simp only [renTy, Ty.base.injEq] at he
    rcases merge_base_cases te hm with ⟨h, _⟩ | ⟨h1, h2, _⟩ | ⟨h1, _, h3, _⟩ | ⟨h1, _, _, h4, _⟩ |
      ⟨h1, _, _, _, h5, _⟩
    · rw [h]
    · exact absurd (h2.trans (t.eq_any_of_eq he h2).symm) h1
    · exact absurd ((t.eq_any_of_eq he.symm h3).trans h3.symm) h1
    · exact absurd (h4.trans (t.eq_int_of_eq he h4).symm) h1
    · exact absurd ((t.eq_int_of_eq he.symm h5).trans h5.symm) h1
  | .base _, .coll _, _, _, he => by simp [renTy] at he
  | .base _, .tuple _, _, _, he => by simp [renTy] at he
  | .coll _, .base _, _, _, he => by simp [renTy] at he
  | .tuple _, .base _, _, _, he => by simp [renTy] at he
  | .coll _, .tuple _, _, _, he => by simp [renTy] at he
  | .tuple _, .coll _, _, _, he => by simp [renTy] at he
  | .coll a, .coll b, c, hm, he => by
    simp only [renTy, Ty.coll.injEq] at he
    simp only [merge] at hm
    cases hc : merge te a b with
    | none => rw [hc] at hm; exact absurd hm (by simp)
    | some c' => rw [merge_inj te a b c' hc he]
  | .tuple as, .tuple bs, c, hm, he => by
    simp only [renTy, Ty.tuple.injEq] at he
    simp only [merge] at hm
    cases hb : Ty.beqList as bs with
    | true => rw [Ty.eq_of_beqList as bs hb]
    | false =>
      rw [hb] at hm
      cases hc : mergeList te as bs with
      | none => rw [hc] at hm; exact absurd hm (by simp)
      | some cs => rw [mergeList_inj te as bs cs hc he]
theorem mergeList_inj (te : TraitEnv) : ∀ (as bs cs : List Ty),
    mergeList te as bs = some cs → hRL t as = hRL t bs → as = bs
  | [], [], _, _, _ => rfl
  | [], _ :: _, _, hm, _ => by simp [mergeList] at hm
  | _ :: _, [], _, hm, _ => by simp [mergeList] at hm
  | a :: as, b :: bs, cs, hm, he => by
    simp only [renTyL, List.cons.injEq] at he
    simp only [mergeList] at hm
    cases hc : merge te a b with
    | none => rw [hc] at hm; exact absurd hm (by simp)
    | some c =>
      rw [hc] at hm
      cases hcs : mergeList te as bs with
      | none => rw [hcs] at hm; exact absurd hm (by simp)
      | some cs' => rw [merge_inj te a b c hc he.1, mergeList_inj te as bs cs' hcs he.2]
end

/-! ## success direction: `AreCompatible`, `Merge` -/

section success
variable {te te' : TraitEnv} (hte : TraitsHom t te te')
include hte
set_option linter.unusedSectionVars false

mutual
theorem compat_hom : ∀ a b : Ty, compat te a b = true → compat te' (hR t a) (hR t b) = true
  | .base a, .base b, h => by
    have hc := commonType_hR t hte (.base a) (.base b)
    simp only [renTy] at hc
    simp only [renTy, compat] at h ⊢
    rw [t.bR0, t.bR0, hc]
    simp only [Bool.or_eq_true] at h ⊢
    rcases h with ((h | h) | h) | h
    · have : a = b := by simpa using h
      left; left; left; rw [this]; simp
    · left; left; right; exact h
    · left; right; exact h
    · right
      cases hh : commonType te (.base a) (.base b) with
      | none => rw [hh] at h; exact absurd h (by simp)
      | some _ => rfl
  | .base a, .tuple _, h => by
    simp only [renTy, compat] at h ⊢; rw [t.bR0]; exact h
  | .base a, .coll _, h => by
    simp only [renTy, compat] at h ⊢; rw [t.bR0]; exact h
  | .coll _, .base b, h => by
    simp only [renTy, compat] at h ⊢; rw [t.bR0]; exact h
  | .tuple _, .base b, h => by
    simp only [renTy, compat] at h ⊢; rw [t.bR0]; exact h
  | .coll a, .coll b, h => by
    simp only [renTy, compat] at h ⊢; exact compat_hom a b h
  | .tuple as, .tuple bs, h => by
    simp only [renTy, compat] at h ⊢; exact compatList_hom as bs h
  | .coll _, .tuple _, h => by simp [compat] at h
  | .tuple _, .coll _, h => by simp [compat] at h
theorem compatList_hom : ∀ as bs : List Ty,
    compatList te as bs = true → compatList te' (hRL t as) (hRL t bs) = true
  | [], [], _ => rfl
  | a :: as, b :: bs, h => by
    simp only [renTyL, compatList, Bool.and_eq_true] at h ⊢
    exact ⟨compat_hom a b h.1, compatList_hom as bs h.2⟩
  | [], _ :: _, h => by simp [compatList] at h
  | _ :: _, [], h => by simp [compatList] at h
end

theorem compatE_hom : ∀ a b : ExprTy,
    compatE te a b = some true → compatE te' (hRE t a) (hRE t b) = some true
  | .logic, .logic, _ => rfl
  | .logic, .ty _, h => by simp [compatE] at h
  | .ty a, .ty b, h => by
    simp only [renE, compatE, Option.some.injEq] at h ⊢
    exact compat_hom t hte a b h
  | .ty _, .logic, h => by simp [compatE] at h

mutual
theorem merge_hom : ∀ a b c : Ty, merge te a b = some c → merge te' (hR t a) (hR t b) = some (hR t c)
  | .base a, .base b, c, hm => by
    have hc := commonType_hR t hte (.base a) (.base b)
    simp only [renTy] at hc
    have hcases := merge_base_cases te hm
    simp only [renTy, merge]
    by_cases himg : t.b a = t.b b
    · rw [if_pos (by simpa using himg)]
      rcases hcases with ⟨_, h⟩ | ⟨_, _, h⟩ | ⟨_, _, _, h⟩ | ⟨_, _, _, _, h⟩ | ⟨_, _, _, _, _, h⟩ <;>
        rw [h] <;> simp only [renTy] <;> first | rfl | rw [himg]
    · have hab : a ≠ b := fun h => himg (by rw [h])
      rw [if_neg (by simpa using himg), t.bR0, t.bR0, hc]
      simp only [merge] at hm
      rw [if_neg (by simpa using hab)] at hm
      split
      · rename_i h1
        rw [if_pos h1] at hm
        rw [← Option.some.inj hm]; rfl
      · rename_i h1
        rw [if_neg h1] at hm
        split
        · rename_i h2
          rw [if_pos h2] at hm
          rw [← Option.some.inj hm]; rfl
        · rename_i h2
          rw [if_neg h2] at hm
          rw [hm]; rfl
  | .base a, .coll b, c, hm => by
    simp only [renTy, merge] at hm ⊢
    rw [t.bR0]
    split at hm
    · rename_i h; rw [if_pos h, ← Option.some.inj hm]; rfl
    · exact absurd hm (by simp)
  | .base a, .tuple bs, c, hm => by
    simp only [renTy, merge] at hm ⊢
    rw [t.bR0]
    split at hm
    · rename_i h; rw [if_pos h, ← Option.some.inj hm]; rfl
    · exact absurd hm (by simp)
  | .coll a, .base b, c, hm => by
    simp only [renTy, merge] at hm ⊢
    rw [t.bR0]
    split at hm
    · rename_i h; rw [if_pos h, ← Option.some.inj hm]; rfl
    · exact absurd hm (by simp)
  | .tuple as, .base b, c, hm => by
    simp only [renTy, merge] at hm ⊢
    rw [t.bR0]
    split at hm
    · rename_i h; rw [if_pos h, ← Option.some.inj hm]; rfl
    · exact absurd hm (by simp)
  | .coll a, .coll b, c, hm => by
    simp only [renTy, merge] at hm ⊢
    cases hc : merge te a b with
    | none => rw [hc] at hm; exact absurd hm (by simp)
    | some c' =>
      rw [hc] at hm
      rw [merge_hom a b c' hc, ← Option.some.inj hm]; rfl
  | .tuple as, .tuple bs, c, hm => by
    simp only [renTy, merge] at hm ⊢
    cases hb : Ty.beqList as bs with
    | true =>
      rw [hb] at hm
      rw [← Ty.eq_of_beqList as bs hb, Ty.beqList_refl, ← Option.some.inj hm]; rfl
    | false =>
      rw [hb] at hm
      cases hc : mergeList te as bs with
      | none => rw [hc] at hm; exact absurd hm (by simp)
      | some cs =>
        rw [hc] at hm
        have hb' : Ty.beqList (hRL t as) (hRL t bs) = false := by
          cases hbb : Ty.beqList (hRL t as) (hRL t bs) with
          | false => rfl
          | true =>
            have := mergeList_inj t te as bs cs hc (Ty.eq_of_beqList _ _ hbb)
            rw [this, Ty.beqList_refl] at hb
            exact absurd hb (by simp)
        rw [hb', mergeList_hom as bs cs hc, ← Option.some.inj hm]
        simp only [Bool.false_eq_true, if_false]
        rw [tupleOf_hRL]
  | .coll _, .tuple _, _, hm => by simp [merge] at hm
  | .tuple _, .coll _, _, hm => by simp [merge] at hm
theorem mergeList_hom : ∀ as bs cs : List Ty,
    mergeList te as bs = some cs → mergeList te' (hRL t as) (hRL t bs) = some (hRL t cs)
  | [], [], cs, hm => by
    simp only [mergeList, Option.some.injEq] at hm
    rw [← hm]; rfl
  | a :: as, b :: bs, cs, hm => by
    simp only [renTyL, mergeList] at hm ⊢
    cases hc : merge te a b with
    | none => rw [hc] at hm; exact absurd hm (by simp)
    | some c =>
      rw [hc] at hm
      cases hcs : mergeList te as bs with
      | none => rw [hcs] at hm; exact absurd hm (by simp)
      | some cs' =>
        rw [hcs] at hm
        rw [merge_hom a b c hc, mergeList_hom as bs cs' hcs, ← Option.some.inj hm]
        rfl
  | [], _ :: _, _, hm => by simp [mergeList] at hm
  | _ :: _, [], _, hm => by simp [mergeList] at hm
end

end success

/-! ## M2: the stability test of the recursion rounds is reflected -/

/-- `k` one-component tuples around a type -/
def wrapN : Nat → Ty → Ty
  | 0, x => x
  | k + 1, x => .tuple [wrapN k x]

theorem wrapN_succ' : ∀ (k : Nat) (x : Ty), wrapN (k + 1) x = wrapN k (.tuple [x])
  | 0, _ => rfl
  | k + 1, x => by
    show Ty.tuple [wrapN (k + 1) x] = Ty.tuple [wrapN k (.tuple [x])]
    rw [wrapN_succ' k x]

mutual
/-- number of constructors -/
def Ty.hsz : Ty → Nat
  | .base _ => 1
  | .coll b => 1 + Ty.hsz b
  | .tuple cs => 1 + Ty.hszL cs
def Ty.hszL : List Ty → Nat
  | [] => 0
  | c :: cs => Ty.hsz c + Ty.hszL cs
end

theorem hsz_wrapN : ∀ (k : Nat) (x : Ty), (wrapN k x).hsz = k + x.hsz
  | 0, _ => by simp [wrapN]
  | k + 1, x => by
    simp only [wrapN, Ty.hsz, Ty.hszL]
    rw [hsz_wrapN k x]; omega

theorem wrapN_fix {k : Nat} {x : Ty} (h : x = wrapN k x) : k = 0 := by
  have := congrArg Ty.hsz h
  rw [hsz_wrapN] at this
  omega

/-- a type whose image is `k` wrappers around `R0` is `k` wrappers around `R0` -/
theorem eq_wrapN_any : ∀ (k : Nat) (a : Ty) (x : String), x = Ty.anyName →
    hR t a = wrapN k (.base (t.b x)) → a = wrapN k (.base x)
  | 0, .base y, x, hx, h => by
    simp only [wrapN, renTy, Ty.base.injEq] at h ⊢
    rw [hx]
    exact t.eq_any_of_eq h.symm hx
  | 0, .coll _, _, _, h => by simp [wrapN, renTy] at h
  | 0, .tuple _, _, _, h => by simp [wrapN, renTy] at h
  | _ + 1, .base _, _, _, h => by simp [wrapN, renTy] at h
  | _ + 1, .coll _, _, _, h => by simp [wrapN, renTy] at h
  | k + 1, .tuple [], _, _, h => by simp [wrapN, renTy, renTyL] at h
  | k + 1, .tuple (_ :: _ :: _), _, _, h => by simp [wrapN, renTy, renTyL] at h
  | k + 1, .tuple [a0], x, hx, h => by
    simp only [wrapN, renTy, renTyL, Ty.tuple.injEq, List.cons.injEq, and_true] at h ⊢
    exact eq_wrapN_any k a0 x hx h

theorem mergeList_nil (te : TraitEnv) : ∀ as bs : List Ty, mergeList te as bs = some [] → as = [] ∧ bs = []
  | [], [], _ => ⟨rfl, rfl⟩
  | [], _ :: _, h => by simp [mergeList] at h
  | _ :: _, [], h => by simp [mergeList] at h
  | a :: as, b :: bs, h => by
    simp only [mergeList] at h
    cases hc : merge te a b with
    | none => rw [hc] at h; exact absurd h (by simp)
    | some c =>
      rw [hc] at h
      cases hcs : mergeList te as bs with
      | none => rw [hcs] at h; exact absurd h (by simp)
      | some cs' => rw [hcs] at h; exact absurd h (by simp)

mutual
theorem merge_wrap (te : TraitEnv) : ∀ (a b c : Ty) (k : Nat), merge te a b = some c →
    hR t c = wrapN k (hR t b) → c = wrapN k b
  | .base a, .base b, c, k, hm, he => by
    have hcases := merge_base_cases te hm
    have hk : k = 0 := by
      cases k with
      | zero => rfl
      | succ k =>
        rcases hcases with ⟨_, h⟩ | ⟨_, _, h⟩ | ⟨_, _, _, h⟩ | ⟨_, _, _, _, h⟩ | ⟨_, _, _, _, _, h⟩ <;>
          rw [h] at he <;> simp [wrapN, renTy] at he
    subst hk
    simp only [wrapN] at he ⊢
    rcases hcases with ⟨h1, h⟩ | ⟨_, _, h⟩ | ⟨_, h2, h3, h⟩ | ⟨_, _, _, _, h⟩ | ⟨h1, _, _, h4, h5, h⟩
    · rw [h, h1]
    · exact h
    · rw [h] at he
      simp only [renTy, Ty.base.injEq] at he
      exact absurd (t.eq_any_of_eq he.symm h3) h2
    · exact h
    · rw [h] at he
      simp only [renTy, Ty.base.injEq] at he
      exact absurd (t.eq_int_of_eq he.symm h5) h4
  | .base a, .coll b, c, k, hm, he => by
    simp only [merge] at hm
    split at hm
    · have hc : c = .coll b := (Option.some.inj hm).symm
      subst hc
      rw [wrapN_fix he]; rfl
    · exact absurd hm (by simp)
  | .base a, .tuple bs, c, k, hm, he => by
    simp only [merge] at hm
    split at hm
    · have hc : c = .tuple bs := (Option.some.inj hm).symm
      subst hc
      rw [wrapN_fix he]; rfl
    · exact absurd hm (by simp)
  | .coll a, .base b, c, k, hm, he => by
    simp only [merge] at hm
    split at hm
    · rename_i hb
      have hb : b = Ty.anyName := by simpa using hb
      exact eq_wrapN_any t k c b hb he
    · exact absurd hm (by simp)
  | .tuple as, .base b, c, k, hm, he => by
    simp only [merge] at hm
    split at hm
    · rename_i hb
      have hb : b = Ty.anyName := by simpa using hb
      exact eq_wrapN_any t k c b hb he
    · exact absurd hm (by simp)
  | .coll a, .coll b, c, k, hm, he => by
    simp only [merge] at hm
    cases hc : merge te a b with
    | none => rw [hc] at hm; exact absurd hm (by simp)
    | some c' =>
      rw [hc] at hm
      have hcc : c = .coll c' := (Option.some.inj hm).symm
      subst hcc
      cases k with
      | succ k => simp [wrapN, renTy] at he
      | zero =>
        simp only [wrapN, renTy, Ty.coll.injEq] at he ⊢
        exact merge_wrap te a b c' 0 hc he
  | .tuple as, .tuple bs, c, k, hm, he => by
    simp only [merge] at hm
    cases hb : Ty.beqList as bs with
    | true =>
      rw [hb] at hm
      have hcc : c = .tuple as := by simpa using hm.symm
      subst hcc
      have hab := Ty.eq_of_beqList as bs hb
      subst hab
      rw [wrapN_fix he]; rfl
    | false =>
      rw [hb] at hm
      cases hc : mergeList te as bs with
      | none => rw [hc] at hm; exact absurd hm (by simp)
      | some cs =>
        rw [hc] at hm
        have hcc : c = Ty.tupleOf cs := by simpa using hm.symm
        subst hcc
        -- the general (non-singleton) argument
        have gen : Ty.tupleOf cs = .tuple cs → Ty.tupleOf cs = wrapN k (.tuple bs) := by
          intro htup
          rw [htup] at he ⊢
          cases k with
          | zero =>
            simp only [wrapN, renTy, Ty.tuple.injEq] at he ⊢
            exact mergeList_wrap0 te as bs cs hc he
          | succ k =>
            exfalso
            simp only [wrapN, renTy, Ty.tuple.injEq] at he
            have hl := congrArg List.length he
            rw [length_hRL] at hl
            match cs, htup, hl with
            | [_], htup, _ =>
              simp only [Ty.tupleOf] at htup
              have := congrArg Ty.hsz htup
              simp only [Ty.hsz, Ty.hszL] at this
              omega
        match cs, hc, he, gen with
        | [], _, _, gen => exact gen rfl
        | _ :: _ :: _, _, _, gen => exact gen rfl
        | [c0], hc, he, _ =>
          obtain ⟨b0, hbs, hw⟩ := mergeList_wrap1 te as bs c0 hc
          subst hbs
          show c0 = wrapN k (.tuple [b0])
          rw [← wrapN_succ']
          apply hw
          rw [wrapN_succ']
          exact he
  | .coll _, .tuple _, _, _, hm, _ => by simp [merge] at hm
  | .tuple _, .coll _, _, _, hm, _ => by simp [merge] at hm
theorem mergeList_wrap0 (te : TraitEnv) : ∀ (as bs cs : List Ty), mergeList te as bs = some cs →
    hRL t cs = hRL t bs → cs = bs
  | [], [], cs, hm, _ => by
    simp only [mergeList, Option.some.injEq] at hm
    exact hm.symm
  | [], _ :: _, _, hm, _ => by simp [mergeList] at hm
  | _ :: _, [], _, hm, _ => by simp [mergeList] at hm
  | a :: as, b :: bs, cs, hm, he => by
    simp only [mergeList] at hm
    cases hc : merge te a b with
    | none => rw [hc] at hm; exact absurd hm (by simp)
    | some c =>
      rw [hc] at hm
      cases hcs : mergeList te as bs with
      | none => rw [hcs] at hm; exact absurd hm (by simp)
      | some cs' =>
        rw [hcs] at hm
        have : cs = c :: cs' := by simpa using hm.symm
        subst this
        simp only [renTyL, List.cons.injEq] at he
        rw [merge_wrap te a b c 0 hc he.1, mergeList_wrap0 te as bs cs' hcs he.2]
        rfl
theorem mergeList_wrap1 (te : TraitEnv) : ∀ (as bs : List Ty) (c0 : Ty), mergeList te as bs = some [c0] →
    ∃ b0, bs = [b0] ∧ ∀ k, hR t c0 = wrapN k (hR t b0) → c0 = wrapN k b0
  | [], [], _, hm => by simp [mergeList] at hm
  | [], _ :: _, _, hm => by simp [mergeList] at hm
  | _ :: _, [], _, hm => by simp [mergeList] at hm
  | a :: as, b :: bs, c0, hm => by
    simp only [mergeList] at hm
    cases hc : merge te a b with
    | none => rw [hc] at hm; exact absurd hm (by simp)
    | some c =>
      rw [hc] at hm
      cases hcs : mergeList te as bs with
      | none => rw [hcs] at hm; exact absurd hm (by simp)
      | some cs' =>
        rw [hcs] at hm
        have h2 : c = c0 ∧ cs' = [] := by simpa using hm
        obtain ⟨h2a, h2b⟩ := h2
        subst h2a
        subst h2b
        obtain ⟨_, hbs⟩ := mergeList_nil te as bs hcs
        subst hbs
        exact ⟨b, rfl, fun k he => merge_wrap te a b c k hc he⟩
end

theorem merge_stable (te : TraitEnv) (a b c : Ty) :
    merge te a b = some c → (c == b) = false → (hR t c == hR t b) = false := by
  intro hm hcb
  cases h : (hR t c == hR t b) with
  | false => rfl
  | true =>
    have := merge_wrap t te a b c 0 hm (Ty.beq_iff_eq.mp h)
    simp only [wrapN] at this
    rw [this] at hcb
    exact absurd hcb (by simp)

end

/-! ## non-vacuity: the identification of `X1` and `X2` -/

/-- `X2 ↦ X1`, everything else fixed -/
def THom.example : THom where
  b := fun x => if x = "X2" then "X1" else x
  bZ := fun x => by
    by_cases h : x = "X2"
    · subst h; decide
    · simp only [if_neg h]
  bR0 := fun x => by
    by_cases h : x = "X2"
    · subst h; decide
    · simp only [if_neg h]
  brad := fun x => by
    by_cases h : x = "X2"
    · subst h; decide
    · simp only [if_neg h]

example : hR THom.example (.tuple [.base "X1", .coll (.base "X2")]) = .tuple [.base "X1", .coll (.base "X1")] := by
  decide

example : TraitsHom THom.example [("X1", Traits.nominal), ("X2", Traits.nominal)] [("X1", Traits.nominal)] := by
  intro id
  by_cases h : id = "X2"
  · subst h; decide
  · show lookup _ (if id = "X2" then "X1" else id) = _
    rw [if_neg h]
    by_cases h1 : id = "X1"
    · subst h1; decide
    · simp [lookup, Ne.symm h1, Ne.symm h]

example : merge [] (.tuple [Ty.R0, .base "X2"]) (.tuple [.base "X1", Ty.R0]) = some (.tuple [.base "X1", .base "X2"]) := by
  decide

end CCVerif.Types
