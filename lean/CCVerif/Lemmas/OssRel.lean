import CCVerif.Model.Oss
import CCVerif.Lemmas.Oss
/-!
C19, freshness: what one re-entrant reaction chain (`TriggerSave` → `UpdateOnSrcChange` →
`UpdateHashes` → `OnCoreChange` → `CheckOperation` → `CallFor` → `UpdateSync` / `DataFor` → …)
does to the handles and documents, as a relation between the state before and after (`Rel`):
besides `Frame` — the effective name of every handle is kept, a handle that was touched ends with
`desc = src`, a document only moves towards "announced = content", and a handle whose core hash
changed has all its children marked outdated.
-/
namespace CCVerif.Oss

/-! ## small facts about the tables -/

/-- the name a handle stands for: the attached source, else the descriptor -/
def Handle.ed (h : Handle) : Option SrcName :=
  match h.src with
  | some n => some n
  | none => h.desc

theorem Handle.ed_of_src {h : Handle} {n : SrcName} (e : h.src = some n) : h.ed = some n := by
  simp [Handle.ed, e]

theorem Handle.ed_of_none {h : Handle} (e : h.src = none) : h.ed = h.desc := by
  simp [Handle.ed, e]

theorem Handle.empty_iff_ed {h : Handle} : h.empty = true ↔ h.ed = none := by
  cases h with
  | mk src desc hash =>
    cases src <;> cases desc <;> simp [Handle.empty, Handle.ed]

theorem Handle.not_empty_of_ed {h : Handle} {n : SrcName} (e : h.ed = some n) : h.empty = false := by
  cases hh : h.empty with
  | false => rfl
  | true => rw [Handle.empty_iff_ed.1 hh] at e; cases e

@[simp] theorem Handle.ed_default : ({} : Handle).ed = none := rfl

theorem find?_key_filter_self {β} (l : List (Pid × β)) (p : Pid) :
    (l.filter (·.1 != p)).find? (·.1 == p) = none := by
  rw [List.find?_eq_none]
  intro x hx
  have := (List.mem_filter.1 hx).2
  simpa using this

@[simp] theorem Dyn.handle_dropPid (d : Dyn) (p q : Pid) :
    (d.dropPid p).handle q = if q = p then {} else d.handle q := by
  unfold Dyn.dropPid Dyn.handle
  by_cases h : q = p
  · subst h
    simp only [find?_key_filter_self, if_true]; rfl
  · simp only [if_neg h]
    rw [find?_key_filter_ne _ _ _ h]

@[simp] theorem Dyn.op_dropPid (d : Dyn) (p q : Pid) :
    (d.dropPid p).op q = if q = p then {} else d.op q := by
  unfold Dyn.dropPid Dyn.op
  by_cases h : q = p
  · subst h
    simp only [find?_key_filter_self, if_true]; rfl
  · simp only [if_neg h]
    rw [find?_key_filter_ne _ _ _ h]

@[simp] theorem Dyn.source_dropPid (d : Dyn) (p : Pid) (n : SrcName) : (d.dropPid p).source n = d.source n := rfl
@[simp] theorem Dyn.dnd_dropPid (d : Dyn) (p : Pid) : (d.dropPid p).dnd = d.dnd := rfl
@[simp] theorem Dyn.nextName_dropPid (d : Dyn) (p : Pid) : (d.dropPid p).nextName = d.nextName := rfl
@[simp] theorem Dyn.fault_dropPid (d : Dyn) (p : Pid) : (d.dropPid p).fault = d.fault := rfl
@[simp] theorem Dyn.fault_setOp (d : Dyn) (p : Pid) (o : OpHandle) : (d.setOp p o).fault = d.fault := rfl
@[simp] theorem Dyn.fault_setHandle (d : Dyn) (p : Pid) (x : Handle) : (d.setHandle p x).fault = d.fault := rfl
@[simp] theorem Dyn.fault_setSource (d : Dyn) (x : Source) : (d.setSource x).fault = d.fault := rfl
@[simp] theorem Dyn.env_setOp (d : Dyn) (p : Pid) (o : OpHandle) : (d.setOp p o).env = d.env := rfl
@[simp] theorem Dyn.env_setHandle (d : Dyn) (p : Pid) (x : Handle) : (d.setHandle p x).env = d.env := rfl
@[simp] theorem Dyn.env_stuck (d : Dyn) (w : String) : (d.stuck w).env = d.env := rfl
@[simp] theorem Dyn.env_length_setSource (d : Dyn) (x : Source) : (d.setSource x).env.length = d.env.length := by
  simp [Dyn.setSource]

theorem Dyn.fault_stuck_ne (d : Dyn) (w : String) : (d.stuck w).fault ≠ none := by simp [Dyn.stuck]

theorem fuelOf_succ (d : Dyn) : ∃ k, fuelOf d = k + 1 := ⟨8 * (d.env.length + 2) - 1, by unfold fuelOf; omega⟩

/-- replacing the record of the document `n` by an updated copy -/
theorem Dyn.source_setSource_of {d : Dyn} {n : SrcName} {x y : Source} (hx : d.source n = some x)
    (hy : y.name = x.name) (m : SrcName) :
    (d.setSource y).source m = if m = n then some y else d.source m := by
  have hn := Dyn.source_name hx
  rw [Dyn.source_setSource]
  by_cases hm : m = n
  · subst hm
    simp [hy, hn, hx]
  · have : ¬ m = y.name := by rw [hy, hn]; exact hm
    simp [hm, this]

theorem src2pid_some {s : Struct} {d : Dyn} {n : SrcName} {p : Pid} (h : src2pid s d n = some p) :
    p ∈ s.storage ∧ (d.handle p).src = some n := by
  unfold src2pid at h
  exact ⟨List.mem_of_find?_eq_some h, by simpa using List.find?_some h⟩

theorem src2pid_none {s : Struct} {d : Dyn} {n : SrcName} (h : src2pid s d n = none) :
    ∀ q ∈ s.storage, (d.handle q).src ≠ some n := by
  unfold src2pid at h
  intro q hq
  have := List.find?_eq_none.1 h q hq
  simpa using this

/-! ## the reaction chain, one level unfolded -/

def annSource (x : Source) : Source := { x with saved := true, announced := x.content }
def openSource (x : Source) : Source := { x with opened := true, announced := x.content }
def newHashOf (d : Dyn) (p : Pid) (n : SrcName) : Content := ((d.source n).map (·.content)).getD (d.handle p).coreHash
def syncStage1 (d : Dyn) (p : Pid) (n : SrcName) : Dyn := d.setHandle p { d.handle p with coreHash := newHashOf d p n }
def syncStage2 (s : Struct) (o : Oracle) (f : Nat) (d : Dyn) (p : Pid) (n : SrcName) : Dyn :=
  if (d.handle p).coreHash != newHashOf d p n && d.dnd == 0 then coreChange s o f (syncStage1 d p n) p else syncStage1 d p n
def syncStage3 (d2 : Dyn) (p : Pid) (n : SrcName) : Dyn := d2.setHandle p { d2.handle p with desc := some n }
def openStage (d : Dyn) (p : Pid) (src : Source) : Dyn :=
  (d.setSource (openSource src)).setHandle p { d.handle p with src := some src.name }
def callStep (s : Struct) (o : Oracle) (f : Nat) (acc : Dyn × List Bool) (q : Pid) : Dyn × List Bool :=
  ((dataFor s o f (updateSync s o f acc.1 q) q).1, acc.2 ++ [(dataFor s o f (updateSync s o f acc.1 q) q).2.isSome])
def markStep (s : Struct) (o : Oracle) (f : Nat) (d : Dyn) (c : Pid) : Dyn :=
  if !s.isOperable c then d.stuck "operations.at"
  else (checkOp s o f d c).setOp c { (checkOp s o f d c).op c with outdated := true }

theorem announce_succ (s : Struct) (o : Oracle) (f : Nat) (d : Dyn) (n : SrcName) :
    announce s o (f + 1) d n =
      match d.source n with
      | none => d
      | some src =>
        if src.saved || !src.opened then d
        else if d.dnd > 0 then d.setSource (annSource src)
        else match src2pid s d n with
          | none => d.setSource (annSource src)
          | some p => syncPict s o f (d.setSource (annSource src)) p := by
  simp only [announce]; rfl

theorem syncPict_succ (s : Struct) (o : Oracle) (f : Nat) (d : Dyn) (p : Pid) :
    syncPict s o (f + 1) d p =
      match (d.handle p).src with
      | none => d.stuck "SyncData: null source"
      | some n => syncStage3 (syncStage2 s o f d p n) p n := by
  simp only [syncPict]; rfl

theorem coreChange_succ (s : Struct) (o : Oracle) (f : Nat) (d : Dyn) (p : Pid) :
    coreChange s o (f + 1) d p = (s.graph.childrenOf p).foldl (markStep s o f) d := by
  simp only [coreChange]; rfl

theorem updateSync_succ (s : Struct) (o : Oracle) (f : Nat) (d : Dyn) (p : Pid) :
    updateSync s o (f + 1) d p =
      match (d.handle p).src with
      | none => d
      | some n => announce s o f d n := by
  simp only [updateSync]; rfl

theorem dataFor_succ (s : Struct) (o : Oracle) (f : Nat) (d : Dyn) (p : Pid) :
    dataFor s o (f + 1) d p =
      if !s.contains p then (d, none)
      else if (d.handle p).empty then (d, none)
      else match (d.handle p).src with
        | some n => (d, (d.source n).map (·.content))
        | none =>
          match (d.handle p).desc.bind d.source with
          | none => (d, none)
          | some src => (syncPict s o f (openStage d p src) p, some src.content) := by
  simp only [dataFor]; rfl

theorem checkOp_succ (s : Struct) (o : Oracle) (f : Nat) (d : Dyn) (p : Pid) :
    checkOp s o (f + 1) d p = checkFinish o p ((s.graph.parentsOf p).foldl (callStep s o f) (d, [])) := by
  simp only [checkOp]; rfl

/-! ## the relation -/

/-- the part of the relation that holds step by step -/
structure Rel0 (d d' : Dyn) : Prop where
  frame : Frame d d'
  dnd : d'.dnd = d.dnd
  nextName : d'.nextName = d.nextName
  /-- the effective name of a handle never changes -/
  ed : ∀ q, (d'.handle q).ed = (d.handle q).ed
  /-- a document keeps its content, stays open / saved, and its announced content can only move
  to its content -/
  docs : ∀ n x, d.source n = some x → ∃ x', d'.source n = some x' ∧ x'.content = x.content ∧
    (x.opened = true → x'.opened = true) ∧ (x.saved = true → x'.saved = true) ∧
    (x'.announced = x.announced ∨ x'.announced = x.content)
  /-- a document that was closed and is open now has announced its content -/
  reopen : ∀ n x x', d.source n = some x → d'.source n = some x' → x.opened = false → x'.opened = true →
    x'.announced = x'.content

theorem Rel0.reopen_of_eq {d d' : Dyn} (h : ∀ n, d'.source n = d.source n) :
    ∀ n x x', d.source n = some x → d'.source n = some x' → x.opened = false → x'.opened = true →
      x'.announced = x'.content := by
  intro n x x' hx hx' hc ho
  rw [h, hx] at hx'; injection hx' with hx'; subst hx'
  rw [hc] at ho; cases ho

theorem Rel0.refl (d : Dyn) : Rel0 d d :=
  ⟨Frame.refl d, rfl, rfl, fun _ => rfl, fun _ x h => ⟨x, h, rfl, id, id, Or.inl rfl⟩, Rel0.reopen_of_eq (fun _ => rfl)⟩

theorem Rel0.trans {a b c : Dyn} (h1 : Rel0 a b) (h2 : Rel0 b c) : Rel0 a c := by
  refine ⟨h1.frame.trans h2.frame, h2.dnd.trans h1.dnd, h2.nextName.trans h1.nextName,
    fun q => (h2.ed q).trans (h1.ed q), ?_, ?_⟩
  · intro n x hx
    obtain ⟨x', hx', c1, o1, s1, a1⟩ := h1.docs n x hx
    obtain ⟨x'', hx'', c2, o2, s2, a2⟩ := h2.docs n x' hx'
    refine ⟨x'', hx'', c2.trans c1, fun h => o2 (o1 h), fun h => s2 (s1 h), ?_⟩
    rcases a2 with a2 | a2
    · rcases a1 with a1 | a1
      · exact Or.inl (a2.trans a1)
      · exact Or.inr (a2.trans a1)
    · exact Or.inr (a2.trans c1)
  · intro n x x'' hx hx'' hc ho
    obtain ⟨x', hx', _, _, _, _⟩ := h1.docs n x hx
    obtain ⟨y, hy, c2, _, _, a2⟩ := h2.docs n x' hx'
    rw [hx''] at hy; injection hy with hy; subst hy
    cases ho' : x'.opened with
    | true =>
      have := h1.reopen n x x' hx hx' hc ho'
      rcases a2 with a2 | a2
      · rw [a2, this, c2]
      · rw [a2, c2]
    | false => exact h2.reopen n x' x'' hx' hx'' ho' ho

theorem Rel0.stuck (d : Dyn) (w : String) : Rel0 d (d.stuck w) :=
  ⟨Frame.stuck d w, rfl, rfl, fun _ => rfl, fun _ x h => ⟨x, h, rfl, id, id, Or.inl rfl⟩, Rel0.reopen_of_eq (fun _ => rfl)⟩

theorem Rel0.setOp (d : Dyn) (p : Pid) (x : OpHandle) (h : Frame d (d.setOp p x)) : Rel0 d (d.setOp p x) :=
  ⟨h, rfl, rfl, fun _ => rfl, fun _ x h => ⟨x, h, rfl, id, id, Or.inl rfl⟩, Rel0.reopen_of_eq (fun _ => rfl)⟩

/-- a handle update that keeps the effective name (and an attached source) -/
theorem Rel0.setHandle (d : Dyn) (p : Pid) (x : Handle) (h : ∀ n, (d.handle p).src = some n → x.src = some n)
    (he : x.ed = (d.handle p).ed) : Rel0 d (d.setHandle p x) := by
  refine ⟨Frame.setHandle d p x h, rfl, rfl, ?_, fun _ x h => ⟨x, h, rfl, id, id, Or.inl rfl⟩,
    Rel0.reopen_of_eq (fun _ => rfl)⟩
  intro q
  rw [Dyn.handle_setHandle]
  split
  · rename_i e; subst e; exact he
  · rfl

/-- a document update that keeps name and content, opens / saves, and announces the content -/
theorem Rel0.setSource (d : Dyn) (n : SrcName) (x y : Source) (hx : d.source n = some x) (hn : y.name = x.name)
    (hc : y.content = x.content) (ho : x.opened = true → y.opened = true) (hs : x.saved = true → y.saved = true)
    (ha : y.announced = x.announced ∨ y.announced = x.content)
    (hr : x.opened = false → y.opened = true → y.announced = y.content) : Rel0 d (d.setSource y) := by
  have hnm := Dyn.source_name hx
  refine ⟨Frame.setSource d x y (by rw [hnm]; exact hx) hn hc, rfl, rfl, fun _ => rfl, ?_, ?_⟩
  · intro m z hz
    rw [Dyn.source_setSource_of hx hn]
    by_cases hm : m = n
    · subst hm
      rw [hx] at hz; injection hz with hz; subst hz
      exact ⟨y, by simp, hc, ho, hs, ha⟩
    · exact ⟨z, by simp [hm, hz], rfl, id, id, Or.inl rfl⟩
  · intro m z z' hz hz' hzc hzo
    rw [Dyn.source_setSource_of hx hn] at hz'
    by_cases hm : m = n
    · subst hm
      rw [hx] at hz; injection hz with hz; subst hz
      simp only [if_true] at hz'
      injection hz' with hz'; subst hz'
      exact hr hzc hzo
    · simp only [if_neg hm] at hz'
      rw [hz] at hz'; injection hz' with hz'; subst hz'
      rw [hzc] at hzo; cases hzo

theorem Rel0.foldl {α} (g : Dyn → α → Dyn) (hg : ∀ d x, Rel0 d (g d x)) : ∀ (l : List α) (d : Dyn), Rel0 d (l.foldl g d)
  | [], d => Rel0.refl d
  | x :: l, d => (hg d x).trans (Rel0.foldl g hg l (g d x))

/-- a handle was left alone or ends with `desc = src` -/
def SyncedOr (d d' : Dyn) : Prop :=
  ∀ q, d'.handle q = d.handle q ∨ ∃ n, (d'.handle q).src = some n ∧ (d'.handle q).desc = some n

theorem SyncedOr.refl (d : Dyn) : SyncedOr d d := fun _ => Or.inl rfl

theorem SyncedOr.trans {a b c : Dyn} (h1 : SyncedOr a b) (h2 : SyncedOr b c) : SyncedOr a c := by
  intro q
  rcases h2 q with e2 | e2
  · rcases h1 q with e1 | e1
    · exact Or.inl (e2.trans e1)
    · right; rw [e2]; exact e1
  · exact Or.inr e2

theorem SyncedOr.of_handle_eq {d d' : Dyn} (h : ∀ q, d'.handle q = d.handle q) : SyncedOr d d' :=
  fun q => Or.inl (h q)

/-- a handle keeps its core hash, or all its children end outdated -/
def ChgOr (s : Struct) (d d' : Dyn) : Prop :=
  ∀ q, (d'.handle q).coreHash = (d.handle q).coreHash ∨
    (d'.fault = none → ∀ c ∈ s.graph.childrenOf q, (d'.op c).outdated = true)

theorem ChgOr.refl (s : Struct) (d : Dyn) : ChgOr s d d := fun _ => Or.inl rfl

theorem ChgOr.trans {s : Struct} {a b c : Dyn} (h1 : ChgOr s a b) (h2 : ChgOr s b c) (f2 : Frame b c) : ChgOr s a c := by
  intro q
  rcases h2 q with e2 | e2
  · rcases h1 q with e1 | e1
    · exact Or.inl (e2.trans e1)
    · right
      intro hc x hx
      have hb : b.fault = none := by
        apply Classical.byContradiction
        intro hb
        exact f2.fault hb hc
      exact f2.outdated x (e1 hb x hx)
  · exact Or.inr e2

theorem ChgOr.of_handle_eq {s : Struct} {d d' : Dyn} (h : ∀ q, d'.handle q = d.handle q) : ChgOr s d d' :=
  fun q => Or.inl (by rw [h q])

/-- the relation between the states before and after a reaction chain -/
structure Rel (s : Struct) (d d' : Dyn) : Prop where
  r0 : Rel0 d d'
  synced : SyncedOr d d'
  chg : d.dnd = 0 → ChgOr s d d'

theorem Rel.refl (s : Struct) (d : Dyn) : Rel s d d := ⟨Rel0.refl d, SyncedOr.refl d, fun _ => ChgOr.refl s d⟩

theorem Rel.trans {s : Struct} {a b c : Dyn} (h1 : Rel s a b) (h2 : Rel s b c) : Rel s a c :=
  ⟨h1.r0.trans h2.r0, h1.synced.trans h2.synced,
   fun h => (h1.chg h).trans (h2.chg (by rw [h1.r0.dnd]; exact h)) h2.r0.frame⟩

/-- a step that leaves the handles alone -/
theorem Rel.of_r0 {s : Struct} {d d' : Dyn} (h : Rel0 d d') (hh : ∀ q, d'.handle q = d.handle q) : Rel s d d' :=
  ⟨h, SyncedOr.of_handle_eq hh, fun _ => ChgOr.of_handle_eq hh⟩

theorem Rel.stuck (s : Struct) (d : Dyn) (w : String) : Rel s d (d.stuck w) := Rel.of_r0 (Rel0.stuck d w) (fun _ => rfl)

theorem Rel.foldl {s : Struct} {α} (g : Dyn → α → Dyn) (hg : ∀ d x, Rel s d (g d x)) :
    ∀ (l : List α) (d : Dyn), Rel s d (l.foldl g d)
  | [], d => Rel.refl s d
  | x :: l, d => (hg d x).trans (Rel.foldl g hg l (g d x))

theorem Rel.foldl_fst {s : Struct} {α β} (g : Dyn × β → α → Dyn × β) (hg : ∀ acc x, Rel s acc.1 (g acc x).1) :
    ∀ (l : List α) (acc : Dyn × β), Rel s acc.1 (l.foldl g acc).1
  | [], acc => Rel.refl s acc.1
  | x :: l, acc => (hg acc x).trans (Rel.foldl_fst g hg l (g acc x))

theorem Rel.checkFinish (s : Struct) (o : Oracle) (p : Pid) (r : Dyn × List Bool) : Rel s r.1 (checkFinish o p r) := by
  unfold CCVerif.Oss.checkFinish
  dsimp only
  refine Rel.trans (c := _) (b := (if (r.2.length != 2 && (r.1.op p).type != .tba) = true then r.1.stuck "assert(ssize(args) == 2)" else r.1)) ?_ ?_
  · split
    · exact Rel.stuck _ _ _
    · exact Rel.refl _ _
  · generalize (if (r.2.length != 2 && (r.1.op p).type != .tba) = true then r.1.stuck "assert(ssize(args) == 2)" else r.1) = d1
    refine Rel.trans (b := (if ((d1.op p).type == .synt && (d1.op p).opts == .none && r.2.all id) = true then d1.stuck "*params" else d1)) ?_ ?_
    · split
      · exact Rel.stuck _ _ _
      · exact Rel.refl _ _
    · generalize (if ((d1.op p).type == .synt && (d1.op p).opts == .none && r.2.all id) = true then d1.stuck "*params" else d1) = d2
      exact Rel.of_r0 (Rel0.setOp _ _ _ (Frame.setBroken _ p _)) (fun _ => rfl)

/-- the children of every pictogram are operations (part of `StructInv`; also true while a leaf is
being erased) -/
def ChildrenOperable (s : Struct) : Prop := ∀ q c, c ∈ s.graph.childrenOf q → s.isOperable c = true

theorem reactions_rel (s : Struct) (o : Oracle) (hop : ChildrenOperable s) : ∀ f : Nat,
    (∀ d n, Rel s d (announce s o f d n)) ∧ (∀ d p, Rel s d (syncPict s o f d p)) ∧
    (∀ d p, Rel s d (coreChange s o f d p)) ∧ (∀ d p, Rel s d (updateSync s o f d p)) ∧
    (∀ d p, Rel s d (dataFor s o f d p).1) ∧ (∀ d p, Rel s d (checkOp s o f d p))
  | 0 => by
    refine ⟨?_, ?_, ?_, ?_, ?_, ?_⟩ <;> intro d x
    · simp only [announce]; exact Rel.stuck _ _ _
    · simp only [syncPict]; exact Rel.stuck _ _ _
    · simp only [coreChange]; exact Rel.stuck _ _ _
    · simp only [updateSync]; exact Rel.stuck _ _ _
    · simp only [dataFor]; exact Rel.stuck _ _ _
    · simp only [checkOp]; exact Rel.stuck _ _ _
  | f + 1 => by
    obtain ⟨ihA, ihS, ihC, ihU, ihD, ihK⟩ := reactions_rel s o hop f
    have hA : ∀ d n, Rel s d (announce s o (f + 1) d n) := by
      intro d n
      rw [announce_succ]
      cases hs : d.source n with
      | none => exact Rel.refl s d
      | some src =>
        dsimp only
        have h1 : Rel s d (d.setSource (annSource src)) :=
          Rel.of_r0 (Rel0.setSource d n src _ hs rfl rfl id (fun _ => rfl) (Or.inr rfl) (fun hc ho => by rw [show (annSource src).opened = src.opened from rfl, hc] at ho; cases ho)) (fun _ => rfl)
        split
        · exact Rel.refl s d
        · split
          · exact h1
          · split
            · exact h1
            · exact h1.trans (ihS _ _)
    have hS : ∀ d p, Rel s d (syncPict s o (f + 1) d p) := by
      intro d p
      rw [syncPict_succ]
      cases hsrc : (d.handle p).src with
      | none => exact Rel.stuck _ _ _
      | some n =>
        dsimp only
        have r1 : Rel0 d (syncStage1 d p n) := Rel0.setHandle d p _ (fun m hm => hm) (by simp [Handle.ed])
        have hsrc1 : ((syncStage1 d p n).handle p).src = some n := by simp [syncStage1, hsrc]
        have hoth1 : ∀ q, q ≠ p → (syncStage1 d p n).handle q = d.handle q := by
          intro q hq; simp [syncStage1, hq]
        have hstage2 : Rel0 (syncStage1 d p n) (syncStage2 s o f d p n) ∧
            (∀ q, q ≠ p → (syncStage2 s o f d p n).handle q = d.handle q ∨
              ∃ m, ((syncStage2 s o f d p n).handle q).src = some m ∧ ((syncStage2 s o f d p n).handle q).desc = some m) ∧
            (d.dnd = 0 → ∀ q, ((syncStage2 s o f d p n).handle q).coreHash = (d.handle q).coreHash ∨
              ((syncStage2 s o f d p n).fault = none →
                ∀ c ∈ s.graph.childrenOf q, ((syncStage2 s o f d p n).op c).outdated = true)) := by
          unfold syncStage2
          split
          · rename_i hch
            simp only [Bool.and_eq_true, bne_iff_ne, ne_eq, beq_iff_eq] at hch
            have rc := ihC (syncStage1 d p n) p
            refine ⟨rc.r0, ?_, ?_⟩
            · intro q hq
              rcases rc.synced q with e | e
              · left; rw [e, hoth1 q hq]
              · exact Or.inr e
            · intro hd0 q
              by_cases hq : q = p
              · subst hq
                right
                intro hf c hc
                cases f with
                | zero =>
                  exfalso
                  simp only [coreChange] at hf
                  exact Dyn.fault_stuck_ne _ _ hf
                | succ f' => exact coreChange_marks s o f' _ q c hc (hop q c hc)
              · rcases rc.chg (by rw [r1.dnd]; exact hd0) q with e | e
                · left; rw [e, hoth1 q hq]
                · exact Or.inr e
          · rename_i hch
            refine ⟨Rel0.refl _, fun q hq => Or.inl (hoth1 q hq), ?_⟩
            intro hd0 q
            left
            by_cases hq : q = p
            · subst hq
              have : (d.handle q).coreHash = newHashOf d q n := by
                rw [hd0] at hch
                simpa using hch
              simp [syncStage1, ← this]
            · rw [hoth1 q hq]
        obtain ⟨r2, s2, c2⟩ := hstage2
        generalize syncStage2 s o f d p n = d2 at r2 s2 c2
        have hsrc2 : (d2.handle p).src = some n := r2.frame.src p n hsrc1
        have r3 : Rel0 d2 (syncStage3 d2 p n) :=
          Rel0.setHandle d2 p _ (fun m hm => hm) (by simp [Handle.ed, hsrc2])
        refine ⟨(r1.trans r2).trans r3, ?_, ?_⟩
        · intro q
          by_cases hq : q = p
          · subst hq
            right
            exact ⟨n, by simp [syncStage3, hsrc2], by simp [syncStage3]⟩
          · rcases s2 q hq with e | e
            · left; simp [syncStage3, hq, e]
            · right; simpa [syncStage3, hq] using e
        · intro hd0 q
          rcases c2 hd0 q with e | e
          · left
            by_cases hq : q = p
            · subst hq; simpa [syncStage3] using e
            · simpa [syncStage3, hq] using e
          · right
            simpa [syncStage3] using e
    have hC : ∀ d p, Rel s d (coreChange s o (f + 1) d p) := by
      intro d p
      rw [coreChange_succ]
      apply Rel.foldl
      intro d c
      unfold markStep
      split
      · exact Rel.stuck _ _ _
      · exact (ihK d c).trans (Rel.of_r0 (Rel0.setOp _ _ _ (Frame.setOutdated _ c)) (fun _ => rfl))
    have hU : ∀ d p, Rel s d (updateSync s o (f + 1) d p) := by
      intro d p
      rw [updateSync_succ]
      split
      · exact Rel.refl s d
      · exact ihA _ _
    have hD : ∀ d p, Rel s d (dataFor s o (f + 1) d p).1 := by
      intro d p
      rw [dataFor_succ]
      split
      · exact Rel.refl s d
      · split
        · exact Rel.refl s d
        · cases hsrc : (d.handle p).src with
          | some n => exact Rel.refl s d
          | none =>
            dsimp only
            cases hb : (d.handle p).desc.bind d.source with
            | none => exact Rel.refl s d
            | some src =>
              dsimp only
              obtain ⟨m, hdesc, hm⟩ := Option.bind_eq_some_iff.1 hb
              have hn := Dyn.source_name hm
              have h1 : Rel0 d (d.setSource (openSource src)) :=
                Rel0.setSource d m src _ hm rfl rfl (fun _ => rfl) id (Or.inr rfl) (fun _ _ => rfl)
              have h2 : Rel0 (d.setSource (openSource src)) (openStage d p src) :=
                Rel0.setHandle _ p _ (fun k hk => by rw [Dyn.handle_setSource, hsrc] at hk; cases hk)
                  (by simp [Handle.ed, hsrc, hdesc, hn])
              have hoth2 : ∀ q, q ≠ p → (openStage d p src).handle q = d.handle q := by
                intro q hq; simp [openStage, hq]
              have hp2 : ((openStage d p src).handle p).src = some src.name ∧ ((openStage d p src).handle p).desc = some src.name ∧
                  ((openStage d p src).handle p).coreHash = (d.handle p).coreHash := by
                simp [openStage, hdesc, hn]
              have r3 := ihS (openStage d p src) p
              refine ⟨(h1.trans h2).trans r3.r0, ?_, ?_⟩
              · intro q
                rcases r3.synced q with e | e
                · by_cases hq : q = p
                  · subst hq
                    right
                    exact ⟨src.name, by rw [e]; exact hp2.1, by rw [e]; exact hp2.2.1⟩
                  · left; rw [e, hoth2 q hq]
                · exact Or.inr e
              · intro hd0 q
                have hd20 : (openStage d p src).dnd = 0 := by rw [h2.dnd, h1.dnd]; exact hd0
                rcases r3.chg hd20 q with e | e
                · left
                  rw [e]
                  by_cases hq : q = p
                  · subst hq; exact hp2.2.2
                  · rw [hoth2 q hq]
                · exact Or.inr e
    have hK : ∀ d p, Rel s d (checkOp s o (f + 1) d p) := by
      intro d p
      rw [checkOp_succ]
      have hfold := Rel.foldl_fst (s := s) (callStep s o f)
        (fun acc q => (ihU acc.1 q).trans (ihD _ q)) (s.graph.parentsOf p) (d, [])
      exact hfold.trans (Rel.checkFinish s o p _)
    exact ⟨hA, hS, hC, hU, hD, hK⟩

theorem Rel.fault_none {s : Struct} {d d' : Dyn} (h : Rel s d d') (hf : d'.fault = none) : d.fault = none := by
  apply Classical.byContradiction
  intro hd
  exact h.r0.frame.fault hd hf

theorem Rel0.fault_none {d d' : Dyn} (h : Rel0 d d') (hf : d'.fault = none) : d.fault = none := by
  apply Classical.byContradiction
  intro hd
  exact h.frame.fault hd hf

theorem Rel.markStep {s : Struct} {o : Oracle} {f : Nat} (hK : ∀ d p, Rel s d (checkOp s o f d p)) (d : Dyn) (c : Pid) :
    Rel s d (markStep s o f d c) := by
  unfold CCVerif.Oss.markStep
  split
  · exact Rel.stuck _ _ _
  · exact (hK d c).trans (Rel.of_r0 (Rel0.setOp _ _ _ (Frame.setOutdated _ c)) (fun _ => rfl))

theorem Rel.callStep {s : Struct} {o : Oracle} {f : Nat} (hU : ∀ d p, Rel s d (updateSync s o f d p))
    (hD : ∀ d p, Rel s d (dataFor s o f d p).1) (acc : Dyn × List Bool) (q : Pid) :
    Rel s acc.1 (callStep s o f acc q).1 :=
  (hU acc.1 q).trans (hD _ q)

/-- invariants through a fold whose steps are reaction chains: the final state has no fault, hence
no intermediate state has one -/
theorem foldl_inv_guard {s : Struct} {α} (P : Dyn → Prop) (g : Dyn → α → Dyn) (hrel : ∀ d x, Rel s d (g d x))
    (hg : ∀ d x, P d → (g d x).fault = none → P (g d x)) :
    ∀ (l : List α) (d : Dyn), P d → (l.foldl g d).fault = none → P (l.foldl g d)
  | [], _, h, _ => h
  | x :: l, d, h, hf => by
    have h1 : (g d x).fault = none := (Rel.foldl g hrel l (g d x)).fault_none hf
    exact foldl_inv_guard P g hrel hg l (g d x) (hg d x h h1) hf

theorem foldl_inv_guard_fst {s : Struct} {α β} (P : Dyn → Prop) (g : Dyn × β → α → Dyn × β)
    (hrel : ∀ acc x, Rel s acc.1 (g acc x).1) (hg : ∀ acc x, P acc.1 → (g acc x).1.fault = none → P (g acc x).1) :
    ∀ (l : List α) (acc : Dyn × β), P acc.1 → (l.foldl g acc).1.fault = none → P (l.foldl g acc).1
  | [], _, h, _ => h
  | x :: l, acc, h, hf => by
    have h1 : (g acc x).1.fault = none := (Rel.foldl_fst g hrel l (g acc x)).fault_none hf
    exact foldl_inv_guard_fst P g hrel hg l (g acc x) (hg acc x h h1) hf

theorem checkFinish_handle (o : Oracle) (p : Pid) (r : Dyn × List Bool) (q : Pid) :
    (checkFinish o p r).handle q = r.1.handle q := by
  unfold CCVerif.Oss.checkFinish
  dsimp only
  split <;> split <;> rfl

theorem checkFinish_source (o : Oracle) (p : Pid) (r : Dyn × List Bool) (n : SrcName) :
    (checkFinish o p r).source n = r.1.source n := by
  unfold CCVerif.Oss.checkFinish
  dsimp only
  split <;> split <;> rfl

end CCVerif.Oss
