import CCVerif.Lemmas.EvalFuelNorm
/-!
Fuel of the evaluator model, part 8: a CLOSED fuel bound for the normaliser on trees it does not rewrite.

`inert a`: no tuple pattern (`NT_TUPLE_DECL`), no enumerated declaration (`NT_ENUM_DECL`) and no call (`NT_FUNC_CALL`)
anywhere in `a` - nothing else is asked of the tree (any arity, any nesting, typed or not).  On such a tree
`Normalizer::Normalize` returns the tree itself and leaves its name tables alone, from the fuel `evDepth a` on.
-/
namespace CCVerif.Eval
open CCVerif.Syntax CCVerif.Spec CCVerif.Norm

/-- the three tokens the normaliser rewrites at -/
def rewriteTok (t : Tok) : Bool := t == .NT_TUPLE_DECL || t == .NT_ENUM_DECL || t == .NT_FUNC_CALL

mutual
def inert : Ast → Bool
  | .node t _ _ _ ks => !rewriteTok t && inertKids ks
def inertKids : List Ast → Bool
  | [] => true
  | k :: ks => inert k && inertKids ks
end

theorem inertKids_mem {k : Ast} : ∀ {ks : List Ast}, inertKids ks = true → k ∈ ks → inert k = true
  | [], _, h => by cases h
  | k' :: ks, he, h => by
    simp only [inertKids, Bool.and_eq_true] at he
    rcases List.mem_cons.mp h with rfl | h
    · exact he.1
    · exact inertKids_mem he.2 h

theorem inert_tok {a : Ast} (h : inert a = true) : rewriteTok a.id = false := by
  cases a with
  | node t d lo hi ks => simp only [inert, Bool.and_eq_true, Bool.not_eq_true'] at h; exact h.1

theorem inert_kid {a k : Ast} (h : inert a = true) (hk : k ∈ a.kids) : inert k = true := by
  cases a with
  | node t d lo hi ks =>
    simp only [inert, Bool.and_eq_true] at h
    exact inertKids_mem h.2 hk

theorem inert_not_tuple {a : Ast} (h : inert a = true) : (a.id == .NT_TUPLE_DECL) = false := by
  have := inert_tok h
  simp only [rewriteTok, Bool.or_eq_false_iff] at this
  exact this.1.1

theorem inert_not_enum {a : Ast} (h : inert a = true) : (a.id == .NT_ENUM_DECL) = false := by
  have := inert_tok h
  simp only [rewriteTok, Bool.or_eq_false_iff] at this
  exact this.1.2

theorem inert_not_call {a : Ast} (h : inert a = true) : (a.id == .NT_FUNC_CALL) = false := by
  have := inert_tok h
  simp only [rewriteTok, Bool.or_eq_false_iff] at this
  exact this.2

theorem imperativeStep_inert (r : Ast) (h : inert r = true) (i : Nat) (st : NState) : imperativeStep r i st = (r, st) := by
  unfold imperativeStep
  cases hk : r.kids[i]? with
  | none => rfl
  | some blk =>
    dsimp only
    split
    · rfl
    · cases hb : blk.kids with
      | nil => rfl
      | cons d rest =>
        dsimp only
        have hd : inert d = true := inert_kid (inert_kid h (List.mem_of_getElem? hk)) (by rw [hb]; simp)
        have : (d.id != .NT_TUPLE_DECL) = true := by simp only [bne, inert_not_tuple hd, Bool.not_false]
        rw [if_pos this]

theorem imperative_inert (r : Ast) (h : inert r = true) (st : NState) : imperative r st = (r, st) := by
  unfold imperative
  generalize List.range r.kids.length = l
  induction l with
  | nil => rfl
  | cons i l ih =>
    simp only [List.foldl_cons]
    have : (if (i == 0) = true then (r, st) else imperativeStep (r, st).1 i (r, st).2) = (r, st) := by
      split
      · rfl
      · exact imperativeStep_inert r h i st
    rw [this]
    exact ih

theorem recursion_inert (r : Ast) (h : inert r = true) (st : NState) : recursion r st = (r, st) := by
  unfold recursion
  split
  · rename_i decl init body hk
    have hd : inert decl = true := inert_kid h (by rw [hk]; simp)
    have : (decl.id != .NT_TUPLE_DECL) = true := by simp only [bne, inert_not_tuple hd, Bool.not_false]
    rw [if_pos this]
  · rename_i decl init cond body hk
    have hd : inert decl = true := inert_kid h (by rw [hk]; simp)
    have : (decl.id != .NT_TUPLE_DECL) = true := by simp only [bne, inert_not_tuple hd, Bool.not_false]
    rw [if_pos this]
  · rfl

theorem declarative_inert (r : Ast) (h : inert r = true) (st : NState) : declarative r st = (r, st) := by
  unfold declarative
  split
  · rename_i decl dom pred hk
    have hd : inert decl = true := inert_kid h (by rw [hk]; simp)
    have : (decl.id != .NT_TUPLE_DECL) = true := by simp only [bne, inert_not_tuple hd, Bool.not_false]
    rw [if_pos this]
  · rfl

/-- the rewriting step of `Normalize` does nothing on an inert tree -/
theorem normStep_inert (fs : Funcs) (N : Ast → NState → Option (Ast × NState)) (root : Ast) (st : NState)
    (h : inert root = true) : normStep fs N root st = some (root, st) := by
  unfold normStep
  split
  · cases hh : root.kids.head? with
    | none => rfl
    | some decl =>
      have hd : inert decl = true := inert_kid h (List.mem_of_mem_head? hh)
      simp only [inert_not_enum hd, Bool.false_eq_true, if_false, hh, inert_not_tuple hd]
  · cases hh : root.kids.head? with
    | none => rfl
    | some decl =>
      have hd : inert decl = true := inert_kid h (List.mem_of_mem_head? hh)
      simp only [inert_not_enum hd, Bool.false_eq_true, if_false, hh, inert_not_tuple hd]
  · rw [recursion_inert root h]
  · rw [recursion_inert root h]
  · rw [declarative_inert root h]
  · rw [imperative_inert root h]
  · rename_i hc
    have := inert_not_call h
    rw [hc] at this
    cases this
  · rfl

theorem setKids_kids' (a : Ast) : setKids a a.kids = a := by cases a; rfl

/-- **the normaliser answers an inert tree with the tree itself from the fuel `evDepth a` on** (a closed bound) -/
theorem normalize_inert (fs : Funcs) : ∀ (fuel : Nat) (a : Ast) (st : NState), inert a = true → evDepth a ≤ fuel →
    normalize fs fuel a st = some (a, st) := by
  intro fuel
  induction fuel with
  | zero => intro a st _ h; have := evDepth_pos a; omega
  | succ f ih =>
    intro a st hi hf
    rw [normalize_succ]
    simp only [normF, normStep_inert fs _ a st hi]
    have hk : normKids (normalize fs f) a.kids (some ([], st)) = a.kids.foldl (nstep fs f) (some ([], st)) := rfl
    rw [hk, nfold_some fs f a.kids [] st (fun k hk b => ih k b (inert_kid hi hk) (by have := evDepth_kid hk; omega))]
    simp only [List.nil_append, setKids_kids']

/-- the closed fuel bound of the normaliser (inert trees): the nesting depth of the expression -/
def normFuel (e : Ast) : Nat := evDepth e

theorem normalizeTree_inert (fs : Funcs) (e : Ast) (h : inert e = true) (fuel : Nat) (hf : normFuel e ≤ fuel) :
    normalizeTree fs fuel e = some e := by
  unfold Norm.normalizeTree
  rw [normalize_inert fs fuel e _ h hf]
  rfl

end CCVerif.Eval
