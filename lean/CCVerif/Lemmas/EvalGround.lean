import CCVerif.Model.Eval
import CCVerif.Spec.Denote
import CCVerif.Lemmas.EvalVal
/-! The ground integer / logic fragment of RSLang (no identifiers, no binders): unfolding
equations of the evaluator transcription `ev`, of the name collector and of the normaliser, and
the simulation of `ev` by the reference semantics `denote` on that fragment.  Used by the
`_partial` theorems of C01 and C02. -/
namespace CCVerif.Eval
open CCVerif.Syntax CCVerif.Spec CCVerif.Norm

def isArith (t : Tok) : Prop := t = .PLUS ∨ t = .MINUS ∨ t = .MULTIPLY
def isIntCmp (t : Tok) : Prop := t = .GREATER ∨ t = .LESSER ∨ t = .GREATER_OR_EQ ∨ t = .LESSER_OR_EQ
def isEq (t : Tok) : Prop := t = .EQUAL ∨ t = .NOTEQUAL
def isConn (t : Tok) : Prop := t = .AND ∨ t = .OR ∨ t = .IMPLICATION ∨ t = .EQUIVALENT

/-- exact integer operation of an arithmetic token -/
def arithOp (t : Tok) (x y : Int) : Int :=
  match t with
  | .PLUS => x + y
  | .MINUS => x - y
  | _ => x * y
def intCmpOp (t : Tok) (x y : Int) : Bool :=
  match t with
  | .LESSER => decide (x < y)
  | .GREATER_OR_EQ => decide (x ≥ y)
  | .LESSER_OR_EQ => decide (x ≤ y)
  | _ => decide (x > y)
def connOp (t : Tok) (b1 b2 : Bool) : Bool :=
  match t with
  | .OR => b1 || b2
  | .IMPLICATION => !b1 || b2
  | .EQUIVALENT => b1 == b2
  | _ => b1 && b2

/-- ground integer terms -/
inductive GInt : Ast → Prop where
  | lit (n lo hi) : GInt (.node .LIT_INTEGER (.int n) lo hi [])
  | arith {t a b} (d lo hi) : isArith t → GInt a → GInt b → GInt (.node t d lo hi [a, b])

/-- ground formulas over integer terms -/
inductive GLog : Ast → Prop where
  | cmp {t a b} (d lo hi) : isIntCmp t → GInt a → GInt b → GLog (.node t d lo hi [a, b])
  | eq {t a b} (d lo hi) : isEq t → GInt a → GInt b → GLog (.node t d lo hi [a, b])
  | not {a} (d lo hi) : GLog a → GLog (.node .NOT d lo hi [a])
  | conn {t a b} (d lo hi) : isConn t → GLog a → GLog b → GLog (.node t d lo hi [a, b])

/-- the derived `BEq Tok` decides equality -/
theorem tok_beq (a b : Tok) : (a == b) = decide (a = b) := by
  cases a <;> cases b <;> rfl

/-! ## unfolding equations of `ev` -/

theorem ev_zero (c : Ctx) (a : Ast) (p : Option Tok) (st : St) : ev c 0 a p st = .fail .outOfFuel st.iters := by
  simp [ev]

theorem ev_lit (c : Ctx) (fuel : Nat) (n lo hi : Int) (p : Option Tok) (st : St) :
    ev c (fuel + 1) (.node .LIT_INTEGER (.int n) lo hi []) p st = .ok (.val (.e n)) st := by
  simp [ev, dispatchesDefault, Ast.id, Ast.data]

theorem ev_arith {t : Tok} (ht : isArith t) (c : Ctx) (fuel : Nat) (a b : Ast) (d : TokData) (lo hi : Int)
    (p : Option Tok) (st : St) :
    ev c (fuel + 1) (.node t d lo hi [a, b]) p st =
      match (ev c fuel a (some t) st).asInt with
      | .fail f k => .fail f k
      | .ok x st1 =>
        match (ev c fuel b (some t) st1).asInt with
        | .fail f k => .fail f k
        | .ok y st2 =>
          if int32ok (arithOp t x y) then .ok (.val (.e (arithOp t x y))) st2
          else .fail (.err EID.typedOverflow lo) st2.iters := by
  rcases ht with rfl | rfl | rfl <;>
  · simp only [ev, dispatchesDefault, Ast.id, Ast.kids]
    simp [arithOp]
    rfl

theorem ev_intCmp {t : Tok} (ht : isIntCmp t) (c : Ctx) (fuel : Nat) (a b : Ast) (d : TokData) (lo hi : Int)
    (p : Option Tok) (st : St) :
    ev c (fuel + 1) (.node t d lo hi [a, b]) p st =
      match (ev c fuel a (some t) st).asInt with
      | .fail f k => .fail f k
      | .ok x st1 =>
        match (ev c fuel b (some t) st1).asInt with
        | .fail f k => .fail f k
        | .ok y st2 => .ok (.bool (intCmpOp t x y)) st2 := by
  rcases ht with rfl | rfl | rfl | rfl <;>
  · simp only [ev, dispatchesDefault, Ast.id, Ast.kids]
    simp [intCmpOp]
    rfl

theorem ev_eq {t : Tok} (ht : isEq t) (c : Ctx) (fuel : Nat) (a b : Ast) (d : TokData) (lo hi : Int)
    (p : Option Tok) (st : St) :
    ev c (fuel + 1) (.node t d lo hi [a, b]) p st =
      match ev c fuel a (some t) st with
      | .fail f k => .fail f k
      | .ok v1 st1 =>
        match ev c fuel b (some t) st1 with
        | .fail f k => .fail f k
        | .ok v2 st2 =>
          .ok (.bool ((match v1, v2 with
            | .val x, .val y => Val.cmp x y == .eq
            | .bool x, .bool y => x == y
            | _, _ => false) != (t == .NOTEQUAL))) st2 := by
  rcases ht with rfl | rfl <;>
  · simp only [ev, dispatchesDefault, Ast.id, Ast.kids]
    simp
    rfl

theorem ev_not (c : Ctx) (fuel : Nat) (a : Ast) (d : TokData) (lo hi : Int) (p : Option Tok) (st : St) :
    ev c (fuel + 1) (.node .NOT d lo hi [a]) p st =
      match (ev c fuel a (some .NOT) st).asBool with
      | .fail f k => .fail f k
      | .ok b st1 => .ok (.bool (!b)) st1 := by
  simp only [ev, dispatchesDefault, Ast.id, Ast.kids]
  simp
  rfl

theorem ev_conn {t : Tok} (ht : isConn t) (c : Ctx) (fuel : Nat) (a b : Ast) (d : TokData) (lo hi : Int)
    (p : Option Tok) (st : St) :
    ev c (fuel + 1) (.node t d lo hi [a, b]) p st =
      match (ev c fuel a (some t) st).asBool with
      | .fail f k => .fail f k
      | .ok b1 st1 =>
        if (t == .AND && !b1) || (t == .OR && b1) then .ok (.bool b1) st1
        else if t == .IMPLICATION && !b1 then .ok (.bool true) st1
        else
          match (ev c fuel b (some t) st1).asBool with
          | .fail f k => .fail f k
          | .ok b2 st2 => .ok (.bool (connOp t b1 b2)) st2 := by
  rcases ht with rfl | rfl | rfl | rfl <;>
  · simp only [ev, dispatchesDefault, Ast.id, Ast.kids]
    simp [connOp]
    rfl

end CCVerif.Eval

namespace CCVerif.Eval
open CCVerif.Syntax CCVerif.Spec CCVerif.Norm

/-! ## unfolding equations of `denote` -/

def dInt : Option SemVal → Option Int
  | some (.val (.e n)) => some n
  | _ => none
def dBool : Option SemVal → Option Bool
  | some (.bool b) => some b
  | _ => none
def dVal : Option SemVal → Option Val
  | some (.val v) => some v
  | _ => none

theorem denote_lit (env : SEnv) (fuel : Nat) (ρ : LEnv) (n lo hi : Int) :
    denote env (fuel + 1) ρ (.node .LIT_INTEGER (.int n) lo hi []) = some (.val (.e n)) := by
  simp [denote, Ast.id, Ast.data]

theorem denote_arith {t : Tok} (ht : isArith t) (env : SEnv) (fuel : Nat) (ρ : LEnv) (a b : Ast) (d : TokData) (lo hi : Int) :
    denote env (fuel + 1) ρ (.node t d lo hi [a, b]) =
      (dInt (denote env fuel ρ a)).bind fun x => (dInt (denote env fuel ρ b)).map fun y => SemVal.val (.e (arithOp t x y)) := by
  rcases ht with rfl | rfl | rfl <;>
  · simp only [denote, Ast.id, Ast.kids]
    simp only [List.getElem?_cons_zero, List.getElem?_cons_succ, Option.getD_some]
    generalize denote env fuel ρ a = ra
    generalize denote env fuel ρ b = rb
    rcases ra with _ | ((_ | _ | _) | _) <;> rcases rb with _ | ((_ | _ | _) | _) <;> simp [dInt, arithOp]

theorem denote_intCmp {t : Tok} (ht : isIntCmp t) (env : SEnv) (fuel : Nat) (ρ : LEnv) (a b : Ast) (d : TokData) (lo hi : Int) :
    denote env (fuel + 1) ρ (.node t d lo hi [a, b]) =
      (dInt (denote env fuel ρ a)).bind fun x => (dInt (denote env fuel ρ b)).map fun y => SemVal.bool (intCmpOp t x y) := by
  rcases ht with rfl | rfl | rfl | rfl <;>
  · simp only [denote, Ast.id, Ast.kids]
    simp only [List.getElem?_cons_zero, List.getElem?_cons_succ, Option.getD_some]
    generalize denote env fuel ρ a = ra
    generalize denote env fuel ρ b = rb
    rcases ra with _ | ((_ | _ | _) | _) <;> rcases rb with _ | ((_ | _ | _) | _) <;> simp [dInt, intCmpOp]

theorem denote_eq {t : Tok} (ht : isEq t) (env : SEnv) (fuel : Nat) (ρ : LEnv) (a b : Ast) (d : TokData) (lo hi : Int) :
    denote env (fuel + 1) ρ (.node t d lo hi [a, b]) =
      (dVal (denote env fuel ρ a)).bind fun x => (dVal (denote env fuel ρ b)).map fun y =>
        SemVal.bool (decide (x = y) != (t == .NOTEQUAL)) := by
  rcases ht with rfl | rfl <;>
  · simp only [denote, Ast.id, Ast.kids]
    simp only [List.getElem?_cons_zero, List.getElem?_cons_succ, Option.getD_some]
    generalize denote env fuel ρ a = ra
    generalize denote env fuel ρ b = rb
    have e1 : (Tok.EQUAL == Tok.NOTEQUAL) = false := by decide
    have e2 : (Tok.NOTEQUAL == Tok.NOTEQUAL) = true := by decide
    rcases ra with _ | (_ | _) <;> rcases rb with _ | (_ | _) <;> simp [dVal, e1, e2]

theorem denote_not (env : SEnv) (fuel : Nat) (ρ : LEnv) (a : Ast) (d : TokData) (lo hi : Int) :
    denote env (fuel + 1) ρ (.node .NOT d lo hi [a]) = (kNot (dBool (denote env fuel ρ a))).map SemVal.bool := by
  simp only [denote, Ast.id, Ast.kids]
  simp only [List.getElem?_cons_zero, Option.getD_some]
  generalize denote env fuel ρ a = ra
  rcases ra with _ | (_ | _) <;> simp [dBool, kNot]

/-- strong-Kleene table of a connective -/
def kConn (t : Tok) (x y : Option Bool) : Option Bool :=
  match t with
  | .OR => kOr x y
  | .IMPLICATION => kOr (kNot x) y
  | .EQUIVALENT => x.bind fun p => y.map fun q => p == q
  | _ => kAnd x y

theorem denote_conn {t : Tok} (ht : isConn t) (env : SEnv) (fuel : Nat) (ρ : LEnv) (a b : Ast) (d : TokData) (lo hi : Int) :
    denote env (fuel + 1) ρ (.node t d lo hi [a, b]) =
      (kConn t (dBool (denote env fuel ρ a)) (dBool (denote env fuel ρ b))).map SemVal.bool := by
  rcases ht with rfl | rfl | rfl | rfl <;>
  · simp only [denote, Ast.id, Ast.kids]
    simp only [List.getElem?_cons_zero, List.getElem?_cons_succ, Option.getD_some]
    generalize denote env fuel ρ a = ra
    generalize denote env fuel ρ b = rb
    rcases ra with _ | (_ | _) <;> rcases rb with _ | (_ | _) <;> simp [dBool, kConn]

/-! ## the overflow guard -/

/-- every arithmetic subterm has an exact value (per the reference semantics) inside `int32_t` -/
inductive Safe32 (env : SEnv) : Ast → Prop where
  | lit (n lo hi) : Safe32 env (.node .LIT_INTEGER (.int n) lo hi [])
  | arith {t a b} (d lo hi) : isArith t → Safe32 env a → Safe32 env b →
      (∀ fuel ρ x y, denote env fuel ρ a = some (.val (.e x)) → denote env fuel ρ b = some (.val (.e y)) →
        int32ok (arithOp t x y) = true) → Safe32 env (.node t d lo hi [a, b])
  | rel {t a b} (d lo hi) : isIntCmp t ∨ isEq t → Safe32 env a → Safe32 env b → Safe32 env (.node t d lo hi [a, b])
  | not {a} (d lo hi) : Safe32 env a → Safe32 env (.node .NOT d lo hi [a])
  | conn {t a b} (d lo hi) : isConn t → Safe32 env a → Safe32 env b → Safe32 env (.node t d lo hi [a, b])

theorem not_arith_of_rel {t : Tok} (h : isIntCmp t ∨ isEq t) : ¬ isArith t := by
  rcases h with (h | h | h | h) | (h | h) <;> subst h <;> simp [isArith]
theorem not_arith_of_conn {t : Tok} (h : isConn t) : ¬ isArith t := by
  rcases h with h | h | h | h <;> subst h <;> simp [isArith]
theorem not_rel_of_arith {t : Tok} (h : isArith t) : ¬ (isIntCmp t ∨ isEq t) := fun h' => not_arith_of_rel h' h
theorem not_conn_of_arith {t : Tok} (h : isArith t) : ¬ isConn t := fun h' => not_arith_of_conn h' h
theorem arith_ne_lit {t : Tok} (h : isArith t) : t ≠ .LIT_INTEGER := by
  rcases h with h | h | h <;> subst h <;> simp
theorem arith_ne_not {t : Tok} (h : isArith t) : t ≠ .NOT := by
  rcases h with h | h | h <;> subst h <;> simp

/-! ## simulation -/

/-- integer terms: `ev` returns the exact value, runs out of fuel, or overflows (and then the
guard `Safe32` fails: the documented error `typedOverflow`); it is never stuck and leaves the state alone -/
theorem sim_int (senv : SEnv) (c : Ctx) {a : Ast} (h : GInt a) : ∀ (fuel : Nat) (p : Option Tok) (st : St) (ρ : LEnv),
    (∃ n, ev c fuel a p st = .ok (.val (.e n)) st ∧ denote senv fuel ρ a = some (.val (.e n)))
    ∨ ev c fuel a p st = .fail .outOfFuel st.iters
    ∨ ((∃ pos, ev c fuel a p st = .fail (.err EID.typedOverflow pos) st.iters) ∧ ¬ Safe32 senv a) := by
  induction h with
  | lit n lo hi =>
    intro fuel p st ρ
    cases fuel with
    | zero => exact Or.inr (Or.inl (ev_zero _ _ _ _))
    | succ f => exact Or.inl ⟨n, ev_lit _ _ _ _ _ _ _, denote_lit _ _ _ _ _ _⟩
  | @arith t a b d lo hi ht ha hb iha ihb =>
    intro fuel p st ρ
    cases fuel with
    | zero => exact Or.inr (Or.inl (ev_zero _ _ _ _))
    | succ f =>
      rw [ev_arith ht, denote_arith ht]
      rcases iha f (some t) st ρ with ⟨x, hx, dx⟩ | hx | ⟨⟨px, hx⟩, sx⟩
      · rcases ihb f (some t) st ρ with ⟨y, hy, dy⟩ | hy | ⟨⟨py, hy⟩, sy⟩
        · simp only [hx, hy, dx, dy, R.asInt, dInt, Option.bind_some, Option.map_some]
          by_cases hok : int32ok (arithOp t x y) = true
          · exact Or.inl ⟨arithOp t x y, by simp [hok], rfl⟩
          · refine Or.inr (Or.inr ⟨⟨lo, by simp [hok]⟩, ?_⟩)
            intro hs
            cases hs with
            | arith _ _ _ _ _ _ hr => exact hok (hr f ρ x y dx dy)
            | rel _ _ _ hr => exact not_rel_of_arith ht hr
            | conn _ _ _ hr => exact not_conn_of_arith ht hr
        · exact Or.inr (Or.inl (by simp [hx, hy, R.asInt]))
        · refine Or.inr (Or.inr ⟨⟨py, by simp [hx, hy, R.asInt]⟩, ?_⟩)
          intro hs
          cases hs with
          | arith _ _ _ _ _ sb _ => exact sy sb
          | rel _ _ _ hr => exact not_rel_of_arith ht hr
          | conn _ _ _ hr => exact not_conn_of_arith ht hr
      · exact Or.inr (Or.inl (by simp [hx, R.asInt]))
      · refine Or.inr (Or.inr ⟨⟨px, by simp [hx, R.asInt]⟩, ?_⟩)
        intro hs
        cases hs with
        | arith _ _ _ _ sa _ _ => exact sx sa
        | rel _ _ _ hr => exact not_rel_of_arith ht hr
        | conn _ _ _ hr => exact not_conn_of_arith ht hr

theorem safe_left {env : SEnv} {t : Tok} {d : TokData} {lo hi : Int} {a b : Ast}
    (h : Safe32 env (.node t d lo hi [a, b])) : Safe32 env a := by
  cases h with
  | arith _ _ _ _ sa _ _ => exact sa
  | rel _ _ _ _ sa _ => exact sa
  | conn _ _ _ _ sa _ => exact sa
theorem safe_right {env : SEnv} {t : Tok} {d : TokData} {lo hi : Int} {a b : Ast}
    (h : Safe32 env (.node t d lo hi [a, b])) : Safe32 env b := by
  cases h with
  | arith _ _ _ _ _ sb _ => exact sb
  | rel _ _ _ _ _ sb => exact sb
  | conn _ _ _ _ _ sb => exact sb
theorem safe_not {env : SEnv} {d : TokData} {lo hi : Int} {a : Ast}
    (h : Safe32 env (.node .NOT d lo hi [a])) : Safe32 env a := by
  cases h with
  | not _ _ _ sa => exact sa

theorem cmp_beq_eq (a b : Val) : (Val.cmp a b == Cmp.eq) = decide (a = b) := by
  by_cases h : a = b
  · subst h; simp [Val.cmp_refl]
  · have : Val.cmp a b ≠ .eq := fun hc => h (Val.cmp_eq a b hc)
    simp [h, this]

/-- formulas: `ev` returns the truth value the (strong-Kleene) reference semantics assigns, runs
out of fuel, or reports `typedOverflow` for an arithmetic subterm -/
theorem sim_log (senv : SEnv) (c : Ctx) {a : Ast} (h : GLog a) : ∀ (fuel : Nat) (p : Option Tok) (st : St) (ρ : LEnv),
    (∃ b, ev c fuel a p st = .ok (.bool b) st ∧ denote senv fuel ρ a = some (.bool b))
    ∨ ev c fuel a p st = .fail .outOfFuel st.iters
    ∨ ((∃ pos, ev c fuel a p st = .fail (.err EID.typedOverflow pos) st.iters) ∧ ¬ Safe32 senv a) := by
  induction h with
  | @cmp t a b d lo hi ht ha hb =>
    intro fuel p st ρ
    cases fuel with
    | zero => exact Or.inr (Or.inl (ev_zero _ _ _ _))
    | succ f =>
      rw [ev_intCmp ht, denote_intCmp ht]
      rcases sim_int senv c ha f (some t) st ρ with ⟨x, hx, dx⟩ | hx | ⟨⟨px, hx⟩, sx⟩
      · rcases sim_int senv c hb f (some t) st ρ with ⟨y, hy, dy⟩ | hy | ⟨⟨py, hy⟩, sy⟩
        · exact Or.inl ⟨intCmpOp t x y, by simp [hx, hy, R.asInt], by simp [dx, dy, dInt]⟩
        · exact Or.inr (Or.inl (by simp [hx, hy, R.asInt]))
        · exact Or.inr (Or.inr ⟨⟨py, by simp [hx, hy, R.asInt]⟩, fun hs => sy (safe_right hs)⟩)
      · exact Or.inr (Or.inl (by simp [hx, R.asInt]))
      · exact Or.inr (Or.inr ⟨⟨px, by simp [hx, R.asInt]⟩, fun hs => sx (safe_left hs)⟩)
  | @eq t a b d lo hi ht ha hb =>
    intro fuel p st ρ
    cases fuel with
    | zero => exact Or.inr (Or.inl (ev_zero _ _ _ _))
    | succ f =>
      rw [ev_eq ht, denote_eq ht]
      rcases sim_int senv c ha f (some t) st ρ with ⟨x, hx, dx⟩ | hx | ⟨⟨px, hx⟩, sx⟩
      · rcases sim_int senv c hb f (some t) st ρ with ⟨y, hy, dy⟩ | hy | ⟨⟨py, hy⟩, sy⟩
        · exact Or.inl ⟨_, by simp only [hx, hy]; rfl, by simp [dx, dy, dVal, cmp_beq_eq]⟩
        · exact Or.inr (Or.inl (by simp [hx, hy]))
        · exact Or.inr (Or.inr ⟨⟨py, by simp [hx, hy]⟩, fun hs => sy (safe_right hs)⟩)
      · exact Or.inr (Or.inl (by simp [hx]))
      · exact Or.inr (Or.inr ⟨⟨px, by simp [hx]⟩, fun hs => sx (safe_left hs)⟩)
  | @not a d lo hi ha iha =>
    intro fuel p st ρ
    cases fuel with
    | zero => exact Or.inr (Or.inl (ev_zero _ _ _ _))
    | succ f =>
      rw [ev_not, denote_not]
      rcases iha f (some .NOT) st ρ with ⟨x, hx, dx⟩ | hx | ⟨⟨px, hx⟩, sx⟩
      · exact Or.inl ⟨!x, by simp [hx, R.asBool], by simp [dx, dBool, kNot]⟩
      · exact Or.inr (Or.inl (by simp [hx, R.asBool]))
      · exact Or.inr (Or.inr ⟨⟨px, by simp [hx, R.asBool]⟩, fun hs => sx (safe_not hs)⟩)
  | @conn t a b d lo hi ht ha hb iha ihb =>
    intro fuel p st ρ
    cases fuel with
    | zero => exact Or.inr (Or.inl (ev_zero _ _ _ _))
    | succ f =>
      rw [ev_conn ht, denote_conn ht]
      rcases iha f (some t) st ρ with ⟨x, hx, dx⟩ | hx | ⟨⟨px, hx⟩, sx⟩
      · rcases ihb f (some t) st ρ with ⟨y, hy, dy⟩ | hy | ⟨⟨py, hy⟩, sy⟩
        · refine Or.inl ?_
          rcases ht with rfl | rfl | rfl | rfl <;> cases x <;> cases y <;>
            simp [hx, hy, dx, dy, R.asBool, dBool, kConn, connOp, kAnd, kOr, kNot, tok_beq]
        · rcases ht with rfl | rfl | rfl | rfl <;> cases x <;>
            simp [hx, hy, dx, R.asBool, dBool, kConn, kAnd, kOr, kNot, tok_beq]
        · rcases ht with rfl | rfl | rfl | rfl <;> cases x <;>
            simp [hx, hy, dx, R.asBool, dBool, kConn, kAnd, kOr, kNot, tok_beq] <;>
            exact fun hs => sy (safe_right hs)
      · exact Or.inr (Or.inl (by simp [hx, R.asBool]))
      · exact Or.inr (Or.inr ⟨by simp [hx, R.asBool], fun hs => sx (safe_left hs)⟩)

/-! ## the normaliser and the name collector on the ground fragment -/

/-- tokens of the fragment that carry two operands -/
def isBin (t : Tok) : Prop := isArith t ∨ isIntCmp t ∨ isEq t ∨ isConn t

theorem normalize_zero (fs : Funcs) (a : Ast) (b : NState) : normalize fs 0 a b = none := by simp [normalize]

theorem normalize_lit (fs : Funcs) (fuel : Nat) (n lo hi : Int) (base : NState) :
    normalize fs (fuel + 1) (.node .LIT_INTEGER (.int n) lo hi []) base =
      some (.node .LIT_INTEGER (.int n) lo hi [], base) := by
  simp [normalize, Ast.id, Ast.kids, setKids]

theorem normalize_bin {t : Tok} (ht : isBin t) (fs : Funcs) (fuel : Nat) (a b : Ast) (d : TokData) (lo hi : Int) (base : NState) :
    normalize fs (fuel + 1) (.node t d lo hi [a, b]) base =
      match normalize fs fuel a base with
      | none => none
      | some (a', b1) =>
        match normalize fs fuel b b1 with
        | none => none
        | some (b', b2) => some (.node t d lo hi [a', b'], b2) := by
  rcases ht with (rfl | rfl | rfl) | (rfl | rfl | rfl | rfl) | (rfl | rfl) | (rfl | rfl | rfl | rfl) <;>
  · simp only [normalize, Ast.id, Ast.kids, List.foldl, setKids]
    generalize normalize fs fuel a base = ra
    cases ra with
    | none => simp
    | some r =>
      obtain ⟨r1, r2⟩ := r
      simp only []
      generalize normalize fs fuel b r2 = rb
      cases rb <;> simp

theorem normalize_not (fs : Funcs) (fuel : Nat) (a : Ast) (d : TokData) (lo hi : Int) (base : NState) :
    normalize fs (fuel + 1) (.node .NOT d lo hi [a]) base =
      match normalize fs fuel a base with
      | none => none
      | some (a', b1) => some (.node .NOT d lo hi [a'], b1) := by
  simp only [normalize, Ast.id, Ast.kids, List.foldl, setKids]
  generalize normalize fs fuel a base = ra
  cases ra <;> simp

theorem normalize_gint (fs : Funcs) {a : Ast} (h : GInt a) : ∀ fuel base,
    normalize fs fuel a base = none ∨ normalize fs fuel a base = some (a, base) := by
  induction h with
  | lit n lo hi =>
    intro fuel base
    cases fuel with
    | zero => exact Or.inl (normalize_zero _ _ _)
    | succ f => exact Or.inr (normalize_lit _ _ _ _ _ _)
  | @arith t a b d lo hi ht _ _ iha ihb =>
    intro fuel base
    cases fuel with
    | zero => exact Or.inl (normalize_zero _ _ _)
    | succ f =>
      rw [normalize_bin (Or.inl ht)]
      rcases iha f base with h1 | h1 <;> rcases ihb f base with h2 | h2 <;> simp [h1, h2]

theorem normalize_glog (fs : Funcs) {a : Ast} (h : GLog a) : ∀ fuel base,
    normalize fs fuel a base = none ∨ normalize fs fuel a base = some (a, base) := by
  induction h with
  | @cmp t a b d lo hi ht ha hb =>
    intro fuel base
    cases fuel with
    | zero => exact Or.inl (normalize_zero _ _ _)
    | succ f =>
      rw [normalize_bin (Or.inr (Or.inl ht))]
      rcases normalize_gint fs ha f base with h1 | h1 <;> rcases normalize_gint fs hb f base with h2 | h2 <;> simp [h1, h2]
  | @eq t a b d lo hi ht ha hb =>
    intro fuel base
    cases fuel with
    | zero => exact Or.inl (normalize_zero _ _ _)
    | succ f =>
      rw [normalize_bin (Or.inr (Or.inr (Or.inl ht)))]
      rcases normalize_gint fs ha f base with h1 | h1 <;> rcases normalize_gint fs hb f base with h2 | h2 <;> simp [h1, h2]
  | @not a d lo hi _ iha =>
    intro fuel base
    cases fuel with
    | zero => exact Or.inl (normalize_zero _ _ _)
    | succ f =>
      rw [normalize_not]
      rcases iha f base with h1 | h1 <;> simp [h1]
  | @conn t a b d lo hi ht _ _ iha ihb =>
    intro fuel base
    cases fuel with
    | zero => exact Or.inl (normalize_zero _ _ _)
    | succ f =>
      rw [normalize_bin (Or.inr (Or.inr (Or.inr ht)))]
      rcases iha f base with h1 | h1 <;> rcases ihb f base with h2 | h2 <;> simp [h1, h2]

theorem collect_zero (env : Env) (a : Ast) (nc : NC) : collect env 0 a nc = .fail .outOfFuel := by simp [collect]

theorem collect_lit (env : Env) (fuel : Nat) (n lo hi : Int) (nc : NC) :
    collect env (fuel + 1) (.node .LIT_INTEGER (.int n) lo hi []) nc = .ok [] false nc := by
  simp [collect, dispatchesDefault, isBinderNode, Ast.id, Ast.kids, tok_beq]

theorem collect_bin {t : Tok} (ht : isBin t) (env : Env) (fuel : Nat) (a b : Ast) (d : TokData) (lo hi : Int) (nc : NC) :
    collect env (fuel + 1) (.node t d lo hi [a, b]) nc =
      match collect env fuel a nc with
      | .fail f => .fail f
      | .ok vs _ nc1 =>
        match collect env fuel b nc1 with
        | .fail f => .fail f
        | .ok vs2 _ nc2 => .ok (vs ++ vs2) (!(vs ++ vs2).isEmpty) nc2 := by
  rcases ht with (rfl | rfl | rfl) | (rfl | rfl | rfl | rfl) | (rfl | rfl) | (rfl | rfl | rfl | rfl) <;>
  · simp only [collect, dispatchesDefault, isBinderNode, Ast.id, Ast.kids, List.foldl, tok_beq]
    generalize collect env fuel a nc = ra
    cases ra with
    | fail f => simp
    | ok vs al nc1 =>
      simp only []
      generalize collect env fuel b nc1 = rb
      cases rb <;> simp

theorem collect_not (env : Env) (fuel : Nat) (a : Ast) (d : TokData) (lo hi : Int) (nc : NC) :
    collect env (fuel + 1) (.node .NOT d lo hi [a]) nc =
      match collect env fuel a nc with
      | .fail f => .fail f
      | .ok vs _ nc1 => .ok vs (!vs.isEmpty) nc1 := by
  simp only [collect, dispatchesDefault, isBinderNode, Ast.id, Ast.kids, List.foldl, tok_beq]
  generalize collect env fuel a nc = ra
  cases ra <;> simp

theorem collect_gint (env : Env) {a : Ast} (h : GInt a) : ∀ fuel nc,
    collect env fuel a nc = .fail .outOfFuel ∨ collect env fuel a nc = .ok [] false nc := by
  induction h with
  | lit n lo hi =>
    intro fuel nc
    cases fuel with
    | zero => exact Or.inl (collect_zero _ _ _)
    | succ f => exact Or.inr (collect_lit _ _ _ _ _ _)
  | @arith t a b d lo hi ht _ _ iha ihb =>
    intro fuel nc
    cases fuel with
    | zero => exact Or.inl (collect_zero _ _ _)
    | succ f =>
      rw [collect_bin (Or.inl ht)]
      rcases iha f nc with h1 | h1 <;> rcases ihb f nc with h2 | h2 <;> simp [h1, h2]

theorem collect_glog (env : Env) {a : Ast} (h : GLog a) : ∀ fuel nc,
    collect env fuel a nc = .fail .outOfFuel ∨ collect env fuel a nc = .ok [] false nc := by
  induction h with
  | @cmp t a b d lo hi ht ha hb =>
    intro fuel nc
    cases fuel with
    | zero => exact Or.inl (collect_zero _ _ _)
    | succ f =>
      rw [collect_bin (Or.inr (Or.inl ht))]
      rcases collect_gint env ha f nc with h1 | h1 <;> rcases collect_gint env hb f nc with h2 | h2 <;> simp [h1, h2]
  | @eq t a b d lo hi ht ha hb =>
    intro fuel nc
    cases fuel with
    | zero => exact Or.inl (collect_zero _ _ _)
    | succ f =>
      rw [collect_bin (Or.inr (Or.inr (Or.inl ht)))]
      rcases collect_gint env ha f nc with h1 | h1 <;> rcases collect_gint env hb f nc with h2 | h2 <;> simp [h1, h2]
  | @not a d lo hi _ iha =>
    intro fuel nc
    cases fuel with
    | zero => exact Or.inl (collect_zero _ _ _)
    | succ f =>
      rw [collect_not]
      rcases iha f nc with h1 | h1 <;> simp [h1]
  | @conn t a b d lo hi ht _ _ iha ihb =>
    intro fuel nc
    cases fuel with
    | zero => exact Or.inl (collect_zero _ _ _)
    | succ f =>
      rw [collect_bin (Or.inr (Or.inr (Or.inr ht)))]
      rcases iha f nc with h1 | h1 <;> rcases ihb f nc with h2 | h2 <;> simp [h1, h2]

end CCVerif.Eval
