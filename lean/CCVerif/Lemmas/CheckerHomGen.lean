import CCVerif.Lemmas.SynthCorrectHom
/-!
C12, the SEMANTIC clause, generic level, RELATIVISED: `HomomorphicOn A` is `Homomorphic A` with an
admissibility predicate `Adm` on the name substitution and a carrier predicate `GoodD` on definitions
(for the real checker the substitution must fix the reserved names and respect the traits, and the
definition must be grammar-shaped). `QuotientOfOn`, `quotient_entries_on`, `quotient_fully_correct_on`
are the relativised copies of `QuotientOf`, `quotient_entries`, `quotient_fully_correct`.
-/
namespace CCVerif.SchemaGen
open CCVerif CCVerif.Graph

variable {D I : Type} {A : Analysis D I}

structure HomomorphicOn (A : Analysis D I) where
  Adm : (String → String) → Prop
  GoodD : D → Prop
  homD : (String → String) → D → D
  homI : (String → String) → I → I
  mentions_hom : ∀ φ d, Adm φ → GoodD d → A.mentions (homD φ d) = (A.mentions d).map φ
  ok_hom : ∀ φ i, A.ok i = true → A.ok (homI φ i) = true
  missing : ∀ (sk : Skel) (ctx : String → Option I) (c : Cst D) (m : String),
    m ∈ A.mentions c.defn → ctx m = none → A.ok (A.analyse sk ctx c) = false
  analyse_hom : ∀ (φ : String → String) (sk sk' : Skel) (ctx ctx' : String → Option I) (c : Cst D),
    Adm φ → GoodD c.defn → A.ok (A.analyse sk ctx c) = true →
    (∀ m ∈ A.mentions c.defn, ctx' (φ m) = (ctx m).map (homI φ)) →
    A.analyse sk' ctx' { c with alias := φ c.alias, defn := homD φ c.defn } = homI φ (A.analyse sk ctx c)

/-- every unconditional `Homomorphic` is one (Adm, GoodD := True) -/
def Homomorphic.toOn (H : Homomorphic A) : HomomorphicOn A where
  Adm := fun _ => True
  GoodD := fun _ => True
  homD := H.homD
  homI := H.homI
  mentions_hom := fun φ d _ _ => H.mentions_hom φ d
  ok_hom := H.ok_hom
  missing := H.missing
  analyse_hom := fun φ sk sk' ctx ctx' c _ _ => H.analyse_hom φ sk sk' ctx ctx' c

@[simp] theorem Homomorphic.toOn_homD (H : Homomorphic A) : H.toOn.homD = H.homD := rfl
@[simp] theorem Homomorphic.toOn_homI (H : Homomorphic A) : H.toOn.homI = H.homI := rfl
theorem Homomorphic.toOn_adm (H : Homomorphic A) (φ : String → String) : H.toOn.Adm φ := trivial
theorem Homomorphic.toOn_good (H : Homomorphic A) (d : D) : H.toOn.GoodD d := trivial

structure QuotientOfOn (A : Analysis D I) (H : HomomorphicOn A) (τ : Nat → Nat) (φ : String → String)
    (s s' : List (Cst D)) : Prop where
  adm : H.Adm φ
  good : ∀ c ∈ s, H.GoodD c.defn
  nodupU : (uids s').Nodup
  nodupA : (s'.map (·.alias)).Nodup
  img : ∀ c ∈ s, ∃ c' ∈ s', c'.uid = τ c.uid ∧ c'.alias = φ c.alias
  kept : ∀ c' ∈ s', ∃ c ∈ s, c' = ⟨τ c.uid, φ c.alias, c.kind, H.homD φ c.defn⟩
  like : ∀ c ∈ s, ∀ d ∈ s, τ c.uid = τ d.uid →
    H.homI φ (entryOf A s c.uid) = H.homI φ (entryOf A s d.uid)
  acyclic : ∃ rk : Nat → Nat, ∀ c' ∈ s', ∀ m ∈ A.mentions c'.defn, ∀ v',
    findAliasL s' m = some v' → rk v' < rk c'.uid

/-- the unconditional quotient is a relativised one -/
theorem QuotientOf.toOn {H : Homomorphic A} {τ : Nat → Nat} {φ : String → String} {s s' : List (Cst D)}
    (hq : QuotientOf A H τ φ s s') : QuotientOfOn A H.toOn τ φ s s' :=
  ⟨trivial, fun _ _ => trivial, hq.nodupU, hq.nodupA, hq.img, hq.kept, hq.like, hq.acyclic⟩

theorem quotient_val_on (hA : Lawful A) (hC : ContentOnly A) {H : HomomorphicOn A} {τ : Nat → Nat}
    {φ : String → String} {s s' : List (Cst D)} (hn : (uids s).Nodup) (hfc : FullyCorrect A s)
    (hq : QuotientOfOn A H τ φ s s') (rk : Nat → Nat)
    (hrk : ∀ c' ∈ s', ∀ m ∈ A.mentions c'.defn, ∀ v', findAliasL s' m = some v' → rk v' < rk c'.uid) :
    ∀ (n : Nat) (c0 : Cst D), c0 ∈ s → (⟨τ c0.uid, φ c0.alias, c0.kind, H.homD φ c0.defn⟩ : Cst D) ∈ s' →
      rk (τ c0.uid) < n → Val A s' (τ c0.uid) (H.homI φ (entryOf A s c0.uid)) := by
  intro n
  induction n with
  | zero => intro _ _ _ h; cases h
  | succ n ih =>
    intro c0 hc0 hc' hlt
    have hu : c0.uid ∈ uids s := mem_uids.2 ⟨c0, hc0, rfl⟩
    have hval : Val A s c0.uid (entryOf A s c0.uid) := (entryOf_final hA hn hu).val hA (hfc _ hu)
    obtain ⟨c, hc, hcu, jf, hd, hok, he⟩ := hval.inv
    have := eq_of_uid_eq hn hc hc0 hcu
    subst this
    rw [he] at hok
    have hgood : H.GoodD c.defn := hq.good c hc
    have hmen : A.mentions (H.homD φ c.defn) = (A.mentions c.defn).map φ :=
      H.mentions_hom φ c.defn hq.adm hgood
    -- every mention resolves, its image resolves to the image, which has the substituted entry
    have aux : ∀ m ∈ A.mentions c.defn, ∃ v, findAliasL s m = some v ∧ findAliasL s' (φ m) = some (τ v) ∧
        Val A s' (τ v) (H.homI φ (jf v)) := by
      intro m hm
      cases hf : findAliasL s m with
      | none =>
        have := H.missing (skelOf s) (ctxOf s jf) c m hm (by unfold ctxOf; rw [hf]; rfl)
        rw [this] at hok; cases hok
      | some v =>
        obtain ⟨d, hdm, rfl, rfl⟩ := findAliasL_mem hf
        obtain ⟨d', hd', hdu, hda⟩ := hq.img d hdm
        have hres : findAliasL s' (φ d.alias) = some (τ d.uid) := by
          rw [← hda, ← hdu]; exact findAliasL_of_mem hq.nodupA hd'
        obtain ⟨d0, hd0, e0⟩ := hq.kept d' hd'
        have hτ : τ d0.uid = τ d.uid := by rw [← hdu, e0]
        have hlt' : rk (τ d0.uid) < n := by
          have h1 := hrk _ hc' (φ d.alias)
            (by show φ d.alias ∈ A.mentions (H.homD φ c.defn)
                rw [hmen]; exact List.mem_map.2 ⟨_, hm, rfl⟩) _ hres
          rw [hτ]
          exact Nat.lt_of_lt_of_le h1 (Nat.le_of_lt_succ hlt)
        have hv := ih d0 hd0 (e0 ▸ hd') hlt'
        rw [hτ, hq.like d0 hd0 d hdm hτ] at hv
        have hj : jf d.uid = entryOf A s d.uid := (entryOf_eq hA hn (hd _ hm _ hf).final).symm
        exact ⟨d.uid, rfl, hres, by rw [hj]; exact hv⟩
    have hctx : ∀ m ∈ A.mentions c.defn,
        ctxOf s' (fun v' => entryOf A s' v') (φ m) = (ctxOf s jf m).map (H.homI φ) := by
      intro m hm
      obtain ⟨v, h1, h2, h3⟩ := aux m hm
      unfold ctxOf
      rw [h1, h2]
      simp only [Option.map_some]
      rw [entryOf_eq hA hq.nodupU h3.final]
    have heq : A.analyse (skelOf s') (ctxOf s' (fun v' => entryOf A s' v'))
        ⟨τ c.uid, φ c.alias, c.kind, H.homD φ c.defn⟩ = H.homI φ (A.analyse (skelOf s) (ctxOf s jf) c) := by
      rw [← H.analyse_hom φ (skelOf s) (skelOf s') (ctxOf s jf) _ c hq.adm hgood hok hctx]
      exact (hC.indep (skelOf s') (skelOf s') _ ⟨c.uid, φ c.alias, c.kind, H.homD φ c.defn⟩ (τ c.uid)).symm
    have := Val.mk (A := A) (s := s') (c := ⟨τ c.uid, φ c.alias, c.kind, H.homD φ c.defn⟩)
      (fun v' => entryOf A s' v') hc'
      (fun m' hm' v' hv' => by
        have hm'' : m' ∈ (A.mentions c.defn).map φ := by rw [← hmen]; exact hm'
        obtain ⟨m, hm, rfl⟩ := List.mem_map.1 hm''
        obtain ⟨v, _, h2, h3⟩ := aux m hm
        rw [h2] at hv'
        cases hv'
        show Val A s' (τ v) (entryOf A s' (τ v))
        rw [entryOf_eq hA hq.nodupU h3.final]
        exact h3)
      (by rw [heq]; exact H.ok_hom φ _ hok)
    rw [heq, ← he] at this
    exact this

/-- **quotient_entries_on (generic, relativised).** After an ADMISSIBLE identification of a store of GOOD
definitions that equates like with like and leaves an acyclic store, the from-scratch entry of the image
of every constituent of a fully correct store is its old entry with the names substituted. -/
theorem quotient_entries_on (hA : Lawful A) (hC : ContentOnly A) {H : HomomorphicOn A} {τ : Nat → Nat}
    {φ : String → String} {s s' : List (Cst D)} (hn : (uids s).Nodup) (hfc : FullyCorrect A s)
    (hq : QuotientOfOn A H τ φ s s') :
    ∀ c ∈ s, entryOf A s' (τ c.uid) = H.homI φ (entryOf A s c.uid) := by
  obtain ⟨rk, hrk⟩ := hq.acyclic
  intro c hc
  obtain ⟨c', hc', hcu, _⟩ := hq.img c hc
  obtain ⟨c0, hc0, e0⟩ := hq.kept c' hc'
  have hτ : τ c0.uid = τ c.uid := by rw [← hcu, e0]
  have hv := quotient_val_on hA hC hn hfc hq rk hrk (rk (τ c0.uid) + 1) c0 hc0 (e0 ▸ hc') (Nat.lt_succ_self _)
  rw [← hτ, entryOf_eq hA hq.nodupU hv.final]
  exact hq.like c0 hc0 c hc hτ

/-- **quotient_fully_correct_on (generic, relativised).** … and the resulting store is fully correct. -/
theorem quotient_fully_correct_on (hA : Lawful A) (hC : ContentOnly A) {H : HomomorphicOn A} {τ : Nat → Nat}
    {φ : String → String} {s s' : List (Cst D)} (hn : (uids s).Nodup) (hfc : FullyCorrect A s)
    (hq : QuotientOfOn A H τ φ s s') : FullyCorrect A s' := by
  intro u' hu'
  obtain ⟨c', hc', rfl⟩ := mem_uids.1 hu'
  obtain ⟨c0, hc0, rfl⟩ := hq.kept c' hc'
  show A.ok (entryOf A s' (τ c0.uid)) = true
  rw [quotient_entries_on hA hC hn hfc hq c0 hc0]
  exact H.ok_hom φ _ (hfc _ (mem_uids.2 ⟨c0, hc0, rfl⟩))

end CCVerif.SchemaGen
