import CCVerif.Lemmas.EvalVal
import CCVerif.Spec.Denote
/-! The lazy sets of the evaluator (`SDPowerSet`, `SDDecartian`): their iteration order lists exactly
the canonical set of all subsets / all tuples.  Used by C01 / C02. -/
namespace CCVerif.Eval
open CCVerif.Spec
open Val Ty

/-! ## generalities -/

/-- sortedStrict as Pairwise -/
theorem sortedStrict_iff_pairwise (l : List Val) :
    sortedStrict l = true ↔ l.Pairwise (fun a b => lt a b = true) := by
  induction l with
  | nil => simp [sortedStrict]
  | cons a l ih =>
    rw [List.pairwise_cons]
    constructor
    · intro h
      exact ⟨sorted_allGt h, ih.mp (sorted_tail h)⟩
    · intro h
      exact sorted_of_allGt h.1 (ih.mpr h.2)

/-- a strictly increasing list of pairwise comparable values is its own canonical set -/
theorem mkSetList_of_sorted (l : List Val) (hs : sortedStrict l = true) (hc : PairComparable l) :
    mkSetList l = l :=
  sorted_ext (mkSetList_sorted l) hs (fun _ => mem_mkSetList_iff hc)

/-- canonAll as a quantifier -/
theorem canonAll_iff (l : List Val) : canonAll l = true ↔ ∀ x ∈ l, canon x = true := by
  induction l with
  | nil => simp [canonAll]
  | cons x xs ih => simp [canonAll, ih]

theorem sortedStrict_sublist {l xs : List Val} (h : l.Sublist xs) (hs : sortedStrict xs = true) :
    sortedStrict l = true :=
  (sortedStrict_iff_pairwise l).mpr (List.Pairwise.sublist h ((sortedStrict_iff_pairwise xs).mp hs))

theorem hasTyAll_sublist {l xs : List Val} {τ : Ty} (h : l.Sublist xs) (ht : hasTyAll xs τ = true) :
    hasTyAll l τ = true := by
  rw [hasTyAll_iff] at *
  intro x hx
  exact ht x (h.subset hx)

theorem canonAll_sublist {l xs : List Val} (h : l.Sublist xs) (hc : canonAll xs = true) :
    canonAll l = true := by
  rw [canonAll_iff] at *
  intro x hx
  exact hc x (h.subset hx)

/-- the reference set of a sublist of a canonical typed listing is the sublist itself -/
theorem setOf_sublist {l xs : List Val} {τ : Ty} (hn : noAny τ = true) (ht : hasTyAll xs τ = true)
    (hs : sortedStrict xs = true) (h : l.Sublist xs) : setOf l = .s l := by
  unfold setOf mkSet
  rw [mkSetList_of_sorted l (sortedStrict_sublist h hs)
    (typed_pairComparable hn (hasTyAll_sublist h ht))]

/-! ## membership -/

theorem mem_subsets_iff (xs : List Val) : ∀ l : List Val, l ∈ subsets xs ↔ l.Sublist xs := by
  induction xs with
  | nil => intro l; simp [subsets]
  | cons x xs ih =>
    intro l
    simp only [subsets, List.mem_append, List.mem_map, List.sublist_cons_iff, ih]
    constructor
    · rintro (h | ⟨r, hr, e⟩)
      · exact Or.inl h
      · exact Or.inr ⟨r, e.symm, hr⟩
    · rintro (h | ⟨r, e, hr⟩)
      · exact Or.inl h
      · exact Or.inr ⟨r, hr, e.symm⟩

theorem mem_combos_iff (xs : List Val) :
    ∀ (k : Nat) (l : List Val), l ∈ combos k xs ↔ l.Sublist xs ∧ l.length = k := by
  induction xs with
  | nil =>
    intro k l
    cases k with
    | zero =>
      simp only [combos, List.mem_singleton, List.sublist_nil]
      constructor
      · intro h; simp [h]
      · intro h; exact h.1
    | succ k =>
      simp only [combos, List.not_mem_nil, List.sublist_nil, false_iff]
      rintro ⟨h1, h2⟩
      simp [h1] at h2
  | cons x xs ih =>
    intro k l
    cases k with
    | zero =>
      simp only [combos, List.mem_singleton]
      constructor
      · intro h; simp [h]
      · intro h; exact List.length_eq_zero_iff.mp h.2
    | succ k =>
      simp only [combos, List.mem_append, List.mem_map, ih, List.sublist_cons_iff]
      constructor
      · rintro (⟨r, ⟨hr, hl⟩, e⟩ | ⟨h, hl⟩)
        · subst e
          exact ⟨Or.inr ⟨r, rfl, hr⟩, by simp [hl]⟩
        · exact ⟨Or.inl h, hl⟩
      · rintro ⟨h | ⟨r, e, hr⟩, hl⟩
        · exact Or.inr ⟨h, hl⟩
        · subst e
          exact Or.inl ⟨r, ⟨hr, by simpa using hl⟩, rfl⟩

theorem mem_powList_iff (xs l : List Val) : l ∈ powList xs ↔ l.Sublist xs := by
  unfold powList
  simp only [List.mem_flatMap, List.mem_range, mem_combos_iff]
  constructor
  · rintro ⟨_, _, h, _⟩
    exact h
  · intro h
    exact ⟨l.length, Nat.lt_succ_of_le h.length_le, h, rfl⟩

theorem mem_pow_iff (xs : List Val) (v : Val) : v ∈ pow xs ↔ ∃ l, l.Sublist xs ∧ Val.s l = v := by
  unfold pow
  simp only [List.mem_map, mem_powList_iff]

/-! ## order -/

/-- lexicographic order of equally long listings -/
def LexLt (l1 l2 : List Val) : Prop := cmpLex l1 l2 = .lt

theorem lexLt_cons_same (x : Val) (a b : List Val) (h : LexLt a b) : LexLt (x :: a) (x :: b) := by
  unfold LexLt at *
  simp only [cmpLex, cmp_refl]
  exact h

theorem lexLt_cons_lt {x y : Val} (a b : List Val) (h : lt x y = true) : LexLt (x :: a) (y :: b) := by
  unfold LexLt
  simp only [lt, beq_iff_eq] at h
  simp only [cmpLex, h]

theorem lt_s_of_length_lt {a b : List Val} (h : a.length < b.length) : lt (.s a) (.s b) = true := by
  have h1 : ¬ a.length > b.length := by omega
  simp [lt, cmp, h1, h]

theorem lt_s_of_lexLt {a b : List Val} (hl : a.length = b.length) (h : LexLt a b) :
    lt (.s a) (.s b) = true := by
  unfold LexLt at h
  simp [lt, cmp, hl, h]

theorem lt_t_of_lexLt {a b : List Val} (hl : a.length = b.length) (h : LexLt a b) :
    lt (.t a) (.t b) = true := by
  unfold LexLt at h
  simp [lt, cmp, hl, h]

theorem pairwise_map_cons {x : Val} {L : List (List Val)} (h : L.Pairwise LexLt) :
    (L.map (x :: ·)).Pairwise LexLt := by
  rw [List.pairwise_map]
  exact h.imp (fun {a b} hab => lexLt_cons_same x a b hab)

/-- the subsets of one size are listed in increasing lexicographic order -/
theorem combos_pairwise (xs : List Val) (hs : xs.Pairwise (fun a b => lt a b = true)) :
    ∀ k : Nat, (combos k xs).Pairwise LexLt := by
  induction xs with
  | nil =>
    intro k
    cases k with
    | zero => simp [combos]
    | succ k => simp [combos]
  | cons x xs ih =>
    intro k
    rw [List.pairwise_cons] at hs
    cases k with
    | zero => simp [combos]
    | succ k =>
      simp only [combos]
      rw [List.pairwise_append]
      refine ⟨pairwise_map_cons (ih hs.2 k), ih hs.2 (k + 1), ?_⟩
      intro a ha b hb
      obtain ⟨a', _, rfl⟩ := List.mem_map.mp ha
      obtain ⟨hbs, hbl⟩ := (mem_combos_iff xs (k + 1) b).mp hb
      cases b with
      | nil => simp at hbl
      | cons y b' =>
        have hy : y ∈ xs := hbs.subset (by simp)
        exact lexLt_cons_lt a' b' (hs.1 y hy)

theorem powList_pairwise (xs : List Val) (hs : sortedStrict xs = true) :
    (powList xs).Pairwise (fun a b => lt (.s a) (.s b) = true) := by
  have hp := (sortedStrict_iff_pairwise xs).mp hs
  unfold powList
  rw [List.pairwise_flatMap]
  constructor
  · intro k _
    refine List.Pairwise.imp_of_mem ?_ (combos_pairwise xs hp k)
    intro a b ha hb hab
    have la := ((mem_combos_iff xs k a).mp ha).2
    have lb := ((mem_combos_iff xs k b).mp hb).2
    exact lt_s_of_lexLt (by rw [la, lb]) hab
  · refine List.Pairwise.imp ?_ List.pairwise_lt_range
    intro k1 k2 hk a ha b hb
    have la := ((mem_combos_iff xs k1 a).mp ha).2
    have lb := ((mem_combos_iff xs k2 b).mp hb).2
    exact lt_s_of_length_lt (by rw [la, lb]; exact hk)

theorem pow_sorted (xs : List Val) (hs : sortedStrict xs = true) : sortedStrict (pow xs) = true := by
  rw [sortedStrict_iff_pairwise]
  unfold pow
  rw [List.pairwise_map]
  exact powList_pairwise xs hs

/-! ## power set -/

/-- power set: the lazy iteration order of the C++ (`pow`: by size, then lexicographic by position)
lists exactly the canonical set of all subsets -/
theorem pow_agrees (xs : List Val) (τ : Ty) (hn : noAny τ = true) (ht : hasTyAll xs τ = true)
    (hs : sortedStrict xs = true) :
    Val.s (pow xs) = setOf ((subsets xs).map setOf) := by
  have hmem : ∀ v, v ∈ (subsets xs).map setOf ↔ ∃ l, l.Sublist xs ∧ Val.s l = v := by
    intro v
    simp only [List.mem_map, mem_subsets_iff]
    constructor
    · rintro ⟨l, hl, e⟩
      exact ⟨l, hl, by rw [← e, setOf_sublist hn ht hs hl]⟩
    · rintro ⟨l, hl, e⟩
      exact ⟨l, hl, by rw [← e, setOf_sublist hn ht hs hl]⟩
  have hty : hasTyAll ((subsets xs).map setOf) (.coll τ) = true := by
    rw [hasTyAll_iff]
    intro v hv
    obtain ⟨l, hl, rfl⟩ := (hmem v).mp hv
    simp only [hasTy]
    exact hasTyAll_sublist hl ht
  have hpc : PairComparable ((subsets xs).map setOf) :=
    typed_pairComparable (τ := .coll τ) (by simpa [noAny] using hn) hty
  have : mkSetList ((subsets xs).map setOf) = pow xs := by
    apply sorted_ext (mkSetList_sorted _) (pow_sorted xs hs)
    intro v
    rw [mem_mkSetList_iff hpc, hmem, mem_pow_iff]
  show Val.s (pow xs) = Val.s (mkSetList ((subsets xs).map setOf))
  rw [this]

theorem pow_hasTy (xs : List Val) (τ : Ty) (ht : hasTyAll xs τ = true) :
    hasTy (.s (pow xs)) (.coll (.coll τ)) = true := by
  simp only [hasTy]
  rw [hasTyAll_iff]
  intro v hv
  obtain ⟨l, hl, rfl⟩ := (mem_pow_iff xs v).mp hv
  simp only [hasTy]
  exact hasTyAll_sublist hl ht

theorem pow_canon (xs : List Val) (hc : canonAll xs = true) (hs : sortedStrict xs = true) :
    canon (.s (pow xs)) = true := by
  simp only [canon, Bool.and_eq_true]
  refine ⟨?_, pow_sorted xs hs⟩
  rw [canonAll_iff]
  intro v hv
  obtain ⟨l, hl, rfl⟩ := (mem_pow_iff xs v).mp hv
  simp only [canon, Bool.and_eq_true]
  exact ⟨canonAll_sublist hl hc, sortedStrict_sublist hl hs⟩

/-! ## product -/

/-- `List.Forall₂` is not part of core Lean (Batteries / Mathlib only); this is the same definition,
living in `CCVerif.Eval.List`, so `List.Forall₂` resolves to it inside / after opening `CCVerif.Eval`. -/
inductive List.Forall₂ {α : Type u} {β : Type v} (R : α → β → Prop) : List α → List β → Prop
  | nil : List.Forall₂ R [] []
  | cons {a : α} {b : β} {l₁ : List α} {l₂ : List β} :
      R a b → List.Forall₂ R l₁ l₂ → List.Forall₂ R (a :: l₁) (b :: l₂)

theorem List.Forall₂.length_eq {α : Type u} {β : Type v} {R : α → β → Prop} {l₁ : List α} {l₂ : List β}
    (h : List.Forall₂ R l₁ l₂) : l₁.length = l₂.length := by
  induction h with
  | nil => rfl
  | cons _ _ ih => simp [ih]

/-- elementary characterisation: same length and related position by position -/
theorem List.forall₂_iff_zip {α : Type u} {β : Type v} {R : α → β → Prop} :
    ∀ {l₁ : List α} {l₂ : List β},
      List.Forall₂ R l₁ l₂ ↔ l₁.length = l₂.length ∧ ∀ p ∈ l₁.zip l₂, R p.1 p.2
  | [], [] => by simp [List.Forall₂.nil]
  | [], _ :: _ => by
    constructor
    · intro h; cases h
    · intro h; simp at h
  | _ :: _, [] => by
    constructor
    · intro h; cases h
    · intro h; simp at h
  | a :: l₁, b :: l₂ => by
    constructor
    · intro h
      cases h with
      | cons hab ht =>
        have ih := (List.forall₂_iff_zip (R := R) (l₁ := l₁) (l₂ := l₂)).mp ht
        refine ⟨by simp [ih.1], ?_⟩
        intro p hp
        simp only [List.zip_cons_cons, List.mem_cons] at hp
        rcases hp with e | m
        · rw [e]; exact hab
        · exact ih.2 p m
    · rintro ⟨hl, hp⟩
      refine List.Forall₂.cons (hp (a, b) (by simp)) ?_
      apply (List.forall₂_iff_zip (R := R) (l₁ := l₁) (l₂ := l₂)).mpr
      exact ⟨by simpa using hl, fun p m => hp p (by simp [m])⟩

theorem tuples_eq_prodList (fs : List (List Val)) : tuples fs = prodList fs := by
  induction fs with
  | nil => rfl
  | cons f fs ih => simp only [tuples, prodList, ih]

theorem mem_prodList_cons {f : List Val} {fs : List (List Val)} {l : List Val} :
    l ∈ prodList (f :: fs) ↔ ∃ x r, x ∈ f ∧ r ∈ prodList fs ∧ l = x :: r := by
  simp only [prodList, List.mem_flatMap, List.mem_map]
  constructor
  · rintro ⟨x, hx, r, hr, e⟩
    exact ⟨x, r, hx, hr, e.symm⟩
  · rintro ⟨x, r, hx, hr, e⟩
    exact ⟨x, hx, r, hr, e.symm⟩

theorem prodList_length (fs : List (List Val)) : ∀ l ∈ prodList fs, l.length = fs.length := by
  induction fs with
  | nil => intro l hl; simp [prodList] at hl; simp [hl]
  | cons f fs ih =>
    intro l hl
    obtain ⟨x, r, _, hr, rfl⟩ := mem_prodList_cons.mp hl
    simp [ih r hr]

/-- an empty factor makes the reference listing empty -/
theorem tuples_of_empty (fs : List (List Val)) (h : fs.any (·.isEmpty) = true) : tuples fs = [] := by
  induction fs with
  | nil => simp at h
  | cons f fs ih =>
    simp only [List.any_cons, Bool.or_eq_true] at h
    simp only [tuples]
    rcases h with h | h
    · have : f = [] := by simpa using h
      subst this
      rfl
    · rw [ih h]
      simp

theorem prodList_pairwise (fs : List (List Val))
    (hs : ∀ f ∈ fs, f.Pairwise (fun a b => lt a b = true)) : (prodList fs).Pairwise LexLt := by
  induction fs with
  | nil => simp [prodList]
  | cons f fs ih =>
    have ih' := ih (fun g hg => hs g (List.mem_cons_of_mem _ hg))
    simp only [prodList]
    rw [List.pairwise_flatMap]
    constructor
    · intro x _
      exact pairwise_map_cons ih'
    · refine List.Pairwise.imp ?_ (hs f (by simp))
      intro x y hxy a ha b hb
      obtain ⟨a', _, rfl⟩ := List.mem_map.mp ha
      obtain ⟨b', _, rfl⟩ := List.mem_map.mp hb
      exact lexLt_cons_lt a' b' hxy

theorem prodList_t_sorted (fs : List (List Val)) (hs : ∀ f ∈ fs, sortedStrict f = true) :
    sortedStrict ((prodList fs).map Val.t) = true := by
  rw [sortedStrict_iff_pairwise, List.pairwise_map]
  refine List.Pairwise.imp_of_mem ?_
    (prodList_pairwise fs (fun f hf => (sortedStrict_iff_pairwise f).mp (hs f hf)))
  intro a b ha hb hab
  exact lt_t_of_lexLt (by rw [prodList_length fs a ha, prodList_length fs b hb]) hab

theorem prod_sorted (fs : List (List Val)) (hs : ∀ f ∈ fs, sortedStrict f = true) :
    sortedStrict (prod fs) = true := by
  unfold prod
  split
  · simp [sortedStrict]
  · exact prodList_t_sorted fs hs

theorem prodList_hasTyList (fs : List (List Val)) (ts : List Ty)
    (ht : List.Forall₂ (fun f t => hasTyAll f t = true) fs ts) :
    ∀ l ∈ prodList fs, hasTyList l ts = true := by
  induction ht with
  | nil => intro l hl; simp [prodList] at hl; simp [hl, hasTyList]
  | cons hft _ ih =>
    intro l hl
    obtain ⟨x, r, hx, hr, rfl⟩ := mem_prodList_cons.mp hl
    simp only [hasTyList, Bool.and_eq_true]
    exact ⟨hasTyAll_iff.mp hft x hx, ih r hr⟩

theorem prodList_t_hasTyAll (fs : List (List Val)) (ts : List Ty)
    (ht : List.Forall₂ (fun f t => hasTyAll f t = true) fs ts) :
    hasTyAll ((prodList fs).map Val.t) (.tuple ts) = true := by
  rw [hasTyAll_iff]
  intro v hv
  obtain ⟨l, hl, rfl⟩ := List.mem_map.mp hv
  simp only [hasTy]
  exact prodList_hasTyList fs ts ht l hl

/-- product: odometer order = canonical set of all tuples -/
theorem prod_agrees (fs : List (List Val)) (ts : List Ty) (hn : noAnyList ts = true)
    (ht : List.Forall₂ (fun f t => hasTyAll f t = true) fs ts)
    (hs : ∀ f ∈ fs, sortedStrict f = true) :
    Val.s (prod fs) = setOf ((tuples fs).map Val.t) := by
  unfold prod
  split
  · rename_i h
    rw [tuples_of_empty fs h]
    rfl
  · rw [tuples_eq_prodList]
    unfold setOf mkSet
    rw [mkSetList_of_sorted _ (prodList_t_sorted fs hs)
      (typed_pairComparable (τ := .tuple ts) (by simpa [noAny] using hn)
        (prodList_t_hasTyAll fs ts ht))]

theorem prod_hasTy (fs : List (List Val)) (ts : List Ty)
    (ht : List.Forall₂ (fun f t => hasTyAll f t = true) fs ts) :
    hasTy (.s (prod fs)) (.coll (.tuple ts)) = true := by
  simp only [hasTy]
  unfold prod
  split
  · simp [hasTyAll]
  · exact prodList_t_hasTyAll fs ts ht

theorem prodList_canonAll (fs : List (List Val)) (hc : ∀ f ∈ fs, canonAll f = true) :
    ∀ l ∈ prodList fs, canonAll l = true := by
  induction fs with
  | nil => intro l hl; simp [prodList] at hl; simp [hl, canonAll]
  | cons f fs ih =>
    intro l hl
    obtain ⟨x, r, hx, hr, rfl⟩ := mem_prodList_cons.mp hl
    simp only [canonAll, Bool.and_eq_true]
    exact ⟨(canonAll_iff f).mp (hc f (by simp)) x hx,
      ih (fun g hg => hc g (List.mem_cons_of_mem _ hg)) r hr⟩

theorem prod_canon (fs : List (List Val)) (hl : fs.length ≥ 2)
    (hc : ∀ f ∈ fs, canonAll f = true) (hs : ∀ f ∈ fs, sortedStrict f = true) :
    canon (.s (prod fs)) = true := by
  simp only [canon, Bool.and_eq_true]
  refine ⟨?_, prod_sorted fs hs⟩
  rw [canonAll_iff]
  intro v hv
  unfold prod at hv
  split at hv
  · simp at hv
  · obtain ⟨l, hlm, rfl⟩ := List.mem_map.mp hv
    simp only [canon, Bool.and_eq_true, decide_eq_true_eq]
    exact ⟨by rw [prodList_length fs l hlm]; exact hl, prodList_canonAll fs hc l hlm⟩

/-! ## cardinality -/

theorem prodCard_step_sat (fs : List (List Val)) :
    fs.foldl (fun count f => if SET_INFINITY / f.length ≥ count then count * f.length else SET_INFINITY)
      SET_INFINITY = SET_INFINITY := by
  induction fs with
  | nil => rfl
  | cons f fs ih =>
    simp only [List.foldl_cons]
    by_cases hc : SET_INFINITY / f.length ≥ SET_INFINITY
    · rw [if_pos hc]
      have h1 : f.length = 1 := by
        apply Classical.byContradiction
        intro hne
        by_cases h0 : f.length = 0
        · rw [h0, Nat.div_zero] at hc
          exact absurd hc (by decide)
        · have := Nat.div_lt_self (n := SET_INFINITY) (k := f.length) (by decide) (by omega)
          omega
      rw [h1, Nat.mul_one]
      exact ih
    · rw [if_neg hc]
      exact ih

theorem prodCard_aux (fs : List (List Val)) : ∀ acc : Nat,
    fs.foldl (fun count f => if SET_INFINITY / f.length ≥ count then count * f.length else SET_INFINITY)
      acc ≠ SET_INFINITY →
    fs.foldl (fun count f => if SET_INFINITY / f.length ≥ count then count * f.length else SET_INFINITY)
      acc = fs.foldl (fun n f => n * f.length) acc := by
  induction fs with
  | nil => intro acc _; rfl
  | cons f fs ih =>
    intro acc h
    simp only [List.foldl_cons] at h ⊢
    by_cases hc : SET_INFINITY / f.length ≥ acc
    · rw [if_pos hc] at h ⊢
      exact ih _ h
    · rw [if_neg hc] at h
      exact absurd (prodCard_step_sat fs) h

/-- `SDDecartian::UpdateSize` without saturation is the product of the factor sizes -/
theorem prodCard_eq (fs : List (List Val)) (h : prodCard fs ≠ SET_INFINITY) :
    prodCard fs = fs.foldl (fun n f => n * f.length) 1 :=
  prodCard_aux fs 1 h

end CCVerif.Eval
