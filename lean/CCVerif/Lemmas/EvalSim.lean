import CCVerif.Lemmas.EvalFrag
/-! The simulation: on the fragments of `Lemmas/EvalFrag.lean` the interpreter transcription `ev`
answers the value of the reference semantics `denote` (well-formed at the type), or runs out of
the model's fuel, or raises a documented error; it is never `stuck`.  One induction serves C01
(refinement) and C02 (progress + preservation). -/
namespace CCVerif.Eval
open CCVerif.Syntax CCVerif.Spec CCVerif.Norm
open Val Ty

variable {env : Env}

theorem Res.val {fuel : Nat} {ρ : LEnv} {a : Ast} {P : St → Prop} {ty : Ty} {r : R V} {v : Val} {st' : St}
    (hr : r = .ok (.val v) st') (hp : P st') (hw : WF v ty) (hn : noAny ty = true)
    (hd : denote (senvOf env) fuel ρ a = some (.val v)) : Res env fuel ρ a P (.ty ty) r :=
  Or.inl (show ∃ v st', r = .ok (.val v) st' ∧ P st' ∧ WF v ty ∧ noAny ty = true ∧
    denote (senvOf env) fuel ρ a = some (.val v) from ⟨v, st', hr, hp, hw, hn, hd⟩)

theorem Res.bool {fuel : Nat} {ρ : LEnv} {a : Ast} {P : St → Prop} {r : R V} {b : Bool} {st' : St}
    (hr : r = .ok (.bool b) st') (hp : P st')
    (hd : denote (senvOf env) fuel ρ a = some (.bool b)) : Res env fuel ρ a P .logic r :=
  Or.inl (show ∃ b st', r = .ok (.bool b) st' ∧ P st' ∧ denote (senvOf env) fuel ρ a = some (.bool b) from
    ⟨b, st', hr, hp, hd⟩)

theorem Res.bad {fuel : Nat} {ρ : LEnv} {a : Ast} {P : St → Prop} {τ : ExprTy} {r : R V} (h : Bad r) :
    Res env fuel ρ a P τ r := Or.inr h

theorem Res.zero (c : Ctx) (ρ : LEnv) (a : Ast) (P : St → Prop) (τ : ExprTy) (p : Option Tok) (st : St) :
    Res env 0 ρ a P τ (ev c 0 a p st) := by
  rw [ev_zero]; exact Res.bad (bad_outOfFuel _)

theorem Covered.kid {ids : List (String × Nat)} {t : Tok} {d : TokData} {lo hi : Int} {ks : List Ast} {k : Ast}
    (h : Covered ids (.node t d lo hi ks)) (hk : k ∈ ks) : Covered ids k :=
  fun n hn => h n (names_kid hk hn)

theorem noAny_coll (τ : Ty) : noAny (.coll τ) = noAny τ := by simp [noAny]
theorem noAny_tuple (ts : List Ty) : noAny (.tuple ts) = noAnyList ts := by simp [noAny]

/-! ## connectives -/

theorem kConn_short {t : Tok} (ht : isConn t) (b1 : Bool) (y : Option Bool)
    (h : ((t == .AND && !b1) || (t == .OR && b1)) = true) : kConn t (some b1) y = some b1 := by
  rcases ht with rfl | rfl | rfl | rfl <;> cases b1 <;> simp [tok_beq] at h <;> rcases y with _ | (_ | _) <;>
    simp [kConn, kAnd, kOr]

theorem kConn_short_imp {t : Tok} (ht : isConn t) (b1 : Bool) (y : Option Bool)
    (h : (t == .IMPLICATION && !b1) = true) : kConn t (some b1) y = some true := by
  rcases ht with rfl | rfl | rfl | rfl <;> cases b1 <;> simp [tok_beq] at h <;> rcases y with _ | (_ | _) <;>
    simp [kConn, kOr, kNot]

theorem kConn_full {t : Tok} (ht : isConn t) (b1 b2 : Bool) : kConn t (some b1) (some b2) = some (connOp t b1 b2) := by
  rcases ht with rfl | rfl | rfl | rfl <;> cases b1 <;> cases b2 <;> simp [kConn, kAnd, kOr, kNot, connOp]

/-! ## `⊂ ⊆ ⊄` -/

theorem ev_sub_res (t : Tok) (xs ys : List Val) (st2 : St) :
    (if (t == .SUBSET && Val.cmp (.s xs) (.s ys) == .eq) = true then R.ok (V.bool false) st2
     else if (t == .NOTSUBSET && Val.cmp (.s xs) (.s ys) == .eq) = true then R.ok (V.bool true) st2
     else match Val.s xs, Val.s ys with
       | .s xs, .s ys => R.ok (V.bool (if t == .NOTSUBSET then !Val.subsetEq xs ys else Val.subsetEq xs ys)) st2
       | _, _ => R.fail (.stuck "ViSetexprBinary B() of a non-set") st2.iters) =
    R.ok (V.bool (subRes t xs ys)) st2 := by
  unfold subRes
  split
  · rfl
  · split
    · rfl
    · rfl

/-! ## children lists -/

/-- all children at one type (`{e₁,…,eₙ}`) -/
theorem evKids_sim_hom (c : Ctx) (Γ : TCtx) (ρ : LEnv) (f : Nat) (t : Tok) (τ : Ty) : ∀ (ks : List Ast),
    (∀ k ∈ ks, ∀ st, Inv env c Γ ρ st → Res env f ρ k (Inv env c Γ ρ) (.ty τ) (ev c f k (some t) st)) →
    ∀ acc st, Inv env c Γ ρ st →
      (∃ vs st', evKids c f t ks acc st = .ok (acc ++ vs) st' ∧ Inv env c Γ ρ st' ∧ (∀ v ∈ vs, WF v τ) ∧
        (ks ≠ [] → noAny τ = true) ∧ ks.mapM (fun k => dVal (denote (senvOf env) f ρ k)) = some vs) ∨
      Bad (evKids c f t ks acc st)
  | [], _, acc, st, hp => Or.inl ⟨[], st, by simp [evKids], hp, by simp, by simp, by simp⟩
  | k :: ks, h, acc, st, hp => by
    simp only [evKids]
    rcases h k (by simp) st hp with ⟨v, st1, h1, p1, w1, n1, d1⟩ | ⟨fl, n, hb, hf⟩
    · simp only [h1, R.asVal]
      rcases evKids_sim_hom c Γ ρ f t τ ks (fun k' hk' => h k' (by simp [hk'])) (acc ++ [v]) st1 p1 with
        ⟨vs, st2, h2, p2, w2, _, d2⟩ | hbad
      · left
        refine ⟨v :: vs, st2, by simpa using h2, p2, ?_, fun _ => n1, by rw [List.mapM_cons, d1, d2]; rfl⟩
        intro y hy
        rcases List.mem_cons.mp hy with rfl | m
        · exact w1
        · exact w2 y m
      · exact Or.inr hbad
    · simp only [hb, R.asVal]
      exact Or.inr ⟨fl, n, rfl, hf⟩

/-- children at their own types (tuples, products) -/
theorem evKids_sim_het (c : Ctx) (Γ : TCtx) (ρ : LEnv) (f : Nat) (t : Tok) : ∀ (kts : List (Ast × Ty)),
    (∀ q ∈ kts, ∀ st, Inv env c Γ ρ st → Res env f ρ q.1 (Inv env c Γ ρ) (.ty q.2) (ev c f q.1 (some t) st)) →
    ∀ acc st, Inv env c Γ ρ st →
      (∃ vs st', evKids c f t (kts.map (·.1)) acc st = .ok (acc ++ vs) st' ∧ Inv env c Γ ρ st' ∧
        List.Forall₂ (fun v ty => WF v ty ∧ noAny ty = true) vs (kts.map (·.2)) ∧
        (kts.map (·.1)).mapM (fun k => dVal (denote (senvOf env) f ρ k)) = some vs) ∨
      Bad (evKids c f t (kts.map (·.1)) acc st)
  | [], _, acc, st, hp => Or.inl ⟨[], st, by simp [evKids], hp, .nil, by simp⟩
  | q :: kts, h, acc, st, hp => by
    simp only [List.map_cons, evKids]
    rcases h q (by simp) st hp with ⟨v, st1, h1, p1, w1, n1, d1⟩ | ⟨fl, n, hb, hf⟩
    · simp only [h1, R.asVal]
      rcases evKids_sim_het c Γ ρ f t kts (fun k' hk' => h k' (by simp [hk'])) (acc ++ [v]) st1 p1 with
        ⟨vs, st2, h2, p2, w2, d2⟩ | hbad
      · left
        exact ⟨v :: vs, st2, by simpa using h2, p2, .cons ⟨w1, n1⟩ w2, by rw [List.mapM_cons, d1, d2]; rfl⟩
      · exact Or.inr hbad
    · simp only [hb, R.asVal]
      exact Or.inr ⟨fl, n, rfl, hf⟩

theorem forall₂_WFs : ∀ {vs : List Val} {ts : List Ty}, List.Forall₂ (fun v ty => WF v ty ∧ noAny ty = true) vs ts →
    WFs vs ts ∧ noAnyList ts = true
  | _, _, .nil => ⟨WFs_nil, rfl⟩
  | _, _, .cons h r => by
    obtain ⟨a, b⟩ := forall₂_WFs r
    simp only [WFs, hasTyList, canonAll, noAnyList, Bool.and_eq_true]
    exact ⟨⟨⟨h.1.1, a.1⟩, h.1.2, a.2⟩, h.2, b⟩

/-- a list of set values, typed member-wise: the factor lists -/
theorem forall₂_sets : ∀ {vs : List Val} {ts : List Ty},
    List.Forall₂ (fun v ty => WF v ty ∧ noAny ty = true) vs (ts.map Ty.coll) →
    ∃ fs : List (List Val), vs = fs.map Val.s ∧ List.Forall₂ (fun f ty => hasTyAll f ty = true) fs ts ∧
      (∀ f ∈ fs, canonAll f = true) ∧ (∀ f ∈ fs, sortedStrict f = true) ∧ noAnyList ts = true
  | [], [], _ => ⟨[], rfl, .nil, by simp, by simp, rfl⟩
  | _ :: _, [], h => by cases h
  | [], _ :: _, h => by cases h
  | v :: vs, ty :: ts, h => by
    cases h with
    | cons hv hr =>
      obtain ⟨fs, e, a, b, c, d⟩ := forall₂_sets hr
      obtain ⟨xs, rfl⟩ := WF_coll_isSet hv.1
      have w := WF_set_iff.mp hv.1
      refine ⟨xs :: fs, by simp [e], .cons w.1 a, ?_, ?_, ?_⟩
      · intro g hg; rcases List.mem_cons.mp hg with rfl | m; exact w.2.1; exact b g m
      · intro g hg; rcases List.mem_cons.mp hg with rfl | m; exact w.2.2; exact c g m
      · simp only [noAnyList, Bool.and_eq_true]; exact ⟨by simpa [noAny_coll] using hv.2, d⟩

theorem allSome_sets (fs : List (List Val)) :
    allSome ((fs.map Val.s).map members) = some fs := by
  induction fs with
  | nil => rfl
  | cons f fs ih =>
    show allSome (some f :: _) = some (f :: fs)
    simp only [allSome]
    rw [ih]; rfl

theorem mapM_dSet_of_dVal {g : Ast → Option SemVal} : ∀ {ks : List Ast} {fs : List (List Val)},
    ks.mapM (fun k => dVal (g k)) = some (fs.map Val.s) → ks.mapM (fun k => dSet (g k)) = some fs
  | [], fs, h => by
    simp at h
    cases fs with
    | nil => simp
    | cons _ _ => simp at h
  | k :: ks, fs, h => by
    simp only [List.mapM_cons, Option.pure_def, Option.bind_eq_bind] at h ⊢
    cases h1 : dVal (g k) with
    | none => simp [h1] at h
    | some v =>
      cases h2 : List.mapM (fun k => dVal (g k)) ks with
      | none => simp [h1, h2] at h
      | some vs =>
        simp [h1, h2] at h
        cases fs with
        | nil => simp at h
        | cons f fs =>
          simp at h
          obtain ⟨rfl, rfl⟩ := h
          have e1 : dSet (g k) = some f := by simp [dSet, h1, members]
          rw [e1, mapM_dSet_of_dVal h2]; rfl

theorem prod_foldl_zero : ∀ (fs : List (List Val)), fs.foldl (fun n f => n * f.length) 0 = 0
  | [] => rfl
  | _ :: fs => by simp [List.foldl_cons, prod_foldl_zero fs]

theorem prod_foldl_of_empty : ∀ (fs : List (List Val)) (n : Nat), fs.any (·.isEmpty) = true →
    fs.foldl (fun n f => n * f.length) n = 0
  | [], _, h => by simp at h
  | f :: fs, n, h => by
    simp only [List.any_cons, Bool.or_eq_true] at h
    simp only [List.foldl_cons]
    rcases h with h | h
    · have : f = [] := by simpa using h
      subst this; simp [prod_foldl_zero]
    · exact prod_foldl_of_empty fs _ h

/-! ## the simulation -/

/-- **the simulation**: on a fragment tree whose names all have slots (`Covered`), from a state that
satisfies the invariant, `ev` returns the value `denote` assigns (well-formed at the type, invariant kept),
or fails with the model's `outOfFuel`, or with a documented error -/
theorem sim {G : TCtx} {lvl : Nat} (hG : GlobalsOK env G) (c : Ctx) {Γ : TCtx} {a : Ast} {τ : ExprTy}
    (h : Frag env G lvl Γ a τ) : ∀ (fuel : Nat) (p : Option Tok) (st : St) (ρ : LEnv),
    Inv env c Γ ρ st → Covered c.ids a → Res env fuel ρ a (Inv env c Γ ρ) τ (ev c fuel a p st) := by
  induction h with
  | lit Γ n lo hi =>
    intro fuel p st ρ hinv hcov
    cases fuel with
    | zero => exact Res.zero ..
    | succ f => exact Res.val (ev_lit ..) hinv (WF_int _ _) rfl (denote_lit ..)
  | @arith Γ t a b d lo hi ht _ _ iha ihb =>
    intro fuel p st ρ hinv hcov
    cases fuel with
    | zero => exact Res.zero ..
    | succ f =>
      rw [ev_arith ht]
      rcases iha f (some t) st ρ hinv (hcov.kid (by simp)) with ⟨v1, st1, h1, p1, w1, _, d1⟩ | ⟨fl, k, hb, hf⟩
      · obtain ⟨x, rfl⟩ := WF_Z_isInt w1
        rcases ihb f (some t) st1 ρ p1 (hcov.kid (by simp)) with ⟨v2, st2, h2, p2, w2, _, d2⟩ | ⟨fl, k, hb, hf⟩
        · obtain ⟨y, rfl⟩ := WF_Z_isInt w2
          simp only [h1, h2, R.asInt]
          by_cases hok : int32ok (arithOp t x y) = true
          · simp only [hok, if_true]
            exact Res.val rfl p2 (WF_int _ _) rfl (by rw [denote_arith ht, d1, d2]; rfl)
          · simp only [hok]
            exact Res.bad (bad_err _ _ _ (Or.inl rfl))
        · exact Res.bad ⟨fl, k, by simp [h1, hb, R.asInt], hf⟩
      · exact Res.bad ⟨fl, k, by simp [hb, R.asInt], hf⟩
  | @card Γ a τ d lo hi _ ih =>
    intro fuel p st ρ hinv hcov
    cases fuel with
    | zero => exact Res.zero ..
    | succ f =>
      rw [ev_card]
      rcases ih f (some .CARD) st ρ hinv (hcov.kid (by simp)) with ⟨v1, st1, h1, p1, w1, _, d1⟩ | ⟨fl, k, hb, hf⟩
      · obtain ⟨xs, rfl⟩ := WF_coll_isSet w1
        simp only [h1, R.asSet]
        exact Res.val rfl p1 (WF_int _ _) rfl (by rw [denote_card, d1]; rfl)
      · exact Res.bad ⟨fl, k, by simp [hb, R.asSet], hf⟩
  | @cmp Γ t a b d lo hi ht _ _ iha ihb =>
    intro fuel p st ρ hinv hcov
    cases fuel with
    | zero => exact Res.zero ..
    | succ f =>
      rw [ev_intCmp ht]
      rcases iha f (some t) st ρ hinv (hcov.kid (by simp)) with ⟨v1, st1, h1, p1, w1, _, d1⟩ | ⟨fl, k, hb, hf⟩
      · obtain ⟨x, rfl⟩ := WF_Z_isInt w1
        rcases ihb f (some t) st1 ρ p1 (hcov.kid (by simp)) with ⟨v2, st2, h2, p2, w2, _, d2⟩ | ⟨fl, k, hb, hf⟩
        · obtain ⟨y, rfl⟩ := WF_Z_isInt w2
          simp only [h1, h2, R.asInt]
          exact Res.bool rfl p2 (by rw [denote_intCmp ht, d1, d2]; rfl)
        · exact Res.bad ⟨fl, k, by simp [h1, hb, R.asInt], hf⟩
      · exact Res.bad ⟨fl, k, by simp [hb, R.asInt], hf⟩
  | @eq Γ t a b τ d lo hi ht _ _ iha ihb =>
    intro fuel p st ρ hinv hcov
    cases fuel with
    | zero => exact Res.zero ..
    | succ f =>
      rw [ev_eq ht]
      rcases iha f (some t) st ρ hinv (hcov.kid (by simp)) with ⟨v1, st1, h1, p1, w1, _, d1⟩ | ⟨fl, k, hb, hf⟩
      · rcases ihb f (some t) st1 ρ p1 (hcov.kid (by simp)) with ⟨v2, st2, h2, p2, w2, _, d2⟩ | ⟨fl, k, hb, hf⟩
        · simp only [h1, h2]
          exact Res.bool rfl p2 (by rw [denote_eq ht, d1, d2]; simp [dVal, cmp_beq_eq])
        · exact Res.bad ⟨fl, k, by simp [h1, hb], hf⟩
      · exact Res.bad ⟨fl, k, by simp [hb], hf⟩
  | @not Γ a d lo hi _ ih =>
    intro fuel p st ρ hinv hcov
    cases fuel with
    | zero => exact Res.zero ..
    | succ f =>
      rw [ev_not]
      rcases ih f (some .NOT) st ρ hinv (hcov.kid (by simp)) with ⟨b1, st1, h1, p1, d1⟩ | ⟨fl, k, hb, hf⟩
      · simp only [h1, R.asBool]
        exact Res.bool rfl p1 (by rw [denote_not, d1]; rfl)
      · exact Res.bad ⟨fl, k, by simp [hb, R.asBool], hf⟩
  | @conn Γ t a b d lo hi ht _ _ iha ihb =>
    intro fuel p st ρ hinv hcov
    cases fuel with
    | zero => exact Res.zero ..
    | succ f =>
      rw [ev_conn ht]
      rcases iha f (some t) st ρ hinv (hcov.kid (by simp)) with ⟨b1, st1, h1, p1, d1⟩ | ⟨fl, k, hb, hf⟩
      · simp only [h1, R.asBool]
        by_cases hs1 : ((t == .AND && !b1) || (t == .OR && b1)) = true
        · simp only [hs1, if_true]
          exact Res.bool rfl p1 (by rw [denote_conn ht, d1]; simp only [dBool]; rw [kConn_short ht b1 _ hs1]; rfl)
        · simp only [hs1, Bool.false_eq_true, if_false]
          by_cases hs2 : (t == .IMPLICATION && !b1) = true
          · simp only [hs2, if_true]
            exact Res.bool rfl p1 (by rw [denote_conn ht, d1]; simp only [dBool]; rw [kConn_short_imp ht b1 _ hs2]; rfl)
          · simp only [hs2, Bool.false_eq_true, if_false]
            rcases ihb f (some t) st1 ρ p1 (hcov.kid (by simp)) with ⟨b2, st2, h2, p2, d2⟩ | ⟨fl, k, hb, hf⟩
            · simp only [h2]
              exact Res.bool rfl p2 (by rw [denote_conn ht, d1, d2]; simp only [dBool]; rw [kConn_full ht]; rfl)
            · exact Res.bad ⟨fl, k, by simp [hb], hf⟩
      · exact Res.bad ⟨fl, k, by simp [hb, R.asBool], hf⟩
  | @mem Γ t a b τ d lo hi ht hbid _ _ iha ihb =>
    intro fuel p st ρ hinv hcov
    cases fuel with
    | zero => exact Res.zero ..
    | succ f =>
      rw [ev_mem ht _ _ _ _ _ _ _ hbid]
      rcases iha f (some t) st ρ hinv (hcov.kid (by simp)) with ⟨v1, st1, h1, p1, w1, n1, d1⟩ | ⟨fl, k, hb, hf⟩
      · rcases ihb f (some t) st1 ρ p1 (hcov.kid (by simp)) with ⟨v2, st2, h2, p2, w2, _, d2⟩ | ⟨fl, k, hb, hf⟩
        · obtain ⟨ys, rfl⟩ := WF_coll_isSet w2
          simp only [h1, h2, R.asVal, R.asSet]
          exact Res.bool rfl p2 (by
            rw [denote_mem ht _ _ _ _ _ _ _ _ hbid, d1, d2]
            simp [dVal, dSet, members, mem_agrees_WF n1 w1 w2])
        · exact Res.bad ⟨fl, k, by simp [h1, hb, R.asVal, R.asSet], hf⟩
      · exact Res.bad ⟨fl, k, by simp [hb, R.asVal], hf⟩
  | @memPow Γ t a b τ d d' lo hi lo' hi' ht _ _ iha ihb =>
    intro fuel p st ρ hinv hcov
    cases fuel with
    | zero => exact Res.zero ..
    | succ f =>
      rw [ev_memPow ht]
      have hcb : Covered c.ids b := (hcov.kid (k := .node .BOOLEAN d' lo' hi' [b]) (by simp)).kid (by simp)
      rcases iha f (some t) st ρ hinv (hcov.kid (by simp)) with ⟨v1, st1, h1, p1, w1, n1, d1⟩ | ⟨fl, k, hb, hf⟩
      · rcases ihb f (some .BOOLEAN) st1 ρ p1 hcb with ⟨v2, st2, h2, p2, w2, _, d2⟩ | ⟨fl, k, hb, hf⟩
        · obtain ⟨xs, rfl⟩ := WF_coll_isSet w1
          obtain ⟨base, rfl⟩ := WF_coll_isSet w2
          simp only [h1, h2, R.asVal]
          split
          · exact Res.bad (bad_err _ _ _ (Or.inr (Or.inl rfl)))
          · exact Res.bool rfl p2 (by
              rw [denote_memPow ht, d1, d2]
              simp [dVal, dSet, members, subsetEq_agrees_WF (by simpa [noAny_coll] using n1) w1 w2])
        · exact Res.bad ⟨fl, k, by simp [h1, hb, R.asVal], hf⟩
      · exact Res.bad ⟨fl, k, by simp [hb, R.asVal], hf⟩
  | @sub Γ t a b τ d lo hi ht _ _ iha ihb =>
    intro fuel p st ρ hinv hcov
    cases fuel with
    | zero => exact Res.zero ..
    | succ f =>
      rw [ev_sub ht]
      rcases iha f (some t) st ρ hinv (hcov.kid (by simp)) with ⟨v1, st1, h1, p1, w1, n1, d1⟩ | ⟨fl, k, hb, hf⟩
      · rcases ihb f (some t) st1 ρ p1 (hcov.kid (by simp)) with ⟨v2, st2, h2, p2, w2, _, d2⟩ | ⟨fl, k, hb, hf⟩
        · obtain ⟨xs, rfl⟩ := WF_coll_isSet w1
          obtain ⟨ys, rfl⟩ := WF_coll_isSet w2
          simp only [h1, h2, R.asVal]
          rw [ev_sub_res]
          exact Res.bool rfl p2 (by
            rw [denote_sub ht, d1, d2]
            simp [dVal, dSet, members, sub_agrees ht (by simpa [noAny_coll] using n1) w1 w2])
        · exact Res.bad ⟨fl, k, by simp [h1, hb, R.asVal], hf⟩
      · exact Res.bad ⟨fl, k, by simp [hb, R.asVal], hf⟩
  | @empty Γ τ d lo hi hn =>
    intro fuel p st ρ hinv hcov
    cases fuel with
    | zero => exact Res.zero ..
    | succ f => exact Res.val (ev_empty ..) hinv (WF_empty τ) (by simpa [noAny_coll] using hn) (denote_empty ..)
  | intset Γ d lo hi =>
    intro fuel p st ρ hinv hcov
    cases fuel with
    | zero => exact Res.zero ..
    | succ f =>
      rw [ev_intset]
      exact Res.bad (bad_err _ _ _ (Or.inr (Or.inr (Or.inr (Or.inr (Or.inr rfl))))))
  | @enum Γ τ d lo hi ks hne _ ih =>
    intro fuel p st ρ hinv hcov
    cases fuel with
    | zero => exact Res.zero ..
    | succ f =>
      rw [ev_enum]
      rcases evKids_sim_hom c Γ ρ f .NT_ENUMERATION τ ks
          (fun k hk st' hp' => ih k hk f (some .NT_ENUMERATION) st' ρ hp' (hcov.kid hk)) [] st hinv with
        ⟨vs, st1, h1, p1, w1, n1, d1⟩ | ⟨fl, k, hb, hf⟩
      · simp only [h1, List.nil_append]
        exact Res.val rfl p1 (mkSet_WF w1) (by simpa [noAny_coll] using n1 hne) (by rw [denote_enum, d1]; rfl)
      · exact Res.bad ⟨fl, k, by simp [hb], hf⟩
  | @tuple Γ d lo hi ks ts hl2 hlen _ ih =>
    intro fuel p st ρ hinv hcov
    cases fuel with
    | zero => exact Res.zero ..
    | succ f =>
      rw [ev_tuple]
      have hk1 : (ks.zip ts).map (·.1) = ks := by
        rw [List.map_fst_zip]; omega
      have hk2 : (ks.zip ts).map (·.2) = ts := by
        rw [List.map_snd_zip]; omega
      rcases evKids_sim_het c Γ ρ f .NT_TUPLE (ks.zip ts)
          (fun q hq st' hp' => ih q hq f (some .NT_TUPLE) st' ρ hp' (hcov.kid (List.of_mem_zip hq).1)) [] st hinv with
        ⟨vs, st1, h1, p1, w1, d1⟩ | ⟨fl, k, hb, hf⟩
      · rw [hk1] at h1 d1
        rw [hk2] at w1
        obtain ⟨wfs, hna⟩ := forall₂_WFs w1
        have hvl : vs.length ≥ 2 := by rw [WFs_length wfs]; omega
        obtain ⟨e, w⟩ := mkTuple_WF wfs hvl
        simp only [h1, List.nil_append, e]
        refine Res.val rfl p1 w (by simpa [noAny_tuple] using hna) ?_
        rw [denote_tuple, d1]
        match vs, hvl with
        | _ :: _ :: _, _ => rfl
      · rw [hk1] at hb
        exact Res.bad ⟨fl, k, by simp [hb], hf⟩
  | @setOp Γ t a b τ d lo hi ht _ _ iha ihb =>
    intro fuel p st ρ hinv hcov
    cases fuel with
    | zero => exact Res.zero ..
    | succ f =>
      rw [ev_setOp ht]
      rcases iha f (some t) st ρ hinv (hcov.kid (by simp)) with ⟨v1, st1, h1, p1, w1, n1, d1⟩ | ⟨fl, k, hb, hf⟩
      · rcases ihb f (some t) st1 ρ p1 (hcov.kid (by simp)) with ⟨v2, st2, h2, p2, w2, _, d2⟩ | ⟨fl, k, hb, hf⟩
        · obtain ⟨xs, rfl⟩ := WF_coll_isSet w1
          obtain ⟨ys, rfl⟩ := WF_coll_isSet w2
          simp only [h1, h2, R.asVal]
          exact Res.val rfl p2 (setOp_WF w1 w2) n1 (by
            rw [denote_setOp ht, d1, d2]
            simp [dVal, dSet, members, setOp_agrees ht (by simpa [noAny_coll] using n1) w1 w2])
        · exact Res.bad ⟨fl, k, by simp [h1, hb, R.asVal], hf⟩
      · exact Res.bad ⟨fl, k, by simp [hb, R.asVal], hf⟩
  | @bool Γ a τ d lo hi _ ih =>
    intro fuel p st ρ hinv hcov
    cases fuel with
    | zero => exact Res.zero ..
    | succ f =>
      rw [ev_bool]
      rcases ih f (some .BOOL) st ρ hinv (hcov.kid (by simp)) with ⟨v1, st1, h1, p1, w1, n1, d1⟩ | ⟨fl, k, hb, hf⟩
      · simp only [h1, R.asVal]
        exact Res.val rfl p1 (singleton_WF w1) (by simpa [noAny_coll] using n1) (by
          rw [denote_bool, d1]; simp [dVal, setOf_singleton])
      · exact Res.bad ⟨fl, k, by simp [hb, R.asVal], hf⟩
  | @debool Γ a τ d lo hi _ ih =>
    intro fuel p st ρ hinv hcov
    cases fuel with
    | zero => exact Res.zero ..
    | succ f =>
      rw [ev_debool]
      rcases ih f (some .DEBOOL) st ρ hinv (hcov.kid (by simp)) with ⟨v1, st1, h1, p1, w1, n1, d1⟩ | ⟨fl, k, hb, hf⟩
      · obtain ⟨xs, rfl⟩ := WF_coll_isSet w1
        simp only [h1, R.asSet]
        match xs, w1, d1 with
        | [], _, _ => exact Res.bad (bad_err _ _ _ (Or.inr (Or.inr (Or.inr (Or.inr (Or.inl rfl))))))
        | [x], w1, d1 =>
          exact Res.val rfl p1 (w1.mem (by simp)) (by simpa [noAny_coll] using n1) (by
            rw [denote_debool, d1]; rfl)
        | _ :: _ :: _, _, _ => exact Res.bad (bad_err _ _ _ (Or.inr (Or.inr (Or.inr (Or.inr (Or.inl rfl))))))
      · exact Res.bad ⟨fl, k, by simp [hb, R.asSet], hf⟩
  | @reduce Γ a τ d lo hi _ ih =>
    intro fuel p st ρ hinv hcov
    cases fuel with
    | zero => exact Res.zero ..
    | succ f =>
      rw [ev_reduce]
      rcases ih f (some .REDUCE) st ρ hinv (hcov.kid (by simp)) with ⟨v1, st1, h1, p1, w1, n1, d1⟩ | ⟨fl, k, hb, hf⟩
      · obtain ⟨xs, rfl⟩ := WF_coll_isSet w1
        obtain ⟨r, hr, wr, dr⟩ := reduce_WF w1
        simp only [h1, R.asSet, hr]
        exact Res.val rfl p1 wr (by simpa [noAny_coll] using n1) (by
          rw [denote_reduce, d1]
          show Option.map SemVal.val (Option.map (fun ls => setOf ls.flatten) (List.mapM members xs)) = _
          rw [dr]; rfl)
      · exact Res.bad ⟨fl, k, by simp [hb, R.asSet], hf⟩
  | @smallpr Γ a ts τ idx lo hi _ hp ih =>
    intro fuel p st ρ hinv hcov
    cases fuel with
    | zero => exact Res.zero ..
    | succ f =>
      rw [ev_smallpr]
      rcases ih f (some .SMALLPR) st ρ hinv (hcov.kid (by simp)) with ⟨v1, st1, h1, p1, w1, n1, d1⟩ | ⟨fl, k, hb, hf⟩
      · obtain ⟨r, hr, wr⟩ := project_WF w1 hp
        simp only [h1, R.asVal, hr]
        exact Res.val rfl p1 wr (projTy_noAny (by simpa [noAny_tuple] using n1) hp) (by
          rw [denote_smallpr, d1]
          show Option.map SemVal.val (select v1 idx) = _
          rw [← project_eq_select, hr]; rfl)
      · exact Res.bad ⟨fl, k, by simp [hb, R.asVal], hf⟩
  | @bigpr Γ a ts τ idx lo hi _ hp ih =>
    intro fuel p st ρ hinv hcov
    cases fuel with
    | zero => exact Res.zero ..
    | succ f =>
      rw [ev_bigpr]
      rcases ih f (some .BIGPR) st ρ hinv (hcov.kid (by simp)) with ⟨v1, st1, h1, p1, w1, n1, d1⟩ | ⟨fl, k, hb, hf⟩
      · obtain ⟨xs, rfl⟩ := WF_coll_isSet w1
        obtain ⟨r, hr, wr, dr⟩ := projSet_WF w1 hp
        simp only [h1, R.asSet, hr]
        exact Res.val rfl p1 wr (by
            have : noAnyList ts = true := by simpa [noAny_coll, noAny_tuple] using n1
            simpa [noAny_coll] using projTy_noAny this hp) (by
          rw [denote_bigpr, d1]
          show Option.map SemVal.val (Option.map setOf (List.mapM (fun x => select x idx) xs)) = _
          rw [dr]; rfl)
      · exact Res.bad ⟨fl, k, by simp [hb, R.asSet], hf⟩
  | @pow Γ a τ d lo hi _ hsmall ih =>
    intro fuel p st ρ hinv hcov
    cases fuel with
    | zero => exact Res.zero ..
    | succ f =>
      rw [ev_boolean]
      rcases ih f (some .BOOLEAN) st ρ hinv (hcov.kid (by simp)) with ⟨v1, st1, h1, p1, w1, n1, d1⟩ | ⟨fl, k, hb, hf⟩
      · obtain ⟨xs, rfl⟩ := WF_coll_isSet w1
        have hlen : xs.length ≤ POW_BOUND := hsmall f ρ xs d1
        have wx := WF_set_iff.mp w1
        have hn : noAny τ = true := by simpa [noAny_coll] using n1
        -- the reference bound is within the model's enumeration limit, which is below the boolean limit
        have b1 : POW_BOUND ≤ POW_LIMIT := by decide
        have b2 : POW_LIMIT < Val.BOOL_INFINITY := by decide
        have c1 : ¬ (xs.length ≥ Val.BOOL_INFINITY) := by omega
        have c2 : ¬ (xs.length > POW_LIMIT) := by omega
        simp only [h1, R.asSet, c1, c2, decide_false, Bool.and_false, Bool.false_eq_true, if_false]
        refine Res.val rfl p1 ⟨pow_hasTy xs τ wx.1, pow_canon xs wx.2.1 wx.2.2⟩ (by simpa [noAny_coll] using hn) ?_
        rw [denote_boolean, d1]
        have c3 : ¬ (xs.length > POW_BOUND) := by omega
        simp only [dSet, dVal, members, Option.bind_some, c3, if_false]
        rw [pow_agrees xs τ hn wx.1 wx.2.2]
      · exact Res.bad ⟨fl, k, by simp [hb, R.asSet], hf⟩
  | @decart Γ d lo hi ks ts hl2 hlen _ ih =>
    intro fuel p st ρ hinv hcov
    cases fuel with
    | zero => exact Res.zero ..
    | succ f =>
      rw [ev_decart]
      have hk1 : ((ks.zip ts).map (fun q => (q.1, Ty.coll q.2))).map (·.1) = ks := by
        rw [List.map_map]
        show (ks.zip ts).map (·.1) = ks
        rw [List.map_fst_zip]; omega
      have hk2 : ((ks.zip ts).map (fun q => (q.1, Ty.coll q.2))).map (·.2) = ts.map Ty.coll := by
        rw [List.map_map]
        have : (ks.zip ts).map (fun q => Ty.coll q.2) = ((ks.zip ts).map (·.2)).map Ty.coll := by
          rw [List.map_map]; rfl
        show (ks.zip ts).map (fun q => Ty.coll q.2) = _
        rw [this, List.map_snd_zip]; omega
      rcases evKids_sim_het c Γ ρ f .DECART ((ks.zip ts).map (fun q => (q.1, Ty.coll q.2)))
          (fun q hq st' hp' => by
            obtain ⟨q0, hq0, rfl⟩ := List.mem_map.mp hq
            exact ih q0 hq0 f (some .DECART) st' ρ hp' (hcov.kid (List.of_mem_zip hq0).1)) [] st hinv with
        ⟨vs, st1, h1, p1, w1, d1⟩ | ⟨fl, k, hb, hf⟩
      · rw [hk1] at h1 d1
        rw [hk2] at w1
        obtain ⟨fs, rfl, hty, hcan, hsor, hna⟩ := forall₂_sets w1
        have hfl : fs.length ≥ 2 := by
          have := List.Forall₂.length_eq hty; omega
        simp only [h1, List.nil_append, allSome_sets]
        have hden : denote (senvOf env) (f + 1) ρ (.node .DECART d lo hi ks) =
            (if (fs.foldl (fun n f => n * f.length) 1) > PROD_BOUND then none
             else some (.val (setOf ((tuples fs).map Val.t)))) := by
          rw [denote_decart, mapM_dSet_of_dVal d1]
        have hnt : noAny (.coll (.tuple ts)) = true := by simpa [noAny_coll, noAny_tuple] using hna
        by_cases hemp : fs.any (·.isEmpty) = true
        · simp only [hemp, if_true]
          refine Res.val rfl p1 (WF_empty _) hnt ?_
          rw [hden, prod_foldl_of_empty fs 1 hemp, tuples_of_empty fs hemp]
          simp [PROD_BOUND, setOf, mkSet, mkSetList, insertAll]
        · simp only [hemp, Bool.false_eq_true, if_false]
          by_cases hinf : (Val.prodCard fs == Val.SET_INFINITY) = true
          · simp only [hinf, if_true]
            exact Res.bad (bad_err _ _ _ (Or.inl rfl))
          · simp only [hinf, Bool.false_eq_true, if_false]
            by_cases hbig : Val.prodCard fs > PROD_LIMIT
            · simp only [hbig, if_true]
              exact Res.bad (bad_outOfFuel _)
            · simp only [hbig, if_false]
              refine Res.val rfl p1 ⟨prod_hasTy fs ts hty, prod_canon fs hfl hcan hsor⟩ hnt ?_
              have hpc := prodCard_eq fs (by simpa using hinf)
              have : ¬ (fs.foldl (fun n f => n * f.length) 1 > PROD_BOUND) := by
                rw [← hpc]; simpa [PROD_LIMIT, PROD_BOUND] using hbig
              rw [hden, if_neg this, prod_agrees fs ts hna hty hsor]
      · rw [hk1] at hb
        exact Res.bad ⟨fl, k, by simp [hb], hf⟩
  | @glob Γ τ g lo hi _ hg =>
    intro fuel p st ρ hinv hcov
    cases fuel with
    | zero => exact Res.zero ..
    | succ f =>
      rw [ev_ident (Or.inr rfl)]
      obtain ⟨i, hi⟩ := hcov g (by simp [names, namesKids, tok_beq])
      obtain ⟨hn, v, hv, wv⟩ := hG g τ hg
      simp only [hi, hinv.glob g v i hv hi]
      exact Res.val rfl hinv wv hn (by
        rw [denote_global, assoc_eq_lookup]
        show Option.map SemVal.val (lookup g env.globals) = _
        rw [hv]; rfl)
  | @loc Γ τ x lo hi _ hx =>
    intro fuel p st ρ hinv hcov
    cases fuel with
    | zero => exact Res.zero ..
    | succ f =>
      rw [ev_ident (Or.inl rfl)]
      obtain ⟨i, hi⟩ := hcov x (by simp [names, namesKids, tok_beq])
      obtain ⟨_, hn, v, hfind, wv, hslot⟩ := hinv.loc x τ hx
      simp only [hi, hslot i hi]
      exact Res.val rfl hinv wv hn (by rw [denote_local, hfind])
  | @quant Γ t dom body τ d lo hi x dlo dhi _ ht hxΓ hxg _ _ ihd ihb =>
    intro fuel p st ρ hinv hcov
    cases fuel with
    | zero => exact Res.zero ..
    | succ f =>
      rw [ev_quant ht]
      obtain ⟨var, hvar⟩ := hcov x (names_kid (k := .node .ID_LOCAL (.text x) dlo dhi []) (by simp)
        (by simp [names, namesKids, tok_beq]))
      rcases ihd f (some t) st ρ hinv (hcov.kid (by simp)) with ⟨v1, st1, h1, p1, w1, n1, d1⟩ | ⟨fl, k, hb, hf⟩
      · obtain ⟨xs, rfl⟩ := WF_coll_isSet w1
        have hn : noAny τ = true := by simpa [noAny_coll] using n1
        simp only [h1, R.asSet, hvar]
        rcases quantLoop_sim (Inv env c Γ ρ) (fun st => ev c f body (some t) st)
            (fun v => dBool (denote (senvOf env) f (.val x v ρ) body)) var (t == .FORALL) lo xs
            (fun v hv st' n hp' => by
              rcases ihb f (some t) { data := st'.data.set var v, iters := n } (.val x v ρ)
                  (hp'.bind n hxΓ hxg hvar hn (w1.mem hv)) (hcov.kid (by simp)) with
                ⟨b, st'', hb, hp'', hd⟩ | hbad
              · exact Or.inl ⟨b, st'', hb, hp''.unbind hxΓ, by rw [hd]; rfl⟩
              · exact Or.inr hbad) st1 p1 with
          ⟨b, st2, h2, p2, hk⟩ | hbad
        · rw [h2]
          exact Res.bool rfl p2 (by
            rw [denote_quant ht, d1]
            simp only [dSet, dVal, members, Option.bind_some]
            rw [hk]; rfl)
        · exact Res.bad hbad
      · exact Res.bad ⟨fl, k, by simp [hb, R.asSet], hf⟩
  | @decl Γ dom body τ d lo hi x dlo dhi _ hxΓ hxg _ _ ihd ihb =>
    intro fuel p st ρ hinv hcov
    cases fuel with
    | zero => exact Res.zero ..
    | succ f =>
      rw [ev_decl]
      obtain ⟨var, hvar⟩ := hcov x (names_kid (k := .node .ID_LOCAL (.text x) dlo dhi []) (by simp)
        (by simp [names, namesKids, tok_beq]))
      rcases ihd f (some .NT_DECLARATIVE_EXPR) st ρ hinv (hcov.kid (by simp)) with
        ⟨v1, st1, h1, p1, w1, n1, d1⟩ | ⟨fl, k, hb, hf⟩
      · obtain ⟨xs, rfl⟩ := WF_coll_isSet w1
        have hn : noAny τ = true := by simpa [noAny_coll] using n1
        simp only [h1, R.asSet, hvar]
        rcases declLoop_sim (Inv env c Γ ρ) (fun st => ev c f body (some .NT_DECLARATIVE_EXPR) st)
            (fun v => dBool (denote (senvOf env) f (.val x v ρ) body)) var lo τ xs (fun v hv => w1.mem hv)
            (fun v hv st' n hp' => by
              rcases ihb f (some .NT_DECLARATIVE_EXPR) { data := st'.data.set var v, iters := n } (.val x v ρ)
                  (hp'.bind n hxΓ hxg hvar hn (w1.mem hv)) (hcov.kid (by simp)) with
                ⟨b, st'', hb, hp'', hd⟩ | hbad
              · exact Or.inl ⟨b, st'', hb, hp''.unbind hxΓ, by rw [hd]; rfl⟩
              · exact Or.inr hbad) [] st1 p1 (WF_empty τ) with
          ⟨flags, st2, h2, p2, wf2, hm⟩ | hbad
        · rw [h2]
          exact Res.val rfl p2 wf2 n1 (by
            rw [denote_decl, d1]
            simp only [dSet, dVal, members, Option.bind_some]
            rw [hm]; rfl)
        · exact Res.bad hbad
      · exact Res.bad ⟨fl, k, by simp [hb, R.asSet], hf⟩

end CCVerif.Eval
