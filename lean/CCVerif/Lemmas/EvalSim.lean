import CCVerif.Lemmas.EvalFrag
import CCVerif.Lemmas.EvalRecImp
import CCVerif.Lemmas.EvalEnum
import CCVerif.Lemmas.EvalTuple
/-! The simulation: on the fragments of `Lemmas/EvalFrag.lean` the interpreter transcription `ev`
answers the value of the reference semantics `denote` (well-formed at the type), or runs out of
the model's fuel, or raises a documented error; it is never `stuck`.  One induction serves C01
(refinement) and C02 (progress + preservation). -/
namespace CCVerif.Eval
open CCVerif.Syntax CCVerif.Spec CCVerif.Norm
open Val Ty

variable {env : Env}

theorem Res.val {fuel : Nat} {ρ : LEnv} {a : Ast} {P : St → Prop} {ty : Ty} {r : R V} {v : Val} {st' : St}
    (hr : r = .ok (.val v) st') (hp : P st') (hw : WF v ty) (hn : noAny ty = true)
    (hd : ∀ f', fuel ≤ f' → denote (senvOf env) f' ρ a = some (.val v)) : Res env fuel ρ a P (.ty ty) r :=
  Or.inl (show ∃ v st', r = .ok (.val v) st' ∧ P st' ∧ WF v ty ∧ noAny ty = true ∧
    ∀ f', fuel ≤ f' → denote (senvOf env) f' ρ a = some (.val v) from ⟨v, st', hr, hp, hw, hn, hd⟩)

theorem Res.bool {fuel : Nat} {ρ : LEnv} {a : Ast} {P : St → Prop} {r : R V} {b : Bool} {st' : St}
    (hr : r = .ok (.bool b) st') (hp : P st')
    (hd : ∀ f', fuel ≤ f' → denote (senvOf env) f' ρ a = some (.bool b)) : Res env fuel ρ a P .logic r :=
  Or.inl (show ∃ b st', r = .ok (.bool b) st' ∧ P st' ∧ ∀ f', fuel ≤ f' → denote (senvOf env) f' ρ a = some (.bool b) from
    ⟨b, st', hr, hp, hd⟩)

theorem Res.bad {fuel : Nat} {ρ : LEnv} {a : Ast} {P : St → Prop} {τ : ExprTy} {r : R V} (h : Bad r) :
    Res env fuel ρ a P τ r := Or.inr h

theorem Res.zero (c : Ctx) (ρ : LEnv) (a a' : Ast) (P : St → Prop) (τ : ExprTy) (p : Option Tok) (st : St) :
    Res env 0 ρ a P τ (ev c 0 a' p st) := by
  rw [ev_zero]; exact Res.bad (bad_outOfFuel _)

theorem Covered.kid {ids : List (String × Nat)} {t : Tok} {d : TokData} {lo hi : Int} {ks : List Ast} {k : Ast}
    (h : Covered ids (.node t d lo hi ks)) (hk : k ∈ ks) : Covered ids k :=
  fun n hn => h n (names_kid hk hn)

theorem noAny_coll (τ : Ty) : noAny (.coll τ) = noAny τ := by simp [noAny]
theorem noAny_tuple (ts : List Ty) : noAny (.tuple ts) = noAnyList ts := by simp [noAny]

/-! ## connectives -/

theorem kConn_short {t : Tok} (ht : isConn t) (b1 : Bool) (y : Option Bool)
    (h : ((t == .AND && !b1) || (t == .OR && b1)) = true) : kConn t (some b1) y = some b1 := by
  rcases ht with rfl | rfl | rfl | rfl <;> cases b1 <;> simp [tok_beq] at h <;> rcases y with _ | (_ | _) <;>
    simp [kConn, kAnd, kOr]

theorem kConn_short_imp {t : Tok} (ht : isConn t) (b1 : Bool) (y : Option Bool)
    (h : (t == .IMPLICATION && !b1) = true) : kConn t (some b1) y = some true := by
  rcases ht with rfl | rfl | rfl | rfl <;> cases b1 <;> simp [tok_beq] at h <;> rcases y with _ | (_ | _) <;>
    simp [kConn, kOr, kNot]

theorem kConn_full {t : Tok} (ht : isConn t) (b1 b2 : Bool) : kConn t (some b1) (some b2) = some (connOp t b1 b2) := by
  rcases ht with rfl | rfl | rfl | rfl <;> cases b1 <;> cases b2 <;> simp [kConn, kAnd, kOr, kNot, connOp]

/-! ## `⊂ ⊆ ⊄` -/

theorem ev_sub_res (t : Tok) (xs ys : List Val) (st2 : St) :
    (if (t == .SUBSET && Val.cmp (.s xs) (.s ys) == .eq) = true then R.ok (V.bool false) st2
     else if (t == .NOTSUBSET && Val.cmp (.s xs) (.s ys) == .eq) = true then R.ok (V.bool true) st2
     else match Val.s xs, Val.s ys with
       | .s xs, .s ys => R.ok (V.bool (if t == .NOTSUBSET then !Val.subsetEq xs ys else Val.subsetEq xs ys)) st2
       | _, _ => R.fail (.stuck "ViSetexprBinary B() of a non-set") st2.iters) =
    R.ok (V.bool (subRes t xs ys)) st2 := by
  unfold subRes
  split
  · rfl
  · split
    · rfl
    · rfl

/-! ## children lists -/

/-- the goal `∀ f', f + 1 ≤ f' → …` of a reference value, with `f' = g + 1` -/
theorem forall_succ_fuel {P : Nat → Prop} {f : Nat} (h : ∀ g, f ≤ g → P (g + 1)) : ∀ f', f + 1 ≤ f' → P f' := by
  intro f' hf'
  obtain ⟨g, rfl⟩ : ∃ g, f' = g + 1 := ⟨f' - 1, by omega⟩
  exact h g (by omega)

macro "dsucc " g:ident hg:ident : tactic => `(tactic| refine forall_succ_fuel (fun $g $hg => ?_))

/-- all children at one type (`{e₁,…,eₙ}`); pairs (source, normal form) -/
theorem evKids_sim_hom (c : Ctx) (rz : Rz) (Γ : TCtx) (ρ : LEnv) (f : Nat) (t : Tok) (τ : Ty) : ∀ (kps : List (Ast × Ast)),
    (∀ q ∈ kps, ∀ st, Inv env c rz Γ ρ st →
      Res env f ρ q.1 (fun st' => st'.data = st.data ∧ st.iters ≤ st'.iters) (.ty τ) (ev c f q.2 (some t) st)) →
    ∀ acc st, Inv env c rz Γ ρ st →
      (∃ vs st', evKids c f t (kps.map (·.2)) acc st = .ok (acc ++ vs) st' ∧ st'.data = st.data ∧ st.iters ≤ st'.iters ∧
        (∀ v ∈ vs, WF v τ) ∧ (kps ≠ [] → noAny τ = true) ∧
        ∀ f', f ≤ f' → (kps.map (·.1)).mapM (fun k => dVal (denote (senvOf env) f' ρ k)) = some vs) ∨
      Bad (evKids c f t (kps.map (·.2)) acc st)
  | [], _, acc, st, hp => Or.inl ⟨[], st, by simp [evKids], rfl, Nat.le_refl _, by simp, by simp, by simp⟩
  | q :: kps, h, acc, st, hp => by
    simp only [List.map_cons, evKids]
    rcases h q (by simp) st hp with ⟨v, st1, h1, ⟨p1, m1⟩, w1, n1, d1⟩ | ⟨fl, n, hb, hf⟩
    · simp only [h1, R.asVal]
      rcases evKids_sim_hom c rz Γ ρ f t τ kps (fun k' hk' => h k' (by simp [hk'])) (acc ++ [v]) st1 (hp.of_data p1) with
        ⟨vs, st2, h2, p2, m2, w2, _, d2⟩ | hbad
      · left
        refine ⟨v :: vs, st2, by simpa using h2, by rw [p2, p1], by omega, ?_, fun _ => n1,
          fun f' hf' => by rw [List.mapM_cons, d1 f' hf', d2 f' hf']; rfl⟩
        intro y hy
        rcases List.mem_cons.mp hy with rfl | m
        · exact w1
        · exact w2 y m
      · exact Or.inr hbad
    · simp only [hb, R.asVal]
      exact Or.inr ⟨fl, n, rfl, hf⟩

/-- children at their own types (tuples, products) -/
theorem evKids_sim_het (c : Ctx) (rz : Rz) (Γ : TCtx) (ρ : LEnv) (f : Nat) (t : Tok) : ∀ (kts : List ((Ast × Ast) × Ty)),
    (∀ q ∈ kts, ∀ st, Inv env c rz Γ ρ st →
      Res env f ρ q.1.1 (fun st' => st'.data = st.data ∧ st.iters ≤ st'.iters) (.ty q.2) (ev c f q.1.2 (some t) st)) →
    ∀ acc st, Inv env c rz Γ ρ st →
      (∃ vs st', evKids c f t (kts.map (·.1.2)) acc st = .ok (acc ++ vs) st' ∧ st'.data = st.data ∧ st.iters ≤ st'.iters ∧
        List.Forall₂ (fun v ty => WF v ty ∧ noAny ty = true) vs (kts.map (·.2)) ∧
        ∀ f', f ≤ f' → (kts.map (·.1.1)).mapM (fun k => dVal (denote (senvOf env) f' ρ k)) = some vs) ∨
      Bad (evKids c f t (kts.map (·.1.2)) acc st)
  | [], _, acc, st, hp => Or.inl ⟨[], st, by simp [evKids], rfl, Nat.le_refl _, .nil, by simp⟩
  | q :: kts, h, acc, st, hp => by
    simp only [List.map_cons, evKids]
    rcases h q (by simp) st hp with ⟨v, st1, h1, ⟨p1, m1⟩, w1, n1, d1⟩ | ⟨fl, n, hb, hf⟩
    · simp only [h1, R.asVal]
      rcases evKids_sim_het c rz Γ ρ f t kts (fun k' hk' => h k' (by simp [hk'])) (acc ++ [v]) st1 (hp.of_data p1) with
        ⟨vs, st2, h2, p2, m2, w2, d2⟩ | hbad
      · left
        exact ⟨v :: vs, st2, by simpa using h2, by rw [p2, p1], by omega, .cons ⟨w1, n1⟩ w2,
          fun f' hf' => by rw [List.mapM_cons, d1 f' hf', d2 f' hf']; rfl⟩
      · exact Or.inr hbad
    · simp only [hb, R.asVal]
      exact Or.inr ⟨fl, n, rfl, hf⟩

theorem forall₂_WFs : ∀ {vs : List Val} {ts : List Ty}, List.Forall₂ (fun v ty => WF v ty ∧ noAny ty = true) vs ts →
    WFs vs ts ∧ noAnyList ts = true
  | _, _, .nil => ⟨WFs_nil, rfl⟩
  | _, _, .cons h r => by
    obtain ⟨a, b⟩ := forall₂_WFs r
    simp only [WFs, hasTyList, canonAll, noAnyList, Bool.and_eq_true]
    exact ⟨⟨⟨h.1.1, a.1⟩, h.1.2, a.2⟩, h.2, b⟩

/-- a list of set values, typed member-wise: the factor lists -/
theorem forall₂_sets : ∀ {vs : List Val} {ts : List Ty},
    List.Forall₂ (fun v ty => WF v ty ∧ noAny ty = true) vs (ts.map Ty.coll) →
    ∃ fs : List (List Val), vs = fs.map Val.s ∧ List.Forall₂ (fun f ty => hasTyAll f ty = true) fs ts ∧
      (∀ f ∈ fs, canonAll f = true) ∧ (∀ f ∈ fs, sortedStrict f = true) ∧ noAnyList ts = true
  | [], [], _ => ⟨[], rfl, .nil, by simp, by simp, rfl⟩
  | _ :: _, [], h => by cases h
  | [], _ :: _, h => by cases h
  | v :: vs, ty :: ts, h => by
    cases h with
    | cons hv hr =>
      obtain ⟨fs, e, a, b, c, d⟩ := forall₂_sets hr
      obtain ⟨xs, rfl⟩ := WF_coll_isSet hv.1
      have w := WF_set_iff.mp hv.1
      refine ⟨xs :: fs, by simp [e], .cons w.1 a, ?_, ?_, ?_⟩
      · intro g hg; rcases List.mem_cons.mp hg with rfl | m; exact w.2.1; exact b g m
      · intro g hg; rcases List.mem_cons.mp hg with rfl | m; exact w.2.2; exact c g m
      · simp only [noAnyList, Bool.and_eq_true]; exact ⟨by simpa [noAny_coll] using hv.2, d⟩

theorem allSome_sets (fs : List (List Val)) :
    allSome ((fs.map Val.s).map members) = some fs := by
  induction fs with
  | nil => rfl
  | cons f fs ih =>
    show allSome (some f :: _) = some (f :: fs)
    simp only [allSome]
    rw [ih]; rfl

theorem mapM_dSet_of_dVal {g : Ast → Option SemVal} : ∀ {ks : List Ast} {fs : List (List Val)},
    ks.mapM (fun k => dVal (g k)) = some (fs.map Val.s) → ks.mapM (fun k => dSet (g k)) = some fs
  | [], fs, h => by
    simp at h
    cases fs with
    | nil => simp
    | cons _ _ => simp at h
  | k :: ks, fs, h => by
    simp only [List.mapM_cons, Option.pure_def, Option.bind_eq_bind] at h ⊢
    cases h1 : dVal (g k) with
    | none => simp [h1] at h
    | some v =>
      cases h2 : List.mapM (fun k => dVal (g k)) ks with
      | none => simp [h1, h2] at h
      | some vs =>
        simp [h1, h2] at h
        cases fs with
        | nil => simp at h
        | cons f fs =>
          simp at h
          obtain ⟨rfl, rfl⟩ := h
          have e1 : dSet (g k) = some f := by simp [dSet, h1, members]
          rw [e1, mapM_dSet_of_dVal h2]; rfl

theorem prod_foldl_zero : ∀ (fs : List (List Val)), fs.foldl (fun n f => n * f.length) 0 = 0
  | [] => rfl
  | _ :: fs => by simp [List.foldl_cons, prod_foldl_zero fs]

theorem prod_foldl_of_empty : ∀ (fs : List (List Val)) (n : Nat), fs.any (·.isEmpty) = true →
    fs.foldl (fun n f => n * f.length) n = 0
  | [], _, h => by simp at h
  | f :: fs, n, h => by
    simp only [List.any_cons, Bool.or_eq_true] at h
    simp only [List.foldl_cons]
    rcases h with h | h
    · have : f = [] := by simpa using h
      subst this; simp [prod_foldl_zero]
    · exact prod_foldl_of_empty fs _ h

/-! ## blocks of `I{…}`: metadata and children -/

/-- the metadata `CreateBlockMetadata` computes for a block -/
def metaOf (c : Ctx) : Blk → BlockMeta
  | .iter x _ _ _ _ _ _ _ _ => ⟨.ITERATE, (lookup x c.ids).getD 0⟩
  | .asg x _ _ _ _ _ _ _ _ => ⟨.ASSIGN, (lookup x c.ids).getD 0⟩
  | .guard _ g' => ⟨g'.id, 0⟩

/-- the variable of a block has a slot; a condition is no block node -/
def Blk.slotOK (c : Ctx) : Blk → Prop
  | .iter x _ _ _ _ _ _ _ _ => ∃ var, lookup x c.ids = some var
  | .asg x _ _ _ _ _ _ _ _ => ∃ var, lookup x c.ids = some var
  | .guard _ g' => g'.id ≠ .ITERATE ∧ g'.id ≠ .ASSIGN

theorem impMeta_core (c : Ctx) (b : Blk) (h : b.slotOK c) : impMeta c b.core = some (metaOf c b) := by
  cases b with
  | iter x dom dom' σ d lo hi dlo dhi =>
    obtain ⟨var, hv⟩ := h
    simp [impMeta, Blk.core, Ast.id, Ast.kids, firstVar_local, hv, metaOf, tok_beq]
  | asg x ex ex' σ d lo hi dlo dhi =>
    obtain ⟨var, hv⟩ := h
    simp [impMeta, Blk.core, Ast.id, Ast.kids, firstVar_local, hv, metaOf, tok_beq]
  | guard g g' =>
    have e1 : (g'.id == Tok.ITERATE) = false := by simpa [tok_beq] using h.1
    have e2 : (g'.id == Tok.ASSIGN) = false := by simpa [tok_beq] using h.2
    simp [impMeta, Blk.core, e1, e2, metaOf]

theorem impMetas_ok (c : Ctx) : ∀ (bs : List Blk), (∀ b ∈ bs, b.slotOK c) →
    allSome ((bs.map Blk.core).map (impMeta c)) = some (bs.map (metaOf c))
  | [], _ => rfl
  | b :: bs, h => by
    simp only [List.map_cons, impMeta_core c b (h b (by simp)), allSome,
      impMetas_ok c bs (fun b' hb' => h b' (by simp [hb']))]
    rfl

theorem getElem?_split {α} (pre : List α) (b : α) (post : List α) : (pre ++ b :: post)[pre.length]? = some b := by
  simp

theorem slot_some {α} {d : List α} {i : Nat} (h : i < d.length) : ∃ v, d[i]? = some v :=
  ⟨d[i], by simp [h]⟩

/-- the slot guards of `I{…}`: one per ITERATE / ASSIGN block, holding the current value of the slot -/
theorem impGuards_ok (data : List Val) : ∀ (metas : List BlockMeta),
    (∀ m ∈ metas, (m.rootID = .ITERATE ∨ m.rootID = .ASSIGN) → m.arg < data.length) →
    ∃ saved, impGuards data metas = some saved ∧ (∀ q ∈ saved, data[q.1]? = some q.2) ∧
      ∀ m ∈ metas, (m.rootID = .ITERATE ∨ m.rootID = .ASSIGN) → m.arg ∈ saved.map (·.1)
  | [], _ => ⟨[], rfl, by simp, by simp⟩
  | m :: ms, h => by
    obtain ⟨saved, h1, h2, h3⟩ := impGuards_ok data ms (fun m' hm' => h m' (by simp [hm']))
    by_cases hm : (m.rootID == .ITERATE || m.rootID == .ASSIGN) = true
    · have hm' : m.rootID = .ITERATE ∨ m.rootID = .ASSIGN := by simpa [tok_beq] using hm
      obtain ⟨v, hv⟩ := slot_some (h m (by simp) hm')
      refine ⟨(m.arg, v) :: saved, by simp [impGuards, hm, hv, h1], ?_, ?_⟩
      · intro q hq
        rcases List.mem_cons.mp hq with rfl | hq
        · exact hv
        · exact h2 q hq
      · intro m' hm1 hr
        rcases List.mem_cons.mp hm1 with rfl | hm1
        · simp
        · simp [h3 m' hm1 hr]
    · refine ⟨saved, by simp [impGuards, hm, h1], h2, ?_⟩
      intro m' hm1 hr
      rcases List.mem_cons.mp hm1 with rfl | hm1
      · have : (m'.rootID == .ITERATE || m'.rootID == .ASSIGN) = true := by simpa [tok_beq] using hr
        exact absurd this hm
      · exact h3 m' hm1 hr

/-- every name of the nested quantifiers has a slot: so have the variables, the domain and the body -/
theorem covered_nest {ids : List (String × Nat)} (t : Tok) (d : TokData) (lo hi : Int) (dom' body' : Ast) :
    ∀ (xs : List EDecl), Covered ids (nest t d lo hi dom' body' xs) →
      Covered ids body' ∧ (xs ≠ [] → Covered ids dom') ∧ ∀ q ∈ xs, ∃ i, lookup q.1 ids = some i
  | [], h => ⟨h, fun h' => absurd rfl h', by simp⟩
  | q :: xs, h => by
    have hk : Covered ids (nest t d lo hi dom' body' xs) := Covered.kid (t := t) (d := d) (lo := lo) (hi := hi) h (by simp)
    obtain ⟨h1, _, h3⟩ := covered_nest t d lo hi dom' body' xs hk
    refine ⟨h1, fun _ => Covered.kid (t := t) (d := d) (lo := lo) (hi := hi) h (by simp), ?_⟩
    intro q' hq'
    rcases List.mem_cons.mp hq' with rfl | hq'
    · exact h q'.1 (names_kid (k := declNode q') (by simp) (by simp [declNode, names, namesKids, tok_beq]))
    · exact h3 q' hq'

/-! ## the simulation -/

/-- **the simulation**: `a` is an expression of the fragment and `a'` its normal form; on `a'` (all names
have slots: `Covered`), from a state that satisfies the invariant, `ev` returns the value `denote` assigns to
`a` at the evaluator's fuel and at every larger one (well-formed at the type, invariant kept, the iteration
counter not decreased), or fails with the model's `outOfFuel`, or with a documented error -/
theorem sim {G : TCtx} {lvl : Nat} (hG : GlobalsOK env G) (c : Ctx) {rz : Rz} {Γ : TCtx} {a a' : Ast} {τ : ExprTy}
    (h : FragR env G lvl rz Γ a a' τ) : ∀ (fuel : Nat) (p : Option Tok) (st : St) (ρ : LEnv),
    Inv env c rz Γ ρ st → Covered c.ids a' →
    Res env fuel ρ a (fun st' => st'.data = st.data ∧ st.iters ≤ st'.iters) τ (ev c fuel a' p st) := by
  induction h with
  | lit Γ n lo hi =>
    intro fuel p st ρ hinv hcov
    cases fuel with
    | zero => exact Res.zero ..
    | succ f =>
      exact Res.val (ev_lit ..) ⟨rfl, Nat.le_refl _⟩ (WF_int _ _) rfl (by dsucc g hg; exact denote_lit ..)
  | @arith rz Γ t a b a' b' d lo hi ht _ _ iha ihb =>
    intro fuel p st ρ hinv hcov
    cases fuel with
    | zero => exact Res.zero ..
    | succ f =>
      rw [ev_arith ht]
      rcases iha f (some t) st ρ hinv (hcov.kid (by simp)) with ⟨v1, st1, h1, ⟨p1, m1⟩, w1, _, d1⟩ | ⟨fl, k, hb, hf⟩
      · obtain ⟨x, rfl⟩ := WF_Z_isInt w1
        rcases ihb f (some t) st1 ρ (hinv.of_data p1) (hcov.kid (by simp)) with ⟨v2, st2, h2, ⟨p2, m2⟩, w2, _, d2⟩ | ⟨fl, k, hb, hf⟩
        · obtain ⟨y, rfl⟩ := WF_Z_isInt w2
          simp only [h1, h2, R.asInt]
          by_cases hok : int32ok (arithOp t x y) = true
          · simp only [hok, if_true]
            exact Res.val rfl ⟨by rw [p2, p1], by omega⟩ (WF_int _ _) rfl (by
              dsucc g hg; rw [denote_arith ht, d1 g (by omega), d2 g (by omega)]; rfl)
          · simp only [hok]
            exact Res.bad (bad_err _ _ _ (Or.inl rfl))
        · exact Res.bad ⟨fl, k, by simp [h1, hb, R.asInt], hf⟩
      · exact Res.bad ⟨fl, k, by simp [hb, R.asInt], hf⟩
  | @card rz Γ a a' τ d lo hi _ ih =>
    intro fuel p st ρ hinv hcov
    cases fuel with
    | zero => exact Res.zero ..
    | succ f =>
      rw [ev_card]
      rcases ih f (some .CARD) st ρ hinv (hcov.kid (by simp)) with ⟨v1, st1, h1, ⟨p1, m1⟩, w1, _, d1⟩ | ⟨fl, k, hb, hf⟩
      · obtain ⟨xs, rfl⟩ := WF_coll_isSet w1
        simp only [h1, R.asSet]
        exact Res.val rfl ⟨p1, m1⟩ (WF_int _ _) rfl (by dsucc g hg; rw [denote_card, d1 g (by omega)]; rfl)
      · exact Res.bad ⟨fl, k, by simp [hb, R.asSet], hf⟩
  | @cmp rz Γ t a b a' b' d lo hi ht _ _ iha ihb =>
    intro fuel p st ρ hinv hcov
    cases fuel with
    | zero => exact Res.zero ..
    | succ f =>
      rw [ev_intCmp ht]
      rcases iha f (some t) st ρ hinv (hcov.kid (by simp)) with ⟨v1, st1, h1, ⟨p1, m1⟩, w1, _, d1⟩ | ⟨fl, k, hb, hf⟩
      · obtain ⟨x, rfl⟩ := WF_Z_isInt w1
        rcases ihb f (some t) st1 ρ (hinv.of_data p1) (hcov.kid (by simp)) with ⟨v2, st2, h2, ⟨p2, m2⟩, w2, _, d2⟩ | ⟨fl, k, hb, hf⟩
        · obtain ⟨y, rfl⟩ := WF_Z_isInt w2
          simp only [h1, h2, R.asInt]
          exact Res.bool rfl ⟨by rw [p2, p1], by omega⟩ (by
            dsucc g hg; rw [denote_intCmp ht, d1 g (by omega), d2 g (by omega)]; rfl)
        · exact Res.bad ⟨fl, k, by simp [h1, hb, R.asInt], hf⟩
      · exact Res.bad ⟨fl, k, by simp [hb, R.asInt], hf⟩
  | @eq rz Γ t a b a' b' τ d lo hi ht _ _ iha ihb =>
    intro fuel p st ρ hinv hcov
    cases fuel with
    | zero => exact Res.zero ..
    | succ f =>
      rw [ev_eq ht]
      rcases iha f (some t) st ρ hinv (hcov.kid (by simp)) with ⟨v1, st1, h1, ⟨p1, m1⟩, w1, _, d1⟩ | ⟨fl, k, hb, hf⟩
      · rcases ihb f (some t) st1 ρ (hinv.of_data p1) (hcov.kid (by simp)) with ⟨v2, st2, h2, ⟨p2, m2⟩, w2, _, d2⟩ | ⟨fl, k, hb, hf⟩
        · simp only [h1, h2]
          exact Res.bool rfl ⟨by rw [p2, p1], by omega⟩ (by
            dsucc g hg; rw [denote_eq ht, d1 g (by omega), d2 g (by omega)]; simp [dVal, cmp_beq_eq])
        · exact Res.bad ⟨fl, k, by simp [h1, hb], hf⟩
      · exact Res.bad ⟨fl, k, by simp [hb], hf⟩
  | @not rz Γ a a' d lo hi _ ih =>
    intro fuel p st ρ hinv hcov
    cases fuel with
    | zero => exact Res.zero ..
    | succ f =>
      rw [ev_not]
      rcases ih f (some .NOT) st ρ hinv (hcov.kid (by simp)) with ⟨b1, st1, h1, ⟨p1, m1⟩, d1⟩ | ⟨fl, k, hb, hf⟩
      · simp only [h1, R.asBool]
        exact Res.bool rfl ⟨p1, m1⟩ (by dsucc g hg; rw [denote_not, d1 g (by omega)]; rfl)
      · exact Res.bad ⟨fl, k, by simp [hb, R.asBool], hf⟩
  | @conn rz Γ t a b a' b' d lo hi ht _ _ iha ihb =>
    intro fuel p st ρ hinv hcov
    cases fuel with
    | zero => exact Res.zero ..
    | succ f =>
      rw [ev_conn ht]
      rcases iha f (some t) st ρ hinv (hcov.kid (by simp)) with ⟨b1, st1, h1, ⟨p1, m1⟩, d1⟩ | ⟨fl, k, hb, hf⟩
      · simp only [h1, R.asBool]
        by_cases hs1 : ((t == .AND && !b1) || (t == .OR && b1)) = true
        · simp only [hs1, if_true]
          exact Res.bool rfl ⟨p1, m1⟩ (by
            dsucc g hg; rw [denote_conn ht, d1 g (by omega)]; simp only [dBool]; rw [kConn_short ht b1 _ hs1]; rfl)
        · simp only [hs1, Bool.false_eq_true, if_false]
          by_cases hs2 : (t == .IMPLICATION && !b1) = true
          · simp only [hs2, if_true]
            exact Res.bool rfl ⟨p1, m1⟩ (by
              dsucc g hg; rw [denote_conn ht, d1 g (by omega)]; simp only [dBool]; rw [kConn_short_imp ht b1 _ hs2]; rfl)
          · simp only [hs2, Bool.false_eq_true, if_false]
            rcases ihb f (some t) st1 ρ (hinv.of_data p1) (hcov.kid (by simp)) with ⟨b2, st2, h2, ⟨p2, m2⟩, d2⟩ | ⟨fl, k, hb, hf⟩
            · simp only [h2]
              exact Res.bool rfl ⟨by rw [p2, p1], by omega⟩ (by
                dsucc g hg; rw [denote_conn ht, d1 g (by omega), d2 g (by omega)]; simp only [dBool]
                rw [kConn_full ht]; rfl)
            · exact Res.bad ⟨fl, k, by simp [hb], hf⟩
      · exact Res.bad ⟨fl, k, by simp [hb, R.asBool], hf⟩
  | @mem rz Γ t a b a' b' τ d lo hi ht hbid hbid' _ _ iha ihb =>
    intro fuel p st ρ hinv hcov
    cases fuel with
    | zero => exact Res.zero ..
    | succ f =>
      rw [ev_mem ht _ _ _ _ _ _ _ hbid']
      rcases iha f (some t) st ρ hinv (hcov.kid (by simp)) with ⟨v1, st1, h1, ⟨p1, m1⟩, w1, n1, d1⟩ | ⟨fl, k, hb, hf⟩
      · rcases ihb f (some t) st1 ρ (hinv.of_data p1) (hcov.kid (by simp)) with ⟨v2, st2, h2, ⟨p2, m2⟩, w2, _, d2⟩ | ⟨fl, k, hb, hf⟩
        · obtain ⟨ys, rfl⟩ := WF_coll_isSet w2
          simp only [h1, h2, R.asVal, R.asSet]
          exact Res.bool rfl ⟨by rw [p2, p1], by omega⟩ (by
            dsucc g hg
            rw [denote_mem ht _ _ _ _ _ _ _ _ hbid, d1 g (by omega), d2 g (by omega)]
            simp [dVal, dSet, members, mem_agrees_WF n1 w1 w2])
        · exact Res.bad ⟨fl, k, by simp [h1, hb, R.asVal, R.asSet], hf⟩
      · exact Res.bad ⟨fl, k, by simp [hb, R.asVal], hf⟩
  | @memPow rz Γ t a b a' b' τ d d' lo hi lo' hi' ht _ _ iha ihb =>
    intro fuel p st ρ hinv hcov
    cases fuel with
    | zero => exact Res.zero ..
    | succ f =>
      rw [ev_memPow ht]
      have hcb : Covered c.ids b' := (hcov.kid (k := .node .BOOLEAN d' lo' hi' [b']) (by simp)).kid (by simp)
      rcases iha f (some t) st ρ hinv (hcov.kid (by simp)) with ⟨v1, st1, h1, ⟨p1, m1⟩, w1, n1, d1⟩ | ⟨fl, k, hb, hf⟩
      · rcases ihb f (some .BOOLEAN) st1 ρ (hinv.of_data p1) hcb with ⟨v2, st2, h2, ⟨p2, m2⟩, w2, _, d2⟩ | ⟨fl, k, hb, hf⟩
        · obtain ⟨xs, rfl⟩ := WF_coll_isSet w1
          obtain ⟨base, rfl⟩ := WF_coll_isSet w2
          simp only [h1, h2, R.asVal]
          split
          · exact Res.bad (bad_err _ _ _ (Or.inr (Or.inl rfl)))
          · exact Res.bool rfl ⟨by rw [p2, p1], by omega⟩ (by
              dsucc g hg
              rw [denote_memPow ht, d1 g (by omega), d2 g (by omega)]
              simp [dVal, dSet, members, subsetEq_agrees_WF (by simpa [noAny_coll] using n1) w1 w2])
        · exact Res.bad ⟨fl, k, by simp [h1, hb, R.asVal], hf⟩
      · exact Res.bad ⟨fl, k, by simp [hb, R.asVal], hf⟩
  | @sub rz Γ t a b a' b' τ d lo hi ht _ _ iha ihb =>
    intro fuel p st ρ hinv hcov
    cases fuel with
    | zero => exact Res.zero ..
    | succ f =>
      rw [ev_sub ht]
      rcases iha f (some t) st ρ hinv (hcov.kid (by simp)) with ⟨v1, st1, h1, ⟨p1, m1⟩, w1, n1, d1⟩ | ⟨fl, k, hb, hf⟩
      · rcases ihb f (some t) st1 ρ (hinv.of_data p1) (hcov.kid (by simp)) with ⟨v2, st2, h2, ⟨p2, m2⟩, w2, _, d2⟩ | ⟨fl, k, hb, hf⟩
        · obtain ⟨xs, rfl⟩ := WF_coll_isSet w1
          obtain ⟨ys, rfl⟩ := WF_coll_isSet w2
          simp only [h1, h2, R.asVal]
          rw [ev_sub_res]
          exact Res.bool rfl ⟨by rw [p2, p1], by omega⟩ (by
            dsucc g hg
            rw [denote_sub ht, d1 g (by omega), d2 g (by omega)]
            simp [dVal, dSet, members, sub_agrees ht (by simpa [noAny_coll] using n1) w1 w2])
        · exact Res.bad ⟨fl, k, by simp [h1, hb, R.asVal], hf⟩
      · exact Res.bad ⟨fl, k, by simp [hb, R.asVal], hf⟩
  | @empty rz Γ τ d lo hi hn =>
    intro fuel p st ρ hinv hcov
    cases fuel with
    | zero => exact Res.zero ..
    | succ f =>
      exact Res.val (ev_empty ..) ⟨rfl, Nat.le_refl _⟩ (WF_empty τ) (by simpa [noAny_coll] using hn)
        (by dsucc g hg; exact denote_empty ..)
  | intset Γ d lo hi =>
    intro fuel p st ρ hinv hcov
    cases fuel with
    | zero => exact Res.zero ..
    | succ f =>
      rw [ev_intset]
      exact Res.bad (bad_err _ _ _ (Or.inr (Or.inr (Or.inr (Or.inr (Or.inr rfl))))))
  | @enum rz Γ τ d lo hi ks ks' hne hlen _ ih =>
    intro fuel p st ρ hinv hcov
    cases fuel with
    | zero => exact Res.zero ..
    | succ f =>
      rw [ev_enum]
      have hk1 : (ks.zip ks').map (·.1) = ks := by rw [List.map_fst_zip]; omega
      have hk2 : (ks.zip ks').map (·.2) = ks' := by rw [List.map_snd_zip]; omega
      have hne' : ks.zip ks' ≠ [] := by
        intro e
        have : (ks.zip ks').length = 0 := by rw [e]; rfl
        rw [List.length_zip] at this
        cases ks with
        | nil => exact hne rfl
        | cons _ _ => simp at hlen; simp [← hlen] at this
      rcases evKids_sim_hom c rz Γ ρ f .NT_ENUMERATION τ (ks.zip ks')
          (fun q hq st' hp' => ih q hq f (some .NT_ENUMERATION) st' ρ hp'
            (hcov.kid (List.of_mem_zip hq).2)) [] st hinv with
        ⟨vs, st1, h1, p1, m1, w1, n1, d1⟩ | ⟨fl, k, hb, hf⟩
      · rw [hk2] at h1
        simp only [h1, List.nil_append]
        exact Res.val rfl ⟨p1, m1⟩ (mkSet_WF w1) (by simpa [noAny_coll] using n1 hne') (by
          dsucc g hg
          have := d1 g (by omega)
          rw [hk1] at this
          rw [denote_enum, this]; rfl)
      · rw [hk2] at hb
        exact Res.bad ⟨fl, k, by simp [hb], hf⟩
  | @tuple rz Γ d lo hi ks ks' ts hl2 hlen hlen' _ ih =>
    intro fuel p st ρ hinv hcov
    cases fuel with
    | zero => exact Res.zero ..
    | succ f =>
      rw [ev_tuple]
      have hz : (ks.zip ks').length = ks.length := by rw [List.length_zip]; omega
      have hk0 : ((ks.zip ks').zip ts).map (·.1) = ks.zip ks' := by rw [List.map_fst_zip]; omega
      have hk1 : ((ks.zip ks').zip ts).map (·.1.1) = ks := by
        have : ((ks.zip ks').zip ts).map (·.1.1) = (((ks.zip ks').zip ts).map (·.1)).map (·.1) := by
          rw [List.map_map]; rfl
        rw [this, hk0, List.map_fst_zip]; omega
      have hk1' : ((ks.zip ks').zip ts).map (·.1.2) = ks' := by
        have : ((ks.zip ks').zip ts).map (·.1.2) = (((ks.zip ks').zip ts).map (·.1)).map (·.2) := by
          rw [List.map_map]; rfl
        rw [this, hk0, List.map_snd_zip]; omega
      have hk2 : ((ks.zip ks').zip ts).map (·.2) = ts := by rw [List.map_snd_zip]; omega
      rcases evKids_sim_het c rz Γ ρ f .NT_TUPLE ((ks.zip ks').zip ts)
          (fun q hq st' hp' => ih q hq f (some .NT_TUPLE) st' ρ hp'
            (hcov.kid (List.of_mem_zip (List.of_mem_zip hq).1).2)) [] st hinv with
        ⟨vs, st1, h1, p1, m1, w1, d1⟩ | ⟨fl, k, hb, hf⟩
      · rw [hk1'] at h1
        rw [hk2] at w1
        obtain ⟨wfs, hna⟩ := forall₂_WFs w1
        have hvl : vs.length ≥ 2 := by rw [WFs_length wfs]; omega
        obtain ⟨e, w⟩ := mkTuple_WF wfs hvl
        simp only [h1, List.nil_append, e]
        refine Res.val rfl ⟨p1, m1⟩ w (by simpa [noAny_tuple] using hna) ?_
        dsucc g hg
        have := d1 g (by omega)
        rw [hk1] at this
        rw [denote_tuple, this]
        match vs, hvl with
        | _ :: _ :: _, _ => rfl
      · rw [hk1'] at hb
        exact Res.bad ⟨fl, k, by simp [hb], hf⟩
  | @setOp rz Γ t a b a' b' τ d lo hi ht _ _ iha ihb =>
    intro fuel p st ρ hinv hcov
    cases fuel with
    | zero => exact Res.zero ..
    | succ f =>
      rw [ev_setOp ht]
      rcases iha f (some t) st ρ hinv (hcov.kid (by simp)) with ⟨v1, st1, h1, ⟨p1, m1⟩, w1, n1, d1⟩ | ⟨fl, k, hb, hf⟩
      · rcases ihb f (some t) st1 ρ (hinv.of_data p1) (hcov.kid (by simp)) with ⟨v2, st2, h2, ⟨p2, m2⟩, w2, _, d2⟩ | ⟨fl, k, hb, hf⟩
        · obtain ⟨xs, rfl⟩ := WF_coll_isSet w1
          obtain ⟨ys, rfl⟩ := WF_coll_isSet w2
          simp only [h1, h2, R.asVal]
          exact Res.val rfl ⟨by rw [p2, p1], by omega⟩ (setOp_WF w1 w2) n1 (by
            dsucc g hg
            rw [denote_setOp ht, d1 g (by omega), d2 g (by omega)]
            simp [dVal, dSet, members, setOp_agrees ht (by simpa [noAny_coll] using n1) w1 w2])
        · exact Res.bad ⟨fl, k, by simp [h1, hb, R.asVal], hf⟩
      · exact Res.bad ⟨fl, k, by simp [hb, R.asVal], hf⟩
  | @bool rz Γ a a' τ d lo hi _ ih =>
    intro fuel p st ρ hinv hcov
    cases fuel with
    | zero => exact Res.zero ..
    | succ f =>
      rw [ev_bool]
      rcases ih f (some .BOOL) st ρ hinv (hcov.kid (by simp)) with ⟨v1, st1, h1, ⟨p1, m1⟩, w1, n1, d1⟩ | ⟨fl, k, hb, hf⟩
      · simp only [h1, R.asVal]
        exact Res.val rfl ⟨p1, m1⟩ (singleton_WF w1) (by simpa [noAny_coll] using n1) (by
          dsucc g hg; rw [denote_bool, d1 g (by omega)]; simp [dVal, setOf_singleton])
      · exact Res.bad ⟨fl, k, by simp [hb, R.asVal], hf⟩
  | @debool rz Γ a a' τ d lo hi _ ih =>
    intro fuel p st ρ hinv hcov
    cases fuel with
    | zero => exact Res.zero ..
    | succ f =>
      rw [ev_debool]
      rcases ih f (some .DEBOOL) st ρ hinv (hcov.kid (by simp)) with ⟨v1, st1, h1, ⟨p1, m1⟩, w1, n1, d1⟩ | ⟨fl, k, hb, hf⟩
      · obtain ⟨xs, rfl⟩ := WF_coll_isSet w1
        simp only [h1, R.asSet]
        match xs, w1, d1 with
        | [], _, _ => exact Res.bad (bad_err _ _ _ (Or.inr (Or.inr (Or.inr (Or.inr (Or.inl rfl))))))
        | [x], w1, d1 =>
          exact Res.val rfl ⟨p1, m1⟩ (w1.mem (by simp)) (by simpa [noAny_coll] using n1) (by
            dsucc g hg; rw [denote_debool, d1 g (by omega)]; rfl)
        | _ :: _ :: _, _, _ => exact Res.bad (bad_err _ _ _ (Or.inr (Or.inr (Or.inr (Or.inr (Or.inl rfl))))))
      · exact Res.bad ⟨fl, k, by simp [hb, R.asSet], hf⟩
  | @reduce rz Γ a a' τ d lo hi _ ih =>
    intro fuel p st ρ hinv hcov
    cases fuel with
    | zero => exact Res.zero ..
    | succ f =>
      rw [ev_reduce]
      rcases ih f (some .REDUCE) st ρ hinv (hcov.kid (by simp)) with ⟨v1, st1, h1, ⟨p1, m1⟩, w1, n1, d1⟩ | ⟨fl, k, hb, hf⟩
      · obtain ⟨xs, rfl⟩ := WF_coll_isSet w1
        obtain ⟨r, hr, wr, dr⟩ := reduce_WF w1
        simp only [h1, R.asSet, hr]
        exact Res.val rfl ⟨p1, m1⟩ wr (by simpa [noAny_coll] using n1) (by
          dsucc g hg
          rw [denote_reduce, d1 g (by omega)]
          show Option.map SemVal.val (Option.map (fun ls => setOf ls.flatten) (List.mapM members xs)) = _
          rw [dr]; rfl)
      · exact Res.bad ⟨fl, k, by simp [hb, R.asSet], hf⟩
  | @smallpr rz Γ a a' ts τ idx lo hi _ hp ih =>
    intro fuel p st ρ hinv hcov
    cases fuel with
    | zero => exact Res.zero ..
    | succ f =>
      rw [ev_smallpr]
      rcases ih f (some .SMALLPR) st ρ hinv (hcov.kid (by simp)) with ⟨v1, st1, h1, ⟨p1, m1⟩, w1, n1, d1⟩ | ⟨fl, k, hb, hf⟩
      · obtain ⟨r, hr, wr⟩ := project_WF w1 hp
        simp only [h1, R.asVal, hr]
        exact Res.val rfl ⟨p1, m1⟩ wr (projTy_noAny (by simpa [noAny_tuple] using n1) hp) (by
          dsucc g hg
          rw [denote_smallpr, d1 g (by omega)]
          show Option.map SemVal.val (select v1 idx) = _
          rw [← project_eq_select, hr]; rfl)
      · exact Res.bad ⟨fl, k, by simp [hb, R.asVal], hf⟩
  | @bigpr rz Γ a a' ts τ idx lo hi _ hp ih =>
    intro fuel p st ρ hinv hcov
    cases fuel with
    | zero => exact Res.zero ..
    | succ f =>
      rw [ev_bigpr]
      rcases ih f (some .BIGPR) st ρ hinv (hcov.kid (by simp)) with ⟨v1, st1, h1, ⟨p1, m1⟩, w1, n1, d1⟩ | ⟨fl, k, hb, hf⟩
      · obtain ⟨xs, rfl⟩ := WF_coll_isSet w1
        obtain ⟨r, hr, wr, dr⟩ := projSet_WF w1 hp
        simp only [h1, R.asSet, hr]
        exact Res.val rfl ⟨p1, m1⟩ wr (by
            have : noAnyList ts = true := by simpa [noAny_coll, noAny_tuple] using n1
            simpa [noAny_coll] using projTy_noAny this hp) (by
          dsucc g hg
          rw [denote_bigpr, d1 g (by omega)]
          show Option.map SemVal.val (Option.map setOf (List.mapM (fun x => select x idx) xs)) = _
          rw [dr]; rfl)
      · exact Res.bad ⟨fl, k, by simp [hb, R.asSet], hf⟩
  | @pow rz Γ a a' τ d lo hi _ hsmall ih =>
    intro fuel p st ρ hinv hcov
    cases fuel with
    | zero => exact Res.zero ..
    | succ f =>
      rw [ev_boolean]
      rcases ih f (some .BOOLEAN) st ρ hinv (hcov.kid (by simp)) with ⟨v1, st1, h1, ⟨p1, m1⟩, w1, n1, d1⟩ | ⟨fl, k, hb, hf⟩
      · obtain ⟨xs, rfl⟩ := WF_coll_isSet w1
        have hlen : xs.length ≤ POW_BOUND := hsmall f ρ xs (d1 f (Nat.le_refl _))
        have wx := WF_set_iff.mp w1
        have hn : noAny τ = true := by simpa [noAny_coll] using n1
        -- the reference bound is within the model's enumeration limit, which is below the boolean limit
        have b1 : POW_BOUND ≤ POW_LIMIT := by decide
        have b2 : POW_LIMIT < Val.BOOL_INFINITY := by decide
        have c1 : ¬ (xs.length ≥ Val.BOOL_INFINITY) := by omega
        have c2 : ¬ (xs.length > POW_LIMIT) := by omega
        simp only [h1, R.asSet, c1, c2, decide_false, Bool.and_false, Bool.false_eq_true, if_false]
        refine Res.val rfl ⟨p1, m1⟩ ⟨pow_hasTy xs τ wx.1, pow_canon xs wx.2.1 wx.2.2⟩ (by simpa [noAny_coll] using hn) ?_
        dsucc g hg
        rw [denote_boolean, d1 g (by omega)]
        have c3 : ¬ (xs.length > POW_BOUND) := by omega
        simp only [dSet, dVal, members, Option.bind_some, c3, if_false]
        rw [pow_agrees xs τ hn wx.1 wx.2.2]
      · exact Res.bad ⟨fl, k, by simp [hb, R.asSet], hf⟩
  | @decart rz Γ d lo hi ks ks' ts hl2 hlen hlen' _ ih =>
    intro fuel p st ρ hinv hcov
    cases fuel with
    | zero => exact Res.zero ..
    | succ f =>
      rw [ev_decart]
      let kts : List ((Ast × Ast) × Ty) := ((ks.zip ks').zip ts).map (fun q => (q.1, Ty.coll q.2))
      have hk0 : ((ks.zip ks').zip ts).map (·.1) = ks.zip ks' := by
        rw [List.map_fst_zip]; rw [List.length_zip]; omega
      have hk1 : kts.map (·.1.1) = ks := by
        show (((ks.zip ks').zip ts).map (fun q => (q.1, Ty.coll q.2))).map (·.1.1) = ks
        rw [List.map_map]
        have : ((ks.zip ks').zip ts).map ((·.1.1) ∘ fun q => (q.1, Ty.coll q.2)) =
            (((ks.zip ks').zip ts).map (·.1)).map (·.1) := by rw [List.map_map]; rfl
        rw [this, hk0, List.map_fst_zip]; omega
      have hk1' : kts.map (·.1.2) = ks' := by
        show (((ks.zip ks').zip ts).map (fun q => (q.1, Ty.coll q.2))).map (·.1.2) = ks'
        rw [List.map_map]
        have : ((ks.zip ks').zip ts).map ((·.1.2) ∘ fun q => (q.1, Ty.coll q.2)) =
            (((ks.zip ks').zip ts).map (·.1)).map (·.2) := by rw [List.map_map]; rfl
        rw [this, hk0, List.map_snd_zip]; omega
      have hk2 : kts.map (·.2) = ts.map Ty.coll := by
        show (((ks.zip ks').zip ts).map (fun q => (q.1, Ty.coll q.2))).map (·.2) = ts.map Ty.coll
        rw [List.map_map]
        have : ((ks.zip ks').zip ts).map ((·.2) ∘ fun q => (q.1, Ty.coll q.2)) =
            (((ks.zip ks').zip ts).map (·.2)).map Ty.coll := by rw [List.map_map]; rfl
        rw [this, List.map_snd_zip]; rw [List.length_zip]; omega
      rcases evKids_sim_het c rz Γ ρ f .DECART kts
          (fun q hq st' hp' => by
            obtain ⟨q0, hq0, rfl⟩ := List.mem_map.mp hq
            exact ih q0 hq0 f (some .DECART) st' ρ hp' (hcov.kid (List.of_mem_zip (List.of_mem_zip hq0).1).2)) [] st hinv with
        ⟨vs, st1, h1, p1, m1, w1, d1⟩ | ⟨fl, k, hb, hf⟩
      · rw [hk1'] at h1
        rw [hk2] at w1
        obtain ⟨fs, rfl, hty, hcan, hsor, hna⟩ := forall₂_sets w1
        have hfl : fs.length ≥ 2 := by
          have := List.Forall₂.length_eq hty; omega
        simp only [h1, List.nil_append, allSome_sets]
        have hden : ∀ g, f ≤ g → denote (senvOf env) (g + 1) ρ (.node .DECART d lo hi ks) =
            (if (fs.foldl (fun n f => n * f.length) 1) > PROD_BOUND then none
             else some (.val (setOf ((tuples fs).map Val.t)))) := by
          intro g hg
          have := d1 g hg
          rw [hk1] at this
          rw [denote_decart, mapM_dSet_of_dVal this]
        have hnt : noAny (.coll (.tuple ts)) = true := by simpa [noAny_coll, noAny_tuple] using hna
        by_cases hemp : fs.any (·.isEmpty) = true
        · simp only [hemp, if_true]
          refine Res.val rfl ⟨p1, m1⟩ (WF_empty _) hnt ?_
          dsucc g hg
          rw [hden g (by omega), prod_foldl_of_empty fs 1 hemp, tuples_of_empty fs hemp]
          simp [PROD_BOUND, setOf, mkSet, mkSetList, insertAll]
        · simp only [hemp, Bool.false_eq_true, if_false]
          by_cases hinf : (Val.prodCard fs == Val.SET_INFINITY) = true
          · simp only [hinf, if_true]
            exact Res.bad (bad_err _ _ _ (Or.inl rfl))
          · simp only [hinf, Bool.false_eq_true, if_false]
            by_cases hbig : Val.prodCard fs > PROD_LIMIT
            · simp only [hbig, if_true]
              exact Res.bad (bad_outOfFuel _)
            · simp only [hbig, if_false]
              refine Res.val rfl ⟨p1, m1⟩ ⟨prod_hasTy fs ts hty, prod_canon fs hfl hcan hsor⟩ hnt ?_
              have hpc := prodCard_eq fs (by simpa using hinf)
              have : ¬ (fs.foldl (fun n f => n * f.length) 1 > PROD_BOUND) := by
                rw [← hpc]; simpa [PROD_LIMIT, PROD_BOUND] using hbig
              dsucc g hg
              rw [hden g (by omega), if_neg this, prod_agrees fs ts hna hty hsor]
      · rw [hk1'] at hb
        exact Res.bad ⟨fl, k, by simp [hb], hf⟩
  | @glob rz Γ τ g lo hi _ hg =>
    intro fuel p st ρ hinv hcov
    cases fuel with
    | zero => exact Res.zero ..
    | succ f =>
      rw [ev_ident (Or.inr rfl)]
      obtain ⟨i, hi⟩ := hcov g (by simp [names, namesKids, tok_beq])
      obtain ⟨hn, v, hv, wv⟩ := hG g τ hg
      simp only [hi, hinv.glob g v i hv hi]
      exact Res.val rfl ⟨rfl, Nat.le_refl _⟩ wv hn (by
        dsucc g' hg'
        rw [denote_global, assoc_eq_lookup]
        show Option.map SemVal.val (lookup g env.globals) = _
        rw [hv]; rfl)
  | @loc rz Γ τ x lo hi _ hx hxσ =>
    intro fuel p st ρ hinv hcov
    cases fuel with
    | zero => exact Res.zero ..
    | succ f =>
      rw [ev_ident (Or.inl rfl)]
      obtain ⟨i, hi⟩ := hcov x (by simp [names, namesKids, tok_beq])
      obtain ⟨_, hn, v, hfind, wv, hslot⟩ := hinv.loc x τ hx
      unfold Holds at hslot
      rw [hxσ] at hslot
      simp only [hi, hslot i hi]
      exact Res.val rfl ⟨rfl, Nat.le_refl _⟩ wv hn (by dsucc g hg; rw [denote_local, hfind])
  | @quant rz Γ t dom body dom' body' τ d lo hi x dlo dhi _ ht hxΓ hxg hxz _ _ ihd ihb =>
    intro fuel p st ρ hinv hcov
    cases fuel with
    | zero => exact Res.zero ..
    | succ f =>
      rw [ev_quant ht]
      obtain ⟨var, hvar⟩ := hcov x (names_kid (k := .node .ID_LOCAL (.text x) dlo dhi []) (by simp)
        (by simp [names, namesKids, tok_beq]))
      rcases ihd f (some t) st ρ hinv (hcov.kid (by simp)) with ⟨v1, st1, h1, ⟨p1, m1⟩, w1, n1, d1⟩ | ⟨fl, k, hb, hf⟩
      · obtain ⟨xs, rfl⟩ := WF_coll_isSet w1
        have hn : noAny τ = true := by simpa [noAny_coll] using n1
        have hinv1 := hinv.of_data p1
        obtain ⟨saved, hsaved⟩ := slot_some (hinv1.range x var hvar)
        simp only [h1, R.asSet, hvar, hsaved]
        rcases quantLoop_sim (ι := { g : Nat // f ≤ g }) (fun s => s.data.set var saved = st1.data ∧ st.iters ≤ s.iters)
            (fun st => ev c f body' (some t) st)
            (fun i v => dBool (denote (senvOf env) i.1 (.val x v ρ) body)) var (t == .FORALL) lo xs
            (fun v hv st' hp' => by
              have hinvs : Inv env c rz Γ ρ st' := hinv1.of_set hxΓ hxg hxz hvar hp'.1
              rcases ihb f (some t) { data := st'.data.set var v, iters := st'.iters + 1 } (.val x v ρ)
                  (hinvs.bind _ hxΓ hxg hxz hvar hn (w1.mem hv)) (hcov.kid (by simp)) with
                ⟨b, st'', hb, ⟨hp'', hm''⟩, hd⟩ | hbad
              · exact Or.inl ⟨b, st'', hb, ⟨by rw [hp'']; simp only [List.set_set]; exact hp'.1,
                  by have := hp'.2; simp at hm''; omega⟩, fun i => by rw [hd i.1 i.2]; rfl⟩
              · exact Or.inr hbad) st1 ⟨set_self _ _ _ hsaved, m1⟩ with
          ⟨b, st2, h2, ⟨p2, m2⟩, hk⟩ | hbad
        · rw [h2]
          exact Res.bool rfl ⟨by show st2.data.set var saved = st.data; rw [p2, p1], m2⟩ (by
            dsucc g hg
            rw [denote_quant ht, d1 g (by omega)]
            simp only [dSet, dVal, members, Option.bind_some]
            rw [hk ⟨g, by omega⟩]; rfl)
        · exact Res.bad (by obtain ⟨fl, k, hb, hf⟩ := hbad; exact ⟨fl, k, by rw [hb]; rfl, hf⟩)
      · exact Res.bad ⟨fl, k, by simp [hb, R.asSet], hf⟩
  | @decl rz Γ dom body dom' body' τ d lo hi x dlo dhi _ hxΓ hxg hxz _ _ ihd ihb =>
    intro fuel p st ρ hinv hcov
    cases fuel with
    | zero => exact Res.zero ..
    | succ f =>
      rw [ev_decl]
      obtain ⟨var, hvar⟩ := hcov x (names_kid (k := .node .ID_LOCAL (.text x) dlo dhi []) (by simp)
        (by simp [names, namesKids, tok_beq]))
      rcases ihd f (some .NT_DECLARATIVE_EXPR) st ρ hinv (hcov.kid (by simp)) with
        ⟨v1, st1, h1, ⟨p1, m1⟩, w1, n1, d1⟩ | ⟨fl, k, hb, hf⟩
      · obtain ⟨xs, rfl⟩ := WF_coll_isSet w1
        have hn : noAny τ = true := by simpa [noAny_coll] using n1
        have hinv1 := hinv.of_data p1
        obtain ⟨saved, hsaved⟩ := slot_some (hinv1.range x var hvar)
        simp only [h1, R.asSet, hvar, hsaved]
        rcases declLoop_sim (ι := { g : Nat // f ≤ g }) (fun s => s.data.set var saved = st1.data ∧ st.iters ≤ s.iters)
            (fun st => ev c f body' (some .NT_DECLARATIVE_EXPR) st)
            (fun i v => dBool (denote (senvOf env) i.1 (.val x v ρ) body)) var lo τ xs (fun v hv => w1.mem hv)
            (fun v hv st' hp' => by
              have hinvs : Inv env c rz Γ ρ st' := hinv1.of_set hxΓ hxg hxz hvar hp'.1
              rcases ihb f (some .NT_DECLARATIVE_EXPR) { data := st'.data.set var v, iters := st'.iters + 1 } (.val x v ρ)
                  (hinvs.bind _ hxΓ hxg hxz hvar hn (w1.mem hv)) (hcov.kid (by simp)) with
                ⟨b, st'', hb, ⟨hp'', hm''⟩, hd⟩ | hbad
              · exact Or.inl ⟨b, st'', hb, ⟨by rw [hp'']; simp only [List.set_set]; exact hp'.1,
                  by have := hp'.2; simp at hm''; omega⟩, fun i => by rw [hd i.1 i.2]; rfl⟩
              · exact Or.inr hbad) [] st1 ⟨set_self _ _ _ hsaved, m1⟩ (WF_empty τ) with
          ⟨flags, st2, h2, ⟨p2, m2⟩, wf2, hm⟩ | hbad
        · rw [h2]
          exact Res.val rfl ⟨by show st2.data.set var saved = st.data; rw [p2, p1], m2⟩ wf2 n1 (by
            dsucc g hg
            rw [denote_decl, d1 g (by omega)]
            simp only [dSet, dVal, members, Option.bind_some]
            rw [hm ⟨g, by omega⟩]; rfl)
        · exact Res.bad (by obtain ⟨fl, k, hb, hf⟩ := hbad; exact ⟨fl, k, by rw [hb]; rfl, hf⟩)
      · exact Res.bad ⟨fl, k, by simp [hb, R.asSet], hf⟩
  | @recShort rz Γ init body init' body' τ d lo hi x dlo dhi _ hxΓ hxg hxz _ _ ihi ihb =>
    intro fuel p st ρ hinv hcov
    cases fuel with
    | zero => exact Res.zero ..
    | succ f =>
      rw [ev_recShort]
      obtain ⟨var, hvar⟩ := hcov x (names_kid (k := .node .ID_LOCAL (.text x) dlo dhi []) (by simp)
        (by simp [names, namesKids, tok_beq]))
      rcases ihi f (some .NT_RECURSIVE_SHORT) st ρ hinv (hcov.kid (by simp)) with
        ⟨v1, st1, h1, ⟨p1, m1⟩, w1, n1, d1⟩ | ⟨fl, k, hb, hf⟩
      · have hinv1 := hinv.of_data p1
        obtain ⟨saved, hsaved⟩ := slot_some (hinv1.range x var hvar)
        simp only [h1, R.asVal, hvar, hsaved]
        rcases recLoop_sim (ι := { g : Nat // f ≤ g }) (fun s => s.data.set var saved = st1.data)
            (fun cur s => Inv env c rz ((x, τ) :: Γ) (.val x cur ρ) s ∧ s.data.set var saved = st1.data)
            none (fun st => ev c f body' (some .NT_RECURSIVE_SHORT) st)
            (fun _ _ => some true) (fun i cur => dVal (denote (senvOf env) i.1 (.val x cur ρ) body)) var lo τ
            (fun cur st' n hw hp => ⟨(hinv1.of_set hxΓ hxg hxz hvar hp).bind n hxΓ hxg hxz hvar n1 hw,
              by simp only [List.set_set]; exact hp⟩)
            (fun cur st' hp => hp.2)
            (fun cur st' hp => by
              obtain ⟨_, _, v, hf', _, hs⟩ := hp.1.loc x τ (lookup_cons_self x τ Γ)
              rw [find_val_self] at hf'
              injection hf' with hf'; injection hf' with hf'; subst hf'
              unfold Holds at hs
              rw [hinv1.sigma_none hxΓ] at hs
              exact hs var hvar)
            (fun c' hc => by cases hc)
            (fun _ _ _ => rfl)
            (fun cur st' hw hp => by
              rcases ihb f (some .NT_RECURSIVE_SHORT) st' (.val x cur ρ) hp.1 (hcov.kid (by simp)) with
                ⟨nxt, st'', hb, ⟨hp'', hm''⟩, w, _, hd⟩ | hbad
              · exact Or.inl ⟨nxt, st'', hb, ⟨hp.1.of_data hp'', by rw [hp'']; exact hp.2⟩, hm'', w,
                  fun i => by rw [hd i.1 i.2]; rfl⟩
              · exact Or.inr hbad)
            (MAX_ITERATIONS + 2) REC_BOUND v1 st1 w1 (set_self _ _ _ hsaved) (by have := rec_bound_eq; omega) with
          ⟨r, st2, h2, p2, m2, w2, hk⟩ | hbad
        · rw [h2]
          exact Res.val rfl ⟨by show st2.data.set var saved = st.data; rw [p2, p1], by show st.iters ≤ st2.iters; omega⟩ w2 n1 (by
            dsucc g hg
            rw [denote_recShort, d1 g (by omega)]
            show Option.map SemVal.val (recSem _ _ REC_BOUND v1) = _
            rw [hk ⟨g, hg⟩]; rfl)
        · exact Res.bad (by obtain ⟨fl, k, hb, hf⟩ := hbad; exact ⟨fl, k, by rw [hb]; rfl, hf⟩)
      · exact Res.bad ⟨fl, k, by simp [hb, R.asVal], hf⟩
  | @recFull rz Γ init cond body init' cond' body' τ d lo hi x dlo dhi _ hxΓ hxg hxz _ _ _ ihi ihc ihb =>
    intro fuel p st ρ hinv hcov
    cases fuel with
    | zero => exact Res.zero ..
    | succ f =>
      rw [ev_recFull]
      obtain ⟨var, hvar⟩ := hcov x (names_kid (k := .node .ID_LOCAL (.text x) dlo dhi []) (by simp)
        (by simp [names, namesKids, tok_beq]))
      rcases ihi f (some .NT_RECURSIVE_FULL) st ρ hinv (hcov.kid (by simp)) with
        ⟨v1, st1, h1, ⟨p1, m1⟩, w1, n1, d1⟩ | ⟨fl, k, hb, hf⟩
      · have hinv1 := hinv.of_data p1
        obtain ⟨saved, hsaved⟩ := slot_some (hinv1.range x var hvar)
        simp only [h1, R.asVal, hvar, hsaved]
        rcases recLoop_sim (ι := { g : Nat // f ≤ g }) (fun s => s.data.set var saved = st1.data)
            (fun cur s => Inv env c rz ((x, τ) :: Γ) (.val x cur ρ) s ∧ s.data.set var saved = st1.data)
            (some fun st => ev c f cond' (some .NT_RECURSIVE_FULL) st) (fun st => ev c f body' (some .NT_RECURSIVE_FULL) st)
            (fun i cur => dBool (denote (senvOf env) i.1 (.val x cur ρ) cond))
            (fun i cur => dVal (denote (senvOf env) i.1 (.val x cur ρ) body)) var lo τ
            (fun cur st' n hw hp => ⟨(hinv1.of_set hxΓ hxg hxz hvar hp).bind n hxΓ hxg hxz hvar n1 hw,
              by simp only [List.set_set]; exact hp⟩)
            (fun cur st' hp => hp.2)
            (fun cur st' hp => by
              obtain ⟨_, _, v, hf', _, hs⟩ := hp.1.loc x τ (lookup_cons_self x τ Γ)
              rw [find_val_self] at hf'
              injection hf' with hf'; injection hf' with hf'; subst hf'
              unfold Holds at hs
              rw [hinv1.sigma_none hxΓ] at hs
              exact hs var hvar)
            (fun c' hc cur st' hw hp => by
              injection hc with hc; subst hc
              rcases ihc f (some .NT_RECURSIVE_FULL) st' (.val x cur ρ) hp.1 (hcov.kid (by simp)) with
                ⟨b, st'', hb, ⟨hp'', hm''⟩, hd⟩ | hbad
              · exact Or.inl ⟨b, st'', hb, ⟨hp.1.of_data hp'', by rw [hp'']; exact hp.2⟩, hm'',
                  fun i => by rw [hd i.1 i.2]; rfl⟩
              · exact Or.inr hbad)
            (fun hc => by cases hc)
            (fun cur st' hw hp => by
              rcases ihb f (some .NT_RECURSIVE_FULL) st' (.val x cur ρ) hp.1 (hcov.kid (by simp)) with
                ⟨nxt, st'', hb, ⟨hp'', hm''⟩, w, _, hd⟩ | hbad
              · exact Or.inl ⟨nxt, st'', hb, ⟨hp.1.of_data hp'', by rw [hp'']; exact hp.2⟩, hm'', w,
                  fun i => by rw [hd i.1 i.2]; rfl⟩
              · exact Or.inr hbad)
            (MAX_ITERATIONS + 2) REC_BOUND v1 st1 w1 (set_self _ _ _ hsaved) (by have := rec_bound_eq; omega) with
          ⟨r, st2, h2, p2, m2, w2, hk⟩ | hbad
        · rw [h2]
          exact Res.val rfl ⟨by show st2.data.set var saved = st.data; rw [p2, p1], by show st.iters ≤ st2.iters; omega⟩ w2 n1 (by
            dsucc g hg
            rw [denote_recFull, d1 g (by omega)]
            show Option.map SemVal.val (recSem _ _ REC_BOUND v1) = _
            rw [hk ⟨g, hg⟩]; rfl)
        · exact Res.bad (by obtain ⟨fl, k, hb, hf⟩ := hbad; exact ⟨fl, k, by rw [hb]; rfl, hf⟩)
      · exact Res.bad ⟨fl, k, by simp [hb, R.asVal], hf⟩
  | @quantEnum rz Γ t dom body dom' body' τ d dd lo hi dlo dhi xs _ ht hlen hnd hfresh _ _ ihd ihb =>
    intro fuel p st ρ hinv hcov
    cases fuel with
    | zero => exact Res.zero ..
    | succ F =>
      obtain ⟨hcb, hcd0, hslots⟩ := covered_nest t d lo hi dom' body' xs hcov
      have hxne : xs ≠ [] := by intro e; rw [e] at hlen; simp at hlen
      have hcd := hcd0 hxne
      rcases ihd F (some t) st ρ hinv hcd with ⟨v1, st1, h1, _, w1, n1, d1⟩ | ⟨fl, k, hb, hf⟩
      · obtain ⟨vs, rfl⟩ := WF_coll_isSet w1
        -- the value of the domain does not depend on what the variables are bound to
        have hvs : ∀ ρ', AgreeOn Γ ρ ρ' → ∀ g, F ≤ g → denote (senvOf env) g ρ' dom = some (.val (.s vs)) := by
          intro ρ' ha g hg
          rcases ihd F (some t) st ρ' (hinv.of_agree ha) hcd with ⟨v2, st2, h2, _, _, _, d2⟩ | ⟨fl, k, hb, hf⟩
          · rw [h1] at h2
            injection h2 with h2; injection h2 with h2
            rw [h2]; exact d2 g hg
          · rw [h1] at hb; cases hb
        rcases nest_sim c rz Γ ht d lo hi dom dom' body body' τ xs (by omega) hnd hfresh (fun x r hl => (hinv.dom x r hl).1) hslots
            (fun fuel p st ρ hi => ihd fuel p st ρ hi hcd) (fun fuel p st ρ hi => ihb fuel p st ρ hi hcb) ρ F vs hvs
            xs [] rfl (F + 1) (by simp) p st ρ hinv (AgreeOn.refl Γ ρ) with
          ⟨b, st', hb, e, m, hd⟩ | hbad
        · exact Res.bool hb ⟨e, m⟩ (by
            dsucc g hg
            rw [denote_quantEnum ht, d1 g hg]
            simp only [dSet, dVal, members, Option.bind_some]
            rw [hd g hg]; rfl)
        · exact Res.bad hbad
      · -- the domain fails: so does the outermost quantifier
        match xs, hxne with
        | q :: rest, _ =>
          show Res env (F + 1) ρ _ _ _ (ev c (F + 1) (.node t d lo hi [.node .ID_LOCAL (.text q.1) q.2.1 q.2.2 [], dom',
            nest t d lo hi dom' body' rest]) p st)
          rw [ev_quant ht]
          exact Res.bad ⟨fl, k, by simp [hb, R.asSet], hf⟩
  | @locPr rz Γ τ x nn k lo hi _ hx hxσ =>
    intro fuel p st ρ hinv hcov
    cases fuel with
    | zero => exact Res.zero ..
    | succ f =>
      rw [ev_smallpr]
      cases f with
      | zero =>
        rw [ev_zero]
        exact Res.bad ⟨_, _, rfl, Or.inl rfl⟩
      | succ f' =>
        rw [ev_ident (Or.inl rfl)]
        obtain ⟨_, hn, v, hfind, wv, hslot⟩ := hinv.loc x τ hx
        unfold Holds at hslot
        rw [hxσ] at hslot
        obtain ⟨i, w, h1, h2, h3⟩ := hslot
        have hpr : Val.project w [k] = some v := by
          simp [Val.project, Val.components, h3, Val.mkTuple]
        simp only [h1, h2, R.asVal, hpr]
        exact Res.val rfl ⟨rfl, Nat.le_refl _⟩ wv hn (by dsucc g hg; rw [denote_local, hfind])
  | @quantTup rz Γ t dom body dom' body' ts d lo hi pd plo phi xs nn _ ht hlen hl2 hnd hfresh hnnΓ hnng hnnxs hnnσ _ _ _ ihd ihb =>
    intro fuel p st ρ hinv hcov
    cases fuel with
    | zero => exact Res.zero ..
    | succ f =>
      rw [ev_quant ht]
      obtain ⟨var, hvar⟩ := hcov nn (names_kid (k := .node .ID_LOCAL (.text nn) plo phi []) (by simp)
        (by simp [names, namesKids, tok_beq]))
      rcases ihd f (some t) st ρ hinv (hcov.kid (by simp)) with ⟨v1, st1, h1, ⟨p1, m1⟩, w1, n1, d1⟩ | ⟨fl, k, hb, hf⟩
      · obtain ⟨vs, rfl⟩ := WF_coll_isSet w1
        have hnts : noAnyList ts = true := by simpa [noAny_coll, noAny_tuple] using n1
        have hinv1 := hinv.of_data p1
        obtain ⟨saved, hsaved⟩ := slot_some (hinv1.range nn var hvar)
        simp only [h1, R.asSet, hvar, hsaved]
        rcases quantLoop_sim (ι := { g : Nat // f ≤ g }) (fun s => s.data.set var saved = st1.data ∧ st.iters ≤ s.iters)
            (fun st => ev c f body' (some t) st)
            (fun i v => patBody (senvOf env) i.1 pd plo phi xs ρ body v) var (t == .FORALL) lo vs
            (fun v hv st' hp' => by
              have hinvs : Inv env c rz Γ ρ st' := hinv1.of_set hnnΓ hnng hnnσ hvar hp'.1
              obtain ⟨cs, rfl⟩ := WF_tuple_isTuple (w1.mem hv)
              obtain ⟨hwcs, _⟩ := WF_tuple_iff.mp (w1.mem hv)
              obtain ⟨ρ', hbp, hinv'⟩ := hinvs.bindTup xs ts cs nn var (st'.iters + 1) hlen hnd hfresh hnnΓ hnng hnnxs hnnσ
                hvar hnts hwcs
              rcases ihb f (some t) _ ρ' hinv' (hcov.kid (by simp)) with ⟨b, st'', hb, ⟨hp'', hm''⟩, hd⟩ | hbad
              · refine Or.inl ⟨b, st'', hb, ⟨by rw [hp'']; simp only [List.set_set]; exact hp'.1,
                  by have := hp'.2; simp at hm''; omega⟩, fun i => ?_⟩
                rw [patBody_eq _ _ _ _ _ _ _ _ _ _ hbp, hd i.1 i.2]; rfl
              · exact Or.inr hbad) st1 ⟨set_self _ _ _ hsaved, m1⟩ with
          ⟨b, st2, h2, ⟨p2, m2⟩, hk⟩ | hbad
        · rw [h2]
          exact Res.bool rfl ⟨by show st2.data.set var saved = st.data; rw [p2, p1], m2⟩ (by
            dsucc g hg
            show denote (senvOf env) (g + 1) ρ (.node t d lo hi [patNode pd plo phi xs, dom, body]) = _
            rw [denote_quantPat ht, d1 g (by omega)]
            simp only [dSet, dVal, members, Option.bind_some]
            rw [hk ⟨g, by omega⟩]; rfl)
        · exact Res.bad (by obtain ⟨fl, k, hb, hf⟩ := hbad; exact ⟨fl, k, by rw [hb]; rfl, hf⟩)
      · exact Res.bad ⟨fl, k, by simp [hb, R.asSet], hf⟩
  | @declTup rz Γ dom body dom' body' ts d lo hi pd plo phi xs nn _ hlen hl2 hnd hfresh hnnΓ hnng hnnxs hnnσ _ _ _ ihd ihb =>
    intro fuel p st ρ hinv hcov
    cases fuel with
    | zero => exact Res.zero ..
    | succ f =>
      rw [ev_decl]
      obtain ⟨var, hvar⟩ := hcov nn (names_kid (k := .node .ID_LOCAL (.text nn) plo phi []) (by simp)
        (by simp [names, namesKids, tok_beq]))
      rcases ihd f (some .NT_DECLARATIVE_EXPR) st ρ hinv (hcov.kid (by simp)) with
        ⟨v1, st1, h1, ⟨p1, m1⟩, w1, n1, d1⟩ | ⟨fl, k, hb, hf⟩
      · obtain ⟨vs, rfl⟩ := WF_coll_isSet w1
        have hnts : noAnyList ts = true := by simpa [noAny_coll, noAny_tuple] using n1
        have hinv1 := hinv.of_data p1
        obtain ⟨saved, hsaved⟩ := slot_some (hinv1.range nn var hvar)
        simp only [h1, R.asSet, hvar, hsaved]
        rcases declLoop_sim (ι := { g : Nat // f ≤ g }) (fun s => s.data.set var saved = st1.data ∧ st.iters ≤ s.iters)
            (fun st => ev c f body' (some .NT_DECLARATIVE_EXPR) st)
            (fun i v => patBody (senvOf env) i.1 pd plo phi xs ρ body v) var lo (.tuple ts) vs (fun v hv => w1.mem hv)
            (fun v hv st' hp' => by
              have hinvs : Inv env c rz Γ ρ st' := hinv1.of_set hnnΓ hnng hnnσ hvar hp'.1
              obtain ⟨cs, rfl⟩ := WF_tuple_isTuple (w1.mem hv)
              obtain ⟨hwcs, _⟩ := WF_tuple_iff.mp (w1.mem hv)
              obtain ⟨ρ', hbp, hinv'⟩ := hinvs.bindTup xs ts cs nn var (st'.iters + 1) hlen hnd hfresh hnnΓ hnng hnnxs hnnσ
                hvar hnts hwcs
              rcases ihb f (some .NT_DECLARATIVE_EXPR) _ ρ' hinv' (hcov.kid (by simp)) with
                ⟨b, st'', hb, ⟨hp'', hm''⟩, hd⟩ | hbad
              · refine Or.inl ⟨b, st'', hb, ⟨by rw [hp'']; simp only [List.set_set]; exact hp'.1,
                  by have := hp'.2; simp at hm''; omega⟩, fun i => ?_⟩
                rw [patBody_eq _ _ _ _ _ _ _ _ _ _ hbp, hd i.1 i.2]; rfl
              · exact Or.inr hbad) [] st1 ⟨set_self _ _ _ hsaved, m1⟩ (WF_empty _) with
          ⟨flags, st2, h2, ⟨p2, m2⟩, wf2, hm⟩ | hbad
        · rw [h2]
          exact Res.val rfl ⟨by show st2.data.set var saved = st.data; rw [p2, p1], m2⟩ wf2 n1 (by
            dsucc g hg
            show denote (senvOf env) (g + 1) ρ (.node .NT_DECLARATIVE_EXPR d lo hi [patNode pd plo phi xs, dom, body]) = _
            rw [denote_declPat, d1 g (by omega)]
            simp only [dSet, dVal, members, Option.bind_some]
            rw [hm ⟨g, by omega⟩]; rfl)
        · exact Res.bad (by obtain ⟨fl, k, hb, hf⟩ := hbad; exact ⟨fl, k, by rw [hb]; rfl, hf⟩)
      · exact Res.bad ⟨fl, k, by simp [hb, R.asSet], hf⟩
  | @imp rz Γ value value' τ d lo hi bs _ hne hnτ hside _ _ ihb ihv =>
    intro fuel p st ρ hinv hcov
    cases fuel with
    | zero => exact Res.zero ..
    | succ f =>
      rw [ev_imp]
      have hemp : (bs.map Blk.core).isEmpty = false := by
        cases bs with
        | nil => exact absurd rfl hne
        | cons _ _ => rfl
      -- every block's variable has a slot
      have hslot : ∀ b ∈ bs, b.slotOK c := by
        intro b hb
        obtain ⟨pre, post, rfl⟩ := List.append_of_mem hb
        have hcb : Covered c.ids b.core := hcov.kid (List.mem_cons_of_mem _ (List.mem_map_of_mem (f := Blk.core) hb))
        cases b with
        | iter x dom dom' σ d' lo' hi' dlo dhi =>
          exact hcb x (names_kid (k := .node .ID_LOCAL (.text x) dlo dhi []) (by simp) (by simp [names, namesKids, tok_beq]))
        | asg x ex ex' σ d' lo' hi' dlo dhi =>
          exact hcb x (names_kid (k := .node .ID_LOCAL (.text x) dlo dhi []) (by simp) (by simp [names, namesKids, tok_beq]))
        | guard g g' => exact (hside pre _ post rfl).2.2
      simp only [hemp, Bool.false_eq_true, if_false, impMetas_ok c bs hslot, List.length_map]
      have hmeta : ∀ pre b post, bs = pre ++ b :: post → (bs.map (metaOf c))[pre.length]? = some (metaOf c b) := by
        intro pre b post e
        subst e
        simp
      have hkid : ∀ pre b post, bs = pre ++ b :: post →
          (value' :: bs.map Blk.core)[pre.length + 1]? = some b.core := by
        intro pre b post e
        subst e
        simp
      have hcovb : ∀ pre b post, bs = pre ++ b :: post → Covered c.ids b.expr' := by
        intro pre b post e
        have hb : b ∈ bs := by rw [e]; simp
        have hcb : Covered c.ids b.core := hcov.kid (List.mem_cons_of_mem _ (List.mem_map_of_mem (f := Blk.core) hb))
        cases b with
        | iter x dom dom' σ d' lo' hi' dlo dhi => exact hcb.kid (by simp [Blk.expr'])
        | asg x ex ex' σ d' lo' hi' dlo dhi => exact hcb.kid (by simp [Blk.expr'])
        | guard g g' => exact hcb
      -- the slot guards
      obtain ⟨saved, hguards, hsavedv, hsavedm⟩ := impGuards_ok st.data (bs.map (metaOf c)) (by
        intro m hm hr
        obtain ⟨b, hb, rfl⟩ := List.mem_map.mp hm
        have hsl := hslot b hb
        cases b with
        | iter x dom dom' σ d' lo' hi' dlo dhi =>
          obtain ⟨var, hv⟩ := hsl
          simp only [metaOf, hv, Option.getD_some]
          exact hinv.range x var hv
        | asg x ex ex' σ d' lo' hi' dlo dhi =>
          obtain ⟨var, hv⟩ := hsl
          simp only [metaOf, hv, Option.getD_some]
          exact hinv.range x var hv
        | guard g g' => simp only [metaOf] at hr; rcases hr with hr | hr; exact absurd hr hsl.1; exact absurd hr hsl.2)
      simp only [hguards]
      have H : ImpHyp (ι := { g : Nat // f ≤ g }) env c rz Γ bs τ (bs.map (metaOf c)) saved
          (impChild c f (value' :: bs.map Blk.core)) (impDom c f (value' :: bs.map Blk.core))
          (fun i ρ' => dVal (denote (senvOf env) i.1 ρ' value))
          (fun i ρ' x => dVal (denote (senvOf env) i.1 ρ' x))
          (fun i ρ' x => dBool (denote (senvOf env) i.1 ρ' x)) := by
        constructor
        · intro pre x dom dom' σ d' lo' hi' dlo dhi post e
          have hs := hside pre _ post e
          obtain ⟨var, hvar⟩ := hslot (.iter x dom dom' σ d' lo' hi' dlo dhi) (by rw [e]; simp)
          refine ⟨hs.1, hs.2.1, hs.2.2, var, hvar, by rw [hmeta pre _ post e]; simp [metaOf, hvar], ?_, ?_⟩
          · have := hsavedm (metaOf c (.iter x dom dom' σ d' lo' hi' dlo dhi))
              (List.mem_map_of_mem (f := metaOf c) (by rw [e]; simp)) (Or.inl rfl)
            simpa [metaOf, hvar] using this
          intro ρ' st' hi'
          have hd : impDom c f (value' :: bs.map Blk.core) (pre.length + 1) st' = ev c f dom' (some .ITERATE) st' := by
            simp [impDom, hkid pre _ post e, Blk.core, Ast.kids, Ast.id]
          rw [hd]
          rcases ihb pre _ post e f (some .ITERATE) st' ρ' hi' (hcovb pre _ post e) with
            ⟨v, st'', hb, ⟨hp'', hm''⟩, w, n, hdn⟩ | hbad
          · obtain ⟨xs, rfl⟩ := WF_coll_isSet w
            exact Or.inl ⟨xs, st'', hb, hp'', hm'', w, by simpa [noAny_coll] using n, fun i => by
              show dVal (denote (senvOf env) i.1 ρ' dom) = _
              have h' := hdn i.1 i.2
              simp only [Blk.expr] at h'
              rw [h']; rfl⟩
          · exact Or.inr hbad
        · intro pre x ex ex' σ d' lo' hi' dlo dhi post e
          have hs := hside pre _ post e
          obtain ⟨var, hvar⟩ := hslot (.asg x ex ex' σ d' lo' hi' dlo dhi) (by rw [e]; simp)
          refine ⟨hs.1, hs.2.1, hs.2.2, var, hvar, by rw [hmeta pre _ post e]; simp [metaOf, hvar], ?_, ?_⟩
          · have := hsavedm (metaOf c (.asg x ex ex' σ d' lo' hi' dlo dhi))
              (List.mem_map_of_mem (f := metaOf c) (by rw [e]; simp)) (Or.inr rfl)
            simpa [metaOf, hvar] using this
          intro ρ' st' hi'
          have hd : impDom c f (value' :: bs.map Blk.core) (pre.length + 1) st' = ev c f ex' (some .ASSIGN) st' := by
            simp [impDom, hkid pre _ post e, Blk.core, Ast.kids, Ast.id]
          rw [hd]
          rcases ihb pre _ post e f (some .ASSIGN) st' ρ' hi' (hcovb pre _ post e) with
            ⟨v, st'', hb, ⟨hp'', hm''⟩, w, n, hdn⟩ | hbad
          · exact Or.inl ⟨v, st'', hb, hp'', hm'', w, n, fun i => by
              show dVal (denote (senvOf env) i.1 ρ' ex) = _
              have h' := hdn i.1 i.2
              simp only [Blk.expr] at h'
              rw [h']; rfl⟩
          · exact Or.inr hbad
        · intro pre g g' post e
          have hs := hside pre _ post e
          refine ⟨hs.1, hs.2.1, ⟨metaOf c (.guard g g'), hmeta pre _ post e, hs.2.2.1, hs.2.2.2⟩, ?_⟩
          intro ρ' st' hi'
          have hd : impChild c f (value' :: bs.map Blk.core) (pre.length + 1) st' =
              ev c f g' (some .NT_IMPERATIVE_EXPR) st' := by
            simp [impChild, hkid pre _ post e, Blk.core]
          rw [hd]
          rcases ihb pre _ post e f (some .NT_IMPERATIVE_EXPR) st' ρ' hi' (hcovb pre _ post e) with
            ⟨b, st'', hb, ⟨hp'', hm''⟩, hdn⟩ | hbad
          · exact Or.inl ⟨b, st'', hb, hp'', hm'', fun i => by
              show dBool (denote (senvOf env) i.1 ρ' g) = _
              have h' := hdn i.1 i.2
              simp only [Blk.expr] at h'
              rw [h']; rfl⟩
          · exact Or.inr hbad
        · intro ρ' st' hi'
          have hd : impChild c f (value' :: bs.map Blk.core) 0 st' = ev c f value' (some .NT_IMPERATIVE_EXPR) st' := by
            simp [impChild]
          rw [hd]
          rcases ihv f (some .NT_IMPERATIVE_EXPR) st' ρ' hi' (hcov.kid (by simp)) with
            ⟨v, st'', hb, ⟨hp'', hm''⟩, w, n, hdn⟩ | hbad
          · exact Or.inl ⟨v, st'', hb, hp'', hm'', w, fun i => by
              show dVal (denote (senvOf env) i.1 ρ' value) = _
              rw [hdn i.1 i.2]; rfl⟩
          · exact Or.inr hbad
      have hrun := impLoop_sim env c rz Γ bs τ (bs.map (metaOf c)) saved st.data (impChild c f (value' :: bs.map Blk.core))
        (impDom c f (value' :: bs.map Blk.core)) _ _ _ H ρ lo (MAX_ITERATIONS + 2) [] bs ρ [] [] st (by simp) hinv
        (restoreAll_self saved st.data hsavedv) (Ext.refl env c rz (Γ, ρ)) (by simp) (WF_empty τ)
      simp only [List.length_nil, stackOf, List.map_nil] at hrun
      rcases hrun with ⟨L, st', e1, e2, eq', e3, e4, e5⟩ | hbad
      · rw [e1]
        exact Res.val rfl ⟨eq', e3⟩ e4 (by simpa [noAny_coll] using hnτ) (by
          dsucc g hg
          rw [denote_imp]
          have := e5 ⟨g, hg⟩
          simp only [remSem, framesSem, Option.map_some, List.append_nil] at this
          cases hs : impSemB (fun ρ' => dVal (denote (senvOf env) g ρ' value)) (fun ρ' x => dVal (denote (senvOf env) g ρ' x))
              (fun ρ' x => dBool (denote (senvOf env) g ρ' x)) bs ρ with
          | none => simp [hs] at this
          | some l =>
            simp [hs] at this
            subst this
            simp only [impSemB] at hs
            rw [hs]; rfl)
      · exact Res.bad (by obtain ⟨fl, k, hb, hf⟩ := hbad; exact ⟨fl, k, by rw [hb]; rfl, hf⟩)

end CCVerif.Eval
