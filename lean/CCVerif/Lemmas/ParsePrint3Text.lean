import CCVerif.Lemmas.PrintLex3Print
import CCVerif.Lemmas.ParsePrint3Decl
/-!
C05, TEXT level for the TOP-LEVEL forms over the fragment `E3` (`PP3.Top` of `Lemmas/ParsePrint3Decl.lean`): function
definitions `[x∈S, y∈T] body` and global declarations `X1 :== body`, `S1 ::= body`, `F1 :== [x∈S] body`, `X1 :==`.
`Lemmas/ParsePrint3Decl.lean` has the parser link (`parseToks_top`); this file adds
* the hypothesis on leaves `Top.lexOK` (names of declared arguments are local names, the declared name is a global /
  function / predicate name of the lexer of the syntax; leaves of domains and body as `E3.lexOK`),
* the printed text as items (`Top.items`): `ViGlobalDeclaration` writes `child0 ++ Token::Str(id) ++ child1`,
  `ViFunctionDefinition` `args ++ ' ' ++ body`, `ViArgumentsEnum` `[` … `, ` … `]`, `ViArgument` `x ++ Str(IN) ++ dom`,
* the printer link `top_print` (the printer model prints exactly these items), the lexer link `top_chain`
  (every token is lexed as itself in its context: the spellings of PUNC_DEFINE / PUNC_STRUCT come from the generated
  tables, `def_table`: `:==` / `::=` in MATH and ` \defexpr ` / ` \deftype ` in ASCII are extended by no literal of the
  lexers and do not start with an alphanumeric unit, so the declared name in front of them ends where it should),
* `kds_top` (the items carry `Top.toks`), `translit_top` (the transliteration is the identity),
and closes the chain: `top_roundtrip_erA`, `top_text_roundtrip_any`.
-/
namespace CCVerif.PP3
open CCVerif.Syntax CCVerif.Generated CCVerif.Lexer CCVerif.Parser CCVerif.Printer CCVerif.LexP CCVerif.LexN CCVerif.PP

/-! ## the spellings of `:==` and `::=` -/

/-- the two definition tokens -/
def defL : List Tok := [.PUNC_DEFINE, .PUNC_STRUCT]

/-- (generated tables, re-proved on every run) the spellings of PUNC_DEFINE / PUNC_STRUCT are well-behaved fixed spellings,
accept ANY following unit (no literal of the lexer extends `:==` / `::=`; the ASCII spellings end with a blank), and do not
start with an alphanumeric unit -/
theorem def_table : ∀ syn ∈ synL, ∀ t ∈ defL, fixedBase syn t = true ∧ freeTok syn t = true ∧
    (match (str syn t).head? with | some c => !isAlnum syn c | none => false) = true := by
  decide +kernel

theorem mem_defL {m : Tok} (h : isDefTok m = true) : m ∈ defL := by
  rcases defTok_cases h with rfl | rfl <;> simp [defL]

theorem render_fx_def (syn : Syn) (t : Tok) (ht : t ∈ defL) : render (fx syn t) = str syn t := by
  have h := (def_table syn (mem_synL syn) t ht).1
  simp only [fixedBase, Bool.and_eq_true, decide_eq_true_eq] at h
  rw [← h.1.1.1.1.1.1]
  simp [fx, render, Item.text]

/-- a well-behaved fixed spelling that accepts any following unit is lexed as itself in every context -/
theorem fx_chain_base_free (syn : Syn) (t : Tok) (hbase : fixedBase syn t = true) (hfree : freeTok syn t = true)
    (nx : Option Nat) : ChainN syn (fx syn t) nx := by
  have hb := hbase
  simp only [fixedBase, Bool.and_eq_true, decide_eq_true_eq, Bool.or_eq_true, Bool.not_eq_true',
    beq_iff_eq, List.isEmpty_eq_false_iff, ne_eq] at hb
  obtain ⟨⟨⟨⟨⟨⟨_, hne⟩, hbest⟩, hend⟩, hdata⟩, hblank⟩, _⟩ := hb
  show ChainN syn [.blank _, .tok _ t .none, .blank _] nx
  rw [chainN_blank, chainN_tok, chainN_blank]
  refine ⟨⟨hne, hbest, hend, hdata, ?_⟩, trivial⟩
  intro c hc
  cases hb2 : (fparts syn t).2.2 with
  | succ n =>
    rw [hb2, firstU_blank_succ] at hc
    cases hc
    rcases hblank with h0 | h0
    · rw [hb2] at h0; cases h0
    · exact h0
  | zero =>
    simp only [freeTok, hb2, Bool.or_eq_true, bne_iff_ne, ne_eq, not_true_eq_false, false_or,
      Bool.and_eq_true, List.isEmpty_iff] at hfree
    exact ext_symbol_nil syn _ c hfree.1 hfree.2

theorem fx_chain_def (syn : Syn) (t : Tok) (ht : t ∈ defL) (nx : Option Nat) : ChainN syn (fx syn t) nx :=
  fx_chain_base_free syn t (def_table syn (mem_synL syn) t ht).1 (def_table syn (mem_synL syn) t ht).2.1 nx

/-- the first unit of a text that starts with a definition token is not alphanumeric -/
theorem nextOK_def (syn : Syn) (t : Tok) (ht : t ∈ defL) (R : List Item) (nx : Option Nat) :
    NextOK syn (firstU (fx syn t ++ R) nx) := by
  have h := (def_table syn (mem_synL syn) t ht).2.2
  have hr := render_fx_def syn t ht
  cases hs : str syn t with
  | nil => rw [hs] at h; simp at h
  | cons c r =>
    have hf : firstU (fx syn t ++ R) nx = some c := by
      rw [firstU_append]; unfold firstU; rw [hr, hs]
    rw [hs] at h
    intro c' h'; rw [hf] at h'; cases h'; simpa using h

/-! ## the hypothesis on leaves, and the items of a top-level form -/

/-- declared arguments: the names are local names of the lexer of `syn`, the domains have conformant leaves -/
def Args.lexOK (syn : Syn) : Args → Bool
  | .one d dom => leafOK syn .ID_LOCAL d && dom.lexOK syn
  | .more d dom r => leafOK syn .ID_LOCAL d && dom.lexOK syn && r.lexOK syn

def Body.lexOK (syn : Syn) : Body → Bool
  | .expr e => e.lexOK syn
  | .fdef a e => a.lexOK syn && e.lexOK syn

/-- the declared name is a global / function / predicate name of the lexer of `syn` (of the kind the tree says) -/
def Top.lexOK (syn : Syn) : Top → Bool
  | .plain b => b.lexOK syn
  | .glob g name _ b => leafOK syn g name && b.lexOK syn
  | .globEmpty g name => leafOK syn g name

/-- one declared argument `x∈dom` as items (`ViArgument`) -/
def argItems (syn : Syn) (d : TokData) (dom : E3) : List Item :=
  leafItems syn .ID_LOCAL d ++ (fx syn .IN ++ dom.items syn)

/-- `ViArgumentsEnum` without the brackets: `x∈S, y∈T` -/
def Args.items (syn : Syn) : Args → List Item
  | .one d dom => argItems syn d dom
  | .more d dom r => argItems syn d dom ++ (fx syn .PUNC_COMMA ++ (.blank 1 :: r.items syn))

/-- `ViFunctionDefinition`: `[args] body` -/
def Body.items (syn : Syn) : Body → List Item
  | .expr e => e.items syn
  | .fdef a e => fx syn .PUNC_SL ++ (a.items syn ++ (fx syn .PUNC_SR ++ (.blank 1 :: e.items syn)))

/-- `ViGlobalDeclaration`: `name ++ Token::Str(:== / ::=) ++ body` -/
def Top.items (syn : Syn) : Top → List Item
  | .plain b => b.items syn
  | .glob g name m b => leafItems syn g name ++ (fx syn m ++ b.items syn)
  | .globEmpty g name => leafItems syn g name ++ fx syn .PUNC_DEFINE

/-! ## the items carry the token sequence -/

theorem kds_args (syn : Syn) : ∀ a : Args, a.lexOK syn = true → kds (a.items syn) = a.toks.map kd2
  | .one d dom, h => by
    simp only [Args.lexOK, Bool.and_eq_true] at h
    simp only [Args.items, argItems, Args.toks, kds_append, kds_fx, kds_leaf syn _ d h.1, kds_items syn dom h.2,
      List.map_cons]
    rfl
  | .more d dom r, h => by
    simp only [Args.lexOK, Bool.and_eq_true] at h
    simp only [Args.items, argItems, Args.toks, kds_append, kds_blank, kds_fx, kds_leaf syn _ d h.1.1,
      kds_items syn dom h.1.2, kds_args syn r h.2, List.map_cons, List.map_append]
    rfl

theorem kds_body (syn : Syn) (b : Body) (h : b.lexOK syn = true) : kds (b.items syn) = b.toks.map kd2 := by
  cases b with
  | expr e => exact kds_items syn e h
  | fdef a e =>
    simp only [Body.lexOK, Bool.and_eq_true] at h
    simp only [Body.items, Body.toks, kds_append, kds_blank, kds_fx, kds_args syn a h.1, kds_items syn e h.2,
      List.map_cons, List.map_append]
    rfl

theorem kds_top (syn : Syn) (t : Top) (h : t.lexOK syn = true) : kds (t.items syn) = t.toks.map kd2 := by
  cases t with
  | plain b => exact kds_body syn b h
  | glob g name m b =>
    simp only [Top.lexOK, Bool.and_eq_true] at h
    simp only [Top.items, Top.toks, kds_append, kds_fx, kds_leaf syn g name h.1, kds_body syn b h.2, List.map_cons]
    rfl
  | globEmpty g name =>
    simp only [Top.lexOK] at h
    simp only [Top.items, Top.toks, kds_append, kds_fx, kds_leaf syn g name h, List.map_cons, List.map_nil]
    rfl

/-! ## the items form a chain (lexer link) -/

theorem args_chain (syn : Syn) : ∀ a : Args, a.wf = true → a.lexOK syn = true → ∀ nx, NextOK syn nx →
    ChainN syn (a.items syn) nx
  | .one d dom, hw, hl, nx, hn => by
    simp only [Args.wf, Bool.and_eq_true] at hw
    simp only [Args.lexOK, Bool.and_eq_true] at hl
    have hin : Tok.IN ∈ freeL := by simp [freeL]
    exact chain_app (leaf_chain syn _ d hl.1 _ (nextOK_free syn _ hin _ nx))
      (chain_app (fx_chain_free syn _ hin _) (items_chain syn dom hw.2 hl.2 nx hn))
  | .more d dom r, hw, hl, nx, hn => by
    simp only [Args.wf, Bool.and_eq_true] at hw
    simp only [Args.lexOK, Bool.and_eq_true] at hl
    have hin : Tok.IN ∈ freeL := by simp [freeL]
    have hcm : Tok.PUNC_COMMA ∈ freeL := by simp [freeL]
    show ChainN syn (leafItems syn .ID_LOCAL d ++ (fx syn .IN ++ dom.items syn) ++
      (fx syn .PUNC_COMMA ++ (.blank 1 :: r.items syn))) nx
    rw [List.append_assoc, List.append_assoc]
    refine chain_app (leaf_chain syn _ d hl.1.1 _ (nextOK_free syn _ hin _ nx))
      (chain_app (fx_chain_free syn _ hin _) (chain_app (items_chain syn dom hw.1.2 hl.1.2 _ (nextOK_free syn _ hcm _ nx))
        (chain_app (fx_chain_free syn _ hcm _) ?_)))
    rw [chainN_blank]
    exact args_chain syn r hw.2 hl.2 nx hn

theorem body_chain (syn : Syn) (b : Body) (hw : b.wf = true) (hl : b.lexOK syn = true) (nx : Option Nat)
    (hn : NextOK syn nx) : ChainN syn (b.items syn) nx := by
  cases b with
  | expr e =>
    simp only [Body.wf, Bool.and_eq_true] at hw
    exact items_chain syn e hw.2 hl nx hn
  | fdef a e =>
    simp only [Body.wf, Bool.and_eq_true] at hw
    simp only [Body.lexOK, Bool.and_eq_true] at hl
    have hsl : Tok.PUNC_SL ∈ freeL := by simp [freeL]
    have hsr : Tok.PUNC_SR ∈ freeL := by simp [freeL]
    refine chain_app (fx_chain_free syn _ hsl _) (chain_app (args_chain syn a hw.1.1 hl.1 _ (nextOK_free syn _ hsr _ nx))
      (chain_app (fx_chain_free syn _ hsr _) ?_))
    rw [chainN_blank]
    exact items_chain syn e hw.2 hl.2 nx hn

/-- **the printed items of a top-level form are a chain**: every token is lexed as itself in its context -/
theorem top_chain (syn : Syn) (t : Top) (hw : t.wf = true) (hl : t.lexOK syn = true) (nx : Option Nat)
    (hn : NextOK syn nx) : ChainN syn (t.items syn) nx := by
  cases t with
  | plain b => exact body_chain syn b hw hl nx hn
  | glob g name m b =>
    simp only [Top.wf, Bool.and_eq_true] at hw
    simp only [Top.lexOK, Bool.and_eq_true] at hl
    have hm := mem_defL hw.1.2
    exact chain_app (leaf_chain syn g name hl.1 _ (nextOK_def syn m hm _ nx))
      (chain_app (fx_chain_def syn m hm _) (body_chain syn b hw.2 hl.2 nx hn))
  | globEmpty g name =>
    simp only [Top.lexOK] at hl
    have hm : Tok.PUNC_DEFINE ∈ defL := by simp [defL]
    refine chain_app (leaf_chain syn g name hl _ ?_) (fx_chain_def syn _ hm nx)
    have := nextOK_def syn .PUNC_DEFINE hm [] nx
    simpa using this

/-! ## the printer model produces the items (printer link) -/

theorem assemble_argdecl (syn : Syn) (c1 c2 : Tok) (ta tb : List Nat) :
    assemble syn .NT_ARG_DECL .none [c1, c2] [some ta, some tb] = some (ta ++ str syn .IN ++ tb) := rfl

theorem assemble_arguments (syn : Syn) (ids : List Tok) (ps : List (Option (List Nat))) (h : ids.length > 0) :
    assemble syn .NT_ARGUMENTS .none ids ps = (sequence ps).bind fun ks => some (91 :: (joinSep commaSp ks ++ [93])) := by
  simp only [assemble, h, if_true]; rfl

theorem assemble_funcdef (syn : Syn) (c1 c2 : Tok) (ta tb : List Nat) :
    assemble syn .NT_FUNC_DEFINITION .none [c1, c2] [some ta, some tb] = some (ta ++ [32] ++ tb) := rfl

theorem assemble_def2 (syn : Syn) (m : Tok) (hm : isDefTok m = true) (c1 c2 : Tok) (ta tb : List Nat) :
    assemble syn m .none [c1, c2] [some ta, some tb] = some (ta ++ str syn m ++ tb) := by
  rcases defTok_cases hm with rfl | rfl <;> rfl

theorem assemble_def1 (syn : Syn) (c1 : Tok) (ta : List Nat) :
    assemble syn .PUNC_DEFINE .none [c1] [some ta] = some (ta ++ str syn .PUNC_DEFINE) := rfl

/-- one declared argument is printed as its items -/
theorem arg_print (syn : Syn) (d : TokData) (dom : E3) (hd : leafOK syn .ID_LOCAL d = true) (hS : dom.isS = true)
    (hw : dom.wf = true) (hl : dom.lexOK syn = true) :
    print syn (declNode d dom.ast) = some (render (argItems syn d dom)) := by
  have hpd := (pclaim syn dom hw hl).ph (Or.inl hS)
  show print syn (.node .NT_ARG_DECL .none 0 0 [.node .ID_LOCAL d 0 0 [], dom.ast]) = _
  rw [print, kidIds_cons, kidIds_cons, kidIds_nil, printKids_cons, printKids_cons, printKids_nil, hpd, print, kidIds_nil,
    printKids_nil, leaf_print syn _ d hd, assemble_argdecl]
  simp [argItems, render_append, render_fx syn .IN (by simp [fragFixed])]

/-- the printed declared arguments -/
def Args.texts (syn : Syn) : Args → List (List Nat)
  | .one d dom => [render (argItems syn d dom)]
  | .more d dom r => render (argItems syn d dom) :: r.texts syn

theorem args_texts_ne (syn : Syn) (a : Args) : ∃ x xs, a.texts syn = x :: xs := by cases a <;> exact ⟨_, _, rfl⟩

theorem args_print (syn : Syn) : ∀ a : Args, a.wf = true → a.lexOK syn = true →
    printKids syn a.asts = (a.texts syn).map some ∧ joinSep commaSp (a.texts syn) = render (a.items syn)
  | .one d dom, hw, hl => by
    simp only [Args.wf, Bool.and_eq_true] at hw
    simp only [Args.lexOK, Bool.and_eq_true] at hl
    refine ⟨?_, rfl⟩
    show printKids syn [declNode d dom.ast] = _
    rw [printKids_cons, printKids_nil, arg_print syn d dom hl.1 hw.1 hw.2 hl.2]; rfl
  | .more d dom r, hw, hl => by
    simp only [Args.wf, Bool.and_eq_true] at hw
    simp only [Args.lexOK, Bool.and_eq_true] at hl
    obtain ⟨hrk, hrj⟩ := args_print syn r hw.2 hl.2
    obtain ⟨x, xs, hx⟩ := args_texts_ne syn r
    have hp := punct_spell syn (mem_synL syn)
    refine ⟨?_, ?_⟩
    · show printKids syn (declNode d dom.ast :: r.asts) = _
      rw [printKids_cons, arg_print syn d dom hl.1.1 hw.1.1 hw.1.2 hl.1.2, hrk]; rfl
    · show joinSep commaSp (render (argItems syn d dom) :: r.texts syn) = _
      rw [hx, joinSep_cons2, ← hx, hrj]
      simp [Args.items, render_append, render_blank1, render_fx syn .PUNC_COMMA (by simp [fragFixed]), hp.2.2.2.2.2.2.1,
        commaSp]

theorem asts_length_pos (a : Args) : a.asts.length > 0 := by cases a <;> simp [Args.asts]

theorem body_print (syn : Syn) (b : Body) (hw : b.wf = true) (hl : b.lexOK syn = true) :
    print syn b.ast = some (render (b.items syn)) := by
  cases b with
  | expr e =>
    simp only [Body.wf, Bool.and_eq_true] at hw
    exact (pclaim syn e hw.2 hl).ph (orSL hw.1)
  | fdef a e =>
    simp only [Body.wf, Bool.and_eq_true] at hw
    simp only [Body.lexOK, Bool.and_eq_true] at hl
    obtain ⟨hak, haj⟩ := args_print syn a hw.1.1 hl.1
    have hpe := (pclaim syn e hw.2 hl.2).ph (orSL hw.1.2)
    have hp := punct_spell syn (mem_synL syn)
    have hargs : print syn (.node .NT_ARGUMENTS .none 0 0 a.asts) = some (91 :: (render (a.items syn) ++ [93])) := by
      rw [print, hak, assemble_arguments syn _ _ (by rw [kidIds_length]; exact asts_length_pos a), sequence_some]
      show some (91 :: (joinSep commaSp (a.texts syn) ++ [93])) = _
      rw [haj]
    show print syn (.node .NT_FUNC_DEFINITION .none 0 0 [.node .NT_ARGUMENTS .none 0 0 a.asts, e.ast]) = _
    rw [print, kidIds_cons, kidIds_cons, kidIds_nil, printKids_cons, printKids_cons, printKids_nil, hargs, hpe,
      assemble_funcdef]
    simp [Body.items, render_append, render_blank1, render_fx syn .PUNC_SL (by simp [fragFixed]),
      render_fx syn .PUNC_SR (by simp [fragFixed]), hp.2.2.1, hp.2.2.2.1]

/-- **the printer model prints the items of a top-level form** -/
theorem top_print (syn : Syn) (t : Top) (hw : t.wf = true) (hl : t.lexOK syn = true) :
    print syn t.ast = some (render (t.items syn)) := by
  cases t with
  | plain b => exact body_print syn b hw hl
  | glob g name m b =>
    simp only [Top.wf, Bool.and_eq_true] at hw
    simp only [Top.lexOK, Bool.and_eq_true] at hl
    show print syn (.node m .none 0 0 [.node g name 0 0 [], b.ast]) = _
    rw [print, kidIds_cons, kidIds_cons, kidIds_nil, printKids_cons, printKids_cons, printKids_nil,
      body_print syn b hw.2 hl.2, print, kidIds_nil, printKids_nil, leaf_print syn g name hl.1,
      assemble_def2 syn m hw.1.2]
    simp [Top.items, render_append, render_fx_def syn m (mem_defL hw.1.2)]
  | globEmpty g name =>
    simp only [Top.lexOK] at hl
    show print syn (.node .PUNC_DEFINE .none 0 0 [.node g name 0 0 []]) = _
    rw [print, kidIds_cons, kidIds_nil, printKids_cons, printKids_nil, print, kidIds_nil, printKids_nil,
      leaf_print syn g name hl, assemble_def1]
    simp [Top.items, render_append, render_fx_def syn .PUNC_DEFINE (by simp [defL])]

/-! ## local names are not changed by the transliteration -/

theorem translit_args (syn : Syn) : ∀ a : Args, a.wf = true → a.lexOK syn = true → translitKids syn a.asts = a.asts
  | .one d dom, hw, hl => by
    simp only [Args.wf, Bool.and_eq_true] at hw
    simp only [Args.lexOK, Bool.and_eq_true] at hl
    show translitKids syn [declNode d dom.ast] = _
    rw [tk_cons, tk_nil, declNode, tnode syn .NT_ARG_DECL .none _ rfl
      (by rw [tk_cons, tk_cons, tk_nil, tnode syn .ID_LOCAL d [] (tdata_leaf syn _ d hl.1) (tk_nil syn),
        (tclaim syn dom hw.2 hl.2).a])]
    rfl
  | .more d dom r, hw, hl => by
    simp only [Args.wf, Bool.and_eq_true] at hw
    simp only [Args.lexOK, Bool.and_eq_true] at hl
    show translitKids syn (declNode d dom.ast :: r.asts) = _
    rw [tk_cons, translit_args syn r hw.2 hl.2, declNode, tnode syn .NT_ARG_DECL .none _ rfl
      (by rw [tk_cons, tk_cons, tk_nil, tnode syn .ID_LOCAL d [] (tdata_leaf syn _ d hl.1.1) (tk_nil syn),
        (tclaim syn dom hw.1.2 hl.1.2).a])]
    rfl

theorem translit_body (syn : Syn) (b : Body) (hw : b.wf = true) (hl : b.lexOK syn = true) :
    translit syn b.ast = b.ast := by
  cases b with
  | expr e =>
    simp only [Body.wf, Bool.and_eq_true] at hw
    exact (tclaim syn e hw.2 hl).a
  | fdef a e =>
    simp only [Body.wf, Bool.and_eq_true] at hw
    simp only [Body.lexOK, Bool.and_eq_true] at hl
    exact tnode syn .NT_FUNC_DEFINITION .none _ rfl
      (by rw [tk_cons, tk_cons, tk_nil, tnode syn .NT_ARGUMENTS .none _ rfl (translit_args syn a hw.1.1 hl.1),
        (tclaim syn e hw.2 hl.2).a])

/-- the transliteration is the identity on the tree of a top-level form with lexer-conformant leaves -/
theorem translit_top (syn : Syn) (t : Top) (hw : t.wf = true) (hl : t.lexOK syn = true) : translit syn t.ast = t.ast := by
  cases t with
  | plain b => exact translit_body syn b hw hl
  | glob g name m b =>
    simp only [Top.wf, Bool.and_eq_true] at hw
    simp only [Top.lexOK, Bool.and_eq_true] at hl
    exact tnode syn m .none _ (tdata_none syn m)
      (by rw [tk_cons, tk_cons, tk_nil, tnode syn g name [] (tdata_leaf syn g name hl.1) (tk_nil syn),
        translit_body syn b hw.2 hl.2])
  | globEmpty g name =>
    simp only [Top.lexOK] at hl
    exact tnode syn .PUNC_DEFINE .none _ rfl
      (by rw [tk_cons, tk_nil, tnode syn g name [] (tdata_leaf syn g name hl) (tk_nil syn)])

/-! ## the whole chain -/

/-- the lexer link for top-level forms: the printed text lexes to `Top.toks` (kinds and payloads) followed by END -/
theorem lex_print_top (syn : Syn) (t : Top) (hw : t.wf = true) (hl : t.lexOK syn = true) :
    print syn t.ast = some (render (t.items syn)) ∧
    (lex syn (render (t.items syn))).map (·.map kd2) = some ((t.toks ++ [tk .END]).map kd2) := by
  refine ⟨top_print syn t hw hl, ?_⟩
  have h := lex_items syn (t.items syn) (top_chain syn t hw hl none (nextOK_none syn))
  rw [kds_top syn t hl] at h
  show (lex syn (render (t.items syn))).map (·.map fun t => (t.id, t.data)) = _
  rw [h, List.map_append]; rfl

/-- **print then parse gives the tree back, at the level of TEXT, for top-level forms** (tree with ANY positions): the
parsed tree is `t` up to positions -/
theorem top_roundtrip_erA (syn : Syn) (t : Ast) (d : Top) (ht : PE.erA t = d.ast) (hw : d.wf = true)
    (hl : d.lexOK syn = true) :
    ∃ text t', print syn t = some text ∧ parse syn text = some t' ∧ PE.erA t' = PE.erA t := by
  obtain ⟨hp, hlex⟩ := lex_print_top syn d hw hl
  refine ⟨render (d.items syn), ?_⟩
  have hpt : print syn t = some (render (d.items syn)) := by rw [← print_erA, ht]; exact hp
  have hee : PE.erA d.ast = d.ast := by rw [← ht, PE.erA_erA]
  cases hts : lex syn (render (d.items syn)) with
  | none => rw [hts] at hlex; cases hlex
  | some ts =>
    rw [hts] at hlex
    simp only [Option.map_some, Option.some.injEq] at hlex
    have hmap : ts.map PE.er = (d.toks ++ [tk .END]).map PE.er := by
      have h1 : ∀ us : Toks, us.map PE.er = (us.map kd2).map (fun p => (⟨p.1, p.2, 0, 0⟩ : LTok)) := by
        intro us; rw [List.map_map]; rfl
      rw [h1 ts, h1 (d.toks ++ [tk .END]), hlex]
    have hparse := parseToks_top d hw
    have h2 := PE.parseToks_erase (d.toks ++ [tk .END])
    rw [hparse, ← hmap, PE.parseToks_erase ts] at h2
    cases hpt' : parseToks ts with
    | none => rw [hpt'] at h2; cases h2
    | some t' =>
      rw [hpt'] at h2
      simp only [Option.map_some, Option.some.injEq] at h2
      refine ⟨t', hpt, ?_, ?_⟩
      · unfold parse; rw [hts]; exact hpt'
      · rw [h2, hee, ht]

/-- the same with the conclusion of C05: the parsed tree equals `translit syn t` up to positions -/
theorem top_text_roundtrip_any (syn : Syn) (t : Ast) (d : Top) (ht : PE.erA t = d.ast) (hw : d.wf = true)
    (hl : d.lexOK syn = true) :
    ∃ text t', print syn t = some text ∧ parse syn text = some t' ∧ Ast.eqv t' (translit syn t) = true := by
  obtain ⟨text, t', hp, hparse, her⟩ := top_roundtrip_erA syn t d ht hw hl
  refine ⟨text, t', hp, hparse, PE.eqv_of_erA_eq ?_⟩
  rw [her, translit_erA, ht, translit_top syn d hw hl]

end CCVerif.PP3
