import CCVerif.Lemmas.EvalCallsSound
/-! Stage 9 (NESTED tuple patterns `((a,b),c)` in `∀ ∃ D{}`), reference side.

The normaliser replaces a pattern - of any nesting depth - by ONE generated variable `'@' + all leaf names` and every
leaf by a CHAIN of projections of it (`wrapPr`).  The chain `pr_j(pr_i(@abc))` is also what stage 6 produces for the
expression `pr_j(ab)` under the FLAT pattern `(ab, c)`, when `ab` - the concatenation of the leaf names of the inner
pattern - is taken as the name of the component: the candidate name `'@' + "ab" + "c"` is the same string.

`Unn S Γ Δ e es` ("un-nesting"): `es` is `e` with every tuple pattern replaced by the flat pattern of its top-level
components (an inner pattern becomes ONE variable, named by the concatenation of its leaves) and every use of a leaf of
an inner pattern by the projection chain of that variable.  `es` has flat patterns only: it is an expression of stage
6 / 8, for which the simulation is proved.  `Unn.sound` proves the rewriting sound for the reference semantics `⟦·⟧`
(which binds the nested pattern by recursive projection, `bindPat`): a value of `es` at fuel `f` is the value of `e` at
every fuel `≥ f`.  Binding through the nested pattern is defined on values of the SHAPE of the pattern only, the flat
pattern accepts every tuple of the right length; hence the soundness proof needs the members of the domain of a binder
to have the type of the pattern (`DomTy`, discharged by `Lemmas/EvalNestedTy.lean`). -/
namespace CCVerif.Eval
open CCVerif.Syntax CCVerif.Spec CCVerif.Norm
open Val Ty

/-! ## patterns -/

/-- the component of a value along a path of (1-based) indices -/
def projPath : Val → List Int → Option Val
  | w, [] => some w
  | w, i :: r => (nth w i).bind fun u => projPath u r

mutual
/-- the variables of a pattern with their paths (relative to the pattern), left to right -/
def patLeaves : Ast → List (String × List Int)
  | .node tk d _ _ ks =>
    if tk == .ID_LOCAL then [(match d with | .text nm => nm | _ => "", [])] else patLeavesKids 1 ks
def patLeavesKids (i : Int) : List Ast → List (String × List Int)
  | [] => []
  | k :: ks => (patLeaves k).map (fun e => (e.1, i :: e.2)) ++ patLeavesKids (i + 1) ks
end

mutual
/-- the pattern fits the type: a variable fits every type, a tuple pattern a tuple type of the same length -/
def patOK : Ast → Ty → Bool
  | .node tk _ _ _ ks, τ =>
    if tk == .ID_LOCAL then true
    else if tk == .NT_TUPLE_DECL then
      match τ with
      | .tuple ts => patOKs ks ts
      | _ => false
    else false
def patOKs : List Ast → List Ty → Bool
  | [], [] => true
  | k :: ks, τ :: ts => patOK k τ && patOKs ks ts
  | _, _ => false
end

/-- the environment after binding the listed variables to the components of `v` (the first one innermost) -/
def bindLeaves (v : Val) : List (String × List Int) → LEnv → LEnv
  | [], ρ => ρ
  | en :: r, ρ => bindLeaves v r (.val en.1 ((projPath v en.2).getD (.e 0)) ρ)

theorem bindLeaves_append (v : Val) : ∀ (l1 l2 : List (String × List Int)) (ρ : LEnv),
    bindLeaves v (l1 ++ l2) ρ = bindLeaves v l2 (bindLeaves v l1 ρ)
  | [], _, _ => rfl
  | _ :: l1, l2, ρ => by simp only [List.cons_append, bindLeaves]; exact bindLeaves_append v l1 l2 _

theorem bindLeaves_prefix {V v : Val} {i : Int} (h : nth V i = some v) : ∀ (l : List (String × List Int)) (ρ : LEnv),
    bindLeaves V (l.map (fun e => (e.1, i :: e.2))) ρ = bindLeaves v l ρ
  | [], _ => rfl
  | _ :: l, ρ => by
    simp only [List.map_cons, bindLeaves, projPath, h, Option.bind_some]
    exact bindLeaves_prefix h l _

theorem hasTy_tuple_inv {v : Val} {ts : List Ty} (h : hasTy v (.tuple ts) = true) : ∃ cs, v = .t cs ∧ hasTyList cs ts = true := by
  cases v with
  | e _ => simp [hasTy] at h
  | s _ => simp [hasTy] at h
  | t cs => exact ⟨cs, rfl, by simpa [hasTy] using h⟩

theorem nth_t_cast (cs : List Val) (i : Int) (j : Nat) (hi : 1 ≤ i) :
    nth (.t cs) (i + j) = cs[(i - 1).toNat + j]? := by
  have h1 : i + (j : Int) ≥ 1 := by omega
  have h2 : (i + (j : Int) - 1).toNat = (i - 1).toNat + j := by omega
  simp only [nth, h1, if_true, h2]

mutual
/-- **binding through a (nested) pattern** on a value of the type of the pattern: defined, and every variable is bound
to the component along its path -/
theorem bindPat_leaves : ∀ (p : Ast) (τ : Ty) (v : Val) (ρ : LEnv), patOK p τ = true → hasTy v τ = true →
    bindPat p v ρ = some (bindLeaves v (patLeaves p) ρ)
  | .node tk d lo hi ks, τ, v, ρ, hp, hv => by
    unfold patOK at hp
    unfold bindPat patLeaves
    by_cases h1 : (tk == Tok.ID_LOCAL) = true
    · simp only [h1, if_true, bindLeaves, projPath, Option.getD_some]
      cases d <;> rfl
    · simp only [h1, Bool.false_eq_true, if_false] at hp ⊢
      by_cases h2 : (tk == Tok.NT_TUPLE_DECL) = true
      · simp only [h2, if_true] at hp ⊢
        cases τ with
        | base _ => simp at hp
        | coll _ => simp at hp
        | tuple ts =>
          obtain ⟨cs, rfl, hcs⟩ := hasTy_tuple_inv hv
          simp only at hp ⊢
          exact bindPats_leaves ks ts cs ρ 1 (.t cs) hp hcs (fun j => by
            have := nth_t_cast cs 1 j (by omega)
            simpa using this)
      · simp [h2] at hp
theorem bindPats_leaves : ∀ (ks : List Ast) (ts : List Ty) (vs : List Val) (ρ : LEnv) (i : Int) (V : Val),
    patOKs ks ts = true → hasTyList vs ts = true → (∀ j : Nat, nth V (i + j) = vs[j]?) →
    bindPats ks vs ρ = some (bindLeaves V (patLeavesKids i ks) ρ)
  | [], [], [], ρ, _, _, _, _, _ => by simp only [bindPats, patLeavesKids, bindLeaves]
  | [], [], _ :: _, _, _, _, _, hv, _ => by simp [hasTyList] at hv
  | [], _ :: _, _, _, _, _, hp, _, _ => by simp [patOKs] at hp
  | _ :: _, [], _, _, _, _, hp, _, _ => by simp [patOKs] at hp
  | _ :: _, _ :: _, [], _, _, _, _, hv, _ => by simp [hasTyList] at hv
  | k :: ks, τ :: ts, v :: vs, ρ, i, V, hp, hv, hsuf => by
    simp only [patOKs, Bool.and_eq_true] at hp
    simp only [hasTyList, Bool.and_eq_true] at hv
    have h0 : nth V i = some v := by simpa using hsuf 0
    simp only [bindPats, bindPat_leaves k τ v ρ hp.1 hv.1, patLeavesKids, bindLeaves_append, bindLeaves_prefix h0]
    exact bindPats_leaves ks ts vs _ (i + 1) V hp.2 hv.2 (fun j => by
      have := hsuf (j + 1)
      simp only [List.getElem?_cons_succ] at this
      rw [← this]; congr 1; push_cast; omega)
end

/-- the paths of a pattern of the right type are defined on a value of that type -/
theorem find_bindLeaves (v : Val) (y : String) : ∀ (l : List (String × List Int)) (ρ : LEnv), (l.map (·.1)).Nodup →
    (bindLeaves v l ρ).find y = match lookup y l with
      | some path => some (.val ((projPath v path).getD (.e 0)))
      | none => ρ.find y
  | [], _, _ => by simp only [bindLeaves, lookup]
  | en :: l, ρ, hnd => by
    have hq : en.1 ∉ l.map (·.1) := (List.nodup_cons.mp (by simpa using hnd)).1
    simp only [bindLeaves]
    rw [find_bindLeaves v y l _ (List.nodup_cons.mp (by simpa using hnd)).2]
    by_cases e' : y = en.1
    · subst e'
      have : lookup en.1 l = none := by
        cases hl : lookup en.1 l with
        | none => rfl
        | some p => exact absurd (List.mem_map.mpr ⟨_, lookup_mem hl, rfl⟩) hq
      simp [this, lookup, find_val_self]
    · have hne : (y == en.1) = false := by simpa using e'
      simp only [lookup, hne, Bool.false_eq_true, if_false]
      cases lookup y l with
      | none => simp [find_val_ne _ _ e']
      | some p => rfl

mutual
theorem projPath_defined : ∀ (p : Ast) (τ : Ty) (v : Val), patOK p τ = true → hasTy v τ = true →
    ∀ e ∈ patLeaves p, ∃ u, projPath v e.2 = some u
  | .node tk d lo hi ks, τ, v, hp, hv => by
    unfold patOK at hp
    unfold patLeaves
    by_cases h1 : (tk == Tok.ID_LOCAL) = true
    · simp only [h1, if_true]
      intro e he
      simp only [List.mem_singleton] at he
      subst he; exact ⟨v, rfl⟩
    · simp only [h1, Bool.false_eq_true, if_false] at hp ⊢
      by_cases h2 : (tk == Tok.NT_TUPLE_DECL) = true
      · simp only [h2, if_true] at hp
        cases τ with
        | base _ => simp at hp
        | coll _ => simp at hp
        | tuple ts =>
          obtain ⟨cs, rfl, hcs⟩ := hasTy_tuple_inv hv
          exact projPaths_defined ks ts cs 1 (.t cs) hp hcs (fun j => by
            have := nth_t_cast cs 1 j (by omega)
            simpa using this)
      · simp [h2] at hp
theorem projPaths_defined : ∀ (ks : List Ast) (ts : List Ty) (vs : List Val) (i : Int) (V : Val),
    patOKs ks ts = true → hasTyList vs ts = true → (∀ j : Nat, nth V (i + j) = vs[j]?) →
    ∀ e ∈ patLeavesKids i ks, ∃ u, projPath V e.2 = some u
  | [], _, _, _, _, _, _, _ => by intro e he; simp [patLeavesKids] at he
  | _ :: _, [], _, _, _, hp, _, _ => by simp [patOKs] at hp
  | _ :: _, _ :: _, [], _, _, _, hv, _ => by simp [hasTyList] at hv
  | k :: ks, τ :: ts, v :: vs, i, V, hp, hv, hsuf => by
    simp only [patOKs, Bool.and_eq_true] at hp
    simp only [hasTyList, Bool.and_eq_true] at hv
    have h0 : nth V i = some v := by simpa using hsuf 0
    intro e he
    simp only [patLeavesKids, List.mem_append, List.mem_map] at he
    rcases he with ⟨e0, he0, rfl⟩ | he
    · obtain ⟨u, hu⟩ := projPath_defined k τ v hp.1 hv.1 e0 he0
      exact ⟨u, by simp only [projPath, h0, Option.bind_some]; exact hu⟩
    · exact projPaths_defined ks ts vs (i + 1) V hp.2 hv.2 (fun j => by
        have := hsuf (j + 1)
        simp only [List.getElem?_cons_succ] at this
        rw [← this]; congr 1; push_cast; omega) e he
end

end CCVerif.Eval
