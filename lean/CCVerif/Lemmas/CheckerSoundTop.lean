import CCVerif.Lemmas.CheckerSound1
/-!
Soundness of the checker model at the level of whole inputs (`Spec.HasTopType`): function
definitions `[x1∈D1, …] body` with their reported argument list, global declarations `X1:==`,
`D1:==e`, `F1:==[…] e` and structures `S1::=dom`, over the expression fragment `Core1`.
-/
namespace CCVerif.Checker
open CCVerif.Syntax CCVerif.Types CCVerif.Spec

/-! ## the two depth functions and the two shape tests coincide -/

mutual
theorem depth_eq_spec : ∀ e : Ast, Ast.depth e = Spec.depth e
  | .node _ _ _ _ ks => by simp only [Ast.depth, Spec.depth, depthList_eq_spec ks]
theorem depthList_eq_spec : ∀ ks : List Ast, Ast.depth.depthList ks = Spec.depth.go ks
  | [] => rfl
  | k :: ks => by simp only [Ast.depth.depthList, Spec.depth.go, depth_eq_spec k, depthList_eq_spec ks]
end

theorem isStructureDomain_eq : ∀ (n : Nat) (a : Ast), isStructureDomain n a = structShape n a
  | 0, _ => rfl
  | n+1, a => by
    have ih : isStructureDomain n = structShape n := funext (isStructureDomain_eq n)
    simp only [isStructureDomain, structShape, ih]
    cases a with
    | node t d lo hi ks => cases t <;> rfl

/-! ## argument declarations -/

/-- the variables of the environment are the visible variables of the state -/
def RelV (s : St) (Δ : Env) : Prop := ∀ x, Δ.get? x = (view s.locals x).map (·.1)

/-- visible variables only grow, by declarations at the current level -/
def ExtV (s s' : St) : Prop :=
  ∀ x, view s'.locals x = view s.locals x ∨ (view s.locals x = none ∧ ∃ t, view s'.locals x = some (t, 0))

theorem ExtV.trans {a b c : St} (h1 : ExtV a b) (h2 : ExtV b c) : ExtV a c := by
  intro x
  rcases h2 x with e2 | ⟨n2, t, e2⟩
  · rcases h1 x with e1 | ⟨n1, t, e1⟩
    · exact Or.inl (e2.trans e1)
    · exact Or.inr ⟨n1, t, e2.trans e1⟩
  · rcases h1 x with e1 | ⟨n1, t', e1⟩
    · exact Or.inr ⟨by rw [← e1]; exact n2, t, e2⟩
    · rw [e1] at n2; cases n2

/-- one argument declaration `x∈dom` -/
def AOk (Γ : Ctx) (n : Nat) (k : Ast) : Prop :=
  ∀ (p : Option Tok) (s s' : St) (Δ : Env), visit Γ n p k s = (.ok (), s') → GoodSt s → RelV s Δ →
    (CtxOk Γ → CleanEnv Γ Δ) →
    ∃ Δ1 x e, (∀ ds Δ' rest, ArgDecls Γ Δ1 ds Δ' rest → ArgDecls Γ Δ (k :: ds) Δ' ((x, e) :: rest)) ∧
      RelV s' Δ1 ∧ GoodSt s' ∧ s'.funcDecl = s.funcDecl ∧ s'.args = s.args ++ [(x, e)] ∧ ExtV s s' ∧
      (CtxOk Γ → CleanEnv Γ Δ1)

theorem argdecl_ok {Γ : Ctx} {n : Nat} {d : TokData} {lo hi lv hv : Int} {x : String} {kv : List Ast} {dom : Ast}
    (hd : VOk Γ n .S dom) :
    AOk Γ (n+1) (.node .NT_ARG_DECL d lo hi [.node .ID_LOCAL (.text x) lv hv kv, dom]) := by
  intro p s s' Δ h hg hrv hce
  change viArgument (visit Γ n) (.node .NT_ARG_DECL d lo hi [.node .ID_LOCAL (.text x) lv hv kv, dom]) s = _ at h
  unfold viArgument at h
  have hce' : CtxOk Γ → CleanEnv Γ { Δ with fd := true } := fun hx y t hy => hce hx y t hy
  have hr : Rel Γ s { Δ with fd := true } := ⟨hrv, fun _ => rfl, hce'⟩
  obtain ⟨e, s1, h1, g1⟩ := bind_ok h
  obtain ⟨t, i1, hdb, m1, _, c1⟩ := childTypeDebool_spec kid1 hd h1 hg hr
  obtain ⟨_, s2, h2, g2⟩ := bind_ok g1
  have e2 := modifySt_ok h2
  obtain ⟨_, s3, h3, g3⟩ := bind_ok g2
  unfold visitChild at h3
  obtain ⟨k, s2', hk', hvis⟩ := bind_ok h3
  obtain ⟨hk'', rfl⟩ := kidM_ok hk'
  rw [kid0] at hk''; cases hk''
  obtain ⟨k0, s3', hk0, g4⟩ := bind_ok g3
  obtain ⟨hk0', rfl⟩ := kidM_ok hk0
  rw [kid0] at hk0'; cases hk0'
  obtain ⟨nm, s3'', h5, g5⟩ := bind_ok g4
  obtain ⟨rfl, rfl⟩ := textOf_ok h5
  obtain ⟨_, s4, h6, g6⟩ := bind_ok g5
  have e4 := modifySt_ok h6
  obtain ⟨_, s5, h7, g7⟩ := bind_ok g6
  have e5 := modifySt_ok h7
  obtain ⟨_, m6⟩ := setCur_ok' g7
  have hr1 := hr.of_same m1
  have hg1 := hg.of_same m1
  have l2 : s2'.locals = s1.locals := by rw [e2]
  have hr2 : Rel Γ s2' { Δ with fd := true } := ⟨fun y => by rw [l2]; exact hr1.vars y, fun _ => rfl, hce'⟩
  have hdm : DeclMode s2' := Or.inr (by rw [e2]; simp)
  have hdok : DOk Γ n (.node .ID_LOCAL (.text x) lv hv kv) := by
    cases n with
    | zero => exact fun _ _ _ _ _ h => absurd h visit_zero_ok
    | succ m => exact dlocal_ok
  obtain ⟨Δ', b, r3, e23, _⟩ := hdok _ _ s3' _ e hvis (by rw [e2]) hdm hr2 c1
  cases b with
  | var hhas =>
    have l4 : s4.locals = s3'.locals := by rw [e4]
    have l5 : s5.locals = s4.locals := by rw [e5]
    have hv' : ∀ y, view s'.locals y = view s3'.locals y := fun y => by rw [m6.1 y, l5, l4]
    have hext : ExtV s s' := by
      intro y
      have e1 : view s2'.locals y = view s.locals y := by rw [l2, m1.1 y]
      rcases e23.1 y with e | ⟨hn, t', e⟩
      · exact Or.inl ((hv' y).trans (e.trans e1))
      · exact Or.inr ⟨e1.symm.trans hn, t', (hv' y).trans e⟩
    have hld : s'.localDecl = s.localDecl := by
      rw [m6.2.localDecl, e5]; simp only []; rw [e4]; simp only []
      rw [e23.2.localDecl, e2]; simp only []; exact m1.2.localDecl
    have had : s'.argDecl = s.argDecl := by
      rw [m6.2.argDecl, e5]; simp only []; rw [e4]; simp only []
      rw [e23.2.argDecl, e2]; simp only []; rw [m1.2.argDecl]; omega
    refine ⟨Δ.add x e, x, e, fun ds Δ'' rest hds => ArgDecls.cons i1 hdb hhas hds, ?_, ?_, ?_, ?_, hext,
      fun hx => cleanEnv_add (hce hx) (c1 hx) hhas⟩
    · intro y; rw [hv' y]; exact r3.vars y
    · refine ⟨hld.trans hg.1, had.trans hg.2.1, fun y t' l hy => ?_, ?_⟩
      · rcases hext y with e | ⟨_, t'', e⟩
        · exact hg.2.2.1 y t' l (by rw [← e]; exact hy)
        · rw [e] at hy; cases hy; exact Int.le_refl 0
      · apply m6.2.uniq; rw [l5, l4]; apply e23.2.uniq; rw [l2]; exact m1.2.uniq hg.2.2.2
    · rw [m6.2.funcDecl, e5]; simp only []; rw [e4]; simp only []
      rw [e23.2.funcDecl, e2]; simp only []; exact m1.2.funcDecl
    · rw [m6.2.args, e5]; simp only []; rw [e4]; simp only []
      rw [e23.2.args, e2]; simp only []; rw [m1.2.args]

theorem argdecls_ok {Γ : Ctx} {n : Nat} {par : Tok} : ∀ (ds : List Ast) (s s' : St) (Δ : Env),
    (∀ k ∈ ds, AOk Γ n k) → visitAll (visit Γ n) par ds s = (.ok (), s') → GoodSt s → RelV s Δ →
    (CtxOk Γ → CleanEnv Γ Δ) →
    ∃ Δ' rest, ArgDecls Γ Δ ds Δ' rest ∧ RelV s' Δ' ∧ GoodSt s' ∧ s'.funcDecl = s.funcDecl ∧
      s'.args = s.args ++ rest ∧ ExtV s s' ∧ (CtxOk Γ → CleanEnv Γ Δ')
  | [], s, s', Δ, _, h, hg, hr, hce => by
    obtain ⟨_, rfl⟩ := pure_ok h
    exact ⟨Δ, [], ArgDecls.nil, hr, hg, rfl, by simp, fun _ => Or.inl rfl, hce⟩
  | k :: ds, s, s', Δ, hk, h, hg, hr, hce => by
    unfold visitAll at h
    obtain ⟨_, s2, h2, g2⟩ := bind_ok h
    obtain ⟨Δ1, x, e, f1, r1, g1, fd1, a1, e1, ce1⟩ := hk k (by simp) _ _ _ _ h2 hg hr hce
    obtain ⟨Δ2, rest, b2, r2, gg2, fd2, a2, e2, ce2⟩ :=
      argdecls_ok ds s2 s' Δ1 (fun k' hk' => hk k' (by simp [hk'])) g2 g1 r1 ce1
    exact ⟨Δ2, (x, e) :: rest, f1 ds Δ2 rest b2, r2, gg2, fd2.trans fd1, by rw [a2, a1]; simp, e1.trans e2, ce2⟩

/-! ## function definitions -/

/-- a whole input visited from the initial state -/
def TOk (Γ : Ctx) (n : Nat) (e : Ast) : Prop :=
  ∀ (p : Option Tok) (s' : St), visit Γ n p e {} = (.ok (), s') → HasTopType Γ e s'.cur s'.args

theorem goodSt_init : GoodSt ({} : St) :=
  ⟨rfl, rfl, fun x t l h => by simp [view, findLocal] at h, List.nodup_nil⟩

theorem rel_init {Γ : Ctx} : Rel Γ ({} : St) ({} : Env) :=
  ⟨fun x => by simp [view, findLocal, Env.get?], fun h => absurd rfl h, fun _ => cleanEnv_empty Γ⟩

theorem funcdef_ok2 {Γ : Ctx} {n : Nat} {c : Cat} {d da : TokData} {lo hi la ha : Int} {decls : List Ast} {body : Ast}
    (hk : ∀ k ∈ decls, AOk Γ n k) (hb : VOk Γ (n+1) c body) :
    TOk Γ (n+2) (.node .NT_FUNC_DEFINITION d lo hi [.node .NT_ARGUMENTS da la ha decls, body]) := by
  intro p s' h
  change viFunctionDefinition (visit Γ (n+1))
    (.node .NT_FUNC_DEFINITION d lo hi [.node .NT_ARGUMENTS da la ha decls, body]) {} = _ at h
  unfold viFunctionDefinition at h
  obtain ⟨_, s0, h0, g0⟩ := bind_ok h
  obtain ⟨hg0, hr0⟩ := startScope_spec (Γ := Γ) h0 goodSt_init rel_init
  obtain ⟨hv0, hf0, _⟩ := startScope_ok h0
  obtain ⟨_, s1, h1, g1⟩ := bind_ok g0
  have e1 := modifySt_ok h1
  obtain ⟨_, s2, h2, g2⟩ := bind_ok g1
  unfold visitChild at h2
  obtain ⟨k, s1', hk', hvis⟩ := bind_ok h2
  obtain ⟨hk'', rfl⟩ := kidM_ok hk'
  rw [kid0] at hk''; cases hk''
  change viAllLogic (visit Γ n) (.node .NT_ARGUMENTS da la ha decls) s1' = _ at hvis
  unfold viAllLogic at hvis
  obtain ⟨_, s1a, hva, hvb⟩ := bind_ok hvis
  obtain ⟨_, m1b⟩ := setCur_ok' hvb
  have hg1 : GoodSt s1' := by
    rw [e1]; exact ⟨hg0.1, hg0.2.1, hg0.2.2⟩
  have hrv1 : RelV s1' {} := by rw [e1]; exact hr0.vars
  obtain ⟨Δ', rest, ad, rv, gg, fd, ar, _, ce⟩ := argdecls_ok decls s1' s1a {} hk hva hg1 hrv1 (fun _ => cleanEnv_empty Γ)
  obtain ⟨_, s3, h3, g3⟩ := bind_ok g2
  have e3 := modifySt_ok h3
  obtain ⟨τ, s4, h4, g4⟩ := bind_ok g3
  have hfd0 : s3.funcDecl = 0 := by
    rw [e3]; simp only []; rw [m1b.2.funcDecl, fd, e1]; simp only []; rw [hf0.funcDecl]; rfl
  have l3 : s3.locals = s2.locals := by rw [e3]
  have hg3 : GoodSt s3 := by
    have := gg.of_same m1b
    rw [e3]; exact ⟨this.1, this.2.1, this.2.2⟩
  have hr3 : Rel Γ s3 { Δ' with fd := false } :=
    ⟨fun y => by rw [l3, m1b.1 y]; exact rv y, fun hne => absurd hfd0 hne, fun hx y t hy => ce hx y t hy⟩
  obtain ⟨i4, m4, _, _, _, _⟩ := childType_spec kid1 hb h4 hg3 hr3
  obtain ⟨_, s5, h5, g5⟩ := bind_ok g4
  obtain ⟨_, hf5, _⟩ := endScope_ok h5
  obtain ⟨hcur, m6⟩ := setCur_ok' g5
  have hargs : s'.args = rest := by
    rw [m6.2.args, hf5.args, m4.2.args, e3]; simp only []
    rw [m1b.2.args, ar, e1]; simp only []; rw [hf0.args]; rfl
  rw [hcur, hargs]
  exact HasTopType.funcdef ad i4

theorem funcdef_ok {Γ : Ctx} {c : Cat} {d da : TokData} {lo hi la ha : Int} {decls : List Ast} {body : Ast}
    (hk : ∀ k ∈ decls, ∀ m, AOk Γ m k) (hb : ∀ m, VOk Γ m c body) :
    ∀ n, TOk Γ n (.node .NT_FUNC_DEFINITION d lo hi [.node .NT_ARGUMENTS da la ha decls, body])
  | 0 => fun _ _ h => absurd h visit_zero_ok
  | 1 => by
    intro p s' h
    change viFunctionDefinition (visit Γ 0)
      (.node .NT_FUNC_DEFINITION d lo hi [.node .NT_ARGUMENTS da la ha decls, body]) {} = _ at h
    unfold viFunctionDefinition at h
    obtain ⟨_, s0, _, g0⟩ := bind_ok h
    obtain ⟨_, s1, _, g1⟩ := bind_ok g0
    obtain ⟨_, s2, h2, _⟩ := bind_ok g1
    unfold visitChild at h2
    obtain ⟨k, s1', _, hvis⟩ := bind_ok h2
    exact absurd hvis visit_zero_ok
  | n+2 => funcdef_ok2 (fun k hm => hk k hm n) (hb (n+1))

/-! ## the fragment at the level of whole inputs -/

/-- `x∈dom` with `dom` in the expression fragment -/
inductive Core1Arg (Γ : Ctx) : Ast → Prop where
  | mk {x : String} {d : TokData} {lo hi ll hl : Int} {kl : List Ast} {dom : Ast} :
      Core1 Γ .S dom → Core1Arg Γ (.node .NT_ARG_DECL d lo hi [.node .ID_LOCAL (.text x) ll hl kl, dom])

/-- an expression or a function definition `[x1∈D1, …] body` -/
inductive Core1Def (Γ : Ctx) : Ast → Prop where
  | expr {e : Ast} : Core1 Γ .S e ∨ Core1 Γ .L e → Core1Def Γ e
  | funcdef {d da : TokData} {lo hi la ha : Int} {decls : List Ast} {body : Ast} :
      (∀ k, k ∈ decls → Core1Arg Γ k) → (Core1 Γ .S body ∨ Core1 Γ .L body) →
      Core1Def Γ (.node .NT_FUNC_DEFINITION d lo hi [.node .NT_ARGUMENTS da la ha decls, body])

/-- a whole input: definition, `X1:==`, `D1:==def`, `S1::=dom` -/
inductive Core1Top (Γ : Ctx) : Ast → Prop where
  | ofDef {e : Ast} : Core1Def Γ e → Core1Top Γ e
  | define1 {d : TokData} {lo hi ln hn : Int} {tn : Tok} {x : String} {kn : List Ast} :
      Core1Top Γ (.node .PUNC_DEFINE d lo hi [.node tn (.text x) ln hn kn])
  | define2 {d : TokData} {lo hi : Int} {nm ex : Ast} :
      Core1Def Γ ex → Core1Top Γ (.node .PUNC_DEFINE d lo hi [nm, ex])
  | struct {d : TokData} {lo hi : Int} {nm ex : Ast} :
      Core1 Γ .S ex → Core1Top Γ (.node .PUNC_STRUCT d lo hi [nm, ex])

theorem core1_id {Γ : Ctx} {c : Cat} {e : Ast} (hc : Core1 Γ c e) (hsl : c = .S ∨ c = .L) :
    e.id ≠ .NT_FUNC_DEFINITION ∧ e.id ≠ .PUNC_DEFINE ∧ e.id ≠ .PUNC_STRUCT := by
  cases hc with
  | sGlobal h => rcases h with rfl | rfl | rfl <;> simp [Ast.id]
  | sArith h _ _ => rcases h with rfl | rfl | rfl <;> simp [Ast.id]
  | sUnary h _ => rcases h with rfl | rfl | rfl | rfl | rfl <;> simp [Ast.id]
  | sSetbin h _ _ => rcases h with rfl | rfl | rfl | rfl <;> simp [Ast.id]
  | sMany h _ => rcases h with rfl | rfl <;> simp [Ast.id]
  | sProj h _ => rcases h with rfl | rfl <;> simp [Ast.id]
  | lBin h _ _ => rcases h with rfl | rfl | rfl | rfl <;> simp [Ast.id]
  | lOrder h _ _ => rcases h with rfl | rfl | rfl | rfl <;> simp [Ast.id]
  | lEqual h _ _ => rcases h with rfl | rfl <;> simp [Ast.id]
  | lElem h _ _ => rcases h with rfl | rfl <;> simp [Ast.id]
  | lSubset h _ _ => rcases h with rfl | rfl | rfl <;> simp [Ast.id]
  | lQuant h _ _ _ => rcases h with rfl | rfl <;> simp [Ast.id]
  | dLocal => rcases hsl with h | h <;> cases h
  | dTuple _ => rcases hsl with h | h <;> cases h
  | deOfD _ => rcases hsl with h | h <;> cases h
  | deEnum _ => rcases hsl with h | h <;> cases h
  | _ => simp [Ast.id]

theorem core1_arg_ok (Γ : Ctx) {k : Ast} (hc : Core1Arg Γ k) : ∀ m, AOk Γ m k
  | 0 => fun _ _ _ _ h => absurd h visit_zero_ok
  | m+1 => by
    cases hc with
    | mk hd => exact argdecl_ok ((core1_sound Γ m).1 _ hd)

theorem core1_expr_ok (Γ : Ctx) {e : Ast} (hc : Core1 Γ .S e ∨ Core1 Γ .L e) (n : Nat) : TOk Γ n e := by
  intro p s' h
  have hs : HasType Γ {} e s'.cur ∧ Same {} s' := by
    rcases hc with hc | hc
    · obtain ⟨a, b, _⟩ := (core1_sound Γ n).1 e hc p {} s' {} h goodSt_init rel_init; exact ⟨a, b⟩
    · obtain ⟨a, b, _⟩ := (core1_sound Γ n).2.1 e hc p {} s' {} h goodSt_init rel_init; exact ⟨a, b⟩
  have hargs : s'.args = [] := hs.2.2.args
  have hid : e.id ≠ .NT_FUNC_DEFINITION ∧ e.id ≠ .PUNC_DEFINE ∧ e.id ≠ .PUNC_STRUCT := by
    rcases hc with hc | hc
    · exact core1_id hc (Or.inl rfl)
    · exact core1_id hc (Or.inr rfl)
  rw [hargs]
  exact HasTopType.expr hid.1 hid.2.1 hid.2.2 hs.1

theorem core1_def_ok (Γ : Ctx) {e : Ast} (hc : Core1Def Γ e) (n : Nat) : TOk Γ n e := by
  cases hc with
  | expr h => exact core1_expr_ok Γ h n
  | funcdef hk hb =>
    rcases hb with hb | hb
    · exact funcdef_ok (fun k hm m => core1_arg_ok Γ (hk k hm) m) (fun m => (core1_sound Γ m).1 _ hb) n
    · exact funcdef_ok (fun k hm m => core1_arg_ok Γ (hk k hm) m) (fun m => (core1_sound Γ m).2.1 _ hb) n

theorem core1_def_id {Γ : Ctx} {e : Ast} (hc : Core1Def Γ e) : e.id ≠ .PUNC_DEFINE ∧ e.id ≠ .PUNC_STRUCT := by
  cases hc with
  | expr h =>
    rcases h with h | h
    · exact (core1_id h (Or.inl rfl)).2
    · exact (core1_id h (Or.inr rfl)).2
  | funcdef _ _ => simp [Ast.id]

theorem core1_top_ok (Γ : Ctx) {e : Ast} (hc : Core1Top Γ e) : ∀ n, TOk Γ n e
  | 0 => fun _ _ h => absurd h visit_zero_ok
  | n+1 => by
    cases hc with
    | ofDef h => exact core1_def_ok Γ h (n+1)
    | define1 =>
      rename_i d lo hi ln hn tn x kn
      intro p s' h
      change viGlobalDeclaration (visit Γ n) (.node .PUNC_DEFINE d lo hi [.node tn (.text x) ln hn kn]) {} = _ at h
      unfold viGlobalDeclaration at h
      have h' : (M.bind (kidM (.node .PUNC_DEFINE d lo hi [.node tn (.text x) ln hn kn]) 0) fun k0 =>
          M.bind (textOf k0) fun name => setCur (.ty (.coll (.base name)))) {} = (.ok (), s') := h
      obtain ⟨k0, s1, hk0, g1⟩ := bind_ok h'
      obtain ⟨hk0', rfl⟩ := kidM_ok hk0
      rw [kid0] at hk0'; cases hk0'
      obtain ⟨nm, s2, h2, g2⟩ := bind_ok g1
      obtain ⟨rfl, rfl⟩ := textOf_ok h2
      obtain ⟨hcur, m⟩ := setCur_ok' g2
      have hargs : s'.args = [] := m.2.args
      rw [hcur, hargs]
      exact HasTopType.defineEmpty (dn := .none)
    | define2 hd =>
      rename_i d lo hi nm ex
      intro p s' h
      change viGlobalDeclaration (visit Γ n) (.node .PUNC_DEFINE d lo hi [nm, ex]) {} = _ at h
      unfold viGlobalDeclaration at h
      have h' : (M.bind (childType (visit Γ n) (.node .PUNC_DEFINE d lo hi [nm, ex]) 1) fun t => setCur t) {}
          = (.ok (), s') := h
      obtain ⟨t, s1, h1, g1⟩ := bind_ok h'
      obtain ⟨k, s0, hk, hv, hc0, m0⟩ := childType_ok' h1
      rw [kid1] at hk; cases hk
      obtain ⟨hcur, m1⟩ := setCur_ok' g1
      have ht := core1_def_ok Γ hd n _ _ hv
      have hargs : s'.args = s0.args := by rw [m1.2.args, m0.2.args]
      rw [hcur, hargs, ← hc0]
      exact HasTopType.define (core1_def_id hd).1 (core1_def_id hd).2 ht
    | struct hs =>
      rename_i d lo hi nm ex
      intro p s' h
      change viGlobalDeclaration (visit Γ n) (.node .PUNC_STRUCT d lo hi [nm, ex]) {} = _ at h
      unfold viGlobalDeclaration at h
      have hid : ((Ast.node Tok.PUNC_STRUCT d lo hi [nm, ex]).id == Tok.PUNC_STRUCT) = true := rfl
      simp only [hid, if_true] at h
      by_cases hso : structOk (.node .PUNC_STRUCT d lo hi [nm, ex]) = true
      · simp only [hso, Bool.not_true, Bool.false_eq_true, if_false] at h
        obtain ⟨mt, s1, h1, g1⟩ := bind_ok h
        obtain ⟨i1, m1, _, _, _, _⟩ := childType_spec kid1 ((core1_sound Γ n).1 _ hs) h1 goodSt_init rel_init
        obtain ⟨t, s2, h2, g2⟩ := bind_ok g1
        obtain ⟨rfl, rfl⟩ := expectTy_ok' h2
        cases t with
        | base b => exact absurd g2 kidErr_ok
        | tuple cs => exact absurd g2 kidErr_ok
        | coll b =>
          obtain ⟨hcur, m2⟩ := setCur_ok' g2
          have hargs : s'.args = [] := by rw [m2.2.args, m1.2.args]
          have hshape : structShape (Spec.depth ex + 1) ex = true := by
            have : isStructureDomain (Ast.depth ex + 1) ex = true := by
              simpa [structOk, Ast.kids, Ast.kid] using hso
            rw [← depth_eq_spec, ← isStructureDomain_eq]; exact this
          rw [hcur, hargs]
          exact HasTopType.struct hshape i1
      · simp only [hso, Bool.not_false, if_true] at h
        exact absurd h kidErr_ok

end CCVerif.Checker
