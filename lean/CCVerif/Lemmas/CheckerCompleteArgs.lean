import CCVerif.Lemmas.CheckerComplete2
/-!
Completeness of the checker model (C03 `check_complete_partial1`): argument declarations and function
definitions `[x1∈D1, …, xn∈Dn] body`.
-/
namespace CCVerif.Checker
open CCVerif.Syntax CCVerif.Types CCVerif.Spec

/-- one argument declaration `x∈dom`, visited while `funcDecl` is set -/
theorem argdecl_c {Γ : Ctx} {m : Nat} {d : TokData} {lo hi lv hv : Int} {x : String} {kv : List Ast} {dom : Ast}
    {p : Option Tok} {s : St} {Δ : Env} {t e : Ty}
    (hd : CV Γ (m+1) .S dom) (hds : VOk Γ (m+1) .S dom)
    (h1 : HasType Γ { Δ with fd := true } dom (.ty t)) (hdb : Debool t e) (hhas : Δ.has x = false)
    (hg : GoodSt s) (hrv : RelV s Δ) (hce : CtxOk Γ → CleanEnv Γ Δ) (hfd : s.funcDecl ≠ 0) :
    ∃ s', visit Γ (m+2) p (.node .NT_ARG_DECL d lo hi [.node .ID_LOCAL (.text x) lv hv kv, dom]) s = (.ok (), s') ∧
      GoodSt s' ∧ RelV s' (Δ.add x e) ∧ (CtxOk Γ → CleanEnv Γ (Δ.add x e)) ∧ s'.funcDecl = s.funcDecl ∧
      s'.args = s.args ++ [(x, e)] := by
  have hrT : RelC Γ s { Δ with fd := true } :=
    ⟨⟨hrv, fun _ => rfl, fun hx y u hy => hce hx y u hy⟩, fun _ => hfd⟩
  obtain ⟨s1, r1, m1⟩ := childTypeDebool_cv (a := .node .NT_ARG_DECL d lo hi [.node .ID_LOCAL (.text x) lv hv kv, dom])
    (eid := EID.invalidTypeOperation) (tok := false) kid1 hd h1 hdb hg hrT (nomis (t := .NT_ARG_DECL) (by decide))
  obtain ⟨_, _, _, _, _, hct⟩ := childTypeDebool_spec kid1 hds r1 hg hrT.rel
  let s2 : St := { s1 with argDecl := s1.argDecl + 1, cur := .ty e }
  have hr2 : RelC Γ s2 { Δ with fd := true } := (hrT.of_same m1).of_eq rfl rfl
  obtain ⟨s3, r3, rc3, e3, _⟩ := dlocal_c (Γ := Γ) (n := m) (c := .D) (x := x) (lo := lv) (hi := hv) (ks := kv)
    (some .NT_ARG_DECL) s2 { Δ with fd := true } (({ Δ with fd := true } : Env).add x e) e (Binds.var hhas) rfl
    (Or.inr (by show s1.argDecl + 1 ≠ 0; omega)) hr2 hct
  let s' : St := { s3 with args := s3.args ++ [(x, e)], argDecl := s3.argDecl - 1, cur := .logic }
  have hrun : visit Γ (m+2) p (.node .NT_ARG_DECL d lo hi [.node .ID_LOCAL (.text x) lv hv kv, dom]) s = (.ok (), s') := by
    change viArgument (visit Γ (m+1)) (.node .NT_ARG_DECL d lo hi [.node .ID_LOCAL (.text x) lv hv kv, dom]) s = _
    unfold viArgument
    rw [bind_eq r1, bind_eq (modifySt_fwd _ _), bind_eq (visitChild_fwd kid0 r3), bind_eq (kidM_fwd kid0 _),
      bind_eq (textOf_fwd _), bind_eq (modifySt_fwd _ _), bind_eq (modifySt_fwd _ _)]
    rfl
  have hg1 := hg.of_same m1
  have had : s3.argDecl = s1.argDecl + 1 := e3.2.argDecl
  refine ⟨s', hrun, ⟨?_, ?_, ?_, ?_⟩, rc3.rel.vars, fun hx y u hy => rc3.rel.clean hx y u hy, ?_, ?_⟩
  · show s3.localDecl = 0
    rw [e3.2.localDecl]; exact hg1.1
  · show s3.argDecl - 1 = 0
    rw [had, hg1.2.1]
  · intro y u l hy
    have hy' : view s3.locals y = some (u, l) := hy
    rcases e3.1 y with e' | ⟨_, t'', e'⟩
    · exact hg1.2.2.1 y u l (by rw [← e']; exact hy')
    · rw [e'] at hy'; cases hy'; exact Int.le_refl 0
  · show Uniq s3.locals
    exact e3.2.uniq hg1.2.2.2
  · show s3.funcDecl = s.funcDecl
    rw [e3.2.funcDecl]; exact m1.2.funcDecl
  · show s3.args ++ [(x, e)] = s.args ++ [(x, e)]
    rw [e3.2.args]
    show s1.args ++ _ = _
    rw [m1.2.args]

/-- shape of an argument declaration of the fragment, with what is known about its domain -/
structure ArgC (Γ : Ctx) (m : Nat) (x : String) (k : Ast) : Prop where
  shape : ∃ d lo hi lv hv kv dom, k = .node .NT_ARG_DECL d lo hi [.node .ID_LOCAL (.text x) lv hv kv, dom] ∧
    CV Γ (m+1) .S dom ∧ VOk Γ (m+1) .S dom

inductive ArgsC (Γ : Ctx) (m : Nat) : List String → List Ast → Prop where
  | nil : ArgsC Γ m [] []
  | cons {x : String} {xs : List String} {k : Ast} {ds : List Ast} :
      ArgC Γ m x k → ArgsC Γ m xs ds → ArgsC Γ m (x :: xs) (k :: ds)

theorem argdecls_c {Γ : Ctx} {m : Nat} {par : Tok} : ∀ (ds : List Ast) (xs : List String) (s : St) (Δ Δ' : Env)
    (rest : List (String × Ty)),
    ArgsC Γ m xs ds → ArgDecls Γ Δ ds Δ' rest → rest.map Prod.fst = xs →
    GoodSt s → RelV s Δ → (CtxOk Γ → CleanEnv Γ Δ) → s.funcDecl ≠ 0 →
    ∃ s', visitAll (visit Γ (m+2)) par ds s = (.ok (), s') ∧ GoodSt s' ∧ RelV s' Δ' ∧ (CtxOk Γ → CleanEnv Γ Δ') ∧
      s'.funcDecl = s.funcDecl ∧ s'.args = s.args ++ rest
  | [], xs, s, Δ, Δ', rest, _, ha, _, hg, hr, hce, _ => by
    cases ha
    exact ⟨s, rfl, hg, hr, hce, rfl, by simp⟩
  | k :: ds, xs, s, Δ, Δ', rest, hf, ha, hxs, hg, hr, hce, hfd => by
    cases hf with
    | cons hk hrest =>
      rename_i x0 xs0
      obtain ⟨d, lo, hi, lv, hv, kv, dom, rfl, hcv, hvo⟩ := hk.shape
      cases ha with
      | cons h1 hdb hhas hnext =>
        rename_i x t e rest'
        have hx : x = x0 := by simpa using (List.cons.inj hxs).1
        subst hx
        obtain ⟨s1, r1, g1, rc1, ce1, f1, a1⟩ := argdecl_c (p := some par) (d := d) (lo := lo) (hi := hi) (lv := lv)
          (hv := hv) (kv := kv) hcv hvo h1 hdb hhas hg hr hce hfd
        obtain ⟨s2, r2, g2, rc2, ce2, f2, a2⟩ := argdecls_c ds xs0 s1 _ Δ' rest' hrest hnext
          (by simpa using (List.cons.inj hxs).2) g1 rc1 ce1 (by rw [f1]; exact hfd)
        refine ⟨s2, ?_, g2, rc2, ce2, f2.trans f1, by rw [a2, a1]; simp⟩
        unfold visitAll
        rw [bind_eq r1]; exact r2

/-- `[x1∈D1, …] body` visited from the initial state -/
theorem funcdef_c {Γ : Ctx} {m : Nat} {c : Cat} {p : Option Tok} {d da : TokData} {lo hi la ha : Int}
    {decls : List Ast} {body : Ast} {xs : List String} {τ : ExprTy} {args : List (String × Ty)}
    (hk : ArgsC Γ m xs decls) (hb : CV Γ (m+3) c body)
    (htop : HasTopType Γ (.node .NT_FUNC_DEFINITION d lo hi [.node .NT_ARGUMENTS da la ha decls, body]) τ args)
    (hxs : args.map Prod.fst = xs) :
    ∃ s', visit Γ (m+4) p (.node .NT_FUNC_DEFINITION d lo hi [.node .NT_ARGUMENTS da la ha decls, body]) {} = (.ok (), s') ∧
      s'.cur = τ ∧ s'.args = args := by
  cases htop with
  | expr h1 _ _ _ => exact absurd rfl h1
  | funcdef hargs hbody =>
    rename_i Δ'
    let s1 : St := { funcDecl := 1 }
    have hg1 : GoodSt s1 := ⟨rfl, rfl, fun x t l h => by simp [view, findLocal, s1] at h, List.nodup_nil⟩
    have hrv1 : RelV s1 {} := fun x => by simp [view, findLocal, Env.get?, s1]
    obtain ⟨s2, r2, g2, rv2, ce2, f2, a2⟩ := argdecls_c (par := .NT_ARGUMENTS) decls xs s1 {} Δ' args hk hargs hxs hg1 hrv1
      (fun _ => cleanEnv_empty Γ) (by decide)
    let s3 : St := { s2 with cur := .logic, funcDecl := s2.funcDecl - 1 }
    have hf3 : s3.funcDecl = 0 := by show s2.funcDecl - 1 = 0; rw [f2]; rfl
    have hg3 : GoodSt s3 := ⟨g2.1, g2.2.1, g2.2.2⟩
    have hr3 : RelC Γ s3 { Δ' with fd := false } :=
      ⟨⟨rv2, fun hne => absurd hf3 hne, fun hx y u hy => ce2 hx y u hy⟩, fun h => by cases h⟩
    obtain ⟨s4, r4, m4⟩ := childType_cv (a := .node .NT_FUNC_DEFINITION d lo hi [.node .NT_ARGUMENTS da la ha decls, body])
      kid1 hb hbody hg3 hr3 (fun _ h => by cases h) (nomis (t := .NT_FUNC_DEFINITION) (by decide))
    change ∃ s', viFunctionDefinition (visit Γ (m+3))
      (.node .NT_FUNC_DEFINITION d lo hi [.node .NT_ARGUMENTS da la ha decls, body]) {} = _ ∧ _
    unfold viFunctionDefinition
    have rA : visitChild (visit Γ (m+3)) (.node .NT_FUNC_DEFINITION d lo hi [.node .NT_ARGUMENTS da la ha decls, body]) 0 s1
        = (.ok (), { s2 with cur := .logic }) := by
      refine visitChild_fwd kid0 ?_
      change viAllLogic (visit Γ (m+2)) (.node .NT_ARGUMENTS da la ha decls) s1 = _
      unfold viAllLogic
      rw [bind_eq (show visitAll (visit Γ (m+2)) (Ast.node Tok.NT_ARGUMENTS da la ha decls).id
        (Ast.node Tok.NT_ARGUMENTS da la ha decls).kids s1 = (.ok (), s2) from r2)]
      rfl
    refine bind_ex (modifySt_fwd _ _) (bind_ex (modifySt_fwd _ _) ?_)
    refine bind_ex rA (bind_ex (modifySt_fwd _ _) ?_)
    refine bind_ex r4 (bind_ex (modifySt_fwd _ _) ⟨_, rfl, rfl, ?_⟩)
    show s4.args = args
    rw [m4.2.args]
    show s2.args = args
    rw [a2]; rfl

end CCVerif.Checker
