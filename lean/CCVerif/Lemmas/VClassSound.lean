import CCVerif.Model.Checker
import CCVerif.Spec.VClass
import CCVerif.Lemmas.CheckerTotal
import CCVerif.Lemmas.CheckerErr
import CCVerif.Lemmas.VClassSpec
/-!
C03, value-class audit: SOUNDNESS of the `ValueAuditor` model for `Spec.HasVClass` on trees of the
parser's shape (`Wf`), together with the log discipline: an accepting run logs nothing, a rejecting
run of an auditor with a reporter logs exactly one error, one of the four codes of the audit, at a
position inside the expression; an auditor without reporter (the one that audits a function body)
logs nothing.
-/
namespace CCVerif.Checker
open CCVerif.Syntax CCVerif.Types CCVerif.Spec

/-- the error codes of the value-class audit -/
def vEids : List Nat :=
  [EID.invalidPropertyUsage, EID.globalNoValue, EID.globalMissingAST, EID.globalFuncNoInterpretation]

/-- what a rejecting run does to the log -/
def FailLog (report : Bool) (lo hi : Int) (s s' : VSt) : Prop :=
  (report = true → ∃ err : Err, s'.errs = err :: s.errs ∧ err.1 ∈ vEids ∧ lo ≤ err.2 ∧ err.2 ≤ hi) ∧
  (report = false → s'.errs = s.errs)

def VOut {α : Type} (report : Bool) (lo hi : Int) (Post : α → VClass → Prop) (s : VSt) : Res α × VSt → Prop
  | (.ok a, s') => Post a s'.cur ∧ s'.errs = s.errs
  | (.fail, s') => FailLog report lo hi s s'
  | (.stuck _, _) => True

/-- triple: every run of `m` ends in `Post` with the log unchanged, or rejects with `FailLog`, or is stuck -/
def VT {α : Type} (report : Bool) (lo hi : Int) (Post : α → VClass → Prop) (m : VM α) : Prop :=
  ∀ s, VOut report lo hi Post s (m s)

section triples
variable {report : Bool} {lo hi : Int}

theorem vout_errs {α : Type} {Post : α → VClass → Prop} {s s1 : VSt} (h : s1.errs = s.errs) :
    ∀ {r : Res α × VSt}, VOut report lo hi Post s1 r → VOut report lo hi Post s r
  | (.ok _, _), hr => ⟨hr.1, hr.2.trans h⟩
  | (.fail, _), hr => ⟨fun hrep => by rw [← h]; exact hr.1 hrep, fun hrep => (hr.2 hrep).trans h⟩
  | (.stuck _, _), _ => trivial

theorem vt_bind {α β : Type} {Mid : α → VClass → Prop} {Post : β → VClass → Prop} {m : VM α} {f : α → VM β}
    (h1 : VT report lo hi Mid m) (h2 : ∀ a c, Mid a c → VT report lo hi Post (f a)) :
    VT report lo hi Post (VM.bind m f) := by
  intro s
  have h := h1 s
  unfold VM.bind
  generalize m s = r at h ⊢
  obtain ⟨r, s1⟩ := r
  cases r with
  | ok a => exact vout_errs h.2 (h2 a s1.cur h.1 s1)
  | fail => exact h
  | stuck x => trivial

theorem vt_pure {α : Type} {Post : α → VClass → Prop} (a : α) (h : ∀ c, Post a c) :
    VT report lo hi Post (VM.pure a) := fun s => ⟨h s.cur, rfl⟩

theorem vt_set {Post : Unit → VClass → Prop} (c : VClass) (h : Post () c) :
    VT report lo hi Post (vSet c) := fun _ => ⟨h, rfl⟩

theorem vt_stuck {α : Type} {Post : α → VClass → Prop} (x : String) :
    VT report lo hi Post (vStuck x : VM α) := fun _ => trivial

theorem vt_errFail {α : Type} {Post : α → VClass → Prop} {eid : Nat} {pos : Int} (he : eid ∈ vEids)
    (hp : report = true → lo ≤ pos ∧ pos ≤ hi) :
    VT report lo hi Post (VM.bind (vErr report eid pos) fun _ => (vFail : VM α)) := by
  intro s
  cases report with
  | true => exact ⟨fun _ => ⟨(eid, pos), rfl, he, (hp rfl).1, (hp rfl).2⟩, nofun⟩
  | false => exact ⟨nofun, fun _ => rfl⟩

theorem vt_mono {α : Type} {Post Post' : α → VClass → Prop} {m : VM α} {lo' hi' : Int}
    (h : VT report lo hi Post m) (hr : report = true → lo' ≤ lo ∧ hi ≤ hi')
    (hp : ∀ a c, Post a c → Post' a c) : VT report lo' hi' Post' m := by
  intro s
  have h := h s
  generalize m s = r at h ⊢
  obtain ⟨r, s1⟩ := r
  cases r with
  | ok a => exact ⟨hp _ _ h.1, h.2⟩
  | fail =>
    refine ⟨fun hrep => ?_, h.2⟩
    obtain ⟨err, e1, e2, e3, e4⟩ := h.1 hrep
    exact ⟨err, e1, e2, Int.le_trans (hr hrep).1 e3, Int.le_trans e4 (hr hrep).2⟩
  | stuck x => trivial

end triples

theorem vbind_pure {α β : Type} (a : α) (f : α → VM β) : VM.bind (VM.pure a) f = f a := rfl

/-! ## the helpers of the auditor -/

/-- what the recursive visitor guarantees on a child `k` of a node with range `lo..hi` -/
structure KidSpec (Γ : Ctx) (report : Bool) (P : List String) (v : VVisitor) (lo hi : Int) (k : Ast) : Prop where
  spec : VT report lo hi (fun (_ : Unit) c => HasVClass Γ P k c) (v k)
  pos : report = true → lo ≤ k.lo ∧ k.lo ≤ hi

section helpers
variable {Γ : Ctx} {report : Bool} {P : List String} {v : VVisitor} {lo hi : Int}

theorem vt_visitChild {a k : Ast} {i : Nat} (hk : a.kid i = some k) (hs : KidSpec Γ report P v lo hi k) :
    VT report lo hi (fun (_ : Unit) c => HasVClass Γ P k c) (vVisitChild v a i) := by
  simp only [vVisitChild, vKid, hk, vbind_pure]; exact hs.spec

theorem vt_assertValue {a k : Ast} {i : Nat} (hk : a.kid i = some k) (hs : KidSpec Γ report P v lo hi k) :
    VT report lo hi (fun (_ : Unit) c => c = .value ∧ HasVClass Γ P k .value) (vAssertValue report v a i) := by
  simp only [vAssertValue, vKid, hk, vbind_pure]
  intro s
  have h := hs.spec s
  simp only [VM.bind, vGet]
  generalize v k s = r at h ⊢
  obtain ⟨r, s1⟩ := r
  cases r with
  | ok u =>
    simp only
    by_cases hc : s1.cur = .value
    · simp only [hc, bne_self_eq_false, Bool.false_eq_true, if_false]
      exact ⟨⟨hc, hc ▸ h.1⟩, h.2⟩
    · have : (s1.cur != VClass.value) = true := by simpa using hc
      simp only [this, if_true]
      exact vout_errs h.2 (vt_errFail (by simp [vEids]) hs.pos s1)
  | fail => exact h
  | stuck x => trivial

/-- `VisitChild; current` followed by a continuation that reads the class -/
theorem vt_visit_get {β : Type} {Post : β → VClass → Prop} {a k : Ast} {i : Nat} {f : VClass → VM β}
    (hk : a.kid i = some k) (hs : KidSpec Γ report P v lo hi k)
    (hf : ∀ c, HasVClass Γ P k c → VT report lo hi Post (f c)) :
    VT report lo hi Post (VM.bind (vVisitChild v a i) fun _ => VM.bind vGet f) := by
  simp only [vVisitChild, vKid, hk, vbind_pure]
  intro s
  have h := hs.spec s
  simp only [VM.bind, vGet]
  generalize v k s = r at h ⊢
  obtain ⟨r, s1⟩ := r
  cases r with
  | ok u => exact vout_errs h.2 (hf s1.cur h.1 s1)
  | fail => exact h
  | stuck x => trivial

theorem visitAll_run : ∀ (ks : List Ast), (∀ k ∈ ks, KidSpec Γ report P v lo hi k) → ∀ s,
    VOut report lo hi (fun (_ : Unit) c => ∃ cs, HasVClasses Γ P ks cs ∧ c = cs.getLast?.getD s.cur) s
      (vVisitAll v ks s)
  | [], _, s => ⟨⟨[], .nil, rfl⟩, rfl⟩
  | k :: ks, h, s => by
    have h1 := (h k (by simp)).spec s
    simp only [vVisitAll, VM.bind]
    generalize v k s = r at h1 ⊢
    obtain ⟨r, s1⟩ := r
    cases r with
    | ok u =>
      have h2 := visitAll_run ks (fun k' hk' => h k' (by simp [hk'])) s1
      simp only
      generalize vVisitAll v ks s1 = r2 at h2 ⊢
      obtain ⟨r2, s2⟩ := r2
      cases r2 with
      | ok u2 =>
        obtain ⟨⟨cs, hcs, hl⟩, he⟩ := h2
        refine ⟨⟨s1.cur :: cs, .cons h1.1 hcs, ?_⟩, he.trans h1.2⟩
        rw [hl]
        cases cs with
        | nil => rfl
        | cons c' cs' => rw [List.getLast?_cons_cons]; exact getLastD_cons c' cs' _ _
      | fail => exact vout_errs h1.2 h2
      | stuck x => trivial
    | fail => exact h1
    | stuck x => trivial

theorem hasVClasses_length {Γ : Ctx} {P : List String} : ∀ {ks : List Ast} {cs : List VClass},
    HasVClasses Γ P ks cs → ks.length = cs.length
  | _, _, .nil => rfl
  | _, _, .cons _ h => by simp [hasVClasses_length h]

theorem vt_visitAll (ks : List Ast) (h : ∀ k ∈ ks, KidSpec Γ report P v lo hi k) :
    VT report lo hi (fun (_ : Unit) c => ∃ cs, HasVClasses Γ P ks cs ∧ (ks ≠ [] → cs.getLast? = some c))
      (vVisitAll v ks) := by
  intro s
  have h := visitAll_run ks h s
  generalize vVisitAll v ks s = r at h ⊢
  obtain ⟨r, s1⟩ := r
  cases r with
  | ok u =>
    obtain ⟨⟨cs, hcs, hl⟩, he⟩ := h
    refine ⟨⟨cs, hcs, fun hne => ?_⟩, he⟩
    have hlen := hasVClasses_length hcs
    cases cs with
    | nil => cases ks with
      | nil => exact absurd rfl hne
      | cons _ _ => simp at hlen
    | cons c' cs' =>
      rw [hl]
      cases hh : (c' :: cs').getLast? with
      | none => simp at hh
      | some z => rfl
  | fail => exact h
  | stuck x => trivial

theorem vt_args : ∀ (ks : List Ast), (∀ k ∈ ks, KidSpec Γ report P v lo hi k) →
    VT report lo hi (fun (cs : List VClass) _ => HasVClasses Γ P ks cs) (vArgs v ks)
  | [], _ => vt_pure [] (fun _ => .nil)
  | k :: ks, h => by
    simp only [vArgs]
    intro s
    have h1 := (h k (by simp)).spec s
    simp only [VM.bind, vGet]
    generalize v k s = r at h1 ⊢
    obtain ⟨r, s1⟩ := r
    cases r with
    | ok u =>
      have h2 := vt_args ks (fun k' hk' => h k' (by simp [hk'])) s1
      simp only
      generalize vArgs v ks s1 = r2 at h2 ⊢
      obtain ⟨r2, s2⟩ := r2
      cases r2 with
      | ok cs => exact ⟨.cons h1.1 h2.1, h2.2.trans h1.2⟩
      | fail => exact vout_errs h1.2 h2
      | stuck x => trivial
    | fail => exact h1
    | stuck x => trivial

theorem vt_decartGo : ∀ (ks : List Ast) (t : VClass), (∀ k ∈ ks, KidSpec Γ report P v lo hi k) →
    VT report lo hi (fun (_ : Unit) c => ∃ cs, HasVClasses Γ P ks cs ∧ c = if VClass.props ∈ cs then .props else t)
      (vDecartGo v ks t)
  | [], t, _ => vt_set t ⟨[], .nil, by simp⟩
  | k :: ks, t, h => by
    simp only [vDecartGo]
    intro s
    have h1 := (h k (by simp)).spec s
    simp only [VM.bind, vGet]
    generalize v k s = r at h1 ⊢
    obtain ⟨r, s1⟩ := r
    cases r with
    | ok u =>
      have h2 := vt_decartGo ks (if s1.cur == .props then s1.cur else t) (fun k' hk' => h k' (by simp [hk'])) s1
      simp only
      generalize vDecartGo v ks (if s1.cur == .props then s1.cur else t) s1 = r2 at h2 ⊢
      obtain ⟨r2, s2⟩ := r2
      cases r2 with
      | ok u2 =>
        obtain ⟨⟨cs, hcs, hc⟩, he⟩ := h2
        refine ⟨⟨s1.cur :: cs, .cons h1.1 hcs, ?_⟩, he.trans h1.2⟩
        rw [hc]
        cases s1.cur <;> by_cases hm : VClass.props ∈ cs <;> simp [hm]
      | fail => exact vout_errs h1.2 h2
      | stuck x => trivial
    | fail => exact h1
    | stuck x => trivial

/-- `AssertAllValues` over the children from `i` on -/
theorem assertAll_run (a : Ast) (hK : ∀ k ∈ a.kids, KidSpec Γ report P v lo hi k) : ∀ (n i : Nat),
    i + n = a.kids.length → ∀ s,
    VOut report lo hi (fun (_ : Unit) c => HasVClasses Γ P (a.kids.drop i) (List.replicate n .value) ∧
      c = if n = 0 then s.cur else .value) s (vAssertAll report v a n i s)
  | 0, i, hi', s => by
    have : a.kids.drop i = [] := List.drop_eq_nil_of_le (by omega)
    simp only [vAssertAll, this]
    exact ⟨⟨.nil, rfl⟩, rfl⟩
  | n+1, i, hi', s => by
    have hlt : i < a.kids.length := by omega
    have hk : a.kid i = some a.kids[i] := by simp [Ast.kid, hlt]
    have hd : a.kids.drop i = a.kids[i] :: a.kids.drop (i + 1) := (List.drop_eq_getElem_cons hlt)
    have h1 := vt_assertValue (a := a) hk (hK _ (List.getElem_mem hlt)) s
    simp only [vAssertAll, VM.bind]
    generalize vAssertValue report v a i s = r at h1 ⊢
    obtain ⟨r, s1⟩ := r
    cases r with
    | ok u =>
      have h2 := assertAll_run a hK n (i + 1) (by omega) s1
      simp only
      generalize vAssertAll report v a n (i + 1) s1 = r2 at h2 ⊢
      obtain ⟨r2, s2⟩ := r2
      cases r2 with
      | ok u2 =>
        refine ⟨⟨?_, ?_⟩, h2.2.trans h1.2⟩
        · rw [hd]; exact .cons h1.1.2 h2.1.1
        · rw [h2.1.2, h1.1.1]; simp
      | fail => exact vout_errs h1.2 h2
      | stuck x => trivial
    | fail => exact h1
    | stuck x => trivial

theorem vt_assertAll (a : Ast) (hK : ∀ k ∈ a.kids, KidSpec Γ report P v lo hi k) (hne : a.kids ≠ []) :
    VT report lo hi (fun (_ : Unit) c => HasVClasses Γ P a.kids (List.replicate a.kids.length .value) ∧ c = .value)
      (vAssertAll report v a a.kids.length 0) := by
  intro s
  have h := assertAll_run a hK a.kids.length 0 (by omega) s
  have hl : a.kids.length ≠ 0 := by simpa using hne
  simpa [hl] using h

end helpers

theorem vt_post {α : Type} {report : Bool} {lo hi : Int} {Post Post' : α → VClass → Prop} {m : VM α}
    (h : VT report lo hi Post m) (hp : ∀ a c, Post a c → Post' a c) : VT report lo hi Post' m :=
  vt_mono h (fun _ => ⟨Int.le_refl _, Int.le_refl _⟩) hp

theorem propParams_of_propsOf : ∀ (ds : List Ast) (cs : List VClass) (ps : List String),
    ds.length = cs.length → propsOf ds cs = some ps → PropParams ds cs ps
  | [], [], ps, _, h => by
    simp only [propsOf, Option.some.injEq] at h; subst h; exact .nil
  | d :: ds, c :: cs, ps, hl, h => by
    simp only [propsOf] at h
    cases hr : propsOf ds cs with
    | none => simp [hr] at h
    | some rest =>
      simp only [hr] at h
      have ih := propParams_of_propsOf ds cs rest (by simpa using hl) hr
      cases c with
      | props =>
        obtain ⟨t, dd, lo, hi, kids⟩ := d
        cases kids with
        | nil => simp [Ast.kid, Ast.kids] at h
        | cons k0 rest' =>
          obtain ⟨t0, d0, l0, h0, k0s⟩ := k0
          cases d0 <;> simp [Ast.kid, Ast.kids] at h
          subst h
          exact .props (by simp [argName]) ih
      | value => simp at h; subst h; exact .other (by decide) ih
      | invalid => simp at h; subst h; exact .other (by decide) ih
  | [], _ :: _, _, hl, _ => by simp at hl
  | _ :: _, [], _, hl, _ => by simp at hl

theorem vclassOf_spec {Γ : Ctx} {x : String} (h : ¬ (vclassOf Γ x == VClass.invalid) = true) :
    lookup Γ.vclass x = some (vclassOf Γ x) ∧ vclassOf Γ x ≠ .invalid := by
  have hne : vclassOf Γ x ≠ .invalid := by simpa using h
  refine ⟨?_, hne⟩
  unfold vclassOf at hne ⊢
  cases hl : lookup Γ.vclass x with
  | none => simp [hl] at hne
  | some c => rfl

/-! ## soundness on trees of the parser's shape -/

/-- the stored function definitions have the parser's shape too -/
def AstsWf (Γ : Ctx) : Prop :=
  ∀ f tree fd body, lookup Γ.asts f = some tree → tree.kid 1 = some fd → fd.kid 1 = some body →
    Wf Γ .S body ∨ Wf Γ .L body

def VSound (Γ : Ctx) (n : Nat) : Prop :=
  ∀ (report : Bool) (P : List String) (cat : Cat) (e : Ast), Wf Γ cat e → cat ≠ .DE →
    (report = true → WfRange e) →
    VT report e.lo e.hi (fun (_ : Unit) c => HasVClass Γ P e c) (vVisit Γ n report P e)

theorem kidSpec_of {Γ : Ctx} {n : Nat} (ih : VSound Γ n) {report : Bool} {P : List String} {e : Ast}
    (hr : report = true → WfRange e) {cat : Cat} {k : Ast} (hw : Wf Γ cat k) (hc : cat ≠ .DE)
    (hk : k ∈ e.kids) : KidSpec Γ report P (vVisit Γ n report P) e.lo e.hi k := by
  refine ⟨vt_mono (ih report P cat k hw hc (fun h => ((hr h).kid hk).1)) (fun h => ((hr h).kid hk).2)
    (fun _ _ h => h), fun h => ?_⟩
  obtain ⟨w, h1, h2⟩ := (hr h).kid hk
  have := w.lt
  exact ⟨h1, by omega⟩

/-- the function-call arm -/
theorem call_sound {Γ : Ctx} (hΓ : AstsWf Γ) {n : Nat} (ih : VSound Γ n) {report : Bool} {P : List String}
    {d : TokData} {lo hi lf hf : Int} {tf : Tok} {f : String} {kf as : List Ast}
    (hK : ∀ k ∈ as, KidSpec Γ report P (vVisit Γ n report P) lo hi k)
    (hself : report = true → lo ≤ lo ∧ lo ≤ hi) :
    VT report lo hi
      (fun (_ : Unit) c => HasVClass Γ P (.node .NT_FUNC_CALL d lo hi (.node tf (.text f) lf hf kf :: as)) c)
      (vVisit Γ (n+1) report P (.node .NT_FUNC_CALL d lo hi (.node tf (.text f) lf hf kf :: as))) := by
  have hk0 : (Ast.node .NT_FUNC_CALL d lo hi (.node tf (.text f) lf hf kf :: as)).kid 0
      = some (.node tf (.text f) lf hf kf) := rfl
  have hdr : (Ast.node .NT_FUNC_CALL d lo hi (.node tf (.text f) lf hf kf :: as)).kids.drop 1 = as := rfl
  have hdt : (Ast.node tf (.text f) lf hf kf).data = .text f := rfl
  simp only [vVisit, vDispatch, Ast.id, vKid, hk0, vbind_pure, vText, hdt, hdr]
  split
  · exact vt_errFail (by simp [vEids]) hself
  · rename_i hft
    obtain ⟨hlk, hne⟩ := vclassOf_spec hft
    refine vt_bind (vt_args as hK) (fun cs _ hcs => ?_)
    split
    · rename_i hall
      exact vt_set _ (.callValues rfl hlk hne hcs (by simpa using hall))
    · rename_i hall
      have hex : ∃ c' ∈ cs, c' ≠ VClass.value := by
        simpa using hall
      cases hast : lookup Γ.asts f with
      | none => exact vt_errFail (by simp [vEids]) hself
      | some tree =>
        simp only
        cases h1 : tree.kid 1 with
        | none => exact vt_stuck _
        | some fd =>
          simp only
          cases h0 : fd.kid 0 with
          | none => cases fd.kid 1 <;> exact vt_stuck _
          | some decl =>
            cases hb : fd.kid 1 with
            | none => exact vt_stuck _
            | some body =>
              simp only
              split
              · exact vt_stuck _
              · rename_i hlen
                have hlen : decl.kids.length = cs.length := by simpa using hlen
                cases hpo : propsOf decl.kids cs with
                | none => exact vt_stuck _
                | some ps =>
                  simp only
                  have hpp := propParams_of_propsOf _ _ _ hlen hpo
                  have hbw := hΓ f tree fd body hast h1 hb
                  have hsub : VT false body.lo body.hi (fun (_ : Unit) c => HasVClass Γ ps body c)
                      (vVisit Γ n false ps body) := by
                    rcases hbw with w | w
                    · exact ih false ps _ body w (by decide) nofun
                    · exact ih false ps _ body w (by decide) nofun
                  have hrun := hsub {}
                  generalize vVisit Γ n false ps body {} = r at hrun ⊢
                  obtain ⟨r, s1⟩ := r
                  cases r with
                  | ok u => exact vt_set _ (.callProps rfl hlk hne hcs hex hast h1 h0 hb hpp hrun.1)
                  | fail => exact vt_errFail (by simp [vEids]) hself
                  | stuck x => exact vt_stuck _

theorem mem_replicate_value {n : Nat} : ∀ c ∈ List.replicate n VClass.value, c = VClass.value :=
  fun _ hc => (List.mem_replicate.mp hc).2

set_option maxHeartbeats 1000000 in
theorem vsound_all {Γ : Ctx} (hΓ : AstsWf Γ) : ∀ n, VSound Γ n
  | 0 => fun _ _ _ _ _ _ _ => vt_stuck "fuel"
  | n+1 => by
    have ih := vsound_all hΓ n
    intro report P cat e hw hc hr
    have K : ∀ {cat : Cat} {k : Ast}, Wf Γ cat k → cat ≠ .DE → k ∈ e.kids →
        KidSpec Γ report P (vVisit Γ n report P) e.lo e.hi k := fun hw' hc' hk => kidSpec_of ih hr hw' hc' hk
    have hself : report = true → e.lo ≤ e.lo ∧ e.lo ≤ e.hi := fun h =>
      ⟨Int.le_refl _, Int.le_of_lt (hr h).lt⟩
    cases hw with
    | sGlobal ht =>
      rcases ht with rfl | rfl | rfl <;>
      · simp only [vVisit, vDispatch, Ast.id, vText, Ast.data, vbind_pure]
        split
        · exact vt_errFail (by simp [vEids]) hself
        · rename_i h
          exact vt_set _ (.global (by simp) (vclassOf_spec h).1 (vclassOf_spec h).2)
    | @sLocal x _ _ _ =>
      simp only [vVisit, vDispatch, Ast.id, vText, Ast.data, vbind_pure]
      by_cases hx : x ∈ P
      · have : P.contains x = true := by simpa using hx
        rw [this]; exact vt_set _ (.localProps hx)
      · have : P.contains x = false := by simpa using hx
        rw [this]; exact vt_set _ (.localValue hx)
    | sRadical => simp only [vVisit, vDispatch, Ast.id]; exact vt_set _ (.const (by simp))
    | sInt => simp only [vVisit, vDispatch, Ast.id]; exact vt_set _ (.const (by simp))
    | sIntset => simp only [vVisit, vDispatch, Ast.id]; exact vt_set _ .intset
    | sEmpty => simp only [vVisit, vDispatch, Ast.id]; exact vt_set _ (.const (by simp))
    | @sArith tok d lo hi a b ht wa wb =>
      have hK : ∀ k ∈ [a, b], KidSpec Γ report P (vVisit Γ n report P) lo hi k := by
        intro k hk; simp only [List.mem_cons, List.not_mem_nil, or_false] at hk
        rcases hk with rfl | rfl
        · exact K wa (by decide) (by simp [Ast.kids])
        · exact K wb (by decide) (by simp [Ast.kids])
      rcases ht with rfl | rfl | rfl <;>
      · simp only [vVisit, vDispatch, Ast.id, vAllSet, Ast.kids]
        refine vt_bind (vt_visitAll _ hK) (fun _ _ h => vt_set _ ?_)
        obtain ⟨cs, hcs, _⟩ := h
        cases hcs with | cons h1 r => cases r with | cons h2 _ => exact .valueOp (by simp) h1 h2
    | @sUnary _ _ _ _ a ht wa =>
      have ka := K wa (by decide) (by simp [Ast.kids])
      rcases ht with rfl | rfl | rfl | rfl | rfl
      · simp only [vVisit, vDispatch, Ast.id]
        exact vt_post (vt_assertValue (k := a) rfl ka) (fun _ c h => h.1 ▸ .needValue (by simp) h.2)
      · simp only [vVisit, vDispatch, Ast.id]
        exact vt_bind (vt_visitChild (k := a) rfl ka) (fun _ c h => vt_set _ (.boolean h))
      · simp only [vVisit, vDispatch, Ast.id]
        exact vt_post (vt_assertValue (k := a) rfl ka) (fun _ c h => h.1 ▸ .needValue (by simp) h.2)
      · simp only [vVisit, vDispatch, Ast.id]
        exact vt_post (vt_assertValue (k := a) rfl ka) (fun _ c h => h.1 ▸ .needValue (by simp) h.2)
      · simp only [vVisit, vDispatch, Ast.id]
        exact vt_post (vt_assertValue (k := a) rfl ka) (fun _ c h => h.1 ▸ .needValue (by simp) h.2)
    | @sSetbin tok d lo hi a b ht wa wb =>
      have ka := K wa (by decide) (by simp [Ast.kids])
      have kb := K wb (by decide) (by simp [Ast.kids])
      rcases ht with rfl | rfl | rfl | rfl
      · simp only [vVisit, vDispatch, Ast.id]
        refine vt_visit_get (k := a) rfl ka fun c1 h1 => vt_visit_get (k := b) rfl kb fun c2 h2 => vt_set _ ?_
        have := HasVClass.union (Or.inl rfl) h1 h2 (d := d) (lo := lo) (hi := hi)
        cases c1 <;> cases c2 <;> simpa using this
      · simp only [vVisit, vDispatch, Ast.id]
        refine vt_visit_get (k := a) rfl ka fun c1 h1 => vt_visit_get (k := b) rfl kb fun c2 h2 => vt_set _ ?_
        have := HasVClass.inter h1 h2 (d := d) (lo := lo) (hi := hi)
        cases c1 <;> cases c2 <;> simpa using this
      · simp only [vVisit, vDispatch, Ast.id]
        refine vt_visit_get (k := a) rfl ka fun c1 h1 => vt_visit_get (k := b) rfl kb fun c2 h2 => vt_set _ ?_
        have := HasVClass.minus h1 h2 (d := d) (lo := lo) (hi := hi)
        cases c1 <;> cases c2 <;> simpa using this
      · simp only [vVisit, vDispatch, Ast.id]
        refine vt_visit_get (k := a) rfl ka fun c1 h1 => vt_visit_get (k := b) rfl kb fun c2 h2 => vt_set _ ?_
        have := HasVClass.union (Or.inr rfl) h1 h2 (d := d) (lo := lo) (hi := hi)
        cases c1 <;> cases c2 <;> simpa using this
    | @sEnum _ _ _ a ks hS =>
      simp only [vVisit, vDispatch, Ast.id]
      refine vt_post (vt_assertAll _ (fun k hk => K (hS k hk) (by decide) hk) (by simp [Ast.kids])) ?_
      intro _ c h
      exact h.2 ▸ .collect (Or.inl rfl) h.1 mem_replicate_value
    | @sMany _ _ _ _ a b ks ht hS =>
      rcases ht with rfl | rfl
      · simp only [vVisit, vDispatch, Ast.id]
        refine vt_post (vt_decartGo _ .value (fun k hk => K (hS k hk) (by decide) hk)) ?_
        intro _ c h
        obtain ⟨cs, hcs, hc⟩ := h
        exact hc ▸ .decart hcs
      · simp only [vVisit, vDispatch, Ast.id]
        refine vt_post (vt_assertAll _ (fun k hk => K (hS k hk) (by decide) hk) (by simp [Ast.kids])) ?_
        intro _ c h
        exact h.2 ▸ .collect (Or.inr rfl) h.1 mem_replicate_value
    | @sProj _ _ _ _ a ht _ wa =>
      have ka := K wa (by decide) (by simp [Ast.kids])
      rcases ht with rfl | rfl <;>
      · simp only [vVisit, vDispatch, Ast.id]
        exact vt_post (vt_assertValue (k := a) rfl ka) (fun _ c h => h.1 ▸ .needValue (by simp) h.2)
    | @sFilter _ _ _ p ks _ hS hne =>
      simp only [vVisit, vDispatch, Ast.id]
      refine vt_post (vt_visitAll _ (fun k hk => K (hS k hk) (by decide) hk)) ?_
      intro _ c h
      obtain ⟨cs, hcs, hl⟩ := h
      exact .filter hcs hne (hl (by simp [Ast.kids]))
    | @sDeclarative _ _ _ p dom body _ wd wb =>
      have kd := K wd (by decide) (by simp [Ast.kids])
      have kb := K wb (by decide) (by simp [Ast.kids])
      simp only [vVisit, vDispatch, Ast.id]
      exact vt_bind (vt_visitChild (k := body) rfl kb) fun _ cb hb =>
        vt_post (vt_visitChild (k := dom) rfl kd) fun _ c h => .declarative hb h
    | @sImperative _ _ _ value blocks wv hB =>
      have kv := K wv (by decide) (by simp [Ast.kids])
      simp only [vVisit, vDispatch, Ast.id]
      refine vt_bind (vt_visitAll _ (fun k hk => K (hB k hk) (by decide) (List.mem_of_mem_drop hk)))
        (fun _ _ h => ?_)
      obtain ⟨cs, hcs, _⟩ := h
      exact vt_post (vt_assertValue (k := value) rfl kv) (fun _ c h => h.1 ▸ .imperative hcs h.2)
    | @sRecShort _ _ _ p init step wp wi ws =>
      simp only [vVisit, vDispatch, Ast.id]
      refine vt_post (vt_assertAll (Γ := Γ) (P := P) _ (fun k hk => ?_) (by simp [Ast.kids])) ?_
      · simp only [Ast.kids, List.mem_cons, List.not_mem_nil, or_false] at hk
        rcases hk with rfl | rfl | rfl
        · exact K wp (by decide) (by simp [Ast.kids])
        · exact K wi (by decide) (by simp [Ast.kids])
        · exact K ws (by decide) (by simp [Ast.kids])
      · intro _ c h
        obtain ⟨h1, hc⟩ := h
        cases h1 with | cons a1 r => cases r with | cons a2 r => cases r with | cons a3 _ =>
        exact hc ▸ .recShort a1 a2 a3
    | @sRecFull _ _ _ p init cond step wp wi wc ws =>
      simp only [vVisit, vDispatch, Ast.id]
      refine vt_post (vt_assertAll (Γ := Γ) (P := P) _ (fun k hk => ?_) (by simp [Ast.kids])) ?_
      · simp only [Ast.kids, List.mem_cons, List.not_mem_nil, or_false] at hk
        rcases hk with rfl | rfl | rfl | rfl
        · exact K wp (by decide) (by simp [Ast.kids])
        · exact K wi (by decide) (by simp [Ast.kids])
        · exact K wc (by decide) (by simp [Ast.kids])
        · exact K ws (by decide) (by simp [Ast.kids])
      · intro _ c h
        obtain ⟨h1, hc⟩ := h
        cases h1 with | cons a1 r => cases r with | cons a2 r => cases r with | cons a3 r => cases r with | cons a4 _ =>
        exact hc ▸ .recFull a1 a2 a3 a4
    | sCall _ hS =>
      exact call_sound hΓ ih (fun k hk => K (hS k hk) (by decide) (by simp [Ast.kids] at hk ⊢; exact Or.inr hk)) hself
    | @lNot _ _ _ a wa =>
      have ka := K wa (by decide) (by simp [Ast.kids])
      simp only [vVisit, vDispatch, Ast.id, vAllSet, Ast.kids]
      refine vt_bind (vt_visitAll [a] (fun k hk => by simp at hk; exact hk ▸ ka)) (fun _ _ h => vt_set _ ?_)
      obtain ⟨cs, hcs, _⟩ := h
      cases hcs with | cons h1 r => exact .not h1
    | @lBin tok d lo hi a b ht wa wb =>
      have hK : ∀ k ∈ [a, b], KidSpec Γ report P (vVisit Γ n report P) lo hi k := by
        intro k hk; simp only [List.mem_cons, List.not_mem_nil, or_false] at hk
        rcases hk with rfl | rfl
        · exact K wa (by decide) (by simp [Ast.kids])
        · exact K wb (by decide) (by simp [Ast.kids])
      rcases ht with rfl | rfl | rfl | rfl <;>
      · simp only [vVisit, vDispatch, Ast.id, vAllSet, Ast.kids]
        refine vt_bind (vt_visitAll _ hK) (fun _ _ h => vt_set _ ?_)
        obtain ⟨cs, hcs, _⟩ := h
        cases hcs with | cons h1 r => cases r with | cons h2 _ => exact .valueOp (by simp) h1 h2
    | @lPred tok d lo hi a b ht wa wb =>
      have ka := K wa (by decide) (by simp [Ast.kids])
      have kb := K wb (by decide) (by simp [Ast.kids])
      have hK : ∀ k ∈ [a, b], KidSpec Γ report P (vVisit Γ n report P) lo hi k := by
        intro k hk; simp only [List.mem_cons, List.not_mem_nil, or_false] at hk
        rcases hk with rfl | rfl
        · exact ka
        · exact kb
      have hcmp : ∀ {tok : Tok} {d : TokData} {lo hi : Int} (ht : tok = .EQUAL ∨ tok = .NOTEQUAL ∨ tok = .SUBSET ∨ tok = .NOTSUBSET) (c : VClass),
          HasVClasses Γ P (Ast.node tok d lo hi [a, b]).kids (List.replicate (Ast.node tok d lo hi [a, b]).kids.length .value) ∧ c = .value →
          HasVClass Γ P (Ast.node tok d lo hi [a, b]) c := by
        intro tok d lo hi ht c h
        obtain ⟨h1, hc⟩ := h
        cases h1 with | cons a1 r => cases r with | cons a2 _ => exact hc ▸ .compare ht a1 a2
      rcases ht with rfl | rfl | rfl | rfl | rfl | rfl | rfl | rfl | rfl | rfl | rfl
      · simp only [vVisit, vDispatch, Ast.id]
        exact vt_post (vt_assertAll _ hK (by simp [Ast.kids])) (fun _ c h => hcmp (by simp) c h)
      · simp only [vVisit, vDispatch, Ast.id]
        exact vt_post (vt_assertAll _ hK (by simp [Ast.kids])) (fun _ c h => hcmp (by simp) c h)
      · simp only [vVisit, vDispatch, Ast.id, vAllSet, Ast.kids]
        refine vt_bind (vt_visitAll _ hK) (fun _ _ h => vt_set _ ?_)
        obtain ⟨cs, hcs, _⟩ := h
        cases hcs with | cons h1 r => cases r with | cons h2 _ => exact .valueOp (by simp) h1 h2
      · simp only [vVisit, vDispatch, Ast.id, vAllSet, Ast.kids]
        refine vt_bind (vt_visitAll _ hK) (fun _ _ h => vt_set _ ?_)
        obtain ⟨cs, hcs, _⟩ := h
        cases hcs with | cons h1 r => cases r with | cons h2 _ => exact .valueOp (by simp) h1 h2
      · simp only [vVisit, vDispatch, Ast.id, vAllSet, Ast.kids]
        refine vt_bind (vt_visitAll _ hK) (fun _ _ h => vt_set _ ?_)
        obtain ⟨cs, hcs, _⟩ := h
        cases hcs with | cons h1 r => cases r with | cons h2 _ => exact .valueOp (by simp) h1 h2
      · simp only [vVisit, vDispatch, Ast.id, vAllSet, Ast.kids]
        refine vt_bind (vt_visitAll _ hK) (fun _ _ h => vt_set _ ?_)
        obtain ⟨cs, hcs, _⟩ := h
        cases hcs with | cons h1 r => cases r with | cons h2 _ => exact .valueOp (by simp) h1 h2
      · simp only [vVisit, vDispatch, Ast.id]
        exact vt_bind (vt_visitChild (k := b) rfl kb) fun _ cb hb =>
          vt_post (vt_assertValue (k := a) rfl ka) fun _ c h => h.1 ▸ .elem (by simp) hb h.2
      · simp only [vVisit, vDispatch, Ast.id]
        exact vt_bind (vt_visitChild (k := b) rfl kb) fun _ cb hb =>
          vt_post (vt_assertValue (k := a) rfl ka) fun _ c h => h.1 ▸ .elem (by simp) hb h.2
      · simp only [vVisit, vDispatch, Ast.id]
        exact vt_post (vt_assertAll _ hK (by simp [Ast.kids])) (fun _ c h => hcmp (by simp) c h)
      · simp only [vVisit, vDispatch, Ast.id]
        exact vt_bind (vt_visitChild (k := b) rfl kb) fun _ cb hb =>
          vt_post (vt_assertValue (k := a) rfl ka) fun _ c h => h.1 ▸ .elem (by simp) hb h.2
      · simp only [vVisit, vDispatch, Ast.id]
        exact vt_post (vt_assertAll _ hK (by simp [Ast.kids])) (fun _ c h => hcmp (by simp) c h)
    | @lQuant _ _ _ _ p dom body ht _ wd wb =>
      have kd := K wd (by decide) (by simp [Ast.kids])
      have kb := K wb (by decide) (by simp [Ast.kids])
      rcases ht with rfl | rfl <;>
      · simp only [vVisit, vDispatch, Ast.id]
        exact vt_bind (vt_assertValue (k := dom) rfl kd) fun _ _ hd =>
          vt_post (vt_visitChild (k := body) rfl kb) fun _ c h => .quant (by simp) hd.2 h
    | lCall hS =>
      exact call_sound hΓ ih (fun k hk => K (hS k hk) (by decide) (by simp [Ast.kids] at hk ⊢; exact Or.inr hk)) hself
    | @lIterate _ _ _ p dom _ wd =>
      have kd := K wd (by decide) (by simp [Ast.kids])
      simp only [vVisit, vDispatch, Ast.id]
      exact vt_post (vt_assertValue (k := dom) rfl kd) (fun _ c h => h.1 ▸ .block (by simp) h.2)
    | @lAssign _ _ _ p ex _ wd =>
      have kd := K wd (by decide) (by simp [Ast.kids])
      simp only [vVisit, vDispatch, Ast.id]
      exact vt_post (vt_assertValue (k := ex) rfl kd) (fun _ c h => h.1 ▸ .block (by simp) h.2)
    | @dLocal x _ _ _ =>
      simp only [vVisit, vDispatch, Ast.id, vText, Ast.data, vbind_pure]
      by_cases hx : x ∈ P
      · have : P.contains x = true := by simpa using hx
        rw [this]; exact vt_set _ (.localProps hx)
      · have : P.contains x = false := by simpa using hx
        rw [this]; exact vt_set _ (.localValue hx)
    | @dTuple _ _ _ k ks hD =>
      simp only [vVisit, vDispatch, Ast.id, vAllSet]
      refine vt_bind (vt_visitAll _ (fun k' hk => K (hD k' hk) (by decide) hk)) (fun _ _ h => vt_set _ ?_)
      obtain ⟨cs, hcs, _⟩ := h
      exact .tupleDecl hcs
    | deOfD _ => exact absurd rfl hc
    | deEnum _ => exact absurd rfl hc

end CCVerif.Checker
