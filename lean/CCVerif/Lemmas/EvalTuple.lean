import CCVerif.Lemmas.EvalFrag
import CCVerif.Lemmas.EvalUnfold4
/-! Flat tuple patterns `(x₁,…,xₙ)` in binders (stage 6 of the C01 / C02 fragments): how the reference
semantics binds the components (`bindPat`), how the typing scope and the realisation map grow, and the step of
the invariant: the normal form binds ONE generated variable to the whole tuple and reads the components as
projections. -/
namespace CCVerif.Eval
open CCVerif.Syntax CCVerif.Spec CCVerif.Norm
open Val Ty

/-- position of the component called `y` -/
def posOf (y : String) : List EDecl → Option Nat
  | [] => none
  | q :: qs => if q.1 = y then some 0 else (posOf y qs).map (· + 1)

theorem posOf_none {y : String} : ∀ {xs : List EDecl}, posOf y xs = none ↔ y ∉ xs.map (·.1)
  | [] => by simp [posOf]
  | q :: qs => by
    simp only [posOf, List.map_cons, List.mem_cons, not_or]
    by_cases e : q.1 = y
    · simp [e]
    · simp only [e, if_false, Option.map_eq_none_iff, posOf_none (xs := qs)]
      exact ⟨fun h => ⟨fun h' => e h'.symm, h⟩, fun h => h.2⟩

theorem posOf_some {y : String} : ∀ {xs : List EDecl} {j : Nat}, posOf y xs = some j → ∃ q, xs[j]? = some q ∧ q.1 = y
  | [], _, h => by simp [posOf] at h
  | q :: qs, j, h => by
    simp only [posOf] at h
    by_cases e : q.1 = y
    · simp only [e, if_true] at h; injection h with h; subst h; exact ⟨q, rfl, e⟩
    · simp only [e, if_false] at h
      cases hp : posOf y qs with
      | none => simp [hp] at h
      | some j' =>
        simp [hp] at h; subst h
        obtain ⟨q', h1, h2⟩ := posOf_some hp
        exact ⟨q', by simpa using h1, h2⟩

theorem lookup_patCtx (y : String) : ∀ (xs : List EDecl) (ts : List Ty) (Γ : TCtx), xs.length = ts.length →
    (xs.map (·.1)).Nodup →
    lookup y (patCtx Γ xs ts) = match posOf y xs with | some j => ts[j]? | none => lookup y Γ
  | [], [], _, _, _ => rfl
  | [], _ :: _, _, h, _ => by simp at h
  | _ :: _, [], _, h, _ => by simp at h
  | q :: qs, ty :: ts, Γ, hl, hnd => by
    have hnd' : (qs.map (·.1)).Nodup := (List.nodup_cons.mp hnd).2
    have hq : q.1 ∉ qs.map (·.1) := (List.nodup_cons.mp hnd).1
    show lookup y (patCtx ((q.1, ty) :: Γ) qs ts) = _
    rw [lookup_patCtx y qs ts _ (by simpa using hl) hnd']
    simp only [posOf]
    by_cases e : q.1 = y
    · subst e
      rw [posOf_none.mpr hq]
      simp [lookup]
    · simp only [e, if_false]
      cases hp : posOf y qs with
      | none => simp [lookup_cons_ne _ _ (fun h => e h.symm)]
      | some j => simp

theorem lookup_patRz (y nn : String) : ∀ (xs : List EDecl) (i : Int) (σ : Rz),
    lookup y (patRz nn xs i ++ σ) = match posOf y xs with | some j => some (nn, i + j) | none => lookup y σ
  | [], _, _ => rfl
  | q :: qs, i, σ => by
    simp only [patRz, List.cons_append, posOf]
    by_cases e : q.1 = y
    · subst e; simp [lookup]
    · have e' : ¬ (y = q.1) := fun h => e h.symm
      simp only [lookup, e, if_false, beq_iff_eq, e']
      rw [lookup_patRz y nn qs (i + 1) σ]
      cases posOf y qs with
      | none => rfl
      | some j => simp; omega

theorem bindPats_flat : ∀ (xs : List EDecl) (vs : List Val) (ρ : LEnv), xs.length = vs.length → (xs.map (·.1)).Nodup →
    ∃ ρ', bindPats (xs.map declNode) vs ρ = some ρ' ∧
      ∀ y, ρ'.find y = match posOf y xs with | some j => (vs[j]?).map Binding.val | none => ρ.find y
  | [], [], ρ, _, _ => ⟨ρ, by simp [bindPats], fun y => rfl⟩
  | [], _ :: _, _, h, _ => by simp at h
  | _ :: _, [], _, h, _ => by simp at h
  | q :: qs, v :: vs, ρ, hl, hnd => by
    have hq : q.1 ∉ qs.map (·.1) := (List.nodup_cons.mp hnd).1
    obtain ⟨ρ', h1, h2⟩ := bindPats_flat qs vs (.val q.1 v ρ) (by simpa using hl) (List.nodup_cons.mp hnd).2
    refine ⟨ρ', by simp only [List.map_cons, bindPats, declNode, bindPat_local]; exact h1, ?_⟩
    intro y
    rw [h2 y]
    simp only [posOf]
    by_cases e : q.1 = y
    · subst e
      -- a later component of the same name would shadow it: excluded by the pattern being duplicate free
      rw [posOf_none.mpr hq]
      simp [find_val_self]
    · simp only [e, if_false]
      cases hp : posOf y qs with
      | none => simp [find_val_ne _ _ (fun h => e h.symm)]
      | some j => simp

theorem WFs_get : ∀ {vs : List Val} {ts : List Ty} {j : Nat} {τ : Ty}, WFs vs ts → ts[j]? = some τ →
    ∃ v, vs[j]? = some v ∧ WF v τ
  | [], [], _, _, _, h => by simp at h
  | [], _ :: _, _, _, h, _ => by simp [WFs, hasTyList] at h
  | _ :: _, [], _, _, h, _ => by simp [WFs, hasTyList] at h
  | v :: vs, ty :: ts, 0, τ, h, hj => by
    simp at hj; subst hj
    simp only [WFs, hasTyList, canonAll, Bool.and_eq_true] at h
    exact ⟨v, rfl, h.1.1, h.2.1⟩
  | v :: vs, ty :: ts, j + 1, τ, h, hj => by
    simp only [WFs, hasTyList, canonAll, Bool.and_eq_true] at h
    obtain ⟨w, h1, h2⟩ := WFs_get (vs := vs) (ts := ts) (j := j) ⟨h.1.2, h.2.2⟩ (by simpa using hj)
    exact ⟨w, by simpa using h1, h2⟩

theorem noAnyList_get : ∀ {ts : List Ty} {j : Nat} {τ : Ty}, noAnyList ts = true → ts[j]? = some τ → noAny τ = true
  | [], _, _, _, h => by simp at h
  | ty :: ts, 0, τ, hn, hj => by
    simp at hj; subst hj
    simp only [noAnyList, Bool.and_eq_true] at hn; exact hn.1
  | ty :: ts, j + 1, τ, hn, hj => by
    simp only [noAnyList, Bool.and_eq_true] at hn
    exact noAnyList_get hn.2 (by simpa using hj)

/-- **entering a binder over a flat tuple pattern**: the reference semantics binds the components, the evaluator
stores the whole tuple in the slot of the generated variable -/
theorem Inv.bindTup {env : Env} {c : Ctx} {σ : Rz} {Γ : TCtx} {ρ : LEnv} {st : St} (h : Inv env c σ Γ ρ st)
    (xs : List EDecl) (ts : List Ty) (vs : List Val) (nn : String) (var : Nat) (n : Nat)
    (hlen : xs.length = ts.length) (hnd : (xs.map (·.1)).Nodup)
    (hfresh : ∀ q ∈ xs, lookup q.1 Γ = none ∧ lookup q.1 env.globals = none ∧ ∀ r ∈ σ, r.2.1 ≠ q.1)
    (hnnΓ : lookup nn Γ = none) (hnng : lookup nn env.globals = none) (hnnxs : nn ∉ xs.map (·.1))
    (hnnσ : ∀ r ∈ σ, r.2.1 ≠ nn) (hvar : lookup nn c.ids = some var) (hna : noAnyList ts = true) (hw : WFs vs ts) :
    ∃ ρ', bindPats (xs.map declNode) vs ρ = some ρ' ∧
      Inv env c (patRz nn xs 1 ++ σ) (patCtx Γ xs ts) ρ' { data := st.data.set var (.t vs), iters := n } := by
  have hvl : xs.length = vs.length := by rw [hlen, WFs_length hw]
  obtain ⟨ρ', hb, hfind⟩ := bindPats_flat xs vs ρ hvl hnd
  refine ⟨ρ', hb, ?_⟩
  have hr := h.range nn var hvar
  have hget : ∀ i, i ≠ var → (st.data.set var (Val.t vs))[i]? = st.data[i]? := by
    intro i hi; simp [List.getElem?_set_ne (Ne.symm hi)]
  constructor
  · intro m i hm; simp; exact h.range m i hm
  · exact h.inj
  · intro g w i hw' hi
    have hne : i ≠ var := by
      intro e; subst e
      have := h.inj nn g i hvar hi
      subst this; rw [hnng] at hw'; cases hw'
    show (st.data.set var (Val.t vs))[i]? = some w
    rw [hget i hne]; exact h.glob g w i hw' hi
  · intro y τ hy
    rw [lookup_patCtx y xs ts Γ hlen hnd] at hy
    cases hp : posOf y xs with
    | some j =>
      rw [hp] at hy
      obtain ⟨q, hq1, hq2⟩ := posOf_some hp
      have hqm : q ∈ xs := List.mem_of_getElem? hq1
      obtain ⟨v, hv1, hv2⟩ := WFs_get hw hy
      refine ⟨by rw [← hq2]; exact (hfresh q hqm).2.1, noAnyList_get hna hy, v, ?_, hv2, ?_⟩
      · rw [hfind y, hp]; simp only [hv1]; rfl
      · unfold Holds
        rw [lookup_patRz y nn xs 1 σ, hp]
        refine ⟨var, .t vs, hvar, by simp [hr], ?_⟩
        simp only [Val.component]
        have : (1 + (j : Int)) ≥ 1 := by omega
        simp only [this, if_true]
        have : ((1 + (j : Int)) - 1).toNat = j := by omega
        rw [this]; exact hv1
    | none =>
      rw [hp] at hy
      obtain ⟨a1, a2, v, a3, a4, a5⟩ := h.loc y τ hy
      refine ⟨a1, a2, v, by rw [hfind y, hp]; exact a3, a4, ?_⟩
      have hσy : lookup y (patRz nn xs 1 ++ σ) = lookup y σ := by rw [lookup_patRz y nn xs 1 σ, hp]
      have : Holds c σ { data := st.data.set var (Val.t vs), iters := n } y v := by
        refine a5.of_ne (var := var) hget ?_ ?_
        · intro _ i hi e'; subst e'
          have := h.inj y nn i hi hvar
          subst this; rw [hnnΓ] at hy; cases hy
        · intro nn' k hl i hi e'; subst e'
          have := h.inj nn' nn i hi hvar
          exact hnnσ (y, (nn', k)) (lookup_mem hl) this
      unfold Holds at this ⊢
      rw [hσy]; exact this
  · intro y r hl
    rw [lookup_patRz y nn xs 1 σ] at hl
    cases hp : posOf y xs with
    | some j =>
      rw [hp] at hl
      injection hl with hl; subst hl
      obtain ⟨q, hq1, hq2⟩ := posOf_some hp
      have hjl : j < ts.length := by
        obtain ⟨hj, _⟩ := List.getElem?_eq_some_iff.mp hq1; omega
      refine ⟨⟨ts[j], ?_⟩, ?_, hnng⟩
      · rw [lookup_patCtx y xs ts Γ hlen hnd, hp]; simp [hjl]
      · show lookup nn (patCtx Γ xs ts) = none
        rw [lookup_patCtx nn xs ts Γ hlen hnd, posOf_none.mpr hnnxs]; exact hnnΓ
    | none =>
      rw [hp] at hl
      obtain ⟨⟨τ', hτ'⟩, b1, b2⟩ := h.dom y r hl
      refine ⟨⟨τ', by rw [lookup_patCtx y xs ts Γ hlen hnd, hp]; exact hτ'⟩, ?_, b2⟩
      have hr1 : r.1 ∉ xs.map (·.1) := by
        intro hm
        obtain ⟨q, hq, e⟩ := List.mem_map.mp hm
        exact (hfresh q hq).2.2 (y, r) (lookup_mem hl) e.symm
      rw [lookup_patCtx r.1 xs ts Γ hlen hnd, posOf_none.mpr hr1]; exact b1

/-! ## `denote` at binders over a tuple pattern -/

/-- the pattern node of a flat tuple pattern -/
def patNode (pd : TokData) (plo phi : Int) (xs : List EDecl) : Ast := .node .NT_TUPLE_DECL pd plo phi (xs.map declNode)

theorem bindPat_patNode (pd : TokData) (plo phi : Int) (xs : List EDecl) (v : Val) (ρ : LEnv) :
    bindPat (patNode pd plo phi xs) v ρ = match v with | .t cs => bindPats (xs.map declNode) cs ρ | _ => none := by
  simp only [patNode, bindPat]
  simp [tok_beq]
  cases v <;> rfl

/-- the truth value of the body for one member of the domain, bound through the pattern -/
def patBody (env : SEnv) (fuel : Nat) (pd : TokData) (plo phi : Int) (xs : List EDecl) (ρ : LEnv) (body : Ast) (v : Val) :
    Option Bool :=
  match bindPat (patNode pd plo phi xs) v ρ with
  | none => none
  | some ρ' => dBool (denote env fuel ρ' body)

theorem patBody_eq (env : SEnv) (fuel : Nat) (pd : TokData) (plo phi : Int) (xs : List EDecl) (ρ ρ' : LEnv) (body : Ast)
    (cs : List Val) (h : bindPats (xs.map declNode) cs ρ = some ρ') :
    patBody env fuel pd plo phi xs ρ body (.t cs) = dBool (denote env fuel ρ' body) := by
  simp only [patBody, bindPat_patNode, h]

/-- `Q pat∈D . body` for one (pattern) declaration -/
theorem denote_quantPat {t : Tok} (ht : isQuant t) (env : SEnv) (fuel : Nat) (ρ : LEnv) (pd : TokData) (plo phi : Int)
    (xs : List EDecl) (dom body : Ast) (d : TokData) (lo hi : Int) :
    denote env (fuel + 1) ρ (.node t d lo hi [patNode pd plo phi xs, dom, body]) =
      match dSet (denote env fuel ρ dom) with
      | none => none
      | some vs =>
        (let rs := vs.map (patBody env fuel pd plo phi xs ρ body)
         if t == .FORALL then kAll rs else kAny rs).map SemVal.bool := by
  rcases ht with rfl | rfl <;>
  · simp only [denote, Ast.id, Ast.kids, List.getElem?_cons_zero, List.getElem?_cons_succ, Option.getD_some, patNode]
    simp only [show (Tok.NT_TUPLE_DECL == Tok.NT_ENUM_DECL) = false by decide, quantSem]
    rfl

theorem denote_declPat_raw (env : SEnv) (fuel : Nat) (ρ : LEnv) (pd : TokData) (plo phi : Int)
    (xs : List EDecl) (dom body : Ast) (d : TokData) (lo hi : Int) :
    denote env (fuel + 1) ρ (.node .NT_DECLARATIVE_EXPR d lo hi [patNode pd plo phi xs, dom, body]) =
      match dSet (denote env fuel ρ dom) with
      | none => none
      | some vs =>
        ((vs.mapM fun v =>
            match bindPat (patNode pd plo phi xs) v ρ with
            | none => none
            | some ρ' => (dBool (denote env fuel ρ' body)).map fun b => (v, b)).map keep).map SemVal.val := by
  simp only [denote, Ast.id, Ast.kids, List.getElem?_cons_zero, List.getElem?_cons_succ, Option.getD_some]
  rfl

theorem denote_declPat (env : SEnv) (fuel : Nat) (ρ : LEnv) (pd : TokData) (plo phi : Int)
    (xs : List EDecl) (dom body : Ast) (d : TokData) (lo hi : Int) :
    denote env (fuel + 1) ρ (.node .NT_DECLARATIVE_EXPR d lo hi [patNode pd plo phi xs, dom, body]) =
      match dSet (denote env fuel ρ dom) with
      | none => none
      | some vs =>
        ((vs.mapM fun v => (patBody env fuel pd plo phi xs ρ body v).map fun b => (v, b)).map keep).map SemVal.val := by
  rw [denote_declPat_raw]
  have : (fun v => (patBody env fuel pd plo phi xs ρ body v).map fun b => (v, b)) =
      (fun x => match bindPat (patNode pd plo phi xs) x ρ with
        | none => none
        | some ρ' => (dBool (denote env fuel ρ' body)).map fun b => (x, b)) := by
    funext v
    simp only [patBody]
    cases bindPat (patNode pd plo phi xs) v ρ <;> rfl
  rw [this]

end CCVerif.Eval
