import CCVerif.Lemmas.GraphInv
import CCVerif.Model.GraphSpec
/-!
Correctness of the three depth-first searches of `CGraph` (`HasLoop`, `InternalOrder`,
`GetAllLoopsItems`) for an arbitrary graph satisfying the representation invariant `Inv`.

Layout
* §1 paths (`Reach`) – general lemmas
* §2 the slot-level digraph `sedges g` and its correspondence with `edges g` (uids)
* §3 status vectors, the scan of the children, the fuel measure
* §4 the invariant of the iterative three-colour DFS (with duplicate stack entries)
* §5 `hasLoop`
* §6 `internalOrder` / `topologicalOrder`
* §7 `getAllLoopsItems` (second pass of Kosaraju)
* §8 a decidable form of `Inv` for concrete graphs

Main results (all for an arbitrary `g` with `Inv g`, with the model's fuel `dfsFuel g` /
`g.length + 1` shown sufficient): `DFS.hasLoop_spec`, `internalOrder_nodup`, `mem_internalOrder`,
`topologicalOrder_perm`, `topologicalOrder_edge`, `DFS.topologicalOrder_spec`,
`DFS.loopGroups_spec`.
-/
namespace CCVerif.Graph

/-! ## §1 paths -/

theorem Reach.trans {E : List (Nat × Nat)} {a b c : Nat} (h1 : Reach E a b) (h2 : Reach E b c) :
    Reach E a c := by
  induction h1 with
  | refl => exact h2
  | step he _ ih => exact Reach.step he (ih h2)

theorem Reach.single {E : List (Nat × Nat)} {a b : Nat} (h : (a, b) ∈ E) : Reach E a b :=
  Reach.step h (Reach.refl b)

theorem Reach.tail {E : List (Nat × Nat)} {a b c : Nat} (h1 : Reach E a b) (h2 : (b, c) ∈ E) :
    Reach E a c := h1.trans (Reach.single h2)

theorem ReachPlus.reach {E : List (Nat × Nat)} {a c : Nat} (h : ReachPlus E a c) : Reach E a c := by
  obtain ⟨b, hb, hr⟩ := h
  exact Reach.step hb hr

theorem Reach.plus_of_ne {E : List (Nat × Nat)} {a c : Nat} (h : Reach E a c) (hne : a ≠ c) :
    ReachPlus E a c := by
  cases h with
  | refl => exact absurd rfl hne
  | step he hr => exact ⟨_, he, hr⟩

theorem ReachPlus.trans_reach {E : List (Nat × Nat)} {a b c : Nat} (h1 : ReachPlus E a b)
    (h2 : Reach E b c) : ReachPlus E a c := by
  obtain ⟨x, hx, hr⟩ := h1
  exact ⟨x, hx, hr.trans h2⟩

theorem Reach.trans_plus {E : List (Nat × Nat)} {a b c : Nat} (h1 : Reach E a b)
    (h2 : ReachPlus E b c) : ReachPlus E a c := by
  cases h1 with
  | refl => exact h2
  | step he hr => exact ⟨_, he, hr.trans h2.reach⟩

/-! ## §2 the slot-level digraph -/

/-- successors of slot `i` -/
def outs (g : G) (i : Nat) : List Nat := (vx g i).outputs
def inps (g : G) (i : Nat) : List Nat := (vx g i).inputs
def uidOf (g : G) (i : Nat) : Nat := (vx g i).uid
def live (g : G) (i : Nat) : Prop := i < g.length ∧ (vx g i).valid = true

/-- edges as pairs of slot indices -/
def sedges (g : G) : List (Nat × Nat) :=
  (List.range g.length).flatMap (fun i => (outs g i).map (fun o => (i, o)))

theorem vx_of_ge (g : G) (i : Nat) (h : g.length ≤ i) : vx g i = { uid := 0, valid := false } := by
  unfold vx
  simp [List.getD_eq_getElem?_getD, List.getElem?_eq_none h]

theorem vx_of_lt (g : G) (i : Nat) (h : i < g.length) : vx g i = g[i] := by
  unfold vx
  simp [List.getD_eq_getElem?_getD, List.getElem?_eq_getElem h]

theorem outs_of_ge (g : G) (i : Nat) (h : g.length ≤ i) : outs g i = [] := by
  simp [outs, vx_of_ge g i h]

theorem lt_of_mem_outs {g : G} {i c : Nat} (h : c ∈ outs g i) : i < g.length := by
  apply Classical.byContradiction
  intro hn
  rw [outs_of_ge g i (Nat.le_of_not_lt hn)] at h
  simp at h

theorem mem_sedges {g : G} {i j : Nat} : (i, j) ∈ sedges g ↔ j ∈ outs g i := by
  unfold sedges
  simp only [List.mem_flatMap, List.mem_range, List.mem_map, Prod.mk.injEq]
  constructor
  · rintro ⟨a, _, b, hb, rfl, rfl⟩
    exact hb
  · intro h
    exact ⟨i, lt_of_mem_outs h, j, h, rfl, rfl⟩

theorem mem_edges {g : G} {a b : Nat} :
    (a, b) ∈ edges g ↔ ∃ i j, j ∈ outs g i ∧ a = uidOf g i ∧ b = uidOf g j := by
  unfold edges
  simp only [List.mem_flatMap, List.mem_map, Prod.mk.injEq]
  constructor
  · rintro ⟨v, hv, o, ho, rfl, rfl⟩
    obtain ⟨i, hi, rfl⟩ := List.getElem_of_mem hv
    refine ⟨i, o, ?_, ?_, rfl⟩
    · simp [outs, vx_of_lt g i hi, ho]
    · simp [uidOf, vx_of_lt g i hi]
  · rintro ⟨i, j, hj, rfl, rfl⟩
    have hi := lt_of_mem_outs hj
    refine ⟨g[i], List.getElem_mem hi, j, ?_, ?_, rfl⟩
    · simpa [outs, vx_of_lt g i hi] using hj
    · simp [uidOf, vx_of_lt g i hi]

theorem live_of_mem_outs {g : G} (h : Inv g) {i c : Nat} (hc : c ∈ outs g i) : live g i ∧ live g c := by
  have hi := lt_of_mem_outs hc
  refine ⟨⟨hi, ?_⟩, h.outRange i hi c hc⟩
  cases hv : (vx g i).valid with
  | true => rfl
  | false =>
    have := (h.dead i hi hv).2
    unfold outs at hc
    rw [this] at hc
    simp at hc

theorem reach_uid {g : G} {i j : Nat} (hr : Reach (sedges g) i j) :
    Reach (edges g) (uidOf g i) (uidOf g j) := by
  induction hr with
  | refl => exact Reach.refl _
  | step he _ ih => exact Reach.step (mem_edges.2 ⟨_, _, mem_sedges.1 he, rfl, rfl⟩) ih

theorem reachPlus_uid {g : G} {i j : Nat} (hr : ReachPlus (sedges g) i j) :
    ReachPlus (edges g) (uidOf g i) (uidOf g j) := by
  obtain ⟨b, hb, hr⟩ := hr
  exact ⟨uidOf g b, mem_edges.2 ⟨_, _, mem_sedges.1 hb, rfl, rfl⟩, reach_uid hr⟩

theorem uid_inj {g : G} (h : Inv g) {i j : Nat} (hi : live g i) (hj : live g j)
    (he : uidOf g i = uidOf g j) : i = j :=
  h.uidInj i j hi.1 hj.1 hi.2 hj.2 he

theorem reach_live {g : G} (h : Inv g) {i j : Nat} (hr : Reach (sedges g) i j) (hi : live g i) :
    live g j := by
  induction hr with
  | refl => exact hi
  | step he _ ih => exact ih (live_of_mem_outs h (mem_sedges.1 he)).2

theorem edge_slot {g : G} (h : Inv g) {i : Nat} {a b : Nat} (hi : live g i) (ha : uidOf g i = a)
    (he : (a, b) ∈ edges g) : ∃ j, live g j ∧ uidOf g j = b ∧ j ∈ outs g i := by
  obtain ⟨i', j, hj, ha', hb⟩ := mem_edges.1 he
  have hl := live_of_mem_outs h hj
  have : i = i' := uid_inj h hi hl.1 (by rw [ha, ha'])
  subst this
  exact ⟨j, hl.2, hb.symm, hj⟩

theorem reach_slot {g : G} (h : Inv g) {a b : Nat} (hr : Reach (edges g) a b) :
    ∀ i, live g i → uidOf g i = a → ∃ j, live g j ∧ uidOf g j = b ∧ Reach (sedges g) i j := by
  induction hr with
  | refl => intro i hi ha; exact ⟨i, hi, ha, Reach.refl _⟩
  | step he _ ih =>
    intro i hi ha
    obtain ⟨k, hk, hku, hko⟩ := edge_slot h hi ha he
    obtain ⟨j, hj, hju, hr⟩ := ih k hk hku
    exact ⟨j, hj, hju, Reach.step (mem_sedges.2 hko) hr⟩

theorem reachPlus_slot {g : G} (h : Inv g) {a b : Nat} (hr : ReachPlus (edges g) a b) :
    ∀ i, live g i → uidOf g i = a → ∃ j, live g j ∧ uidOf g j = b ∧ ReachPlus (sedges g) i j := by
  intro i hi ha
  obtain ⟨c, hc, hr⟩ := hr
  obtain ⟨k, hk, hku, hko⟩ := edge_slot h hi ha hc
  obtain ⟨j, hj, hju, hr⟩ := reach_slot h hr k hk hku
  exact ⟨j, hj, hju, k, mem_sedges.2 hko, hr⟩

/-- source of an edge is the uid of a live slot -/
theorem edge_src_slot {g : G} (h : Inv g) {a b : Nat} (he : (a, b) ∈ edges g) :
    ∃ i, live g i ∧ uidOf g i = a := by
  obtain ⟨i, j, hj, ha, _⟩ := mem_edges.1 he
  exact ⟨i, (live_of_mem_outs h hj).1, ha.symm⟩

theorem cyclic_uid_iff {g : G} (h : Inv g) : Cyclic (edges g) ↔ Cyclic (sedges g) := by
  constructor
  · rintro ⟨v, hv⟩
    obtain ⟨c, hc, _⟩ := id hv
    obtain ⟨i, hi, hiu⟩ := edge_src_slot h hc
    obtain ⟨j, hj, hju, hr⟩ := reachPlus_slot h hv i hi hiu
    have : i = j := uid_inj h hi hj (by rw [hiu, hju])
    subst this
    exact ⟨i, hr⟩
  · rintro ⟨i, hi⟩
    exact ⟨uidOf g i, reachPlus_uid hi⟩

/-! ## §3 status vectors, the scan of the children, the fuel measure -/

theorem statusAt_set (st : List Nat) (i j v : Nat) :
    statusAt (st.set i v) j = if i = j ∧ i < st.length then v else statusAt st j := by
  unfold statusAt
  simp only [List.getD_eq_getElem?_getD, List.getElem?_set]
  by_cases hij : i = j
  · subst hij
    by_cases hl : i < st.length
    · simp [hl]
    · simp [hl]
  · simp [hij]

theorem statusAt_set_self (st : List Nat) (i v : Nat) (h : i < st.length) :
    statusAt (st.set i v) i = v := by
  simp [statusAt_set, h]

theorem statusAt_set_ne (st : List Nat) (i j v : Nat) (h : i ≠ j) :
    statusAt (st.set i v) j = statusAt st j := by
  simp [statusAt_set, h]

theorem statusAt_of_ge (st : List Nat) (i : Nat) (h : st.length ≤ i) : statusAt st i = 0 := by
  unfold statusAt
  simp [List.getD_eq_getElem?_getD, List.getElem?_eq_none h]

theorem set_same (st : List Nat) (i v : Nat) (h : statusAt st i = v) (hl : i < st.length) :
    st.set i v = st := by
  apply List.ext_getElem?
  intro j
  rw [List.getElem?_set]
  split
  · rename_i hij
    subst hij
    unfold statusAt at h
    simp [List.getD_eq_getElem?_getD, List.getElem?_eq_getElem hl] at h
    simp [hl, h]
  · rfl

theorem statusAt_replicate (n i : Nat) : statusAt (List.replicate n 0) i = 0 := by
  unfold statusAt
  simp [List.getD_eq_getElem?_getD, List.getElem?_replicate]
  split <;> simp

/-- white children of a vertex, in pushing order (top of the stack first) -/
def whites (st1 : List Nat) (os : List Nat) : List Nat :=
  (os.filter (fun c => statusAt st1 c = 0)).reverse

theorem mem_whites {st1 os : List Nat} {c : Nat} : c ∈ whites st1 os ↔ c ∈ os ∧ statusAt st1 c = 0 := by
  simp [whites]

theorem whites_length_le (st1 os : List Nat) : (whites st1 os).length ≤ os.length := by
  simp [whites, List.length_filter_le]

theorem push_fold (st1 : List Nat) (os stack : List Nat) :
    os.foldl (fun stack child => if statusAt st1 child = 0 then child :: stack else stack) stack
      = whites st1 os ++ stack := by
  induction os generalizing stack with
  | nil => simp [whites]
  | cons c os ih =>
    simp only [List.foldl_cons]
    rw [ih]
    by_cases hc : statusAt st1 c = 0
    · simp [whites, hc]
    · simp [whites, hc]

/-- the child scan of `HasLoop` -/
def scanF (st1 : List Nat) (acc : Option (List Nat)) (child : Nat) : Option (List Nat) :=
  match acc with
  | none => none
  | some stack =>
    if statusAt st1 child = 1 then none
    else if statusAt st1 child = 0 then some (child :: stack) else some stack

theorem scan_none (st1 os : List Nat) : os.foldl (scanF st1) none = none := by
  induction os with
  | nil => rfl
  | cons c os ih => simpa [scanF] using ih

theorem scanF_grey {st1 : List Nat} {c : Nat} (stack : List Nat) (h : statusAt st1 c = 1) :
    scanF st1 (some stack) c = none := by
  simp [scanF, h]

theorem scanF_white {st1 : List Nat} {c : Nat} (stack : List Nat) (h : statusAt st1 c = 0) :
    scanF st1 (some stack) c = some (c :: stack) := by
  simp [scanF, h]

theorem scanF_black {st1 : List Nat} {c : Nat} (stack : List Nat) (h0 : statusAt st1 c ≠ 0)
    (h1 : statusAt st1 c ≠ 1) : scanF st1 (some stack) c = some stack := by
  simp [scanF, h0, h1]

theorem scan_some (st1 : List Nat) (os stack : List Nat) (h : ∀ c ∈ os, statusAt st1 c ≠ 1) :
    os.foldl (scanF st1) (some stack) = some (whites st1 os ++ stack) := by
  induction os generalizing stack with
  | nil => simp [whites]
  | cons c os ih =>
    have hc : statusAt st1 c ≠ 1 := h c (by simp)
    have hos : ∀ c ∈ os, statusAt st1 c ≠ 1 := fun c hc => h c (by simp [hc])
    simp only [List.foldl_cons]
    by_cases hw : statusAt st1 c = 0
    · rw [scanF_white _ hw, ih _ hos]
      simp [whites, hw]
    · rw [scanF_black _ hw hc, ih _ hos]
      simp [whites, hw]

theorem scan_grey (st1 : List Nat) (os stack : List Nat) (h : ∃ c ∈ os, statusAt st1 c = 1) :
    os.foldl (scanF st1) (some stack) = none := by
  induction os generalizing stack with
  | nil => simp at h
  | cons c os ih =>
    simp only [List.foldl_cons]
    by_cases hc : statusAt st1 c = 1
    · rw [scanF_grey _ hc]
      exact scan_none st1 os
    · have hos : ∃ c ∈ os, statusAt st1 c = 1 := by
        obtain ⟨d, hd, hd1⟩ := h
        simp only [List.mem_cons] at hd
        rcases hd with rfl | hd
        · exact absurd hd1 hc
        · exact ⟨d, hd, hd1⟩
      by_cases hw : statusAt st1 c = 0
      · rw [scanF_white _ hw]
        exact ih _ hos
      · rw [scanF_black _ hw hc]
        exact ih _ hos

/-! ### sums -/

theorem sum_map_le {l : List Nat} {f f' : Nat → Nat} (h : ∀ i ∈ l, f' i ≤ f i) :
    (l.map f').sum ≤ (l.map f).sum := by
  induction l with
  | nil => simp
  | cons a l ih =>
    simp only [List.map_cons, List.sum_cons]
    have h1 := h a (by simp)
    have h2 := ih (fun i hi => h i (by simp [hi]))
    omega

theorem sum_map_lt {l : List Nat} {f f' : Nat → Nat} (x k : Nat) (hx : x ∈ l)
    (hk : f' x + k ≤ f x) (h : ∀ i ∈ l, f' i ≤ f i) :
    (l.map f').sum + k ≤ (l.map f).sum := by
  induction l with
  | nil => simp at hx
  | cons a l ih =>
    simp only [List.map_cons, List.sum_cons]
    have h2 : ∀ i ∈ l, f' i ≤ f i := fun i hi => h i (by simp [hi])
    simp only [List.mem_cons] at hx
    rcases hx with rfl | hx
    · have := sum_map_le h2
      omega
    · have h1 := h a (by simp)
      have := ih hx h2
      omega

/-- weight of the white vertices -/
def wsum (g : G) (st : List Nat) : Nat :=
  ((List.range g.length).map (fun i => if statusAt st i = 0 then 1 + (outs g i).length else 0)).sum

/-- number of iterations the inner loop can still make -/
def mu (g : G) (stack st : List Nat) : Nat := stack.length + wsum g st

theorem sum_range_outs (g : G) :
    ((List.range g.length).map (fun i => (outs g i).length)).sum = totalEdges g := by
  unfold totalEdges connectionsCount
  congr 1
  apply List.ext_getElem
  · simp
  · intro i h1 h2
    simp at h1
    simp [outs, vx_of_lt g i h1]

theorem sum_map_add (l : List Nat) (f f' : Nat → Nat) :
    (l.map (fun i => f i + f' i)).sum = (l.map f).sum + (l.map f').sum := by
  induction l with
  | nil => simp
  | cons a l ih => simp only [List.map_cons, List.sum_cons, ih]; omega

theorem sum_map_one (l : List Nat) : (l.map (fun _ => 1)).sum = l.length := by
  induction l with
  | nil => rfl
  | cons a l ih => simp only [List.map_cons, List.sum_cons, ih, List.length_cons]; omega

theorem wsum_le (g : G) (st : List Nat) : wsum g st ≤ g.length + totalEdges g := by
  unfold wsum
  calc _ ≤ ((List.range g.length).map (fun i => 1 + (outs g i).length)).sum := by
          apply sum_map_le
          intro i _
          split <;> omega
    _ = _ := by
          rw [sum_map_add, sum_range_outs, sum_map_one]
          simp

theorem mu_single_le (g : G) (st : List Nat) (i : Nat) : mu g [i] st ≤ dfsFuel g := by
  have := wsum_le g st
  simp [mu, dfsFuel]
  omega

theorem mu_push (g : G) (item : Nat) (rest st : List Nat) (hi : item < g.length)
    (hl : st.length = g.length) (hw : statusAt st item = 0) :
    mu g (whites (st.set item 1) (outs g item) ++ item :: rest) (st.set item 1) + 1
      ≤ mu g (item :: rest) st := by
  have h1 := whites_length_le (st.set item 1) (outs g item)
  have h2 : wsum g (st.set item 1) + (1 + (outs g item).length) ≤ wsum g st := by
    unfold wsum
    apply sum_map_lt item
    · simp [hi]
    · simp [statusAt_set, hl, hi, hw]
    · intro i _
      by_cases hii : item = i
      · subst hii; simp [statusAt_set, hl, hi, hw]
      · simp [statusAt_set, hii]
  simp [mu]
  omega

theorem mu_pop (g : G) (item : Nat) (rest st : List Nat) (hw : statusAt st item ≠ 0) :
    mu g rest (st.set item 2) + 1 ≤ mu g (item :: rest) st := by
  have h2 : wsum g (st.set item 2) ≤ wsum g st := by
    unfold wsum
    apply sum_map_le
    intro i _
    by_cases hii : item = i
    · subst hii
      have : statusAt (st.set item 2) item ≠ 0 := by
        rw [statusAt_set]; split <;> simp [hw]
      simp [this, hw]
    · simp [statusAt_set, hii]
  simp [mu]
  omega

/-! ## §4 the invariant of the iterative three-colour DFS

The stack may hold several copies of a vertex (a white child is pushed by every grey vertex that
scans it). While a vertex is grey its *topmost* copy is the one whose pop will blacken it;
`above x stack` are the entries above that copy. -/

def above (x : Nat) (stack : List Nat) : List Nat := stack.takeWhile (fun y => y != x)

theorem above_cons_self (x : Nat) (l : List Nat) : above x (x :: l) = [] := by
  simp [above]

theorem above_cons_ne {x y : Nat} (l : List Nat) (h : y ≠ x) : above x (y :: l) = y :: above x l := by
  simp [above, h]

theorem above_append {x : Nat} (cs l : List Nat) (h : x ∉ cs) : above x (cs ++ l) = cs ++ above x l := by
  induction cs with
  | nil => rfl
  | cons c cs ih =>
    have hc : c ≠ x := fun e => h (by simp [e])
    have hcs : x ∉ cs := fun e => h (by simp [e])
    rw [List.cons_append, above_cons_ne _ hc, ih hcs, List.cons_append]

theorem above_nil (x : Nat) : above x [] = [] := rfl

/-- all adjacency entries are slots -/
def OutOK (g : G) : Prop := ∀ i c, c ∈ outs g i → c < g.length

theorem Inv.outOK {g : G} (h : Inv g) : OutOK g :=
  fun i c hc => (h.outRange i (lt_of_mem_outs hc) c hc).1

structure DInv (g : G) (stack st : List Nat) : Prop where
  len : st.length = g.length
  le2 : ∀ i, statusAt st i ≤ 2
  stk : ∀ x ∈ stack, x < g.length
  /-- every grey vertex is on the stack -/
  grey : ∀ x, statusAt st x = 1 → x ∈ stack
  /-- a grey vertex reaches everything above it -/
  reach : ∀ x, statusAt st x = 1 → ∀ z ∈ above x stack, Reach (sedges g) x z
  /-- a white child of a grey vertex is waiting above it -/
  gcw : ∀ x, statusAt st x = 1 → ∀ c ∈ outs g x, statusAt st c ≠ 0 ∨ c ∈ above x stack
  /-- a black vertex has no white child -/
  bw : ∀ w, statusAt st w = 2 → ∀ c ∈ outs g w, statusAt st c ≠ 0

theorem DInv.start {g : G} {st : List Nat} (h : DInv g [] st) (i : Nat) (hi : i < g.length) :
    DInv g [i] st := by
  have hg : ∀ x, statusAt st x ≠ 1 := fun x hx => by simpa using h.grey x hx
  exact ⟨h.len, h.le2, by simpa using hi, fun x hx => absurd hx (hg x),
    fun x hx => absurd hx (hg x), fun x hx => absurd hx (hg x), h.bw⟩

theorem DInv.init (g : G) : DInv g [] (List.replicate g.length 0) := by
  refine ⟨by simp, ?_, by simp, ?_, ?_, ?_, ?_⟩ <;> intro x <;> simp [statusAt_replicate]

section push
variable {g : G} {item : Nat} {rest st : List Nat}

theorem st1_eq (h : DInv g (item :: rest) st) (j : Nat) :
    statusAt (st.set item 1) j = if item = j then 1 else statusAt st j := by
  have hi : item < st.length := by rw [h.len]; exact h.stk item (by simp)
  simp [statusAt_set, hi]

theorem st2_eq (h : DInv g (item :: rest) st) (j : Nat) :
    statusAt (st.set item 2) j = if item = j then 2 else statusAt st j := by
  have hi : item < st.length := by rw [h.len]; exact h.stk item (by simp)
  simp [statusAt_set, hi]

theorem item_notMem_whites (h : DInv g (item :: rest) st) (os : List Nat) :
    item ∉ whites (st.set item 1) os := by
  intro hm
  have := (mem_whites.1 hm).2
  rw [st1_eq h] at this
  simp at this

theorem grey_notMem_whites (os : List Nat) {x : Nat}
    (hx : statusAt (st.set item 1) x = 1) : x ∉ whites (st.set item 1) os := by
  intro hm
  have := (mem_whites.1 hm).2
  omega

theorem DInv.push (hok : OutOK g) (h : DInv g (item :: rest) st) :
    DInv g (whites (st.set item 1) (outs g item) ++ item :: rest) (st.set item 1) := by
  have e1 := st1_eq h
  have hni := item_notMem_whites h (outs g item)
  refine ⟨by simp [h.len], ?_, ?_, ?_, ?_, ?_, ?_⟩
  · intro i
    rw [e1]
    split
    · omega
    · exact h.le2 i
  · intro x hx
    simp only [List.mem_append] at hx
    rcases hx with hx | hx
    · exact hok item x (mem_whites.1 hx).1
    · exact h.stk x hx
  · intro x hx
    rw [e1] at hx
    by_cases hix : item = x
    · subst hix; simp
    · simp only [hix, if_false] at hx
      have := h.grey x hx
      simp only [List.mem_append]
      exact Or.inr this
  · intro x hx z hz
    have hxw := grey_notMem_whites (outs g item) hx
    rw [above_append _ _ hxw] at hz
    by_cases hix : item = x
    · subst hix
      rw [above_cons_self, List.append_nil] at hz
      exact Reach.single (mem_sedges.2 (mem_whites.1 hz).1)
    · rw [e1] at hx
      simp only [hix, if_false] at hx
      have hri : Reach (sedges g) x item := by
        apply h.reach x hx
        rw [above_cons_ne _ hix]
        simp
      simp only [List.mem_append] at hz
      rcases hz with hz | hz
      · exact hri.tail (mem_sedges.2 (mem_whites.1 hz).1)
      · exact h.reach x hx z hz
  · intro x hx c hc
    have hxw := grey_notMem_whites (outs g item) hx
    rw [above_append _ _ hxw]
    by_cases hix : item = x
    · subst hix
      rw [above_cons_self, List.append_nil]
      by_cases hcw : statusAt (st.set item 1) c = 0
      · exact Or.inr (mem_whites.2 ⟨hc, hcw⟩)
      · exact Or.inl hcw
    · rw [e1] at hx
      simp only [hix, if_false] at hx
      rcases h.gcw x hx c hc with hcw | hca
      · left
        rw [e1]
        split
        · omega
        · exact hcw
      · right
        simp only [List.mem_append]
        exact Or.inr hca
  · intro w hwb c hc
    rw [e1] at hwb
    by_cases hiw : item = w
    · simp [hiw] at hwb
    · simp only [hiw, if_false] at hwb
      have := h.bw w hwb c hc
      rw [e1]
      split
      · omega
      · exact this

theorem DInv.pop (h : DInv g (item :: rest) st) (hw : statusAt st item ≠ 0) :
    DInv g rest (st.set item 2) := by
  have e2 := st2_eq h
  have hle := h.le2 item
  refine ⟨by simp [h.len], ?_, ?_, ?_, ?_, ?_, ?_⟩
  · intro i
    rw [e2]
    split
    · omega
    · exact h.le2 i
  · intro x hx
    exact h.stk x (by simp [hx])
  · intro x hx
    rw [e2] at hx
    by_cases hix : item = x
    · simp [hix] at hx
    · simp only [hix, if_false] at hx
      have := h.grey x hx
      simp only [List.mem_cons] at this
      rcases this with rfl | this
      · exact absurd rfl hix
      · exact this
  · intro x hx z hz
    rw [e2] at hx
    by_cases hix : item = x
    · simp [hix] at hx
    · simp only [hix, if_false] at hx
      apply h.reach x hx
      rw [above_cons_ne _ hix]
      simp [hz]
  · intro x hx c hc
    rw [e2] at hx
    by_cases hix : item = x
    · simp [hix] at hx
    · simp only [hix, if_false] at hx
      rw [e2]
      rcases h.gcw x hx c hc with hcw | hca
      · left
        split
        · omega
        · exact hcw
      · rw [above_cons_ne _ hix] at hca
        simp only [List.mem_cons] at hca
        rcases hca with rfl | hca
        · left; simp
        · exact Or.inr hca
  · intro w hwb c hc
    rw [e2] at hwb
    rw [e2]
    by_cases hic : item = c
    · simp [hic]
    · simp only [hic, if_false]
      by_cases hiw : item = w
      · subst hiw
        by_cases h1 : statusAt st item = 1
        · rcases h.gcw item h1 c hc with hcw | hca
          · exact hcw
          · simp [above_cons_self] at hca
        · exact h.bw item (by omega) c hc
      · simp only [hiw, if_false] at hwb
        exact h.bw w hwb c hc

end push

/-- no grey vertex is left when the stack is empty -/
theorem DInv.no_grey {g : G} {st : List Nat} (h : DInv g [] st) (x : Nat) : statusAt st x ≠ 1 :=
  fun hx => by simpa using h.grey x hx

/-- from a black vertex, a path to a white vertex passes a grey one -/
theorem DInv.black_white {g : G} {stack st : List Nat} (h : DInv g stack st) {w z : Nat}
    (hr : Reach (sedges g) w z) (hw : statusAt st w = 2) (hz : statusAt st z = 0) :
    ∃ y, statusAt st y = 1 ∧ Reach (sedges g) w y := by
  induction hr with
  | refl => omega
  | step he hr ih =>
    rename_i a b c
    have hb := h.bw a hw b (mem_sedges.1 he)
    have hb2 := h.le2 b
    by_cases hb1 : statusAt st b = 1
    · exact ⟨b, hb1, Reach.single he⟩
    · obtain ⟨y, hy, hry⟩ := ih (by omega) hz
      exact ⟨y, hy, Reach.step he hry⟩

/-- a white vertex on top of the stack with a grey child closes a cycle -/
theorem DInv.back_edge {g : G} {item : Nat} {rest st : List Nat} (h : DInv g (item :: rest) st)
    {c : Nat} (hc : c ∈ outs g item)
    (hg : statusAt (st.set item 1) c = 1) : Cyclic (sedges g) := by
  refine ⟨item, c, mem_sedges.2 hc, ?_⟩
  by_cases hic : item = c
  · subst hic; exact Reach.refl _
  · rw [st1_eq h] at hg
    simp only [hic, if_false] at hg
    apply h.reach c hg
    rw [above_cons_ne _ hic]
    simp

/-! ## §5 `hasLoop` -/

theorem hasLoopInner_zero (g : G) (stack st : List Nat) : hasLoopInner g 0 stack st = some st := by
  cases stack <;> rfl

theorem hasLoopInner_nil (g : G) (fuel : Nat) (st : List Nat) : hasLoopInner g fuel [] st = some st := by
  cases fuel <;> rfl

theorem hasLoopInner_succ (g : G) (fuel item : Nat) (rest st : List Nat) :
    hasLoopInner g (fuel + 1) (item :: rest) st =
      if statusAt st item = 0 then
        match (outs g item).foldl (scanF (st.set item 1)) (some (item :: rest)) with
        | none => none
        | some stack => hasLoopInner g fuel stack (st.set item 1)
      else hasLoopInner g fuel rest (st.set item 2) := by
  rfl

/-- the part of the invariant that holds as long as no back edge has been met -/
structure HInv (g : G) (stack st : List Nat) : Prop where
  /-- a child of a grey vertex is finished or waiting above it -/
  gc : ∀ x, statusAt st x = 1 → ∀ c ∈ outs g x, statusAt st c = 2 ∨ c ∈ above x stack
  /-- black is closed under successors -/
  bc : ∀ w, statusAt st w = 2 → ∀ c ∈ outs g w, statusAt st c = 2
  /-- no black vertex lies on a cycle -/
  nb : ∀ w, statusAt st w = 2 → ¬ ReachPlus (sedges g) w w

theorem HInv.init (g : G) : HInv g [] (List.replicate g.length 0) := by
  refine ⟨?_, ?_, ?_⟩ <;> intro x <;> simp [statusAt_replicate]

theorem HInv.start {g : G} {st : List Nat} (hd : DInv g [] st) (h : HInv g [] st) (i : Nat) :
    HInv g [i] st :=
  ⟨fun x hx => absurd hx (hd.no_grey x), h.bc, h.nb⟩

theorem HInv.black_reach {g : G} {stack st : List Nat} (h : HInv g stack st) {w z : Nat}
    (hr : Reach (sedges g) w z) (hw : statusAt st w = 2) : statusAt st z = 2 := by
  induction hr with
  | refl => exact hw
  | step he _ ih => exact ih (h.bc _ hw _ (mem_sedges.1 he))

theorem HInv.push {g : G} {item : Nat} {rest st : List Nat} (hd : DInv g (item :: rest) st)
    (h : HInv g (item :: rest) st) (hw : statusAt st item = 0)
    (hng : ∀ c ∈ outs g item, statusAt (st.set item 1) c ≠ 1) :
    HInv g (whites (st.set item 1) (outs g item) ++ item :: rest) (st.set item 1) := by
  have e1 := st1_eq hd
  refine ⟨?_, ?_, ?_⟩
  · intro x hx c hc
    have hxw := grey_notMem_whites (outs g item) hx
    rw [above_append _ _ hxw]
    by_cases hix : item = x
    · subst hix
      rw [above_cons_self, List.append_nil]
      have := hng c hc
      have h2 : statusAt (st.set item 1) c ≤ 2 := by
        rw [e1]; split
        · omega
        · exact hd.le2 c
      by_cases hcw : statusAt (st.set item 1) c = 0
      · exact Or.inr (mem_whites.2 ⟨hc, hcw⟩)
      · left; omega
    · rw [e1] at hx
      simp only [hix, if_false] at hx
      rcases h.gc x hx c hc with hcb | hca
      · left
        rw [e1]
        split
        · rename_i e; subst e; omega
        · exact hcb
      · right
        simp only [List.mem_append]
        exact Or.inr hca
  · intro w hwb c hc
    rw [e1] at hwb
    by_cases hiw : item = w
    · simp [hiw] at hwb
    · simp only [hiw, if_false] at hwb
      have := h.bc w hwb c hc
      rw [e1]
      split
      · rename_i e; subst e; omega
      · exact this
  · intro w hwb
    rw [e1] at hwb
    by_cases hiw : item = w
    · simp [hiw] at hwb
    · simp only [hiw, if_false] at hwb
      exact h.nb w hwb

theorem HInv.pop {g : G} {item : Nat} {rest st : List Nat} (hd : DInv g (item :: rest) st)
    (h : HInv g (item :: rest) st) (hw : statusAt st item ≠ 0) :
    HInv g rest (st.set item 2) := by
  have e2 := st2_eq hd
  have hle := hd.le2 item
  -- the children of the popped vertex are black
  have hch : ∀ c ∈ outs g item, statusAt st c = 2 := by
    intro c hc
    by_cases h1 : statusAt st item = 1
    · rcases h.gc item h1 c hc with hcb | hca
      · exact hcb
      · simp [above_cons_self] at hca
    · exact h.bc item (by omega) c hc
  refine ⟨?_, ?_, ?_⟩
  · intro x hx c hc
    rw [e2] at hx
    by_cases hix : item = x
    · simp [hix] at hx
    · simp only [hix, if_false] at hx
      rw [e2]
      rcases h.gc x hx c hc with hcb | hca
      · left
        split
        · rfl
        · exact hcb
      · rw [above_cons_ne _ hix] at hca
        simp only [List.mem_cons] at hca
        rcases hca with rfl | hca
        · left; simp
        · exact Or.inr hca
  · intro w hwb c hc
    rw [e2] at hwb
    rw [e2]
    split
    · rfl
    · by_cases hiw : item = w
      · subst hiw; exact hch c hc
      · simp only [hiw, if_false] at hwb
        exact h.bc w hwb c hc
  · intro w hwb
    rw [e2] at hwb
    by_cases hiw : item = w
    · subst hiw
      by_cases h1 : statusAt st item = 1
      · rintro ⟨c, hc, hr⟩
        have := h.black_reach hr (hch c (mem_sedges.1 hc))
        omega
      · exact h.nb item (by omega)
    · simp only [hiw, if_false] at hwb
      exact h.nb w hwb

/-- specification of the inner loop of `HasLoop` -/
theorem hasLoopInner_spec {g : G} (hok : OutOK g) (fuel : Nat) :
    ∀ (stack st : List Nat), DInv g stack st → HInv g stack st → mu g stack st ≤ fuel →
      match hasLoopInner g fuel stack st with
      | none => Cyclic (sedges g)
      | some st' => DInv g [] st' ∧ HInv g [] st' ∧ (∀ x ∈ stack, statusAt st' x = 2) ∧
          (∀ x, statusAt st x = 2 → statusAt st' x = 2) := by
  induction fuel with
  | zero =>
    intro stack st hd hh hmu
    have : stack = [] := by
      cases stack with
      | nil => rfl
      | cons a l => simp [mu] at hmu
    subst this
    rw [hasLoopInner_zero]
    exact ⟨hd, hh, by simp, fun x hx => hx⟩
  | succ fuel ih =>
    intro stack st hd hh hmu
    cases stack with
    | nil =>
      rw [hasLoopInner_nil]
      exact ⟨hd, hh, by simp, fun x hx => hx⟩
    | cons item rest =>
      rw [hasLoopInner_succ]
      have hi : item < g.length := hd.stk item (by simp)
      by_cases hw : statusAt st item = 0
      · rw [if_pos hw]
        by_cases hgc : ∃ c ∈ outs g item, statusAt (st.set item 1) c = 1
        · rw [scan_grey _ _ _ hgc]
          obtain ⟨c, hc, hc1⟩ := hgc
          exact hd.back_edge hc hc1
        · have hng : ∀ c ∈ outs g item, statusAt (st.set item 1) c ≠ 1 :=
            fun c hc h1 => hgc ⟨c, hc, h1⟩
          rw [scan_some _ _ _ hng]
          dsimp only
          have hd' := hd.push hok
          have hh' := hh.push hd hw hng
          have hmu' := mu_push g item rest st hi hd.len hw
          have := ih _ _ hd' hh' (by omega)
          revert this
          cases hasLoopInner g fuel (whites (st.set item 1) (outs g item) ++ item :: rest)
              (st.set item 1) with
          | none => exact fun h => h
          | some st' =>
            rintro ⟨h1, h2, h3, h4⟩
            refine ⟨h1, h2, ?_, ?_⟩
            · intro x hx
              exact h3 x (by simp only [List.mem_append]; exact Or.inr hx)
            · intro x hx
              apply h4
              rw [st1_eq hd]
              split
              · rename_i e; subst e; omega
              · exact hx
      · rw [if_neg hw]
        have hd' := hd.pop hw
        have hh' := hh.pop hd hw
        have hmu' := mu_pop g item rest st hw
        have := ih _ _ hd' hh' (by omega)
        revert this
        cases hasLoopInner g fuel rest (st.set item 2) with
        | none => exact fun h => h
        | some st' =>
          rintro ⟨h1, h2, h3, h4⟩
          refine ⟨h1, h2, ?_, ?_⟩
          · intro x hx
            simp only [List.mem_cons] at hx
            rcases hx with rfl | hx
            · apply h4
              rw [st2_eq hd]; simp
            · exact h3 x hx
          · intro x hx
            apply h4
            rw [st2_eq hd]
            split
            · rfl
            · exact hx

theorem hasLoopOuter_spec {g : G} (hok : OutOK g) (idxs : List Nat) :
    ∀ st : List Nat, (∀ i ∈ idxs, i < g.length) → DInv g [] st → HInv g [] st →
      (hasLoopOuter g idxs st = true → Cyclic (sedges g)) ∧
      (hasLoopOuter g idxs st = false →
        ∀ x, (statusAt st x = 2 ∨ x ∈ idxs) → ¬ ReachPlus (sedges g) x x) := by
  induction idxs with
  | nil =>
    intro st _ _ hh
    refine ⟨by simp [hasLoopOuter], ?_⟩
    intro _ x hx
    rcases hx with hx | hx
    · exact hh.nb x hx
    · simp at hx
  | cons index more ih =>
    intro st hlt hd hh
    have hmore : ∀ i ∈ more, i < g.length := fun i hi => hlt i (by simp [hi])
    unfold hasLoopOuter
    by_cases hs : statusAt st index > 1
    · rw [if_pos hs]
      obtain ⟨ih1, ih2⟩ := ih st hmore hd hh
      refine ⟨ih1, ?_⟩
      intro hf x hx
      apply ih2 hf
      rcases hx with hx | hx
      · exact Or.inl hx
      · simp only [List.mem_cons] at hx
        rcases hx with rfl | hx
        · left; have := hd.le2 x; omega
        · exact Or.inr hx
    · rw [if_neg hs]
      have hi : index < g.length := hlt index (by simp)
      have := hasLoopInner_spec hok (dfsFuel g) [index] st (hd.start index hi)
        (hh.start hd index) (mu_single_le g st index)
      revert this
      cases hasLoopInner g (dfsFuel g) [index] st with
      | none => intro h; exact ⟨fun _ => h, by simp⟩
      | some st' =>
        rintro ⟨h1, h2, h3, h4⟩
        obtain ⟨ih1, ih2⟩ := ih st' hmore h1 h2
        refine ⟨ih1, ?_⟩
        intro hf x hx
        apply ih2 hf
        rcases hx with hx | hx
        · exact Or.inl (h4 x hx)
        · simp only [List.mem_cons] at hx
          rcases hx with rfl | hx
          · exact Or.inl (h3 x (by simp))
          · exact Or.inr hx

/-- `HasLoop` decides cyclicity of the slot-level digraph -/
theorem hasLoop_slot {g : G} (hok : OutOK g) : hasLoop g = true ↔ Cyclic (sedges g) := by
  obtain ⟨h1, h2⟩ := hasLoopOuter_spec hok (List.range g.length) (List.replicate g.length 0)
    (by simp) (DInv.init g) (HInv.init g)
  constructor
  · exact h1
  · intro hc
    cases hf : hasLoop g with
    | true => rfl
    | false =>
      exfalso
      obtain ⟨v, hv⟩ := hc
      have hvl : v < g.length := by
        obtain ⟨c, hc, _⟩ := hv
        exact lt_of_mem_outs (mem_sedges.1 hc)
      exact h2 hf v (Or.inr (by simp [hvl])) hv

/-- **A.** `HasLoop` returns `true` exactly when the represented digraph has a cycle. -/
theorem DFS.hasLoop_spec (g : G) (h : Inv g) : hasLoop g = true ↔ Cyclic (edges g) := by
  rw [hasLoop_slot h.outOK, cyclic_uid_iff h]

/-! ## §6 `internalOrder` -/

theorem orderInner_zero (g : G) (stack st out : List Nat) : orderInner g 0 stack st out = (st, out) := by
  cases stack <;> rfl

theorem orderInner_nil (g : G) (fuel : Nat) (st out : List Nat) :
    orderInner g fuel [] st out = (st, out) := by
  cases fuel <;> rfl

theorem orderInner_succ (g : G) (fuel item : Nat) (rest st out : List Nat) :
    orderInner g (fuel + 1) (item :: rest) st out =
      if statusAt st item = 0 then
        orderInner g fuel (whites (st.set item 1) (outs g item) ++ item :: rest) (st.set item 1) out
      else if statusAt st item ≠ 2 then orderInner g fuel rest (st.set item 2) (item :: out)
      else orderInner g fuel rest st out := by
  rw [← push_fold]
  rfl

/-- the part of the invariant behind Kosaraju's algorithm: a finished vertex `w` that reaches a
grey vertex `x` is a descendant of `x`, or reaches a grey vertex deeper in the stack -/
structure KInv (g : G) (stack st : List Nat) : Prop where
  k2 : ∀ w x, statusAt st w = 2 → statusAt st x = 1 → Reach (sedges g) w x →
    Reach (sedges g) x w ∨ ∃ y, statusAt st y = 1 ∧ x ∈ above y stack ∧ Reach (sedges g) w y

theorem KInv.of_no_grey {g : G} {stack st : List Nat} (h : ∀ x, statusAt st x ≠ 1) :
    KInv g stack st :=
  ⟨fun _ x _ hx => absurd hx (h x)⟩

theorem KInv.push {g : G} {item : Nat} {rest st : List Nat} (hd : DInv g (item :: rest) st)
    (h : KInv g (item :: rest) st) (hw : statusAt st item = 0) :
    KInv g (whites (st.set item 1) (outs g item) ++ item :: rest) (st.set item 1) := by
  have e1 := st1_eq hd
  constructor
  intro w x hwb hxg hr
  have hwb' : statusAt st w = 2 ∧ item ≠ w := by
    rw [e1] at hwb
    by_cases hiw : item = w
    · simp [hiw] at hwb
    · simp only [hiw, if_false] at hwb; exact ⟨hwb, hiw⟩
  have grey_lift : ∀ y, statusAt st y = 1 → statusAt (st.set item 1) y = 1 ∧ item ≠ y := by
    intro y hy
    have : item ≠ y := by intro e; subst e; omega
    rw [e1]; simp [this, hy]
  by_cases hix : item = x
  · subst hix
    obtain ⟨y, hy, hry⟩ := hd.black_white hr hwb'.1 hw
    obtain ⟨hy1, hiy⟩ := grey_lift y hy
    refine Or.inr ⟨y, hy1, ?_, hry⟩
    rw [above_append _ _ (grey_notMem_whites _ hy1), above_cons_ne _ hiy]
    simp
  · have hxg' : statusAt st x = 1 := by
      rw [e1] at hxg; simpa only [hix, if_false] using hxg
    rcases h.k2 w x hwb'.1 hxg' hr with hl | ⟨y, hy, hxa, hry⟩
    · exact Or.inl hl
    · obtain ⟨hy1, hiy⟩ := grey_lift y hy
      refine Or.inr ⟨y, hy1, ?_, hry⟩
      rw [above_append _ _ (grey_notMem_whites _ hy1)]
      simp only [List.mem_append]
      exact Or.inr hxa

theorem KInv.pop {g : G} {item : Nat} {rest st : List Nat} (hd : DInv g (item :: rest) st)
    (h : KInv g (item :: rest) st) (hw : statusAt st item ≠ 0) :
    KInv g rest (st.set item 2) := by
  have e2 := st2_eq hd
  have hle := hd.le2 item
  constructor
  intro w x hwb hxg hr
  have hxg' : statusAt st x = 1 ∧ item ≠ x := by
    rw [e2] at hxg
    by_cases hix : item = x
    · simp [hix] at hxg
    · simp only [hix, if_false] at hxg; exact ⟨hxg, hix⟩
  by_cases hwo : statusAt st w = 2
  · rcases h.k2 w x hwo hxg'.1 hr with hl | ⟨y, hy, hxa, hry⟩
    · exact Or.inl hl
    · have hiy : item ≠ y := by
        intro e; subst e; simp [above_cons_self] at hxa
      refine Or.inr ⟨y, ?_, ?_, hry⟩
      · rw [e2]; simp [hiy, hy]
      · rw [above_cons_ne _ hiy] at hxa
        simp only [List.mem_cons] at hxa
        rcases hxa with rfl | hxa
        · exact absurd rfl hxg'.2
        · exact hxa
  · have hiw : item = w := by
      apply Classical.byContradiction
      intro hne
      rw [e2] at hwb
      simp only [hne, if_false] at hwb
      exact hwo hwb
    subst hiw
    left
    apply hd.reach x hxg'.1
    rw [above_cons_ne _ hxg'.2]
    simp

/-- finishing order (head = finished last) of a DFS of an arbitrary digraph: whatever reaches `r`
is reached back from `r`, or reaches a vertex that finishes after `r` -/
def KOrd (g : G) : List Nat → Prop
  | [] => True
  | r :: l => (∀ w, Reach (sedges g) w r →
      Reach (sedges g) r w ∨ ∃ v, Reach (sedges g) w v ∧ v ∉ r :: l) ∧ KOrd g l

/-- finishing order of an acyclic digraph: every successor finished earlier -/
def FinOrd (g : G) : List Nat → Prop
  | [] => True
  | u :: l => (∀ c ∈ outs g u, c ∈ l) ∧ FinOrd g l

/-- the output list of `InternalOrder` (head = finished last) against the status vector -/
structure OInv (g : G) (stack st out : List Nat) : Prop where
  nodup : out.Nodup
  mem : ∀ i, i ∈ out ↔ statusAt st i = 2
  valid : ∀ i, statusAt st i ≠ 0 → (vx g i).valid = true
  svalid : ∀ x ∈ stack, (vx g x).valid = true
  kord : KOrd g out
  acyc : ¬ Cyclic (sedges g) → HInv g stack st ∧ FinOrd g out

theorem OInv.init (g : G) : OInv g [] (List.replicate g.length 0) [] := by
  refine ⟨by simp, ?_, ?_, by simp, trivial, fun _ => ⟨HInv.init g, trivial⟩⟩ <;>
    intro i <;> simp [statusAt_replicate]

theorem OInv.start {g : G} {st out : List Nat} (hd : DInv g [] st) (h : OInv g [] st out) (i : Nat)
    (hv : (vx g i).valid = true) : OInv g [i] st out :=
  ⟨h.nodup, h.mem, h.valid, by simpa using hv, h.kord,
    fun hc => ⟨(h.acyc hc).1.start hd i, (h.acyc hc).2⟩⟩

theorem OInv.push {g : G} (hg : Inv g) {item : Nat} {rest st out : List Nat}
    (hd : DInv g (item :: rest) st) (h : OInv g (item :: rest) st out) (hw : statusAt st item = 0) :
    OInv g (whites (st.set item 1) (outs g item) ++ item :: rest) (st.set item 1) out := by
  have e1 := st1_eq hd
  refine ⟨h.nodup, ?_, ?_, ?_, h.kord, ?_⟩
  · intro i
    rw [h.mem i, e1]
    by_cases hii : item = i
    · subst hii; simp [hw]
    · simp [hii]
  · intro i hi
    rw [e1] at hi
    by_cases hii : item = i
    · subst hii; exact h.svalid item (by simp)
    · simp only [hii, if_false] at hi; exact h.valid i hi
  · intro x hx
    simp only [List.mem_append] at hx
    rcases hx with hx | hx
    · exact (live_of_mem_outs hg (mem_whites.1 hx).1).2.2
    · exact h.svalid x hx
  · intro hc
    obtain ⟨hh, hf⟩ := h.acyc hc
    refine ⟨hh.push hd hw ?_, hf⟩
    intro c hcm hc1
    exact hc (hd.back_edge hcm hc1)

theorem OInv.pop_black {g : G} {item : Nat} {rest st out : List Nat}
    (hd : DInv g (item :: rest) st) (h : OInv g (item :: rest) st out) (hb : statusAt st item = 2) :
    OInv g rest (st.set item 2) out := by
  have hi : item < st.length := by rw [hd.len]; exact hd.stk item (by simp)
  have hs : st.set item 2 = st := set_same st item 2 hb hi
  refine ⟨h.nodup, ?_, ?_, fun x hx => h.svalid x (by simp [hx]), h.kord, ?_⟩
  · rw [hs]; exact h.mem
  · rw [hs]; exact h.valid
  · intro hc
    exact ⟨(h.acyc hc).1.pop hd (by omega), (h.acyc hc).2⟩

theorem OInv.pop_grey {g : G} {item : Nat} {rest st out : List Nat}
    (hd : DInv g (item :: rest) st) (hk : KInv g (item :: rest) st)
    (h : OInv g (item :: rest) st out) (hb : statusAt st item = 1) :
    OInv g rest (st.set item 2) (item :: out) := by
  have e2 := st2_eq hd
  have hio : item ∉ out := by
    intro hm; have := (h.mem item).1 hm; omega
  refine ⟨List.nodup_cons.2 ⟨hio, h.nodup⟩, ?_, ?_, fun x hx => h.svalid x (by simp [hx]), ?_, ?_⟩
  · intro i
    rw [e2, List.mem_cons, h.mem i]
    by_cases hii : item = i
    · subst hii; simp
    · simp [hii, Ne.symm hii]
  · intro i hi
    rw [e2] at hi
    by_cases hii : item = i
    · subst hii; exact h.svalid item (by simp)
    · simp only [hii, if_false] at hi; exact h.valid i hi
  · refine ⟨?_, h.kord⟩
    intro w hr
    by_cases hwb : statusAt st w = 2
    · rcases hk.k2 w item hwb hb hr with hl | ⟨y, hy, hya, hry⟩
      · exact Or.inl hl
      · refine Or.inr ⟨y, hry, ?_⟩
        have hiy : y ≠ item := by
          intro e; subst e; simp [above_cons_self] at hya
        simp only [List.mem_cons, not_or]
        refine ⟨hiy, ?_⟩
        intro hm; have := (h.mem y).1 hm; omega
    · by_cases hwi : w = item
      · subst hwi; exact Or.inl (Reach.refl _)
      · refine Or.inr ⟨w, Reach.refl _, ?_⟩
        simp only [List.mem_cons, not_or]
        exact ⟨hwi, fun hm => hwb ((h.mem w).1 hm)⟩
  · intro hc
    obtain ⟨hh, hf⟩ := h.acyc hc
    refine ⟨hh.pop hd (by omega), ?_, hf⟩
    intro c hcm
    rcases hh.gc item hb c hcm with hcb | hca
    · exact (h.mem c).2 hcb
    · simp [above_cons_self] at hca

/-- specification of the inner loop of `InternalOrder` -/
theorem orderInner_spec {g : G} (hg : Inv g) (fuel : Nat) :
    ∀ (stack st out : List Nat), DInv g stack st → KInv g stack st → OInv g stack st out →
      mu g stack st ≤ fuel →
      DInv g [] (orderInner g fuel stack st out).1 ∧
      OInv g [] (orderInner g fuel stack st out).1 (orderInner g fuel stack st out).2 ∧
      (∀ x ∈ stack, statusAt (orderInner g fuel stack st out).1 x = 2) ∧
      (∀ x, statusAt st x = 2 → statusAt (orderInner g fuel stack st out).1 x = 2) := by
  induction fuel with
  | zero =>
    intro stack st out hd hk ho hmu
    have : stack = [] := by
      cases stack with
      | nil => rfl
      | cons a l => simp [mu] at hmu
    subst this
    rw [orderInner_zero]
    exact ⟨hd, ho, by simp, fun x hx => hx⟩
  | succ fuel ih =>
    intro stack st out hd hk ho hmu
    cases stack with
    | nil =>
      rw [orderInner_nil]
      exact ⟨hd, ho, by simp, fun x hx => hx⟩
    | cons item rest =>
      rw [orderInner_succ]
      have hi : item < g.length := hd.stk item (by simp)
      by_cases hw : statusAt st item = 0
      · rw [if_pos hw]
        have hmu' := mu_push g item rest st hi hd.len hw
        obtain ⟨h1, h2, h3, h4⟩ := ih _ _ out (hd.push hg.outOK) (hk.push hd hw)
          (ho.push hg hd hw) (by omega)
        refine ⟨h1, h2, ?_, ?_⟩
        · intro x hx
          exact h3 x (by simp only [List.mem_append]; exact Or.inr hx)
        · intro x hx
          apply h4
          rw [st1_eq hd]
          split
          · rename_i e; subst e; omega
          · exact hx
      · rw [if_neg hw]
        have hmu' := mu_pop g item rest st hw
        have hmono : ∀ x, statusAt st x = 2 → statusAt (st.set item 2) x = 2 := by
          intro x hx
          rw [st2_eq hd]
          split
          · rfl
          · exact hx
        by_cases hb : statusAt st item = 2
        · rw [if_neg (by simp [hb])]
          have hs : st.set item 2 = st := set_same st item 2 hb (by rw [hd.len]; exact hi)
          have := ih rest (st.set item 2) out (hd.pop hw) (hk.pop hd hw) (ho.pop_black hd hb)
            (by omega)
          rw [hs] at this
          obtain ⟨h1, h2, h3, h4⟩ := this
          refine ⟨h1, h2, ?_, h4⟩
          intro x hx
          simp only [List.mem_cons] at hx
          rcases hx with rfl | hx
          · exact h4 x hb
          · exact h3 x hx
        · rw [if_pos hb]
          have hle := hd.le2 item
          obtain ⟨h1, h2, h3, h4⟩ := ih rest (st.set item 2) (item :: out) (hd.pop hw)
            (hk.pop hd hw) (ho.pop_grey hd hk (by omega)) (by omega)
          refine ⟨h1, h2, ?_, fun x hx => h4 x (hmono x hx)⟩
          intro x hx
          simp only [List.mem_cons] at hx
          rcases hx with rfl | hx
          · apply h4
            rw [st2_eq hd]; simp
          · exact h3 x hx

theorem orderOuter_spec {g : G} (hg : Inv g) (idxs : List Nat) :
    ∀ st out : List Nat, (∀ i ∈ idxs, i < g.length) → DInv g [] st → OInv g [] st out →
      ∃ st' out', orderOuter g idxs st out = out'.reverse ∧ DInv g [] st' ∧ OInv g [] st' out' ∧
        (∀ x, statusAt st x = 2 → statusAt st' x = 2) ∧
        (∀ i ∈ idxs, (vx g i).valid = true → statusAt st' i = 2) := by
  induction idxs with
  | nil =>
    intro st out _ hd ho
    exact ⟨st, out, rfl, hd, ho, fun x hx => hx, by simp⟩
  | cons index more ih =>
    intro st out hlt hd ho
    have hmore : ∀ i ∈ more, i < g.length := fun i hi => hlt i (by simp [hi])
    have hi : index < g.length := hlt index (by simp)
    unfold orderOuter
    by_cases hs : (statusAt st index ≠ 0 || !(vx g index).valid) = true
    · rw [if_pos hs]
      obtain ⟨st', out', h1, h2, h3, h4, h5⟩ := ih st out hmore hd ho
      refine ⟨st', out', h1, h2, h3, h4, ?_⟩
      intro i him hv
      simp only [List.mem_cons] at him
      rcases him with rfl | him
      · apply h4
        simp [hv] at hs
        have := hd.le2 i
        have := hd.no_grey i
        omega
      · exact h5 i him hv
    · rw [if_neg hs]
      simp at hs
      obtain ⟨j1, j2, j3, j4⟩ := orderInner_spec hg (dfsFuel g) [index] st out (hd.start index hi)
        (KInv.of_no_grey hd.no_grey) (ho.start hd index hs.2) (mu_single_le g st index)
      obtain ⟨st', out', h1, h2, h3, h4, h5⟩ := ih _ _ hmore j1 j2
      refine ⟨st', out', h1, h2, h3, fun x hx => h4 x (j4 x hx), ?_⟩
      intro i him hv
      simp only [List.mem_cons] at him
      rcases him with rfl | him
      · exact h4 i (j3 i (by simp))
      · exact h5 i him hv

/-- summary of `InternalOrder`: the reversed output (head = finished last) -/
theorem internalOrder_facts {g : G} (hg : Inv g) :
    (internalOrder g).reverse.Nodup ∧ (∀ i, i ∈ (internalOrder g).reverse ↔ live g i) ∧
    KOrd g (internalOrder g).reverse ∧
    (¬ Cyclic (sedges g) → FinOrd g (internalOrder g).reverse) := by
  obtain ⟨st', out', h1, h2, h3, _, h5⟩ := orderOuter_spec hg (List.range g.length)
    (List.replicate g.length 0) [] (by simp) (DInv.init g) (OInv.init g)
  have : internalOrder g = out'.reverse := h1
  rw [this, List.reverse_reverse]
  refine ⟨h3.nodup, ?_, h3.kord, fun hc => (h3.acyc hc).2⟩
  intro i
  rw [h3.mem i]
  constructor
  · intro hb
    refine ⟨?_, h3.valid i (by omega)⟩
    apply Classical.byContradiction
    intro hn
    rw [statusAt_of_ge st' i (by rw [h2.len]; omega)] at hb
    omega
  · intro hl
    exact h5 i (by simp [hl.1]) hl.2

theorem nodup_reverse_iff {l : List Nat} : l.reverse.Nodup ↔ l.Nodup := by
  simp only [List.nodup_iff_pairwise_ne, List.pairwise_reverse]
  constructor <;> intro h <;> exact h.imp (fun hab => Ne.symm hab)

/-- **B1.** `InternalOrder` enumerates the live slots without repetition -/
theorem internalOrder_nodup {g : G} (hg : Inv g) : (internalOrder g).Nodup :=
  nodup_reverse_iff.1 (internalOrder_facts hg).1

theorem mem_internalOrder {g : G} (hg : Inv g) (i : Nat) :
    i ∈ internalOrder g ↔ i < g.length ∧ (vx g i).valid = true := by
  rw [← List.mem_reverse]
  exact (internalOrder_facts hg).2.1 i

theorem topologicalOrder_eq (g : G) :
    topologicalOrder g = (internalOrder g).reverse.map (uidOf g) := by
  unfold topologicalOrder inverseTopologicalOrder
  rw [List.map_reverse]
  rfl

theorem map_vx_range (g : G) : (List.range g.length).map (vx g) = g := by
  apply List.ext_getElem
  · simp
  · intro i h1 h2
    simp at h1
    simp [vx_of_lt g i h1]

theorem liveUids_eq (g : G) :
    liveUids g = ((List.range g.length).filter (fun i => (vx g i).valid)).map (uidOf g) := by
  unfold liveUids
  conv => lhs; rw [← map_vx_range g]
  rw [List.filter_map, List.map_map]
  rfl

/-- **B2.** `TopologicalOrder` is a permutation of the live uids -/
theorem topologicalOrder_perm {g : G} (hg : Inv g) : (topologicalOrder g).Perm (liveUids g) := by
  rw [topologicalOrder_eq, liveUids_eq]
  apply List.Perm.map
  rw [List.perm_ext_iff_of_nodup (internalOrder_facts hg).1
    (List.Nodup.sublist List.filter_sublist List.nodup_range)]
  intro i
  rw [(internalOrder_facts hg).2.1 i]
  simp [live]

theorem FinOrd.mem_of_edge {g : G} {l : List Nat} (hf : FinOrd g l) {i j : Nat} (hi : i ∈ l)
    (hj : j ∈ outs g i) : j ∈ l := by
  induction l with
  | nil => simp at hi
  | cons u l ih =>
    obtain ⟨h1, h2⟩ := hf
    simp only [List.mem_cons] at hi
    rcases hi with rfl | hi
    · exact List.mem_cons_of_mem _ (h1 j hj)
    · exact List.mem_cons_of_mem _ (ih h2 hi)

theorem idxOf_cons_nat (a u : Nat) (l : List Nat) :
    (u :: l).idxOf a = if u = a then 0 else l.idxOf a + 1 := by
  rw [List.idxOf_cons]
  by_cases h : u = a
  · simp [h]
  · have : (u == a) = false := by simpa using h
    simp [h, this]

theorem FinOrd.idxOf_lt {g : G} {l : List Nat} (hn : l.Nodup) (hf : FinOrd g l) {i j : Nat}
    (hi : i ∈ l) (hj : j ∈ outs g i) : l.idxOf i < l.idxOf j := by
  induction l with
  | nil => simp at hi
  | cons u l ih =>
    obtain ⟨h1, h2⟩ := hf
    obtain ⟨hu, hn'⟩ := List.nodup_cons.1 hn
    simp only [List.mem_cons] at hi
    rw [idxOf_cons_nat, idxOf_cons_nat]
    rcases hi with rfl | hi
    · have hjl := h1 j hj
      have : i ≠ j := fun e => hu (e ▸ hjl)
      simp [this]
    · have hjl := h2.mem_of_edge hi hj
      have h3 : u ≠ i := fun e => hu (e ▸ hi)
      have h4 : u ≠ j := fun e => hu (e ▸ hjl)
      have := ih hn' h2 hi
      simp [h3, h4, this]

theorem idxOf_map_inj (f : Nat → Nat) (l : List Nat) (i : Nat) (h : ∀ x ∈ l, f x = f i → x = i) :
    (l.map f).idxOf (f i) = l.idxOf i := by
  induction l with
  | nil => rfl
  | cons u l ih =>
    rw [List.map_cons, idxOf_cons_nat, idxOf_cons_nat]
    have ih' := ih (fun x hx => h x (by simp [hx]))
    by_cases hu : u = i
    · simp [hu]
    · have : f u ≠ f i := fun e => hu (h u (by simp) e)
      simp [hu, this, ih']

/-- **B3.** in an acyclic graph every edge goes forward in `TopologicalOrder` -/
theorem topologicalOrder_edge {g : G} (hg : Inv g) (hac : ¬ Cyclic (edges g)) (a b : Nat)
    (he : (a, b) ∈ edges g) :
    (topologicalOrder g).idxOf a < (topologicalOrder g).idxOf b := by
  obtain ⟨hn, hm, _, hf⟩ := internalOrder_facts hg
  have hf := hf (fun hc => hac ((cyclic_uid_iff hg).2 hc))
  obtain ⟨i, j, hj, rfl, rfl⟩ := mem_edges.1 he
  obtain ⟨hli, hlj⟩ := live_of_mem_outs hg hj
  rw [topologicalOrder_eq]
  have inj : ∀ k, live g k → ∀ x ∈ (internalOrder g).reverse, uidOf g x = uidOf g k → x = k :=
    fun k hk x hx e => uid_inj hg ((hm x).1 hx) hk e
  rw [idxOf_map_inj _ _ i (inj i hli), idxOf_map_inj _ _ j (inj j hlj)]
  exact hf.idxOf_lt hn ((hm i).2 hli) hj

/-- **B.** per-graph form of `topologicalOrder_statement` -/
theorem DFS.topologicalOrder_spec (g : G) (h : Inv g) :
    (topologicalOrder g).Perm (liveUids g) ∧
    (¬ Cyclic (edges g) → ∀ a b, (a, b) ∈ edges g →
      (topologicalOrder g).idxOf a < (topologicalOrder g).idxOf b) :=
  ⟨topologicalOrder_perm h, fun hac a b he => topologicalOrder_edge h hac a b he⟩

/-! ## §7 `getAllLoopsItems` — second pass of Kosaraju's algorithm -/

/-- `marked[i]` -/
def isM (m : List Bool) (i : Nat) : Bool := m.getD i false
/-- number of unmarked slots -/
def unm (m : List Bool) : Nat := m.count false

theorem isM_setAt (m : List Bool) (c i : Nat) :
    isM (setAt m c) i = true ↔ isM m i = true ∨ (i = c ∧ c < m.length) := by
  unfold isM setAt
  simp only [List.getD_eq_getElem?_getD, List.getElem?_set]
  by_cases hci : c = i
  · subst hci
    by_cases hl : c < m.length
    · simp [hl]
    · simp [hl]
  · have : ¬ i = c := fun e => hci e.symm
    simp [hci, this]

theorem isM_lt {m : List Bool} {i : Nat} (h : isM m i = true) : i < m.length := by
  apply Classical.byContradiction
  intro hn
  unfold isM at h
  simp [List.getD_eq_getElem?_getD, List.getElem?_eq_none (Nat.le_of_not_lt hn)] at h

theorem length_setAt (m : List Bool) (c : Nat) : (setAt m c).length = m.length := by
  simp [setAt]

theorem unm_setAt (m : List Bool) (c : Nat) (hl : c < m.length) (hc : isM m c = false) :
    unm (setAt m c) + 1 = unm m := by
  induction m generalizing c with
  | nil => simp at hl
  | cons b m ih =>
    cases c with
    | zero =>
      have : b = false := by simpa [isM] using hc
      subst this
      simp [unm, setAt]
    | succ c =>
      have hl' : c < m.length := by simpa using hl
      have hc' : isM m c = false := by simpa [isM] using hc
      have := ih c hl' hc'
      simp only [unm, setAt, List.set_cons_succ, List.count_cons] at this ⊢
      omega

theorem unm_le (m : List Bool) : unm m ≤ m.length := List.count_le_length

theorem isM_replicate (n i : Nat) : isM (List.replicate n false) i = false := by
  unfold isM
  simp only [List.getD_eq_getElem?_getD, List.getElem?_replicate]
  split <;> simp

/-- the child scan of the component search -/
def markF (sm : List Nat × List Bool) (child : Nat) : List Nat × List Bool :=
  if isM sm.2 child then sm else (child :: sm.1, setAt sm.2 child)

theorem markFold_spec (cs : List Nat) :
    ∀ (rest : List Nat) (m : List Bool), (∀ c ∈ cs, c < m.length) →
      ∃ new, (cs.foldl markF (rest, m)).1 = new ++ rest ∧ new.Nodup ∧
        (∀ i, i ∈ new ↔ i ∈ cs ∧ isM m i = false) ∧
        (cs.foldl markF (rest, m)).2.length = m.length ∧
        (∀ i, isM (cs.foldl markF (rest, m)).2 i = true ↔ isM m i = true ∨ i ∈ new) ∧
        unm (cs.foldl markF (rest, m)).2 + new.length = unm m := by
  induction cs with
  | nil =>
    intro rest m _
    exact ⟨[], by simp⟩
  | cons c cs ih =>
    intro rest m hlt
    have hc : c < m.length := hlt c (by simp)
    have hcs : ∀ c ∈ cs, c < m.length := fun x hx => hlt x (by simp [hx])
    simp only [List.foldl_cons]
    by_cases hm : isM m c = true
    · have : markF (rest, m) c = (rest, m) := by
        simp only [markF]; rw [if_pos hm]
      rw [this]
      obtain ⟨new, h1, h2, h3, h4, h5, h6⟩ := ih rest m hcs
      refine ⟨new, h1, h2, ?_, h4, h5, h6⟩
      intro i
      rw [h3 i]
      constructor
      · rintro ⟨hi, hmi⟩
        exact ⟨by simp [hi], hmi⟩
      · rintro ⟨hi, hmi⟩
        simp only [List.mem_cons] at hi
        rcases hi with rfl | hi
        · rw [hm] at hmi; exact absurd hmi (by simp)
        · exact ⟨hi, hmi⟩
    · have hm' : isM m c = false := by simpa using hm
      have : markF (rest, m) c = (c :: rest, setAt m c) := by
        simp only [markF]; rw [if_neg hm]
      rw [this]
      obtain ⟨new, h1, h2, h3, h4, h5, h6⟩ := ih (c :: rest) (setAt m c)
        (by rw [length_setAt]; exact hcs)
      have hcn : c ∉ new := by
        intro hcm
        have := ((h3 c).1 hcm).2
        have h7 : isM (setAt m c) c = true := (isM_setAt m c c).2 (Or.inr ⟨rfl, hc⟩)
        rw [h7] at this
        exact absurd this (by simp)
      refine ⟨new ++ [c], ?_, ?_, ?_, ?_, ?_, ?_⟩
      · rw [h1]; simp
      · rw [List.nodup_append]
        refine ⟨h2, by simp, ?_⟩
        intro a ha b hb
        simp only [List.mem_singleton] at hb
        subst hb
        intro e; subst e; exact hcn ha
      · intro i
        rw [List.mem_append, List.mem_singleton, List.mem_cons, h3 i]
        constructor
        · rintro (⟨hi, hmi⟩ | rfl)
          · refine ⟨Or.inr hi, ?_⟩
            cases hmm : isM m i with
            | false => rfl
            | true =>
              have := (isM_setAt m c i).2 (Or.inl hmm)
              rw [this] at hmi; exact absurd hmi (by simp)
          · exact ⟨Or.inl rfl, hm'⟩
        · rintro ⟨hi, hmi⟩
          by_cases hic : i = c
          · exact Or.inr hic
          · left
            refine ⟨hi.resolve_left hic, ?_⟩
            cases hmm : isM (setAt m c) i with
            | false => rfl
            | true =>
              rcases (isM_setAt m c i).1 hmm with h | h
              · rw [h] at hmi; exact absurd hmi (by simp)
              · exact absurd h.1 hic
      · rw [h4, length_setAt]
      · intro i
        rw [h5 i, isM_setAt]
        simp only [List.mem_append, List.mem_singleton]
        constructor
        · rintro ((h | h) | h)
          · exact Or.inl h
          · exact Or.inr (Or.inr h.1)
          · exact Or.inr (Or.inl h)
        · rintro (h | h | h)
          · exact Or.inl (Or.inl h)
          · exact Or.inr h
          · exact Or.inl (Or.inr ⟨h, h ▸ hc⟩)
      · have := unm_setAt m c hc hm'
        simp only [List.length_append, List.length_singleton]
        omega

theorem componentLoop_zero (g : G) (stack : List Nat) (m : List Bool) (comp : List Nat) :
    componentLoop g (fun v => v.inputs) 0 stack m comp = (comp.reverse, m) := by
  cases stack <;> rfl

theorem componentLoop_nil (g : G) (fuel : Nat) (m : List Bool) (comp : List Nat) :
    componentLoop g (fun v => v.inputs) fuel [] m comp = (comp.reverse, m) := by
  cases fuel <;> rfl

theorem componentLoop_succ (g : G) (fuel item : Nat) (rest : List Nat) (m : List Bool)
    (comp : List Nat) :
    componentLoop g (fun v => v.inputs) (fuel + 1) (item :: rest) m comp =
      componentLoop g (fun v => v.inputs) fuel ((inps g item).foldl markF (rest, m)).1
        ((inps g item).foldl markF (rest, m)).2 (item :: comp) := by
  rfl

theorem mem_inps {g : G} (hg : Inv g) {p v : Nat} (hv : v < g.length) (hp : p ∈ inps g v) :
    p < g.length ∧ v ∈ outs g p := by
  have hpl := (hg.inRange v hv p hp).1
  exact ⟨hpl, (hg.sym p v hpl hv).2 hp⟩

theorem mem_inps_of_outs {g : G} (hg : Inv g) {p v : Nat} (h : v ∈ outs g p) : p ∈ inps g v := by
  have hp := lt_of_mem_outs h
  have hv := hg.outOK p v h
  exact (hg.sym p v hp hv).1 h

/-- invariant of the backward search from `r`, started with the marks `M0` -/
structure CInv (g : G) (M0 : List Bool) (r : Nat) (stack : List Nat) (m : List Bool)
    (comp : List Nat) : Prop where
  len : m.length = g.length
  snd : stack.Nodup
  cnd : comp.Nodup
  disj : ∀ x ∈ stack, x ∉ comp
  marks : ∀ i, isM m i = true ↔ isM M0 i = true ∨ i ∈ stack ∨ i ∈ comp
  fresh : ∀ i, i ∈ stack ∨ i ∈ comp → isM M0 i = false
  reach : ∀ i, i ∈ stack ∨ i ∈ comp → i < g.length ∧ Reach (sedges g) i r
  closed : ∀ v ∈ comp, ∀ p ∈ inps g v, isM m p = true
  root : r ∈ stack ∨ r ∈ comp

theorem CInv.step {g : G} (hg : Inv g) {M0 : List Bool} {r item : Nat} {rest : List Nat}
    {m : List Bool} {comp : List Nat} (h : CInv g M0 r (item :: rest) m comp) :
    CInv g M0 r ((inps g item).foldl markF (rest, m)).1 ((inps g item).foldl markF (rest, m)).2
      (item :: comp) ∧
    unm ((inps g item).foldl markF (rest, m)).2 + ((inps g item).foldl markF (rest, m)).1.length
      = unm m + rest.length := by
  have hil : item < g.length := (h.reach item (Or.inl (by simp))).1
  have hir : Reach (sedges g) item r := (h.reach item (Or.inl (by simp))).2
  obtain ⟨new, h1, h2, h3, h4, h5, h6⟩ := markFold_spec (inps g item) rest m
    (fun c hc => by rw [h.len]; exact (mem_inps hg hil hc).1)
  rw [h1]
  generalize ((inps g item).foldl markF (rest, m)).2 = m' at h4 h5 h6 ⊢
  obtain ⟨hin, hrn⟩ := List.nodup_cons.1 h.snd
  -- the new entries are unmarked, hence neither on the stack nor in the component
  have hnew : ∀ x ∈ new, x ∉ item :: rest ∧ x ∉ comp ∧ isM M0 x = false := by
    intro x hx
    have hxm := ((h3 x).1 hx).2
    have hnm : ¬ (isM M0 x = true ∨ x ∈ item :: rest ∨ x ∈ comp) := by
      rw [← h.marks x, hxm]; simp
    refine ⟨fun e => hnm (Or.inr (Or.inl e)), fun e => hnm (Or.inr (Or.inr e)), ?_⟩
    cases hh : isM M0 x with
    | false => rfl
    | true => exact absurd (Or.inl hh) hnm
  refine ⟨⟨by rw [h4, h.len], ?_, ?_, ?_, ?_, ?_, ?_, ?_, ?_⟩, ?_⟩
  · rw [List.nodup_append]
    refine ⟨h2, hrn, ?_⟩
    intro a ha b hb e
    subst e
    exact (hnew a ha).1 (by simp [hb])
  · exact List.nodup_cons.2 ⟨h.disj item (by simp), h.cnd⟩
  · intro x hx
    simp only [List.mem_append] at hx
    simp only [List.mem_cons, not_or]
    rcases hx with hx | hx
    · exact ⟨fun e => (hnew x hx).1 (by simp [e]), (hnew x hx).2.1⟩
    · exact ⟨fun e => hin (e ▸ hx), h.disj x (by simp [hx])⟩
  · intro i
    rw [h5 i, h.marks i]
    simp only [List.mem_append, List.mem_cons]
    constructor
    · rintro ((q | (q | q) | q) | q)
      · exact Or.inl q
      · exact Or.inr (Or.inr (Or.inl q))
      · exact Or.inr (Or.inl (Or.inr q))
      · exact Or.inr (Or.inr (Or.inr q))
      · exact Or.inr (Or.inl (Or.inl q))
    · rintro (q | (q | q) | (q | q))
      · exact Or.inl (Or.inl q)
      · exact Or.inr q
      · exact Or.inl (Or.inr (Or.inl (Or.inr q)))
      · exact Or.inl (Or.inr (Or.inl (Or.inl q)))
      · exact Or.inl (Or.inr (Or.inr q))
  · intro i hi
    simp only [List.mem_append, List.mem_cons] at hi
    rcases hi with (hi | hi) | hi | hi
    · exact (hnew i hi).2.2
    · exact h.fresh i (Or.inl (by simp [hi]))
    · exact h.fresh i (Or.inl (by simp [hi]))
    · exact h.fresh i (Or.inr hi)
  · intro i hi
    simp only [List.mem_append, List.mem_cons] at hi
    rcases hi with (hi | hi) | hi | hi
    · obtain ⟨hp, ho⟩ := mem_inps hg hil ((h3 i).1 hi).1
      exact ⟨hp, Reach.step (mem_sedges.2 ho) hir⟩
    · exact h.reach i (Or.inl (by simp [hi]))
    · exact h.reach i (Or.inl (by simp [hi]))
    · exact h.reach i (Or.inr hi)
  · intro v hv p hp
    rw [h5 p]
    simp only [List.mem_cons] at hv
    rcases hv with rfl | hv
    · cases hh : isM m p with
      | true => exact Or.inl rfl
      | false => exact Or.inr ((h3 p).2 ⟨hp, hh⟩)
    · exact Or.inl (h.closed v hv p hp)
  · rcases h.root with hr | hr
    · simp only [List.mem_cons] at hr
      rcases hr with hr | hr
      · exact Or.inr (by simp [hr])
      · exact Or.inl (by simp [hr])
    · exact Or.inr (by simp [hr])
  · simp only [List.length_append]
    omega

theorem componentLoop_spec {g : G} (hg : Inv g) {M0 : List Bool} {r : Nat} (fuel : Nat) :
    ∀ (stack : List Nat) (m : List Bool) (comp : List Nat), CInv g M0 r stack m comp →
      unm m + stack.length ≤ fuel →
      ∃ comp' m', componentLoop g (fun v => v.inputs) fuel stack m comp = (comp'.reverse, m') ∧
        CInv g M0 r [] m' comp' := by
  induction fuel with
  | zero =>
    intro stack m comp h hf
    have : stack = [] := by
      cases stack with
      | nil => rfl
      | cons a l => simp at hf
    subst this
    exact ⟨comp, m, componentLoop_zero g _ m comp, h⟩
  | succ fuel ih =>
    intro stack m comp h hf
    cases stack with
    | nil => exact ⟨comp, m, componentLoop_nil g _ m comp, h⟩
    | cons item rest =>
      rw [componentLoop_succ]
      obtain ⟨h1, h2⟩ := h.step hg
      apply ih _ _ _ h1
      simp only [List.length_cons] at hf
      omega

/-- backward closure along paths -/
theorem Reach.closed {E : List (Nat × Nat)} (P : Nat → Prop)
    (hstep : ∀ a b, (a, b) ∈ E → P b → P a) {a c : Nat} (hr : Reach E a c) (hc : P c) : P a := by
  induction hr with
  | refl => exact hc
  | step he _ ih => exact hstep _ _ he (ih hc)

/-- marks closed under predecessors -/
def PredClosed (g : G) (m : List Bool) : Prop :=
  ∀ i j, j ∈ outs g i → isM m j = true → isM m i = true

theorem PredClosed.reach {g : G} {m : List Bool} (h : PredClosed g m) {i j : Nat}
    (hr : Reach (sedges g) i j) (hj : isM m j = true) : isM m i = true :=
  hr.closed (fun x => isM m x = true) (fun a b he hb => h a b (mem_sedges.1 he) hb) hj

/-- result of one backward search: the unmarked vertices that reach the root -/
theorem component_result {g : G} (hg : Inv g) {M0 : List Bool} {r : Nat} (hl : M0.length = g.length)
    (hpc : PredClosed g M0) (hr : r < g.length) (hrm : isM M0 r = false) :
    ∃ comp m', componentLoop g (fun v => v.inputs) (g.length + 1) [r] (setAt M0 r) [] = (comp, m') ∧
      comp.Nodup ∧ (∀ i, i ∈ comp ↔ isM M0 i = false ∧ Reach (sedges g) i r) ∧
      m'.length = g.length ∧ (∀ i, isM m' i = true ↔ isM M0 i = true ∨ i ∈ comp) ∧
      PredClosed g m' := by
  have hinit : CInv g M0 r [r] (setAt M0 r) [] := by
    refine ⟨by rw [length_setAt, hl], by simp, by simp, by simp, ?_, ?_, ?_, by simp, by simp⟩
    · intro i
      rw [isM_setAt]
      simp only [List.mem_singleton, List.not_mem_nil, or_false]
      constructor
      · rintro (h | h)
        · exact Or.inl h
        · exact Or.inr h.1
      · rintro (h | h)
        · exact Or.inl h
        · exact Or.inr ⟨h, by rw [hl]; exact hr⟩
    · intro i hi
      simp only [List.mem_singleton, List.not_mem_nil, or_false] at hi
      subst hi; exact hrm
    · intro i hi
      simp only [List.mem_singleton, List.not_mem_nil, or_false] at hi
      subst hi; exact ⟨hr, Reach.refl _⟩
  have hfuel : unm (setAt M0 r) + [r].length ≤ g.length + 1 := by
    have := unm_setAt M0 r (by rw [hl]; exact hr) hrm
    have := unm_le M0
    simp only [List.length_singleton]
    omega
  obtain ⟨comp', m', h1, h2⟩ := componentLoop_spec hg (g.length + 1) [r] (setAt M0 r) [] hinit hfuel
  have hmarks : ∀ i, isM m' i = true ↔ isM M0 i = true ∨ i ∈ comp' := by
    intro i; rw [h2.marks i]; simp
  have hpc' : PredClosed g m' := by
    intro i j hj hm
    rcases (hmarks j).1 hm with hm0 | hjc
    · exact (hmarks i).2 (Or.inl (hpc i j hj hm0))
    · exact h2.closed j hjc i (mem_inps_of_outs hg hj)
  have hroot : r ∈ comp' := by simpa using h2.root
  refine ⟨comp'.reverse, m', h1, nodup_reverse_iff.2 h2.cnd, ?_, h2.len, ?_, hpc'⟩
  · intro i
    rw [List.mem_reverse]
    constructor
    · intro hi
      exact ⟨h2.fresh i (Or.inr hi), (h2.reach i (Or.inr hi)).2⟩
    · rintro ⟨hi0, hir⟩
      have : isM m' i = true := hpc'.reach hir ((hmarks r).2 (Or.inr hroot))
      rcases (hmarks i).1 this with h | h
      · rw [hi0] at h; exact absurd h (by simp)
      · exact h
  · intro i
    rw [hmarks i, List.mem_reverse]

theorem groupsGen_nil (g : G) (m : List Bool) (res : List (List Nat)) :
    groupsGen g (fun v => v.inputs) [] m res = res.reverse := rfl

theorem groupsGen_cons (g : G) (index : Nat) (more : List Nat) (m : List Bool)
    (res : List (List Nat)) :
    groupsGen g (fun v => v.inputs) (index :: more) m res =
      if isM m index = true then groupsGen g (fun v => v.inputs) more m res
      else if ((componentLoop g (fun v => v.inputs) (g.length + 1) [index] (setAt m index) []).1.length ≠ 1
          || hasEdge g index index) = true then
        groupsGen g (fun v => v.inputs) more
          (componentLoop g (fun v => v.inputs) (g.length + 1) [index] (setAt m index) []).2
          ((componentLoop g (fun v => v.inputs) (g.length + 1) [index] (setAt m index) []).1.map
            (uidOf g) :: res)
      else groupsGen g (fun v => v.inputs) more
          (componentLoop g (fun v => v.inputs) (g.length + 1) [index] (setAt m index) []).2 res := by
  rfl

theorem hasEdge_iff (g : G) (s d : Nat) : hasEdge g s d = true ↔ d ∈ outs g s := by
  simp [hasEdge, outs]

theorem nodup_other {l : List Nat} (hn : l.Nodup) {i : Nat} (hi : i ∈ l) (hlen : l.length ≠ 1) :
    ∃ k ∈ l, k ≠ i := by
  match l, hn, hi, hlen with
  | [a], _, _, hlen => simp at hlen
  | a :: b :: l', hn, _, _ =>
    have hab : a ≠ b := by
      intro e; subst e
      have := (List.nodup_cons.1 hn).1
      simp at this
    by_cases hia : i = a
    · exact ⟨b, by simp, fun e => hab (by rw [← hia, ← e])⟩
    · exact ⟨a, by simp, fun e => hia e.symm⟩

theorem eq_singleton_of_length {l : List Nat} {i : Nat} (hi : i ∈ l) (hlen : l.length = 1) :
    l = [i] := by
  match l, hi, hlen with
  | [a], hi, _ => simp at hi; rw [hi]

theorem reach_live_back {g : G} (hg : Inv g) {i r : Nat} (hr : Reach (sedges g) i r)
    (hl : live g r) : live g i := by
  cases hr with
  | refl => exact hl
  | step he _ => exact (live_of_mem_outs hg (mem_sedges.1 he)).1

/-- a loop group: the uids of a strongly connected component that contains a cycle -/
def GoodGrp (g : G) (m : List Bool) (grp : List Nat) : Prop :=
  ∃ comp, grp = comp.map (uidOf g) ∧ comp.Nodup ∧ comp ≠ [] ∧
    (∀ i ∈ comp, live g i ∧ isM m i = true) ∧
    (∀ i ∈ comp, ∀ j, j ∈ comp ↔ Reach (sedges g) i j ∧ Reach (sedges g) j i) ∧
    (∀ i ∈ comp, ReachPlus (sedges g) i i)

structure GInv (g : G) (idxs : List Nat) (m : List Bool) (res : List (List Nat)) : Prop where
  len : m.length = g.length
  pc : PredClosed g m
  kord : KOrd g idxs
  done : ∀ v, live g v → v ∉ idxs → isM m v = true
  ilive : ∀ v ∈ idxs, live g v
  mlive : ∀ v, isM m v = true → live g v
  good : ∀ grp ∈ res, GoodGrp g m grp
  cover : ∀ i, isM m i = true → ReachPlus (sedges g) i i → ∃ grp ∈ res, uidOf g i ∈ grp
  pw : res.Pairwise (fun g1 g2 => ∀ a ∈ g1, a ∉ g2)

/-- the search from the first unmarked vertex of the finishing order yields its SCC -/
theorem root_step {g : G} (hg : Inv g) {r : Nat} {more : List Nat} {m : List Bool}
    {res : List (List Nat)} (h : GInv g (r :: more) m res) (hrm : isM m r = false) :
    ∃ comp m', componentLoop g (fun v => v.inputs) (g.length + 1) [r] (setAt m r) [] = (comp, m') ∧
      comp.Nodup ∧ r ∈ comp ∧ (∀ i ∈ comp, live g i ∧ isM m i = false) ∧
      (∀ i ∈ comp, ∀ j, j ∈ comp ↔ Reach (sedges g) i j ∧ Reach (sedges g) j i) ∧
      m'.length = g.length ∧ (∀ i, isM m' i = true ↔ isM m i = true ∨ i ∈ comp) ∧
      PredClosed g m' := by
  have hrl : live g r := h.ilive r (by simp)
  obtain ⟨comp, m', h1, h2, h3, h4, h5, h6⟩ := component_result hg h.len h.pc hrl.1 hrm
  have hback : ∀ i ∈ comp, Reach (sedges g) r i := by
    intro i hi
    obtain ⟨hi0, hir⟩ := (h3 i).1 hi
    rcases h.kord.1 i hir with hl | ⟨v, hv, hvn⟩
    · exact hl
    · exfalso
      have hil : live g i := reach_live_back hg hir hrl
      have hvm := h.done v (reach_live hg hv hil) hvn
      have := h.pc.reach hv hvm
      rw [hi0] at this; exact absurd this (by simp)
  refine ⟨comp, m', h1, h2, (h3 r).2 ⟨hrm, Reach.refl _⟩, ?_, ?_, h4, h5, h6⟩
  · intro i hi
    obtain ⟨hi0, hir⟩ := (h3 i).1 hi
    exact ⟨reach_live_back hg hir hrl, hi0⟩
  · intro i hi j
    obtain ⟨hi0, hir⟩ := (h3 i).1 hi
    constructor
    · intro hj
      obtain ⟨_, hjr⟩ := (h3 j).1 hj
      exact ⟨hir.trans (hback j hj), hjr.trans (hback i hi)⟩
    · rintro ⟨hij, hji⟩
      refine (h3 j).2 ⟨?_, hji.trans hir⟩
      cases hh : isM m j with
      | false => rfl
      | true =>
        have := h.pc.reach hij hh
        rw [hi0] at this; exact absurd this (by simp)

theorem GoodGrp.mono {g : G} {m m' : List Bool} {grp : List Nat}
    (hm : ∀ i, isM m i = true → isM m' i = true) (h : GoodGrp g m grp) : GoodGrp g m' grp := by
  obtain ⟨comp, h1, h2, h3, h4, h5, h6⟩ := h
  exact ⟨comp, h1, h2, h3, fun i hi => ⟨(h4 i hi).1, hm i (h4 i hi).2⟩, h5, h6⟩

theorem KOrd.tail {g : G} {r : Nat} {l : List Nat} (h : KOrd g (r :: l)) : KOrd g l := h.2

theorem groupsGen_spec {g : G} (hg : Inv g) (idxs : List Nat) :
    ∀ (m : List Bool) (res : List (List Nat)), GInv g idxs m res →
      ∃ m' res', groupsGen g (fun v => v.inputs) idxs m res = res'.reverse ∧ GInv g [] m' res' := by
  induction idxs with
  | nil =>
    intro m res h
    exact ⟨m, res, rfl, h⟩
  | cons r more ih =>
    intro m res h
    rw [groupsGen_cons]
    have hrl : live g r := h.ilive r (by simp)
    have hmore : ∀ v ∈ more, live g v := fun v hv => h.ilive v (by simp [hv])
    by_cases hrm : isM m r = true
    · rw [if_pos hrm]
      apply ih
      refine ⟨h.len, h.pc, h.kord.tail, ?_, hmore, h.mlive, h.good, h.cover, h.pw⟩
      intro v hv hvn
      by_cases hvr : v = r
      · subst hvr; exact hrm
      · exact h.done v hv (by simp [hvr, hvn])
    · rw [if_neg hrm]
      have hrm' : isM m r = false := by simpa using hrm
      obtain ⟨comp, m', h1, h2, h3, h4, h5, h6, h7, h8⟩ := root_step hg h hrm'
      rw [h1]
      dsimp only
      have hmono : ∀ i, isM m i = true → isM m' i = true := fun i hi => (h7 i).2 (Or.inl hi)
      have hdone : ∀ v, live g v → v ∉ more → isM m' v = true := by
        intro v hv hvn
        by_cases hvr : v = r
        · subst hvr; exact (h7 v).2 (Or.inr h3)
        · exact hmono v (h.done v hv (by simp [hvr, hvn]))
      have hmlive : ∀ v, isM m' v = true → live g v := by
        intro v hv
        rcases (h7 v).1 hv with hv | hv
        · exact h.mlive v hv
        · exact (h4 v hv).1
      have hgood : ∀ grp ∈ res, GoodGrp g m' grp := fun grp hgrp => (h.good grp hgrp).mono hmono
      by_cases hcond : (comp.length ≠ 1 || hasEdge g r r) = true
      · rw [if_pos hcond]
        apply ih
        -- every member of the component lies on a cycle
        have hcyc : ∀ i ∈ comp, ReachPlus (sedges g) i i := by
          intro i hi
          by_cases hlen : comp.length = 1
          · have hself : r ∈ outs g r := by
              rw [← hasEdge_iff]; simpa [hlen] using hcond
            have hc := eq_singleton_of_length h3 hlen
            rw [hc] at hi
            simp only [List.mem_singleton] at hi
            subst hi
            exact ⟨i, mem_sedges.2 hself, Reach.refl _⟩
          · obtain ⟨k, hk, hki⟩ := nodup_other h2 hi hlen
            obtain ⟨hik, hki'⟩ := (h5 i hi k).1 hk
            exact (hik.plus_of_ne (Ne.symm hki)).trans_reach hki'
        refine ⟨h6, h8, h.kord.tail, hdone, hmore, hmlive, ?_, ?_, ?_⟩
        · intro grp hgrp
          simp only [List.mem_cons] at hgrp
          rcases hgrp with rfl | hgrp
          · refine ⟨comp, rfl, h2, List.ne_nil_of_mem h3, ?_, h5, hcyc⟩
            intro i hi
            exact ⟨(h4 i hi).1, (h7 i).2 (Or.inr hi)⟩
          · exact hgood grp hgrp
        · intro i hi hc
          rcases (h7 i).1 hi with hi | hi
          · obtain ⟨grp, hgrp, hmem⟩ := h.cover i hi hc
            exact ⟨grp, by simp [hgrp], hmem⟩
          · exact ⟨comp.map (uidOf g), by simp, List.mem_map.2 ⟨i, hi, rfl⟩⟩
        · rw [List.pairwise_cons]
          refine ⟨?_, h.pw⟩
          intro old hold a ha hao
          obtain ⟨i, hi, rfl⟩ := List.mem_map.1 ha
          obtain ⟨comp', hc1, _, _, hc4, _, _⟩ := h.good old hold
          rw [hc1] at hao
          obtain ⟨j, hj, hju⟩ := List.mem_map.1 hao
          have : j = i := uid_inj hg (hc4 j hj).1 (h4 i hi).1 hju
          subst this
          have := (h4 j hi).2
          rw [(hc4 j hj).2] at this
          exact absurd this (by simp)
      · rw [if_neg hcond]
        apply ih
        have hlen : comp.length = 1 := by
          apply Classical.byContradiction
          intro hne
          exact hcond (by simp [hne])
        have hself : r ∉ outs g r := by
          intro hs
          exact hcond (by simp [(hasEdge_iff g r r).2 hs])
        have hc := eq_singleton_of_length h3 hlen
        refine ⟨h6, h8, h.kord.tail, hdone, hmore, hmlive, hgood, ?_, h.pw⟩
        intro i hi hcy
        rcases (h7 i).1 hi with hi | hi
        · exact h.cover i hi hcy
        · exfalso
          rw [hc] at hi
          simp only [List.mem_singleton] at hi
          subst hi
          obtain ⟨c, hce, hcr⟩ := hcy
          have hcc : c ∈ comp := (h5 i h3 c).2 ⟨Reach.single hce, hcr⟩
          rw [hc] at hcc
          simp only [List.mem_singleton] at hcc
          subst hcc
          exact hself (mem_sedges.1 hce)

theorem nodup_map_on {l : List Nat} (f : Nat → Nat) (hn : l.Nodup)
    (hinj : ∀ x ∈ l, ∀ y ∈ l, f x = f y → x = y) : (l.map f).Nodup := by
  induction l with
  | nil => simp
  | cons a l ih =>
    obtain ⟨ha, hn'⟩ := List.nodup_cons.1 hn
    rw [List.map_cons, List.nodup_cons]
    refine ⟨?_, ih hn' (fun x hx y hy => hinj x (by simp [hx]) y (by simp [hy]))⟩
    intro hm
    obtain ⟨x, hx, hfx⟩ := List.mem_map.1 hm
    have := hinj x (by simp [hx]) a (by simp) hfx
    subst this
    exact ha hx

theorem getAllLoopsItems_inv {g : G} (hg : Inv g) :
    ∃ m res, getAllLoopsItems g = res.reverse ∧ GInv g [] m res := by
  obtain ⟨hn, hm, hk, _⟩ := internalOrder_facts hg
  apply groupsGen_spec hg
  refine ⟨by simp, ?_, hk, ?_, fun v hv => (hm v).1 hv, ?_, by simp, ?_, by simp⟩
  · intro i j _ hj
    rw [isM_replicate] at hj; exact absurd hj (by simp)
  · intro v hv hvn
    exact absurd ((hm v).2 hv) hvn
  · intro v hv
    rw [isM_replicate] at hv; exact absurd hv (by simp)
  · intro i hi
    rw [isM_replicate] at hi; exact absurd hi (by simp)

/-- **C.** per-graph form of `loopGroups_statement`: the loop groups are exactly the strongly
connected components that contain a cycle -/
theorem DFS.loopGroups_spec (g : G) (h : Inv g) :
    (∀ grp ∈ getAllLoopsItems g, ∀ a ∈ grp, ∀ b, (b ∈ grp ↔ SameLoop (edges g) a b)) ∧
    (∀ a, SameLoop (edges g) a a → ∃ grp ∈ getAllLoopsItems g, a ∈ grp) ∧
    (getAllLoopsItems g).Pairwise (fun g1 g2 => ∀ a ∈ g1, a ∉ g2) ∧
    (∀ grp ∈ getAllLoopsItems g, grp ≠ [] ∧ grp.Nodup) := by
  obtain ⟨m, res, hres, hi⟩ := getAllLoopsItems_inv h
  rw [hres]
  refine ⟨?_, ?_, ?_, ?_⟩
  · intro grp hgrp a ha b
    obtain ⟨comp, h1, _, _, h4, h5, h6⟩ := hi.good grp (List.mem_reverse.1 hgrp)
    subst h1
    obtain ⟨i, hic, rfl⟩ := List.mem_map.1 ha
    have hil := (h4 i hic).1
    constructor
    · intro hb
      obtain ⟨j, hjc, rfl⟩ := List.mem_map.1 hb
      obtain ⟨hij, hji⟩ := (h5 i hic j).1 hjc
      by_cases e : i = j
      · subst e
        exact ⟨reachPlus_uid (h6 i hic), reachPlus_uid (h6 i hic)⟩
      · exact ⟨reachPlus_uid (hij.plus_of_ne e), reachPlus_uid (hji.plus_of_ne (Ne.symm e))⟩
    · rintro ⟨hab, hba⟩
      obtain ⟨j, hjl, hju, hij⟩ := reachPlus_slot h hab i hil rfl
      obtain ⟨i', hil', hiu', hji⟩ := reachPlus_slot h hba j hjl hju
      have : i' = i := uid_inj h hil' hil hiu'
      subst this
      exact List.mem_map.2 ⟨j, (h5 i' hic j).2 ⟨hij.reach, hji.reach⟩, hju⟩
  · rintro a ⟨haa, _⟩
    obtain ⟨c, hc, _⟩ := id haa
    obtain ⟨i, hil, hiu⟩ := edge_src_slot h hc
    obtain ⟨j, hjl, hju, hij⟩ := reachPlus_slot h haa i hil hiu
    have : j = i := uid_inj h hjl hil (by rw [hju, hiu])
    subst this
    obtain ⟨grp, hgrp, hmem⟩ := hi.cover j (hi.done j hil (by simp)) hij
    exact ⟨grp, List.mem_reverse.2 hgrp, hiu ▸ hmem⟩
  · rw [List.pairwise_reverse]
    refine hi.pw.imp_of_mem ?_
    intro g1 g2 hg1 hg2 h12 a ha2 ha1
    exact h12 a ha1 ha2
  · intro grp hgrp
    obtain ⟨comp, h1, h2, h3, h4, _, _⟩ := hi.good grp (List.mem_reverse.1 hgrp)
    subst h1
    refine ⟨by simpa using h3, nodup_map_on _ h2 ?_⟩
    intro x hx y hy e
    exact uid_inj h (h4 x hx).1 (h4 y hy).1 e

/-! ## §8 a decidable form of `Inv`, for concrete graphs (non-vacuity examples) -/

/-- `Inv` with bounded quantifiers only -/
def InvD (g : G) : Prop :=
  (∀ i, i < g.length → ∀ j, j < g.length → (vx g i).valid = true → (vx g j).valid = true →
    (vx g i).uid = (vx g j).uid → i = j) ∧
  (∀ i, i < g.length → ∀ o ∈ (vx g i).outputs, o < g.length ∧ (vx g o).valid = true) ∧
  (∀ i, i < g.length → ∀ k ∈ (vx g i).inputs, k < g.length ∧ (vx g k).valid = true) ∧
  (∀ i, i < g.length → ∀ j, j < g.length → (j ∈ (vx g i).outputs ↔ i ∈ (vx g j).inputs)) ∧
  (∀ i, i < g.length → (vx g i).outputs.Nodup) ∧
  (∀ i, i < g.length → (vx g i).inputs.Nodup) ∧
  (∀ i, i < g.length → (vx g i).valid = false → (vx g i).inputs = [] ∧ (vx g i).outputs = [])

instance (g : G) : Decidable (InvD g) := by
  unfold InvD
  refine @instDecidableAnd _ _ inferInstance (@instDecidableAnd _ _ inferInstance
    (@instDecidableAnd _ _ inferInstance (@instDecidableAnd _ _ inferInstance
    (@instDecidableAnd _ _ inferInstance (@instDecidableAnd _ _ inferInstance inferInstance)))))

theorem inv_of_invD {g : G} (h : InvD g) : Inv g := by
  obtain ⟨h1, h2, h3, h4, h5, h6, h7⟩ := h
  exact ⟨fun i j hi hj => h1 i hi j hj, h2, h3, fun i j hi hj => h4 i hi j hj, h5, h6, h7⟩

example : Inv (run [.addConnection 1 3, .addConnection 1 2, .addConnection 2 1]) :=
  inv_of_invD (by decide)

end CCVerif.Graph
