import CCVerif.Lemmas.CheckerHom
/-!
`check_hom` (Lemmas/CheckerHom.lean) WITH function / predicate calls (C12, semantic clause for the real
checker model): the rule `ViFunctionCall` / `CheckFuncArguments` (NT_FUNC_CALL; template and non-template
functions, predicates) is stable under a NON-injective identification of names, in the success direction,
under the following EXACT condition on the identification at a call `fn[a1, …, an]` (`CallH`):

* like with like: the context `Γ'` shows at the image `fn'` of the called name the type and the declared
  arguments of `fn` with the base names identified (`lookup Γ'.types fn' = (lookup Γ.types fn).map (hRE τ)`,
  same for `funcs`) — a function is identified only with a function of equal declared argument types and
  equal result, up to the identification;
* the mangled radical names follow the function name: `hR τ (mangle fn t) = mangle fn' (hR τ t)` for the
  declared result `t` and every declared argument type (`MangleOK`). It holds when `τ (r ++ fn) = τ r ++ fn'`
  for every radical `r` (`mangleOK_of_follow`: `R1F1 ↦ R1F2` when `F1 ↦ F2`), and trivially for a signature
  without radicals (`mangleOK_of_radFree`: a non-template function may be identified freely);
* `RadInj τ`: the identification is injective on radicals (`τ x = τ y`, `x` a radical ⇒ `x = y`): the
  template parameters of one call stay apart, and no base name of an actual argument is confused with one.

`RadInj` is NECESSARY for the statement over arbitrary contexts: `call_hom_radInj_needed_counterexample`
(Lemmas/CheckerHomCallsAnalysis.lean; two template functions `F1`, `F2` of one signature identified blockwise, `R1F1 ↦ R1F2`, in a context
that types a term by the mangled name `R1F2`: `F1[D5, D6]` has the type `ℬ(R1F2)`, its image `F2[D5, D6]`
the type `ℬ(R0)`, which is not the image).
-/
namespace CCVerif.Checker
open CCVerif CCVerif.Syntax CCVerif.Types

variable {h : CHom}

/-! ## simulation of successful runs with a post-condition on the result -/

def SimQ {α : Type} (h : CHom) (φ : α → α) (Q : α → Prop) (m' m : M α) : Prop :=
  ∀ s a s1, m s = (.ok a, s1) → m' (hSt h s) = (.ok (φ a), hSt h s1) ∧ Q a

theorem simQ_never {α} {φ : α → α} {Q : α → Prop} {m' m : M α} (hn : NeverOk m) : SimQ h φ Q m' m :=
  fun s a s1 hs => absurd hs (hn s a s1)

theorem simQ_pure {α} {φ : α → α} {Q : α → Prop} {a' a : α} (e : a' = φ a) (hq : Q a) :
    SimQ h φ Q (M.pure a') (M.pure a) := by
  intro s x s1 hs
  cases hs
  subst e
  exact ⟨rfl, hq⟩

theorem simQ_bind {α β} {φ : α → α} {ψ : β → β} {Q : β → Prop} {m' m : M α} {f' f : α → M β}
    (hm : Sim h φ m' m) (hf : ∀ a, SimQ h ψ Q (f' (φ a)) (f a)) : SimQ h ψ Q (M.bind m' f') (M.bind m f) := by
  intro s b s2 hs
  unfold M.bind at hs ⊢
  cases hms : m s with
  | mk res s1 =>
    rw [hms] at hs
    cases res with
    | ok a => rw [hm s a s1 hms]; exact hf a s1 b s2 hs
    | fail => cases hs
    | stuck x => cases hs

theorem sim_bindQ {α β} {φ : α → α} {ψ : β → β} {Q : α → Prop} {m' m : M α} {f' f : α → M β}
    (hm : SimQ h φ Q m' m) (hf : ∀ a, Q a → Sim h ψ (f' (φ a)) (f a)) :
    Sim h ψ (M.bind m' f') (M.bind m f) := by
  intro s b s2 hs
  unfold M.bind at hs ⊢
  cases hms : m s with
  | mk res s1 =>
    rw [hms] at hs
    cases res with
    | ok a =>
      obtain ⟨e, hq⟩ := hm s a s1 hms
      rw [e]; exact hf a hq s1 b s2 hs
    | fail => cases hs
    | stuck x => cases hs

/-! ## the conditions at a call -/

/-- injective on radicals: a radical shares its image with nothing else -/
def RadInj (t : THom) : Prop := ∀ x y, isRadical x = true → t.b x = t.b y → x = y

/-- the mangled radical names of the type follow the function name -/
def MangleOK (h : CHom) (fn fn' : String) (t : Ty) : Prop := hR h.τ (mangle fn t) = mangle fn' (hR h.τ t)

/-- `R1F1 ↦ R1F2` when `F1 ↦ F2`: sufficient for `MangleOK` on every type -/
theorem mangleOK_of_follow {fn fn' : String}
    (hfn : ∀ id, isRadical id = true → h.τ.b (id ++ fn) = h.τ.b id ++ fn') (t : Ty) : MangleOK h fn fn' t :=
  mangle_hR h.τ hfn t

mutual
/-- no radical among the base names of the type -/
def radFree : Ty → Bool
  | .base id => !isRadical id
  | .coll b => radFree b
  | .tuple cs => radFreeL cs
def radFreeL : List Ty → Bool
  | [] => true
  | c :: cs => radFree c && radFreeL cs
end

mutual
theorem mangle_radFree (fn : String) : ∀ t : Ty, radFree t = true → mangle fn t = t
  | .base id, ht => by
    simp only [radFree, Bool.not_eq_true'] at ht
    simp only [mangle, ht, Bool.false_eq_true, if_false]
  | .coll b, ht => by
    simp only [radFree] at ht
    simp only [mangle]; rw [mangle_radFree fn b ht]
  | .tuple cs, ht => by
    simp only [radFree] at ht
    simp only [mangle]; rw [mangleList_radFree fn cs ht]
theorem mangleList_radFree (fn : String) : ∀ cs : List Ty, radFreeL cs = true → mangleList fn cs = cs
  | [], _ => rfl
  | c :: cs, ht => by
    simp only [radFreeL, Bool.and_eq_true] at ht
    simp only [mangleList]; rw [mangle_radFree fn c ht.1, mangleList_radFree fn cs ht.2]
end

mutual
theorem radFree_hR (τ : THom) : ∀ t : Ty, radFree (hR τ t) = radFree t
  | .base id => by simp only [renTy, radFree]; rw [τ.brad]
  | .coll b => by simp only [renTy, radFree]; exact radFree_hR τ b
  | .tuple cs => by simp only [renTy, radFree]; exact radFreeL_hR τ cs
theorem radFreeL_hR (τ : THom) : ∀ cs : List Ty, radFreeL (hRL τ cs) = radFreeL cs
  | [] => rfl
  | c :: cs => by simp only [renTyL, radFreeL]; rw [radFree_hR τ c, radFreeL_hR τ cs]
end

/-- a type without radicals is not mangled at all: a NON-template function may be identified freely -/
theorem mangleOK_of_radFree (fn fn' : String) {t : Ty} (ht : radFree t = true) : MangleOK h fn fn' t := by
  unfold MangleOK
  rw [mangle_radFree fn t ht, mangle_radFree fn' (hR h.τ t) (by rw [radFree_hR]; exact ht)]

/-- what the identification must satisfy at a call of `fn`, whose token is read as `fn'` in the image -/
structure CallH (h : CHom) (Γ Γ' : Ctx) (fn fn' : String) : Prop where
  types : lookup Γ'.types fn' = (lookup Γ.types fn).map (hRE h.τ)
  funcs : lookup Γ'.funcs fn' = (lookup Γ.funcs fn).map (hDecl h)
  mres : ∀ t, lookup Γ.types fn = some (.ty t) → MangleOK h fn fn' t
  margs : ∀ d, lookup Γ.funcs fn = some d → ∀ p ∈ d, MangleOK h fn fn' p.2

/-! ## `CheckFuncArguments` -/

section call
variable {Γ Γ' : Ctx} {v' v : Visitor} {a : Ast}

theorem simQ_checkArgsGo (hΓ : CtxHom h Γ Γ') (hinj : RadInj h.τ) (hv : VS h v' v a) (fn fn' : String) :
    ∀ (n : Nat) (decl : List (String × Ty)) (child : Nat) (subs : Subst), KeysRadical subs →
    (∀ p ∈ decl, MangleOK h fn fn' p.2) →
    SimQ h (hS h.τ) KeysRadical
      (checkArgsGo Γ' v' (renAst h.g a) fn' n (hDecl h decl) child (hS h.τ subs))
      (checkArgsGo Γ v a fn n decl child subs)
  | 0, _, _, subs, hk, _ => simQ_pure rfl hk
  | n+1, decl, child, subs, hk, hm => by
    unfold checkArgsGo
    refine simQ_bind (sim_childType hv child) (fun ct => ?_)
    cases ct with
    | logic => exact simQ_never neverOk_failSilent
    | ty vt =>
      cases decl with
      | nil => exact simQ_never (neverOk_stuck _)
      | cons p rest =>
        obtain ⟨x, dt⟩ := p
        have hm0 : MangleOK h fn fn' dt := hm (x, dt) (List.mem_cons_self ..)
        show SimQ h (hS h.τ) KeysRadical
          (match compareTemplated Γ'.traits (hS h.τ subs) (mangle fn' (hR h.τ dt)) (hR h.τ vt) with
            | (false, _) => M.bind (kidM (renAst h.g a) child) fun k => errFail EID.invalidArgumentType k.lo
            | (true, subs') => checkArgsGo Γ' v' (renAst h.g a) fn' n (hDecl h rest) (child + 1) subs')
          (match compareTemplated Γ.traits subs (mangle fn dt) vt with
            | (false, _) => M.bind (kidM a child) fun k => errFail EID.invalidArgumentType k.lo
            | (true, subs') => checkArgsGo Γ v a fn n rest (child + 1) subs')
        rw [← hm0]
        cases hc : compareTemplated Γ.traits subs (mangle fn dt) vt with
        | mk ok s1 =>
          cases ok with
          | false => exact simQ_never (neverOk_bind_right (fun _ => neverOk_errFail _ _))
          | true =>
            rw [compareTemplated_hom h.τ hΓ.traits hinj subs _ vt s1 hc]
            exact simQ_checkArgsGo hΓ hinj hv fn fn' n rest (child + 1) s1 (compareTemplated_keys hk hc)
              (fun q hq => hm q (List.mem_cons_of_mem _ hq))

theorem length_hDecl (d : List (String × Ty)) : (hDecl h d).length = d.length := by
  unfold hDecl; rw [List.length_map]

theorem simQ_checkFuncArguments (hΓ : CtxHom h Γ Γ') (hinj : RadInj h.τ) (hv : VS h v' v a) {fn fn' : String}
    (hc : CallH h Γ Γ' fn fn') :
    SimQ h (hS h.τ) KeysRadical (checkFuncArguments Γ' v' (renAst h.g a) fn') (checkFuncArguments Γ v a fn) := by
  unfold checkFuncArguments
  rw [hc.funcs, renAst_kids_length]
  cases hf : lookup Γ.funcs fn with
  | none => exact simQ_never (neverOk_bind_right (fun _ => neverOk_errFail _ _))
  | some decl =>
    simp only [Option.map_some]
    rw [length_hDecl]
    split
    · exact simQ_never (neverOk_bind_right (fun _ => neverOk_errFail _ _))
    · exact simQ_checkArgsGo hΓ hinj hv fn fn' _ decl 1 [] keysRadical_nil (hc.margs decl hf)

/-- **the rule of calls is stable under identification** (successful runs) -/
theorem sim_viFunctionCall (hΓ : CtxHom h Γ Γ') (hinj : RadInj h.τ) (hv : VS h v' v a)
    (hcall : ∀ k0 fn, a.kid 0 = some k0 → k0.data = .text fn →
      CallH h Γ Γ' fn (if isGlob k0.id then h.g fn else fn)) :
    Sim h id (viFunctionCall Γ' v' (renAst h.g a)) (viFunctionCall Γ v a) := by
  unfold viFunctionCall
  rw [renAst_lo]
  refine sim_bind_kidM 0 (fun k0 hk0 => ?_)
  refine sim_bind_textOf (fun fn hfn => ?_)
  have hc := hcall k0 fn hk0 hfn
  generalize (if isGlob k0.id then h.g fn else fn) = fn' at hc ⊢
  rw [hc.types]
  cases ht : lookup Γ.types fn with
  | none => nok
  | some ft =>
    simp only [Option.map_some]
    refine sim_bindQ (simQ_checkFuncArguments hΓ hinj hv hc) (fun subs hk => ?_)
    cases ft with
    | logic => exact sim_setCur rfl
    | ty t =>
      refine sim_setCur ?_
      show ExprTy.ty (if (hS h.τ subs).isEmpty then mangle fn' (hR h.τ t)
          else substBase (hS h.τ subs) (mangle fn' (hR h.τ t))) =
        ExprTy.ty (hR h.τ (if subs.isEmpty then mangle fn t else substBase subs (mangle fn t)))
      rw [isEmpty_hS, ← hc.mres t ht]
      split
      · rfl
      · rw [substBase_hR h.τ hinj subs hk]

end call

/-! ## the side conditions, the dispatcher, the visitor — with calls -/

/-- what the identification must satisfy at one node (`NodeH` with the exact condition at a call instead
of "no call") -/
structure NodeH2 (h : CHom) (Γ Γ' : Ctx) (a : Ast) : Prop where
  glob : isGlob a.id = true → ∀ s, a.data = .text s →
    lookup Γ'.types (h.g s) = (lookup Γ.types s).map (hRE h.τ) ∧
    lookup Γ'.funcs (h.g s) = (lookup Γ.funcs s).map (hDecl h)
  radical : a.id = .ID_RADICAL → ∀ s, a.data = .text s → h.τ.b s = s
  /-- a call: the identification is injective on radicals; like with like and mangled names at the callee -/
  call : a.id = .NT_FUNC_CALL → RadInj h.τ ∧ ∀ k0 fn, a.kid 0 = some k0 → k0.data = .text fn →
    CallH h Γ Γ' fn (if isGlob k0.id then h.g fn else fn)
  decl : isDeclTok a.id = true → a.kids.length = 1 → ∀ k0, a.kid 0 = some k0 → ∀ n, k0.data = .text n →
    h.τ.b n = if isGlob k0.id then h.g n else n
  arg : a.id = .NT_ARG_DECL → ∀ k0, a.kid 0 = some k0 → ∀ n, k0.data = .text n →
    isGlob k0.id = true → h.g n = n

theorem NodeH.to2 {Γ Γ' : Ctx} {a : Ast} (n : NodeH h Γ Γ' a) : NodeH2 h Γ Γ' a :=
  ⟨n.glob, n.radical, fun hc => absurd hc n.nocall, n.decl, n.arg⟩

inductive TreeH2 (h : CHom) (Γ Γ' : Ctx) : Ast → Prop where
  | mk {a : Ast} : NodeH2 h Γ Γ' a → (∀ k ∈ a.kids, TreeH2 h Γ Γ' k) → TreeH2 h Γ Γ' a

theorem TreeH2.node {Γ Γ' : Ctx} {a : Ast} (t : TreeH2 h Γ Γ' a) : NodeH2 h Γ Γ' a := by
  cases t with | mk t _ => exact t
theorem TreeH2.kids {Γ Γ' : Ctx} {a : Ast} (t : TreeH2 h Γ Γ' a) : ∀ k ∈ a.kids, TreeH2 h Γ Γ' k := by
  cases t with | mk _ t => exact t

theorem TreeH.to2 {Γ Γ' : Ctx} : ∀ {a : Ast}, TreeH h Γ Γ' a → TreeH2 h Γ Γ' a
  | _, .mk n ks => .mk n.to2 (fun k hk => TreeH.to2 (ks k hk))

section
attribute [local irreducible] viGlobal viLocal viRadical viFunctionDefinition viFunctionCall viEmptySet
  viTupleDeclaration viAllLogic viArgument viArithmetic viCard viQuantifier viEquals
  viIntegerPredicate viSetexprPredicate viIterate viAssign viDeclarative viImperative viDecart
  viBoolean viRecursion viTuple viEnumeration viDebool viSetexprBinary viProjectSet viProjectTuple
  viFilter viReduce viGlobalDeclaration

theorem sim_dispatch2 {Γ Γ' : Ctx} (hΓ : CtxHom h Γ Γ') {v' v : Visitor} {a : Ast} (hv : VS h v' v a)
    (hn : NodeH2 h Γ Γ' a) (parent : Option Tok) :
    Sim h id (dispatch Γ' v' parent (renAst h.g a)) (dispatch Γ v parent a) := by
  unfold dispatch
  rw [renAst_id]
  generalize hid : a.id = t
  cases t
  all_goals (dsimp only; first
    | exact sim_viFunctionCall hΓ (hn.call hid).1 hv (hn.call hid).2
    | exact sim_viGlobal (by rw [hid]; rfl) (hn.glob (by rw [hid]; rfl)) parent
    | exact sim_viLocal hid
    | exact sim_viRadical hΓ hid (hn.radical hid)
    | exact sim_viFunctionDefinition hv
    | exact sim_setCur (by show _ = ExprTy.ty (Ty.coll (hR h.τ Ty.Z)); rw [hR_Z])
    | exact sim_setCur (by show _ = ExprTy.ty (hR h.τ Ty.Z); rw [hR_Z])
    | exact sim_viEmptySet parent
    | exact sim_viTupleDeclaration hv
    | exact sim_viAllLogic hv
    | exact sim_viArgument hv (hn.arg hid)
    | exact sim_viArithmetic hΓ hv
    | exact sim_viCard hv
    | exact sim_viQuantifier hv
    | exact sim_viEquals hΓ hv
    | exact sim_viIntegerPredicate hΓ hv
    | exact sim_viSetexprPredicate hΓ hv
    | exact sim_viIterate hv
    | exact sim_viAssign hv
    | exact sim_viDeclarative hv
    | exact sim_viImperative hv
    | exact sim_viDecart hv
    | exact sim_viBoolean hv
    | exact sim_viRecursion hΓ hv
    | exact sim_viTuple hv
    | exact sim_viEnumeration hΓ hv
    | exact sim_viDebool hv
    | exact sim_viSetexprBinary hΓ hv
    | exact sim_viProjectSet hv
    | exact sim_viProjectTuple hv
    | exact sim_viFilter hΓ hv
    | exact sim_viReduce hv
    | exact sim_viGlobalDeclaration hv (hn.decl (by rw [hid]; rfl)))
end

/-- **the visitor, calls included, is stable under identification** (successful runs) -/
theorem sim_visit2 {Γ Γ' : Ctx} (hΓ : CtxHom h Γ Γ') : ∀ (fuel : Nat) (parent : Option Tok) (a : Ast),
    TreeH2 h Γ Γ' a → Sim h id (visit Γ' fuel parent (renAst h.g a)) (visit Γ fuel parent a)
  | 0, _, _, _ => by
    show Sim h id (stuckM "fuel") (stuckM "fuel")
    nok
  | n+1, parent, a, t => by
    show Sim h id (dispatch Γ' (visit Γ' n) parent (renAst h.g a)) (dispatch Γ (visit Γ n) parent a)
    exact sim_dispatch2 hΓ (fun k hk p => sim_visit2 hΓ n p k (t.kids k hk)) t.node parent

/-- the root of a definition tree `alias :== body`: only the body is visited -/
theorem sim_visit_top2 {Γ Γ' : Ctx} (hΓ : CtxHom h Γ Γ') (fuel : Nat) (a : Ast) (hid : a.id = .PUNC_DEFINE)
    (hlen : a.kids.length = 2) (hk : ∀ k, a.kid 1 = some k → TreeH2 h Γ Γ' k) :
    Sim h id (visit Γ' fuel none (renAst h.g a)) (visit Γ fuel none a) := by
  cases fuel with
  | zero =>
    show Sim h id (stuckM "fuel") (stuckM "fuel")
    nok
  | succ n =>
    show Sim h id (dispatch Γ' (visit Γ' n) none (renAst h.g a)) (dispatch Γ (visit Γ n) none a)
    unfold dispatch
    rw [renAst_id, hid]
    dsimp only
    unfold viGlobalDeclaration
    rw [renAst_id, structOk_ren, renAst_kids_length, hid, hlen]
    simp only [show (Tok.PUNC_DEFINE == Tok.PUNC_STRUCT) = false from rfl, show ((2 : Nat) == 1) = false from rfl,
      Bool.false_eq_true, if_false]
    refine sim_bind ?_ (fun t => sim_setCur rfl)
    unfold childType kidM
    rw [renAst_kid, renAst_id]
    cases hk1 : a.kid 1 with
    | none => exact sim_never (neverOk_bind_left (neverOk_stuck _))
    | some k =>
      have hsim := sim_visit2 hΓ n (some a.id) k (hk k hk1)
      intro s t s1 hs
      simp only [Option.map_some, bind_pure_left'] at hs ⊢
      cases hvs : visit Γ n (some a.id) k s with
      | mk res s2 =>
        rw [hvs] at hs
        cases res with
        | ok u =>
          rw [hsim s u s2 hvs]
          cases hs
          rfl
        | fail => cases hs
        | stuck _ => cases hs

/-- `check_hom2` for a definition tree: nothing is asked of the declared name (it is not visited) -/
theorem check_hom_top2 {Γ Γ' : Ctx} (hΓ : CtxHom h Γ Γ') {a : Ast} (hid : a.id = .PUNC_DEFINE)
    (hlen : a.kids.length = 2) (hk : ∀ k, a.kid 1 = some k → TreeH2 h Γ Γ' k)
    {t : ExprTy} (hok : (check Γ a).out = .ok t) :
    check Γ' (renAst h.g a) =
      ⟨.ok (hRE h.τ t), (check Γ a).errs, hDecl h (check Γ a).args, (check Γ a).silent⟩ := by
  unfold check at hok ⊢
  rw [depth_ren]
  exact checkWithFuel_of_sim _ (sim_visit_top2 hΓ _ a hid hlen hk) hok

/-- **the type checker, function and predicate calls included, is stable under identification of like
names** (`check_hom` without the restriction "no NT_FUNC_CALL"): if `check Γ e` succeeds with the type `t`,
then the tree with the global names identified by `g`, checked in a context that shows the renamed entries
(`TreeH2`: at a call the callee is like with like, its mangled radicals follow its name, the identification
is injective on radicals), succeeds with `t` renamed by `τ`; same log, same ghost flag, the declared
arguments with their types renamed. -/
theorem check_hom2 {Γ Γ' : Ctx} (hΓ : CtxHom h Γ Γ') {e : Ast} (hT : TreeH2 h Γ Γ' e)
    {t : ExprTy} (hok : (check Γ e).out = .ok t) :
    check Γ' (renAst h.g e) =
      ⟨.ok (hRE h.τ t), (check Γ e).errs, hDecl h (check Γ e).args, (check Γ e).silent⟩ := by
  unfold check at hok ⊢
  rw [depth_ren]
  exact checkWithFuel_of_sim _ (sim_visit2 hΓ _ none e hT) hok

end CCVerif.Checker
