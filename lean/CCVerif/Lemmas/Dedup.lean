import CCVerif.Model.Dedup
/-!
Lemmas about the model of `RSForm::DeleteDuplicatesInternal` (C12): the invariant of the loop
(`Inv`), its preservation by one erase-and-rename step, by a pass and by the `while`, and the
facts about termination and the final pass. Core Lean only.
-/
namespace CCVerif.Dedup
open CCVerif.Translation

/-! ### translations: one superposed step -/

/-- the image of a uid under a translation (`tr(u)` when `u` is a key, else `u` itself) -/
def image (tr : Tr) (u : Nat) : Nat := (lookup tr u).getD u

/-- the effect of the step `{c ↦ o}` on a uid -/
def redirect (c o : Nat) (x : Nat) : Nat := if x = c then o else x

theorem lookup_map_snd' (t : Tr) (f : Nat → Nat) (k : Nat) :
    lookup (t.map (fun p => (p.1, f p.2))) k = (lookup t k).map f := by
  unfold lookup
  induction t with
  | nil => simp
  | cons p ps ih =>
    simp only [List.map_cons, List.find?_cons]
    by_cases h : (p.1 == k) = true
    · simp [h]
    · simp [h]; simpa using ih

theorem lookup_single (c o k : Nat) : lookup [(c, o)] k = if c = k then some o else none := by
  unfold lookup
  by_cases h : c = k <;> simp [h]

theorem substituteValues_single (t : Tr) (c o : Nat) :
    substituteValues t [(c, o)] = t.map (fun p => (p.1, redirect c o p.2)) := by
  unfold substituteValues
  apply List.map_congr_left
  intro p _
  rw [lookup_single]
  unfold redirect
  by_cases h : c = p.2
  · simp [h]
  · have : ¬ p.2 = c := fun e => h e.symm
    simp [h, this]

theorem superposeWith_single (t : Tr) (c o : Nat) :
    superposeWith t [(c, o)] =
      if containsKey t c then t.map (fun p => (p.1, redirect c o p.2))
      else t.map (fun p => (p.1, redirect c o p.2)) ++ [(c, o)] := by
  unfold superposeWith
  rw [substituteValues_single]
  have hk : containsKey (t.map (fun p => (p.1, redirect c o p.2))) c = containsKey t c := by
    unfold containsKey
    rw [lookup_map_snd']
    cases lookup t c <;> simp
  simp only [List.foldl_cons, List.foldl_nil, hk]

theorem containsKey_iff_mem_keys (t : Tr) (k : Nat) : containsKey t k = true ↔ k ∈ keys t := by
  unfold containsKey lookup keys
  rw [Option.isSome_map, List.find?_isSome]
  simp only [List.mem_map]
  constructor
  · rintro ⟨p, hp, h⟩; exact ⟨p, hp, by simpa using h⟩
  · rintro ⟨p, hp, h⟩; exact ⟨p, hp, by simpa using h⟩

theorem lookup_append' (a b : Tr) (k : Nat) :
    lookup (a ++ b) k = match lookup a k with | some v => some v | none => lookup b k := by
  unfold lookup
  rw [List.find?_append]
  cases h : List.find? (fun x => x.1 == k) a <;> simp

theorem lookup_eq_none_of_not_key (t : Tr) (k : Nat) (h : containsKey t k = false) : lookup t k = none := by
  unfold containsKey at h
  cases hl : lookup t k with
  | none => rfl
  | some v => rw [hl] at h; simp at h

/-- the image under the superposed translation is the old image, redirected -/
theorem image_superpose_single (t : Tr) (c o u : Nat) :
    image (superposeWith t [(c, o)]) u = redirect c o (image t u) := by
  unfold image
  rw [superposeWith_single]
  by_cases hc : containsKey t c = true
  · simp only [hc, if_true]
    rw [lookup_map_snd']
    cases hu : lookup t u with
    | some v => simp
    | none =>
      simp only [Option.map_none, Option.getD_none]
      unfold redirect
      have : u ≠ c := by
        intro e; subst e
        have := lookup_eq_none_of_not_key
        unfold containsKey at hc; rw [hu] at hc; simp at hc
      simp [this]
  · have hc' : containsKey t c = false := by simpa using hc
    simp only [hc', Bool.false_eq_true, if_false]
    rw [lookup_append', lookup_map_snd']
    cases hu : lookup t u with
    | some v => simp
    | none =>
      simp only [Option.map_none, Option.getD_none]
      rw [lookup_single]
      unfold redirect
      by_cases h : c = u
      · simp [h]
      · have : ¬ u = c := fun e => h e.symm
        simp [h, this]

theorem keys_superpose_single (t : Tr) (c o : Nat) (hc : c ∉ keys t) :
    keys (superposeWith t [(c, o)]) = keys t ++ [c] := by
  rw [superposeWith_single]
  have : containsKey t c = false := by
    cases h : containsKey t c with
    | false => rfl
    | true => exact absurd ((containsKey_iff_mem_keys t c).1 h) hc
  simp only [this, Bool.false_eq_true, if_false]
  simp [keys, List.map_map, Function.comp_def]

theorem mem_superpose_single (t : Tr) (c o : Nat) (p : Nat × Nat) (hp : p ∈ superposeWith t [(c, o)]) :
    (∃ q ∈ t, p = (q.1, redirect c o q.2)) ∨ p = (c, o) := by
  rw [superposeWith_single] at hp
  split at hp
  · rcases List.mem_map.1 hp with ⟨q, hq, rfl⟩; exact Or.inl ⟨q, hq, rfl⟩
  · rcases List.mem_append.1 hp with hp | hp
    · rcases List.mem_map.1 hp with ⟨q, hq, rfl⟩; exact Or.inl ⟨q, hq, rfl⟩
    · exact Or.inr (by simpa using hp)

/-! ### constituents -/

@[simp] theorem rename_uid (f : String → String) (c : Cst) : (c.rename f).uid = c.uid := rfl
@[simp] theorem rename_alias (f : String → String) (c : Cst) : (c.rename f).alias = c.alias := rfl
@[simp] theorem rename_kind (f : String → String) (c : Cst) : (c.rename f).kind = c.kind := rfl
@[simp] theorem rename_definition (f : String → String) (c : Cst) :
    (c.rename f).definition = c.definition.map (renTok f) := rfl
@[simp] theorem rename_rest (f : String → String) (c : Cst) :
    (c.rename f).rest = c.rest.map (·.map (renTok f)) := rfl

theorem renTok_comp (f g : String → String) (t : Tok) : renTok f (renTok g t) = renTok (f ∘ g) t := by
  cases t <;> rfl

theorem renTok_congr {f g : String → String} (h : ∀ a, f a = g a) (t : Tok) : renTok f t = renTok g t := by
  cases t <;> simp [renTok, h]

theorem renTok_id (t : Tok) : renTok (fun a => a) t = t := by cases t <;> rfl

theorem find?_of_mem_nodup {κ : Type} [DecidableEq κ] (f : Cst → κ) (l : Schema) (s : Cst)
    (hn : (l.map f).Nodup) (hs : s ∈ l) : l.find? (fun c => f c == f s) = some s := by
  induction l with
  | nil => cases hs
  | cons a as ih =>
    simp only [List.map_cons, List.nodup_cons] at hn
    simp only [List.find?_cons]
    rcases List.mem_cons.1 hs with rfl | hs'
    · simp
    · have : f a ≠ f s := fun e => hn.1 (e ▸ List.mem_map.2 ⟨s, hs', rfl⟩)
      have : (f a == f s) = false := by simpa using this
      rw [this]; exact ih hn.2 hs'

theorem eq_of_mem_nodup {κ : Type} (f : Cst → κ) (l : Schema) (a b : Cst)
    (hn : (l.map f).Nodup) (ha : a ∈ l) (hb : b ∈ l) (h : f a = f b) : a = b := by
  induction l with
  | nil => cases ha
  | cons x xs ih =>
    simp only [List.map_cons, List.nodup_cons] at hn
    rcases List.mem_cons.1 ha with rfl | ha' <;> rcases List.mem_cons.1 hb with rfl | hb'
    · rfl
    · exact absurd (h ▸ List.mem_map.2 ⟨b, hb', rfl⟩) hn.1
    · exact absurd (h ▸ List.mem_map.2 ⟨a, ha', rfl⟩ : f _ ∈ _) hn.1
    · exact ih hn.2 ha' hb'

/-! ### the erase-and-rename step -/

theorem mem_eraseStep (o c : Cst) (l : Schema) (s' : Cst) :
    s' ∈ eraseStep o c l ↔ ∃ s ∈ l, s.uid ≠ c.uid ∧ s' = s.rename (subst1 c.alias o.alias) := by
  unfold eraseStep
  simp only [List.mem_map, List.mem_filter]
  constructor
  · rintro ⟨s, ⟨hs, hne⟩, rfl⟩; exact ⟨s, hs, by simpa using hne, rfl⟩
  · rintro ⟨s, hs, hne, rfl⟩; exact ⟨s, ⟨hs, by simpa using hne⟩, rfl⟩

theorem uids_eraseStep (o c : Cst) (l : Schema) :
    uids (eraseStep o c l) = (uids l).filter (· != c.uid) := by
  unfold eraseStep uids
  rw [List.map_map, List.filter_map]
  rfl

theorem aliases_eraseStep_sublist (o c : Cst) (l : Schema) :
    (aliases (eraseStep o c l)).Sublist (aliases l) := by
  unfold eraseStep aliases
  rw [List.map_map]
  exact (List.filter_sublist).map _

theorem eraseStep_append (o c : Cst) (a b : Schema) :
    eraseStep o c (a ++ b) = eraseStep o c a ++ eraseStep o c b := by
  simp [eraseStep]

theorem eraseStep_zipper (o c : Cst) (done rest : Schema) (h : o.uid ≠ c.uid) :
    eraseStep o c done ++ [o.rename (subst1 c.alias o.alias)] ++ eraseStep o c rest =
      eraseStep o c (done ++ o :: rest) := by
  have : eraseStep o c [o] = [o.rename (subst1 c.alias o.alias)] := by
    simp [eraseStep, h]
  rw [show done ++ o :: rest = done ++ ([o] ++ rest) by simp, eraseStep_append, eraseStep_append, this]
  simp

theorem length_eraseStep_le (o c : Cst) (l : Schema) : (eraseStep o c l).length ≤ l.length := by
  unfold eraseStep
  rw [List.length_map]
  exact List.length_filter_le _ _

theorem length_eraseStep_lt (o c : Cst) (l : Schema) (hc : c ∈ l) : (eraseStep o c l).length < l.length := by
  unfold eraseStep
  rw [List.length_map]
  apply List.length_filter_lt_length_iff_exists.2
  exact ⟨c, hc, by simp⟩

theorem findCopy_some {o c : Cst} {l : Schema} (h : findCopy o l = some c) :
    c ∈ l ∧ c.uid ≠ o.uid ∧ o.same c = true := by
  unfold findCopy at h
  have h1 := List.mem_of_find?_eq_some h
  have h2 := List.find?_some h
  simp only [Bool.and_eq_true, bne_iff_ne, ne_eq] at h2
  exact ⟨h1, h2.1, h2.2⟩

theorem findCopy_none {o : Cst} {l : Schema} (h : findCopy o l = none) :
    ∀ c ∈ l, c.uid ≠ o.uid → o.same c = false := by
  unfold findCopy at h
  intro c hc hne
  have := List.find?_eq_none.1 h c hc
  simp only [Bool.and_eq_true, bne_iff_ne, ne_eq, not_and] at this
  cases hs : o.same c with
  | false => rfl
  | true => exact absurd hs (this hne)

theorem findCopy_none_of {o : Cst} {l : Schema} (h : ∀ c ∈ l, c.uid ≠ o.uid → o.same c = false) :
    findCopy o l = none := by
  unfold findCopy
  apply List.find?_eq_none.2
  intro c hc
  simp only [Bool.and_eq_true, bne_iff_ne, ne_eq, not_and]
  intro hne
  rw [h c hc hne]; simp

theorem same_iff (a b : Cst) :
    a.same b = true ↔ a.kind = b.kind ∧ a.definition = b.definition ∧ a.rest = b.rest := by
  unfold Cst.same
  simp [and_assoc]

/-! ### the invariant -/

/-- the renaming of mentions that translation `tr` induces between the original schema `l0` and
the current one `l`: the alias of an original constituent becomes the alias of its image; a name
that is no alias of `l0` stays -/
def finalAlias (l0 l : Schema) (tr : Tr) (a : String) : String :=
  match l0.find? (fun c0 => c0.alias == a) with
  | none => a
  | some c0 =>
    match l.find? (fun s => s.uid == image tr c0.uid) with
    | some s => s.alias
    | none => a

structure Inv (l0 l : Schema) (tr : Tr) : Prop where
  nodupU : (uids l).Nodup
  nodupA : (aliases l).Nodup
  part : (keys tr ++ uids l).Perm (uids l0)
  order : (uids l).Sublist (uids l0)
  vals : ∀ p ∈ tr, p.2 ∈ uids l
  kept : ∀ s ∈ l, ∃ c0 ∈ l0, c0.uid = s.uid ∧ c0.alias = s.alias
  repr : ∀ c0 ∈ l0, ∃ s ∈ l, s.uid = image tr c0.uid ∧ s.kind = c0.kind ∧
    s.definition = c0.definition.map (renTok (finalAlias l0 l tr)) ∧
    s.rest = c0.rest.map (·.map (renTok (finalAlias l0 l tr)))

theorem lookup_nil (k : Nat) : lookup [] k = none := rfl
theorem image_nil (u : Nat) : image [] u = u := rfl

theorem finalAlias_init (l0 : Schema) (hU : (uids l0).Nodup) (a : String) : finalAlias l0 l0 [] a = a := by
  unfold finalAlias
  cases h : l0.find? (fun c0 => c0.alias == a) with
  | none => rfl
  | some c0 =>
    have hm := List.mem_of_find?_eq_some h
    have ha : c0.alias = a := by simpa using List.find?_some h
    simp only [image_nil]
    rw [find?_of_mem_nodup (·.uid) l0 c0 hU hm]
    exact ha

theorem inv_init (l0 : Schema) (hU : (uids l0).Nodup) (hA : (aliases l0).Nodup) : Inv l0 l0 [] where
  nodupU := hU
  nodupA := hA
  part := by simp [keys]
  order := List.Sublist.refl _
  vals := by intro p hp; cases hp
  kept := fun s hs => ⟨s, hs, rfl, rfl⟩
  repr := by
    intro c0 hc0
    refine ⟨c0, hc0, rfl, rfl, ?_, ?_⟩
    · rw [List.map_congr_left (g := id)]
      · simp
      · intro t _; rw [renTok_congr (finalAlias_init l0 hU) t, renTok_id t]; rfl
    · rw [List.map_congr_left (g := id)]
      · simp
      · intro ts _
        rw [List.map_congr_left (g := id)]
        · simp
        · intro t _; rw [renTok_congr (finalAlias_init l0 hU) t, renTok_id t]; rfl

/-! ### one erase-and-rename step preserves the invariant -/

section Step
variable {l0 l : Schema} {tr : Tr} {o c : Cst}

theorem Inv.nodupAll (hU0 : (uids l0).Nodup) (h : Inv l0 l tr) : (keys tr ++ uids l).Nodup :=
  (h.part.nodup_iff).2 hU0

theorem Inv.not_key (hU0 : (uids l0).Nodup) (h : Inv l0 l tr) (hc : c ∈ l) : c.uid ∉ keys tr := by
  intro hk
  have := (List.nodup_append.1 (h.nodupAll hU0)).2.2 c.uid hk c.uid (List.mem_map.2 ⟨c, hc, rfl⟩)
  exact this rfl

theorem mem_eraseStep_of (hs : s ∈ l) (hne : s.uid ≠ c.uid) :
    s.rename (subst1 c.alias o.alias) ∈ eraseStep o c l :=
  (mem_eraseStep o c l _).2 ⟨s, hs, hne, rfl⟩

theorem nodupU_eraseStep (h : (uids l).Nodup) : (uids (eraseStep o c l)).Nodup := by
  rw [uids_eraseStep]; exact List.Nodup.sublist List.filter_sublist h

theorem find?_uid_eraseStep (hU : (uids l).Nodup) (hs : s ∈ l) (hne : s.uid ≠ c.uid) :
    (eraseStep o c l).find? (fun x => x.uid == s.uid) = some (s.rename (subst1 c.alias o.alias)) := by
  have := find?_of_mem_nodup (·.uid) (eraseStep o c l) (s.rename (subst1 c.alias o.alias))
    (nodupU_eraseStep hU) (mem_eraseStep_of hs hne)
  simpa using this

theorem finalAlias_step (h : Inv l0 l tr) (ho : o ∈ l) (hc : c ∈ l)
    (hne : o.uid ≠ c.uid) (a : String) :
    subst1 c.alias o.alias (finalAlias l0 l tr a) =
      finalAlias l0 (eraseStep o c l) (superposeWith tr [(c.uid, o.uid)]) a := by
  unfold finalAlias
  cases hf : l0.find? (fun c0 => c0.alias == a) with
  | none =>
    simp only
    have : a ≠ c.alias := by
      intro e
      rcases h.kept c hc with ⟨c0, hc0, _, hal⟩
      have := List.find?_eq_none.1 hf c0 hc0
      simp [hal, e] at this
    simp [subst1, this]
  | some c0 =>
    simp only
    have hc0 := List.mem_of_find?_eq_some hf
    rcases h.repr c0 hc0 with ⟨s, hs, hsu, -⟩
    have h1 : l.find? (fun x => x.uid == image tr c0.uid) = some s := by
      rw [← hsu]; exact find?_of_mem_nodup (·.uid) l s h.nodupU hs
    rw [h1, image_superpose_single, ← hsu]
    simp only
    by_cases hsc : s.uid = c.uid
    · have : s = c := eq_of_mem_nodup (·.uid) l s c h.nodupU hs hc hsc
      subst this
      have hr : redirect s.uid o.uid s.uid = o.uid := by simp [redirect]
      rw [hr, find?_uid_eraseStep h.nodupU ho hne]
      simp [subst1]
    · have hr : redirect c.uid o.uid s.uid = s.uid := by simp [redirect, hsc]
      rw [hr, find?_uid_eraseStep h.nodupU hs hsc]
      have : s.alias ≠ c.alias := fun e => hsc (congrArg Cst.uid (eq_of_mem_nodup (·.alias) l s c h.nodupA hs hc e))
      simp [subst1, this]

theorem map_renTok_step (h : Inv l0 l tr) (ho : o ∈ l) (hc : c ∈ l)
    (hne : o.uid ≠ c.uid) (ts : List Tok) :
    (ts.map (renTok (finalAlias l0 l tr))).map (renTok (subst1 c.alias o.alias)) =
      ts.map (renTok (finalAlias l0 (eraseStep o c l) (superposeWith tr [(c.uid, o.uid)]))) := by
  rw [List.map_map]
  apply List.map_congr_left
  intro t _
  simp only [Function.comp]
  rw [renTok_comp]
  exact renTok_congr (finalAlias_step h ho hc hne) t

theorem inv_eraseStep (hU0 : (uids l0).Nodup) (h : Inv l0 l tr) (ho : o ∈ l) (hc : c ∈ l)
    (hne : o.uid ≠ c.uid) (hsame : o.same c = true) :
    Inv l0 (eraseStep o c l) (superposeWith tr [(c.uid, o.uid)]) where
  nodupU := nodupU_eraseStep h.nodupU
  nodupA := List.Nodup.sublist (aliases_eraseStep_sublist o c l) h.nodupA
  part := by
    rw [keys_superpose_single tr c.uid o.uid (h.not_key hU0 hc), uids_eraseStep,
      ← List.Nodup.erase_eq_filter h.nodupU, List.append_assoc]
    refine List.Perm.trans (List.Perm.append_left _ ?_) h.part
    exact (List.perm_cons_erase (List.mem_map.2 ⟨c, hc, rfl⟩)).symm
  order := by rw [uids_eraseStep]; exact List.Sublist.trans List.filter_sublist h.order
  vals := by
    intro p hp
    rw [uids_eraseStep, List.mem_filter]
    rcases mem_superpose_single tr c.uid o.uid p hp with ⟨q, hq, rfl⟩ | rfl
    · simp only [redirect]
      by_cases hqc : q.2 = c.uid
      · simp only [hqc, if_true]
        exact ⟨List.mem_map.2 ⟨o, ho, rfl⟩, by simpa using hne⟩
      · simp only [hqc, if_false]
        exact ⟨h.vals q hq, by simpa using hqc⟩
    · exact ⟨List.mem_map.2 ⟨o, ho, rfl⟩, by simpa using hne⟩
  kept := by
    intro s' hs'
    rcases (mem_eraseStep o c l s').1 hs' with ⟨s, hs, _, rfl⟩
    exact h.kept s hs
  repr := by
    intro c0 hc0
    rcases h.repr c0 hc0 with ⟨s, hs, hsu, hk, hd, hr⟩
    rcases (same_iff o c).1 hsame with ⟨sk, sd, sr⟩
    by_cases hsc : s.uid = c.uid
    · have : s = c := eq_of_mem_nodup (·.uid) l s c h.nodupU hs hc hsc
      subst this
      refine ⟨_, mem_eraseStep_of ho hne, ?_, ?_, ?_, ?_⟩
      · rw [image_superpose_single, ← hsu]; simp [redirect]
      · simp [sk, hk]
      · rw [rename_definition, sd, hd]; exact map_renTok_step h ho hc hne _
      · rw [rename_rest, sr, hr, List.map_map]
        apply List.map_congr_left
        intro ts _
        exact map_renTok_step h ho hc hne ts
    · refine ⟨_, mem_eraseStep_of hs hsc, ?_, ?_, ?_, ?_⟩
      · rw [image_superpose_single, ← hsu]; simp [redirect, hsc]
      · simp [hk]
      · rw [rename_definition, hd]; exact map_renTok_step h ho hc hne _
      · rw [rename_rest, hr, List.map_map]
        apply List.map_congr_left
        intro ts _
        exact map_renTok_step h ho hc hne ts

end Step

/-! ### one pass of the outer `for` -/

theorem pass_nil (n : Nat) (done : Schema) (tr : Tr) (flag : Bool) :
    pass n done [] tr flag = some (done, tr, flag) := by
  cases n <;> rfl

theorem pass_cons (n : Nat) (done : Schema) (o : Cst) (rest : Schema) (tr : Tr) (flag : Bool) :
    pass (n + 1) done (o :: rest) tr flag =
      if o.isEmpty then pass n (done ++ [o]) rest tr flag
      else
        match findCopy o (done ++ o :: rest) with
        | none => pass n (done ++ [o]) rest tr flag
        | some c =>
          pass n (eraseStep o c done ++ [o.rename (subst1 c.alias o.alias)]) (eraseStep o c rest)
            (superposeWith tr [(c.uid, o.uid)]) true := rfl

theorem pass_inv {l0 : Schema} (hU0 : (uids l0).Nodup) (n : Nat) :
    ∀ (done todo : Schema) (tr : Tr) (flag : Bool) (l' : Schema) (tr' : Tr) (flag' : Bool),
      Inv l0 (done ++ todo) tr → pass n done todo tr flag = some (l', tr', flag') → Inv l0 l' tr' := by
  induction n with
  | zero =>
    intro done todo tr flag l' tr' flag' hi hp
    cases todo with
    | nil => rw [pass_nil] at hp; cases hp; simpa using hi
    | cons o rest => cases hp
  | succ n ih =>
    intro done todo tr flag l' tr' flag' hi hp
    cases todo with
    | nil => rw [pass_nil] at hp; cases hp; simpa using hi
    | cons o rest =>
      rw [pass_cons] at hp
      have hskip : Inv l0 ((done ++ [o]) ++ rest) tr := by simpa using hi
      split at hp
      · exact ih _ _ _ _ _ _ _ hskip hp
      · split at hp
        · exact ih _ _ _ _ _ _ _ hskip hp
        · rename_i c hc
          rcases findCopy_some hc with ⟨hcm, hne, hsame⟩
          refine ih _ _ _ _ _ _ _ ?_ hp
          rw [eraseStep_zipper o c done rest (fun e => hne e.symm)]
          exact inv_eraseStep hU0 hi (by simp) hcm (fun e => hne e.symm) hsame

theorem pass_total (n : Nat) :
    ∀ (done todo : Schema) (tr : Tr) (flag : Bool), todo.length ≤ n →
      ∃ r, pass n done todo tr flag = some r := by
  induction n with
  | zero =>
    intro done todo tr flag h
    cases todo with
    | nil => exact ⟨_, pass_nil _ _ _ _⟩
    | cons o rest => simp at h
  | succ n ih =>
    intro done todo tr flag h
    cases todo with
    | nil => exact ⟨_, pass_nil _ _ _ _⟩
    | cons o rest =>
      rw [pass_cons]
      have hr : rest.length ≤ n := by simpa using h
      split
      · exact ih _ _ _ _ hr
      · split
        · exact ih _ _ _ _ hr
        · exact ih _ _ _ _ (Nat.le_trans (length_eraseStep_le _ _ _) hr)

theorem pass_flag (n : Nat) :
    ∀ (done todo : Schema) (tr : Tr) (l' : Schema) (tr' : Tr) (flag' : Bool),
      pass n done todo tr true = some (l', tr', flag') → flag' = true := by
  induction n with
  | zero =>
    intro done todo tr l' tr' flag' hp
    cases todo with
    | nil => rw [pass_nil] at hp; cases hp; rfl
    | cons o rest => cases hp
  | succ n ih =>
    intro done todo tr l' tr' flag' hp
    cases todo with
    | nil => rw [pass_nil] at hp; cases hp; rfl
    | cons o rest =>
      rw [pass_cons] at hp
      split at hp
      · exact ih _ _ _ _ _ _ hp
      · split at hp
        · exact ih _ _ _ _ _ _ hp
        · exact ih _ _ _ _ _ _ hp

/-- the list never grows, and a pass that raises the flag has erased something -/
theorem pass_length (n : Nat) :
    ∀ (done todo : Schema) (tr : Tr) (flag : Bool) (l' : Schema) (tr' : Tr) (flag' : Bool),
      pass n done todo tr flag = some (l', tr', flag') →
        l'.length ≤ (done ++ todo).length ∧
        (flag' = true → flag = true ∨ l'.length < (done ++ todo).length) := by
  induction n with
  | zero =>
    intro done todo tr flag l' tr' flag' hp
    cases todo with
    | nil => rw [pass_nil] at hp; cases hp; simp
    | cons o rest => cases hp
  | succ n ih =>
    intro done todo tr flag l' tr' flag' hp
    cases todo with
    | nil => rw [pass_nil] at hp; cases hp; simp
    | cons o rest =>
      rw [pass_cons] at hp
      have hlen : ((done ++ [o]) ++ rest).length = (done ++ o :: rest).length := by simp
      split at hp
      · have := ih _ _ _ _ _ _ _ hp; rw [hlen] at this; exact this
      · split at hp
        · have := ih _ _ _ _ _ _ _ hp; rw [hlen] at this; exact this
        · rename_i c hc
          rcases findCopy_some hc with ⟨hcm, hne, _⟩
          have h := (ih _ _ _ _ _ _ _ hp).1
          rw [eraseStep_zipper o c done rest (fun e => hne e.symm)] at h
          have hlt := length_eraseStep_lt o c _ hcm
          exact ⟨by omega, fun _ => Or.inr (by omega)⟩

/-- a pass that ends with the flag down has changed nothing, and no non-empty constituent it
visited has a copy anywhere in the list -/
theorem pass_quiet (n : Nat) :
    ∀ (done todo : Schema) (tr : Tr) (l' : Schema) (tr' : Tr),
      pass n done todo tr false = some (l', tr', false) →
        l' = done ++ todo ∧ tr' = tr ∧
        ∀ o ∈ todo, o.isEmpty = true ∨ findCopy o (done ++ todo) = none := by
  induction n with
  | zero =>
    intro done todo tr l' tr' hp
    cases todo with
    | nil => rw [pass_nil] at hp; cases hp; simp
    | cons o rest => cases hp
  | succ n ih =>
    intro done todo tr l' tr' hp
    cases todo with
    | nil => rw [pass_nil] at hp; cases hp; simp
    | cons o rest =>
      rw [pass_cons] at hp
      have happ : (done ++ [o]) ++ rest = done ++ o :: rest := by simp
      split at hp
      · rename_i he
        have := ih _ _ _ _ _ hp
        rw [happ] at this
        refine ⟨this.1, this.2.1, ?_⟩
        intro x hx
        rcases List.mem_cons.1 hx with rfl | hx
        · exact Or.inl he
        · exact this.2.2 x hx
      · split at hp
        · rename_i hn
          have := ih _ _ _ _ _ hp
          rw [happ] at this
          refine ⟨this.1, this.2.1, ?_⟩
          intro x hx
          rcases List.mem_cons.1 hx with rfl | hx
          · exact Or.inr hn
          · exact this.2.2 x hx
        · have := pass_flag _ _ _ _ _ _ _ hp
          cases this

/-- conversely: without copies the pass changes nothing -/
theorem pass_nodups (n : Nat) :
    ∀ (done todo : Schema) (tr : Tr) (flag : Bool), todo.length ≤ n →
      (∀ o ∈ todo, o.isEmpty = true ∨ findCopy o (done ++ todo) = none) →
      pass n done todo tr flag = some (done ++ todo, tr, flag) := by
  induction n with
  | zero =>
    intro done todo tr flag hl h
    cases todo with
    | nil => rw [pass_nil]; simp
    | cons o rest => simp at hl
  | succ n ih =>
    intro done todo tr flag hl h
    cases todo with
    | nil => rw [pass_nil]; simp
    | cons o rest =>
      rw [pass_cons]
      have happ : (done ++ [o]) ++ rest = done ++ o :: rest := by simp
      have hr : rest.length ≤ n := by simpa using hl
      have hrest : ∀ x ∈ rest, x.isEmpty = true ∨ findCopy x ((done ++ [o]) ++ rest) = none := by
        intro x hx; rw [happ]; exact h x (List.mem_cons_of_mem _ hx)
      rcases h o (by simp) with he | hn
      · simp only [he, if_true]
        rw [ih _ _ _ _ hr hrest, happ]
      · rw [hn]
        simp only
        rw [ih _ _ _ _ hr hrest, happ]
        simp

/-! ### the `while` -/

theorem loop_succ (n : Nat) (l : Schema) (tr : Tr) :
    loop (n + 1) l tr =
      match pass l.length [] l tr false with
      | none => none
      | some (l', tr', true) => loop n l' tr'
      | some (l', tr', false) => some (l', tr') := rfl

theorem loop_total (n : Nat) : ∀ (l : Schema) (tr : Tr), l.length < n → ∃ r, loop n l tr = some r := by
  induction n with
  | zero => intro l tr h; omega
  | succ n ih =>
    intro l tr h
    rw [loop_succ]
    rcases pass_total l.length [] l tr false (Nat.le_refl _) with ⟨⟨l', tr', f⟩, hp⟩
    rw [hp]
    cases f with
    | false => exact ⟨_, rfl⟩
    | true =>
      simp only
      have := (pass_length _ _ _ _ _ _ _ _ hp).2 rfl
      simp only [Bool.false_eq_true, List.nil_append, false_or] at this
      exact ih l' tr' (by omega)

/-- the content of the schema when `DeleteDuplicatesInternal` returns: no non-empty constituent
has an identical one beside it -/
def NoCopies (l : Schema) : Prop := ∀ o ∈ l, o.isEmpty = true ∨ findCopy o l = none

theorem loop_inv {l0 : Schema} (hU0 : (uids l0).Nodup) (n : Nat) :
    ∀ (l : Schema) (tr : Tr) (r : Schema) (tr' : Tr),
      Inv l0 l tr → loop n l tr = some (r, tr') → Inv l0 r tr' := by
  induction n with
  | zero => intro l tr r tr' _ h; cases h
  | succ n ih =>
    intro l tr r tr' hi h
    rw [loop_succ] at h
    split at h
    · cases h
    · rename_i l1 tr1 hp
      exact ih _ _ _ _ (pass_inv hU0 _ _ _ _ _ _ _ _ (by simpa using hi) hp) h
    · rename_i l1 tr1 hp
      cases h
      exact pass_inv hU0 _ _ _ _ _ _ _ _ (by simpa using hi) hp

theorem loop_noCopies (n : Nat) :
    ∀ (l : Schema) (tr : Tr) (r : Schema) (tr' : Tr), loop n l tr = some (r, tr') → NoCopies r := by
  induction n with
  | zero => intro l tr r tr' h; cases h
  | succ n ih =>
    intro l tr r tr' h
    rw [loop_succ] at h
    split at h
    · cases h
    · exact ih _ _ _ _ h
    · rename_i l1 tr1 hp
      cases h
      have := pass_quiet _ _ _ _ _ _ hp
      simp only [List.nil_append] at this
      rw [this.1]
      exact this.2.2

theorem loop_of_noCopies (n : Nat) (l : Schema) (tr : Tr) (h : NoCopies l) :
    loop (n + 1) l tr = some (l, tr) := by
  rw [loop_succ, pass_nodups l.length [] l tr false (Nat.le_refl _) (by simpa [NoCopies] using h)]
  simp

end CCVerif.Dedup
