import CCVerif.Lemmas.ParserWf
set_option linter.unusedVariables false
set_option linter.unusedSectionVars false
/-!
The parser model only builds trees of the executable grammar `Wf.wf` (prover-Wf) — part 2: the invariant of the
twelve parser functions (same proof scripts as `Lemmas/ParserShapeSteps.lean`, for the predicate `Wf.wfR`).
-/
namespace CCVerif.ParserWf
open CCVerif.Syntax CCVerif.Generated CCVerif.Lexer CCVerif.Parser CCVerif.Wf

/-- the category of `Wf.shape` that a nonterminal of the parser belongs to -/
def catK : K → Cat
  | .set | .setBin => .S
  | _ => .L

theorem catK_cases (k : K) : catK k = .S ∨ catK k = .L := by cases k <;> simp [catK]
theorem catK_isSet {k : K} (h : k.isSet = true) : catK k = .S := by cases k <;> simp_all [catK, K.isSet]
theorem catK_isLogic {k : K} (h : k.isLogic = true) : catK k = .L := by cases k <;> simp_all [catK, K.isLogic]
theorem catK_isLogicAll {k : K} (h : k.isLogicAll = true) : catK k = .L := by cases k <;> simp_all [catK, K.isLogicAll]
theorem catK_isNoBinary {k : K} (h : k.isNoBinary = true) : catK k = .L := by cases k <;> simp_all [catK, K.isNoBinary]

/-- argument declaration `x ∈ dom` (raw) -/
def RawArg (a : Ast) : Prop := RawWf .AD a
def AllRawArg (l : List Ast) : Prop := ∀ k, k ∈ l → RawArg k

@[simp] theorem allRawArg_nil : AllRawArg [] := by intro k h; cases h
theorem allRawArg_append (l₁ l₂ : List Ast) : AllRawArg (l₁ ++ l₂) ↔ AllRawArg l₁ ∧ AllRawArg l₂ := by
  simp only [AllRawArg, List.mem_append]
  exact ⟨fun h => ⟨fun k hk => h k (Or.inl hk), fun k hk => h k (Or.inr hk)⟩, fun h k hk => hk.elim (h.1 k) (h.2 k)⟩
theorem allRawArg_single (a : Ast) : AllRawArg [a] ↔ RawArg a := by simp [AllRawArg]

theorem raw_argDecl {l : LTok} {e : Ast} {lo hi : Int} (hl : TokOK l) (hid : l.id = .ID_LOCAL) (he : RawWf .S e) :
    RawArg (.node .NT_ARG_DECL .none lo hi [leaf l, e]) := by
  obtain ⟨e', se, we⟩ := he
  obtain ⟨l', sl, wl⟩ := raw_leaf_cat (c := .LO) hl (by rw [hid]; rfl) (by rw [hid]; rfl) (by rw [hid]; decide)
  exact rawWf_node (by decide) (ParserShape.strip2 sl se) (wfR_seq (cs := [.LO, .S]) rfl rfl (wfSeqR2 wl we))

/-! ## results -/

def ResT : Option (K × Ast × Toks) → Prop
  | some (k, e, r) => RawWf (catK k) e ∧ AllOK r
  | none => True
/-- `primary`: moreover a phrase that starts with `ℬ` is a set expression that is not a binary one -/
def ResP (toks : Toks) : Option (K × Ast × Toks) → Prop
  | some (k, e, r) => RawWf (catK k) e ∧ AllOK r ∧ (peek toks = .BOOLEAN → k = .set)
  | none => True
def ResV : Option (Ast × Toks) → Prop
  | some (e, r) => RawWf .V e ∧ AllOK r
  | none => True
/-- list loops: the new elements are raw trees of category `c`, at least `min` of them -/
def ResL (c : Cat) (min : Nat) (acc : List Ast) : Option (List Ast × Toks) → Prop
  | some (es, r) => (AllRaw c acc → AllRaw c es) ∧ acc.length + min ≤ es.length ∧ AllOK r
  | none => True
def ResA (acc : List Ast) : Option (List Ast × Toks) → Prop
  | some (es, r) => (AllRawArg acc → AllRawArg es) ∧ AllOK r
  | none => True

theorem resT_some {k : K} {e : Ast} {r : Toks} : ResT (some (k, e, r)) ↔ RawWf (catK k) e ∧ AllOK r := Iff.rfl
theorem resP_some {toks : Toks} {k : K} {e : Ast} {r : Toks} :
    ResP toks (some (k, e, r)) ↔ RawWf (catK k) e ∧ AllOK r ∧ (peek toks = .BOOLEAN → k = .set) := Iff.rfl
theorem resV_some {e : Ast} {r : Toks} : ResV (some (e, r)) ↔ RawWf .V e ∧ AllOK r := Iff.rfl
theorem resL_some {c : Cat} {min : Nat} {acc es : List Ast} {r : Toks} :
    ResL c min acc (some (es, r)) ↔ (AllRaw c acc → AllRaw c es) ∧ acc.length + min ≤ es.length ∧ AllOK r := Iff.rfl
theorem resA_some {acc es : List Ast} {r : Toks} :
    ResA acc (some (es, r)) ↔ (AllRawArg acc → AllRawArg es) ∧ AllOK r := Iff.rfl
grind_pattern resT_some => ResT (some (k, e, r))
grind_pattern resP_some => ResP toks (some (k, e, r))
grind_pattern resV_some => ResV (some (e, r))
grind_pattern resL_some => ResL c min acc (some (es, r))
grind_pattern resA_some => ResA acc (some (es, r))

theorem resT_intro {o : Option (K × Ast × Toks)}
    (h : ∀ k e r, o = some (k, e, r) → RawWf (catK k) e ∧ AllOK r) : ResT o := by
  cases o with
  | none => trivial
  | some x => obtain ⟨k, e, r⟩ := x; exact h k e r rfl
theorem resP_intro {toks : Toks} {o : Option (K × Ast × Toks)}
    (h : ∀ k e r, o = some (k, e, r) → RawWf (catK k) e ∧ AllOK r ∧ (peek toks = .BOOLEAN → k = .set)) : ResP toks o := by
  cases o with
  | none => trivial
  | some x => obtain ⟨k, e, r⟩ := x; exact h k e r rfl
theorem resV_intro {o : Option (Ast × Toks)} (h : ∀ e r, o = some (e, r) → RawWf .V e ∧ AllOK r) : ResV o := by
  cases o with
  | none => trivial
  | some x => obtain ⟨e, r⟩ := x; exact h e r rfl
theorem resL_intro {c : Cat} {min : Nat} {acc : List Ast} {o : Option (List Ast × Toks)}
    (h : ∀ es r, o = some (es, r) → (AllRaw c acc → AllRaw c es) ∧ acc.length + min ≤ es.length ∧ AllOK r) :
    ResL c min acc o := by
  cases o with
  | none => trivial
  | some x => obtain ⟨es, r⟩ := x; exact h es r rfl
theorem resA_intro {acc : List Ast} {o : Option (List Ast × Toks)}
    (h : ∀ es r, o = some (es, r) → (AllRawArg acc → AllRawArg es) ∧ AllOK r) : ResA acc o := by
  cases o with
  | none => trivial
  | some x => obtain ⟨es, r⟩ := x; exact h es r rfl

/-- 1 when the next token is a comma (one more element is certain), else 0 -/
def commaMin (toks : Toks) : Nat := if peek toks = .PUNC_COMMA then 1 else 0

/-- what is proved of each parser function at one value of the fuel -/
structure ParserWf (f : Nat) : Prop where
  enumE : ∀ toks, AllOK toks → ResL .S 1 [] (enumE f toks)
  enumTail : ∀ acc toks, AllOK toks → ResL .S (commaMin toks) acc (enumTail f acc toks)
  varE : ∀ toks, AllOK toks → ResV (varE f toks)
  varPackTail : ∀ acc toks, AllOK toks → ResL .V 0 acc (varPackTail f acc toks)
  argDecls : ∀ acc toks, AllOK toks → ResA acc (argDecls f acc toks)
  blocks : ∀ acc toks, AllOK toks → ResL .L 1 acc (blocks f acc toks)
  primary : ∀ toks, AllOK toks → ResP toks (primary f toks)
  setE : ∀ m toks, AllOK toks → ResT (setE f m toks)
  setLoop : ∀ m k lhs toks, RawWf (catK k) lhs → AllOK toks → ResT (setLoop f m k lhs toks)
  predE : ∀ toks, AllOK toks → ResT (predE f toks)
  logE : ∀ m toks, AllOK toks → ResT (logE f m toks)
  logLoop : ∀ m k lhs toks, RawWf (catK k) lhs → AllOK toks → ResT (logLoop f m k lhs toks)

grind_pattern ParserWf.enumE => ParserWf f, AllOK toks, Parser.enumE f toks
grind_pattern ParserWf.enumTail => ParserWf f, AllOK toks, Parser.enumTail f acc toks
grind_pattern ParserWf.varE => ParserWf f, AllOK toks, Parser.varE f toks
grind_pattern ParserWf.varPackTail => ParserWf f, AllOK toks, Parser.varPackTail f acc toks
grind_pattern ParserWf.argDecls => ParserWf f, AllOK toks, Parser.argDecls f acc toks
grind_pattern ParserWf.blocks => ParserWf f, AllOK toks, Parser.blocks f acc toks
grind_pattern ParserWf.primary => ParserWf f, AllOK toks, Parser.primary f toks
grind_pattern ParserWf.setE => ParserWf f, AllOK toks, Parser.setE f m toks
grind_pattern ParserWf.setLoop => ParserWf f, Parser.setLoop f m k lhs toks
grind_pattern ParserWf.predE => ParserWf f, AllOK toks, Parser.predE f toks
grind_pattern ParserWf.logE => ParserWf f, AllOK toks, Parser.logE f m toks
grind_pattern ParserWf.logLoop => ParserWf f, Parser.logLoop f m k lhs toks

theorem parserWf_zero : ParserWf 0 := by
  constructor <;> intros <;> simp [enumE, enumTail, varE, varPackTail, argDecls, blocks, primary, setE, setLoop, predE, logE, logLoop, ResT, ResP, ResV, ResL, ResA]

/-- case analysis of the function body held in `h` -/
macro "parser_cases" h:ident : tactic =>
  `(tactic| ((try simp only [] at $h:ident); repeat' (split at $h:ident)))

/-- token comparisons of the parser as equations -/
macro "tok_eqs" : tactic =>
  `(tactic| simp only [tok_beq_iff, Bool.and_eq_true, Bool.or_eq_true, Bool.not_eq_true, bne_iff_ne, ne_eq] at *)

grind_pattern allOK_drop => AllOK ts, List.drop n ts

macro "shape_close" : tactic =>
  `(tactic| grind (gen := 20) (ematch := 20) [allOK_cons, allOK_nil, allRaw_cons, allRaw_nil, allRaw_append, catK,
      catK_isSet, catK_isLogic, catK_isLogicAll, catK_isNoBinary, catK_cases,
      raw_removeBrackets, raw_binary_set, raw_decartian, raw_binary_pred, raw_binary_logic, raw_binary_iter,
      raw_leaf, raw_leaf_decl, raw_textOperator, raw_unary_boolean, raw_unary_not, raw_filter,
      raw_declarative, raw_recursive_full, raw_recursive_short, raw_imperative, raw_enumeration, raw_tuple,
      raw_quant, raw_de_of_d, raw_enumDecl, raw_tupleDecl, raw_local_decl, raw_call_S, raw_call_L, leaf, peek, peek2, commaMin])

theorem step_setE (f : Nat) (ih : ParserWf f) :
    ∀ m toks k e r, AllOK toks → setE (f + 1) m toks = some (k, e, r) → RawWf (catK k) e ∧ AllOK r := by
  intro m toks k e r ht h
  rw [setE.eq_def] at h; parser_cases h
  all_goals try (cases h; done)
  all_goals shape_close

theorem step_setLoop (f : Nat) (ih : ParserWf f) :
    ∀ m k lhs toks k' e r, RawWf (catK k) lhs → AllOK toks → setLoop (f + 1) m k lhs toks = some (k', e, r) →
    RawWf (catK k') e ∧ AllOK r := by
  intro m k lhs toks k' e r hl ht h
  rw [setLoop.eq_def] at h; parser_cases h
  all_goals try (cases h; done)
  all_goals try tok_eqs
  all_goals shape_close

theorem step_logE (f : Nat) (ih : ParserWf f) :
    ∀ m toks k e r, AllOK toks → logE (f + 1) m toks = some (k, e, r) → RawWf (catK k) e ∧ AllOK r := by
  intro m toks k e r ht h
  rw [logE.eq_def] at h; parser_cases h
  all_goals try (cases h; done)
  all_goals shape_close

theorem step_logLoop (f : Nat) (ih : ParserWf f) :
    ∀ m k lhs toks k' e r, RawWf (catK k) lhs → AllOK toks → logLoop (f + 1) m k lhs toks = some (k', e, r) →
    RawWf (catK k') e ∧ AllOK r := by
  intro m k lhs toks k' e r hl ht h
  rw [logLoop.eq_def] at h; parser_cases h
  all_goals try (cases h; done)
  all_goals try tok_eqs
  all_goals shape_close

theorem step_predE (f : Nat) (ih : ParserWf f) :
    ∀ toks k e r, AllOK toks → predE (f + 1) toks = some (k, e, r) → RawWf (catK k) e ∧ AllOK r := by
  intro toks k e r ht h
  rw [predE.eq_def] at h; parser_cases h
  all_goals try (cases h; done)
  all_goals try tok_eqs
  all_goals shape_close

theorem step_varE (f : Nat) (ih : ParserWf f) :
    ∀ toks v r, AllOK toks → varE (f + 1) toks = some (v, r) → RawWf .V v ∧ AllOK r := by
  intro toks v r ht h
  rw [varE.eq_def] at h; parser_cases h
  all_goals try (cases h; done)
  all_goals try tok_eqs
  all_goals shape_close

theorem step_enumE (f : Nat) (ih : ParserWf f) :
    ∀ toks es r, AllOK toks → enumE (f + 1) toks = some (es, r) →
    (AllRaw .S [] → AllRaw .S es) ∧ ([] : List Ast).length + 1 ≤ es.length ∧ AllOK r := by
  intro toks es r ht h
  rw [enumE.eq_def] at h; parser_cases h
  all_goals try (cases h; done)
  all_goals try tok_eqs
  all_goals shape_close

theorem step_enumTail (f : Nat) (ih : ParserWf f) :
    ∀ acc toks es r, AllOK toks → enumTail (f + 1) acc toks = some (es, r) →
    (AllRaw .S acc → AllRaw .S es) ∧ acc.length + commaMin toks ≤ es.length ∧ AllOK r := by
  intro acc toks es r ht h
  rw [enumTail.eq_def] at h; parser_cases h
  all_goals try (cases h; done)
  all_goals try tok_eqs
  all_goals shape_close

theorem step_varPackTail (f : Nat) (ih : ParserWf f) :
    ∀ acc toks es r, AllOK toks → varPackTail (f + 1) acc toks = some (es, r) →
    (AllRaw .V acc → AllRaw .V es) ∧ acc.length + 0 ≤ es.length ∧ AllOK r := by
  intro acc toks es r ht h
  rw [varPackTail.eq_def] at h; parser_cases h
  all_goals try (cases h; done)
  all_goals try tok_eqs
  all_goals shape_close

theorem step_blocks (f : Nat) (ih : ParserWf f) :
    ∀ acc toks es r, AllOK toks → blocks (f + 1) acc toks = some (es, r) →
    (AllRaw .L acc → AllRaw .L es) ∧ acc.length + 1 ≤ es.length ∧ AllOK r := by
  intro acc toks es r ht h
  rw [blocks.eq_def] at h; parser_cases h
  all_goals try (cases h; done)
  all_goals try tok_eqs
  all_goals shape_close

theorem step_argDecls (f : Nat) (ih : ParserWf f) :
    ∀ acc toks es r, AllOK toks → argDecls (f + 1) acc toks = some (es, r) →
    (AllRawArg acc → AllRawArg es) ∧ AllOK r := by
  intro acc toks es r ht h
  rw [argDecls.eq_def] at h; parser_cases h
  all_goals try (cases h; done)
  all_goals try tok_eqs
  all_goals grind (gen := 20) (ematch := 20) [allOK_cons, allOK_nil, allRawArg_append, allRawArg_single, raw_argDecl,
    catK_isSet]



end CCVerif.ParserWf
