import CCVerif.Lemmas.EvalFrag
import CCVerif.Lemmas.EvalUnfold4
/-! Quantifiers with an enumerated declaration `Q x₁,…,xₙ ∈ S . P` (stage 5 of the C01 / C02 fragments):
what `Normalizer::EnumDeclaration` makes of them (`nest`: one quantifier per variable, each over a copy of
the domain), and the simulation of the nested quantifiers against the reference semantics of the
un-normalised tree (`quantSem` over the whole declaration list, the domain denoted once).

The copies of the domain are evaluated inside the scope of the earlier variables.  That this is harmless
rests on two facts: the domain is typed outside the variables (it cannot mention them), and every binder
puts the previous value of its slot back (`SlotGuard`), so evaluating a copy leaves the slots of the
variables already bound untouched even when the domain binds a variable of the same name. -/
namespace CCVerif.Eval
open CCVerif.Syntax CCVerif.Spec CCVerif.Norm
open Val Ty

/-! ## unfolding -/

theorem quantSem_nil (univ : Bool) (dom : List Val) (body : LEnv → Option Bool) (ρ : LEnv) :
    quantSem univ dom body [] ρ = body ρ := by simp [quantSem]

theorem quantSem_cons (univ : Bool) (dom : List Val) (body : LEnv → Option Bool) (q : EDecl) (ds : List Ast) (ρ : LEnv) :
    quantSem univ dom body (declNode q :: ds) ρ =
      (let rs := dom.map fun v => quantSem univ dom body ds (.val q.1 v ρ)
       if univ then kAll rs else kAny rs) := by
  simp only [quantSem, declNode, bindPat_local]

/-- `Q d₁,…,dₙ ∈ D . body`: the domain is denoted once, the declarations range over all combinations -/
theorem denote_quantEnum {t : Tok} (ht : isQuant t) (env : SEnv) (fuel : Nat) (ρ : LEnv) (dd : TokData) (dlo dhi : Int)
    (decls : List Ast) (dom body : Ast) (d : TokData) (lo hi : Int) :
    denote env (fuel + 1) ρ (.node t d lo hi [.node .NT_ENUM_DECL dd dlo dhi decls, dom, body]) =
      match dSet (denote env fuel ρ dom) with
      | none => none
      | some vs =>
        (quantSem (t == .FORALL) vs (fun ρ' => dBool (denote env fuel ρ' body)) decls ρ).map SemVal.bool := by
  rcases ht with rfl | rfl <;>
  · simp only [denote, Ast.id, Ast.kids, List.getElem?_cons_zero, List.getElem?_cons_succ, Option.getD_some]
    simp only [show (Tok.NT_ENUM_DECL == Tok.NT_ENUM_DECL) = true by decide, if_true]
    rfl

/-! ## scopes -/

/-- `ρ'` gives the variables of `Γ` the values `ρ` gives them -/
def AgreeOn (Γ : TCtx) (ρ ρ' : LEnv) : Prop := ∀ y σ, lookup y Γ = some σ → ρ'.find y = ρ.find y

theorem AgreeOn.refl (Γ : TCtx) (ρ : LEnv) : AgreeOn Γ ρ ρ := fun _ _ _ => rfl

theorem AgreeOn.bind {Γ : TCtx} {ρ ρ' : LEnv} (h : AgreeOn Γ ρ ρ') {x : String} (v : Val) (hx : lookup x Γ = none) :
    AgreeOn Γ ρ (.val x v ρ') := by
  intro y σ hy
  have e : y ≠ x := by intro e; subst e; rw [hx] at hy; cases hy
  rw [find_val_ne _ _ e]; exact h y σ hy

/-- the invariant only looks at the variables in scope -/
theorem Inv.of_agree {env : Env} {c : Ctx} {rz : Rz} {Γ : TCtx} {ρ ρ' : LEnv} {st : St} (h : Inv env c rz Γ ρ st)
    (ha : AgreeOn Γ ρ ρ') : Inv env c rz Γ ρ' st := by
  refine ⟨h.range, h.inj, h.glob, ?_, h.dom⟩
  intro y σ hy
  obtain ⟨a1, a2, v, a3, a4, a5⟩ := h.loc y σ hy
  exact ⟨a1, a2, v, by rw [ha y σ hy]; exact a3, a4, a5⟩

/-- … and holds for every smaller scope -/
theorem Inv.weaken {env : Env} {c : Ctx} {rz : Rz} {Γ Γ' : TCtx} {ρ : LEnv} {st : St} (h : Inv env c rz Γ' ρ st)
    (hsub : ∀ y σ, lookup y Γ = some σ → lookup y Γ' = some σ)
    (hdom : ∀ x r, lookup x rz = some r → ∃ τ, lookup x Γ = some τ) : Inv env c rz Γ ρ st := by
  refine ⟨h.range, h.inj, h.glob, fun y σ hy => h.loc y σ (hsub y σ hy), ?_⟩
  intro x r hl
  obtain ⟨_, b1, b2⟩ := h.dom x r hl
  refine ⟨hdom x r hl, ?_, b2⟩
  cases hr : lookup r.1 Γ with
  | none => rfl
  | some τ => rw [hsub r.1 τ hr] at b1; cases b1

theorem declCtx_snoc (τ : Ty) (Γ : TCtx) (xs : List EDecl) (q : EDecl) : declCtx τ Γ (xs ++ [q]) = (q.1, τ) :: declCtx τ Γ xs := by
  simp [declCtx]

theorem lookup_declCtx (τ : Ty) (y : String) : ∀ (xs : List EDecl) (Γ : TCtx), y ∉ xs.map (·.1) →
    lookup y (declCtx τ Γ xs) = lookup y Γ
  | [], _, _ => rfl
  | q :: xs, Γ, h => by
    have h1 : y ≠ q.1 := by intro e; exact h (by simp [e])
    have h2 : y ∉ xs.map (·.1) := by intro e; exact h (by simp [e])
    show lookup y (declCtx τ ((q.1, τ) :: Γ) xs) = lookup y Γ
    rw [lookup_declCtx τ y xs _ h2, lookup_cons_ne _ _ h1]

/-! ## the nested quantifiers against the enumerated declaration -/

theorem nest_sim {env : Env} (c : Ctx) (rz : Rz) (Γ : TCtx) {t : Tok} (ht : isQuant t) (d : TokData) (lo hi : Int)
    (dom dom' body body' : Ast) (τ : Ty) (xs : List EDecl) (hne : 1 ≤ xs.length)
    (hnd : (xs.map (·.1)).Nodup)
    (hfresh : ∀ q ∈ xs, lookup q.1 Γ = none ∧ lookup q.1 env.globals = none ∧ ∀ r ∈ rz, r.2.1 ≠ q.1)
    (hdomΓ : ∀ x r, lookup x rz = some r → ∃ τ, lookup x Γ = some τ)
    (hslots : ∀ q ∈ xs, ∃ var, lookup q.1 c.ids = some var)
    (hS : ∀ fuel p st ρ, Inv env c rz Γ ρ st →
      Res env fuel ρ dom (fun st' => st'.data = st.data ∧ st.iters ≤ st'.iters) (.ty (.coll τ)) (ev c fuel dom' p st))
    (hP : ∀ fuel p st ρ, Inv env c rz (declCtx τ Γ xs) ρ st →
      Res env fuel ρ body (fun st' => st'.data = st.data ∧ st.iters ≤ st'.iters) .logic (ev c fuel body' p st))
    (ρ : LEnv) (F : Nat) (vs : List Val)
    (hvs : ∀ ρ', AgreeOn Γ ρ ρ' → ∀ g, F ≤ g → denote (senvOf env) g ρ' dom = some (.val (.s vs))) :
    ∀ (todo done : List EDecl), xs = done ++ todo → ∀ (fk : Nat), fk + done.length ≤ F + 1 →
      ∀ (p : Option Tok) (st : St) (ρk : LEnv), Inv env c rz (declCtx τ Γ done) ρk st → AgreeOn Γ ρ ρk →
      (∃ b st', ev c fk (nest t d lo hi dom' body' todo) p st = .ok (.bool b) st' ∧ st'.data = st.data ∧
        st.iters ≤ st'.iters ∧
        ∀ g, F ≤ g → quantSem (t == .FORALL) vs (fun ρ' => dBool (denote (senvOf env) g ρ' body)) (todo.map declNode) ρk =
          some b) ∨
      Bad (ev c fk (nest t d lo hi dom' body' todo) p st)
  | [], done, hx, fk, hfk, p, st, ρk, hinv, hag => by
    have hd : done = xs := by simp [hx]
    subst hd
    rcases hP fk p st ρk hinv with ⟨b, st', hb, ⟨e1, m1⟩, hdn⟩ | hbad
    · left
      refine ⟨b, st', hb, e1, m1, ?_⟩
      intro g hg
      simp only [List.map_nil, quantSem_nil]
      rw [hdn g (by omega)]; rfl
    · exact Or.inr hbad
  | q :: rest, done, hx, fk, hfk, p, st, ρk, hinv, hag => by
    cases fk with
    | zero => exact Or.inr (by rw [ev_zero]; exact bad_outOfFuel _)
    | succ f =>
      have hq : q ∈ xs := by rw [hx]; simp
      obtain ⟨hqΓ, hqg, hqz⟩ := hfresh q hq
      obtain ⟨var, hvar⟩ := hslots q hq
      have hndx : (done.map (·.1) ++ q.1 :: rest.map (·.1)).Nodup := by
        have := hnd; rw [hx] at this; simpa using this
      have hqdone : q.1 ∉ done.map (·.1) := by
        intro hm
        have := (List.nodup_append.mp hndx).2.2
        exact this _ hm _ (by simp) rfl
      have hqctx : lookup q.1 (declCtx τ Γ done) = none := by rw [lookup_declCtx τ q.1 done Γ hqdone]; exact hqΓ
      -- the scope of the domain is contained in the current one
      have hsub : ∀ y σ, lookup y Γ = some σ → lookup y (declCtx τ Γ done) = some σ := by
        intro y σ hy
        rw [lookup_declCtx τ y done Γ]; exact hy
        intro hm
        obtain ⟨q0, hq0, rfl⟩ := List.mem_map.mp hm
        have := (hfresh q0 (by rw [hx]; simp [hq0])).1
        rw [this] at hy; cases hy
      have hinvΓ : Inv env c rz Γ ρk st := hinv.weaken hsub hdomΓ
      show (∃ b st', ev c (f + 1) (.node t d lo hi [.node .ID_LOCAL (.text q.1) q.2.1 q.2.2 [], dom',
          nest t d lo hi dom' body' rest]) p st = _ ∧ _) ∨ Bad (ev c (f + 1) (.node t d lo hi
          [.node .ID_LOCAL (.text q.1) q.2.1 q.2.2 [], dom', nest t d lo hi dom' body' rest]) p st)
      rw [ev_quant ht]
      rcases hS f (some t) st ρk hinvΓ with ⟨v1, st1, h1, ⟨p1, m1⟩, w1, n1, d1⟩ | ⟨fl, k, hb, hf⟩
      · obtain ⟨xs1, rfl⟩ := WF_coll_isSet w1
        -- the copy of the domain has the value of the domain
        have hxs1 : xs1 = vs := by
          have a1 := d1 (max f F) (Nat.le_max_left _ _)
          have a2 := hvs ρk hag (max f F) (Nat.le_max_right _ _)
          rw [a1] at a2
          injection a2 with a2; injection a2 with a2; injection a2
        subst hxs1
        have hn : noAny τ = true := by simpa [noAny] using n1
        have hinv1 : Inv env c rz (declCtx τ Γ done) ρk st1 := hinv.of_data p1
        obtain ⟨saved, hsaved⟩ : ∃ saved, st1.data[var]? = some saved :=
          ⟨st1.data[var]'(hinv1.range q.1 var hvar), by simp [hinv1.range q.1 var hvar]⟩
        simp only [h1, R.asSet, hvar, hsaved]
        rcases quantLoop_sim (ι := { g : Nat // F ≤ g }) (fun s => s.data.set var saved = st1.data ∧ st.iters ≤ s.iters)
            (fun st => ev c f (nest t d lo hi dom' body' rest) (some t) st)
            (fun i v => quantSem (t == .FORALL) xs1 (fun ρ' => dBool (denote (senvOf env) i.1 ρ' body)) (rest.map declNode)
              (.val q.1 v ρk)) var (t == .FORALL) lo xs1
            (fun v hv st' hp' => by
              have hinvs : Inv env c rz (declCtx τ Γ done) ρk st' := hinv1.of_set hqctx hqg hqz hvar hp'.1
              have hinv' : Inv env c rz (declCtx τ Γ (done ++ [q])) (.val q.1 v ρk)
                  { data := st'.data.set var v, iters := st'.iters + 1 } := by
                rw [declCtx_snoc]
                exact hinvs.bind _ hqctx hqg hqz hvar hn (w1.mem hv)
              rcases nest_sim c rz Γ ht d lo hi dom dom' body body' τ xs hne hnd hfresh hdomΓ hslots hS hP ρ F xs1 hvs rest (done ++ [q])
                  (by simp [hx]) f (by simp at hfk ⊢; omega) (some t) _ (.val q.1 v ρk) hinv' (hag.bind v hqΓ) with
                ⟨b, st'', hb, e'', m'', hd⟩ | hbad
              · exact Or.inl ⟨b, st'', hb, ⟨by rw [e'']; simp only [List.set_set]; exact hp'.1,
                  by have := hp'.2; simp at m''; omega⟩, fun i => hd i.1 i.2⟩
              · exact Or.inr hbad) st1 ⟨set_self _ _ _ hsaved, m1⟩ with
          ⟨b, st2, h2, ⟨p2, m2⟩, hk⟩ | hbad
        · left
          rw [h2]
          refine ⟨b, _, rfl, by show st2.data.set var saved = st.data; rw [p2, p1], m2, ?_⟩
          intro g hg
          simp only [List.map_cons, quantSem_cons]
          exact hk ⟨g, hg⟩
        · exact Or.inr (by obtain ⟨fl, k, hb, hf⟩ := hbad; exact ⟨fl, k, by rw [hb]; rfl, hf⟩)
      · exact Or.inr ⟨fl, k, by simp [hb, R.asSet], hf⟩

end CCVerif.Eval
