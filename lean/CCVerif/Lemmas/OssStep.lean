import CCVerif.Model.Oss
import CCVerif.Lemmas.Oss
import CCVerif.Lemmas.OssRel
import CCVerif.Lemmas.OssInv
import CCVerif.Lemmas.OssTop
import CCVerif.Lemmas.OssExec
/-!
C19, freshness: the calls that change the structure (`InsertBase`, `InsertOperation`, `Erase`,
save → load) carry the invariants from the old structure to the new one.
-/
namespace CCVerif.Oss

/-- the handle invariant only speaks about stored pictograms -/
theorem HInv.subset {s s' : Struct} {ex : Option Pid} {d : Dyn} (h : HInv s ex d) (hsub : ∀ q ∈ s'.storage, q ∈ s.storage) :
    HInv s' ex d :=
  ⟨h.jd, fun q hq => h.conn q (hsub q hq), fun q hq => h.detached q (hsub q hq),
   fun q hq q' hq' => h.uniq q (hsub q hq) q' (hsub q' hq'), fun q hq => h.namesH q (hsub q hq), h.namesS⟩

theorem DInv.subset {s s' : Struct} {d : Dyn} (h : DInv s d) (hsub : ∀ q ∈ s'.storage, q ∈ s.storage) : DInv s' d :=
  ⟨h.dnd, h.h.subset hsub, fun q hq => h.c2 q (hsub q hq)⟩

/-- states that agree on what the invariant reads -/
theorem DInv.congr {s : Struct} {d d' : Dyn} (h : DInv s d) (hh : ∀ q ∈ s.storage, d'.handle q = d.handle q)
    (hs : ∀ n, d'.source n = d.source n) (hn : d'.nextName = d.nextName) (hd : d'.dnd = d.dnd) : DInv s d' := by
  refine ⟨by rw [hd]; exact h.dnd, ?_, ?_⟩
  · refine ⟨?_, ?_, ?_, ?_, ?_, ?_⟩
    · intro n x; rw [hs]; exact h.h.jd n x
    · intro q hq he n; rw [hh q hq, hs]; exact h.h.conn q hq he n
    · intro q hq he; rw [hh q hq]; intro h1 n h2 x; rw [hs]; exact h.h.detached q hq he h1 n h2 x
    · intro q hq q' hq' n; rw [hh q hq, hh q' hq']; exact h.h.uniq q hq q' hq' n
    · intro q hq n; rw [hh q hq, hn]; exact h.h.namesH q hq n
    · intro n x; rw [hs, hn]; exact h.h.namesS n x
  · intro q hq n; rw [hh q hq]; exact h.c2 q hq n

/-! ## a new pictogram -/

/-- `InsertBase` / `InsertOperation` (the refusing cases aside): a fresh pictogram with an empty
handle and, for an operation, an undefined operation handle -/
theorem insert_transfer {s s' : Struct} (k : StructOk s) {d d' : Dyn} {fresh : Pid} (hfresh : fresh ∉ s.storage)
    (hst : ∀ q, q ∈ s'.storage → q = fresh ∨ q ∈ s.storage)
    (hops : ∀ c, c ∈ s'.opKeys → c = fresh ∨ c ∈ s.opKeys)
    (hpar : ∀ c, c ≠ fresh → s'.graph.parentsOf c = s.graph.parentsOf c)
    (hh : ∀ q, d'.handle q = if q = fresh then {} else d.handle q) (hs : ∀ n, d'.source n = d.source n)
    (hn : d'.nextName = d.nextName) (hd : d'.dnd = d.dnd)
    (hop : ∀ c, c ≠ fresh → d'.op c = d.op c) (hopf : (d'.op fresh).built = none)
    (i : DInv s d) (j : J7 s noEx d) : DInv s' d' ∧ J7 s' noEx d' := by
  have hne : ∀ q ∈ s.storage, q ≠ fresh := fun q hq e => hfresh (e ▸ hq)
  constructor
  · refine ⟨by rw [hd]; exact i.dnd, ?_, ?_⟩
    · refine ⟨?_, ?_, ?_, ?_, ?_, ?_⟩
      · intro n x; rw [hs]; exact i.h.jd n x
      · intro q hq he n hn'
        rw [hh] at hn' ⊢
        rcases hst q hq with rfl | hq'
        · simp at hn'
        · rw [if_neg (hne q hq')] at hn' ⊢
          rw [hs]; exact i.h.conn q hq' he n hn'
      · intro q hq he h1 n h2 x hx
        rw [hh] at h1 h2 ⊢
        rcases hst q hq with rfl | hq'
        · simp at h2
        · rw [if_neg (hne q hq')] at h1 h2 ⊢
          rw [hs] at hx; exact i.h.detached q hq' he h1 n h2 x hx
      · intro q hq q' hq' n e e'
        rw [hh] at e e'
        rcases hst q hq with rfl | hq1
        · simp at e
        · rcases hst q' hq' with rfl | hq2
          · simp at e'
          · rw [if_neg (hne q hq1)] at e
            rw [if_neg (hne q' hq2)] at e'
            exact i.h.uniq q hq1 q' hq2 n e e'
      · intro q hq n e
        rw [hh] at e
        rcases hst q hq with rfl | hq1
        · simp at e
        · rw [if_neg (hne q hq1)] at e
          rw [hn]; exact i.h.namesH q hq1 n e
      · intro n x; rw [hs, hn]; exact i.h.namesS n x
    · intro q hq n hn'
      rw [hh] at hn' ⊢
      rcases hst q hq with rfl | hq'
      · simp at hn'
      · rw [if_neg (hne q hq')] at hn' ⊢
        exact i.c2 q hq' n hn'
  · intro c hc ho b1 b2 hb p1 p2 hp
    rcases hops c hc with rfl | hc'
    · rw [hopf] at hb; cases hb
    · have hcf : c ≠ fresh := hne c (k.opSub c hc')
      rw [hop c hcf] at ho hb
      rw [hpar c hcf] at hp
      obtain ⟨a1, a2⟩ := j c hc' ho b1 b2 hb p1 p2 hp
      obtain ⟨q1, q2, hq, hs1, hs2⟩ := k.opPar c hc'
      rw [hp] at hq
      injection hq with e1 hq
      injection hq with e2 _
      subst e1; subst e2
      rw [hh, hh, if_neg (hne p1 hs1), if_neg (hne p2 hs2)]
      exact ⟨a1, a2⟩

/-! ## `Erase` of a leaf -/

/-- the structure between `graph->Erase(p)` and the erasure of the keys: same keys, `p` without
parents, nobody's parent -/
theorem erase_transfer1 {s s1 : Struct} {d : Dyn} {p : Pid} (hst : s1.storage = s.storage) (hok : s1.opKeys = s.opKeys)
    (hoth : ∀ c, c ≠ p → s1.graph.parentsOf c = s.graph.parentsOf c) (hself : s1.graph.parentsOf p = [])
    (i : DInv s d) (j : J7 s noEx d) : DInv s1 d ∧ J7 s1 noEx d := by
  refine ⟨i.subset (by rw [hst]; exact fun _ h => h), ?_⟩
  intro c hc ho b1 b2 hb p1 p2 hp
  by_cases e : c = p
  · subst e; rw [hself] at hp; cases hp
  · rw [hoth c e] at hp
    exact j c (by rw [← hok]; exact hc) ho b1 b2 hb p1 p2 hp

theorem erase_transfer2 {s1 s2 : Struct} {d : Dyn} {p : Pid} (hst : ∀ q ∈ s2.storage, q ∈ s1.storage ∧ q ≠ p)
    (hok : ∀ c ∈ s2.opKeys, c ∈ s1.opKeys ∧ c ≠ p) (hg : s2.graph = s1.graph)
    (hnp : ∀ c, p ∉ s1.graph.parentsOf c)
    (i : DInv s1 d) (j : J7 s1 (exOnly p) d) : DInv s2 (d.dropPid p) ∧ J7 s2 noEx (d.dropPid p) := by
  constructor
  · apply (i.subset (fun q hq => (hst q hq).1)).congr
    · intro q hq; rw [Dyn.handle_dropPid, if_neg (hst q hq).2]
    · intro n; rfl
    · rfl
    · rfl
  · intro c hc ho b1 b2 hb p1 p2 hp
    obtain ⟨hc1, hcp⟩ := hok c hc
    rw [Dyn.op_dropPid, if_neg hcp] at ho hb
    rw [hg] at hp
    obtain ⟨a1, a2⟩ := j c hc1 ho b1 b2 hb p1 p2 hp
    have h1 : p1 ≠ p := by rintro rfl; exact hnp c (by rw [hp]; simp)
    have h2 : p2 ≠ p := by rintro rfl; exact hnp c (by rw [hp]; simp)
    rw [Dyn.handle_dropPid, Dyn.handle_dropPid, if_neg h1, if_neg h2]
    exact ⟨fun _ => a1 h1, fun _ => a2 h2⟩

/-! ## save → load -/

/-- the document `q` stands for, if open, has announced its content -/
def RQ (q : Pid) (d : Dyn) : Prop :=
  ∀ n, (d.handle q).ed = some n → ∀ x, d.source n = some x → x.opened = true → x.announced = x.content

theorem RQ.of_rel0 {q : Pid} {d d' : Dyn} (h : RQ q d) (r : Rel0 d d') : RQ q d' := by
  intro n hn x' hx' ho'
  rw [r.ed] at hn
  have hc := r.frame.content n
  rw [hx'] at hc
  cases hx : d.source n with
  | none => rw [hx] at hc; cases hc
  | some x =>
    obtain ⟨y, hy, c, _, _, a⟩ := r.docs n x hx
    rw [hx'] at hy; injection hy with hy; subst hy
    cases ho : x.opened with
    | true =>
      have := h n hn x hx ho
      rcases a with a | a
      · rw [a, this, c]
      · rw [a, c]
    | false => exact r.reopen n x x' hx hx' ho ho'

/-- "save all": after `UpdateSync(q)` the document of `q` has nothing pending -/
theorem updateSync_RQ {s : Struct} (g : GraphOk s) (o : Oracle) (d : Dyn) (q : Pid) (i : DInv s d) (hq : q ∈ s.storage)
    (hf : (updateSync s o (fuelOf d) d q).fault = none) : RQ q (updateSync s o (fuelOf d) d q) := by
  have gU := updateSync_good g o (fuelOf d) d q
  have rU := (reactions_rel s o g.childOp (fuelOf d)).2.2.2.1 d q
  have iU := (gU.post i hf).1
  obtain ⟨k, hk⟩ := fuelOf_succ2 d
  rw [hk] at rU iU ⊢
  intro n hn x hx ho
  rw [rU.r0.ed] at hn
  cases hsrc : (d.handle q).src with
  | some m =>
    rw [Handle.ed_of_src hsrc] at hn
    injection hn with hn; subst hn
    exact iU.h.jd m x hx ho (updateSync_saved g o k d q i hq m hsrc x hx)
  | none =>
    rw [updateSync_succ, hsrc] at hx
    dsimp only at hx
    rw [Handle.ed_of_none hsrc] at hn
    have := (i.h.detached q hq (by simp) hsrc n hn x hx).1
    rw [ho] at this; cases this

theorem saveAll_spec {s : Struct} (g : GraphOk s) (o : Oracle) :
    ∀ (l : List Pid) (d : Dyn), (∀ q ∈ l, q ∈ s.storage) →
      Good s noEx d (l.foldl (fun d p => updateSync s o (fuelOf d) d p) d) ∧
      (DInv s d → (l.foldl (fun d p => updateSync s o (fuelOf d) d p) d).fault = none →
        ∀ q ∈ l, RQ q (l.foldl (fun d p => updateSync s o (fuelOf d) d p) d))
  | [], d, _ => ⟨Good.refl _ _ _, fun _ _ q hq => by cases hq⟩
  | p :: l, d, hl => by
    simp only [List.foldl_cons]
    have g1 := updateSync_good g o (fuelOf d) d p
    obtain ⟨g2, h2⟩ := saveAll_spec g o l (updateSync s o (fuelOf d) d p) (fun q hq => hl q (List.mem_cons_of_mem _ hq))
    have r2 : Rel s (updateSync s o (fuelOf d) d p) (l.foldl (fun d p => updateSync s o (fuelOf d) d p) (updateSync s o (fuelOf d) d p)) :=
      Rel.foldl _ (fun d p => (reactions_rel s o g.childOp (fuelOf d)).2.2.2.1 d p) l _
    refine ⟨g1.trans0 g2, fun i hf q hq => ?_⟩
    have hf1 := g2.fault hf
    have i1 := (g1.post i hf1).1
    rcases List.mem_cons.1 hq with rfl | hq'
    · exact (updateSync_RQ g o d q i (hl q List.mem_cons_self) hf1).of_rel0 r2.r0
    · exact h2 i1 hf q hq'

/-- what closing does to one document record -/
def CDoc (x x' : Source) : Prop :=
  x' = x ∨ (x'.opened = false ∧ (x'.announced = x.announced ∨ (x.opened = true ∧ x'.announced = x.content)))

theorem CDoc.trans {x x' x'' : Source} (h1 : CDoc x x') (h2 : CDoc x' x'') : CDoc x x'' := by
  rcases h2 with rfl | ⟨c2, a2⟩
  · exact h1
  · rcases h1 with rfl | ⟨c1, a1⟩
    · exact Or.inr ⟨c2, a2⟩
    · right
      refine ⟨c2, ?_⟩
      rcases a2 with a2 | ⟨o2, _⟩
      · rw [a2]; exact a1
      · rw [c1] at o2; cases o2

/-- the dying schema closes its documents (it is deaf: `dnd > 0`) -/
structure CRel (d d' : Dyn) : Prop where
  handle : ∀ q, d'.handle q = d.handle q
  nextName : d'.nextName = d.nextName
  dnd : d'.dnd = d.dnd
  fault : d'.fault = d.fault
  docs : ∀ m x', d'.source m = some x' → ∃ x, d.source m = some x ∧ CDoc x x'

theorem CRel.refl (d : Dyn) : CRel d d := ⟨fun _ => rfl, rfl, rfl, rfl, fun _ x' h => ⟨x', h, Or.inl rfl⟩⟩

theorem CRel.trans {a b c : Dyn} (h1 : CRel a b) (h2 : CRel b c) : CRel a c := by
  refine ⟨fun q => (h2.handle q).trans (h1.handle q), h2.nextName.trans h1.nextName, h2.dnd.trans h1.dnd,
    h2.fault.trans h1.fault, ?_⟩
  intro m x'' hx''
  obtain ⟨x', hx', c2⟩ := h2.docs m x'' hx''
  obtain ⟨x, hx, c1⟩ := h1.docs m x' hx'
  exact ⟨x, hx, c1.trans c2⟩

theorem CRel.closed {d d' : Dyn} (h : CRel d d') {m : SrcName} (hc : ∀ x, d.source m = some x → x.opened = false) :
    ∀ x', d'.source m = some x' → x'.opened = false := by
  intro x' hx'
  obtain ⟨x, hx, c⟩ := h.docs m x' hx'
  rcases c with rfl | ⟨c, _⟩
  · exact hc _ hx
  · exact c

theorem mgrClose_crel (s : Struct) (o : Oracle) (d : Dyn) (n : SrcName) (hd : d.dnd > 0) :
    CRel d (mgrClose s o d n) ∧ ∀ x', (mgrClose s o d n).source n = some x' → x'.opened = false := by
  unfold mgrClose
  obtain ⟨k, hk⟩ := fuelOf_succ d
  rw [hk, announce_succ]
  cases hx : d.source n with
  | none =>
    dsimp only
    unfold evClose
    rw [hx]
    exact ⟨CRel.refl d, fun x' h => by rw [hx] at h; cases h⟩
  | some x =>
    dsimp only
    have hn := Dyn.source_name hx
    -- closing a record (with `dnd > 0` nobody is told)
    have close : ∀ (d1 : Dyn) (x1 : Source), d1.dnd > 0 → d1.source n = some x1 →
        evClose s d1 n = d1.setSource (closedSource x1) := by
      intro d1 x1 h1 hx1
      unfold evClose
      rw [hx1]
      simp only [h1, if_true]
      rfl
    split
    · rename_i hsv
      rw [close d x hd hx]
      have hs := Dyn.source_setSource_of (y := closedSource x) hx rfl
      refine ⟨⟨fun _ => rfl, rfl, rfl, rfl, ?_⟩, ?_⟩
      · intro m x' hx'
        rw [hs] at hx'
        split at hx'
        · rename_i e; subst e
          injection hx' with hx'; subst hx'
          exact ⟨x, hx, Or.inr ⟨rfl, Or.inl rfl⟩⟩
        · exact ⟨x', hx', Or.inl rfl⟩
      · intro x' hx'
        rw [hs, if_pos rfl] at hx'
        injection hx' with hx'; subst hx'; rfl
    · rename_i hsv
      simp only [Bool.or_eq_true, Bool.not_eq_true', not_or, Bool.not_eq_true, Bool.not_eq_false] at hsv
      have hx1 : (d.setSource (annSource x)).source n = some (annSource x) := by
        rw [Dyn.source_setSource_of (y := annSource x) hx rfl]; simp
      rw [close (d.setSource (annSource x)) (annSource x) hd hx1]
      have hs1 := Dyn.source_setSource_of (y := annSource x) hx rfl
      have hs2 := Dyn.source_setSource_of (y := closedSource (annSource x)) hx1 rfl
      refine ⟨⟨fun _ => rfl, rfl, rfl, rfl, ?_⟩, ?_⟩
      · intro m x' hx'
        rw [hs2] at hx'
        split at hx'
        · rename_i e; subst e
          injection hx' with hx'; subst hx'
          exact ⟨x, hx, Or.inr ⟨rfl, Or.inr ⟨hsv.2, rfl⟩⟩⟩
        · rename_i e
          rw [hs1, if_neg e] at hx'
          exact ⟨x', hx', Or.inl rfl⟩
      · intro x' hx'
        rw [hs2, if_pos rfl] at hx'
        injection hx' with hx'; subst hx'; rfl

theorem closeAll_spec (s : Struct) (o : Oracle) (d : Dyn) :
    (∀ q, (closeAll s o d).handle q = d.handle q) ∧ (closeAll s o d).nextName = d.nextName ∧
    (closeAll s o d).fault = d.fault ∧
    (∀ m x', (closeAll s o d).source m = some x' → ∃ x, d.source m = some x ∧ CDoc x x') ∧
    (∀ p ∈ s.storage, ∀ n, (d.handle p).src = some n → ∀ x', (closeAll s o d).source n = some x' → x'.opened = false) := by
  unfold closeAll
  have key : ∀ (l : List Pid) (d0 : Dyn), d0.dnd > 0 →
      CRel d0 (l.foldl (fun d p => match (d.handle p).src with | some n => mgrClose s o d n | none => d) d0) ∧
      ∀ p ∈ l, ∀ n, (d0.handle p).src = some n → ∀ x',
        (l.foldl (fun d p => match (d.handle p).src with | some n => mgrClose s o d n | none => d) d0).source n = some x' →
        x'.opened = false := by
    intro l
    induction l with
    | nil => intro d0 _; exact ⟨CRel.refl d0, fun p hp => by cases hp⟩
    | cons p l ih =>
      intro d0 hd0
      simp only [List.foldl_cons]
      have step : CRel d0 (match (d0.handle p).src with | some n => mgrClose s o d0 n | none => d0) ∧
          ∀ n, (d0.handle p).src = some n → ∀ x', (match (d0.handle p).src with | some n => mgrClose s o d0 n | none => d0).source n = some x' →
            x'.opened = false := by
        cases hsrc : (d0.handle p).src with
        | none => exact ⟨CRel.refl d0, fun n h => by cases h⟩
        | some n =>
          dsimp only
          obtain ⟨c, cl⟩ := mgrClose_crel s o d0 n hd0
          exact ⟨c, fun m hm => by injection hm with hm; subst hm; exact cl⟩
      generalize (match (d0.handle p).src with | some n => mgrClose s o d0 n | none => d0) = d1 at step
      obtain ⟨c1, cl1⟩ := step
      obtain ⟨c2, cl2⟩ := ih d1 (by rw [c1.dnd]; exact hd0)
      refine ⟨c1.trans c2, ?_⟩
      intro q hq n hn x' hx'
      rcases List.mem_cons.1 hq with rfl | hq'
      · exact c2.closed (cl1 n hn) x' hx'
      · exact cl2 q hq' n (by rw [c1.handle]; exact hn) x' hx'
  obtain ⟨c, cl⟩ := key s.storage ({ d with dnd := d.dnd + 1 } : Dyn) (Nat.succ_pos _)
  exact ⟨c.handle, c.nextName, c.fault, c.docs, cl⟩

/-- `LoadPict`, dynamic part, one item -/
def loadOne (d : Dyn) (it : DocItem) : Dyn :=
  match it.op with
  | some h => (d.setHandle it.uid it.handle).setOp it.uid h
  | none => d.setHandle it.uid it.handle

theorem loadDyn_cons (d : Dyn) (it : DocItem) (doc : List DocItem) : loadDyn d (it :: doc) = loadDyn (loadOne d it) doc := rfl

theorem loadOne_spec (d : Dyn) (it : DocItem) :
    (loadOne d it).handle it.uid = it.handle ∧ (∀ q, q ≠ it.uid → (loadOne d it).handle q = d.handle q) ∧
    (∀ h, it.op = some h → (loadOne d it).op it.uid = h) ∧ (∀ q, q ≠ it.uid → (loadOne d it).op q = d.op q) ∧
    (∀ n, (loadOne d it).source n = d.source n) ∧ (loadOne d it).nextName = d.nextName ∧
    (loadOne d it).dnd = d.dnd ∧ (loadOne d it).fault = d.fault := by
  unfold loadOne
  cases it.op with
  | none =>
    refine ⟨by simp, fun q hq => by simp [hq], fun h e => (by cases e), fun q hq => rfl, fun _ => rfl, rfl, rfl, rfl⟩
  | some h =>
    refine ⟨by simp, fun q hq => by simp [hq], fun h' e => (by injection e with e; subst e; simp),
      fun q hq => by simp [hq], fun _ => rfl, rfl, rfl, rfl⟩

theorem loadDyn_frame : ∀ (doc : List DocItem) (d : Dyn),
    (∀ n, (loadDyn d doc).source n = d.source n) ∧ (loadDyn d doc).nextName = d.nextName ∧
    (loadDyn d doc).dnd = d.dnd ∧ (loadDyn d doc).fault = d.fault ∧
    (∀ q, (∀ it ∈ doc, it.uid ≠ q) → (loadDyn d doc).handle q = d.handle q ∧ (loadDyn d doc).op q = d.op q)
  | [], d => ⟨fun _ => rfl, rfl, rfl, rfl, fun _ _ => ⟨rfl, rfl⟩⟩
  | it :: doc, d => by
    rw [loadDyn_cons]
    obtain ⟨a1, a2, a3, a4, a5⟩ := loadDyn_frame doc (loadOne d it)
    obtain ⟨_, b2, _, b4, b5, b6, b7, b8⟩ := loadOne_spec d it
    refine ⟨fun n => (a1 n).trans (b5 n), a2.trans b6, a3.trans b7, a4.trans b8, ?_⟩
    intro q hq
    have hqi : q ≠ it.uid := fun e => hq it List.mem_cons_self e.symm
    obtain ⟨c1, c2⟩ := a5 q (fun x hx => hq x (List.mem_cons_of_mem _ hx))
    exact ⟨c1.trans (b2 q hqi), c2.trans (b4 q hqi)⟩

theorem docItem_fields {st1 : St} {p : Pid} {it : DocItem} (hd : st1.docItem p = some it) :
    it.uid = p ∧ it.handle = { (st1.d.handle p) with src := none } ∧
    it.op = if st1.s.isOperable p then some (st1.d.op p) else none := by
  unfold St.docItem at hd
  split at hd
  · cases hd
  · injection hd with hd; subst hd; exact ⟨rfl, rfl, rfl⟩

/-- `LoadPicts` on the items saved from `st1`: every saved pictogram gets its handle back, detached,
and its operation handle -/
theorem loadDyn_docItems (st1 : St) : ∀ (items : List Pid) (d0 : Dyn), items.Nodup →
    items.all (fun p => (st1.docItem p).isSome) = true →
    (∀ q ∈ items, (loadDyn d0 (items.filterMap st1.docItem)).handle q = { (st1.d.handle q) with src := none }) ∧
    (∀ q ∈ items, st1.s.isOperable q = true → (loadDyn d0 (items.filterMap st1.docItem)).op q = st1.d.op q)
  | [], d0, _, _ => ⟨fun q h => (by cases h), fun q h => (by cases h)⟩
  | p :: items, d0, hnd, hall => by
    simp only [List.all_cons, Bool.and_eq_true] at hall
    obtain ⟨hp, hrest⟩ := hall
    obtain ⟨hpn, hnd'⟩ := List.nodup_cons.1 hnd
    cases hd : st1.docItem p with
    | none => rw [hd] at hp; cases hp
    | some it =>
      obtain ⟨hu, hh, ho⟩ := docItem_fields hd
      simp only [List.filterMap_cons, hd]
      rw [loadDyn_cons]
      obtain ⟨a1, a3⟩ := loadDyn_docItems st1 items (loadOne d0 it) hnd' hrest
      obtain ⟨b1, _, b3, _⟩ := loadOne_spec d0 it
      -- later items do not carry the identifier `p`
      have hlater : ∀ x ∈ items.filterMap st1.docItem, x.uid ≠ p := by
        intro x hx e
        obtain ⟨r, hr, hxr⟩ := List.mem_filterMap.1 hx
        have := (docItem_fields hxr).1
        rw [e] at this
        exact hpn (this ▸ hr)
      obtain ⟨c1, c2⟩ := (loadDyn_frame (items.filterMap st1.docItem) (loadOne d0 it)).2.2.2.2 p hlater
      constructor
      · intro q hq
        rcases List.mem_cons.1 hq with rfl | hq'
        · rw [c1, ← hu, b1, hh, hu]
        · exact a1 q hq'
      · intro q hq hop
        rcases List.mem_cons.1 hq with rfl | hq'
        · rw [c2, ← hu, b3 (st1.d.op q) (by rw [ho, if_pos hop]), hu]
        · exact a3 q hq' hop

/-- save → load: the new schema with the reloaded handles satisfies the invariants -/
theorem reload_transfer {s s' : Struct} (k : StructOk s) {d1 dC d' : Dyn}
    (hst : ∀ q, q ∈ s'.storage ↔ q ∈ s.storage) (hops : ∀ c, c ∈ s'.opKeys ↔ c ∈ s.opKeys)
    (hpar : ∀ c, s'.graph.parentsOf c = s.graph.parentsOf c)
    (i : DInv s d1) (j : J7 s noEx d1) (hrq : ∀ q ∈ s.storage, RQ q d1)
    (cN : dC.nextName = d1.nextName)
    (cD : ∀ m x', dC.source m = some x' → ∃ x, d1.source m = some x ∧ CDoc x x')
    (cC : ∀ p ∈ s.storage, ∀ n, (d1.handle p).src = some n → ∀ x', dC.source n = some x' → x'.opened = false)
    (hh : ∀ q ∈ s.storage, d'.handle q = { (d1.handle q) with src := none })
    (ho : ∀ c ∈ s.opKeys, d'.op c = d1.op c) (hs : ∀ n, d'.source n = dC.source n)
    (hn : d'.nextName = dC.nextName) (hd : d'.dnd = 0) : DInv s' d' ∧ J7 s' noEx d' := by
  have hed : ∀ q ∈ s.storage, (d'.handle q).ed = (d1.handle q).ed := by
    intro q hq
    rw [hh q hq]
    cases hsrc : (d1.handle q).src with
    | none => simp [Handle.ed, hsrc]
    | some n => simp [Handle.ed, hsrc, i.c2 q hq n hsrc]
  constructor
  · refine ⟨hd, ?_, ?_⟩
    · refine ⟨?_, ?_, ?_, ?_, ?_, ?_⟩
      · intro n x' hx' hop hsv
        rw [hs] at hx'
        obtain ⟨x, hx, c⟩ := cD n x' hx'
        rcases c with rfl | ⟨c, _⟩
        · exact i.h.jd n _ hx hop hsv
        · rw [c] at hop; cases hop
      · intro q hq _ n hn'
        rw [hh q ((hst q).1 hq)] at hn'; cases hn'
      · intro q hq _ _ n h2 x' hx'
        have hqs := (hst q).1 hq
        rw [hh q hqs] at h2 ⊢
        have h2' : (d1.handle q).desc = some n := h2
        rw [hs] at hx'
        obtain ⟨x, hx, c⟩ := cD n x' hx'
        show x'.opened = false ∧ (d1.handle q).coreHash = x'.announced
        cases hsrc : (d1.handle q).src with
        | some m =>
          have hm := i.c2 q hqs m hsrc
          rw [h2'] at hm; injection hm with hm; subst hm
          obtain ⟨y, hy, yo, yh⟩ := i.h.conn q hqs (by simp) n hsrc
          rw [hx] at hy; injection hy with hy; subst hy
          refine ⟨cC q hqs n hsrc x' hx', ?_⟩
          rcases c with rfl | ⟨_, a | ⟨_, a⟩⟩
          · exact yh
          · rw [a]; exact yh
          · rw [a, yh]
            exact hrq q hqs n (Handle.ed_of_src hsrc) x hx yo
        | none =>
          obtain ⟨xc, xh⟩ := i.h.detached q hqs (by simp) hsrc n h2' x hx
          rcases c with rfl | ⟨c, a | ⟨o', _⟩⟩
          · exact ⟨xc, xh⟩
          · exact ⟨c, by rw [a]; exact xh⟩
          · rw [xc] at o'; cases o'
      · intro q hq q' hq' n e e'
        have hqs := (hst q).1 hq
        have hqs' := (hst q').1 hq'
        rw [hed q hqs] at e
        rw [hed q' hqs'] at e'
        exact i.h.uniq q hqs q' hqs' n e e'
      · intro q hq n e
        have hqs := (hst q).1 hq
        rw [hed q hqs] at e
        rw [hn, cN]
        exact i.h.namesH q hqs n e
      · intro n x' hx'
        rw [hs] at hx'
        obtain ⟨x, hx, _⟩ := cD n x' hx'
        rw [hn, cN]
        exact i.h.namesS n x hx
    · intro q hq n hn'
      rw [hh q ((hst q).1 hq)] at hn'; cases hn'
  · intro c hc hout b1 b2 hb p1 p2 hp
    have hcs := (hops c).1 hc
    rw [ho c hcs] at hout hb
    rw [hpar] at hp
    obtain ⟨a1, a2⟩ := j c hcs hout b1 b2 hb p1 p2 hp
    obtain ⟨q1, q2, hq, hs1, hs2⟩ := k.opPar c hcs
    rw [hp] at hq
    injection hq with e1 hq
    injection hq with e2 _
    subst e1; subst e2
    have f : ∀ q ∈ s.storage, (d'.handle q).coreHash = (d1.handle q).coreHash := by
      intro q hq; rw [hh q hq]
    rw [f p1 hs1, f p2 hs2, hed p1 hs1, hed p2 hs2]
    exact ⟨a1, a2⟩

end CCVerif.Oss
