import CCVerif.Lemmas.JsonDoc
/-
C10, model documents: what `from_json(RSModel)` guarantees for the content loaded from ANY accepted
document (`Model.LoadedWF`, weaker than `Model.WF`: a base set may carry a value that is not the
key set of its texts when it has no texts; values are only known to come from the unpacker), and
the stability `load (save (load d)) = load d` derived from it.
-/
namespace CCVerif.JsonDoc
open CCVerif.Json CCVerif.Core CCVerif.SDC

/-- what the loader guarantees for the entry `e` of the constituent `r` -/
def LoadedEntry (r : Record) (e : DataEntry) : Prop :=
  if isBaseSet r.type = true then
    e.stmt = none ∧ ∃ t, e.texts = some t ∧ Contiguous t ∧ (∃ v, e.sdata = some v) ∧
      (e.typif = none → e.sdata = some (keysSet t))
  else if isRSObject r.type = true then
    e.stmt = none ∧ e.texts = none ∧ (∀ v, e.sdata = some v → ∃ τ, e.typif = some τ) ∧
      (e.sdata = none → ¬ (r.type = .structured ∧ r.parse.status = .verified ∧ isColl e.typif = true))
  else if isCallable r.type = true then e.stmt = none ∧ e.texts = none ∧ e.sdata = none
  else e.texts = none ∧ e.sdata = none

structure Model.LoadedWF (c : Model) : Prop where
  items : ItemsWF c.items
  noTrack : ∀ r ∈ c.items, r.track = none
  uids : c.data.map (·.uid) = sortUids (c.items.map (·.uid))
  entries : ∀ e ∈ c.data, ∃ r ∈ c.items, r.uid = e.uid ∧ LoadedEntry r e

/-- every stored value can be packed and unpacked against its typification (C16:
`unpack_pack_partial`) -/
def Model.ValsOK (c : Model) : Prop :=
  ∀ e ∈ c.data, ∀ τ v, e.typif = some τ → e.sdata = some v → ValOK τ v

/-- a non-empty text interpretation goes with the data set of its keys -/
def Model.Keyed (c : Model) : Prop :=
  ∀ e ∈ c.data, ∀ t, e.texts = some t → t ≠ [] → e.sdata = some (keysSet t)

theorem loaded_entry_roundtrip (hrtx : TextRT) (items : List Record) (ty : Nat → Option Ty) (r : Record) (e : DataEntry)
    (hk : kindOf items e.uid = some r.type) (hty : ty e.uid = e.typif) (hw : LoadedEntry r e)
    (hv : ∀ τ v, e.typif = some τ → e.sdata = some v → ValOK τ v) :
    ∃ j, e.toJson r.type = some j ∧ decodeEntry items ty j = some (some (updOf r.type e)) := by
  cases hrs : isRSObject r.type
  · exact entry_roundtrip_other items ty r.type e hk hrs
  · apply entry_roundtrip_rs hrtx items ty r.type e hk hty hrs hv
    intro t h1
    unfold LoadedEntry at hw
    by_cases hb : isBaseSet r.type = true
    · rw [if_pos hb] at hw
      obtain ⟨_, t', h2, hc, _⟩ := hw
      rw [h1] at h2; cases h2
      exact ⟨hb, hc⟩
    · rw [if_neg hb, if_pos hrs] at hw
      rw [hw.2.1] at h1; cases h1

theorem loaded_entry_restore (r : Record) (e : DataEntry) (hu : r.uid = e.uid) (hw : LoadedEntry r e)
    (hv : ∀ τ v, e.typif = some τ → e.sdata = some v → ValOK τ v)
    (hk : ∀ t, e.texts = some t → t ≠ [] → e.sdata = some (keysSet t)) :
    applyOne (resetEntry r e.typif) (updOf r.type e) = e := by
  by_cases hb : isBaseSet r.type = true
  · have hrs : isRSObject r.type = true := by
      cases hk' : r.type <;> simp [hk', isBaseSet] at hb <;> rfl
    obtain ⟨uid, wc, typif, sdata, texts, stmt⟩ := e
    simp only at hu
    subst hu
    unfold LoadedEntry at hw
    simp only [hb, if_true] at hw
    obtain ⟨rfl, t, rfl, _, ⟨v, rfl⟩, h5⟩ := hw
    cases typif with
    | none =>
      have := h5 rfl
      simp only [Option.some.injEq] at this
      subst this
      cases t <;> simp [applyOne, resetEntry, updOf, hb, hrs, keysSet]
    | some τ =>
      cases t with
      | nil => simp [applyOne, resetEntry, updOf, hb, hrs]
      | cons p t =>
        have := hk (p :: t) rfl (by simp)
        simp only [Option.some.injEq] at this
        subst this
        simp [applyOne, resetEntry, updOf, hb, hrs, keysSet]
  · apply entry_restore Contiguous r e hu
    unfold LoadedEntry at hw
    unfold EntryWFk
    rw [if_neg hb] at hw ⊢
    by_cases hrs : isRSObject r.type = true
    · rw [if_pos hrs] at hw ⊢
      obtain ⟨h1, h2, h3, h4⟩ := hw
      refine ⟨h1, h2, ?_, h4⟩
      intro v hv'
      obtain ⟨τ, hτ⟩ := h3 v hv'
      exact ⟨τ, hτ, hv τ v hτ hv'⟩
    · rw [if_neg hrs] at hw ⊢
      exact hw

theorem loaded_roundtrip_core (hrtx : TextRT) (env : Env) (c : Model) (h : c.LoadedWF) (hv : c.ValsOK) (hkd : c.Keyed)
    (hu : ModelUpdated env c) :
    ∃ j, c.toJson = some j ∧ Model.fromJson env j = some c := by
  have hnd : (c.items.map (·.uid)).Nodup := h.items.load.uids
  have hdn : (c.data.map (·.uid)).Nodup := by
    rw [h.uids]; exact (sortUids_perm _).nodup_iff.2 hnd
  let ty := env.typif (c.items.map Record.preUpdate)
  let recOf : DataEntry → Record := fun e => (c.items.find? (·.uid == e.uid)).getD default
  have hrec : ∀ e ∈ c.data, c.items.find? (·.uid == e.uid) = some (recOf e) ∧ (recOf e).uid = e.uid ∧ LoadedEntry (recOf e) e := by
    intro e he
    obtain ⟨r, hr, hre, hw⟩ := h.entries e he
    have hf := find_of_nodup c.items hnd r hr
    rw [hre] at hf
    have : recOf e = r := by simp [recOf, hf]
    rw [this]; exact ⟨hf, hre, hw⟩
  obtain ⟨ds, hds1, hds2⟩ := mapM_roundtrip (fun e : DataEntry => (kindOf c.items e.uid) >>= (e.toJson ·))
    (decodeEntry c.items ty) (fun e => some (updOf (recOf e).type e)) c.data (by
      intro e he
      obtain ⟨hf, hre, hw⟩ := hrec e he
      have hk : kindOf c.items e.uid = some (recOf e).type := by simp [kindOf, hf]
      obtain ⟨j, hj1, hj2⟩ := loaded_entry_roundtrip hrtx c.items ty (recOf e) e hk (hu.2 e he) hw (hv e he)
      exact ⟨j, by simp [hk, hj1], hj2⟩)
  refine ⟨_, by simp only [Model.toJson, dataToJson, hds1, Option.map_some]; rfl, ?_⟩
  obtain ⟨g1, g2, g3, g4, g5⟩ := model_get c ds
  have hl := loadItems_wf env c.items h.items
  rw [applyDerived_updated env c.items hu.1 h.noTrack] at hl
  have hstore : (sortUids (c.items.map (·.uid))).mapM (resetFor c.items ty) =
      some (c.data.map fun e => resetEntry (recOf e) e.typif) := by
    rw [← h.uids]
    apply mapM_map_mem
    intro e he
    obtain ⟨hf, _, _⟩ := hrec e he
    simp [resetFor, hf, ty, hu.2 e he]
  have hfold := foldl_applyUpd (fun e : DataEntry => e.uid) (fun e => resetEntry (recOf e) e.typif)
    (fun e => updOf (recOf e).type e) (by
      intro e; unfold updOf; split
      · rfl
      · split <;> rfl) c.data [] (by
      intro e he
      have := (hrec e he).2.1
      unfold resetEntry; split
      · exact this
      · split <;> exact this) (by simp) hdn
  have hrestore : (c.data.map fun e => applyOne (resetEntry (recOf e) e.typif) (updOf (recOf e).type e)) = c.data := by
    conv => rhs; rw [← List.map_id c.data]
    apply List.map_congr_left
    intro e he
    obtain ⟨_, hre, hw⟩ := hrec e he
    exact loaded_entry_restore (recOf e) e hre hw (hv e he) (hkd e he)
  simp only [List.nil_append] at hfold
  rw [hrestore] at hfold
  simp only [ty] at hstore hds2
  have hfm : (c.data.map fun e => some (updOf (recOf e).type e)).filterMap id =
      c.data.map fun e => updOf (recOf e).type e := by
    rw [List.filterMap_map]
    induction c.data with
    | nil => rfl
    | cons x xs ih => simp [List.filterMap_cons, ih]
  simp only [Model.fromJson, optStr, g1, g2, g3, g4, g5, Json.asStr, Option.bind_eq_bind, Option.bind_some,
    Option.pure_def, hl, loadData, hstore, Json.asArr, hds2, hfm, hfold]

/-! ### the loader establishes `LoadedWF` -/

/-- the text codec loads keys `1..n` (`text_load_contiguous` of Properties/C10) -/
def TextContig : Prop := ∀ j t, TextInterp.fromJson j = some t → Contiguous t

theorem applyOne_loaded (r : Record) (e : DataEntry) (u : Upd) (hw : LoadedEntry r e)
    (h1 : ∀ v, u.sdata = some v → isRSObject r.type = true ∧ ∃ τ, e.typif = some τ)
    (h2 : ∀ t, u.texts = some t → isBaseSet r.type = true ∧ Contiguous t)
    (h3 : ∀ b, u.stmt = some b → isRSObject r.type = false ∧ isCallable r.type = false) :
    LoadedEntry r (applyOne e u) ∧ (applyOne e u).typif = e.typif := by
  obtain ⟨uu, wc, sd, tx, st⟩ := u
  obtain ⟨uid, ewc, typif, sdata, texts, stmt⟩ := e
  unfold LoadedEntry at hw ⊢
  cases hk : r.type <;> simp only [hk, isBaseSet, isRSObject, isCallable] at hw h1 h2 h3 ⊢ <;>
    cases sd <;> cases tx <;> cases st <;> simp at h1 h2 h3 <;> simp [applyOne] at hw ⊢ <;>
    (try split) <;> simp_all [keysSet] <;>
    (try (obtain ⟨τ, rfl⟩ := h1; simp_all; try (obtain ⟨_, t, ht, hc, _⟩ := hw; exact ⟨t, ht, hc⟩)))

theorem resetEntry_loaded (r : Record) (τ : Option Ty) :
    LoadedEntry r (resetEntry r τ) ∧ (resetEntry r τ).typif = τ ∧ (resetEntry r τ).uid = r.uid := by
  unfold LoadedEntry resetEntry
  cases hk : r.type <;> simp [isBaseSet, isRSObject, isCallable, Contiguous, keysSet] <;>
    (try split) <;> simp_all <;> (rename_i h; cases τ <;> simp [isColl] at h ⊢)

theorem mapM_key {α β : Type} (f : α → Option β) (g : β → α) (hg : ∀ x y, f x = some y → g y = x) :
    ∀ (xs : List α) (ys : List β), xs.mapM f = some ys → ys.map g = xs := by
  intro xs
  induction xs with
  | nil => intro ys h; simp at h; subst h; rfl
  | cons x xs ih =>
    intro ys h
    rw [List.mapM_cons] at h
    cases hfx : f x with
    | none => simp [hfx] at h
    | some b =>
      cases hxs : xs.mapM f with
      | none => simp [hfx, hxs] at h
      | some bs =>
        simp [hfx, hxs] at h
        subst h
        simp [hg x b hfx, ih bs hxs]


end CCVerif.JsonDoc
