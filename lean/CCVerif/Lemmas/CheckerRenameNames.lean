import CCVerif.Lemmas.CheckerRenamePlain
import CCVerif.Lemmas.NameBlocks
/-!
C08, the checker instance: admissible renamings CONSTRUCTED for well-formed names, called functions
and simultaneous maps included.

* `NameBij` — a bijection of strings that keeps what the checker can see of a spelling: blocks stay
  blocks, names stay names (`Blocks.isName`: an upper-case letter followed by at least one symbol,
  none of them upper-case — what the identity manager issues), radicals stay radicals, one-symbol
  strings and `R0` are fixed. Closed under inverse and composition; the transposition of two names
  that are neither `R0` nor radicals is one (`NameBij.swap`).
* `CRen.ofNameBij` — the renaming of the checker: `ρ` the bijection on the global tokens, `τ` the
  bijection applied to every BLOCK of a base name (`Lemmas/NameBlocks.lean`), so that the mangled
  radical `R1F1` of a call of `F1` becomes `R1F2` when `F1` is renamed to `F2`.
* `nodeNames` / `namesOK` / `goodNames` — the decidable side conditions: the text of a radical token is
  a single block that the bijection fixes, the name of a called function is a name and a global token
  (or fixed), a non-global declared name / the variable of an argument declaration is fixed.
* `NameBij.extend` — the bijection that maps `a_i ↦ b_i` for a finite list of pairs of good names with
  distinct `a_i` and distinct `b_i`, as a product of transpositions (`extend_spec`): every injective
  simultaneous map on the names of a schema is the restriction of one.
-/
namespace CCVerif.Checker
open CCVerif CCVerif.Syntax CCVerif.Types CCVerif.Blocks

/-! ## the radical test on symbols -/

/-- the test of `IsRadical` on the symbols of a string -/
def rad2 : List Char → Bool
  | 'R' :: c :: _ => c != '0'
  | _ => false

theorem isRadical_eq (s : String) : isRadical s = rad2 s.toList := rfl

theorem rad2_two (a b : Char) (t t' : List Char) : rad2 (a :: b :: t) = rad2 (a :: b :: t') := by
  unfold rad2
  split
  · rename_i h; cases h; rfl
  · rename_i h
    split
    · rename_i h'; cases h'; exact absurd rfl (h _ _)
    · rfl

theorem up_ne_zero {u : Char} (h : up u = true) : (u != '0') = true := by
  rw [bne_iff_ne]
  intro e
  rw [e] at h
  exact absurd h (by decide)

theorem rad2_up (c u u' : Char) (t t' : List Char) (h : up u = true) (h' : up u' = true) :
    rad2 (c :: u :: t) = rad2 (c :: u' :: t') := by
  unfold rad2
  split
  · rename_i c0 rest heq
    cases heq
    split
    · rename_i c1 rest' heq'
      cases heq'
      rw [up_ne_zero h, up_ne_zero h']
    · rename_i hno; exact absurd rfl (hno _ _)
  · rename_i hno
    split
    · rename_i c1 rest' heq'
      cases heq'
      exact absurd rfl (hno _ _)
    · rfl

theorem upBlock_cons {b : List Char} (hb : upBlock b = true) : ∃ u t, b = u :: t ∧ up u = true := by
  unfold upBlock at hb
  simp only [Bool.and_eq_true] at hb
  cases b with
  | nil => cases hb.1
  | cons u t => exact ⟨u, t, rfl, hb.1⟩

/-! ## bijections of names -/

/-- a name that can be moved: well-formed, not `R0`, not a radical -/
structure GoodName (s : String) : Prop where
  name : isName s = true
  r0 : s ≠ Ty.anyName
  rad : isRadical s = false

instance (s : String) : Decidable (GoodName s) :=
  if h : isName s = true ∧ s ≠ Ty.anyName ∧ isRadical s = false then isTrue ⟨h.1, h.2.1, h.2.2⟩
  else isFalse fun g => h ⟨g.name, g.r0, g.rad⟩

/-- a bijection of strings that keeps what the checker can see of a spelling -/
structure NameBij where
  b : Bij
  block : ∀ l, isBlock l = true → isBlock (gL b.f l) = true
  block' : ∀ l, isBlock l = true → isBlock (gL b.g l) = true
  upb : ∀ l, upBlock l = true → upBlock (gL b.f l) = true
  upb' : ∀ l, upBlock l = true → upBlock (gL b.g l) = true
  name : ∀ s, isName s = true → isName (b.f s) = true
  name' : ∀ s, isName s = true → isName (b.g s) = true
  rad : ∀ s, isRadical (b.f s) = isRadical s
  single : ∀ c : Char, b.f (String.ofList [c]) = String.ofList [c]
  r0 : b.f Ty.anyName = Ty.anyName

namespace NameBij

def id : NameBij where
  b := Bij.id
  block := fun l h => by unfold gL; show isBlock (String.ofList l).toList = true; rw [String.toList_ofList]; exact h
  block' := fun l h => by unfold gL; show isBlock (String.ofList l).toList = true; rw [String.toList_ofList]; exact h
  upb := fun l h => by unfold gL; show upBlock (String.ofList l).toList = true; rw [String.toList_ofList]; exact h
  upb' := fun l h => by unfold gL; show upBlock (String.ofList l).toList = true; rw [String.toList_ofList]; exact h
  name := fun _ h => h
  name' := fun _ h => h
  rad := fun _ => rfl
  single := fun _ => rfl
  r0 := rfl

def inv (n : NameBij) : NameBij where
  b := n.b.inv
  block := n.block'
  block' := n.block
  upb := n.upb'
  upb' := n.upb
  name := n.name'
  name' := n.name
  rad := fun s => by
    show isRadical (n.b.g s) = isRadical s
    rw [← n.rad (n.b.g s), n.b.fg]
  single := fun c => by
    show n.b.g (String.ofList [c]) = String.ofList [c]
    conv => lhs; rw [← n.single c]
    exact n.b.gf _
  r0 := by
    show n.b.g Ty.anyName = Ty.anyName
    conv => lhs; rw [← n.r0]
    exact n.b.gf _

theorem gL_comp (f1 f2 : String → String) (l : List Char) : gL (fun s => f1 (f2 s)) l = gL f1 (gL f2 l) := by
  unfold gL
  rw [String.ofList_toList]

/-- first `m`, then `n` -/
def comp (n m : NameBij) : NameBij where
  b := ⟨fun s => n.b.f (m.b.f s), fun s => m.b.g (n.b.g s),
    fun s => by show m.b.g (n.b.g (n.b.f (m.b.f s))) = s; rw [n.b.gf, m.b.gf],
    fun s => by show n.b.f (m.b.f (m.b.g (n.b.g s))) = s; rw [m.b.fg, n.b.fg]⟩
  block := fun l h => by
    show isBlock (gL (fun s => n.b.f (m.b.f s)) l) = true
    rw [gL_comp n.b.f m.b.f]; exact n.block _ (m.block l h)
  block' := fun l h => by
    show isBlock (gL (fun s => m.b.g (n.b.g s)) l) = true
    rw [gL_comp m.b.g n.b.g]; exact m.block' _ (n.block' l h)
  upb := fun l h => by
    show upBlock (gL (fun s => n.b.f (m.b.f s)) l) = true
    rw [gL_comp n.b.f m.b.f]; exact n.upb _ (m.upb l h)
  upb' := fun l h => by
    show upBlock (gL (fun s => m.b.g (n.b.g s)) l) = true
    rw [gL_comp m.b.g n.b.g]; exact m.upb' _ (n.upb' l h)
  name := fun s h => n.name _ (m.name s h)
  name' := fun s h => m.name' _ (n.name' s h)
  rad := fun s => by show isRadical (n.b.f (m.b.f s)) = isRadical s; rw [n.rad, m.rad]
  single := fun c => by show n.b.f (m.b.f (String.ofList [c])) = _; rw [m.single, n.single]
  r0 := by show n.b.f (m.b.f Ty.anyName) = _; rw [m.r0, n.r0]

theorem good (n : NameBij) {s : String} (h : GoodName s) : GoodName (n.b.f s) :=
  ⟨n.name s h.name, fun e => h.r0 (n.b.inj (e.trans n.r0.symm)), by rw [n.rad]; exact h.rad⟩

end NameBij

theorem swapName_rad' {old new : String} (ho : isRadical old = false) (hn : isRadical new = false) (x : String) :
    isRadical (swapName old new x) = isRadical x := by
  unfold swapName
  by_cases h1 : x = old
  · rw [if_pos h1, h1, ho, hn]
  · rw [if_neg h1]
    by_cases h2 : x = new
    · rw [if_pos h2, h2, ho, hn]
    · rw [if_neg h2]

theorem isName_not_single {s : String} (h : isName s = true) (c : Char) : String.ofList [c] ≠ s := by
  intro e
  rw [← e] at h
  unfold isName at h
  rw [String.toList_ofList] at h
  cases h

/-- the transposition of two good names -/
def NameBij.swap {old new : String} (ho : GoodName old) (hn : GoodName new) : NameBij where
  b := Bij.swap old new
  block := fun _ h => gL_swap_isBlock ho.name hn.name h
  block' := fun _ h => gL_swap_isBlock ho.name hn.name h
  upb := fun _ h => gL_swap_upBlock ho.name hn.name h
  upb' := fun _ h => gL_swap_upBlock ho.name hn.name h
  name := fun s h => by
    have := gL_swap_isNameL (old := old) (new := new) ho.name hn.name (b := s.toList) h
    unfold gL at this
    rw [String.ofList_toList] at this
    exact this
  name' := fun s h => by
    have := gL_swap_isNameL (old := old) (new := new) ho.name hn.name (b := s.toList) h
    unfold gL at this
    rw [String.ofList_toList] at this
    exact this
  rad := swapName_rad' ho.rad hn.rad
  single := fun c => swapName_other (isName_not_single ho.name c) (isName_not_single hn.name c)
  r0 := swapName_other (Ne.symm ho.r0) (Ne.symm hn.r0)

/-! ## every finite injective map of good names extends to a `NameBij` -/

/-- the transposition of two strings if both are good names, the identity otherwise -/
def NameBij.swapOrId (x y : String) : NameBij :=
  if h : GoodName x ∧ GoodName y then NameBij.swap h.1 h.2 else NameBij.id

theorem NameBij.swapOrId_f {x y : String} (hx : GoodName x) (hy : GoodName y) (s : String) :
    (NameBij.swapOrId x y).b.f s = swapName x y s := by
  unfold NameBij.swapOrId
  rw [dif_pos ⟨hx, hy⟩]
  rfl

/-- the product of transpositions that maps `a_i` to `b_i`, one pair after the other, on top of `σ` -/
def NameBij.extend : List (String × String) → NameBij → NameBij
  | [], σ => σ
  | (a, b) :: ps, σ => NameBij.extend ps ((NameBij.swapOrId (σ.b.f a) b).comp σ)

theorem NameBij.extend_spec : ∀ (ps : List (String × String)) (σ : NameBij),
    (ps.map (·.1)).Nodup → (ps.map (·.2)).Nodup → (∀ p ∈ ps, GoodName p.1 ∧ GoodName p.2) →
    (∀ p ∈ ps, (NameBij.extend ps σ).b.f p.1 = p.2) ∧
    (∀ x, x ∉ ps.map (·.1) → σ.b.f x ∉ ps.map (·.2) → (NameBij.extend ps σ).b.f x = σ.b.f x)
  | [], σ, _, _, _ => ⟨(fun p hp => by cases hp), (fun _ _ _ => rfl)⟩
  | (a, b) :: ps, σ, hk, hv, hgood => by
    simp only [List.map_cons, List.nodup_cons] at hk hv
    obtain ⟨hga, hgb⟩ := hgood (a, b) (List.mem_cons_self ..)
    have hgσa : GoodName (σ.b.f a) := σ.good hga
    let σ' := (NameBij.swapOrId (σ.b.f a) b).comp σ
    have hσ' : ∀ x, σ'.b.f x = swapName (σ.b.f a) b (σ.b.f x) := fun x => NameBij.swapOrId_f hgσa hgb _
    obtain ⟨ih1, ih2⟩ := NameBij.extend_spec ps σ' hk.2 hv.2
      (fun p hp => hgood p (List.mem_cons_of_mem _ hp))
    have hhead : σ'.b.f a = b := by rw [hσ']; exact swapName_left _ _
    refine ⟨?_, ?_⟩
    · intro p hp
      rcases List.mem_cons.1 hp with e | hp
      · rw [e]
        show (NameBij.extend ps σ').b.f a = b
        rw [ih2 a hk.1 (by rw [hhead]; exact hv.1), hhead]
      · exact ih1 p hp
    · intro x hx hvx
      simp only [List.map_cons, List.mem_cons, not_or] at hx hvx
      have hx' : σ'.b.f x = σ.b.f x := by
        rw [hσ']
        exact swapName_other (fun e => hx.1 (σ.b.inj e)) hvx.1
      show (NameBij.extend ps σ').b.f x = σ.b.f x
      rw [ih2 x hx.2 (by rw [hx']; exact hvx.2), hx']

/-- the list without repetitions -/
def uniq : List String → List String
  | [] => []
  | x :: xs => if x ∈ uniq xs then uniq xs else x :: uniq xs

theorem mem_uniq {a : String} : ∀ {l : List String}, a ∈ uniq l ↔ a ∈ l
  | [] => Iff.rfl
  | x :: xs => by
    unfold uniq
    split
    · rename_i h
      rw [mem_uniq (l := xs), List.mem_cons]
      constructor
      · exact Or.inr
      · rintro (e | h')
        · rw [e]; exact mem_uniq.1 h
        · exact h'
    · rw [List.mem_cons, List.mem_cons, mem_uniq (l := xs)]

theorem nodup_uniq : ∀ l : List String, (uniq l).Nodup
  | [] => List.nodup_nil
  | x :: xs => by
    unfold uniq
    split
    · exact nodup_uniq xs
    · rename_i h; exact List.nodup_cons.2 ⟨h, nodup_uniq xs⟩

theorem nodup_map_of_inj {f : String → String} : ∀ {l : List String}, l.Nodup →
    (∀ a ∈ l, ∀ b ∈ l, f a = f b → a = b) → (l.map f).Nodup
  | [], _, _ => List.nodup_nil
  | x :: xs, hn, hinj => by
    rw [List.nodup_cons] at hn
    rw [List.map_cons, List.nodup_cons]
    refine ⟨fun hm => ?_, nodup_map_of_inj hn.2 (fun a ha b hb => hinj a (List.mem_cons_of_mem _ ha) b (List.mem_cons_of_mem _ hb))⟩
    obtain ⟨y, hy, e⟩ := List.mem_map.1 hm
    have := hinj y (List.mem_cons_of_mem _ hy) x (List.mem_cons_self ..) e
    exact hn.1 (this ▸ hy)

/-- the bijection of a simultaneous map `m` on a list of names -/
def NameBij.ofMap (names : List String) (m : String → String) : NameBij :=
  NameBij.extend ((uniq names).map fun n => (n, m n)) NameBij.id

/-- a simultaneous map that is injective on a list of good names and maps them to good names is the
restriction of a `NameBij` -/
theorem NameBij.ofMap_spec (names : List String) (m : String → String)
    (hgood : ∀ n ∈ names, GoodName n ∧ GoodName (m n))
    (hinj : ∀ a ∈ names, ∀ b ∈ names, m a = m b → a = b) :
    ∀ n ∈ names, (NameBij.ofMap names m).b.f n = m n := by
  intro n hn
  have hk : (((uniq names).map fun n => (n, m n)).map (·.1)).Nodup := by
    rw [List.map_map]
    have : ((fun p : String × String => p.1) ∘ fun n => (n, m n)) = fun n => n := rfl
    rw [this, List.map_id']
    exact nodup_uniq names
  have hv : (((uniq names).map fun n => (n, m n)).map (·.2)).Nodup := by
    rw [List.map_map]
    exact nodup_map_of_inj (nodup_uniq names)
      (fun a ha b hb => hinj a (mem_uniq.1 ha) b (mem_uniq.1 hb))
  have hg : ∀ p ∈ (uniq names).map (fun n => (n, m n)), GoodName p.1 ∧ GoodName p.2 := by
    intro p hp
    obtain ⟨x, hx, rfl⟩ := List.mem_map.1 hp
    exact hgood x (mem_uniq.1 hx)
  exact (NameBij.extend_spec _ NameBij.id hk hv hg).1 (n, m n)
    (List.mem_map.2 ⟨n, mem_uniq.2 hn, rfl⟩)

/-! ## the renaming of the checker -/

section
variable (n : NameBij)

theorem gL_single (c : Char) : gL n.b.f [c] = [c] := by
  unfold gL
  rw [n.single, String.toList_ofList]

theorem rad2_mapBlocks (x : String) : rad2 (mapBlocks n.b.f x).toList = rad2 x.toList := by
  rw [mapBlocks_toList]
  have hfl := flatten_blocks x.toList
  have hsh := blocks_shaped x.toList
  generalize blocks x.toList = L at hfl hsh
  rw [← hfl]
  cases L with
  | nil => rfl
  | cons b0 rest =>
    obtain ⟨hb0, hrest⟩ := hsh
    simp only [List.map_cons, List.flatten_cons]
    cases b0 with
    | nil => cases hb0
    | cons c t =>
      cases t with
      | nil =>
        rw [gL_single]
        cases rest with
        | nil => rfl
        | cons b1 rest' =>
          obtain ⟨u, t1, e1, hu⟩ := upBlock_cons (hrest b1 (List.mem_cons_self ..))
          obtain ⟨u', t1', e1', hu'⟩ := upBlock_cons (n.upb b1 (hrest b1 (List.mem_cons_self ..)))
          simp only [List.map_cons, List.flatten_cons, List.cons_append, List.nil_append]
          rw [e1', e1]
          exact rad2_up c u' u _ _ hu' hu
      | cons d t' =>
        -- the image of a block with two symbols has two symbols
        have hb' := n.block _ hb0
        have hrad : rad2 (gL n.b.f (c :: d :: t')) = rad2 (c :: d :: t') := by
          have := n.rad (String.ofList (c :: d :: t'))
          rw [isRadical_eq, isRadical_eq, String.toList_ofList] at this
          exact this
        cases hg : gL n.b.f (c :: d :: t') with
        | nil => rw [hg] at hb'; cases hb'
        | cons c' t'' =>
          cases t'' with
          | nil =>
            exfalso
            have e1 : n.b.f (String.ofList (c :: d :: t')) = String.ofList [c'] := by
              apply String.toList_inj.mp
              rw [String.toList_ofList]
              exact hg
            rw [← n.single c'] at e1
            have := congrArg String.toList (n.b.inj e1)
            rw [String.toList_ofList, String.toList_ofList] at this
            cases this
          | cons d' t3 =>
            rw [hg] at hrad
            simp only [List.cons_append]
            rw [rad2_two c' d' _ t3, hrad]
            exact rad2_two c d _ _

/-- the renaming of base names: the bijection applied to every block -/
def TRen.ofNameBij : TRen where
  β := ⟨mapBlocks n.b.f, mapBlocks n.b.g, mapBlocks_inv n.b.gf n.block n.upb,
    mapBlocks_inv n.b.fg n.block' n.upb'⟩
  βZ := by
    show mapBlocks n.b.f Ty.intName = Ty.intName
    rw [mapBlocks_single _ (by decide)]
    exact n.single 'Z'
  βR0 := by
    show mapBlocks n.b.f Ty.anyName = Ty.anyName
    rw [mapBlocks_single _ (by decide)]
    exact n.r0
  βrad := fun x => by
    show isRadical (mapBlocks n.b.f x) = isRadical x
    rw [isRadical_eq, isRadical_eq, rad2_mapBlocks n]

/-- the renaming of the checker: the bijection on the tokens, block-wise on the base names -/
def CRen.ofNameBij : CRen := ⟨n.b, TRen.ofNameBij n⟩

end

/-- the renaming for two well-formed names: transposition on the tokens, block-wise transposition on
the base names -/
def CRen.names {old new : String} (ho : GoodName old) (hn : GoodName new) : CRen :=
  CRen.ofNameBij (NameBij.swap ho hn)

/-! ## the decidable side condition -/

def textIs (d : TokData) (p : String → Bool) : Bool :=
  match d with
  | .text s => p s
  | _ => true

def fixedBy (g : String → String) (s : String) : Bool := g s == s

/-- the decidable side condition at one node for `CRen.ofNameBij` -/
def nodeNames (g : String → String) (a : Ast) : Bool :=
  (!decide (a.id = .ID_RADICAL) || textIs a.data fun s => isBlock s.toList && fixedBy g s) &&
  (!decide (a.id = .NT_FUNC_CALL) || kid0Ok a fun k0 => textIs k0.data fun fn =>
    isName fn && (isGlob k0.id || fixedBy g fn)) &&
  (!(isDeclTok a.id && a.kids.length == 1) || kid0Ok a fun k0 => textIs k0.data fun n =>
    isBlock n.toList && (isGlob k0.id || fixedBy g n)) &&
  (!decide (a.id = .NT_ARG_DECL) || kid0Ok a fun k0 => !isGlob k0.id || textIs k0.data (fixedBy g))

mutual
def namesOK (g : String → String) : Ast → Bool
  | .node id d lo hi ks => nodeNames g (.node id d lo hi ks) && namesOKL g ks
def namesOKL (g : String → String) : List Ast → Bool
  | [] => true
  | k :: ks => namesOK g k && namesOKL g ks
end

theorem fixedBy_eq {g : String → String} {s : String} (h : fixedBy g s = true) : g s = s := by
  unfold fixedBy at h
  exact beq_iff_eq.1 h

theorem nodeOK_names (n : NameBij) {a : Ast} (h : nodeNames n.b.f a = true) : NodeOK (CRen.ofNameBij n) a := by
  unfold nodeNames at h
  simp only [Bool.and_eq_true, Bool.or_eq_true, Bool.not_eq_true', decide_eq_false_iff_not] at h
  obtain ⟨⟨⟨h1, h2⟩, h3⟩, h4⟩ := h
  refine ⟨?_, ?_, ?_, ?_⟩
  · intro hid s hs
    rcases h1 with h1 | h1
    · exact absurd hid h1
    · rw [hs] at h1
      simp only [textIs, Bool.and_eq_true] at h1
      show mapBlocks n.b.f s = s
      rw [mapBlocks_single _ h1.1]
      exact fixedBy_eq h1.2
  · intro hid k0 hk0 fn hfn
    rcases h2 with h2 | h2
    · exact absurd hid h2
    · unfold kid0Ok at h2
      rw [hk0] at h2
      simp only [hfn, textIs, Bool.and_eq_true, Bool.or_eq_true] at h2
      refine ⟨fun hg => ?_, fun id _ => ?_⟩
      · rcases h2.2 with h | h
        · rw [hg] at h; cases h
        · exact fixedBy_eq h
      · exact mapBlocks_append _ id h2.1
  · intro hid hlen k0 hk0 nm hn
    rcases h3 with h3 | h3
    · rw [hid, hlen] at h3
      simp at h3
    · unfold kid0Ok at h3
      rw [hk0] at h3
      simp only [hn, textIs, Bool.and_eq_true, Bool.or_eq_true] at h3
      show mapBlocks n.b.f nm = if isGlob k0.id then n.b.f nm else nm
      rw [mapBlocks_single _ h3.1]
      cases hg : isGlob k0.id with
      | true => rfl
      | false =>
        simp only [Bool.false_eq_true, if_false]
        rcases h3.2 with h | h
        · rw [hg] at h; cases h
        · exact fixedBy_eq h
  · intro hid k0 hk0 nm hn hg
    rcases h4 with h4 | h4
    · exact absurd hid h4
    · unfold kid0Ok at h4
      rw [hk0] at h4
      simp only [Bool.or_eq_true, Bool.not_eq_true'] at h4
      rcases h4 with h4 | h4
      · rw [hg] at h4; cases h4
      · rw [hn] at h4
        exact fixedBy_eq h4

mutual
theorem treeOK_names (n : NameBij) : ∀ a : Ast, namesOK n.b.f a = true → TreeOK (CRen.ofNameBij n) a
  | .node id d lo hi ks, h => by
    simp only [namesOK, Bool.and_eq_true] at h
    exact TreeOK.mk (nodeOK_names n h.1) (treeOK_namesL n ks h.2)
theorem treeOK_namesL (n : NameBij) : ∀ ks : List Ast, namesOKL n.b.f ks = true →
    ∀ k ∈ ks, TreeOK (CRen.ofNameBij n) k
  | [], _ => fun k hk => by cases hk
  | k :: ks, h => by
    simp only [namesOKL, Bool.and_eq_true] at h
    intro k' hk'
    rcases List.mem_cons.1 hk' with e | hk'
    · rw [e]; exact treeOK_names n k h.1
    · exact treeOK_namesL n ks h.2 k' hk'
end

end CCVerif.Checker

namespace CCVerif.SchemaGen
open CCVerif CCVerif.Syntax CCVerif.Types CCVerif.Checker CCVerif.Blocks
open CCVerif.Schema (Kind Status)

/-- `Schema::TraitsFor` of a schema whose base sets are nominal (aliases that are not single blocks —
none is ever issued — have no traits) -/
def baseTraitsN (sk : Skel) : TraitEnv :=
  sk.filterMap fun p => if p.2.2 = .base ∧ isBlock p.2.1.toList = true then some (p.2.1, Traits.nominal) else none

theorem isBlock_nameBij (n : NameBij) (a : String) : isBlock (n.b.f a).toList = isBlock a.toList := by
  have h1 : isBlock a.toList = true → isBlock (n.b.f a).toList = true := by
    intro h
    have := n.block _ h
    unfold gL at this
    rw [String.ofList_toList] at this
    exact this
  have h2 : isBlock (n.b.f a).toList = true → isBlock a.toList = true := by
    intro h
    have := n.block' _ h
    unfold gL at this
    rw [String.ofList_toList, n.b.gf] at this
    exact this
  cases hb : isBlock a.toList with
  | true => exact h1 hb
  | false =>
    cases hb' : isBlock (n.b.f a).toList with
    | false => rfl
    | true => rw [h2 hb'] at hb; cases hb

theorem baseTraitsN_cons (u : Nat) (a : String) (k : Kind) (sk : Skel) :
    baseTraitsN ((u, a, k) :: sk) =
      if k = .base ∧ isBlock a.toList = true then (a, Traits.nominal) :: baseTraitsN sk else baseTraitsN sk := by
  unfold baseTraitsN
  rw [List.filterMap_cons]
  by_cases hc : k = .base ∧ isBlock a.toList = true
  · rw [if_pos hc, if_pos hc]
  · rw [if_neg hc, if_neg hc]

theorem baseTraitsN_ren (n : NameBij) : ∀ sk : Skel,
    baseTraitsN (renSk (CRen.ofNameBij n).ρ.f sk) = renTE (CRen.ofNameBij n).τ (baseTraitsN sk)
  | [] => rfl
  | (u, a, k) :: sk => by
    have ih := baseTraitsN_ren n sk
    show baseTraitsN ((u, n.b.f a, k) :: renSk (CRen.ofNameBij n).ρ.f sk) = _
    rw [baseTraitsN_cons, baseTraitsN_cons, isBlock_nameBij n, ih]
    by_cases hc : k = .base ∧ isBlock a.toList = true
    · rw [if_pos hc, if_pos hc]
      show _ = (mapBlocks n.b.f a, Traits.nominal) :: renTE (CRen.ofNameBij n).τ (baseTraitsN sk)
      rw [mapBlocks_single _ hc.2]
    · rw [if_neg hc, if_neg hc]

/-- the renaming for the checker instance over `baseTraitsN` -/
def namesRen (n : NameBij) : CRenFor baseTraitsN where
  r := CRen.ofNameBij n
  traits := baseTraitsN_ren n

/-- the decidable form of the side condition `GoodC` for `CRen.ofNameBij` -/
def goodNames (g : String → String) (c : Cst CDef) : Bool :=
  isBlock c.alias.toList &&
  match c.defn with
  | none => true
  | some body => namesOK g body && (globalsOf body).all fun n => (usedGlobals body).contains n

theorem goodC_names (n : NameBij) {c : Cst CDef} (h : goodNames n.b.f c = true) : GoodC (CRen.ofNameBij n) c := by
  unfold goodNames at h
  simp only [Bool.and_eq_true] at h
  refine ⟨?_, ?_, ?_⟩
  · show mapBlocks n.b.f c.alias = n.b.f c.alias
    exact mapBlocks_single _ h.1
  · intro body hb
    have h2 := h.2
    rw [hb] at h2
    simp only [Bool.and_eq_true] at h2
    exact treeOK_names n body h2.1
  · intro body hb nm hn
    have h2 := h.2
    rw [hb] at h2
    simp only [Bool.and_eq_true, List.all_eq_true] at h2
    simpa using h2.2 nm hn

end CCVerif.SchemaGen
