import CCVerif.Lemmas.Convert
import CCVerif.Lemmas.ParsePrint3Text
import CCVerif.Lemmas.ParseReject
/-!
C05, idempotence of `ConvertTo` towards ASCII: a parser-FAILURE theorem. The second `ConvertTo(·, ASCII)` reads the ASCII
text with the MATH lexer; there every ASCII operator word `\kw` is `\` (SET_MINUS) followed by the identifier `kw`. Proved
here: a text that starts (after at most one blank) with a backslash is rejected by the MATH parser — the first token is
SET_MINUS, and no `expression` starts with it (`math_rejects_backslash_start`); and the ASCII print of a fragment formula
whose left-most symbol is `¬`, `∀` or `∃` (`E3.lead`) starts with ` \` (`lead_items`), so it is rejected.
-/
namespace CCVerif.ConvertI
open CCVerif.Syntax CCVerif.Generated CCVerif.Lexer CCVerif.Parser CCVerif.Printer CCVerif.LexP CCVerif.LexN CCVerif.PP
open CCVerif.PP3 (E3)

/-! ## the MATH lexer on a text that starts with a backslash -/

/-- (regenerated MATH rule table) `\` alone is lexed as SET_MINUS, it is a symbol, and no literal of the lexer extends it -/
theorem backslash_table : bestRule .math [92] (rulesOf .math) none = some (1, .tok .SET_MINUS) ∧
    symStart .math [92] = true ∧ extChars .math [92] = [] := by
  decide +kernel

theorem bestRule_backslash (rest : List Nat) :
    bestRule .math (92 :: rest) (rulesOf .math) none = some (1, .tok .SET_MINUS) := by
  cases rest with
  | nil => exact backslash_table.1
  | cons c r =>
    have := bestRule_ext .math [92] c r (ext_symbol_nil .math [92] c backslash_table.2.1 backslash_table.2.2)
    simpa [backslash_table.1] using this

/-- the scanner on `\…`: the first token is SET_MINUS (if the rest can be scanned at all) -/
theorem lexGo_backslash (fuel : Nat) (rest : List Nat) (lb col : Nat) (ts : List RawTok)
    (h : lexGo .math (rulesOf .math) (fuel + 1) (92 :: rest) lb col = some ts) :
    ∃ hd tl, ts = hd :: tl ∧ hd.id = .SET_MINUS := by
  unfold lexGo at h
  simp only [bestRule_backslash] at h
  cases hg : lexGo .math (rulesOf .math) fuel (List.drop 1 (92 :: rest)) lb (col + 1) with
  | none => rw [hg] at h; simp at h
  | some r =>
    rw [hg] at h
    simp only [Option.some.injEq] at h
    exact ⟨_, _, h.symm, rfl⟩

theorem lexGo_blank_backslash (fuel : Nat) (rest : List Nat) (lb col : Nat) (ts : List RawTok)
    (h : lexGo .math (rulesOf .math) (fuel + 2) (32 :: 92 :: rest) lb col = some ts) :
    ∃ hd tl, ts = hd :: tl ∧ hd.id = .SET_MINUS := by
  have hb := bestRule_blank .math 32 (92 :: rest) (bl_32 .math)
  have hs : spanLen (bl .math) (32 :: 92 :: rest) = 1 := by
    have h0 : spanLen (bl .math) (92 :: rest) = 0 := spanLen_zero_of_head _ _ _ (by decide)
    have h1 := spanLen_pos_of_head (bl .math) 32 (92 :: rest) (bl_32 .math)
    omega
  rw [hs] at hb
  unfold lexGo at h
  simp only [hb] at h
  exact lexGo_backslash fuel rest lb (col + 1) ts h

/-! ## the parser on a stream that starts with SET_MINUS -/

theorem primary_setminus (f : Nat) (t : LTok) (rest : Toks) (ht : t.id = .SET_MINUS) : primary f (t :: rest) = none := by
  cases f with
  | zero => rw [primary.eq_def]
  | succ f => rw [primary.eq_def]; simp only [ht]

theorem setE_setminus (f m : Nat) (t : LTok) (rest : Toks) (ht : t.id = .SET_MINUS) : setE f m (t :: rest) = none := by
  cases f with
  | zero => rw [setE]
  | succ f => rw [setE, primary_setminus f t rest ht]

theorem predE_setminus (f : Nat) (t : LTok) (rest : Toks) (ht : t.id = .SET_MINUS) : predE f (t :: rest) = none := by
  cases f with
  | zero => rw [predE]
  | succ f => rw [predE, setE_setminus f 0 t rest ht]

theorem logE_setminus (f m : Nat) (t : LTok) (rest : Toks) (ht : t.id = .SET_MINUS) : logE f m (t :: rest) = none := by
  cases f with
  | zero => rw [logE]
  | succ f => rw [logE, predE_setminus f t rest ht]

theorem expression_setminus (f : Nat) (t : LTok) (rest : Toks) (ht : t.id = .SET_MINUS) :
    expression f (t :: rest) = none := by
  have hnd : noDeclaration f (t :: rest) = none := by
    unfold noDeclaration
    have : (t.id == Tok.PUNC_SL) = false := by rw [ht]; rfl
    simp only [this, Bool.false_eq_true, if_false]
    unfold logicOrSet
    rw [logE_setminus f 0 t rest ht]
  unfold expression
  cases rest with
  | nil => simp only [hnd]
  | cons m r =>
    have : ((t.id == Tok.ID_GLOBAL || t.id == Tok.ID_FUNCTION || t.id == Tok.ID_PREDICATE) &&
        (m.id == Tok.PUNC_DEFINE || m.id == Tok.PUNC_STRUCT)) = false := by rw [ht]; rfl
    simp only [this, Bool.false_eq_true, if_false, hnd]

/-- no `expression` starts with `\`: a token stream whose first token is SET_MINUS is rejected -/
theorem parseToks_setminus (t : LTok) (rest : Toks) (ht : t.id = .SET_MINUS) : parseToks (t :: rest) = none := by
  unfold parseToks
  have hh : (t.id != Tok.END && t.id != Tok.INTERRUPT) = true := by rw [ht]; rfl
  simp only [List.takeWhile_cons, hh, if_true, expression_setminus _ t _ ht]
  split <;> rfl

/-- **a text that starts with a backslash, or with one blank and a backslash, is rejected by the MATH parser** -/
theorem math_rejects_backslash_start (text rest : List Nat) (h : text = 92 :: rest ∨ text = 32 :: 92 :: rest) :
    parse .math text = none := by
  unfold parse
  cases hl : lex .math text with
  | none => rfl
  | some ts =>
    simp only [lex, lexRaw] at hl
    cases hr : lexGo .math (rulesOf .math) (text.length + 1) text 0 0 with
    | none => rw [hr] at hl; simp at hl
    | some raw =>
      rw [hr] at hl
      simp only [Option.map_some, Option.some.injEq] at hl
      have hhd : ∃ hd tl, raw = hd :: tl ∧ hd.id = .SET_MINUS := by
        rcases h with rfl | rfl
        · exact lexGo_backslash _ rest 0 0 raw hr
        · exact lexGo_blank_backslash _ rest 0 0 raw hr
      obtain ⟨hd, tl, rfl, hid⟩ := hhd
      subst hl
      exact parseToks_setminus _ _ hid

/-! ## fragment formulas whose ASCII text starts with a backslash -/

/-- the left-most symbol of the printed formula is `¬`, `∀` or `∃`: a negation, a quantified formula, or a connective whose
left operand is such a formula and is printed without parentheses -/
def _root_.CCVerif.PP3.E3.lead : E3 → Bool
  | .neg _ => true
  | .quant q .. => q == .FORALL || q == .EXISTS
  | .lbin op l _ => !brLogic op l.top .left && l.lead
  | _ => false

/-- the three prefix operators -/
def prefixL : List Tok := [.NOT, .FORALL, .EXISTS]

/-- (generated ASCII spelling table) ` \neg `, ` \A `, ` \E ` start with a blank and a backslash -/
theorem prefix_spell : ∀ q ∈ prefixL, memb q PP3.fragFixed = true ∧
    (match str .ascii q with | 32 :: 92 :: _ => true | _ => false) = true := by
  decide +kernel

theorem lead_items : ∀ e : E3, e.lead = true → ∃ q ∈ prefixL, ∃ R, e.items .ascii = fx .ascii q ++ R
  | .neg x, _ => ⟨.NOT, by simp [prefixL], _, rfl⟩
  | .quant q vs dm b, h => by
    simp only [E3.lead] at h
    have hq : q = .FORALL ∨ q = .EXISTS := by
      cases q <;> first | exact Or.inl rfl | exact Or.inr rfl | (exact absurd h (by decide))
    rcases hq with rfl | rfl
    · exact ⟨.FORALL, by simp [prefixL], _, rfl⟩
    · exact ⟨.EXISTS, by simp [prefixL], _, rfl⟩
  | .lbin op l r, h => by
    simp only [E3.lead, Bool.and_eq_true, Bool.not_eq_true'] at h
    obtain ⟨q, hq, R, hR⟩ := lead_items l h.2
    refine ⟨q, hq, R ++ (.blank 1 :: (fx .ascii op ++ (.blank 1 :: wrapI .ascii (brLogic op r.top .right) (r.items .ascii)))), ?_⟩
    show wrapI .ascii (brLogic op l.top .left) (l.items .ascii) ++ _ = _
    rw [h.1, hR]
    simp [wrapI]
  | .atom .., h | .text .., h | .sbin .., h | .prod2 .., h | .prodN .., h | .pred .., h | .pow _, h | .one _, h
  | .more .., h | .enum _, h | .tuple .., h | .fcall .., h | .pcall .., h | .filter .., h | .decl .., h | .recS .., h
  | .recF .., h | .imp .., h | .bone _, h | .boneK .., h | .bmore .., h | .bmoreK .., h => by
    simp [E3.lead] at h

/-- the ASCII text of such a formula starts with ` \` -/
theorem lead_render (e : E3) (h : e.lead = true) : ∃ rest, render (e.items .ascii) = 32 :: 92 :: rest := by
  obtain ⟨q, hq, R, hR⟩ := lead_items e h
  have hs := prefix_spell q hq
  rw [hR, render_append, PP3.render_fx .ascii q (mem_of_memb hs.1)]
  cases hstr : str .ascii q with
  | nil => rw [hstr] at hs; simp at hs
  | cons a r =>
    cases r with
    | nil => rw [hstr] at hs; simp at hs
    | cons b r2 =>
      rw [hstr] at hs
      have ha : a = 32 ∧ b = 92 := by
        have := hs.2
        split at this
        · rename_i heq; simp only [List.cons.injEq] at heq; exact ⟨heq.1, heq.2.1⟩
        · cases this
      obtain ⟨rfl, rfl⟩ := ha
      exact ⟨r2 ++ render R, rfl⟩

/-- **parser failure on the ASCII text of a prefix formula**: the MATH parser rejects it -/
theorem math_rejects_lead (e : E3) (h : e.lead = true) : parse .math (render (e.items .ascii)) = none := by
  obtain ⟨rest, hr⟩ := lead_render e h
  exact math_rejects_backslash_start _ rest (Or.inr hr)

/-! ## rejection by two adjacent operands (`Lemmas/ParseReject.lean`) -/

open CCVerif.ConvertL in
theorem isQ_nonAscii : ∀ k : Tok, PR.isQ k = true → nonAsciiKind k = true := by
  intro k h
  have hk : k = .FORALL ∨ k = .EXISTS := by
    cases k <;> first | exact Or.inl rfl | exact Or.inr rfl | (exact absurd h (by decide))
  rcases hk with rfl | rfl <;> decide +kernel

/-- the MATH token stream of a text of ASCII units contains no quantifier token (`∀`, `∃` are non-ASCII literals) -/
theorem noQ_of_ascii (u : List Nat) (ts : Toks) (hl : lex .math u = some ts) (hu : ∀ c ∈ u, c < 128) : PR.NoQ ts := by
  intro t ht
  cases hq : PR.isQ t.id with
  | false => rfl
  | true =>
    obtain ⟨c, hc, h128⟩ := CCVerif.ConvertL.non_ascii_of_kind u ts hl t.id (isQ_nonAscii _ hq) (List.mem_map_of_mem ht)
    have := hu c hc
    omega

/-- DECIDABLE sufficient condition for rejection: the token stream of `u` (up to END) contains an operand-ending token
(identifier, literal) directly followed by an operand-starting token (identifier, literal, `(`, `{`, `[`, keyword, `¬`); or it
contains an INTERRUPT token (a unit the lexer has no rule for), or `u` has no token stream at all -/
def adjacentOperands (syn : Syn) (u : List Nat) : Bool :=
  match lex syn u with
  | some ts => ts.any (fun t => t.id == .INTERRUPT) || !PR.goodL (PR.bodyOf ts)
  | none => true

/-- **parser failure by adjacency**: a text of ASCII units whose MATH token stream has two adjacent operands is rejected by the
MATH parser -/
theorem math_rejects_adjacent (u : List Nat) (hu : ∀ c ∈ u, c < 128) (h : adjacentOperands .math u = true) :
    parse .math u = none := by
  unfold parse
  unfold adjacentOperands at h
  cases hl : lex .math u with
  | none => rfl
  | some ts =>
    rw [hl] at h
    simp only [Bool.or_eq_true, Bool.not_eq_true'] at h
    rcases h with h | h
    · unfold parseToks
      simp only [h, if_true]
    · have hq := noQ_of_ascii u ts hl hu
      exact PR.parseToks_reject ts (fun t ht => hq t ((List.takeWhile_sublist _).subset ht)) h

end CCVerif.ConvertI
