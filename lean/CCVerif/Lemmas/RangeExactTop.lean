import CCVerif.Lemmas.RangeExact
set_option linter.unusedVariables false
set_option linter.unusedSectionVars false
/-!
Helper lemmas of C06 `range_exact`, part 2 — the step of `primary`, the induction on the fuel, the entry
points of the parser.
-/
namespace CCVerif.RangeExact
open CCVerif.Syntax CCVerif.Generated CCVerif.Lexer CCVerif.Parser CCVerif.ParserRanges

theorem local_enum (a b : Int) (kids : List Ast) : Local a b .NT_ENUMERATION kids ↔ Sep (a + 1) kids (b - 1) := by
  simp [Local, isBinId, isSetOp, isPredOp, isLogicOp, isBlkOp, isTextFn]
theorem local_tuple (a b : Int) (kids : List Ast) : Local a b .NT_TUPLE kids ↔ Sep (a + 1) kids (b - 1) := by
  simp [Local, isBinId, isSetOp, isPredOp, isLogicOp, isBlkOp, isTextFn]
theorem local_call (a b : Int) (kids : List Ast) : Local a b .NT_FUNC_CALL kids ↔ Sep a kids (b - 1) := by
  simp [Local, isBinId, isSetOp, isPredOp, isLogicOp, isBlkOp, isTextFn]
theorem local_enumDecl (a b : Int) (kids : List Ast) : Local a b .NT_ENUM_DECL kids ↔ Sep a kids b := by
  simp [Local, isBinId, isSetOp, isPredOp, isLogicOp, isBlkOp, isTextFn]
theorem local_decl (a b : Int) (kids : List Ast) :
    Local a b .NT_DECLARATIVE_EXPR kids ↔ (Sep (a + 2) kids (b - 1) ∨ Sep (a + 1) kids (b - 1)) := by
  simp [Local, isBinId, isSetOp, isPredOp, isLogicOp, isBlkOp, isTextFn]
theorem local_recF (a b : Int) (kids : List Ast) : Local a b .NT_RECURSIVE_FULL kids ↔ Sep (a + 2) kids (b - 1) := by
  simp [Local, isBinId, isSetOp, isPredOp, isLogicOp, isBlkOp, isTextFn]
theorem local_recS (a b : Int) (kids : List Ast) : Local a b .NT_RECURSIVE_SHORT kids ↔ Sep (a + 2) kids (b - 1) := by
  simp [Local, isBinId, isSetOp, isPredOp, isLogicOp, isBlkOp, isTextFn]
theorem local_imp (a b : Int) (kids : List Ast) : Local a b .NT_IMPERATIVE_EXPR kids ↔ Sep (a + 2) kids (b - 1) := by
  simp [Local, isBinId, isSetOp, isPredOp, isLogicOp, isBlkOp, isTextFn]
theorem local_filter (a b : Int) (kids : List Ast) : Local a b .FILTER kids ↔
    ∃ ps x q, kids = ps ++ [x] ∧ Sep (a + 2) ps q ∧ x.lo = q + 3 ∧ x.hi = b - 1 := by
  simp [Local, isBinId, isSetOp, isPredOp, isLogicOp, isBlkOp, isTextFn]
theorem local_forall (a b : Int) (v d p : Ast) : Local a b .FORALL [v, d, p] ↔
    (v.lo = a + 1 ∧ d.lo = v.hi + 2 ∧ p.lo = d.hi + 1 ∧ p.hi = b) := by
  simp [Local, isBinId, isSetOp, isPredOp, isLogicOp, isBlkOp, isTextFn]
theorem local_exists (a b : Int) (v d p : Ast) : Local a b .EXISTS [v, d, p] ↔
    (v.lo = a + 1 ∧ d.lo = v.hi + 2 ∧ p.lo = d.hi + 1 ∧ p.hi = b) := by
  simp [Local, isBinId, isSetOp, isPredOp, isLogicOp, isBlkOp, isTextFn]

theorem tight_leaf_eq {t : LTok} {id : Tok} (h : t.id = id) (hid : isLeafId id = true) (h0 : t.lo = t.hi) :
    Tight (leaf t) := tight_leaf (by rw [h]; exact hid) h0

theorem tight_text_eq {op rp : LTok} {x : Ast} {id : Tok} (h : op.id = id) (hop : isTextFn id = true ∨ id = .BOOLEAN)
    (hx : Tight x) (h1 : x.lo = op.lo + 2) (h2 : x.hi + 1 = rp.hi) : Tight (textOperator op x rp) :=
  tight_text (by rw [h]; exact hop) hx h1 h2

theorem blocks_nil {f : Nat} (ih : ParserTight f) {o : Int} {toks : Toks} (h : Idx o toks) :
    ResL o (blocks f [] toks) := ih.blocks [] toks o o tl_nil (Or.inl ⟨rfl, rfl⟩) h
theorem varPack_single {f : Nat} (ih : ParserTight f) {v : Ast} {toks : Toks} (hv : Tight v) (h : Idx (v.hi + 1) toks) :
    ResL v.lo (varPackTail f [v] toks) :=
  ih.varPackTail [v] toks v.lo v.hi ((tl_cons _ _).2 ⟨hv, tl_nil⟩) ((sep_single _ _ _).2 ⟨rfl, rfl⟩) h
theorem enumTail_single {f : Nat} (ih : ParserTight f) {v : Ast} {toks : Toks} (hv : Tight v) (h : Idx (v.hi + 1) toks) :
    ResL v.lo (enumTail f [v] toks) :=
  ih.enumTail [v] toks v.lo v.hi ((tl_cons _ _).2 ⟨hv, tl_nil⟩) ((sep_single _ _ _).2 ⟨rfl, rfl⟩) h
grind_pattern enumTail_single => ParserTight f, Tight v, Parser.enumTail f [v] toks
theorem peek_cons (t : LTok) (r : Toks) : peek (t :: r) = t.id := rfl
theorem peek2_cons (t u : LTok) (r : Toks) : peek2 (t :: u :: r) = u.id := rfl
grind_pattern blocks_nil => ParserTight f, Idx o toks, Parser.blocks f [] toks
grind_pattern varPack_single => ParserTight f, Tight v, Parser.varPackTail f [v] toks

theorem enumDecl_span {v : Ast} {args : List Ast} {s q : Int} (h : Sep s args q) (hn : ∀ x, args = [x] → False) :
    (spanOf v (args.drop 1)).1 = v.lo ∧ (spanOf v (args.drop 1)).2 = q := by
  refine ⟨rfl, ?_⟩
  match args, h, hn with
  | [], h, _ => simp at h
  | [k], _, hn => exact absurd rfl (fun e => hn k e)
  | k :: k2 :: ks, h, _ =>
    rw [sep_cons2] at h
    show (((k :: k2 :: ks).drop 1).getLast?.getD v).hi = q
    simpa using sep_last v h.2

theorem tight_enumDecl {v : Ast} {args : List Ast} {q : Int} (h : Sep v.lo args q) (ht : TL args)
    (hn : ∀ x, args = [x] → False) :
    Tight (.node .NT_ENUM_DECL .none (spanOf v (args.drop 1)).1 (spanOf v (args.drop 1)).2 args) := by
  obtain ⟨e1, e2⟩ := enumDecl_span (v := v) h hn
  rw [e1, e2]
  exact tight_intro (by decide) ((local_enumDecl _ _ _).2 h) ht

theorem tight_filter {t rp : LTok} {ps : List Ast} {e : Ast} {q : Int} (hid : t.id = .FILTER) (hp : TL ps) (he : Tight e)
    (hs : Sep (t.lo + 2) ps q) (h1 : e.lo = q + 3) (h2 : e.hi + 1 = rp.hi) :
    Tight (.node t.id t.data t.lo rp.hi (ps ++ [e])) := by
  rw [hid]
  exact tight_intro (by decide) ((local_filter _ _ _).2 ⟨ps, e, q, rfl, hs, h1, by omega⟩) (tl_snoc hp he)

theorem tight_text_boolean {op rp : LTok} {x : Ast} (h : op.id = .BOOLEAN)
    (hx : Tight x) (h1 : x.lo = op.lo + 2) (h2 : x.hi + 1 = rp.hi) : Tight (textOperator op x rp) :=
  tight_text (Or.inr h) hx h1 h2

macro "tight_close_p" : tactic =>
  `(tactic| grind (gen := 20) (ematch := 20) [idx_cons, idx_nil, idx_drop1, tight_intro, local_enum, local_tuple, local_call,
      local_enumDecl, local_decl, local_recF, local_recS, local_imp, local_forall, local_exists,
      tight_leaf_eq, tight_leaf_local, leaf_lo, leaf_hi, isLeafId, tight_text_eq, textOperator_lo, textOperator_hi, isTextFn,
      tight_unary_not, tight_unary_boolean, unary_lo, unary_hi, tight_brackets, removeBrackets_lo, removeBrackets_hi,
      lo_node, hi_node, tl_cons, tl_nil, tl_snoc, sep_single, sep_cons, sep_cons2, sep_snoc, enumDecl_span, tight_enumDecl, tight_filter, peek_cons, peek2_cons, tight_text_boolean])

set_option maxHeartbeats 1000000 in
theorem step_primary (f : Nat) (ih : ParserTight f) :
    ∀ toks k e r o, Idx o toks → primary (f + 1) toks = some (k, e, r) → Tight e ∧ e.lo = o ∧ Idx (e.hi + 1) r := by
  intro toks k e r o ht h
  rw [primary.eq_def] at h; parser_cases h
  all_goals try (cases h; done)
  all_goals cases h
  all_goals try (rw [idx_cons] at ht; exact ⟨tight_leaf_eq ‹_ = _› rfl (by omega), by simp [ht.1], by simpa [ht.2.1] using ht.2.2⟩)
  all_goals first | tight_close_p | (rw [idx_cons] at ht; have hd := idx_drop1 ht.2.2; tight_close_p)

theorem parserTight_succ (f : Nat) (ih : ParserTight f) : ParserTight (f + 1) where
  enumE := fun toks o h => resL_intro fun es r he => step_enumE f ih toks es r o h he
  enumTail := fun acc toks s q h1 h2 h3 => resL_intro fun es r he => step_enumTail f ih acc toks es r s q h1 h2 h3 he
  varE := fun toks o h => resV_intro fun v r he => step_varE f ih toks v r o h he
  varPackTail := fun acc toks s q h1 h2 h3 => resL_intro fun es r he => step_varPackTail f ih acc toks es r s q h1 h2 h3 he
  argDecls := fun acc toks s o h1 h2 h3 => resL_intro fun es r he => step_argDecls f ih acc toks es r s o h1 h2 h3 he
  blocks := fun acc toks s o h1 h2 h3 => resL_intro fun es r he => step_blocks f ih acc toks es r s o h1 h2 h3 he
  primary := fun toks o h => resT_intro fun k e r he => step_primary f ih toks k e r o h he
  setE := fun m toks o h => resT_intro fun k e r he => step_setE f ih m toks k e r o h he
  setLoop := fun m k lhs toks h1 h2 => resT_intro fun k' e r he => step_setLoop f ih m k lhs toks k' e r h1 h2 he
  predE := fun toks o h => resT_intro fun k e r he => step_predE f ih toks k e r o h he
  logE := fun m toks o h => resT_intro fun k e r he => step_logE f ih m toks k e r o h he
  logLoop := fun m k lhs toks h1 h2 => resT_intro fun k' e r he => step_logLoop f ih m k lhs toks k' e r h1 h2 he

/-- **the exact-tiling invariant of the whole recursive-descent parser**, every fuel -/
theorem parserTight : ∀ f : Nat, ParserTight f
  | 0 => parserTight_zero
  | f + 1 => parserTight_succ f (parserTight f)

theorem tight_logicOrSet (f : Nat) (toks : Toks) (e : Ast) (r : Toks) (o : Int) (ht : Idx o toks)
    (h : logicOrSet f toks = some (e, r)) : Tight e ∧ e.lo = o ∧ Idx (e.hi + 1) r := by
  have ih := parserTight f
  unfold logicOrSet at h; parser_cases h
  all_goals try (cases h; done)
  all_goals cases h
  all_goals
    have h1 := ih.logE 0 toks o ht
    rw [‹logE f 0 _ = _›, resT_some] at h1
    exact h1

theorem local_arguments (a b : Int) (kids : List Ast) : Local a b .NT_ARGUMENTS kids ↔ Sep a kids b := by
  simp [Local, isBinId, isSetOp, isPredOp, isLogicOp, isBlkOp, isTextFn]
theorem local_funcDef (a b : Int) (kids : List Ast) : Local a b .NT_FUNC_DEFINITION kids ↔ Sep (a + 1) kids b := by
  simp [Local, isBinId, isSetOp, isPredOp, isLogicOp, isBlkOp, isTextFn]

theorem tight_arguments {d : Ast} {ds : List Ast} {s q : Int} (h : Sep s (d :: ds) q) (ht : TL (d :: ds)) :
    Tight (.node .NT_ARGUMENTS .none (spanOf d ds).1 (spanOf d ds).2 (d :: ds)) ∧ (spanOf d ds).1 = s ∧ (spanOf d ds).2 = q := by
  have e1 : (spanOf d ds).1 = s := by
    obtain ⟨k, r, hk, hl⟩ := sep_lo h
    cases hk; exact hl
  have e2 : (spanOf d ds).2 = q := by
    have := sep_last d h
    cases ds with
    | nil => simpa [spanOf] using this
    | cons a l =>
      show ((a :: l).getLast?.getD d).hi = q
      rw [List.getLast?_cons_cons] at this; exact this
  rw [e1, e2]
  exact ⟨tight_intro (by decide) ((local_arguments _ _ _).2 h) ht, rfl, rfl⟩

theorem tight_noDeclaration (f : Nat) (toks : Toks) (e : Ast) (r : Toks) (o : Int) (ht : Idx o toks)
    (h : noDeclaration f toks = some (e, r)) : Tight e ∧ e.lo = o ∧ Idx (e.hi + 1) r := by
  have ih := parserTight f
  have i0 := tight_logicOrSet f
  unfold noDeclaration at h; parser_cases h
  all_goals try (cases h; done)
  · rename_i hls _ _ d ds rs r1 hargs hrs _ e1 r2 hlos
    cases h
    rw [idx_cons] at ht
    have h1 := ih.argDecls [] _ (o + 1) (o + 1) tl_nil (Or.inl ⟨rfl, rfl⟩) ht.2.2
    rw [hargs, resL_some] at h1
    obtain ⟨t1, q, s1, i1⟩ := h1
    obtain ⟨a1, a2, a3⟩ := tight_arguments s1 t1
    rw [idx_cons] at i1
    obtain ⟨l1, l2, l3⟩ := i0 _ _ _ _ i1.2.2 hlos
    refine ⟨tight_intro (by decide) ((local_funcDef _ _ _).2 ?_) ?_, ht.1, l3⟩
    · simp only [sep_cons2, sep_single, lo_node, hi_node]
      exact ⟨by omega, by omega, trivial⟩
    · simp [a1, l1]
  · exact i0 _ _ _ _ ht h

theorem tight_define {g m : LTok} {kids : List Ast} {b : Int} (hm : (m.id == .PUNC_DEFINE || m.id == .PUNC_STRUCT) = true)
    (hl : Sep g.lo kids b ∨ Sep g.lo kids (b - 1)) (ht : TL kids) : Tight (.node m.id m.data g.lo b kids) := by
  rw [Bool.or_eq_true] at hm
  rcases hm with hm | hm <;> rw [tok_beq_eq _ _ hm] <;>
    exact tight_intro (by decide) (by simpa [Local, isBinId, isSetOp, isPredOp, isLogicOp, isBlkOp, isTextFn] using hl) ht

theorem tight_leaf_glob {g : LTok} (h : (g.id == .ID_GLOBAL || g.id == .ID_FUNCTION || g.id == .ID_PREDICATE) = true)
    (h0 : g.lo = g.hi) : Tight (leaf g) := by
  simp only [Bool.or_eq_true] at h
  rcases h with (h | h) | h <;> exact tight_leaf (by rw [tok_beq_eq _ _ h]; rfl) h0

theorem tight_expression (f : Nat) (toks : Toks) (e : Ast) (o : Int) (ht : Idx o toks)
    (h : expression f toks = some e) : Tight e ∧ e.lo = o := by
  have i0 := tight_noDeclaration f
  unfold expression at h; parser_cases h
  all_goals try (cases h; done)
  · have hgm := ‹(_ && _) = true›
    rw [Bool.and_eq_true] at hgm
    rw [idx_cons, idx_cons] at ht
    have hg := tight_leaf_glob hgm.1 (by omega)
    cases h
    exact ⟨tight_define hgm.2 (Or.inr (by simp; omega)) (by simp [hg]), ht.1⟩
  · have hgm := ‹(_ && _) = true›
    rw [Bool.and_eq_true] at hgm
    rw [idx_cons, idx_cons] at ht
    have hg := tight_leaf_glob hgm.1 (by omega)
    obtain ⟨h1, h2, h3⟩ := i0 _ _ _ _ ht.2.2.2.2 ‹noDeclaration f _ = _›
    cases h
    exact ⟨tight_define hgm.2 (Or.inl (by simp; omega)) (by simp [hg, h1]), ht.1⟩
  · obtain ⟨h1, h2, h3⟩ := i0 _ _ _ _ ht ‹noDeclaration f _ = _›
    cases h; exact ⟨h1, h2⟩
  · obtain ⟨h1, h2, h3⟩ := i0 _ _ _ _ ht ‹noDeclaration f _ = _›
    cases h; exact ⟨h1, h2⟩

end CCVerif.RangeExact
