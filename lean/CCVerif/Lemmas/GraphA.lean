import CCVerif.Lemmas.GraphInv
import CCVerif.Model.GraphSpec
/-!
# C14, part A: the update operations preserve `Inv` and refine the abstract digraph;
counts, simple queries, `expandOutputs` / `expandInputs`, `isReachableFrom`.

Helper definitions and lemmas live in namespace `CCVerif.Graph.GA`; the results meant for use
elsewhere are declared in `CCVerif.Graph` (`inv_step`, `inv_run`, `addItem_spec`, `eraseItem_spec`,
`addConnection_spec`, `setItemInputs_spec`, `liveUids_step`, `edges_step`, `liveUids_nodup`,
`edges_nodup`, `contains_iff`, `connectionExists_iff`, `mem_inputsFor`, `expandOutputs_spec`,
`expandInputs_spec`, `isReachableFrom_iff`, …, and the `…_run` versions over histories).

Method: every operation is described pointwise (`vx g' k` for every slot `k`, plus the length);
`Inv`, `liveUids` and `edges` only depend on that (`mem_liveUids`, `mem_edges`).
-/
namespace CCVerif.Graph.GA

/-! ## basic facts about `vx`, `modifyAt` and the abstraction functions -/

/-- the tombstone returned by `vx` outside the vector -/
def dflt : Vx := { uid := 0, valid := false }

theorem vx_lt {g : G} {i : Nat} (h : i < g.length) : vx g i = g[i] := by
  simp [vx, List.getD_eq_getElem?_getD, h]

theorem vx_ge {g : G} {i : Nat} (h : g.length ≤ i) : vx g i = dflt := by
  simp [vx, List.getD_eq_getElem?_getD, h, dflt]

@[simp] theorem length_modifyAt (g : G) (i : Nat) (f : Vx → Vx) :
    (modifyAt g i f).length = g.length := by simp [modifyAt]

theorem vx_modifyAt (g : G) (i j : Nat) (f : Vx → Vx) :
    vx (modifyAt g i f) j = if i = j ∧ j < g.length then f (vx g j) else vx g j := by
  by_cases hj : j < g.length
  · rw [vx_lt (by simpa using hj), vx_lt hj]
    simp [modifyAt, List.getElem_modify, hj]
  · have hge := Nat.le_of_not_lt hj
    rw [vx_ge (by simpa using hge), vx_ge hge]
    simp [hj]

theorem vx_append_left {g : G} {v : Vx} {i : Nat} (h : i < g.length) :
    vx (g ++ [v]) i = vx g i := by
  rw [vx_lt (by simp; omega), vx_lt h, List.getElem_append_left h]

theorem vx_append_self (g : G) (v : Vx) : vx (g ++ [v]) g.length = v := by
  rw [vx_lt (by simp)]; simp

theorem mem_liveUids {g : G} {u : Nat} :
    u ∈ liveUids g ↔ ∃ i, i < g.length ∧ (vx g i).valid = true ∧ (vx g i).uid = u := by
  simp only [liveUids, List.mem_map, List.mem_filter]
  constructor
  · rintro ⟨v, ⟨hv, hval⟩, rfl⟩
    obtain ⟨i, hi, rfl⟩ := List.getElem_of_mem hv
    exact ⟨i, hi, by rw [vx_lt hi]; exact hval, by rw [vx_lt hi]⟩
  · rintro ⟨i, hi, hv, rfl⟩
    rw [vx_lt hi] at hv ⊢
    exact ⟨g[i], ⟨List.getElem_mem hi, hv⟩, rfl⟩

theorem mem_edges {g : G} {e : Nat × Nat} :
    e ∈ edges g ↔ ∃ i, i < g.length ∧ ∃ o, o ∈ (vx g i).outputs ∧
      e = ((vx g i).uid, (vx g o).uid) := by
  simp only [edges, List.mem_flatMap, List.mem_map]
  constructor
  · rintro ⟨v, hv, o, ho, rfl⟩
    obtain ⟨i, hi, rfl⟩ := List.getElem_of_mem hv
    exact ⟨i, hi, o, by rw [vx_lt hi]; exact ho, by rw [vx_lt hi]⟩
  · rintro ⟨i, hi, o, ho, rfl⟩
    rw [vx_lt hi] at ho ⊢
    exact ⟨g[i], List.getElem_mem hi, o, ho, rfl⟩

/-- a vertex with an outgoing or incoming entry is live -/
theorem valid_of_out {g : G} (h : Inv g) {i o : Nat} (hi : i < g.length)
    (ho : o ∈ (vx g i).outputs) : (vx g i).valid = true := by
  cases hv : (vx g i).valid with
  | true => rfl
  | false => rw [(h.dead i hi hv).2] at ho; cases ho

theorem valid_of_in {g : G} (h : Inv g) {i k : Nat} (hi : i < g.length)
    (hk : k ∈ (vx g i).inputs) : (vx g i).valid = true := by
  cases hv : (vx g i).valid with
  | true => rfl
  | false => rw [(h.dead i hi hv).1] at hk; cases hk

/-- `Inv`, `liveUids` and `edges` depend on the vector only through its length and `vx` -/
theorem ext_vx {g g' : G} (hl : g'.length = g.length) (hv : ∀ k, vx g' k = vx g k) : g' = g := by
  apply List.ext_getElem hl
  intro i h1 h2
  rw [← vx_lt h1, ← vx_lt h2, hv]

/-! ## `indexFor` -/

theorem indexFor_some {g : G} {u i : Nat} (h : indexFor g u = some i) :
    i < g.length ∧ (vx g i).valid = true ∧ (vx g i).uid = u := by
  unfold indexFor at h
  obtain ⟨hi, hp, _⟩ := List.findIdx?_eq_some_iff_getElem.mp h
  rw [vx_lt hi]
  simp only [Bool.and_eq_true, beq_iff_eq] at hp
  exact ⟨hi, hp⟩

theorem indexFor_none {g : G} {u : Nat} : indexFor g u = none ↔ u ∉ liveUids g := by
  unfold indexFor
  rw [List.findIdx?_eq_none_iff]
  simp only [liveUids, List.mem_map, List.mem_filter]
  constructor
  · rintro h ⟨v, ⟨hv, hval⟩, rfl⟩
    have := h v hv
    simp [hval] at this
  · intro h v hv
    cases hval : v.valid with
    | false => simp
    | true =>
      simp only [Bool.true_and, beq_eq_false_iff_ne, ne_eq]
      intro he
      exact h ⟨v, ⟨hv, hval⟩, he⟩

theorem indexFor_eq_some {g : G} (h : Inv g) {u i : Nat} (hi : i < g.length)
    (hv : (vx g i).valid = true) (hu : (vx g i).uid = u) : indexFor g u = some i := by
  cases hx : indexFor g u with
  | none =>
    exact absurd (mem_liveUids.mpr ⟨i, hi, hv, hu⟩) (indexFor_none.mp hx)
  | some j =>
    obtain ⟨hj, hjv, hju⟩ := indexFor_some hx
    rw [h.uidInj j i hj hi hjv hv (by rw [hju, hu])]

theorem indexFor_iff {g : G} (h : Inv g) {u i : Nat} :
    indexFor g u = some i ↔ i < g.length ∧ (vx g i).valid = true ∧ (vx g i).uid = u :=
  ⟨indexFor_some, fun ⟨a, b, c⟩ => indexFor_eq_some h a b c⟩

theorem vx_out_lt {g : G} {i o : Nat} (ho : o ∈ (vx g i).outputs) : i < g.length := by
  apply Nat.lt_of_not_le
  intro hge
  rw [vx_ge hge] at ho
  cases ho

theorem vx_in_lt {g : G} {i k : Nat} (hk : k ∈ (vx g i).inputs) : i < g.length := by
  apply Nat.lt_of_not_le
  intro hge
  rw [vx_ge hge] at hk
  cases hk

theorem vx_valid_lt {g : G} {i : Nat} (hv : (vx g i).valid = true) : i < g.length := by
  apply Nat.lt_of_not_le
  intro hge
  rw [vx_ge hge] at hv
  cases hv

/-- unconditional form of `Inv.sym` -/
theorem sym' {g : G} (h : Inv g) (i j : Nat) :
    j ∈ (vx g i).outputs ↔ i ∈ (vx g j).inputs := by
  constructor
  · intro ho
    have hi := vx_out_lt ho
    exact (h.sym i j hi (h.outRange i hi j ho).1).mp ho
  · intro hk
    have hj := vx_in_lt hk
    exact (h.sym i j (h.inRange j hj i hk).1 hj).mpr hk

/-! ## linking two live vertices -/

structure LinkDesc (g g' : G) (i j : Nat) : Prop where
  len : g'.length = g.length
  valid : ∀ k, (vx g' k).valid = (vx g k).valid
  uid : ∀ k, (vx g' k).uid = (vx g k).uid
  outs : ∀ k, (vx g' k).outputs = if k = i then (vx g k).outputs ++ [j] else (vx g k).outputs
  ins : ∀ k, (vx g' k).inputs = if k = j then (vx g k).inputs ++ [i] else (vx g k).inputs

theorem LinkDesc.inv {g g' : G} {i j : Nat} (d : LinkDesc g g' i j) (h : Inv g)
    (hi : i < g.length) (hj : j < g.length) (vi : (vx g i).valid = true)
    (vj : (vx g j).valid = true) (hn : j ∉ (vx g i).outputs) : Inv g' := by
  have hn' : i ∉ (vx g j).inputs := fun hc => hn ((sym' h i j).mpr hc)
  constructor
  · intro a b ha hb
    rw [d.valid, d.valid, d.uid, d.uid]
    rw [d.len] at ha hb
    exact h.uidInj a b ha hb
  · intro a ha o
    rw [d.len] at *
    rw [d.outs, d.valid]
    have := h.outRange a ha o
    grind
  · intro a ha o
    rw [d.len] at *
    rw [d.ins, d.valid]
    have := h.inRange a ha o
    grind
  · intro a b ha hb
    rw [d.len] at *
    rw [d.outs, d.ins]
    have := h.sym a b ha hb
    grind
  · intro a ha
    rw [d.len] at ha
    rw [d.outs]
    have := h.outNodup a ha
    split
    · subst a
      rw [List.nodup_append]
      refine ⟨this, by simp, ?_⟩
      intro x hx y hy
      simp at hy
      subst hy
      intro hxy
      exact hn (hxy ▸ hx)
    · exact this
  · intro a ha
    rw [d.len] at ha
    rw [d.ins]
    have := h.inNodup a ha
    split
    · subst a
      rw [List.nodup_append]
      refine ⟨this, by simp, ?_⟩
      intro x hx y hy
      simp at hy
      subst hy
      intro hxy
      exact hn' (hxy ▸ hx)
    · exact this
  · intro a ha
    rw [d.len] at ha
    rw [d.valid, d.outs, d.ins]
    intro hv
    have := h.dead a ha hv
    have h1 : a ≠ i := by rintro rfl; rw [vi] at hv; cases hv
    have h2 : a ≠ j := by rintro rfl; rw [vj] at hv; cases hv
    simp [h1, h2, this]

theorem LinkDesc.live {g g' : G} {i j : Nat} (d : LinkDesc g g' i j) (u : Nat) :
    u ∈ liveUids g' ↔ u ∈ liveUids g := by
  simp only [mem_liveUids, d.len, d.valid, d.uid]

theorem LinkDesc.edges {g g' : G} {i j : Nat} (d : LinkDesc g g' i j) (hi : i < g.length)
    (e : Nat × Nat) :
    e ∈ edges g' ↔ e = ((vx g i).uid, (vx g j).uid) ∨ e ∈ edges g := by
  simp only [mem_edges, d.len, d.uid, d.outs]
  constructor
  · rintro ⟨a, ha, o, ho, rfl⟩
    split at ho
    · subst a
      rw [List.mem_append] at ho
      rcases ho with ho | ho
      · right; exact ⟨i, ha, o, ho, rfl⟩
      · simp at ho; subst ho; left; rfl
    · right; exact ⟨a, ha, o, ho, rfl⟩
  · rintro (rfl | ⟨a, ha, o, ho, rfl⟩)
    · exact ⟨i, hi, j, by simp, rfl⟩
    · refine ⟨a, ha, o, ?_, rfl⟩
      split
      · exact List.mem_append_left _ ho
      · exact ho

/-! ## appending a fresh vertex / `addInternal` -/

theorem vx_append (g : G) (v : Vx) (k : Nat) :
    vx (g ++ [v]) k = if k < g.length then vx g k else if k = g.length then v else dflt := by
  split
  · next h => exact vx_append_left h
  · split
    · next h => subst h; exact vx_append_self g v
    · exact vx_ge (by simp; omega)

theorem edge_live {g : G} (h : Inv g) {a b : Nat} (he : (a, b) ∈ edges g) :
    a ∈ liveUids g ∧ b ∈ liveUids g := by
  obtain ⟨i, hi, o, ho, heq⟩ := mem_edges.mp he
  cases heq
  have := h.outRange i hi o ho
  exact ⟨mem_liveUids.mpr ⟨i, hi, valid_of_out h hi ho, rfl⟩,
    mem_liveUids.mpr ⟨o, this.1, this.2, rfl⟩⟩

theorem inv_append {g : G} (h : Inv g) {u : Nat} (hu : u ∉ liveUids g) :
    Inv (g ++ [{ uid := u }]) := by
  have hu' : ∀ k, k < g.length → (vx g k).valid = true → (vx g k).uid ≠ u :=
    fun k hk hv he => hu (mem_liveUids.mpr ⟨k, hk, hv, he⟩)
  have hv := vx_append g { uid := u }
  constructor
  · intro a b ha hb
    simp only [List.length_append, List.length_singleton] at ha hb
    rw [hv a, hv b]
    have := h.uidInj a b
    have := hu' a
    have := hu' b
    grind
  · intro a ha o
    simp only [List.length_append, List.length_singleton] at ha ⊢
    rw [hv a, hv o]
    have := h.outRange a
    grind
  · intro a ha o
    simp only [List.length_append, List.length_singleton] at ha ⊢
    rw [hv a, hv o]
    have := h.inRange a
    grind
  · intro a b ha hb
    simp only [List.length_append, List.length_singleton] at ha hb
    rw [hv a, hv b]
    have := h.sym a b
    have := h.outRange a
    have := h.inRange b
    grind
  · intro a ha
    simp only [List.length_append, List.length_singleton] at ha
    rw [hv a]
    have := h.outNodup a
    grind
  · intro a ha
    simp only [List.length_append, List.length_singleton] at ha
    rw [hv a]
    have := h.inNodup a
    grind
  · intro a ha
    simp only [List.length_append, List.length_singleton] at ha
    rw [hv a]
    have := h.dead a
    grind

theorem live_append {g : G} (u x : Nat) :
    x ∈ liveUids (g ++ [{ uid := u }]) ↔ x = u ∨ x ∈ liveUids g := by
  unfold liveUids
  rw [List.filter_append, List.map_append, List.mem_append]
  have : List.map (·.uid) (List.filter (·.valid) [({ uid := u } : Vx)]) = [u] := rfl
  rw [this, List.mem_singleton]
  exact or_comm

theorem edges_append {g : G} (h : Inv g) (u : Nat) (e : Nat × Nat) :
    e ∈ edges (g ++ [{ uid := u }]) ↔ e ∈ edges g := by
  have hv := vx_append g { uid := u }
  simp only [mem_edges, List.length_append, List.length_singleton]
  constructor
  · rintro ⟨a, ha, o, ho, rfl⟩
    rw [hv a] at ho
    have h1 : a < g.length := by grind
    rw [if_pos h1] at ho
    have h2 := (h.outRange a h1 o ho).1
    exact ⟨a, h1, o, ho, by rw [hv a, hv o, if_pos h1, if_pos h2]⟩
  · rintro ⟨a, ha, o, ho, rfl⟩
    have h2 := (h.outRange a ha o ho).1
    exact ⟨a, by omega, o, by rw [hv a, if_pos ha]; exact ho,
      by rw [hv a, hv o, if_pos ha, if_pos h2]⟩

/-- what `addInternal g u = (g', i)` guarantees -/
structure AddSpec (g : G) (u : Nat) (g' : G) (i : Nat) : Prop where
  inv : Inv g'
  lt : i < g'.length
  valid : (vx g' i).valid = true
  uid : (vx g' i).uid = u
  len : g.length ≤ g'.length
  old : ∀ k, k < g.length → vx g' k = vx g k
  live : ∀ x, x ∈ liveUids g' ↔ x = u ∨ x ∈ liveUids g
  edges : ∀ e, e ∈ edges g' ↔ e ∈ edges g

theorem addInternal_spec {g : G} (h : Inv g) (u : Nat) :
    AddSpec g u (addInternal g u).1 (addInternal g u).2 := by
  unfold addInternal
  cases hx : indexFor g u with
  | some i =>
    obtain ⟨hi, hv, hu⟩ := indexFor_some hx
    exact ⟨h, hi, hv, hu, Nat.le_refl _, fun _ _ => rfl,
      fun x => ⟨Or.inr, fun hh => by
        rcases hh with rfl | hh
        · exact mem_liveUids.mpr ⟨i, hi, hv, hu⟩
        · exact hh⟩,
      fun _ => Iff.rfl⟩
  | none =>
    have hu := indexFor_none.mp hx
    refine ⟨inv_append h hu, by simp, ?_, ?_, by simp, fun k hk => vx_append_left hk,
      live_append u, edges_append h u⟩
    · show (vx (g ++ [{ uid := u }]) g.length).valid = true
      rw [vx_append_self]
    · show (vx (g ++ [{ uid := u }]) g.length).uid = u
      rw [vx_append_self]

/-! ## the two `modifyAt` calls that insert an edge -/

theorem linkDesc_out_in {g : G} {i j : Nat} (hi : i < g.length) (hj : j < g.length) :
    LinkDesc g (modifyAt (modifyAt g i (fun v => { v with outputs := v.outputs ++ [j] })) j
      (fun v => { v with inputs := v.inputs ++ [i] })) i j := by
  constructor
  · simp
  all_goals
    intro k
    simp only [vx_modifyAt, length_modifyAt]
    by_cases h1 : j = k <;> by_cases h2 : i = k <;> simp [h1, h2] <;> grind

theorem linkDesc_in_out {g : G} {i j : Nat} (hi : i < g.length) (hj : j < g.length) :
    LinkDesc g (modifyAt (modifyAt g j (fun v => { v with inputs := v.inputs ++ [i] })) i
      (fun v => { v with outputs := v.outputs ++ [j] })) i j := by
  constructor
  · simp
  all_goals
    intro k
    simp only [vx_modifyAt, length_modifyAt]
    by_cases h1 : j = k <;> by_cases h2 : i = k <;> simp [h1, h2] <;> grind

/-! ## queries `contains`, `connectionExists`, `inputsFor` -/

theorem _root_.CCVerif.Graph.contains_iff {g : G} {a : Nat} : contains g a = true ↔ a ∈ liveUids g := by
  unfold contains
  cases hx : indexFor g a with
  | none => simpa using indexFor_none.mp hx
  | some i =>
    obtain ⟨hi, hv, hu⟩ := indexFor_some hx
    simpa using mem_liveUids.mpr ⟨i, hi, hv, hu⟩

theorem _root_.CCVerif.Graph.connectionExists_iff {g : G} (h : Inv g) {a b : Nat} :
    connectionExists g a b = true ↔ (a, b) ∈ edges g := by
  unfold connectionExists hasEdge
  constructor
  · intro hc
    split at hc
    · next i j hi hj =>
      obtain ⟨h1, _, h3⟩ := indexFor_some hi
      obtain ⟨_, _, h6⟩ := indexFor_some hj
      have : j ∈ (vx g i).outputs := by simpa using hc
      exact mem_edges.mpr ⟨i, h1, j, this, by rw [h3, h6]⟩
    · cases hc
  · intro he
    obtain ⟨i, hi, o, ho, heq⟩ := mem_edges.mp he
    cases heq
    have hr := h.outRange i hi o ho
    rw [indexFor_eq_some h hi (valid_of_out h hi ho) rfl, indexFor_eq_some h hr.1 hr.2 rfl]
    simpa using ho

theorem _root_.CCVerif.Graph.mem_inputsFor {g : G} (h : Inv g) {a s : Nat} :
    s ∈ inputsFor g a ↔ (s, a) ∈ edges g := by
  unfold inputsFor
  constructor
  · intro hs
    split at hs
    · cases hs
    · next i hi =>
      obtain ⟨h1, _, h3⟩ := indexFor_some hi
      obtain ⟨k, hk, rfl⟩ := List.mem_map.mp hs
      have hr := h.inRange i h1 k hk
      exact mem_edges.mpr ⟨k, hr.1, i, (sym' h k i).mpr hk, by rw [h3]⟩
  · intro he
    obtain ⟨i, hi, o, ho, heq⟩ := mem_edges.mp he
    cases heq
    have hr := h.outRange i hi o ho
    rw [indexFor_eq_some h hr.1 hr.2 rfl]
    exact List.mem_map.mpr ⟨i, (sym' h i o).mp ho, rfl⟩

/-! ## `addItem`, `addConnection` -/

theorem addConnection_eq (g : G) (s d : Nat) :
    addConnection g s d =
      if connectionExists g s d then g
      else
        modifyAt (modifyAt (addInternal (addInternal g s).1 d).1 (addInternal g s).2
            (fun v => { v with outputs := v.outputs ++ [(addInternal (addInternal g s).1 d).2] }))
          (addInternal (addInternal g s).1 d).2
          (fun v => { v with inputs := v.inputs ++ [(addInternal g s).2] }) := rfl

/-- everything `addConnection` guarantees, in one statement -/
theorem _root_.CCVerif.Graph.addConnection_spec {g : G} (h : Inv g) (s d : Nat) :
    Inv (addConnection g s d) ∧
    (∀ x, x ∈ liveUids (addConnection g s d) ↔ x = s ∨ x = d ∨ x ∈ liveUids g) ∧
    (∀ e, e ∈ edges (addConnection g s d) ↔ e = (s, d) ∨ e ∈ edges g) := by
  rw [addConnection_eq]
  by_cases hc : connectionExists g s d = true
  · rw [if_pos hc]
    have he := (connectionExists_iff h).mp hc
    have hl := edge_live h he
    refine ⟨h, fun x => ⟨fun hx => Or.inr (Or.inr hx), ?_⟩, fun e => ⟨Or.inr, ?_⟩⟩
    · rintro (rfl | rfl | hx)
      · exact hl.1
      · exact hl.2
      · exact hx
    · rintro (rfl | hx)
      · exact he
      · exact hx
  · rw [if_neg hc]
    have a1 := addInternal_spec h s
    have a2 := addInternal_spec a1.inv d
    generalize addInternal g s = r1 at a1 a2 ⊢
    obtain ⟨g1, i⟩ := r1
    generalize addInternal g1 d = r2 at a2 ⊢
    obtain ⟨g2, j⟩ := r2
    simp only at a1 a2 ⊢
    have hi : i < g2.length := Nat.lt_of_lt_of_le a1.lt a2.len
    have hvi : vx g2 i = vx g1 i := a2.old i a1.lt
    have ld := linkDesc_out_in hi a2.lt
    have hne : (s, d) ∉ edges g2 := by
      rw [a2.edges, a1.edges]
      exact fun he => hc ((connectionExists_iff h).mpr he)
    have hn : j ∉ (vx g2 i).outputs := fun hj =>
      hne (mem_edges.mpr ⟨i, hi, j, hj, by rw [hvi, a1.uid, a2.uid]⟩)
    refine ⟨ld.inv a2.inv hi a2.lt (by rw [hvi]; exact a1.valid) a2.valid hn, ?_, ?_⟩
    · intro x
      rw [ld.live, a2.live, a1.live]
      grind
    · intro e
      rw [ld.edges hi, a2.edges, a1.edges, hvi, a1.uid, a2.uid]

theorem _root_.CCVerif.Graph.addItem_spec {g : G} (h : Inv g) (u : Nat) :
    Inv (addItem g u) ∧ (∀ x, x ∈ liveUids (addItem g u) ↔ x = u ∨ x ∈ liveUids g) ∧
    (∀ e, e ∈ edges (addItem g u) ↔ e ∈ edges g) :=
  ⟨(addInternal_spec h u).inv, (addInternal_spec h u).live, (addInternal_spec h u).edges⟩

/-! ## the erase loops -/

/-- `modifyAt` with a function that fixes the tombstone: no range side condition -/
theorem vx_modifyAt' (g : G) (i j : Nat) (f : Vx → Vx) (hf : f dflt = dflt) :
    vx (modifyAt g i f) j = if i = j then f (vx g j) else vx g j := by
  rw [vx_modifyAt]
  by_cases hj : j < g.length
  · simp [hj]
  · rw [vx_ge (Nat.le_of_not_lt hj), hf]
    simp

@[simp] theorem length_eraseFromInputsOf (g : G) (item : Nat) (l : List Nat) :
    (eraseFromInputsOf g item l).length = g.length := by
  unfold eraseFromInputsOf
  induction l generalizing g with
  | nil => rfl
  | cons d l ih => rw [List.foldl_cons, ih]; simp

@[simp] theorem length_eraseFromOutputsOf (g : G) (item : Nat) (l : List Nat) :
    (eraseFromOutputsOf g item l).length = g.length := by
  unfold eraseFromOutputsOf
  induction l generalizing g with
  | nil => rfl
  | cons d l ih => rw [List.foldl_cons, ih]; simp

theorem vx_eraseFromInputsOf (g : G) (item : Nat) (l : List Nat) (hl : l.Nodup) (k : Nat) :
    vx (eraseFromInputsOf g item l) k =
      if k ∈ l then { vx g k with inputs := (vx g k).inputs.erase item } else vx g k := by
  unfold eraseFromInputsOf
  induction l generalizing g with
  | nil => simp
  | cons d l ih =>
    rw [List.foldl_cons, ih _ (List.nodup_cons.mp hl).2, vx_modifyAt' _ _ _ _ rfl]
    have := (List.nodup_cons.mp hl).1
    by_cases h1 : k = d
    · subst h1; simp [this]
    · have h2 : ¬ d = k := fun e => h1 e.symm
      simp [h1, h2]

theorem vx_eraseFromOutputsOf (g : G) (item : Nat) (l : List Nat) (hl : l.Nodup) (k : Nat) :
    vx (eraseFromOutputsOf g item l) k =
      if k ∈ l then { vx g k with outputs := (vx g k).outputs.erase item } else vx g k := by
  unfold eraseFromOutputsOf
  induction l generalizing g with
  | nil => simp
  | cons d l ih =>
    rw [List.foldl_cons, ih _ (List.nodup_cons.mp hl).2, vx_modifyAt' _ _ _ _ rfl]
    have := (List.nodup_cons.mp hl).1
    by_cases h1 : k = d
    · subst h1; simp [this]
    · have h2 : ¬ d = k := fun e => h1 e.symm
      simp [h1, h2]

/-! ## `eraseItem` -/

structure EraseDesc (g g' : G) (i : Nat) : Prop where
  len : g'.length = g.length
  valid : ∀ k, (vx g' k).valid = if k = i then false else (vx g k).valid
  uid : ∀ k, (vx g' k).uid = (vx g k).uid
  outs : ∀ k, (vx g' k).outputs = if k = i then [] else (vx g k).outputs.erase i
  ins : ∀ k, (vx g' k).inputs = if k = i then [] else (vx g k).inputs.erase i

theorem vx_outputs_nodup {g : G} (h : Inv g) (k : Nat) : (vx g k).outputs.Nodup := by
  by_cases hk : k < g.length
  · exact h.outNodup k hk
  · rw [vx_ge (Nat.le_of_not_lt hk)]; exact List.nodup_nil

theorem vx_inputs_nodup {g : G} (h : Inv g) (k : Nat) : (vx g k).inputs.Nodup := by
  by_cases hk : k < g.length
  · exact h.inNodup k hk
  · rw [vx_ge (Nat.le_of_not_lt hk)]; exact List.nodup_nil

theorem EraseDesc.inv {g g' : G} {i : Nat} (d : EraseDesc g g' i) (h : Inv g) : Inv g' := by
  have eo := fun k x => (vx_outputs_nodup h k).mem_erase_iff (a := x) (b := i)
  have ei := fun k x => (vx_inputs_nodup h k).mem_erase_iff (a := x) (b := i)
  constructor
  · intro a b ha hb
    rw [d.valid, d.valid, d.uid, d.uid]
    rw [d.len] at ha hb
    have := h.uidInj a b ha hb
    grind
  · intro a ha o
    rw [d.len] at *
    rw [d.outs, d.valid]
    have := h.outRange a ha o
    have := eo a o
    grind
  · intro a ha o
    rw [d.len] at *
    rw [d.ins, d.valid]
    have := h.inRange a ha o
    have := ei a o
    grind
  · intro a b ha hb
    rw [d.len] at *
    rw [d.outs, d.ins]
    have := h.sym a b ha hb
    have := eo a b
    have := ei b a
    grind
  · intro a ha
    rw [d.outs]
    split
    · exact List.nodup_nil
    · exact (vx_outputs_nodup h a).erase i
  · intro a ha
    rw [d.ins]
    split
    · exact List.nodup_nil
    · exact (vx_inputs_nodup h a).erase i
  · intro a ha
    rw [d.len] at ha
    rw [d.valid, d.outs, d.ins]
    have := h.dead a ha
    grind

theorem EraseDesc.live {g g' : G} {i : Nat} (d : EraseDesc g g' i) (h : Inv g)
    (hi : i < g.length) (hv : (vx g i).valid = true) (x : Nat) :
    x ∈ liveUids g' ↔ x ∈ liveUids g ∧ x ≠ (vx g i).uid := by
  simp only [mem_liveUids, d.len, d.valid, d.uid]
  constructor
  · rintro ⟨a, ha, hva, rfl⟩
    have := h.uidInj a i ha hi
    grind
  · rintro ⟨⟨a, ha, hva, rfl⟩, hne⟩
    exact ⟨a, ha, by grind, rfl⟩

theorem EraseDesc.edges {g g' : G} {i : Nat} (d : EraseDesc g g' i) (h : Inv g)
    (hi : i < g.length) (hv : (vx g i).valid = true) (e : Nat × Nat) :
    e ∈ edges g' ↔ e ∈ edges g ∧ e.1 ≠ (vx g i).uid ∧ e.2 ≠ (vx g i).uid := by
  have eo := fun k x => (vx_outputs_nodup h k).mem_erase_iff (a := x) (b := i)
  simp only [mem_edges, d.len, d.outs, d.uid]
  constructor
  · rintro ⟨a, ha, o, ho, rfl⟩
    have hai : a ≠ i := by grind
    rw [if_neg hai, eo] at ho
    have hr := h.outRange a ha o ho.2
    refine ⟨⟨a, ha, o, ho.2, rfl⟩, ?_, ?_⟩
    · exact fun he => hai (h.uidInj a i ha hi (valid_of_out h ha ho.2) hv he)
    · exact fun he => ho.1 (h.uidInj o i hr.1 hi hr.2 hv he)
  · rintro ⟨⟨a, ha, o, ho, rfl⟩, h1, h2⟩
    have hai : a ≠ i := by rintro rfl; exact h1 rfl
    have hoi : o ≠ i := by rintro rfl; exact h2 rfl
    exact ⟨a, ha, o, by rw [if_neg hai, eo]; exact ⟨hoi, ho⟩, rfl⟩

theorem eraseIn_fields (g : G) (item : Nat) (l : List Nat) (hl : l.Nodup) (k : Nat) :
    (vx (eraseFromInputsOf g item l) k).uid = (vx g k).uid ∧
    (vx (eraseFromInputsOf g item l) k).valid = (vx g k).valid ∧
    (vx (eraseFromInputsOf g item l) k).outputs = (vx g k).outputs ∧
    (vx (eraseFromInputsOf g item l) k).inputs =
      if k ∈ l then (vx g k).inputs.erase item else (vx g k).inputs := by
  rw [vx_eraseFromInputsOf _ _ _ hl]
  split <;> simp

theorem eraseOut_fields (g : G) (item : Nat) (l : List Nat) (hl : l.Nodup) (k : Nat) :
    (vx (eraseFromOutputsOf g item l) k).uid = (vx g k).uid ∧
    (vx (eraseFromOutputsOf g item l) k).valid = (vx g k).valid ∧
    (vx (eraseFromOutputsOf g item l) k).inputs = (vx g k).inputs ∧
    (vx (eraseFromOutputsOf g item l) k).outputs =
      if k ∈ l then (vx g k).outputs.erase item else (vx g k).outputs := by
  rw [vx_eraseFromOutputsOf _ _ _ hl]
  split <;> simp

theorem eraseItem_desc {g : G} (h : Inv g) {u i : Nat} (hx : indexFor g u = some i) :
    EraseDesc g (eraseItem g u) i := by
  obtain ⟨hi, hv, hu⟩ := indexFor_some hx
  unfold eraseItem
  rw [hx]
  simp only
  have f1 := eraseIn_fields g i (vx g i).outputs (vx_outputs_nodup h i)
  have hs := sym' h
  have hin : (vx (eraseFromInputsOf g i (vx g i).outputs) i).inputs = (vx g i).inputs.erase i := by
    rw [(f1 i).2.2.2]
    split
    · rfl
    · next hni =>
      have : i ∉ (vx g i).inputs := fun hc => hni ((hs i i).mpr hc)
      rw [List.erase_of_not_mem this]
  rw [hin]
  have f2 := eraseOut_fields (eraseFromInputsOf g i (vx g i).outputs) i
    ((vx g i).inputs.erase i) ((vx_inputs_nodup h i).erase i)
  have ei := fun x => (vx_inputs_nodup h i).mem_erase_iff (a := x) (b := i)
  have e1 : ∀ k, k ∉ (vx g i).outputs → (vx g k).inputs.erase i = (vx g k).inputs :=
    fun k hk => List.erase_of_not_mem (fun hc => hk ((hs i k).mpr hc))
  have e2 : ∀ k, k ∉ (vx g i).inputs → (vx g k).outputs.erase i = (vx g k).outputs :=
    fun k hk => List.erase_of_not_mem (fun hc => hk ((hs k i).mp hc))
  constructor
  · simp
  all_goals
    intro k
    rw [vx_modifyAt]
    simp only [length_eraseFromOutputsOf, length_eraseFromInputsOf]
    obtain ⟨a1, a2, a3, a4⟩ := f1 k
    obtain ⟨b1, b2, b3, b4⟩ := f2 k
    have := e1 k
    have := e2 k
    have := ei k
    by_cases hk : k = i
    · subst hk
      rw [if_pos ⟨rfl, hi⟩]
      simp [b1, a1]
    · have hk' : ¬ (i = k ∧ k < g.length) := fun e => hk e.1.symm
      rw [if_neg hk']
      grind

theorem _root_.CCVerif.Graph.eraseItem_spec {g : G} (h : Inv g) (u : Nat) :
    Inv (eraseItem g u) ∧ (∀ x, x ∈ liveUids (eraseItem g u) ↔ x ∈ liveUids g ∧ x ≠ u) ∧
    (∀ e, e ∈ edges (eraseItem g u) ↔ e ∈ edges g ∧ e.1 ≠ u ∧ e.2 ≠ u) := by
  cases hx : indexFor g u with
  | none =>
    have hu := indexFor_none.mp hx
    have hg : eraseItem g u = g := by unfold eraseItem; rw [hx]
    rw [hg]
    refine ⟨h, fun x => ⟨fun hxl => ⟨hxl, ?_⟩, And.left⟩, fun e => ⟨fun he => ⟨he, ?_⟩, And.left⟩⟩
    · rintro rfl; exact hu hxl
    · obtain ⟨a, b⟩ := e
      have hl := edge_live h he
      constructor
      · rintro rfl; exact hu hl.1
      · rintro rfl; exact hu hl.2
  | some i =>
    obtain ⟨hi, hv, hu⟩ := indexFor_some hx
    have d := eraseItem_desc h hx
    refine ⟨d.inv h, ?_, ?_⟩
    · intro x; rw [d.live h hi hv, hu]
    · intro e; rw [d.edges h hi hv, hu]

/-! ## `setItemInputs`: first phase (drop all incoming edges of slot `i`) -/

structure ClearInDesc (g g' : G) (i : Nat) : Prop where
  len : g'.length = g.length
  valid : ∀ k, (vx g' k).valid = (vx g k).valid
  uid : ∀ k, (vx g' k).uid = (vx g k).uid
  outs : ∀ k, (vx g' k).outputs = (vx g k).outputs.erase i
  ins : ∀ k, (vx g' k).inputs = if k = i then [] else (vx g k).inputs

theorem ClearInDesc.inv {g g' : G} {i : Nat} (d : ClearInDesc g g' i) (h : Inv g) : Inv g' := by
  have eo := fun k x => (vx_outputs_nodup h k).mem_erase_iff (a := x) (b := i)
  constructor
  · intro a b ha hb
    rw [d.valid, d.valid, d.uid, d.uid]
    rw [d.len] at ha hb
    exact h.uidInj a b ha hb
  · intro a ha o
    rw [d.len] at *
    rw [d.outs, d.valid]
    have := h.outRange a ha o
    have := eo a o
    grind
  · intro a ha o
    rw [d.len] at *
    rw [d.ins, d.valid]
    have := h.inRange a ha o
    grind
  · intro a b ha hb
    rw [d.len] at *
    rw [d.outs, d.ins]
    have := h.sym a b ha hb
    have := eo a b
    grind
  · intro a ha
    rw [d.outs]
    exact (vx_outputs_nodup h a).erase i
  · intro a ha
    rw [d.ins]
    split
    · exact List.nodup_nil
    · exact vx_inputs_nodup h a
  · intro a ha
    rw [d.len] at ha
    rw [d.valid, d.outs, d.ins]
    have := h.dead a ha
    grind

theorem ClearInDesc.live {g g' : G} {i : Nat} (d : ClearInDesc g g' i) (x : Nat) :
    x ∈ liveUids g' ↔ x ∈ liveUids g := by
  simp only [mem_liveUids, d.len, d.valid, d.uid]

theorem ClearInDesc.edges {g g' : G} {i : Nat} (d : ClearInDesc g g' i) (h : Inv g)
    (hi : i < g.length) (hv : (vx g i).valid = true) (e : Nat × Nat) :
    e ∈ edges g' ↔ e ∈ edges g ∧ e.2 ≠ (vx g i).uid := by
  have eo := fun k x => (vx_outputs_nodup h k).mem_erase_iff (a := x) (b := i)
  simp only [mem_edges, d.len, d.outs, d.uid]
  constructor
  · rintro ⟨a, ha, o, ho, rfl⟩
    rw [eo] at ho
    have hr := h.outRange a ha o ho.2
    exact ⟨⟨a, ha, o, ho.2, rfl⟩, fun he => ho.1 (h.uidInj o i hr.1 hi hr.2 hv he)⟩
  · rintro ⟨⟨a, ha, o, ho, rfl⟩, h2⟩
    have hoi : o ≠ i := by rintro rfl; exact h2 rfl
    exact ⟨a, ha, o, by rw [eo]; exact ⟨hoi, ho⟩, rfl⟩

theorem clearIn_desc {g : G} (h : Inv g) {i : Nat} (hi : i < g.length) :
    ClearInDesc g (modifyAt (eraseFromOutputsOf g i (vx g i).inputs) i
      (fun v => { v with inputs := [] })) i := by
  have f2 := eraseOut_fields g i (vx g i).inputs (vx_inputs_nodup h i)
  have hs := sym' h
  have e2 : ∀ k, k ∉ (vx g i).inputs → (vx g k).outputs.erase i = (vx g k).outputs :=
    fun k hk => List.erase_of_not_mem (fun hc => hk ((hs k i).mp hc))
  constructor
  · simp
  all_goals
    intro k
    rw [vx_modifyAt]
    simp only [length_eraseFromOutputsOf]
    obtain ⟨b1, b2, b3, b4⟩ := f2 k
    have := e2 k
    by_cases hk : k = i
    · subst hk
      rw [if_pos ⟨rfl, hi⟩]
      grind
    · have hk' : ¬ (i = k ∧ k < g.length) := fun e => hk e.1.symm
      rw [if_neg hk']
      grind

/-! ## `setItemInputs`: second phase (connect every source) -/

/-- body of the last loop of `SetItemInputs` -/
def sinkStep (i : Nat) (g : G) (s : Nat) : G :=
  modifyAt (modifyAt (addInternal g s).1 i
      (fun v => { v with inputs := v.inputs ++ [(addInternal g s).2] }))
    (addInternal g s).2 (fun v => { v with outputs := v.outputs ++ [i] })

theorem setItemInputs_eq (g : G) (u : Nat) (srcs : List Nat) :
    setItemInputs g u srcs =
      srcs.foldl (sinkStep (addInternal g u).2)
        (modifyAt (eraseFromOutputsOf (addInternal g u).1 (addInternal g u).2
          (vx (addInternal g u).1 (addInternal g u).2).inputs) (addInternal g u).2
          (fun v => { v with inputs := [] })) := rfl

theorem sinkStep_spec {g : G} (h : Inv g) {i u : Nat} (hi : i < g.length)
    (hv : (vx g i).valid = true) (hu : (vx g i).uid = u) (s : Nat) (hn : (s, u) ∉ edges g) :
    Inv (sinkStep i g s) ∧ g.length ≤ (sinkStep i g s).length ∧
    (vx (sinkStep i g s) i).valid = true ∧ (vx (sinkStep i g s) i).uid = u ∧
    (∀ x, x ∈ liveUids (sinkStep i g s) ↔ x = s ∨ x ∈ liveUids g) ∧
    (∀ e, e ∈ edges (sinkStep i g s) ↔ e = (s, u) ∨ e ∈ edges g) := by
  unfold sinkStep
  have a1 := addInternal_spec h s
  generalize addInternal g s = r1 at a1 ⊢
  obtain ⟨g1, j⟩ := r1
  simp only at a1 ⊢
  have hi1 : i < g1.length := Nat.lt_of_lt_of_le hi a1.len
  have hvi : vx g1 i = vx g i := a1.old i hi
  have ld := linkDesc_in_out (g := g1) (i := j) (j := i) a1.lt hi1
  have hne : (s, u) ∉ edges g1 := by rw [a1.edges]; exact hn
  have hni : i ∉ (vx g1 j).outputs := fun hj =>
    hne (mem_edges.mpr ⟨j, a1.lt, i, hj, by rw [hvi, a1.uid, hu]⟩)
  refine ⟨ld.inv a1.inv a1.lt hi1 a1.valid (by rw [hvi]; exact hv) hni, ?_, ?_, ?_, ?_, ?_⟩
  · rw [ld.len]; exact a1.len
  · rw [ld.valid, hvi]; exact hv
  · rw [ld.uid, hvi]; exact hu
  · intro x; rw [ld.live, a1.live]
  · intro e; rw [ld.edges a1.lt, a1.edges, hvi, a1.uid, hu]

theorem sinkFold_spec {i u : Nat} (srcs : List Nat) :
    ∀ {g : G}, Inv g → i < g.length → (vx g i).valid = true → (vx g i).uid = u →
      srcs.Nodup → (∀ s ∈ srcs, (s, u) ∉ edges g) →
      Inv (srcs.foldl (sinkStep i) g) ∧
      (∀ x, x ∈ liveUids (srcs.foldl (sinkStep i) g) ↔ x ∈ srcs ∨ x ∈ liveUids g) ∧
      (∀ e, e ∈ edges (srcs.foldl (sinkStep i) g) ↔ e ∈ srcs.map (·, u) ∨ e ∈ edges g) := by
  induction srcs with
  | nil => intro g h _ _ _ _ _; exact ⟨h, by simp, by simp⟩
  | cons s srcs ih =>
    intro g h hi hv hu hnd hne
    rw [List.foldl_cons]
    obtain ⟨hs, hnd'⟩ := List.nodup_cons.mp hnd
    obtain ⟨s1, s2, s3, s4, s5, s6⟩ := sinkStep_spec h hi hv hu s (hne s (by simp))
    have hne' : ∀ t ∈ srcs, (t, u) ∉ edges (sinkStep i g s) := by
      intro t ht
      rw [s6]
      rintro (he | he)
      · cases he; exact hs ht
      · exact hne t (List.mem_cons_of_mem _ ht) he
    obtain ⟨r1, r2, r3⟩ := ih s1 (Nat.lt_of_lt_of_le hi s2) s3 s4 hnd' hne'
    refine ⟨r1, ?_, ?_⟩
    · intro x; rw [r2, s5, List.mem_cons]; grind
    · intro e; rw [r3, s6, List.map_cons, List.mem_cons]; grind

theorem _root_.CCVerif.Graph.setItemInputs_spec {g : G} (h : Inv g) (u : Nat) {srcs : List Nat} (hnd : srcs.Nodup) :
    Inv (setItemInputs g u srcs) ∧
    (∀ x, x ∈ liveUids (setItemInputs g u srcs) ↔ x = u ∨ x ∈ srcs ∨ x ∈ liveUids g) ∧
    (∀ e, e ∈ edges (setItemInputs g u srcs) ↔
      e ∈ srcs.map (·, u) ∨ (e ∈ edges g ∧ e.2 ≠ u)) := by
  rw [setItemInputs_eq]
  have a1 := addInternal_spec h u
  generalize addInternal g u = r1 at a1 ⊢
  obtain ⟨g1, i⟩ := r1
  simp only at a1 ⊢
  have cd := clearIn_desc a1.inv a1.lt
  have hne : ∀ s ∈ srcs, (s, u) ∉ edges (modifyAt (eraseFromOutputsOf g1 i (vx g1 i).inputs) i
      (fun v => { v with inputs := [] })) := by
    intro s _
    rw [cd.edges a1.inv a1.lt a1.valid, a1.uid]
    exact fun hc => hc.2 rfl
  obtain ⟨r1, r2, r3⟩ := sinkFold_spec (i := i) (u := u) srcs (cd.inv a1.inv)
    (by rw [cd.len]; exact a1.lt) (by rw [cd.valid]; exact a1.valid)
    (by rw [cd.uid]; exact a1.uid) hnd hne
  refine ⟨r1, ?_, ?_⟩
  · intro x; rw [r2, cd.live, a1.live]; grind
  · intro e; rw [r3, cd.edges a1.inv a1.lt a1.valid, a1.uid, a1.edges]

/-! ## one step, whole history -/

theorem inv_clear (g : G) : Inv (clear g) := inv_empty

theorem _root_.CCVerif.Graph.inv_step {g : G} {op : Op} (h : Inv g) (hw : WfOp op) : Inv (applyOp g op) := by
  cases op with
  | addItem u => exact (addItem_spec h u).1
  | eraseItem u => exact (eraseItem_spec h u).1
  | addConnection s d => exact (addConnection_spec h s d).1
  | setItemInputs u srcs => exact (setItemInputs_spec h u hw).1
  | clear => exact inv_clear g

theorem _root_.CCVerif.Graph.inv_foldl {ops : List Op} (hw : WfOps ops) :
    ∀ {g : G}, Inv g → Inv (ops.foldl applyOp g) := by
  induction ops with
  | nil => intro g h; exact h
  | cons op ops ih =>
    intro g h
    rw [List.foldl_cons]
    exact ih (fun o ho => hw o (List.mem_cons_of_mem _ ho)) (inv_step h (hw op (by simp)))

theorem _root_.CCVerif.Graph.run_append (ops : List Op) (op : Op) : run (ops ++ [op]) = applyOp (run ops) op := by
  simp [run, List.foldl_append]

theorem _root_.CCVerif.Graph.inv_run {ops : List Op} (hw : WfOps ops) : Inv (run ops) := inv_foldl hw inv_empty

/-! ## abstraction lemmas -/

theorem _root_.CCVerif.Graph.liveUids_step {g : G} {op : Op} (h : Inv g) (hw : WfOp op) (u : Nat) :
    u ∈ liveUids (applyOp g op) ↔ u ∈ specV (liveUids g) op := by
  cases op with
  | addItem a => simp [applyOp, specV, (addItem_spec h a).2.1]
  | eraseItem a => simp [applyOp, specV, (eraseItem_spec h a).2.1]
  | addConnection s d => simp [applyOp, specV, (addConnection_spec h s d).2.1]
  | setItemInputs a srcs => simp [applyOp, specV, (setItemInputs_spec h a hw).2.1]
  | clear => simp [applyOp, specV, clear, liveUids]

theorem _root_.CCVerif.Graph.edges_step {g : G} {op : Op} (h : Inv g) (hw : WfOp op) (e : Nat × Nat) :
    e ∈ edges (applyOp g op) ↔ e ∈ specE (edges g) op := by
  cases op with
  | addItem a => simp [applyOp, specE, (addItem_spec h a).2.2]
  | eraseItem a => simp [applyOp, specE, (eraseItem_spec h a).2.2]
  | addConnection s d => simp [applyOp, specE, (addConnection_spec h s d).2.2]
  | setItemInputs a srcs =>
    simp only [applyOp, specE, (setItemInputs_spec h a hw).2.2, List.mem_append, List.mem_filter]
    simp
  | clear => simp [applyOp, specE, clear, edges]

/-! ## counts -/

theorem _root_.CCVerif.Graph.liveUids_nodup {g : G} (h : Inv g) : (liveUids g).Nodup := by
  unfold liveUids List.Nodup
  rw [List.pairwise_map, List.pairwise_filter, List.pairwise_iff_getElem]
  intro a b ha hb hab va vb he
  have := h.uidInj a b ha hb (by rw [vx_lt ha]; exact va) (by rw [vx_lt hb]; exact vb)
    (by rw [vx_lt ha, vx_lt hb]; exact he)
  omega

theorem _root_.CCVerif.Graph.edges_nodup {g : G} (h : Inv g) : (edges g).Nodup := by
  unfold edges List.Nodup
  rw [List.pairwise_flatMap]
  constructor
  · intro v hv
    obtain ⟨a, ha, rfl⟩ := List.getElem_of_mem hv
    rw [List.pairwise_map]
    have hnd := h.outNodup a ha
    rw [vx_lt ha] at hnd
    refine List.Pairwise.imp_of_mem ?_ hnd
    intro o1 o2 h1 h2 hne he
    rw [← vx_lt ha] at h1 h2
    have r1 := h.outRange a ha o1 h1
    have r2 := h.outRange a ha o2 h2
    exact hne (h.uidInj o1 o2 r1.1 r2.1 r1.2 r2.2 (by simpa using he))
  · rw [List.pairwise_iff_getElem]
    intro a b ha hb hab x hx y hy hxy
    obtain ⟨o1, h1, rfl⟩ := List.mem_map.mp hx
    obtain ⟨o2, h2, e2⟩ := List.mem_map.mp hy
    rw [← vx_lt ha] at h1
    rw [← vx_lt hb] at h2
    subst hxy
    have he : g[b].uid = g[a].uid := by simpa using (congrArg Prod.fst e2)
    have := h.uidInj a b ha hb (valid_of_out h ha h1) (valid_of_out h hb h2)
      (by rw [vx_lt ha, vx_lt hb]; exact he.symm)
    omega

theorem _root_.CCVerif.Graph.itemsCount_eq (g : G) : itemsCount g = (liveUids g).length := by
  simp [itemsCount, liveUids]

theorem _root_.CCVerif.Graph.connectionsCount_eq (g : G) : connectionsCount g = (edges g).length := by
  simp [connectionsCount, edges, List.length_flatMap]

/-! ## reflexive-transitive closure on slots -/

inductive RT (R : Nat → Nat → Prop) : Nat → Nat → Prop
  | refl (a : Nat) : RT R a a
  | head {a b c : Nat} : R a b → RT R b c → RT R a c

theorem RT.tail {R : Nat → Nat → Prop} {a b c : Nat} (h : RT R a b) (hr : R b c) : RT R a c := by
  induction h with
  | refl a => exact .head hr (.refl _)
  | head h1 _ ih => exact .head h1 (ih hr)

theorem RT.flip {R : Nat → Nat → Prop} {a b : Nat} (h : RT R a b) : RT (fun x y => R y x) b a := by
  induction h with
  | refl a => exact .refl _
  | head h1 _ ih => exact ih.tail h1

theorem RT.mono {R S : Nat → Nat → Prop} (hrs : ∀ a b, R a b → S a b) {a b : Nat}
    (h : RT R a b) : RT S a b := by
  induction h with
  | refl a => exact .refl _
  | head h1 _ ih => exact .head (hrs _ _ h1) ih

/-! ## the marking vector -/

/-- slot `k` is marked -/
def Mk (m : List Bool) (k : Nat) : Prop := m.getD k false = true

theorem Mk_lt {m : List Bool} {k : Nat} (h : Mk m k) : k < m.length := by
  unfold Mk at h; grind

theorem Mk_setAt (m : List Bool) (i k : Nat) :
    Mk (setAt m i) k ↔ (k = i ∧ i < m.length) ∨ Mk m k := by
  unfold Mk setAt; grind

@[simp] theorem length_setAt (m : List Bool) (i : Nat) : (setAt m i).length = m.length := by
  simp [setAt]

theorem not_Mk_replicate (n k : Nat) : ¬ Mk (List.replicate n false) k := by
  unfold Mk; grind

/-! ## pushing the children of one vertex -/

def pushStep (sm : List Nat × List Bool) (child : Nat) : List Nat × List Bool :=
  if sm.2.getD child false then sm else (child :: sm.1, setAt sm.2 child)

theorem pushFold_spec (cs : List Nat) :
    ∀ (st : List Nat) (m : List Bool), st.Nodup → (∀ k ∈ st, Mk m k) → (∀ c ∈ cs, c < m.length) →
      (cs.foldl pushStep (st, m)).2.length = m.length ∧
      (cs.foldl pushStep (st, m)).1.Nodup ∧
      (∀ k, Mk (cs.foldl pushStep (st, m)).2 k ↔ Mk m k ∨ k ∈ cs) ∧
      (∀ k, k ∈ (cs.foldl pushStep (st, m)).1 ↔ k ∈ st ∨ (k ∈ cs ∧ ¬ Mk m k)) := by
  induction cs with
  | nil => intro st m h1 _ _; simp [h1]
  | cons c cs ih =>
    intro st m h1 h2 h3
    rw [List.foldl_cons]
    have hc : c < m.length := h3 c (by simp)
    have h3' : ∀ x ∈ cs, x < m.length := fun x hx => h3 x (List.mem_cons_of_mem _ hx)
    by_cases hm : m.getD c false = true
    · have : pushStep (st, m) c = (st, m) := by
        show (if m.getD c false = true then (st, m) else (c :: st, setAt m c)) = (st, m)
        rw [if_pos hm]
      rw [this]
      obtain ⟨i1, i2, i3, i4⟩ := ih st m h1 h2 h3'
      have hm' : Mk m c := hm
      refine ⟨i1, i2, ?_, ?_⟩
      · intro k; rw [i3, List.mem_cons]; grind
      · intro k; rw [i4, List.mem_cons]; grind
    · have : pushStep (st, m) c = (c :: st, setAt m c) := by
        show (if m.getD c false = true then (st, m) else (c :: st, setAt m c)) = _
        rw [if_neg hm]
      rw [this]
      have hm' : ¬ Mk m c := hm
      have hcst : c ∉ st := fun hx => hm' (h2 c hx)
      have ms := Mk_setAt m c
      obtain ⟨i1, i2, i3, i4⟩ := ih (c :: st) (setAt m c) (List.nodup_cons.mpr ⟨hcst, h1⟩)
        (by intro k hk; rw [ms]; rw [List.mem_cons] at hk; grind)
        (by simpa using h3')
      refine ⟨by simpa using i1, i2, ?_, ?_⟩
      · intro k; rw [i3, ms, List.mem_cons]; grind
      · intro k; rw [i4, ms, List.mem_cons, List.mem_cons]; grind

theorem expandLoop_succ_cons (g : G) (next : Vx → List Nat) (fuel item : Nat) (rest : List Nat)
    (marked : List Bool) (acc : List Nat) :
    expandLoop g next (fuel + 1) (item :: rest) marked acc =
      expandLoop g next fuel ((next (vx g item)).foldl pushStep (rest, marked)).1
        ((next (vx g item)).foldl pushStep (rest, marked)).2 (item :: acc) := rfl

/-! ## the worklist invariant -/

structure LoopInv (n : Nat) (R : Nat → Nat → Prop) (init stack : List Nat) (marked : List Bool)
    (acc : List Nat) : Prop where
  len : marked.length = n
  mkd : ∀ k, Mk marked k ↔ k ∈ stack ∨ k ∈ acc
  nodup : (stack ++ acc).Nodup
  closed : ∀ a ∈ acc, ∀ b, R a b → Mk marked b
  sound : ∀ k, Mk marked k → ∃ s ∈ init, RT R s k
  complete : ∀ s ∈ init, Mk marked s

theorem nodup_lt_length {l : List Nat} {n : Nat} (hl : l.Nodup) (hn : ∀ k ∈ l, k < n) :
    l.length ≤ n := by
  have := hl.length_le_of_subset (l₂ := List.range n) (fun k hk => List.mem_range.mpr (hn k hk))
  simpa using this

theorem expandLoop_spec (g : G) (next : Vx → List Nat) (init : List Nat)
    (hr : ∀ a, a < g.length → ∀ b ∈ next (vx g a), b < g.length) :
    ∀ (fuel : Nat) (stack : List Nat) (marked : List Bool) (acc : List Nat),
      LoopInv g.length (fun a b => b ∈ next (vx g a)) init stack marked acc →
      g.length < fuel + acc.length →
      ∀ k, k ∈ expandLoop g next fuel stack marked acc ↔
        ∃ s ∈ init, RT (fun a b => b ∈ next (vx g a)) s k := by
  intro fuel
  induction fuel with
  | zero =>
    intro stack marked acc I hf
    exfalso
    have h1 : acc.Nodup := (List.nodup_append.mp I.nodup).2.1
    have h2 : ∀ k ∈ acc, k < g.length := fun k hk => by
      have := Mk_lt ((I.mkd k).mpr (Or.inr hk)); rw [I.len] at this; exact this
    have := nodup_lt_length h1 h2
    omega
  | succ fuel ih =>
    intro stack marked acc I hf k
    cases stack with
    | nil =>
      have : expandLoop g next (fuel + 1) [] marked acc = acc.reverse := by
        unfold expandLoop; rfl
      rw [this, List.mem_reverse]
      constructor
      · intro hk
        exact I.sound k ((I.mkd k).mpr (Or.inr hk))
      · rintro ⟨s, hs, hrt⟩
        have hs' : s ∈ acc := by
          have := (I.mkd s).mp (I.complete s hs)
          simpa using this
        clear hs
        induction hrt with
        | refl a => exact hs'
        | head h1 _ ih2 =>
          apply ih2
          have := (I.mkd _).mp (I.closed _ hs' _ h1)
          simpa using this
    | cons item rest =>
      rw [expandLoop_succ_cons]
      have hnd := List.nodup_append.mp I.nodup
      have hitem : item < g.length := by
        have := Mk_lt ((I.mkd item).mpr (Or.inl (by simp))); rw [I.len] at this; exact this
      have hrest : ∀ x ∈ rest, Mk marked x := fun x hx =>
        (I.mkd x).mpr (Or.inl (List.mem_cons_of_mem _ hx))
      obtain ⟨p1, p2, p3, p4⟩ := pushFold_spec (next (vx g item)) rest marked
        (List.nodup_cons.mp hnd.1).2 hrest (by rw [I.len]; exact hr item hitem)
      apply ih
      · have mk := I.mkd
        have hitem_rest : item ∉ rest := (List.nodup_cons.mp hnd.1).1
        have hitem_acc : item ∉ acc := fun hx => hnd.2.2 item (by simp) item hx rfl
        have hdisj : ∀ x ∈ rest, x ∉ acc := fun x hx hx' =>
          hnd.2.2 x (List.mem_cons_of_mem _ hx) x hx' rfl
        constructor
        · rw [p1]; exact I.len
        · intro x
          rw [p3, p4, mk, List.mem_cons, List.mem_cons]
          have := mk x
          rw [List.mem_cons] at this
          clear ih hr p1 p2 p3 p4 hrest hnd hf mk hdisj hitem_acc hitem_rest hitem I
          grind
        · rw [List.nodup_append]
          refine ⟨p2, List.nodup_cons.mpr ⟨hitem_acc, hnd.2.1⟩, ?_⟩
          intro x hx y hy hxy
          subst hxy
          rw [p4] at hx
          rw [List.mem_cons] at hy
          have := mk x
          rw [List.mem_cons] at this
          have := hdisj x
          clear ih hr p1 p2 p3 p4 hrest hnd hf mk hdisj hitem I
          grind
        · intro a ha b hab
          rw [p3]
          rw [List.mem_cons] at ha
          rcases ha with rfl | ha
          · exact Or.inr hab
          · exact Or.inl (I.closed a ha b hab)
        · intro x hx
          rw [p3] at hx
          rcases hx with hx | hx
          · exact I.sound x hx
          · obtain ⟨s, hs, hrt⟩ := I.sound item ((mk item).mpr (Or.inl (by simp)))
            exact ⟨s, hs, hrt.tail hx⟩
        · intro s hs
          rw [p3]
          exact Or.inl (I.complete s hs)
      · simp only [List.length_cons]; omega

/-! ## `expandInit` -/

def initStep (g : G) (sm : List Nat × List Bool) (u : Nat) : List Nat × List Bool :=
  match indexFor g u with
  | some i => (i :: sm.1, setAt sm.2 i)
  | none => sm

theorem expandInit_eq (g : G) (input : List Nat) :
    expandInit g input = input.foldl (initStep g) ([], List.replicate g.length false) := rfl

theorem initFold_spec (g : G) (input : List Nat) :
    ∀ (st : List Nat) (m : List Bool), m.length = g.length → st.Nodup → (∀ k, Mk m k ↔ k ∈ st) →
      input.Nodup → (∀ k ∈ st, (vx g k).uid ∉ input) →
      (input.foldl (initStep g) (st, m)).2.length = g.length ∧
      (input.foldl (initStep g) (st, m)).1.Nodup ∧
      (∀ k, Mk (input.foldl (initStep g) (st, m)).2 k ↔ k ∈ (input.foldl (initStep g) (st, m)).1) ∧
      (∀ k, k ∈ (input.foldl (initStep g) (st, m)).1 ↔
        k ∈ st ∨ ∃ u ∈ input, indexFor g u = some k) := by
  induction input with
  | nil => intro st m h1 h2 h3 _ _; simp [h1, h2, h3]
  | cons u us ih =>
    intro st m h1 h2 h3 h4 h5
    rw [List.foldl_cons]
    obtain ⟨hu, h4'⟩ := List.nodup_cons.mp h4
    cases hx : indexFor g u with
    | none =>
      have : initStep g (st, m) u = (st, m) := by simp [initStep, hx]
      rw [this]
      obtain ⟨i1, i2, i3, i4⟩ := ih st m h1 h2 h3 h4'
        (fun k hk hc => h5 k hk (List.mem_cons_of_mem _ hc))
      refine ⟨i1, i2, i3, ?_⟩
      intro k
      rw [i4]
      constructor
      · rintro (hk | ⟨w, hw, hwk⟩)
        · exact Or.inl hk
        · exact Or.inr ⟨w, List.mem_cons_of_mem _ hw, hwk⟩
      · rintro (hk | ⟨w, hw, hwk⟩)
        · exact Or.inl hk
        · rw [List.mem_cons] at hw
          rcases hw with rfl | hw
          · rw [hx] at hwk; cases hwk
          · exact Or.inr ⟨w, hw, hwk⟩
    | some i =>
      have : initStep g (st, m) u = (i :: st, setAt m i) := by simp [initStep, hx]
      rw [this]
      obtain ⟨hi, hv, hiu⟩ := indexFor_some hx
      have hist : i ∉ st := fun hc => h5 i hc (by rw [hiu]; simp)
      have ms := Mk_setAt m i
      obtain ⟨i1, i2, i3, i4⟩ := ih (i :: st) (setAt m i) (by simpa using h1)
        (List.nodup_cons.mpr ⟨hist, h2⟩)
        (by
          intro k
          rw [ms, h3, List.mem_cons, h1]
          exact ⟨fun hh => hh.elim (fun hh => Or.inl hh.1) Or.inr,
            fun hh => hh.elim (fun hh => Or.inl ⟨hh, hi⟩) Or.inr⟩)
        h4'
        (by
          intro k hk hc
          rw [List.mem_cons] at hk
          rcases hk with rfl | hk
          · rw [hiu] at hc; exact hu hc
          · exact h5 k hk (List.mem_cons_of_mem _ hc))
      refine ⟨i1, i2, i3, ?_⟩
      intro k
      rw [i4, List.mem_cons]
      constructor
      · rintro ((rfl | hk) | ⟨w, hw, hwk⟩)
        · exact Or.inr ⟨u, by simp, hx⟩
        · exact Or.inl hk
        · exact Or.inr ⟨w, List.mem_cons_of_mem _ hw, hwk⟩
      · rintro (hk | ⟨w, hw, hwk⟩)
        · exact Or.inl (Or.inr hk)
        · rw [List.mem_cons] at hw
          rcases hw with rfl | hw
          · rw [hx] at hwk; cases hwk; exact Or.inl (Or.inl rfl)
          · exact Or.inr ⟨w, hw, hwk⟩

/-- slot-level specification of `expandGen` -/
theorem mem_expandGen (g : G) (next : Vx → List Nat)
    (hr : ∀ a, a < g.length → ∀ b ∈ next (vx g a), b < g.length)
    {input : List Nat} (hnd : input.Nodup) (u : Nat) :
    u ∈ expandGen g next input ↔
      ∃ s ∈ input, ∃ i, indexFor g s = some i ∧
        ∃ k, RT (fun a b => b ∈ next (vx g a)) i k ∧ (vx g k).uid = u := by
  unfold expandGen
  rw [expandInit_eq]
  obtain ⟨i1, i2, i3, i4⟩ := initFold_spec g input [] (List.replicate g.length false)
    (by simp) List.nodup_nil (by intro k; simp [not_Mk_replicate]) hnd (by simp)
  generalize input.foldl (initStep g) ([], List.replicate g.length false) = r at i1 i2 i3 i4 ⊢
  obtain ⟨stack, marked⟩ := r
  simp only at i1 i2 i3 i4 ⊢
  have I : LoopInv g.length (fun a b => b ∈ next (vx g a)) stack stack marked [] := by
    refine ⟨i1, by simpa using i3, by simpa using i2, by simp, ?_, ?_⟩
    · intro k hk; exact ⟨k, (i3 k).mp hk, .refl _⟩
    · intro s hs; exact (i3 s).mpr hs
  have key := expandLoop_spec g next stack hr (g.length + 1) stack marked [] I (by simp)
  rw [List.mem_map]
  constructor
  · rintro ⟨k, hk, rfl⟩
    obtain ⟨i, hi, hrt⟩ := (key k).mp hk
    have := (i4 i).mp hi
    simp only [List.not_mem_nil, false_or] at this
    obtain ⟨s, hs, hsi⟩ := this
    exact ⟨s, hs, i, hsi, k, hrt, rfl⟩
  · rintro ⟨s, hs, i, hsi, k, hrt, rfl⟩
    exact ⟨k, (key k).mpr ⟨i, (i4 i).mpr (Or.inr ⟨s, hs, hsi⟩), hrt⟩, rfl⟩

/-! ## slot-level paths vs. `Reach` over `edges g` -/

/-- the successor relation on slots read off `outputs` -/
def ROut (g : G) (a b : Nat) : Prop := b ∈ (vx g a).outputs

theorem rt_to_reach {g : G} {i k : Nat} (h : RT (ROut g) i k) :
    Reach (edges g) (vx g i).uid (vx g k).uid := by
  induction h with
  | refl a => exact .refl _
  | head h1 _ ih => exact .step (mem_edges.mpr ⟨_, vx_out_lt h1, _, h1, rfl⟩) ih

theorem rt_live {g : G} (h : Inv g) {i k : Nat} (hrt : RT (ROut g) i k)
    (hi : i < g.length ∧ (vx g i).valid = true) : k < g.length ∧ (vx g k).valid = true := by
  induction hrt with
  | refl a => exact hi
  | head h1 _ ih => exact ih (h.outRange _ hi.1 _ h1)

/-- a path in `edges g` that starts at the uid of live slot `i` is a slot path from `i` -/
theorem reach_to_rt_fwd {g : G} (h : Inv g) {a c : Nat} (hr : Reach (edges g) a c) :
    ∀ i, i < g.length → (vx g i).valid = true → (vx g i).uid = a →
      ∃ k, k < g.length ∧ (vx g k).valid = true ∧ (vx g k).uid = c ∧ RT (ROut g) i k := by
  induction hr with
  | refl a => intro i hi hv hu; exact ⟨i, hi, hv, hu, .refl _⟩
  | step he _ ih =>
    intro i hi hv hu
    obtain ⟨i', hi', o, ho, heq⟩ := mem_edges.mp he
    cases heq
    have : i' = i := h.uidInj i' i hi' hi (valid_of_out h hi' ho) hv hu.symm
    subst this
    have hro := h.outRange i' hi' o ho
    obtain ⟨k, hk, hkv, hku, hrt⟩ := ih o hro.1 hro.2 rfl
    exact ⟨k, hk, hkv, hku, .head ho hrt⟩

/-- a path in `edges g` that ends at the uid of live slot `k` is a slot path to `k` -/
theorem reach_to_rt_bwd {g : G} (h : Inv g) {a c : Nat} (hr : Reach (edges g) a c) :
    ∀ k, k < g.length → (vx g k).valid = true → (vx g k).uid = c →
      ∃ i, i < g.length ∧ (vx g i).valid = true ∧ (vx g i).uid = a ∧ RT (ROut g) i k := by
  induction hr with
  | refl a => intro k hk hv hu; exact ⟨k, hk, hv, hu, .refl _⟩
  | step he _ ih =>
    intro k hk hv hu
    obtain ⟨j, hj, hjv, hju, hrt⟩ := ih k hk hv hu
    obtain ⟨i', hi', o, ho, heq⟩ := mem_edges.mp he
    cases heq
    have hro := h.outRange i' hi' o ho
    have : o = j := h.uidInj o j hro.1 hj hro.2 hjv hju.symm
    subst this
    exact ⟨i', hi', valid_of_out h hi' ho, rfl, .head ho hrt⟩

/-! ## `expandOutputs` / `expandInputs` for one graph -/

theorem _root_.CCVerif.Graph.expandOutputs_spec (g : G) (h : Inv g) {S : List Nat} (hS : S.Nodup) (u : Nat) :
    u ∈ expandOutputs g S ↔ ∃ s ∈ S, s ∈ liveUids g ∧ Reach (edges g) s u := by
  unfold expandOutputs
  rw [mem_expandGen g _ (fun a ha b hb => (h.outRange a ha b hb).1) hS]
  constructor
  · rintro ⟨s, hs, i, hsi, k, hrt, rfl⟩
    obtain ⟨hi, hv, hu⟩ := indexFor_some hsi
    refine ⟨s, hs, mem_liveUids.mpr ⟨i, hi, hv, hu⟩, ?_⟩
    rw [← hu]
    exact rt_to_reach hrt
  · rintro ⟨s, hs, hl, hr⟩
    obtain ⟨i, hi, hv, hu⟩ := mem_liveUids.mp hl
    obtain ⟨k, _, _, hku, hrt⟩ := reach_to_rt_fwd h hr i hi hv hu
    exact ⟨s, hs, i, indexFor_eq_some h hi hv hu, k, hrt, hku⟩

theorem rt_in_iff {g : G} (h : Inv g) {i k : Nat} :
    RT (fun a b => b ∈ (vx g a).inputs) i k ↔ RT (ROut g) k i := by
  constructor
  · intro hrt
    exact (hrt.flip).mono (fun a b hab => (sym' h a b).mpr hab)
  · intro hrt
    exact (hrt.flip).mono (fun a b hab => (sym' h b a).mp hab)

theorem _root_.CCVerif.Graph.expandInputs_spec (g : G) (h : Inv g) {S : List Nat} (hS : S.Nodup) (u : Nat) :
    u ∈ expandInputs g S ↔ ∃ s ∈ S, s ∈ liveUids g ∧ Reach (edges g) u s := by
  unfold expandInputs
  rw [mem_expandGen g _ (fun a ha b hb => (h.inRange a ha b hb).1) hS]
  constructor
  · rintro ⟨s, hs, i, hsi, k, hrt, rfl⟩
    obtain ⟨hi, hv, hu⟩ := indexFor_some hsi
    refine ⟨s, hs, mem_liveUids.mpr ⟨i, hi, hv, hu⟩, ?_⟩
    rw [← hu]
    exact rt_to_reach ((rt_in_iff h).mp hrt)
  · rintro ⟨s, hs, hl, hr⟩
    obtain ⟨i, hi, hv, hu⟩ := mem_liveUids.mp hl
    obtain ⟨k, _, _, hku, hrt⟩ := reach_to_rt_bwd h hr i hi hv hu
    exact ⟨s, hs, i, indexFor_eq_some h hi hv hu, k, (rt_in_iff h).mpr hrt, hku⟩

/-! ## `isReachableFrom` for one graph -/

theorem _root_.CCVerif.Graph.isReachableFrom_iff (g : G) (h : Inv g) {d s : Nat} (hne : s ≠ d) :
    isReachableFrom g d s = true ↔ ReachPlus (edges g) s d := by
  unfold isReachableFrom
  by_cases hc : connectionExists g s d = true
  · rw [if_pos hc]
    exact ⟨fun _ => ⟨d, (connectionExists_iff h).mp hc, .refl _⟩, fun _ => rfl⟩
  · rw [if_neg hc, if_neg hne]
    rw [List.contains_iff_mem, expandOutputs_spec g h (List.nodup_cons.mpr ⟨by simp, List.nodup_nil⟩)]
    constructor
    · rintro ⟨s', hs', _, hr⟩
      rw [List.mem_singleton] at hs'
      subst hs'
      cases hr with
      | refl => exact absurd rfl hne
      | step he hr' => exact ⟨_, he, hr'⟩
    · rintro ⟨b, he, hr⟩
      exact ⟨s, by simp, (edge_live h he).1, .step he hr⟩

/-! ## per-graph packaging of the remaining query facts -/

theorem _root_.CCVerif.Graph.counts_of_inv (g : G) (h : Inv g) :
    (liveUids g).Nodup ∧ (edges g).Nodup ∧ itemsCount g = (liveUids g).length ∧
    connectionsCount g = (edges g).length :=
  ⟨liveUids_nodup h, edges_nodup h, itemsCount_eq g, connectionsCount_eq g⟩

theorem _root_.CCVerif.Graph.simple_queries_of_inv (g : G) (h : Inv g) (a b : Nat) :
    (contains g a = true ↔ a ∈ liveUids g) ∧
    (connectionExists g a b = true ↔ (a, b) ∈ edges g) ∧
    (∀ s, s ∈ inputsFor g a ↔ (s, a) ∈ edges g) :=
  ⟨contains_iff, connectionExists_iff h, fun _ => mem_inputsFor h⟩

/-! ## the statements over histories (`Properties/C14.lean` restates them as `…_statement`) -/

theorem _root_.CCVerif.Graph.history_refines_run (ops : List Op) (op : Op) (hw : WfOps ops)
    (hop : WfOp op) :
    (∀ u, u ∈ liveUids (applyOp (run ops) op) ↔ u ∈ specV (liveUids (run ops)) op) ∧
    (∀ e, e ∈ edges (applyOp (run ops) op) ↔ e ∈ specE (edges (run ops)) op) :=
  ⟨liveUids_step (inv_run hw) hop, edges_step (inv_run hw) hop⟩

theorem _root_.CCVerif.Graph.counts_run (ops : List Op) (hw : WfOps ops) :
    (liveUids (run ops)).Nodup ∧ (edges (run ops)).Nodup ∧
    itemsCount (run ops) = (liveUids (run ops)).length ∧
    connectionsCount (run ops) = (edges (run ops)).length :=
  counts_of_inv _ (inv_run hw)

theorem _root_.CCVerif.Graph.simple_queries_run (ops : List Op) (a b : Nat) (hw : WfOps ops) :
    (contains (run ops) a = true ↔ a ∈ liveUids (run ops)) ∧
    (connectionExists (run ops) a b = true ↔ (a, b) ∈ edges (run ops)) ∧
    (∀ s, s ∈ inputsFor (run ops) a ↔ (s, a) ∈ edges (run ops)) :=
  simple_queries_of_inv _ (inv_run hw) a b

/-- `S` is a `std::unordered_set` in the C++: the hypothesis `S.Nodup` is needed (the model's
fuel `g.length + 1` is exhausted by duplicates). -/
theorem _root_.CCVerif.Graph.expand_run (ops : List Op) (S : List Nat) (u : Nat) (hw : WfOps ops)
    (hS : S.Nodup) :
    (u ∈ expandOutputs (run ops) S ↔
      ∃ s ∈ S, s ∈ liveUids (run ops) ∧ Reach (edges (run ops)) s u) ∧
    (u ∈ expandInputs (run ops) S ↔
      ∃ s ∈ S, s ∈ liveUids (run ops) ∧ Reach (edges (run ops)) u s) :=
  ⟨expandOutputs_spec _ (inv_run hw) hS u, expandInputs_spec _ (inv_run hw) hS u⟩

theorem _root_.CCVerif.Graph.isReachableFrom_run (ops : List Op) (d s : Nat) (hw : WfOps ops)
    (hne : s ≠ d) :
    (isReachableFrom (run ops) d s = true ↔ ReachPlus (edges (run ops)) s d) :=
  isReachableFrom_iff _ (inv_run hw) hne

end CCVerif.Graph.GA
