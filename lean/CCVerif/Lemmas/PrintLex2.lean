import CCVerif.Model.PPFragment2
import CCVerif.Lemmas.LexPieces
import CCVerif.Lemmas.LexNumeric
import CCVerif.Lemmas.ParsePrint2
import CCVerif.Lemmas.ParseErase
/-!
The lexer link of C05 on the fragment `E2`: the text the printer model produces for a fragment phrase is a sequence of
token spellings and blanks (`E2.items`, in the vocabulary of `Lemmas/LexPieces.lean`), and lexing it gives the token
sequence `E2.toks` back (`lex_print2`); with the parser round trip of `Lemmas/ParsePrint2.lean` and the independence of
the parser from positions (`Lemmas/ParseErase.lean`) this closes the chain tree → text → tokens → tree
(`roundTrips2`). Hypothesis on the leaves: `E2.lexOK` (identifier names are words of the syntax's alphabet that the
lexer reads as one token of their kind — for ASCII this means ASCII names; integers are in `[0, 2³¹)`, indices in
`[0, 32767]`: the two recorded findings are excluded by these conditions).
All facts about spellings are `decide`d over the generated tables (`fixed_table`, `free_table`, …).
-/
namespace CCVerif.PP
open CCVerif.Syntax CCVerif.Generated CCVerif.Lexer CCVerif.Parser CCVerif.Printer CCVerif.LexP CCVerif.LexN

/-! ## fixed spellings as items -/

def leadB (s : List Nat) : Nat := spanLen (fun c => c == 32) s

/-- leading blanks, core, trailing blanks of the spelling of a token -/
def fparts (syn : Syn) (t : Tok) : Nat × List Nat × Nat :=
  let s := str syn t
  let a := leadB s
  let s1 := s.drop a
  let b := leadB s1.reverse
  (a, s1.take (s1.length - b), b)

/-- the spelling of a token as items: blanks, the token, blanks -/
def fx (syn : Syn) (t : Tok) : List Item :=
  [.blank (fparts syn t).1, .tok (fparts syn t).2.1 t .none, .blank (fparts syn t).2.2]

/-- fixed spellings that occur in printed fragment phrases -/
def fragFixed : List Tok := [.PUNC_PL, .PUNC_PR, .PUNC_CL, .PUNC_CR, .PUNC_SL, .PUNC_SR, .PUNC_COMMA, .PUNC_BAR, .IN,
  .DECART, .NOT, .FORALL, .EXISTS, .BOOLEAN, .DECLARATIVE, .LIT_INTSET, .LIT_EMPTYSET, .BOOL, .DEBOOL, .REDUCE, .CARD,
  .PLUS, .MINUS, .MULTIPLY, .UNION, .INTERSECTION, .SET_MINUS, .SYMMINUS,
  .NOTIN, .SUBSET, .SUBSET_OR_EQ, .NOTSUBSET, .NOTEQUAL, .EQUAL, .GREATER, .LESSER, .GREATER_OR_EQ, .LESSER_OR_EQ,
  .EQUIVALENT, .IMPLICATION, .OR, .AND]

def synL : List Syn := [.math, .ascii]
theorem mem_synL (syn : Syn) : syn ∈ synL := by cases syn <;> simp [synL]

/-- what the tables must say about a fixed spelling: the parts give the spelling back; the core is lexed as the
token, without payload; trailing blanks stop every rule; a core that does not start with a symbol is a word that
neither a comma nor (for `B`) another `B` extends -/
def fixedBase (syn : Syn) (t : Tok) : Bool :=
  let a := (fparts syn t).1
  let w := (fparts syn t).2.1
  let b := (fparts syn t).2.2
  decide (List.replicate a 32 ++ w ++ List.replicate b 32 = str syn t) && !w.isEmpty &&
  decide (bestRule syn w (rulesOf syn) none = some (w.length, .tok t)) && decide (t ≠ .END) &&
  decide (parseData t w = .none) && (b == 0 || !ext syn w 32) &&
  (symStart syn w || (w.all (isAlnum syn) && !ext syn w 44 && (t != .BOOLEAN || !ext syn w 66)))

/-- (generated tables, re-proved on every run) every fixed spelling of the fragment is well-behaved -/
theorem fixed_table : ∀ syn ∈ synL, ∀ t ∈ fragFixed, fixedBase syn t = true := by
  decide +kernel

/-- the token accepts ANY following unit: its spelling ends with a blank, or it is a symbol no literal extends -/
def freeTok (syn : Syn) (t : Tok) : Bool :=
  (fparts syn t).2.2 != 0 || (symStart syn (fparts syn t).2.1 && (extChars syn (fparts syn t).2.1).isEmpty)

/-- the unit `nx` may follow the spelling of `t` -/
def fixedNextOK (syn : Syn) (t : Tok) (nx : Option Nat) : Bool :=
  freeTok syn t ||
  match nx with
  | none => true
  | some c =>
    if symStart syn (fparts syn t).2.1 then !(extChars syn (fparts syn t).2.1).contains c
    else (!isAlnum syn c || (t == .BOOLEAN && c == 66))

theorem render_fx (syn : Syn) (t : Tok) (ht : t ∈ fragFixed) : render (fx syn t) = str syn t := by
  have h := fixed_table syn (mem_synL syn) t ht
  simp only [fixedBase, Bool.and_eq_true, decide_eq_true_eq] at h
  rw [← h.1.1.1.1.1.1]
  simp [fx, render, Item.text]

theorem kds_fx (syn : Syn) (t : Tok) : kds (fx syn t) = [(t, .none)] := rfl

theorem fx_chain (syn : Syn) (t : Tok) (ht : t ∈ fragFixed) (nx : Option Nat) (h : fixedNextOK syn t nx = true) :
    ChainN syn (fx syn t) nx := by
  have hb := fixed_table syn (mem_synL syn) t ht
  simp only [fixedBase, Bool.and_eq_true, decide_eq_true_eq, Bool.or_eq_true, Bool.not_eq_true',
    beq_iff_eq, List.isEmpty_eq_false_iff, bne_iff_ne, ne_eq] at hb
  obtain ⟨⟨⟨⟨⟨⟨_, hne⟩, hbest⟩, hend⟩, hdata⟩, hblank⟩, hword⟩ := hb
  show ChainN syn [.blank _, .tok _ t .none, .blank _] nx
  rw [chainN_blank, chainN_tok, chainN_blank]
  refine ⟨⟨hne, hbest, hend, hdata, ?_⟩, trivial⟩
  intro c hc
  cases hb2 : (fparts syn t).2.2 with
  | succ n =>
    rw [hb2, firstU_blank_succ] at hc
    cases hc
    rcases hblank with h0 | h0
    · rw [hb2] at h0; cases h0
    · exact h0
  | zero =>
    rw [hb2, firstU_blank_zero, firstU_nil] at hc
    subst hc
    simp only [fixedNextOK, freeTok, hb2, Bool.or_eq_true, bne_iff_ne, ne_eq, not_true_eq_false, false_or,
      Bool.and_eq_true, List.isEmpty_iff] at h
    rcases h with ⟨hs, hx⟩ | h
    · exact ext_symbol_nil syn _ c hs hx
    · cases hs : symStart syn (fparts syn t).2.1 with
      | true =>
        rw [hs] at h
        simp only [if_true, Bool.not_eq_true', List.contains_eq_mem, decide_eq_false_iff_not] at h
        exact ext_symbol syn _ c hs h
      | false =>
        rw [hs] at h hword
        simp only [Bool.false_eq_true, if_false, Bool.or_eq_true, Bool.not_eq_true', Bool.and_eq_true,
          beq_iff_eq] at h
        simp only [Bool.false_eq_true, false_or, Bool.and_eq_true, Bool.not_eq_true', Bool.or_eq_true,
          bne_iff_ne, ne_eq] at hword
        obtain ⟨⟨hall, h44⟩, hBB⟩ := hword
        rcases h with h | ⟨h1, h2⟩
        · by_cases hc44 : c = 44
          · subst hc44; exact h44
          · exact ext_word syn _ c hne hall h hc44
        · subst h2
          rcases hBB with hBB | hBB
          · simp [bne, h1] at hBB
          · exact hBB

def memb (t : Tok) (l : List Tok) : Bool := l.any fun x => decide (x = t)
theorem mem_of_memb {t : Tok} {l : List Tok} (h : memb t l = true) : t ∈ l := by
  simp only [memb, List.any_eq_true, decide_eq_true_eq] at h
  obtain ⟨x, hx, rfl⟩ := h; exact hx

/-- tokens that accept any following unit, in both syntaxes -/
def freeL : List Tok := [.PUNC_PL, .PUNC_PR, .PUNC_CR, .PUNC_SL, .PUNC_SR, .PUNC_COMMA, .PUNC_BAR, .IN,
  .DECART, .NOT, .FORALL, .EXISTS, .LIT_EMPTYSET,
  .PLUS, .MINUS, .MULTIPLY, .UNION, .INTERSECTION, .SET_MINUS, .SYMMINUS,
  .NOTIN, .SUBSET, .SUBSET_OR_EQ, .NOTSUBSET, .NOTEQUAL, .EQUAL, .GREATER, .LESSER, .GREATER_OR_EQ, .LESSER_OR_EQ,
  .EQUIVALENT, .IMPLICATION, .OR, .AND]

/-- (generated tables) these spellings end with a blank or are symbols no literal of the lexer extends; their first
unit is not alphanumeric -/
theorem free_table : ∀ syn ∈ synL, ∀ t ∈ freeL, freeTok syn t = true ∧ memb t fragFixed = true ∧
    (match (str syn t).head? with | some c => !isAlnum syn c | none => false) = true := by
  decide +kernel

theorem fx_chain_free (syn : Syn) (t : Tok) (ht : t ∈ freeL) (nx : Option Nat) : ChainN syn (fx syn t) nx := by
  have h := free_table syn (mem_synL syn) t ht
  exact fx_chain syn t (mem_of_memb h.2.1) nx (by simp [fixedNextOK, h.1])

/-- the first unit of a text that starts with a free token is not alphanumeric -/
theorem firstU_free (syn : Syn) (t : Tok) (ht : t ∈ freeL) (R : List Item) (nx : Option Nat) :
    ∃ c, firstU (fx syn t ++ R) nx = some c ∧ isAlnum syn c = false := by
  have h := free_table syn (mem_synL syn) t ht
  have hr := render_fx syn t (mem_of_memb h.2.1)
  cases hs : str syn t with
  | nil => rw [hs] at h; simp at h
  | cons c r =>
    refine ⟨c, ?_, ?_⟩
    · rw [firstU_append]; unfold firstU; rw [hr, hs]
    · have := h.2.2; rw [hs] at this; simpa using this

theorem mem_freeL_set7 (t : Tok) (h : isSetOp7 t = true) : t ∈ freeL := by
  cases t <;> first | (simp [freeL]; done) | (exact absurd h (by decide))
theorem mem_freeL_pred (t : Tok) (h : isPredOp t = true) : t ∈ freeL := by
  cases t <;> first | (simp [freeL]; done) | (exact absurd h (by decide))
theorem mem_freeL_logic (t : Tok) (h : isLogicOp t = true) : t ∈ freeL := by
  cases t <;> first | (simp [freeL]; done) | (exact absurd h (by decide))
theorem mem_freeL_quant (t : Tok) (h : (t == .FORALL || t == .EXISTS) = true) : t ∈ freeL := by
  cases t <;> first | (simp [freeL]; done) | (exact absurd h (by decide))

/-! ## the hypothesis on leaves, and the items of a phrase -/

def intOK (n : Int) : Bool := decide (0 ≤ n) && decide (n < 2147483648)

def idxOKb (idx : List Int) : Bool := !idx.isEmpty && idx.all (fun i => decide (0 ≤ i) && decide (i ≤ 32767))

/-- the name is a non-empty word over the alphabet of the syntax (`[A-Za-z0-9_]`, for MATH also `α…ω`) that the lexer
of the syntax reads as ONE token of kind `id` -/
def idOK (syn : Syn) (id : Tok) (s : String) : Bool :=
  !(stringUnits s).isEmpty && (stringUnits s).all (isAlnum syn) &&
    decide (bestRule syn (stringUnits s) (rulesOf syn) none = some ((stringUnits s).length, .tok id))

def leafOK (syn : Syn) (id : Tok) (d : TokData) : Bool :=
  match id, d with
  | .LIT_INTEGER, .int n => intOK n
  | .LIT_INTSET, .none | .LIT_EMPTYSET, .none => true
  | .ID_LOCAL, .text s | .ID_GLOBAL, .text s | .ID_RADICAL, .text s | .ID_FUNCTION, .text s | .ID_PREDICATE, .text s =>
    idOK syn id s
  | _, _ => false

/-- payload of a text operator / filter token: none for `bool debool red card`, an index tuple for `Pr pr Fi` -/
def nameOK (f : Tok) (d : TokData) : Bool :=
  match d with
  | .tuple idx => (f == .BIGPR || f == .SMALLPR || f == .FILTER) && idxOKb idx
  | .none => f == .BOOL || f == .DEBOOL || f == .REDUCE || f == .CARD
  | _ => false

/-- payloads of all leaves are what the lexer of `syn` produces for their printed spelling -/
def E2.lexOK (syn : Syn) : E2 → Bool
  | .atom id d => leafOK syn id d
  | .text f d a => nameOK f d && a.lexOK syn
  | .sbin _ l r => l.lexOK syn && r.lexOK syn
  | .prod2 a b => a.lexOK syn && b.lexOK syn
  | .prodN p k => p.lexOK syn && k.lexOK syn
  | .pred _ l r => l.lexOK syn && r.lexOK syn
  | .neg x => x.lexOK syn
  | .lbin _ l r => l.lexOK syn && r.lexOK syn
  | .pow a => a.lexOK syn
  | .one a => a.lexOK syn
  | .more a l => a.lexOK syn && l.lexOK syn
  | .enum l => l.lexOK syn
  | .tuple a l => a.lexOK syn && l.lexOK syn
  | .fcall d l => leafOK syn .ID_FUNCTION d && l.lexOK syn
  | .pcall d l => leafOK syn .ID_PREDICATE d && l.lexOK syn
  | .filter d ps arg => nameOK .FILTER d && ps.lexOK syn && arg.lexOK syn
  | .quant _ vs dom body => vs.lexOK syn && dom.lexOK syn && body.lexOK syn
  | .decl v dom body => v.lexOK syn && dom.lexOK syn && body.lexOK syn

def wrapI (syn : Syn) (b : Bool) (is : List Item) : List Item :=
  if b then fx syn .PUNC_PL ++ is ++ fx syn .PUNC_PR else is

def leafItems (syn : Syn) (id : Tok) (d : TokData) : List Item :=
  match d with
  | .int n => [.tok (decInt n) id d]
  | .text s => [.tok (stringUnits s) id d]
  | _ => fx syn id

def nameItems (syn : Syn) (f : Tok) (d : TokData) : List Item :=
  match d with
  | .tuple idx => [.tok (str .math f ++ idxText idx) f d]
  | _ => fx syn f

/-- the printed text of a phrase as items -/
def E2.items (syn : Syn) : E2 → List Item
  | .atom id d => leafItems syn id d
  | .text f d a => nameItems syn f d ++ (fx syn .PUNC_PL ++ (a.items syn ++ fx syn .PUNC_PR))
  | .sbin op l r =>
    wrapI syn (brSet op l.top .left) (l.items syn) ++ (fx syn op ++ wrapI syn (brSet op r.top .right) (r.items syn))
  | .prod2 a b =>
    wrapI syn (brProd true a.top) (a.items syn) ++ (fx syn .DECART ++ wrapI syn (brProd false b.top) (b.items syn))
  | .prodN p k => p.items syn ++ (fx syn .DECART ++ wrapI syn (brProd false k.top) (k.items syn))
  | .pred op l r => l.items syn ++ (fx syn op ++ r.items syn)
  | .neg x => fx syn .NOT ++ wrapI syn (brNot x.top) (x.items syn)
  | .lbin op l r =>
    wrapI syn (brLogic op l.top .left) (l.items syn) ++
      (.blank 1 :: (fx syn op ++ (.blank 1 :: wrapI syn (brLogic op r.top .right) (r.items syn))))
  | .pow a => fx syn .BOOLEAN ++ wrapI syn (!a.isPow) (a.items syn)
  | .one a => a.items syn
  | .more a l => a.items syn ++ (fx syn .PUNC_COMMA ++ (.blank 1 :: l.items syn))
  | .enum l => fx syn .PUNC_CL ++ (l.items syn ++ fx syn .PUNC_CR)
  | .tuple a l => fx syn .PUNC_PL ++ (a.items syn ++ (fx syn .PUNC_COMMA ++ (.blank 1 :: (l.items syn ++ fx syn .PUNC_PR))))
  | .fcall d l => leafItems syn .ID_FUNCTION d ++ (fx syn .PUNC_SL ++ (l.items syn ++ fx syn .PUNC_SR))
  | .pcall d l => leafItems syn .ID_PREDICATE d ++ (fx syn .PUNC_SL ++ (l.items syn ++ fx syn .PUNC_SR))
  | .filter d ps arg =>
    nameItems syn .FILTER d ++ (fx syn .PUNC_SL ++ (ps.items syn ++ (fx syn .PUNC_SR ++ (fx syn .PUNC_PL ++
      (arg.items syn ++ fx syn .PUNC_PR)))))
  | .quant q vs dom body =>
    fx syn q ++ (vs.items syn ++ (fx syn .IN ++ (dom.items syn ++ (.blank 1 :: wrapI syn (brQ q body.top) (body.items syn)))))
  | .decl v dom body =>
    fx syn .DECLARATIVE ++ (fx syn .PUNC_CL ++ (v.items syn ++ (fx syn .IN ++ (dom.items syn ++
      (.blank 1 :: (fx syn .PUNC_BAR ++ (.blank 1 :: (body.items syn ++ fx syn .PUNC_CR))))))))

/-! ## the items carry the token sequence -/

def kd2 (t : LTok) : Tok × TokData := (t.id, t.data)

theorem kds_wrapI (syn : Syn) (b : Bool) (is : List Item) (ts : Toks) (h : kds is = ts.map kd2) :
    kds (wrapI syn b is) = (wrap b ts).map kd2 := by
  cases b
  · exact h
  · simp only [wrapI, wrap, if_true, kds_append, kds_fx, h, List.map_cons, List.map_append, List.map_nil]
    rfl

theorem kds_leaf (syn : Syn) (id : Tok) (d : TokData) (h : leafOK syn id d = true) :
    kds (leafItems syn id d) = [(id, d)] := by
  cases d with
  | none => rfl
  | int n => rfl
  | text s => rfl
  | tuple idx => cases id <;> simp [leafOK] at h

theorem kds_name (syn : Syn) (f : Tok) (d : TokData) (h : nameOK f d = true) :
    kds (nameItems syn f d) = [(f, d)] := by
  cases d with
  | none => rfl
  | tuple idx => rfl
  | int n => simp [nameOK] at h
  | text s => simp [nameOK] at h

theorem kds_items (syn : Syn) : ∀ e : E2, e.lexOK syn = true → kds (e.items syn) = e.toks.map kd2
  | .atom id d, h => by simp only [E2.lexOK] at h; rw [E2.items, kds_leaf syn id d h]; rfl
  | .text f d a, h => by
    simp only [E2.lexOK, Bool.and_eq_true] at h
    simp only [E2.items, E2.toks, kds_append, kds_name syn f d h.1, kds_fx, kds_items syn a h.2, List.map_cons,
      List.map_append, List.map_nil]
    rfl
  | .sbin op l r, h => by
    simp only [E2.lexOK, Bool.and_eq_true] at h
    simp only [E2.items, E2.toks, kds_append, kds_fx, kds_wrapI syn _ _ _ (kds_items syn l h.1),
      kds_wrapI syn _ _ _ (kds_items syn r h.2), List.map_cons, List.map_append]
    rfl
  | .prod2 a b, h => by
    simp only [E2.lexOK, Bool.and_eq_true] at h
    simp only [E2.items, E2.toks, kds_append, kds_fx, kds_wrapI syn _ _ _ (kds_items syn a h.1),
      kds_wrapI syn _ _ _ (kds_items syn b h.2), List.map_cons, List.map_append]
    rfl
  | .prodN p k, h => by
    simp only [E2.lexOK, Bool.and_eq_true] at h
    simp only [E2.items, E2.toks, kds_append, kds_fx, kds_items syn p h.1,
      kds_wrapI syn _ _ _ (kds_items syn k h.2), List.map_cons, List.map_append]
    rfl
  | .pred op l r, h => by
    simp only [E2.lexOK, Bool.and_eq_true] at h
    simp only [E2.items, E2.toks, kds_append, kds_fx, kds_items syn l h.1, kds_items syn r h.2, List.map_cons,
      List.map_append]
    rfl
  | .neg x, h => by
    simp only [E2.lexOK] at h
    simp only [E2.items, E2.toks, kds_append, kds_fx, kds_wrapI syn _ _ _ (kds_items syn x h), List.map_cons]
    rfl
  | .lbin op l r, h => by
    simp only [E2.lexOK, Bool.and_eq_true] at h
    simp only [E2.items, E2.toks, kds_append, kds_blank, kds_fx, kds_wrapI syn _ _ _ (kds_items syn l h.1),
      kds_wrapI syn _ _ _ (kds_items syn r h.2), List.map_cons, List.map_append]
    rfl
  | .pow a, h => by
    simp only [E2.lexOK] at h
    have := kds_wrapI syn (!a.isPow) _ _ (kds_items syn a h)
    simp only [E2.items, E2.toks, kds_append, kds_fx, this]
    cases a.isPow <;> rfl
  | .one a, h => by simp only [E2.lexOK] at h; exact kds_items syn a h
  | .more a l, h => by
    simp only [E2.lexOK, Bool.and_eq_true] at h
    simp only [E2.items, E2.toks, kds_append, kds_blank, kds_fx, kds_items syn a h.1, kds_items syn l h.2,
      List.map_cons, List.map_append]
    rfl
  | .enum l, h => by
    simp only [E2.lexOK] at h
    simp only [E2.items, E2.toks, kds_append, kds_fx, kds_items syn l h, List.map_cons, List.map_append, List.map_nil]
    rfl
  | .tuple a l, h => by
    simp only [E2.lexOK, Bool.and_eq_true] at h
    simp only [E2.items, E2.toks, kds_append, kds_blank, kds_fx, kds_items syn a h.1, kds_items syn l h.2,
      List.map_cons, List.map_append, List.map_nil]
    rfl
  | .fcall d l, h => by
    simp only [E2.lexOK, Bool.and_eq_true] at h
    simp only [E2.items, E2.toks, kds_append, kds_fx, kds_leaf syn _ d h.1, kds_items syn l h.2, List.map_cons,
      List.map_append, List.map_nil]
    rfl
  | .pcall d l, h => by
    simp only [E2.lexOK, Bool.and_eq_true] at h
    simp only [E2.items, E2.toks, kds_append, kds_fx, kds_leaf syn _ d h.1, kds_items syn l h.2, List.map_cons,
      List.map_append, List.map_nil]
    rfl
  | .filter d ps arg, h => by
    simp only [E2.lexOK, Bool.and_eq_true] at h
    simp only [E2.items, E2.toks, kds_append, kds_fx, kds_name syn _ d h.1.1, kds_items syn ps h.1.2,
      kds_items syn arg h.2, List.map_cons, List.map_append, List.map_nil]
    rfl
  | .quant q vs dom body, h => by
    simp only [E2.lexOK, Bool.and_eq_true] at h
    simp only [E2.items, E2.toks, kds_append, kds_blank, kds_fx, kds_items syn vs h.1.1, kds_items syn dom h.1.2,
      kds_wrapI syn _ _ _ (kds_items syn body h.2), List.map_cons, List.map_append]
    rfl
  | .decl v dom body, h => by
    simp only [E2.lexOK, Bool.and_eq_true] at h
    simp only [E2.items, E2.toks, kds_append, kds_blank, kds_fx, kds_items syn v h.1.1, kds_items syn dom h.1.2,
      kds_items syn body h.2, List.map_cons, List.map_append, List.map_nil]
    rfl

/-! ## the items of a phrase form a chain -/

/-- the unit after a phrase is never alphanumeric -/
def NextOK (syn : Syn) (nx : Option Nat) : Prop := ∀ c, nx = some c → isAlnum syn c = false

theorem nextOK_none (syn : Syn) : NextOK syn none := fun _ h => by cases h

theorem nextOK_free (syn : Syn) (t : Tok) (ht : t ∈ freeL) (R : List Item) (nx : Option Nat) :
    NextOK syn (firstU (fx syn t ++ R) nx) := by
  obtain ⟨c, hc, ha⟩ := firstU_free syn t ht R nx
  intro c' h'; rw [hc] at h'; cases h'; exact ha

theorem nextOK_blank (syn : Syn) (n : Nat) (R : List Item) (nx : Option Nat) :
    NextOK syn (firstU (.blank (n + 1) :: R) nx) := by
  intro c h; rw [firstU_blank_succ] at h; cases h; cases syn <;> rfl

theorem chain_app {syn : Syn} {a b : List Item} {nx : Option Nat} (ha : ChainN syn a (firstU b nx))
    (hb : ChainN syn b nx) : ChainN syn (a ++ b) nx := (chainN_append syn a b nx).2 ⟨ha, hb⟩

theorem alnum_not_alnum {syn : Syn} {w : List Nat} (hall : w.all (isAlnum syn) = true) (hne : w ≠ []) :
    ∃ c r, w = c :: r ∧ isAlnum syn c = true := by
  cases w with
  | nil => exact absurd rfl hne
  | cons c r => simp only [List.all_cons, Bool.and_eq_true] at hall; exact ⟨c, r, rfl, hall.1⟩

/-- a word token that is not an indexed `pr/Pr/Fi` is lexed as itself before any non-alphanumeric unit -/
theorem word_tokOK (syn : Syn) (w : List Nat) (id : Tok) (d : TokData) (nx : Option Nat) (hne : w ≠ [])
    (hall : w.all (isAlnum syn) = true)
    (hb : bestRule syn w (rulesOf syn) none = some (w.length, .tok id))
    (hid : id ≠ .SMALLPR ∧ id ≠ .BIGPR ∧ id ≠ .FILTER ∧ id ≠ .END) (hd : parseData id w = d) (hn : NextOK syn nx) :
    tokOK syn w id d nx := by
  refine ⟨hne, hb, hid.2.2.2, hd, ?_⟩
  intro c hc
  by_cases h44 : c = 44
  · subst h44; exact ext_word_comma syn w id hne hall hb ⟨hid.1, hid.2.1, hid.2.2.1⟩
  · exact ext_word syn w c hne hall (hn c hc) h44

theorem digits_alnum (syn : Syn) (w : List Nat) (h : w.all isDigit = true) : w.all (isAlnum syn) = true := by
  rw [List.all_eq_true] at h ⊢
  intro x hx; exact isDigit_alnum (h x hx)

/-- words among the fixed spellings -/
def wordL : List Tok := [.LIT_INTSET, .DECLARATIVE, .BOOL, .DEBOOL, .REDUCE, .CARD, .BOOLEAN]

theorem word_table : ∀ syn ∈ synL, ∀ t ∈ wordL, memb t fragFixed = true ∧
    (freeTok syn t || !symStart syn (fparts syn t).2.1) = true := by
  decide +kernel

theorem fx_chain_word (syn : Syn) (t : Tok) (ht : t ∈ wordL) (nx : Option Nat) (hn : NextOK syn nx) :
    ChainN syn (fx syn t) nx := by
  have h := word_table syn (mem_synL syn) t ht
  refine fx_chain syn t (mem_of_memb h.1) nx ?_
  have h2 := h.2
  simp only [Bool.or_eq_true, Bool.not_eq_true'] at h2
  rcases h2 with h2 | h2
  · simp [fixedNextOK, h2]
  · cases nx with
    | none => simp [fixedNextOK]
    | some c => simp [fixedNextOK, h2, hn c rfl]

theorem leaf_chain (syn : Syn) (id : Tok) (d : TokData) (h : leafOK syn id d = true) (nx : Option Nat)
    (hn : NextOK syn nx) : ChainN syn (leafItems syn id d) nx := by
  cases d with
  | int n =>
    have hid : id = .LIT_INTEGER := by cases id <;> simp [leafOK] at h <;> rfl
    subst hid
    simp only [leafOK, intOK, Bool.and_eq_true, decide_eq_true_eq] at h
    show ChainN syn [.tok (decInt n) .LIT_INTEGER (.int n)] nx
    rw [chainN_tok]
    exact ⟨word_tokOK syn _ _ _ nx (decInt_ne_nil n h.1) (digits_alnum syn _ (decInt_digits n h.1)) (best_decInt syn n h.1)
      (by decide) (parseData_int n h.1 h.2) hn, trivial⟩
  | text s =>
    have hid : (id = .ID_LOCAL ∨ id = .ID_GLOBAL ∨ id = .ID_FUNCTION ∨ id = .ID_PREDICATE ∨ id = .ID_RADICAL) ∧
        idOK syn id s = true := by
      cases id <;> simp [leafOK] at h <;> simp [h]
    obtain ⟨hid, hok⟩ := hid
    simp only [idOK, Bool.and_eq_true, decide_eq_true_eq, Bool.not_eq_true', List.isEmpty_eq_false_iff] at hok
    show ChainN syn [.tok (stringUnits s) id (.text s)] nx
    rw [chainN_tok]
    refine ⟨word_tokOK syn _ _ _ nx hok.1.1 hok.1.2 hok.2 ?_ (parseData_id id hid s) hn, trivial⟩
    rcases hid with h | h | h | h | h <;> subst h <;> decide
  | none =>
    show ChainN syn (fx syn id) nx
    have hid : id = .LIT_INTSET ∨ id = .LIT_EMPTYSET := by cases id <;> simp [leafOK] at h <;> simp
    rcases hid with rfl | rfl
    · exact fx_chain_word syn _ (by simp [wordL]) nx hn
    · exact fx_chain_free syn _ (by simp [freeL]) nx
  | tuple idx => cases id <;> simp [leafOK] at h

theorem idxOK_of_b {idx : List Int} (h : idxOKb idx = true) : idxOK idx := by
  simp only [idxOKb, Bool.and_eq_true, Bool.not_eq_true', List.isEmpty_eq_false_iff, List.all_eq_true,
    decide_eq_true_eq] at h
  exact ⟨h.1, h.2⟩

/-- the name of a text operator / filter before `(` or `[` -/
theorem name_chain (syn : Syn) (f : Tok) (d : TokData) (h : nameOK f d = true) (c : Nat) (hc : isAlnum syn c = false)
    (h44 : c ≠ 44) : ChainN syn (nameItems syn f d) (some c) := by
  cases d with
  | tuple idx =>
    simp only [nameOK, Bool.and_eq_true, Bool.or_eq_true] at h
    have hf : f = .BIGPR ∨ f = .SMALLPR ∨ f = .FILTER := by
      have := h.1; cases f <;> first | exact Or.inl rfl | exact Or.inr (Or.inl rfl) | exact Or.inr (Or.inr rfl) | (revert this; decide)
    have hi := idxOK_of_b h.2
    show ChainN syn [.tok (str .math f ++ idxText idx) f (.tuple idx)] (some c)
    rw [chainN_tok]
    obtain ⟨dg, r, hdr, hdg⟩ := idxText_head_digit idx hi
    refine ⟨⟨?_, best_index syn f hf idx hi, ?_, parseData_index f hf idx hi, ?_⟩, trivial⟩
    · rw [hdr]; simp
    · rcases hf with rfl | rfl | rfl <;> decide
    · intro c' hc'
      rw [firstU_nil] at hc'; cases hc'
      exact ext_hasDigit syn _ c (by rw [hdr]; simp [hdg]) hc h44
  | none =>
    show ChainN syn (fx syn f) (some c)
    have hf : f ∈ wordL := by
      simp only [nameOK, Bool.or_eq_true] at h
      cases f <;> first | (simp [wordL]; done) | (exact absurd h (by decide))
    exact fx_chain_word syn f hf _ (fun c' h' => by cases h'; exact hc)
  | int n => simp [nameOK] at h
  | text s => simp [nameOK] at h

/-- (generated tables) the brackets are spelled `( [ {` with nothing around them, `D` is followed by `{` -/
theorem bracket_spell : ∀ syn ∈ synL, str syn .PUNC_PL = [40] ∧ str syn .PUNC_SL = [91] ∧ str syn .PUNC_CL = [123] ∧
    (match (str syn .BOOLEAN) with | [c] => fixedNextOK syn .BOOLEAN (some c) && fixedNextOK syn .BOOLEAN (some 40) | _ => false) = true ∧
    (freeTok syn .PUNC_CL || (symStart syn (fparts syn .PUNC_CL).2.1 && extChars syn (fparts syn .PUNC_CL).2.1 == [125])) = true := by
  decide +kernel

theorem firstU_fx (syn : Syn) (t : Tok) (ht : t ∈ fragFixed) (c : Nat) (r : List Nat) (hs : str syn t = c :: r)
    (R : List Item) (nx : Option Nat) : firstU (fx syn t ++ R) nx = some c := by
  rw [firstU_append]; unfold firstU; rw [render_fx syn t ht, hs]

theorem wrapI_chain (syn : Syn) (b : Bool) (is : List Item) (nx : Option Nat)
    (h : ∀ nx', NextOK syn nx' → ChainN syn is nx') (hn : NextOK syn nx) : ChainN syn (wrapI syn b is) nx := by
  cases b with
  | false => exact h nx hn
  | true =>
    show ChainN syn (fx syn .PUNC_PL ++ is ++ fx syn .PUNC_PR) nx
    rw [List.append_assoc]
    refine chain_app (fx_chain_free syn _ (by simp [freeL]) _) (chain_app (h _ ?_) (fx_chain_free syn _ (by simp [freeL]) _))
    have := nextOK_free syn .PUNC_PR (by simp [freeL]) [] nx
    simpa using this

theorem nextOK_wrapI_true (syn : Syn) (is R : List Item) (nx : Option Nat) :
    firstU (wrapI syn true is ++ R) nx = some 40 := by
  show firstU (fx syn .PUNC_PL ++ is ++ fx syn .PUNC_PR ++ R) nx = some 40
  rw [List.append_assoc, List.append_assoc]
  exact firstU_fx syn _ (by simp [fragFixed]) 40 [] (bracket_spell syn (mem_synL syn)).1 _ _

/-! ## how the text of a set phrase starts -/

/-- fixed spellings that can start a set phrase -/
def startFixedL : List Tok := [.PUNC_PL, .PUNC_CL, .BOOLEAN, .DECLARATIVE, .LIT_INTSET, .LIT_EMPTYSET, .BOOL, .DEBOOL,
  .REDUCE, .CARD]

/-- (generated tables) none of them starts with `}`; nor do `Pr pr Fi` -/
theorem start_table : (∀ syn ∈ synL, ∀ t ∈ startFixedL, memb t fragFixed = true ∧
      (match (str syn t).head? with | some c => c != 125 | none => false) = true) ∧
    (∀ t ∈ [Tok.BIGPR, .SMALLPR, .FILTER], (match (str .math t).head? with | some c => c != 125 | none => false) = true) := by
  decide +kernel

theorem render_head_append {a : List Item} {c : Nat} {r : List Nat} (b : List Item) (h : render a = c :: r) :
    render (a ++ b) = c :: (r ++ render b) := by rw [render_append, h]; rfl

theorem firstU_of_render {a : List Item} {c : Nat} {r : List Nat} (h : render a = c :: r) (R : List Item)
    (nx : Option Nat) : firstU (a ++ R) nx = some c := by
  rw [firstU_append]; unfold firstU; rw [h]

theorem fx_head (syn : Syn) (t : Tok) (ht : t ∈ startFixedL) : ∃ c r, render (fx syn t) = c :: r ∧ c ≠ 125 := by
  have h := start_table.1 syn (mem_synL syn) t ht
  rw [render_fx syn t (mem_of_memb h.1)]
  cases hs : str syn t with
  | nil => rw [hs] at h; simp at h
  | cons c r => refine ⟨c, r, rfl, ?_⟩; have := h.2; rw [hs] at this; simpa using this

theorem leaf_head (syn : Syn) (id : Tok) (d : TokData) (h : leafOK syn id d = true) :
    ∃ c r, render (leafItems syn id d) = c :: r ∧ c ≠ 125 := by
  cases d with
  | int n =>
    have hid : id = .LIT_INTEGER := by cases id <;> simp [leafOK] at h <;> rfl
    subst hid
    simp only [leafOK, intOK, Bool.and_eq_true, decide_eq_true_eq] at h
    obtain ⟨c, r, hcr, hc⟩ := alnum_not_alnum (digits_alnum syn _ (decInt_digits n h.1)) (decInt_ne_nil n h.1)
    refine ⟨c, r, by simp [leafItems, render, Item.text, hcr], ?_⟩
    rintro rfl; cases syn <;> simp [isAlnum, isDigit, isAlpha, isUpper, isLower] at hc
  | text s =>
    have hok : idOK syn id s = true := by cases id <;> simp [leafOK] at h <;> exact h
    simp only [idOK, Bool.and_eq_true, decide_eq_true_eq, Bool.not_eq_true', List.isEmpty_eq_false_iff] at hok
    obtain ⟨c, r, hcr, hc⟩ := alnum_not_alnum hok.1.2 hok.1.1
    refine ⟨c, r, by simp [leafItems, render, Item.text, hcr], ?_⟩
    rintro rfl; cases syn <;> simp [isAlnum, isDigit, isAlpha, isUpper, isLower] at hc
  | none =>
    have hid : id = .LIT_INTSET ∨ id = .LIT_EMPTYSET := by cases id <;> simp [leafOK] at h <;> simp
    rcases hid with rfl | rfl <;> exact fx_head syn _ (by simp [startFixedL])
  | tuple idx => cases id <;> simp [leafOK] at h

theorem name_head (syn : Syn) (f : Tok) (d : TokData) (h : nameOK f d = true) :
    ∃ c r, render (nameItems syn f d) = c :: r ∧ c ≠ 125 := by
  cases d with
  | tuple idx =>
    simp only [nameOK, Bool.and_eq_true, Bool.or_eq_true] at h
    have hf : f ∈ [Tok.BIGPR, .SMALLPR, .FILTER] := by
      have := h.1; cases f <;> first | (simp; done) | (exact absurd this (by decide))
    have ht := start_table.2 f hf
    cases hs : str .math f with
    | nil => rw [hs] at ht; simp at ht
    | cons c r =>
      refine ⟨c, r ++ idxText idx, by simp [nameItems, render, Item.text, hs], ?_⟩
      rw [hs] at ht; simpa using ht
  | none =>
    have hf : f ∈ startFixedL := by
      simp only [nameOK, Bool.or_eq_true] at h
      cases f <;> first | (simp [startFixedL]; done) | (exact absurd h (by decide))
    exact fx_head syn f hf
  | int n => simp [nameOK] at h
  | text s => simp [nameOK] at h

theorem head_app {a : List Item} (b : List Item) (h : ∃ c r, render a = c :: r ∧ c ≠ 125) :
    ∃ c r, render (a ++ b) = c :: r ∧ c ≠ 125 := by
  obtain ⟨c, r, hcr, hc⟩ := h
  exact ⟨c, _, render_head_append b hcr, hc⟩

theorem wrapI_head (syn : Syn) (b : Bool) (is : List Item) (h : ∃ c r, render is = c :: r ∧ c ≠ 125) :
    ∃ c r, render (wrapI syn b is) = c :: r ∧ c ≠ 125 := by
  cases b
  · exact h
  · have := head_app (is ++ fx syn .PUNC_PR) (fx_head syn .PUNC_PL (by simp [startFixedL]))
    rw [← List.append_assoc] at this
    exact this

/-- the text of a set phrase (or of a list of set phrases) does not start with `}` -/
theorem items_head (syn : Syn) : ∀ e : E2, e.wf = true → e.lexOK syn = true → (e.isS = true ∨ e.isA = true) →
    ∃ c r, render (e.items syn) = c :: r ∧ c ≠ 125
  | .atom id d, _, hl, _ => by simp only [E2.lexOK] at hl; exact leaf_head syn id d hl
  | .text f d a, _, hl, _ => by
    simp only [E2.lexOK, Bool.and_eq_true] at hl
    exact head_app _ (name_head syn f d hl.1)
  | .sbin op l r, hw, hl, _ => by
    simp only [E2.wf, Bool.and_eq_true] at hw
    simp only [E2.lexOK, Bool.and_eq_true] at hl
    exact head_app _ (wrapI_head syn _ _ (items_head syn l hw.1.2 hl.1 (Or.inl hw.1.1.1.2)))
  | .prod2 a b, hw, hl, _ => by
    simp only [E2.wf, Bool.and_eq_true] at hw
    simp only [E2.lexOK, Bool.and_eq_true] at hl
    exact head_app _ (wrapI_head syn _ _ (items_head syn a hw.1.2 hl.1 (Or.inl hw.1.1.1)))
  | .prodN p k, hw, hl, _ => by
    simp only [E2.wf, Bool.and_eq_true] at hw
    simp only [E2.lexOK, Bool.and_eq_true] at hl
    exact head_app _ (items_head syn p hw.1.2 hl.1 (Or.inl (isS_of_isProd2 hw.1.1.1)))
  | .pow a, _, _, _ => head_app _ (fx_head syn _ (by simp [startFixedL]))
  | .one a, hw, hl, _ => by
    simp only [E2.wf, Bool.and_eq_true] at hw
    simp only [E2.lexOK] at hl
    exact items_head syn a hw.2 hl (Or.inl hw.1)
  | .more a l, hw, hl, _ => by
    simp only [E2.wf, Bool.and_eq_true] at hw
    simp only [E2.lexOK, Bool.and_eq_true] at hl
    exact head_app _ (items_head syn a hw.1.2 hl.1 (Or.inl hw.1.1.1))
  | .enum l, _, _, _ => head_app _ (fx_head syn _ (by simp [startFixedL]))
  | .tuple a l, _, _, _ => head_app _ (fx_head syn _ (by simp [startFixedL]))
  | .fcall d l, _, hl, _ => by
    simp only [E2.lexOK, Bool.and_eq_true] at hl
    exact head_app _ (leaf_head syn _ d hl.1)
  | .filter d ps arg, _, hl, _ => by
    simp only [E2.lexOK, Bool.and_eq_true] at hl
    exact head_app _ (name_head syn _ d hl.1.1)
  | .decl v dm b, _, _, _ => head_app _ (fx_head syn _ (by simp [startFixedL]))
  | .pred .., _, _, h | .neg _, _, _, h | .lbin .., _, _, h | .pcall .., _, _, h | .quant .., _, _, h => by
    simp [E2.isS, E2.isA] at h

theorem nextOK_free' (syn : Syn) (t : Tok) (ht : t ∈ freeL) (nx : Option Nat) : NextOK syn (firstU (fx syn t) nx) := by
  have := nextOK_free syn t ht [] nx
  simpa using this

theorem cl_chain (syn : Syn) (nx : Option Nat) (h : nx ≠ some 125) : ChainN syn (fx syn .PUNC_CL) nx := by
  have hb := (bracket_spell syn (mem_synL syn)).2.2.2.2
  refine fx_chain syn .PUNC_CL (by simp [fragFixed]) nx ?_
  simp only [Bool.or_eq_true, Bool.and_eq_true, beq_iff_eq] at hb
  rcases hb with hb | ⟨hs, hx⟩
  · simp [fixedNextOK, hb]
  · cases nx with
    | none => simp [fixedNextOK]
    | some c =>
      have : c ≠ 125 := fun e => h (by rw [e])
      simp [fixedNextOK, hs, hx, this]

theorem not_alnum_of_eq {syn : Syn} {c k : Nat} (h : c = k) (hk : isAlnum syn k = false) : isAlnum syn c = false := by
  rw [h]; exact hk

/-- **the printed items of a phrase are a chain**: every token is lexed as itself in its context -/
theorem items_chain (syn : Syn) : ∀ e : E2, e.wf = true → e.lexOK syn = true → ∀ nx, NextOK syn nx →
    ChainN syn (e.items syn) nx
  | .atom id d, _, hl, nx, hn => by simp only [E2.lexOK] at hl; exact leaf_chain syn id d hl nx hn
  | .text f d a, hw, hl, nx, hn => by
    simp only [E2.wf, Bool.and_eq_true] at hw
    simp only [E2.lexOK, Bool.and_eq_true] at hl
    have hsp := bracket_spell syn (mem_synL syn)
    refine chain_app ?_ (chain_app (fx_chain_free syn _ (by simp [freeL]) _)
      (chain_app (items_chain syn a hw.2 hl.2 _ (nextOK_free' syn _ (by simp [freeL]) nx)) (fx_chain_free syn _ (by simp [freeL]) nx)))
    rw [firstU_fx syn .PUNC_PL (by simp [fragFixed]) 40 [] hsp.1]
    exact name_chain syn f d hl.1 40 (by cases syn <;> rfl) (by decide)
  | .sbin op l r, hw, hl, nx, hn => by
    simp only [E2.wf, Bool.and_eq_true] at hw
    simp only [E2.lexOK, Bool.and_eq_true] at hl
    have hop := mem_freeL_set7 op hw.1.1.1.1
    exact chain_app (wrapI_chain syn _ _ _ (items_chain syn l hw.1.2 hl.1) (nextOK_free syn op hop _ nx))
      (chain_app (fx_chain_free syn op hop _) (wrapI_chain syn _ _ nx (items_chain syn r hw.2 hl.2) hn))
  | .prod2 a b, hw, hl, nx, hn => by
    simp only [E2.wf, Bool.and_eq_true] at hw
    simp only [E2.lexOK, Bool.and_eq_true] at hl
    have hop : Tok.DECART ∈ freeL := by simp [freeL]
    exact chain_app (wrapI_chain syn _ _ _ (items_chain syn a hw.1.2 hl.1) (nextOK_free syn _ hop _ nx))
      (chain_app (fx_chain_free syn _ hop _) (wrapI_chain syn _ _ nx (items_chain syn b hw.2 hl.2) hn))
  | .prodN p k, hw, hl, nx, hn => by
    simp only [E2.wf, Bool.and_eq_true] at hw
    simp only [E2.lexOK, Bool.and_eq_true] at hl
    have hop : Tok.DECART ∈ freeL := by simp [freeL]
    exact chain_app (items_chain syn p hw.1.2 hl.1 _ (nextOK_free syn _ hop _ nx))
      (chain_app (fx_chain_free syn _ hop _) (wrapI_chain syn _ _ nx (items_chain syn k hw.2 hl.2) hn))
  | .pred op l r, hw, hl, nx, hn => by
    simp only [E2.wf, Bool.and_eq_true] at hw
    simp only [E2.lexOK, Bool.and_eq_true] at hl
    have hop := mem_freeL_pred op hw.1.1.1.1
    exact chain_app (items_chain syn l hw.1.2 hl.1 _ (nextOK_free syn op hop _ nx))
      (chain_app (fx_chain_free syn op hop _) (items_chain syn r hw.2 hl.2 nx hn))
  | .neg x, hw, hl, nx, hn => by
    simp only [E2.wf, Bool.and_eq_true] at hw
    simp only [E2.lexOK] at hl
    exact chain_app (fx_chain_free syn _ (by simp [freeL]) _) (wrapI_chain syn _ _ nx (items_chain syn x hw.2 hl) hn)
  | .lbin op l r, hw, hl, nx, hn => by
    simp only [E2.wf, Bool.and_eq_true] at hw
    simp only [E2.lexOK, Bool.and_eq_true] at hl
    have hop := mem_freeL_logic op hw.1.1.1.1
    refine chain_app (wrapI_chain syn _ _ _ (items_chain syn l hw.1.2 hl.1) (nextOK_blank syn 0 _ nx)) ?_
    rw [chainN_blank]
    refine chain_app (fx_chain_free syn op hop _) ?_
    rw [chainN_blank]
    exact wrapI_chain syn _ _ nx (items_chain syn r hw.2 hl.2) hn
  | .pow a, hw, hl, nx, hn => by
    simp only [E2.wf, Bool.and_eq_true] at hw
    simp only [E2.lexOK] at hl
    have hsp := (bracket_spell syn (mem_synL syn)).2.2.2.1
    refine chain_app ?_ (wrapI_chain syn _ _ nx (items_chain syn a hw.2 hl) hn)
    refine fx_chain syn .BOOLEAN (by simp [fragFixed]) _ ?_
    cases hs : str syn .BOOLEAN with
    | nil => rw [hs] at hsp; simp at hsp
    | cons c r =>
      cases r with
      | cons c2 r2 => rw [hs] at hsp; simp at hsp
      | nil =>
        rw [hs] at hsp
        simp only [Bool.and_eq_true] at hsp
        cases hp : a.isPow with
        | false =>
          have : firstU (wrapI syn (!false) (a.items syn)) nx = some 40 := by
            have := nextOK_wrapI_true syn (a.items syn) [] nx
            simpa using this
          rw [this]; exact hsp.2
        | true =>
          have : firstU (wrapI syn (!true) (a.items syn)) nx = some c := by
            show firstU (a.items syn) nx = some c
            cases a <;> simp [E2.isPow] at hp
            exact firstU_fx syn .BOOLEAN (by simp [fragFixed]) c [] hs _ nx
          rw [this]; exact hsp.1
  | .one a, hw, hl, nx, hn => by
    simp only [E2.wf, Bool.and_eq_true] at hw
    simp only [E2.lexOK] at hl
    exact items_chain syn a hw.2 hl nx hn
  | .more a l, hw, hl, nx, hn => by
    simp only [E2.wf, Bool.and_eq_true] at hw
    simp only [E2.lexOK, Bool.and_eq_true] at hl
    have hop : Tok.PUNC_COMMA ∈ freeL := by simp [freeL]
    refine chain_app (items_chain syn a hw.1.2 hl.1 _ (nextOK_free syn _ hop _ nx)) (chain_app (fx_chain_free syn _ hop _) ?_)
    rw [chainN_blank]
    exact items_chain syn l hw.2 hl.2 nx hn
  | .enum l, hw, hl, nx, hn => by
    simp only [E2.wf, Bool.and_eq_true] at hw
    simp only [E2.lexOK] at hl
    refine chain_app (cl_chain syn _ ?_) (chain_app (items_chain syn l hw.2 hl _ (nextOK_free' syn _ (by simp [freeL]) nx))
      (fx_chain_free syn _ (by simp [freeL]) nx))
    obtain ⟨c, r, hcr, hc⟩ := items_head syn l hw.2 hl (Or.inr hw.1)
    rw [firstU_of_render hcr]
    intro e; cases e; exact hc rfl
  | .tuple a l, hw, hl, nx, hn => by
    simp only [E2.wf, Bool.and_eq_true] at hw
    simp only [E2.lexOK, Bool.and_eq_true] at hl
    have hop : Tok.PUNC_COMMA ∈ freeL := by simp [freeL]
    refine chain_app (fx_chain_free syn _ (by simp [freeL]) _)
      (chain_app (items_chain syn a hw.1.2 hl.1 _ (nextOK_free syn _ hop _ nx)) (chain_app (fx_chain_free syn _ hop _) ?_))
    rw [chainN_blank]
    exact chain_app (items_chain syn l hw.2 hl.2 _ (nextOK_free' syn _ (by simp [freeL]) nx))
      (fx_chain_free syn _ (by simp [freeL]) nx)
  | .fcall d l, hw, hl, nx, hn => by
    simp only [E2.wf, Bool.and_eq_true] at hw
    simp only [E2.lexOK, Bool.and_eq_true] at hl
    have hop : Tok.PUNC_SL ∈ freeL := by simp [freeL]
    exact chain_app (leaf_chain syn _ d hl.1 _ (nextOK_free syn _ hop _ nx)) (chain_app (fx_chain_free syn _ hop _)
      (chain_app (items_chain syn l hw.2 hl.2 _ (nextOK_free' syn _ (by simp [freeL]) nx))
        (fx_chain_free syn _ (by simp [freeL]) nx)))
  | .pcall d l, hw, hl, nx, hn => by
    simp only [E2.wf, Bool.and_eq_true] at hw
    simp only [E2.lexOK, Bool.and_eq_true] at hl
    have hop : Tok.PUNC_SL ∈ freeL := by simp [freeL]
    exact chain_app (leaf_chain syn _ d hl.1 _ (nextOK_free syn _ hop _ nx)) (chain_app (fx_chain_free syn _ hop _)
      (chain_app (items_chain syn l hw.2 hl.2 _ (nextOK_free' syn _ (by simp [freeL]) nx))
        (fx_chain_free syn _ (by simp [freeL]) nx)))
  | .filter d ps arg, hw, hl, nx, hn => by
    simp only [E2.wf, Bool.and_eq_true] at hw
    simp only [E2.lexOK, Bool.and_eq_true] at hl
    have hsp := bracket_spell syn (mem_synL syn)
    refine chain_app ?_ (chain_app (fx_chain_free syn _ (by simp [freeL]) _)
      (chain_app (items_chain syn ps hw.1.2 hl.1.2 _ (nextOK_free syn _ (by simp [freeL]) _ nx))
        (chain_app (fx_chain_free syn _ (by simp [freeL]) _) (chain_app (fx_chain_free syn _ (by simp [freeL]) _)
          (chain_app (items_chain syn arg hw.2 hl.2 _ (nextOK_free' syn _ (by simp [freeL]) nx))
            (fx_chain_free syn _ (by simp [freeL]) nx))))))
    rw [firstU_fx syn .PUNC_SL (by simp [fragFixed]) 91 [] hsp.2.1]
    exact name_chain syn _ d hl.1.1 91 (by cases syn <;> rfl) (by decide)
  | .quant q vs dm b, hw, hl, nx, hn => by
    simp only [E2.wf, Bool.and_eq_true] at hw
    simp only [E2.lexOK, Bool.and_eq_true] at hl
    have hq := mem_freeL_quant q hw.1.1.1.1.1.1.1
    have hin : Tok.IN ∈ freeL := by simp [freeL]
    refine chain_app (fx_chain_free syn q hq _) (chain_app (items_chain syn vs hw.1.1.2 hl.1.1 _ (nextOK_free syn _ hin _ nx))
      (chain_app (fx_chain_free syn _ hin _) (chain_app (items_chain syn dm hw.1.2 hl.1.2 _ (nextOK_blank syn 0 _ nx)) ?_)))
    rw [chainN_blank]
    exact wrapI_chain syn _ _ nx (items_chain syn b hw.2 hl.2) hn
  | .decl v dm b, hw, hl, nx, hn => by
    simp only [E2.wf, Bool.and_eq_true] at hw
    simp only [E2.lexOK, Bool.and_eq_true] at hl
    have hsp := bracket_spell syn (mem_synL syn)
    have hin : Tok.IN ∈ freeL := by simp [freeL]
    have hbar : Tok.PUNC_BAR ∈ freeL := by simp [freeL]
    have hcr : Tok.PUNC_CR ∈ freeL := by simp [freeL]
    obtain ⟨c, r, hcr', hc⟩ := items_head syn v hw.1.1.2 hl.1.1 (Or.inl hw.1.1.1.1.1.1)
    refine chain_app ?_ (chain_app (cl_chain syn _ ?_) (chain_app (items_chain syn v hw.1.1.2 hl.1.1 _ (nextOK_free syn _ hin _ nx))
      (chain_app (fx_chain_free syn _ hin _) (chain_app (items_chain syn dm hw.1.2 hl.1.2 _ (nextOK_blank syn 0 _ nx)) ?_))))
    · refine fx_chain_word syn _ (by simp [wordL]) _ ?_
      rw [firstU_fx syn .PUNC_CL (by simp [fragFixed]) 123 [] hsp.2.2.1]
      intro c' h'; cases h'; cases syn <;> rfl
    · rw [firstU_of_render hcr']
      intro e; cases e; exact hc rfl
    · rw [chainN_blank]
      refine chain_app (fx_chain_free syn _ hbar _) ?_
      rw [chainN_blank]
      exact chain_app (items_chain syn b hw.2 hl.2 _ (nextOK_free' syn _ hcr nx)) (fx_chain_free syn _ hcr nx)

/-! ## the printer model produces the items -/

def paren (b : Bool) (t : List Nat) : List Nat := if b then 40 :: (t ++ [41]) else t

/-- (generated tables) punctuation is spelled the way `GeneratorImplAST` writes it literally -/
theorem punct_spell : ∀ syn ∈ synL, str syn .PUNC_PL = [40] ∧ str syn .PUNC_PR = [41] ∧ str syn .PUNC_SL = [91] ∧
    str syn .PUNC_SR = [93] ∧ str syn .PUNC_CL = [123] ∧ str syn .PUNC_CR = [125] ∧ str syn .PUNC_COMMA = [44] ∧
    str syn .PUNC_BAR = [124] := by
  decide +kernel

theorem render_wrapI (syn : Syn) (b : Bool) (is : List Item) : render (wrapI syn b is) = paren b (render is) := by
  have h := punct_spell syn (mem_synL syn)
  cases b
  · rfl
  · simp only [wrapI, paren, if_true, render_append, render_fx syn .PUNC_PL (by simp [fragFixed]),
      render_fx syn .PUNC_PR (by simp [fragFixed]), h.1, h.2.1]
    simp

theorem render_blank1 (R : List Item) : render (.blank 1 :: R) = 32 :: render R := by
  rw [render_cons]; rfl

theorem render_tok1 (w : List Nat) (id : Tok) (d : TokData) : render [.tok w id d] = w := by
  simp [render, Item.text]

theorem print_node (syn : Syn) (a : Ast) :
    print syn a = assemble syn a.id a.data (kidIds a.kids) (printKids syn a.kids) := by
  cases a; rw [print]; rfl

theorem kidIds_cons (a : Ast) (ks : List Ast) : kidIds (a :: ks) = a.id :: kidIds ks := by
  cases a; rw [kidIds]; rfl

theorem kidIds_nil : kidIds [] = [] := by rw [kidIds]

theorem printKids_cons (syn : Syn) (k : Ast) (ks : List Ast) : printKids syn (k :: ks) = print syn k :: printKids syn ks := by
  rw [printKids]

theorem printKids_nil (syn : Syn) : printKids syn [] = [] := by rw [printKids]

theorem kidIds_length : ∀ ks : List Ast, (kidIds ks).length = ks.length
  | [] => by rw [kidIds_nil]; rfl
  | k :: ks => by rw [kidIds_cons, List.length_cons, List.length_cons, kidIds_length ks]

theorem printKids_length (syn : Syn) : ∀ ks : List Ast, (printKids syn ks).length = ks.length
  | [] => by rw [printKids_nil]; rfl
  | k :: ks => by rw [printKids_cons, List.length_cons, List.length_cons, printKids_length syn ks]

theorem printKids_append (syn : Syn) : ∀ xs ys : List Ast, printKids syn (xs ++ ys) = printKids syn xs ++ printKids syn ys
  | [], ys => by rw [printKids_nil]; rfl
  | x :: xs, ys => by rw [List.cons_append, printKids_cons, printKids_cons, printKids_append syn xs ys]; rfl

theorem kidIds_append : ∀ xs ys : List Ast, kidIds (xs ++ ys) = kidIds xs ++ kidIds ys
  | [], ys => by rw [kidIds_nil]; rfl
  | x :: xs, ys => by rw [List.cons_append, kidIds_cons, kidIds_cons, kidIds_append xs ys]; rfl

theorem ast_id2 (e : E2) : e.ast.id = e.top := by cases e <;> rfl

theorem sequence_some : ∀ ts : List (List Nat), sequence (ts.map some) = some ts
  | [] => rfl
  | t :: ts => by simp only [List.map_cons, sequence, sequence_some ts]

theorem sequence_snoc (xs : List (Option (List Nat))) (ys : List (List Nat)) (t : List Nat)
    (h : sequence xs = some ys) : sequence (xs ++ [some t]) = some (ys ++ [t]) := by
  induction xs generalizing ys with
  | nil => simp only [sequence] at h; cases h; rfl
  | cons x xs ih =>
    cases x with
    | none => simp [sequence] at h
    | some x =>
      simp only [sequence] at h
      cases hs : sequence xs with
      | none => rw [hs] at h; cases h
      | some zs =>
        rw [hs] at h; cases h
        simp only [List.cons_append, sequence, ih zs hs]

theorem joinSep_cons2 (sep x y : List Nat) (r : List (List Nat)) :
    joinSep sep (x :: y :: r) = x ++ sep ++ joinSep sep (y :: r) := rfl

theorem joinSep_snoc (sep : List Nat) : ∀ (xs : List (List Nat)) (y : List Nat), xs ≠ [] →
    joinSep sep (xs ++ [y]) = joinSep sep xs ++ sep ++ y
  | [], _, h => absurd rfl h
  | [x], y, _ => by simp [joinSep]
  | x :: x2 :: r, y, _ => by
    have := joinSep_snoc sep (x2 :: r) y (by simp)
    simp only [List.cons_append, joinSep_cons2] at this ⊢
    rw [this]; simp

/-! ### `assemble` on each node kind -/

theorem assemble_text (syn : Syn) (f : Tok) (d : TokData) (c : Tok) (t : List Nat) (h : isTextFn f = true) :
    assemble syn f d [c] [some t] = (tokToString syn f d).bind fun me => some (me ++ (40 :: (t ++ [41]))) := by
  cases f <;> first | rfl | (exact absurd h (by decide))

theorem assemble_set7 (syn : Syn) (op l r : Tok) (tl tr : List Nat) (h : isSetOp7 op = true) :
    assemble syn op .none [l, r] [some tl, some tr] =
      some (paren (brSet op l .left) tl ++ str syn op ++ paren (brSet op r .right) tr) := by
  cases op <;> first | rfl | (exact absurd h (by decide))

theorem assemble_pred (syn : Syn) (op l r : Tok) (tl tr : List Nat) (h : isPredOp op = true) :
    assemble syn op .none [l, r] [some tl, some tr] = some (tl ++ str syn op ++ tr) := by
  cases op <;> first | rfl | (exact absurd h (by decide))

theorem assemble_logic (syn : Syn) (op l r : Tok) (tl tr : List Nat) (h : isLogicOp op = true) :
    assemble syn op .none [l, r] [some tl, some tr] =
      some (paren (brLogic op l .left) tl ++ [32] ++ str syn op ++ [32] ++ paren (brLogic op r .right) tr) := by
  cases op <;> first | rfl | (exact absurd h (by decide))

theorem assemble_not (syn : Syn) (c : Tok) (t : List Nat) :
    assemble syn .NOT .none [c] [some t] = some (str syn .NOT ++ paren (brNot c) t) := rfl

theorem assemble_boolean (syn : Syn) (c : Tok) (t : List Nat) :
    assemble syn .BOOLEAN .none [c] [some t] = some (str syn .BOOLEAN ++ paren (c != .BOOLEAN) t) := rfl

theorem assemble_enum (syn : Syn) (ids : List Tok) (ps : List (Option (List Nat))) :
    assemble syn .NT_ENUMERATION .none ids ps =
      (sequence ps).bind fun ks => some (123 :: (joinSep commaSp ks ++ [125])) := rfl

theorem assemble_enumdecl (syn : Syn) (ids : List Tok) (ps : List (Option (List Nat))) :
    assemble syn .NT_ENUM_DECL .none ids ps = (sequence ps).bind fun ks => some (joinSep commaSp ks) := rfl

theorem assemble_tuple (syn : Syn) (id : Tok) (hid : id = .NT_TUPLE ∨ id = .NT_TUPLE_DECL) (ids : List Tok)
    (ps : List (Option (List Nat))) (h : ids.length > 1) :
    assemble syn id .none ids ps = (sequence ps).bind fun ks => some (40 :: (joinSep commaSp ks ++ [41])) := by
  rcases hid with rfl | rfl <;> (simp only [assemble, h, if_true]; rfl)

theorem assemble_call (syn : Syn) (ids : List Tok) (f : List Nat) (ps : List (Option (List Nat))) (h : ids.length > 1) :
    assemble syn .NT_FUNC_CALL .none ids (some f :: ps) =
      (sequence ps).bind fun args => some (f ++ [91] ++ joinSep commaSp args ++ [93]) := by
  simp only [assemble, h, if_true]; rfl

theorem assemble_filter (syn : Syn) (d : TokData) (ids : List Tok) (ps : List (Option (List Nat))) (h : ids.length > 1) :
    assemble syn .FILTER d ids ps =
      (tokToString syn .FILTER d).bind fun me => (sequence (ps.take (ids.length - 1))).bind fun params =>
        (kidAt ps (ids.length - 1)).bind fun arg =>
          some (me ++ [91] ++ joinSep commaSp params ++ [93, 40] ++ arg ++ [41]) := by
  simp only [assemble, h, if_true]; rfl

theorem assemble_quant (syn : Syn) (q v d b : Tok) (tv td tb : List Nat) (h : q = .FORALL ∨ q = .EXISTS) :
    assemble syn q .none [v, d, b] [some tv, some td, some tb] =
      some (str syn q ++ tv ++ str syn .IN ++ td ++ [32] ++ paren (brQ q b) tb) := by
  rcases h with rfl | rfl <;> rfl

theorem assemble_decl (syn : Syn) (v d b : Tok) (tv td tb : List Nat) :
    assemble syn .NT_DECLARATIVE_EXPR .none [v, d, b] [some tv, some td, some tb] =
      some (str syn .DECLARATIVE ++ [123] ++ tv ++ str syn .IN ++ td ++ barSp ++ tb ++ [125]) := rfl

/-- the factors of a product as `ViDecart` prints them -/
def decartKids (ids : List Tok) (ps : List (Option (List Nat))) : Option (List (List Nat)) :=
  sequence ((List.range ids.length).map fun i =>
    match ids[i]? with
    | some c =>
      let order := compareOps .DECART c
      kidAt ps i (c == .DECART || order == .greater || (i > 0 && order == .equal))
    | none => none)

theorem assemble_decart (syn : Syn) (ids : List Tok) (ps : List (Option (List Nat))) (h : ids.length > 1) :
    assemble syn .DECART .none ids ps = (decartKids ids ps).bind fun ks => some (joinSep (str syn .DECART) ks) := by
  simp only [assemble, h, if_true]; rfl

theorem kidAt_append_left (ps qs : List (Option (List Nat))) (i : Nat) (b : Bool) (h : i < ps.length) :
    kidAt (ps ++ qs) i b = kidAt ps i b := by
  unfold kidAt; rw [List.getElem?_append_left h]

theorem kidAt_append_right (ps : List (Option (List Nat))) (t : List Nat) (b : Bool) :
    kidAt (ps ++ [some t]) ps.length b = some (paren b t) := by
  unfold kidAt; rw [List.getElem?_append_right (Nat.le_refl _)]; simp [paren]

theorem decartKids_two (c1 c2 : Tok) (t1 t2 : List Nat) :
    decartKids [c1, c2] [some t1, some t2] = some [paren (brProd true c1) t1, paren (brProd false c2) t2] := by
  simp [decartKids, List.range_succ, sequence, kidAt, paren, brProd]

theorem decartKids_snoc (ids : List Tok) (ps : List (Option (List Nat))) (c : Tok) (t : List Nat) (ks : List (List Nat))
    (hl : ids.length = ps.length) (hpos : 0 < ids.length) (h : decartKids ids ps = some ks) :
    decartKids (ids ++ [c]) (ps ++ [some t]) = some (ks ++ [paren (brProd false c) t]) := by
  unfold decartKids at h ⊢
  rw [List.length_append, List.length_singleton, List.range_succ, List.map_append, List.map_singleton]
  have hlast : (match (ids ++ [c])[ids.length]? with
      | some c' =>
        let order := compareOps .DECART c'
        kidAt (ps ++ [some t]) ids.length (c' == .DECART || order == .greater || (decide (ids.length > 0) && order == .equal))
      | none => none) = some (paren (brProd false c) t) := by
    rw [List.getElem?_append_right (Nat.le_refl _)]
    simp only [Nat.sub_self, List.getElem?_cons_zero]
    rw [hl, kidAt_append_right]
    have : decide (ps.length > 0) = true := by rw [← hl]; simpa using hpos
    simp [brProd, this]
  rw [hlast]
  refine sequence_snoc _ _ _ ?_
  rw [← h]
  congr 1
  apply List.map_congr_left
  intro i hi
  rw [List.mem_range] at hi
  rw [List.getElem?_append_left hi]
  cases ids[i]? with
  | none => rfl
  | some c' => simp only []; rw [kidAt_append_left _ _ _ _ (by omega)]

/-! ### leaves -/

theorem convertCp_ascii (c : Nat) (h : isAlnum .ascii c = true) : convertCp c = [c] := by
  have : c < 0x80 := by
    simp [isAlnum, isDigit, isAlpha, isUpper, isLower] at h
    omega
  simp [convertCp, this]

theorem convertID_ascii : ∀ w : List Nat, w.all (isAlnum .ascii) = true → convertID .ascii w = w
  | [], _ => rfl
  | c :: w, h => by
    simp only [List.all_cons, Bool.and_eq_true] at h
    have ih := convertID_ascii w h.2
    simp only [convertID, List.flatMap_cons, convertCp_ascii c h.1] at ih ⊢
    rw [ih]; rfl

theorem leaf_print (syn : Syn) (id : Tok) (d : TokData) (h : leafOK syn id d = true) :
    assemble syn id d [] [] = some (render (leafItems syn id d)) := by
  cases d with
  | int n =>
    have hid : id = .LIT_INTEGER := by cases id <;> simp [leafOK] at h <;> rfl
    subst hid
    show some (decInt n) = _
    rw [leafItems, render_tok1]
  | text s =>
    have hok : idOK syn id s = true := by cases id <;> simp [leafOK] at h <;> exact h
    simp only [idOK, Bool.and_eq_true, decide_eq_true_eq, Bool.not_eq_true', List.isEmpty_eq_false_iff] at hok
    have hid : id = .ID_LOCAL ∨ id = .ID_GLOBAL ∨ id = .ID_FUNCTION ∨ id = .ID_PREDICATE ∨ id = .ID_RADICAL := by
      cases id <;> simp [leafOK] at h <;> simp
    rw [leafItems, render_tok1]
    rcases hid with rfl | rfl | rfl | rfl | rfl
    · show some (convertID syn (stringUnits s)) = _
      cases syn
      · rfl
      · rw [convertID_ascii _ hok.1.2]
    all_goals rfl
  | none =>
    have hid : id = .LIT_INTSET ∨ id = .LIT_EMPTYSET := by cases id <;> simp [leafOK] at h <;> simp
    rcases hid with rfl | rfl
    · show some (str syn .LIT_INTSET) = some (render (fx syn .LIT_INTSET))
      rw [render_fx syn _ (by simp [fragFixed])]
    · show some (str syn .LIT_EMPTYSET) = some (render (fx syn .LIT_EMPTYSET))
      rw [render_fx syn _ (by simp [fragFixed])]
  | tuple idx => cases id <;> simp [leafOK] at h

theorem name_print (syn : Syn) (f : Tok) (d : TokData) (h : nameOK f d = true) :
    tokToString syn f d = some (render (nameItems syn f d)) := by
  cases d with
  | tuple idx =>
    simp only [nameOK, Bool.and_eq_true, Bool.or_eq_true] at h
    have hf : f = .BIGPR ∨ f = .SMALLPR ∨ f = .FILTER := by
      have := h.1; cases f <;> first | exact Or.inl rfl | exact Or.inr (Or.inl rfl) | exact Or.inr (Or.inr rfl) | (exact absurd this (by decide))
    rw [tokToString_index syn f hf idx (idxOK_of_b h.2).1, nameItems, render_tok1]
  | none =>
    have hf : f = .BOOL ∨ f = .DEBOOL ∨ f = .REDUCE ∨ f = .CARD := by
      simp only [nameOK, Bool.or_eq_true] at h
      cases f <;> first | exact Or.inl rfl | exact Or.inr (Or.inl rfl) | exact Or.inr (Or.inr (Or.inl rfl)) | exact Or.inr (Or.inr (Or.inr rfl)) | (exact absurd h (by decide))
    rcases hf with rfl | rfl | rfl | rfl
    · show some (str syn .BOOL) = some (render (fx syn .BOOL)); rw [render_fx syn _ (by simp [fragFixed])]
    · show some (str syn .DEBOOL) = some (render (fx syn .DEBOOL)); rw [render_fx syn _ (by simp [fragFixed])]
    · show some (str syn .REDUCE) = some (render (fx syn .REDUCE)); rw [render_fx syn _ (by simp [fragFixed])]
    · show some (str syn .CARD) = some (render (fx syn .CARD)); rw [render_fx syn _ (by simp [fragFixed])]
  | int n => simp [nameOK] at h
  | text s => simp [nameOK] at h

theorem mem_fragFixed_of_free {t : Tok} (ht : t ∈ freeL) : t ∈ fragFixed :=
  mem_of_memb (free_table .math (by simp [synL]) t ht).2.1

/-- under well-formedness only `ℬ` itself has the root `ℬ` -/
theorem top_boolean : ∀ a : E2, a.wf = true → (a.top != .BOOLEAN) = !a.isPow
  | .atom id d, hw => by
    simp only [E2.wf] at hw
    show (id != .BOOLEAN) = true
    cases id <;> first | rfl | (exact absurd hw (by decide))
  | .text f d a, hw => by
    simp only [E2.wf, Bool.and_eq_true] at hw
    have := hw.1.1
    show (f != .BOOLEAN) = true
    cases f <;> first | rfl | (exact absurd this (by decide))
  | .sbin op l r, hw => by
    simp only [E2.wf, Bool.and_eq_true] at hw
    have := hw.1.1.1.1
    show (op != .BOOLEAN) = true
    cases op <;> first | rfl | (exact absurd this (by decide))
  | .pred op l r, hw => by
    simp only [E2.wf, Bool.and_eq_true] at hw
    have := hw.1.1.1.1
    show (op != .BOOLEAN) = true
    cases op <;> first | rfl | (exact absurd this (by decide))
  | .lbin op l r, hw => by
    simp only [E2.wf, Bool.and_eq_true] at hw
    have := hw.1.1.1.1
    show (op != .BOOLEAN) = true
    cases op <;> first | rfl | (exact absurd this (by decide))
  | .quant q vs dm b, hw => by
    simp only [E2.wf, Bool.and_eq_true] at hw
    have := hw.1.1.1.1.1.1.1
    show (q != .BOOLEAN) = true
    cases q <;> first | rfl | (exact absurd this (by decide))
  | .prod2 .., _ | .prodN .., _ | .neg _, _ | .pow _, _ | .one _, _ | .more .., _ | .enum _, _ | .tuple .., _
  | .fcall .., _ | .pcall .., _ | .filter .., _ | .decl .., _ => rfl

/-! ### texts of lists and products -/

def E2.texts (syn : Syn) : E2 → List (List Nat)
  | .one a => [render (a.items syn)]
  | .more a l => render (a.items syn) :: l.texts syn
  | _ => []

def E2.ptexts (syn : Syn) : E2 → List (List Nat)
  | .prod2 a b => [paren (brProd true a.top) (render (a.items syn)), paren (brProd false b.top) (render (b.items syn))]
  | .prodN p k => p.ptexts syn ++ [paren (brProd false k.top) (render (k.items syn))]
  | _ => []

theorem texts_ne {syn : Syn} {l : E2} (h : l.isA = true) : ∃ x xs, l.texts syn = x :: xs := by
  cases l <;> simp [E2.isA] at h
  · exact ⟨_, _, rfl⟩
  · exact ⟨_, _, rfl⟩

/-- what is proved about the printed text of a phrase, by category -/
structure PClaim (syn : Syn) (e : E2) : Prop where
  ph : (e.isS = true ∨ e.isL = true) → print syn e.ast = some (render (e.items syn))
  li : e.isA = true → printKids syn e.ast.kids = (e.texts syn).map some ∧
    joinSep commaSp (e.texts syn) = render (e.items syn)
  pr : e.isProd = true → decartKids (kidIds e.ast.kids) (printKids syn e.ast.kids) = some (e.ptexts syn) ∧
    (kidIds e.ast.kids).length = (printKids syn e.ast.kids).length ∧ 2 ≤ (kidIds e.ast.kids).length ∧
    joinSep (str syn .DECART) (e.ptexts syn) = render (e.items syn) ∧ e.ptexts syn ≠ []
  vs : e.isVar = true → e.isS = true → print syn e.dast = some (render (e.items syn))
  vl : e.isVar = true → e.isA = true → printKids syn e.dast.kids = (e.texts syn).map some

/-- a phrase that is neither a list, a product nor a variable -/
theorem PClaim.ofPhrase {syn : Syn} {e : E2} (hA : e.isA = false) (hP : e.isProd = false) (hV : e.isVar = false)
    (h : print syn e.ast = some (render (e.items syn))) : PClaim syn e :=
  ⟨fun _ => h, fun h' => ff hA h', fun h' => ff hP h', fun h' => ff hV h', fun h' => ff hV h'⟩

theorem list_kids_pos {l : E2} (h : l.isA = true) : 1 ≤ l.ast.kids.length ∧ 1 ≤ l.dast.kids.length := by
  cases l <;> simp [E2.isA] at h <;> simp [E2.ast, E2.dast, Ast.kids]

theorem map_some_length {α : Type} (l : List α) : (l.map some).length = l.length := by simp

/-- **the printer model prints the items** (all categories) -/
theorem pclaim (syn : Syn) : ∀ e : E2, e.wf = true → e.lexOK syn = true → PClaim syn e
  | .atom id d, _, hl => by
    simp only [E2.lexOK] at hl
    have h : print syn (E2.atom id d).ast = some (render ((E2.atom id d).items syn)) := by
      show print syn (.node id d 0 0 []) = _
      rw [print, kidIds_nil, printKids_nil]; exact leaf_print syn id d hl
    exact ⟨fun _ => h, fun h' => ff rfl h', fun h' => ff rfl h', fun _ _ => h, fun _ h' => ff rfl h'⟩
  | .text f d a, hw, hl => by
    simp only [E2.wf, Bool.and_eq_true] at hw
    simp only [E2.lexOK, Bool.and_eq_true] at hl
    have ha := (pclaim syn a hw.2 hl.2).ph (Or.inl hw.1.2)
    have hp := punct_spell syn (mem_synL syn)
    refine PClaim.ofPhrase rfl rfl rfl ?_
    show print syn (.node f d 0 0 [a.ast]) = _
    rw [print, kidIds_cons, kidIds_nil, printKids_cons, printKids_nil, ha, assemble_text syn f d _ _ hw.1.1,
      name_print syn f d hl.1]
    simp [E2.items, render_append, render_fx syn .PUNC_PL (by simp [fragFixed]),
      render_fx syn .PUNC_PR (by simp [fragFixed]), hp.1, hp.2.1]
  | .sbin op l r, hw, hl => by
    simp only [E2.wf, Bool.and_eq_true] at hw
    simp only [E2.lexOK, Bool.and_eq_true] at hl
    have hpl := (pclaim syn l hw.1.2 hl.1).ph (Or.inl hw.1.1.1.2)
    have hpr := (pclaim syn r hw.2 hl.2).ph (Or.inl hw.1.1.2)
    refine PClaim.ofPhrase rfl rfl rfl ?_
    show print syn (.node op .none 0 0 [l.ast, r.ast]) = _
    rw [print, kidIds_cons, kidIds_cons, kidIds_nil, printKids_cons, printKids_cons, printKids_nil, hpl, hpr, ast_id2,
      ast_id2, assemble_set7 syn op _ _ _ _ hw.1.1.1.1]
    simp [E2.items, render_append, render_wrapI, render_fx syn op (mem_fragFixed_of_free (mem_freeL_set7 op hw.1.1.1.1))]
  | .prod2 a b, hw, hl => by
    simp only [E2.wf, Bool.and_eq_true] at hw
    simp only [E2.lexOK, Bool.and_eq_true] at hl
    have hpa := (pclaim syn a hw.1.2 hl.1).ph (Or.inl hw.1.1.1)
    have hpb := (pclaim syn b hw.2 hl.2).ph (Or.inl hw.1.1.2)
    have hids : kidIds (E2.prod2 a b).ast.kids = [a.top, b.top] := by
      show kidIds [a.ast, b.ast] = _
      rw [kidIds_cons, kidIds_cons, kidIds_nil, ast_id2, ast_id2]
    have hps : printKids syn (E2.prod2 a b).ast.kids = [some (render (a.items syn)), some (render (b.items syn))] := by
      show printKids syn [a.ast, b.ast] = _
      rw [printKids_cons, printKids_cons, printKids_nil, hpa, hpb]
    have hk : decartKids (kidIds (E2.prod2 a b).ast.kids) (printKids syn (E2.prod2 a b).ast.kids) =
        some ((E2.prod2 a b).ptexts syn) := by rw [hids, hps, decartKids_two]; rfl
    have hr : joinSep (str syn .DECART) ((E2.prod2 a b).ptexts syn) = render ((E2.prod2 a b).items syn) := by
      simp [E2.ptexts, E2.items, joinSep, render_append, render_wrapI, render_fx syn .DECART (by simp [fragFixed])]
    have hprint : print syn (E2.prod2 a b).ast = some (render ((E2.prod2 a b).items syn)) := by
      show print syn (.node .DECART .none 0 0 (E2.prod2 a b).ast.kids) = _
      rw [print, assemble_decart syn _ _ (by rw [hids]; simp), hk, ← hr]; rfl
    exact ⟨fun _ => hprint, fun h' => ff rfl h',
      fun _ => ⟨hk, by rw [hids, hps]; rfl, by rw [hids]; simp, hr, by simp [E2.ptexts]⟩,
      fun h' => ff rfl h', fun h' => ff rfl h'⟩
  | .prodN p k, hw, hl => by
    simp only [E2.wf, Bool.and_eq_true] at hw
    simp only [E2.lexOK, Bool.and_eq_true] at hl
    obtain ⟨hkp, hlen, h2, hrp, hne⟩ := (pclaim syn p hw.1.2 hl.1).pr hw.1.1.1
    have hpk := (pclaim syn k hw.2 hl.2).ph (Or.inl hw.1.1.2)
    have hids : kidIds (E2.prodN p k).ast.kids = kidIds p.ast.kids ++ [k.top] := by
      show kidIds (p.ast.kids ++ [k.ast]) = _
      rw [kidIds_append, kidIds_cons, kidIds_nil, ast_id2]
    have hps : printKids syn (E2.prodN p k).ast.kids = printKids syn p.ast.kids ++ [some (render (k.items syn))] := by
      show printKids syn (p.ast.kids ++ [k.ast]) = _
      rw [printKids_append, printKids_cons, printKids_nil, hpk]
    have hk : decartKids (kidIds (E2.prodN p k).ast.kids) (printKids syn (E2.prodN p k).ast.kids) =
        some ((E2.prodN p k).ptexts syn) := by
      rw [hids, hps, decartKids_snoc _ _ _ _ _ hlen (by omega) hkp]; rfl
    have hr : joinSep (str syn .DECART) ((E2.prodN p k).ptexts syn) = render ((E2.prodN p k).items syn) := by
      show joinSep _ (p.ptexts syn ++ [_]) = _
      rw [joinSep_snoc _ _ _ hne, hrp]
      simp [E2.items, render_append, render_wrapI, render_fx syn .DECART (by simp [fragFixed])]
    have hlen2 : (kidIds (E2.prodN p k).ast.kids).length = (printKids syn (E2.prodN p k).ast.kids).length := by
      rw [hids, hps, List.length_append, List.length_append, hlen]; rfl
    have h22 : 2 ≤ (kidIds (E2.prodN p k).ast.kids).length := by rw [hids, List.length_append]; omega
    have hprint : print syn (E2.prodN p k).ast = some (render ((E2.prodN p k).items syn)) := by
      show print syn (.node .DECART .none 0 0 (E2.prodN p k).ast.kids) = _
      rw [print, assemble_decart syn _ _ (by omega), hk, ← hr]; rfl
    exact ⟨fun _ => hprint, fun h' => ff rfl h', fun _ => ⟨hk, hlen2, h22, hr, by simp [E2.ptexts]⟩,
      fun h' => ff rfl h', fun h' => ff rfl h'⟩
  | .pred op l r, hw, hl => by
    simp only [E2.wf, Bool.and_eq_true] at hw
    simp only [E2.lexOK, Bool.and_eq_true] at hl
    have hpl := (pclaim syn l hw.1.2 hl.1).ph (Or.inl hw.1.1.1.2)
    have hpr := (pclaim syn r hw.2 hl.2).ph (Or.inl hw.1.1.2)
    refine PClaim.ofPhrase rfl rfl rfl ?_
    show print syn (.node op .none 0 0 [l.ast, r.ast]) = _
    rw [print, kidIds_cons, kidIds_cons, kidIds_nil, printKids_cons, printKids_cons, printKids_nil, hpl, hpr,
      assemble_pred syn op _ _ _ _ hw.1.1.1.1]
    simp [E2.items, render_append, render_fx syn op (mem_fragFixed_of_free (mem_freeL_pred op hw.1.1.1.1))]
  | .neg x, hw, hl => by
    simp only [E2.wf, Bool.and_eq_true] at hw
    simp only [E2.lexOK] at hl
    have hpx := (pclaim syn x hw.2 hl).ph (Or.inr hw.1)
    refine PClaim.ofPhrase rfl rfl rfl ?_
    show print syn (.node .NOT .none 0 0 [x.ast]) = _
    rw [print, kidIds_cons, kidIds_nil, printKids_cons, printKids_nil, hpx, ast_id2, assemble_not]
    simp [E2.items, render_append, render_wrapI, render_fx syn .NOT (by simp [fragFixed])]
  | .lbin op l r, hw, hl => by
    simp only [E2.wf, Bool.and_eq_true] at hw
    simp only [E2.lexOK, Bool.and_eq_true] at hl
    have hpl := (pclaim syn l hw.1.2 hl.1).ph (Or.inr hw.1.1.1.2)
    have hpr := (pclaim syn r hw.2 hl.2).ph (Or.inr hw.1.1.2)
    refine PClaim.ofPhrase rfl rfl rfl ?_
    show print syn (.node op .none 0 0 [l.ast, r.ast]) = _
    rw [print, kidIds_cons, kidIds_cons, kidIds_nil, printKids_cons, printKids_cons, printKids_nil, hpl, hpr, ast_id2,
      ast_id2, assemble_logic syn op _ _ _ _ hw.1.1.1.1]
    simp [E2.items, render_append, render_wrapI, render_blank1,
      render_fx syn op (mem_fragFixed_of_free (mem_freeL_logic op hw.1.1.1.1))]
  | .pow a, hw, hl => by
    simp only [E2.wf, Bool.and_eq_true] at hw
    simp only [E2.lexOK] at hl
    have hpa := (pclaim syn a hw.2 hl).ph (Or.inl hw.1)
    refine PClaim.ofPhrase rfl rfl rfl ?_
    show print syn (.node .BOOLEAN .none 0 0 [a.ast]) = _
    rw [print, kidIds_cons, kidIds_nil, printKids_cons, printKids_nil, hpa, ast_id2, assemble_boolean,
      top_boolean a hw.2]
    simp [E2.items, render_append, render_wrapI, render_fx syn .BOOLEAN (by simp [fragFixed])]
  | .one a, hw, hl => by
    simp only [E2.wf, Bool.and_eq_true] at hw
    simp only [E2.lexOK] at hl
    have ca := pclaim syn a hw.2 hl
    refine ⟨fun h' => by simp [E2.isS, E2.isL] at h', fun _ => ⟨?_, rfl⟩, fun h' => ff rfl h',
      fun _ h' => ff rfl h', fun hv _ => ?_⟩
    · show printKids syn [a.ast] = _
      rw [printKids_cons, printKids_nil, ca.ph (Or.inl hw.1)]; rfl
    · show printKids syn [a.dast] = _
      rw [printKids_cons, printKids_nil, ca.vs hv hw.1]; rfl
  | .more a l, hw, hl => by
    simp only [E2.wf, Bool.and_eq_true] at hw
    simp only [E2.lexOK, Bool.and_eq_true] at hl
    have ca := pclaim syn a hw.1.2 hl.1
    have cl := pclaim syn l hw.2 hl.2
    have hp := punct_spell syn (mem_synL syn)
    obtain ⟨hlk, hlj⟩ := cl.li hw.1.1.2
    obtain ⟨x, xs, hx⟩ := texts_ne (syn := syn) hw.1.1.2
    refine ⟨fun h' => by simp [E2.isS, E2.isL] at h', fun _ => ⟨?_, ?_⟩, fun h' => ff rfl h',
      fun _ h' => ff rfl h', fun hv _ => ?_⟩
    · show printKids syn (a.ast :: l.ast.kids) = _
      rw [printKids_cons, ca.ph (Or.inl hw.1.1.1), hlk]; rfl
    · show joinSep commaSp (render (a.items syn) :: l.texts syn) = _
      rw [hx, joinSep_cons2, ← hx, hlj]
      simp [E2.items, render_append, render_blank1, render_fx syn .PUNC_COMMA (by simp [fragFixed]), hp.2.2.2.2.2.2.1,
        commaSp]
    · simp only [E2.isVar, Bool.and_eq_true] at hv
      show printKids syn (a.dast :: l.dast.kids) = _
      rw [printKids_cons, ca.vs hv.1 hw.1.1.1, cl.vl hv.2 hw.1.1.2]; rfl
  | .enum l, hw, hl => by
    simp only [E2.wf, Bool.and_eq_true] at hw
    simp only [E2.lexOK] at hl
    obtain ⟨hlk, hlj⟩ := (pclaim syn l hw.2 hl).li hw.1
    have hp := punct_spell syn (mem_synL syn)
    refine PClaim.ofPhrase rfl rfl rfl ?_
    show print syn (.node .NT_ENUMERATION .none 0 0 l.ast.kids) = _
    rw [print, hlk, assemble_enum, sequence_some]
    simp [E2.items, render_append, hlj, render_fx syn .PUNC_CL (by simp [fragFixed]),
      render_fx syn .PUNC_CR (by simp [fragFixed]), hp.2.2.2.2.1, hp.2.2.2.2.2.1]
  | .tuple a l, hw, hl => by
    simp only [E2.wf, Bool.and_eq_true] at hw
    simp only [E2.lexOK, Bool.and_eq_true] at hl
    have ca := pclaim syn a hw.1.2 hl.1
    have cl := pclaim syn l hw.2 hl.2
    obtain ⟨hlk, hlj⟩ := cl.li hw.1.1.2
    obtain ⟨x, xs, hx⟩ := texts_ne (syn := syn) hw.1.1.2
    have hp := punct_spell syn (mem_synL syn)
    have hpos := list_kids_pos hw.1.1.2
    have htext : (40 :: (joinSep commaSp (render (a.items syn) :: l.texts syn) ++ [41])) =
        render ((E2.tuple a l).items syn) := by
      rw [hx, joinSep_cons2, ← hx, hlj]
      simp [E2.items, render_append, render_blank1, render_fx syn .PUNC_COMMA (by simp [fragFixed]),
        render_fx syn .PUNC_PL (by simp [fragFixed]), render_fx syn .PUNC_PR (by simp [fragFixed]),
        hp.1, hp.2.1, hp.2.2.2.2.2.2.1, commaSp]
    have hprint : print syn (E2.tuple a l).ast = some (render ((E2.tuple a l).items syn)) := by
      show print syn (.node .NT_TUPLE .none 0 0 (a.ast :: l.ast.kids)) = _
      rw [print, printKids_cons, ca.ph (Or.inl hw.1.1.1), hlk,
        assemble_tuple syn _ (Or.inl rfl) _ _ (by rw [kidIds_length]; simp; omega)]
      show (sequence ((render (a.items syn) :: l.texts syn).map some)).bind _ = _
      rw [sequence_some, ← htext]; rfl
    refine ⟨fun _ => hprint, fun h' => ff rfl h', fun h' => ff rfl h', fun hv _ => ?_, fun _ h' => ff rfl h'⟩
    simp only [E2.isVar, Bool.and_eq_true] at hv
    show print syn (.node .NT_TUPLE_DECL .none 0 0 (a.dast :: l.dast.kids)) = _
    rw [print, printKids_cons, ca.vs hv.1 hw.1.1.1, cl.vl hv.2 hw.1.1.2,
      assemble_tuple syn _ (Or.inr rfl) _ _ (by rw [kidIds_length]; simp; omega)]
    show (sequence ((render (a.items syn) :: l.texts syn).map some)).bind _ = _
    rw [sequence_some, ← htext]; rfl
  | .fcall d l, hw, hl => by
    simp only [E2.wf, Bool.and_eq_true] at hw
    simp only [E2.lexOK, Bool.and_eq_true] at hl
    obtain ⟨hlk, hlj⟩ := (pclaim syn l hw.2 hl.2).li hw.1
    have hp := punct_spell syn (mem_synL syn)
    have hpos := list_kids_pos hw.1
    refine PClaim.ofPhrase rfl rfl rfl ?_
    show print syn (.node .NT_FUNC_CALL .none 0 0 (.node .ID_FUNCTION d 0 0 [] :: l.ast.kids)) = _
    rw [print, printKids_cons, print, kidIds_nil, printKids_nil, leaf_print syn _ d hl.1, hlk,
      assemble_call syn _ _ _ (by rw [kidIds_length]; simp; omega), sequence_some]
    simp [E2.items, render_append, hlj, render_fx syn .PUNC_SL (by simp [fragFixed]),
      render_fx syn .PUNC_SR (by simp [fragFixed]), hp.2.2.1, hp.2.2.2.1]
  | .pcall d l, hw, hl => by
    simp only [E2.wf, Bool.and_eq_true] at hw
    simp only [E2.lexOK, Bool.and_eq_true] at hl
    obtain ⟨hlk, hlj⟩ := (pclaim syn l hw.2 hl.2).li hw.1
    have hp := punct_spell syn (mem_synL syn)
    have hpos := list_kids_pos hw.1
    refine PClaim.ofPhrase rfl rfl rfl ?_
    show print syn (.node .NT_FUNC_CALL .none 0 0 (.node .ID_PREDICATE d 0 0 [] :: l.ast.kids)) = _
    rw [print, printKids_cons, print, kidIds_nil, printKids_nil, leaf_print syn _ d hl.1, hlk,
      assemble_call syn _ _ _ (by rw [kidIds_length]; simp; omega), sequence_some]
    simp [E2.items, render_append, hlj, render_fx syn .PUNC_SL (by simp [fragFixed]),
      render_fx syn .PUNC_SR (by simp [fragFixed]), hp.2.2.1, hp.2.2.2.1]
  | .filter d ps arg, hw, hl => by
    simp only [E2.wf, Bool.and_eq_true] at hw
    simp only [E2.lexOK, Bool.and_eq_true] at hl
    obtain ⟨hlk, hlj⟩ := (pclaim syn ps hw.1.2 hl.1.2).li hw.1.1.1
    have hparg := (pclaim syn arg hw.2 hl.2).ph (Or.inl hw.1.1.2)
    have hp := punct_spell syn (mem_synL syn)
    have hpos := list_kids_pos hw.1.1.1
    have hlen : (printKids syn ps.ast.kids).length = ps.ast.kids.length := printKids_length syn _
    have hlen2 : ((ps.texts syn).map some).length = ps.ast.kids.length := by rw [← hlk, hlen]
    refine PClaim.ofPhrase rfl rfl rfl ?_
    show print syn (.node .FILTER d 0 0 (ps.ast.kids ++ [arg.ast])) = _
    rw [print, printKids_append, printKids_cons, printKids_nil, hparg, hlk,
      assemble_filter syn d _ _ (by rw [kidIds_length]; simp; omega), name_print syn _ d hl.1.1, kidIds_length]
    have e1 : (ps.ast.kids ++ [arg.ast]).length - 1 = ((ps.texts syn).map some).length := by
      rw [hlen2]; simp
    rw [e1, List.take_left' rfl, kidAt_append_right, sequence_some]
    simp [E2.items, render_append, hlj, paren, render_fx syn .PUNC_SL (by simp [fragFixed]),
      render_fx syn .PUNC_SR (by simp [fragFixed]), render_fx syn .PUNC_PL (by simp [fragFixed]),
      render_fx syn .PUNC_PR (by simp [fragFixed]), hp.1, hp.2.1, hp.2.2.1, hp.2.2.2.1]
  | .quant q vs dm b, hw, hl => by
    simp only [E2.wf, Bool.and_eq_true] at hw
    simp only [E2.lexOK, Bool.and_eq_true] at hl
    obtain ⟨⟨⟨⟨⟨⟨⟨hq, hvA⟩, hvV⟩, hdS⟩, hbL⟩, hvw⟩, hdw⟩, hbw⟩ := hw
    have hq' : q = .FORALL ∨ q = .EXISTS := by
      cases q <;> first | exact Or.inl rfl | exact Or.inr rfl | (exact absurd hq (by decide))
    have cv := pclaim syn vs hvw hl.1.1
    have hpd := (pclaim syn dm hdw hl.1.2).ph (Or.inl hdS)
    have hpb := (pclaim syn b hbw hl.2).ph (Or.inr hbL)
    obtain ⟨_, hvj⟩ := cv.li hvA
    have hvk := cv.vl hvV hvA
    have hdecl : print syn vs.declOf = some (render (vs.items syn)) := by
      cases vs with
      | one v =>
        simp only [E2.wf, Bool.and_eq_true] at hvw
        simp only [E2.lexOK] at hl
        exact (pclaim syn v hvw.2 hl.1.1).vs hvV hvw.1
      | more v l =>
        show print syn (.node .NT_ENUM_DECL .none 0 0 (E2.more v l).dast.kids) = _
        rw [print, hvk, assemble_enumdecl, sequence_some]
        show some (joinSep commaSp (E2.texts syn (E2.more v l))) = _
        rw [hvj]
      | _ => simp [E2.isA] at hvA
    refine PClaim.ofPhrase rfl rfl rfl ?_
    show print syn (.node q .none 0 0 [vs.declOf, dm.ast, b.ast]) = _
    rw [print, kidIds_cons, kidIds_cons, kidIds_cons, kidIds_nil, printKids_cons, printKids_cons, printKids_cons,
      printKids_nil, hdecl, hpd, hpb, ast_id2 b, assemble_quant syn q _ _ _ _ _ _ hq']
    simp [E2.items, render_append, render_wrapI, render_blank1,
      render_fx syn q (mem_fragFixed_of_free (mem_freeL_quant q hq)), render_fx syn .IN (by simp [fragFixed])]
  | .decl v dm b, hw, hl => by
    simp only [E2.wf, Bool.and_eq_true] at hw
    simp only [E2.lexOK, Bool.and_eq_true] at hl
    obtain ⟨⟨⟨⟨⟨⟨hvS, hvV⟩, hdS⟩, hbL⟩, hvw⟩, hdw⟩, hbw⟩ := hw
    have hpv := (pclaim syn v hvw hl.1.1).vs hvV hvS
    have hpd := (pclaim syn dm hdw hl.1.2).ph (Or.inl hdS)
    have hpb := (pclaim syn b hbw hl.2).ph (Or.inr hbL)
    have hp := punct_spell syn (mem_synL syn)
    refine PClaim.ofPhrase rfl rfl rfl ?_
    show print syn (.node .NT_DECLARATIVE_EXPR .none 0 0 [v.dast, dm.ast, b.ast]) = _
    rw [print, kidIds_cons, kidIds_cons, kidIds_cons, kidIds_nil, printKids_cons, printKids_cons, printKids_cons,
      printKids_nil, hpv, hpd, hpb, assemble_decl]
    simp [E2.items, render_append, render_blank1, barSp, render_fx syn .DECLARATIVE (by simp [fragFixed]),
      render_fx syn .PUNC_CL (by simp [fragFixed]), render_fx syn .PUNC_CR (by simp [fragFixed]),
      render_fx syn .PUNC_BAR (by simp [fragFixed]), render_fx syn .IN (by simp [fragFixed]),
      hp.2.2.2.2.1, hp.2.2.2.2.2.1, hp.2.2.2.2.2.2.2]

/-! ## lexing the printed text -/

/-- **the lexer link**: for every well-formed phrase of the fragment whose leaf payloads are what the lexer produces
(`E2.lexOK`), the printer model prints a text, and the lexer model reads it back as exactly the token sequence
`E2.toks` (kinds and payloads) followed by END -/
theorem lex_print2 (syn : Syn) (e : E2) (hw : e.wf = true) (hSL : e.isS = true ∨ e.isL = true) (hl : e.lexOK syn = true) :
    print syn e.ast = some (render (e.items syn)) ∧
    (lex syn (render (e.items syn))).map (·.map kd2) = some ((e.toks ++ [tk .END]).map kd2) := by
  refine ⟨(pclaim syn e hw hl).ph hSL, ?_⟩
  have h := lex_items syn (e.items syn) (items_chain syn e hw hl none (nextOK_none syn))
  rw [kds_items syn e hl] at h
  show (lex syn (render (e.items syn))).map (·.map fun t => (t.id, t.data)) = _
  rw [h, List.map_append]; rfl

/-! ## local names are not changed by the transliteration -/

def tdata (syn : Syn) (id : Tok) (d : TokData) : TokData :=
  match id, d with
  | .ID_LOCAL, .text s => TokData.text (String.ofList ((convertID syn (stringUnits s)).map Char.ofNat))
  | _, d => d

theorem translit_node (syn : Syn) (id : Tok) (d : TokData) (lo hi : Int) (kids : List Ast) :
    translit syn (.node id d lo hi kids) = .node id (tdata syn id d) lo hi (translitKids syn kids) := by
  rw [translit.eq_def]; rfl

theorem tnode (syn : Syn) (id : Tok) (d : TokData) (kids : List Ast) (hd : tdata syn id d = d)
    (hk : translitKids syn kids = kids) : translit syn (.node id d 0 0 kids) = .node id d 0 0 kids := by
  rw [translit_node, hd, hk]

theorem tdata_none (syn : Syn) (id : Tok) : tdata syn id .none = .none := by cases id <;> rfl
theorem tdata_tuple (syn : Syn) (id : Tok) (idx : List Int) : tdata syn id (.tuple idx) = .tuple idx := by cases id <;> rfl
theorem tdata_int (syn : Syn) (id : Tok) (n : Int) : tdata syn id (.int n) = .int n := by cases id <;> rfl

theorem tdata_leaf (syn : Syn) (id : Tok) (d : TokData) (h : leafOK syn id d = true) : tdata syn id d = d := by
  cases d with
  | none => exact tdata_none syn id
  | int n => exact tdata_int syn id n
  | tuple idx => exact tdata_tuple syn id idx
  | text s =>
    have hok : idOK syn id s = true := by cases id <;> simp [leafOK] at h <;> exact h
    simp only [idOK, Bool.and_eq_true, decide_eq_true_eq, Bool.not_eq_true', List.isEmpty_eq_false_iff] at hok
    have hc : convertID syn (stringUnits s) = stringUnits s := by
      cases syn
      · rfl
      · exact convertID_ascii _ hok.1.2
    cases id <;> first | rfl | skip
    show TokData.text (String.ofList ((convertID syn (stringUnits s)).map Char.ofNat)) = _
    rw [hc]
    exact congrArg TokData.text (unitsToString_stringUnits s)

theorem tdata_name (syn : Syn) (f : Tok) (d : TokData) (h : nameOK f d = true) : tdata syn f d = d := by
  cases d with
  | none => exact tdata_none syn f
  | tuple idx => exact tdata_tuple syn f idx
  | int n => simp [nameOK] at h
  | text s => simp [nameOK] at h

theorem tk_nil (syn : Syn) : translitKids syn [] = [] := by rw [translitKids]
theorem tk_cons (syn : Syn) (k : Ast) (ks : List Ast) : translitKids syn (k :: ks) = translit syn k :: translitKids syn ks := by
  rw [translitKids]
theorem tk_append (syn : Syn) : ∀ xs ys : List Ast, translitKids syn (xs ++ ys) = translitKids syn xs ++ translitKids syn ys
  | [], ys => by rw [tk_nil]; rfl
  | x :: xs, ys => by rw [List.cons_append, tk_cons, tk_cons, tk_append syn xs ys]; rfl

/-- what the transliteration does on the trees of a phrase: nothing -/
structure TClaim (syn : Syn) (e : E2) : Prop where
  a : translit syn e.ast = e.ast
  ak : translitKids syn e.ast.kids = e.ast.kids
  d : e.isVar = true → translit syn e.dast = e.dast ∧ translitKids syn e.dast.kids = e.dast.kids

theorem TClaim.mk' {syn : Syn} {e : E2} (id : Tok) (d : TokData) (kids : List Ast) (he : e.ast = .node id d 0 0 kids)
    (hd : tdata syn id d = d) (hk : translitKids syn kids = kids)
    (hv : e.isVar = true → translit syn e.dast = e.dast ∧ translitKids syn e.dast.kids = e.dast.kids) : TClaim syn e :=
  ⟨by rw [he]; exact tnode syn id d kids hd hk, by rw [he]; exact hk, hv⟩

theorem tclaim (syn : Syn) : ∀ e : E2, e.wf = true → e.lexOK syn = true → TClaim syn e
  | .atom id d, _, hl => by
    simp only [E2.lexOK] at hl
    exact TClaim.mk' id d [] rfl (tdata_leaf syn id d hl) (tk_nil syn)
      (fun _ => ⟨tnode syn id d [] (tdata_leaf syn id d hl) (tk_nil syn), tk_nil syn⟩)
  | .text f d a, hw, hl => by
    simp only [E2.wf, Bool.and_eq_true] at hw
    simp only [E2.lexOK, Bool.and_eq_true] at hl
    exact TClaim.mk' f d [a.ast] rfl (tdata_name syn f d hl.1)
      (by rw [tk_cons, tk_nil, (tclaim syn a hw.2 hl.2).a]) (fun h => by simp [E2.isVar] at h)
  | .sbin op l r, hw, hl => by
    simp only [E2.wf, Bool.and_eq_true] at hw
    simp only [E2.lexOK, Bool.and_eq_true] at hl
    exact TClaim.mk' op .none [l.ast, r.ast] rfl (tdata_none syn op)
      (by rw [tk_cons, tk_cons, tk_nil, (tclaim syn l hw.1.2 hl.1).a, (tclaim syn r hw.2 hl.2).a])
      (fun h => by simp [E2.isVar] at h)
  | .prod2 a b, hw, hl => by
    simp only [E2.wf, Bool.and_eq_true] at hw
    simp only [E2.lexOK, Bool.and_eq_true] at hl
    exact TClaim.mk' .DECART .none [a.ast, b.ast] rfl rfl
      (by rw [tk_cons, tk_cons, tk_nil, (tclaim syn a hw.1.2 hl.1).a, (tclaim syn b hw.2 hl.2).a])
      (fun h => by simp [E2.isVar] at h)
  | .prodN p k, hw, hl => by
    simp only [E2.wf, Bool.and_eq_true] at hw
    simp only [E2.lexOK, Bool.and_eq_true] at hl
    exact TClaim.mk' .DECART .none (p.ast.kids ++ [k.ast]) rfl rfl
      (by rw [tk_append, tk_cons, tk_nil, (tclaim syn p hw.1.2 hl.1).ak, (tclaim syn k hw.2 hl.2).a])
      (fun h => by simp [E2.isVar] at h)
  | .pred op l r, hw, hl => by
    simp only [E2.wf, Bool.and_eq_true] at hw
    simp only [E2.lexOK, Bool.and_eq_true] at hl
    exact TClaim.mk' op .none [l.ast, r.ast] rfl (tdata_none syn op)
      (by rw [tk_cons, tk_cons, tk_nil, (tclaim syn l hw.1.2 hl.1).a, (tclaim syn r hw.2 hl.2).a])
      (fun h => by simp [E2.isVar] at h)
  | .neg x, hw, hl => by
    simp only [E2.wf, Bool.and_eq_true] at hw
    simp only [E2.lexOK] at hl
    exact TClaim.mk' .NOT .none [x.ast] rfl rfl (by rw [tk_cons, tk_nil, (tclaim syn x hw.2 hl).a])
      (fun h => by simp [E2.isVar] at h)
  | .lbin op l r, hw, hl => by
    simp only [E2.wf, Bool.and_eq_true] at hw
    simp only [E2.lexOK, Bool.and_eq_true] at hl
    exact TClaim.mk' op .none [l.ast, r.ast] rfl (tdata_none syn op)
      (by rw [tk_cons, tk_cons, tk_nil, (tclaim syn l hw.1.2 hl.1).a, (tclaim syn r hw.2 hl.2).a])
      (fun h => by simp [E2.isVar] at h)
  | .pow a, hw, hl => by
    simp only [E2.wf, Bool.and_eq_true] at hw
    simp only [E2.lexOK] at hl
    exact TClaim.mk' .BOOLEAN .none [a.ast] rfl rfl (by rw [tk_cons, tk_nil, (tclaim syn a hw.2 hl).a])
      (fun h => by simp [E2.isVar] at h)
  | .one a, hw, hl => by
    simp only [E2.wf, Bool.and_eq_true] at hw
    simp only [E2.lexOK] at hl
    have ca := tclaim syn a hw.2 hl
    refine TClaim.mk' .PUNC_COMMA .none [a.ast] rfl rfl (by rw [tk_cons, tk_nil, ca.a]) (fun hv => ?_)
    have hk : translitKids syn [a.dast] = [a.dast] := by rw [tk_cons, tk_nil, (ca.d hv).1]
    exact ⟨tnode syn .PUNC_COMMA .none _ rfl hk, hk⟩
  | .more a l, hw, hl => by
    simp only [E2.wf, Bool.and_eq_true] at hw
    simp only [E2.lexOK, Bool.and_eq_true] at hl
    have ca := tclaim syn a hw.1.2 hl.1
    have cl := tclaim syn l hw.2 hl.2
    refine TClaim.mk' .PUNC_COMMA .none (a.ast :: l.ast.kids) rfl rfl (by rw [tk_cons, ca.a, cl.ak]) (fun hv => ?_)
    simp only [E2.isVar, Bool.and_eq_true] at hv
    have hk : translitKids syn (a.dast :: l.dast.kids) = a.dast :: l.dast.kids := by
      rw [tk_cons, (ca.d hv.1).1, (cl.d hv.2).2]
    exact ⟨tnode syn .PUNC_COMMA .none _ rfl hk, hk⟩
  | .enum l, hw, hl => by
    simp only [E2.wf, Bool.and_eq_true] at hw
    simp only [E2.lexOK] at hl
    exact TClaim.mk' .NT_ENUMERATION .none l.ast.kids rfl rfl (tclaim syn l hw.2 hl).ak (fun h => by simp [E2.isVar] at h)
  | .tuple a l, hw, hl => by
    simp only [E2.wf, Bool.and_eq_true] at hw
    simp only [E2.lexOK, Bool.and_eq_true] at hl
    have ca := tclaim syn a hw.1.2 hl.1
    have cl := tclaim syn l hw.2 hl.2
    refine TClaim.mk' .NT_TUPLE .none (a.ast :: l.ast.kids) rfl rfl (by rw [tk_cons, ca.a, cl.ak]) (fun hv => ?_)
    simp only [E2.isVar, Bool.and_eq_true] at hv
    have hk : translitKids syn (a.dast :: l.dast.kids) = a.dast :: l.dast.kids := by
      rw [tk_cons, (ca.d hv.1).1, (cl.d hv.2).2]
    exact ⟨tnode syn .NT_TUPLE_DECL .none _ rfl hk, hk⟩
  | .fcall d l, hw, hl => by
    simp only [E2.wf, Bool.and_eq_true] at hw
    simp only [E2.lexOK, Bool.and_eq_true] at hl
    exact TClaim.mk' .NT_FUNC_CALL .none (.node .ID_FUNCTION d 0 0 [] :: l.ast.kids) rfl rfl
      (by rw [tk_cons, tnode syn .ID_FUNCTION d [] (tdata_leaf syn _ d hl.1) (tk_nil syn), (tclaim syn l hw.2 hl.2).ak])
      (fun h => by simp [E2.isVar] at h)
  | .pcall d l, hw, hl => by
    simp only [E2.wf, Bool.and_eq_true] at hw
    simp only [E2.lexOK, Bool.and_eq_true] at hl
    exact TClaim.mk' .NT_FUNC_CALL .none (.node .ID_PREDICATE d 0 0 [] :: l.ast.kids) rfl rfl
      (by rw [tk_cons, tnode syn .ID_PREDICATE d [] (tdata_leaf syn _ d hl.1) (tk_nil syn), (tclaim syn l hw.2 hl.2).ak])
      (fun h => by simp [E2.isVar] at h)
  | .filter d ps arg, hw, hl => by
    simp only [E2.wf, Bool.and_eq_true] at hw
    simp only [E2.lexOK, Bool.and_eq_true] at hl
    exact TClaim.mk' .FILTER d (ps.ast.kids ++ [arg.ast]) rfl (tdata_name syn _ d hl.1.1)
      (by rw [tk_append, tk_cons, tk_nil, (tclaim syn ps hw.1.2 hl.1.2).ak, (tclaim syn arg hw.2 hl.2).a])
      (fun h => by simp [E2.isVar] at h)
  | .quant q vs dm b, hw, hl => by
    simp only [E2.wf, Bool.and_eq_true] at hw
    simp only [E2.lexOK, Bool.and_eq_true] at hl
    obtain ⟨⟨⟨⟨⟨⟨⟨_, hvA⟩, hvV⟩, _⟩, _⟩, hvw⟩, hdw⟩, hbw⟩ := hw
    have cv := tclaim syn vs hvw hl.1.1
    have hdecl : translit syn vs.declOf = vs.declOf := by
      cases vs with
      | one v =>
        simp only [E2.wf, Bool.and_eq_true] at hvw
        simp only [E2.lexOK] at hl
        exact ((tclaim syn v hvw.2 hl.1.1).d hvV).1
      | more v l => exact tnode syn .NT_ENUM_DECL .none _ rfl (cv.d hvV).2
      | _ => simp [E2.isA] at hvA
    exact TClaim.mk' q .none [vs.declOf, dm.ast, b.ast] rfl (tdata_none syn q)
      (by rw [tk_cons, tk_cons, tk_cons, tk_nil, hdecl, (tclaim syn dm hdw hl.1.2).a, (tclaim syn b hbw hl.2).a])
      (fun h => by simp [E2.isVar] at h)
  | .decl v dm b, hw, hl => by
    simp only [E2.wf, Bool.and_eq_true] at hw
    simp only [E2.lexOK, Bool.and_eq_true] at hl
    obtain ⟨⟨⟨⟨⟨⟨_, hvV⟩, _⟩, _⟩, hvw⟩, hdw⟩, hbw⟩ := hw
    exact TClaim.mk' .NT_DECLARATIVE_EXPR .none [v.dast, dm.ast, b.ast] rfl rfl
      (by rw [tk_cons, tk_cons, tk_cons, tk_nil, ((tclaim syn v hvw hl.1.1).d hvV).1, (tclaim syn dm hdw hl.1.2).a,
        (tclaim syn b hbw hl.2).a])
      (fun h => by simp [E2.isVar] at h)

/-! ## the whole chain -/

/-- **print then parse gives the tree back, at the level of TEXT**: for every well-formed set phrase or formula of the
fragment with lexer-conformant leaves the printer model produces a text, the lexer and parser models accept it, and
the resulting tree equals the original one up to positions (`Ast.eqv` = `SyntaxTree::operator==`); the
transliteration of local names is the identity on such trees -/
theorem text_roundtrip2 (syn : Syn) (e : E2) (hw : e.wf = true) (hSL : e.isS = true ∨ e.isL = true)
    (hl : e.lexOK syn = true) :
    ∃ text t', print syn e.ast = some text ∧ parse syn text = some t' ∧ Ast.eqv t' (translit syn e.ast) = true := by
  obtain ⟨hp, hlex⟩ := lex_print2 syn e hw hSL hl
  refine ⟨render (e.items syn), ?_⟩
  cases hts : lex syn (render (e.items syn)) with
  | none => rw [hts] at hlex; cases hlex
  | some ts =>
    rw [hts] at hlex
    simp only [Option.map_some, Option.some.injEq] at hlex
    have hmap : ts.map PE.er = (e.toks ++ [tk .END]).map PE.er := by
      have h1 : ∀ us : Toks, us.map PE.er = (us.map kd2).map (fun p => (⟨p.1, p.2, 0, 0⟩ : LTok)) := by
        intro us; rw [List.map_map]; rfl
      rw [h1 ts, h1 (e.toks ++ [tk .END]), hlex]
    have hparse := parseToks_toks_wf2 e hw hSL
    have h2 := PE.parseToks_erase (e.toks ++ [tk .END])
    rw [hparse, ← hmap, PE.parseToks_erase ts] at h2
    cases hpt : parseToks ts with
    | none => rw [hpt] at h2; cases h2
    | some t' =>
      rw [hpt] at h2
      simp only [Option.map_some, Option.some.injEq] at h2
      refine ⟨t', hp, ?_, ?_⟩
      · unfold parse; rw [hts]; exact hpt
      · rw [(tclaim syn e hw hl).a]; exact PE.eqv_of_erA_eq h2

/-! ## positions of the printed tree do not matter -/

theorem erA_node (id : Tok) (d : TokData) (lo hi : Int) (ks : List Ast) :
    PE.erA (.node id d lo hi ks) = .node id d 0 0 (PE.erL ks) := by rw [PE.erA]

theorem erL_cons (k : Ast) (ks : List Ast) : PE.erL (k :: ks) = PE.erA k :: PE.erL ks := by rw [PE.erL]
theorem erL_nil : PE.erL [] = [] := by rw [PE.erL]

theorem erA_id (t : Ast) : (PE.erA t).id = t.id := by cases t; rw [erA_node]; rfl

theorem kidIds_erL : ∀ ks : List Ast, kidIds (PE.erL ks) = kidIds ks
  | [] => by rw [erL_nil]
  | k :: ks => by rw [erL_cons, kidIds_cons, kidIds_cons, erA_id, kidIds_erL ks]

mutual
theorem print_erA (syn : Syn) : ∀ t : Ast, print syn (PE.erA t) = print syn t
  | .node id d lo hi ks => by
    rw [erA_node, print, print, kidIds_erL, printKids_erL syn ks]
theorem printKids_erL (syn : Syn) : ∀ ks : List Ast, printKids syn (PE.erL ks) = printKids syn ks
  | [] => by rw [erL_nil]
  | k :: ks => by rw [erL_cons, printKids_cons, printKids_cons, print_erA syn k, printKids_erL syn ks]
end

mutual
theorem translit_erA (syn : Syn) : ∀ t : Ast, PE.erA (translit syn t) = translit syn (PE.erA t)
  | .node id d lo hi ks => by
    rw [erA_node, translit_node, translit_node, erA_node, translitKids_erL syn ks]
theorem translitKids_erL (syn : Syn) : ∀ ks : List Ast, PE.erL (translitKids syn ks) = translitKids syn (PE.erL ks)
  | [] => by rw [erL_nil, tk_nil, erL_nil]
  | k :: ks => by rw [erL_cons, tk_cons, tk_cons, erL_cons, translit_erA syn k, translitKids_erL syn ks]
end

/-- **the property on the fragment, for a tree with ANY positions**: if `t` is, up to positions, the tree of a
well-formed set phrase or formula `e` of `E2` with lexer-conformant leaves, then printing `t`, lexing and parsing the
text gives a tree equal to `translit syn t` up to positions -/
theorem text_roundtrip2_any (syn : Syn) (t : Ast) (e : E2) (ht : PE.erA t = e.ast) (hw : e.wf = true)
    (hSL : e.isS = true ∨ e.isL = true) (hl : e.lexOK syn = true) :
    ∃ text t', print syn t = some text ∧ parse syn text = some t' ∧ Ast.eqv t' (translit syn t) = true := by
  obtain ⟨hp, hlex⟩ := lex_print2 syn e hw hSL hl
  refine ⟨render (e.items syn), ?_⟩
  have hpt : print syn t = some (render (e.items syn)) := by rw [← print_erA, ht]; exact hp
  have hee : PE.erA e.ast = e.ast := by rw [← ht, PE.erA_erA]
  cases hts : lex syn (render (e.items syn)) with
  | none => rw [hts] at hlex; cases hlex
  | some ts =>
    rw [hts] at hlex
    simp only [Option.map_some, Option.some.injEq] at hlex
    have hmap : ts.map PE.er = (e.toks ++ [tk .END]).map PE.er := by
      have h1 : ∀ us : Toks, us.map PE.er = (us.map kd2).map (fun p => (⟨p.1, p.2, 0, 0⟩ : LTok)) := by
        intro us; rw [List.map_map]; rfl
      rw [h1 ts, h1 (e.toks ++ [tk .END]), hlex]
    have hparse := parseToks_toks_wf2 e hw hSL
    have h2 := PE.parseToks_erase (e.toks ++ [tk .END])
    rw [hparse, ← hmap, PE.parseToks_erase ts] at h2
    cases hpt' : parseToks ts with
    | none => rw [hpt'] at h2; cases h2
    | some t' =>
      rw [hpt'] at h2
      simp only [Option.map_some, Option.some.injEq] at h2
      refine ⟨t', hpt, ?_, ?_⟩
      · unfold parse; rw [hts]; exact hpt'
      · apply PE.eqv_of_erA_eq
        rw [h2, translit_erA, ht, (tclaim syn e hw hl).a, hee]

end CCVerif.PP
