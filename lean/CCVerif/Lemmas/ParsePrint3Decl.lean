import CCVerif.Lemmas.ParsePrint3Top
/-!
C05, parser link for the TOP-LEVEL forms over the fragment `E3`: function definitions `[x∈S, y∈T] body`
(`no_declaration : LS arguments RS logic_or_setexpr`) and global declarations `X1 :== body`, `S1 ::= body`,
`F1 :== [x∈S] body`, `X1 :==` (`expression`). Token level only (`parseToks_top`: printed tokens → tree); the printed
TEXT of these forms is not treated here. Definitions of the forms (`Args`, `Body`, `Top`) are local to this file.
-/
namespace CCVerif.PP3
open CCVerif.Syntax CCVerif.Generated CCVerif.Lexer CCVerif.Parser CCVerif.Printer CCVerif.PP

/-- declared arguments `x∈S, …` of a function definition (non-empty) -/
inductive Args where
  | one (d : TokData) (dom : E3)
  | more (d : TokData) (dom : E3) (rest : Args)

/-- `NT_ARG_DECL` node -/
def declNode (d : TokData) (x : Ast) : Ast := .node .NT_ARG_DECL .none 0 0 [.node .ID_LOCAL d 0 0 [], x]

namespace Args
def wf : Args → Bool
  | .one _ dom => dom.isS && dom.wf
  | .more _ dom r => dom.isS && dom.wf && r.wf
def toks : Args → Toks
  | .one d dom => tk .ID_LOCAL d :: tk .IN :: dom.toks
  | .more d dom r => tk .ID_LOCAL d :: tk .IN :: (dom.toks ++ tk .PUNC_COMMA :: r.toks)
def raws : Args → List Ast
  | .one d dom => [declNode d dom.raw]
  | .more d dom r => declNode d dom.raw :: r.raws
def asts : Args → List Ast
  | .one d dom => [declNode d dom.ast]
  | .more d dom r => declNode d dom.ast :: r.asts
def sz : Args → Nat
  | .one _ dom => dom.sz + 8
  | .more _ dom r => dom.sz + r.sz + 8
end Args

/-- `no_declaration`: a set phrase / formula, or a function definition -/
inductive Body where
  | expr (e : E3)
  | fdef (a : Args) (e : E3)

namespace Body
def wf : Body → Bool
  | .expr e => (e.isS || e.isL) && e.wf
  | .fdef a e => a.wf && (e.isS || e.isL) && e.wf
def toks : Body → Toks
  | .expr e => e.toks
  | .fdef a e => tk .PUNC_SL :: (a.toks ++ tk .PUNC_SR :: e.toks)
def raw : Body → Ast
  | .expr e => e.raw
  | .fdef a e => .node .NT_FUNC_DEFINITION .none 0 0 [.node .NT_ARGUMENTS .none 0 0 a.raws, e.raw]
def ast : Body → Ast
  | .expr e => e.ast
  | .fdef a e => .node .NT_FUNC_DEFINITION .none 0 0 [.node .NT_ARGUMENTS .none 0 0 a.asts, e.ast]
end Body

def isGlobalName (g : Tok) : Bool := g == .ID_GLOBAL || g == .ID_FUNCTION || g == .ID_PREDICATE
def isDefTok (m : Tok) : Bool := m == .PUNC_DEFINE || m == .PUNC_STRUCT

/-- `expression` -/
inductive Top where
  | plain (b : Body)
  /-- `g m body`: `X1 :== …`, `S1 ::= …`, `F1 :== [x∈S] …` -/
  | glob (g : Tok) (name : TokData) (m : Tok) (b : Body)
  /-- `X1 :==` -/
  | globEmpty (g : Tok) (name : TokData)

namespace Top
def wf : Top → Bool
  | .plain b => b.wf
  | .glob g _ m b => isGlobalName g && isDefTok m && b.wf
  | .globEmpty g _ => isGlobalName g
def toks : Top → Toks
  | .plain b => b.toks
  | .glob g name m b => tk g name :: tk m :: b.toks
  | .globEmpty g name => [tk g name, tk .PUNC_DEFINE]
def ast : Top → Ast
  | .plain b => b.ast
  | .glob g name m b => .node m .none 0 0 [.node g name 0 0 [], b.ast]
  | .globEmpty g name => .node .PUNC_DEFINE .none 0 0 [.node g name 0 0 []]
def raw : Top → Ast
  | .plain b => b.raw
  | .glob g name m b => .node m .none 0 0 [.node g name 0 0 [], b.raw]
  | .globEmpty g name => .node .PUNC_DEFINE .none 0 0 [.node g name 0 0 []]
end Top

/-! ## `arguments` -/

theorem argDecls_succ (f : Nat) (acc : List Ast) (l i : LTok) (r : Toks) : argDecls (f + 1) acc (l :: i :: r) =
    if (l.id == .ID_LOCAL && i.id == .IN) = true then
      match setE f 0 r with
      | some (k, e, r') =>
        if k.isSet then
          match r' with
          | c :: r'' =>
            if c.id == .PUNC_COMMA then argDecls f (acc ++ [Ast.node .NT_ARG_DECL .none l.lo e.hi [leaf l, e]]) r''
            else some (acc ++ [Ast.node .NT_ARG_DECL .none l.lo e.hi [leaf l, e]], r')
          | [] => some (acc ++ [Ast.node .NT_ARG_DECL .none l.lo e.hi [leaf l, e]], r')
        else none
      | none => none
    else none := by rw [argDecls]; rfl

def ArgsP (a : Args) : Prop :=
  ∀ (F : Nat) (acc : List Ast) (rest : Toks), 2 * a.sz + 4 ≤ F →
    argDecls F acc (a.toks ++ tk .PUNC_SR :: rest) = some (acc ++ a.raws, tk .PUNC_SR :: rest)

theorem argsP : ∀ a : Args, a.wf = true → ArgsP a
  | .one d dom, hw => by
    simp only [Args.wf, Bool.and_eq_true] at hw
    have cd := (claim dom hw.2 (ok_of_wf2 dom hw.2)).set hw.1
    intro F acc rest hF
    simp only [Args.sz] at hF
    obtain ⟨g, hg⟩ : ∃ g, F = g + 1 := ⟨F - 1, by omega⟩
    subst hg
    have hts : (Args.one d dom).toks ++ tk .PUNC_SR :: rest = tk .ID_LOCAL d :: tk .IN :: (dom.toks ++ tk .PUNC_SR :: rest) := by
      simp [Args.toks]
    rw [hts, argDecls_succ, setDone2 cd g 0 _ (by omega) (Nat.zero_le _) (stopS_pass 0 (tk .PUNC_SR) _ rfl)]
    have e1 : ((tk Tok.ID_LOCAL d).id == Tok.ID_LOCAL && (tk Tok.IN).id == Tok.IN) = true := rfl
    have e2 : ((tk Tok.PUNC_SR).id == Tok.PUNC_COMMA) = false := rfl
    simp only [e1, if_true, kind_isSet2 hw.1, e2, Bool.false_eq_true, if_false, (raw_range2 dom).2]
    rfl
  | .more d dom r, hw => by
    simp only [Args.wf, Bool.and_eq_true] at hw
    have cd := (claim dom hw.1.2 (ok_of_wf2 dom hw.1.2)).set hw.1.1
    have ih := argsP r hw.2
    intro F acc rest hF
    simp only [Args.sz] at hF
    obtain ⟨g, hg⟩ : ∃ g, F = g + 1 := ⟨F - 1, by omega⟩
    subst hg
    have hts : (Args.more d dom r).toks ++ tk .PUNC_SR :: rest =
        tk .ID_LOCAL d :: tk .IN :: (dom.toks ++ tk .PUNC_COMMA :: (r.toks ++ tk .PUNC_SR :: rest)) := by
      simp [Args.toks]
    rw [hts, argDecls_succ, setDone2 cd g 0 _ (by omega) (Nat.zero_le _) (stopS_pass 0 (tk .PUNC_COMMA) _ rfl)]
    have e1 : ((tk Tok.ID_LOCAL d).id == Tok.ID_LOCAL && (tk Tok.IN).id == Tok.IN) = true := rfl
    have e2 : ((tk Tok.PUNC_COMMA).id == Tok.PUNC_COMMA) = true := rfl
    simp only [e1, if_true, kind_isSet2 hw.1.1, e2, (raw_range2 dom).2]
    rw [ih g _ rest (by omega)]
    simp [Args.raws, declNode, leaf, tk]

theorem raws_range : ∀ a : Args, ∀ x ∈ a.raws, x.lo = 0 ∧ x.hi = 0
  | .one d dom, x, hx => by simp only [Args.raws, List.mem_singleton] at hx; subst hx; exact ⟨rfl, rfl⟩
  | .more d dom r, x, hx => by
    simp only [Args.raws, List.mem_cons] at hx
    rcases hx with rfl | hx
    · exact ⟨rfl, rfl⟩
    · exact raws_range r x hx

theorem raws_cons (a : Args) : ∃ x xs, a.raws = x :: xs := by cases a <;> exact ⟨_, _, rfl⟩

/-! ## `no_declaration`, `expression` -/

theorem args_sz_le : ∀ a : Args, a.sz ≤ 16 * a.toks.length
  | .one d dom => by have := sz_le_toks2 dom; simp only [Args.sz, Args.toks, List.length_cons]; omega
  | .more d dom r => by
    have := sz_le_toks2 dom; have := args_sz_le r
    simp only [Args.sz, Args.toks, List.length_cons, List.length_append]; omega

theorem logicOrSet_top (e : E3) (hw : e.wf = true) (hSL : e.isS = true ∨ e.isL = true) (F : Nat) (hF : 2 * e.sz + 4 ≤ F) :
    logicOrSet F e.toks = some (e.raw, []) := by
  have hlog := logE_top2 e hw (ok_of_wf2 e hw) hSL F hF
  unfold logicOrSet
  rw [hlog.1]
  simp only [hlog.2, if_true]

theorem orSL {e : E3} (h : (e.isS || e.isL) = true) : e.isS = true ∨ e.isL = true := by
  simpa [Bool.or_eq_true] using h

theorem noDeclaration_body (b : Body) (hw : b.wf = true) (F : Nat) (hF : 32 * b.toks.length + 8 ≤ F) :
    noDeclaration F b.toks = some (b.raw, []) := by
  cases b with
  | expr e =>
    simp only [Body.wf, Bool.and_eq_true] at hw
    have hsz := sz_le_toks2 e
    simp only [Body.toks] at hF
    obtain ⟨t, ts, hts, hst⟩ := toks_head e hw.2
    show noDeclaration F e.toks = some (e.raw, [])
    rw [hts, noDeclaration_frag2 _ t ts hst, ← hts]
    exact logicOrSet_top e hw.2 (orSL hw.1) F (by omega)
  | fdef a e =>
    simp only [Body.wf, Bool.and_eq_true] at hw
    have hsz := sz_le_toks2 e
    have hasz := args_sz_le a
    simp only [Body.toks, List.length_cons, List.length_append] at hF
    have hargs := argsP a hw.1.1 F [] e.toks (by omega)
    obtain ⟨x, xs, hx⟩ := raws_cons a
    have hr := raws_range a
    have hsp : spanOf x xs = (0, 0) := by
      unfold spanOf
      rw [(hr x (by rw [hx]; simp)).1, getLastD_hi xs x (fun z hz => (hr z (by rw [hx]; simp [hz])).2)
        (hr x (by rw [hx]; simp)).2]
    show noDeclaration F (tk .PUNC_SL :: (a.toks ++ tk .PUNC_SR :: e.toks)) = _
    unfold noDeclaration
    have e1 : ((tk Tok.PUNC_SL).id == Tok.PUNC_SL) = true := rfl
    have e2 : ((tk Tok.PUNC_SR).id == Tok.PUNC_SR) = true := rfl
    simp only [e1, if_true, hargs, List.nil_append, hx, e2, hsp,
      logicOrSet_top e hw.2 (orSL hw.1.2) F (by omega), (raw_range2 e).2]
    show _ = some (Ast.node .NT_FUNC_DEFINITION .none 0 0 [.node .NT_ARGUMENTS .none 0 0 a.raws, e.raw], [])
    rw [hx]
    rfl

theorem globalName_cases {g : Tok} (h : isGlobalName g = true) : g = .ID_GLOBAL ∨ g = .ID_FUNCTION ∨ g = .ID_PREDICATE := by
  cases g <;> first | exact Or.inl rfl | exact Or.inr (Or.inl rfl) | exact Or.inr (Or.inr rfl) | (revert h; decide)

theorem defTok_cases {m : Tok} (h : isDefTok m = true) : m = .PUNC_DEFINE ∨ m = .PUNC_STRUCT := by
  cases m <;> first | exact Or.inl rfl | exact Or.inr rfl | (revert h; decide)

theorem body_head (b : Body) (hw : b.wf = true) : ∃ t ts, b.toks = t :: ts ∧
    (t.id == .PUNC_DEFINE || t.id == .PUNC_STRUCT) = false := by
  cases b with
  | expr e =>
    simp only [Body.wf, Bool.and_eq_true] at hw
    obtain ⟨t, ts, hts, hst⟩ := toks_head e hw.2
    refine ⟨t, ts, hts, ?_⟩
    revert hst; cases t.id <;> decide
  | fdef a e => exact ⟨_, _, rfl, rfl⟩

theorem body_second (b : Body) (hw : b.wf = true) : ∀ g m rest, b.toks = g :: m :: rest →
    ((g.id == .ID_GLOBAL || g.id == .ID_FUNCTION || g.id == .ID_PREDICATE) &&
      (m.id == .PUNC_DEFINE || m.id == .PUNC_STRUCT)) = false := by
  intro g m rest h
  cases b with
  | expr e =>
    simp only [Body.wf, Bool.and_eq_true] at hw
    have hfrag := toks_frag2 e hw.2
    have : e.toks = g :: m :: rest := h
    rw [this, allF_cons, allF_cons] at hfrag
    simp only [Bool.and_eq_true] at hfrag
    have := hfrag.2.1
    have hm : (m.id == .PUNC_DEFINE || m.id == .PUNC_STRUCT) = false := by
      revert this; cases m.id <;> decide
    rw [hm, Bool.and_false]
  | fdef a e =>
    simp only [Body.toks, List.cons.injEq] at h
    obtain ⟨rfl, _⟩ := h
    rfl

theorem expression_top (t : Top) (hw : t.wf = true) (F : Nat) (hF : 32 * t.toks.length + 8 ≤ F) :
    expression F t.toks = some t.raw := by
  cases t with
  | plain b =>
    simp only [Top.wf] at hw
    have hnd := noDeclaration_body b hw F hF
    show expression F b.toks = some b.raw
    unfold expression
    obtain ⟨t, ts, hts, _⟩ := body_head b hw
    cases ts with
    | nil => rw [hts] at hnd ⊢; simp only [hnd]
    | cons m rest =>
      have h2 := body_second b hw t m rest hts
      rw [hts] at hnd ⊢
      simp only [h2, Bool.false_eq_true, if_false, hnd]
  | glob g name m b =>
    simp only [Top.wf, Bool.and_eq_true] at hw
    simp only [Top.toks, List.length_cons] at hF
    have hnd := noDeclaration_body b hw.2 F (by omega)
    obtain ⟨t, ts, hts, _⟩ := body_head b hw.2
    have hg : ((tk g name).id == .ID_GLOBAL || (tk g name).id == .ID_FUNCTION || (tk g name).id == .ID_PREDICATE) = true := by
      rcases globalName_cases hw.1.1 with rfl | rfl | rfl <;> rfl
    have hm : ((tk m).id == .PUNC_DEFINE || (tk m).id == .PUNC_STRUCT) = true := by
      rcases defTok_cases hw.1.2 with rfl | rfl <;> rfl
    show expression F (tk g name :: tk m :: b.toks) = _
    unfold expression
    rw [hts] at hnd ⊢
    simp only [hg, hm, Bool.and_self, if_true, hnd]
    have hhi : b.raw.hi = 0 := by
      cases b with
      | expr e => exact (raw_range2 e).2
      | fdef a e => rfl
    simp only [hhi]
    rfl
  | globEmpty g name =>
    simp only [Top.wf] at hw
    show expression F [tk g name, tk .PUNC_DEFINE] = _
    unfold expression
    rcases globalName_cases hw with rfl | rfl | rfl <;> rfl

/-! ## `SemanticCheck`, `CreateSyntaxTree` -/

theorem sem_args : ∀ a : Args, a.wf = true → ∀ q, semanticCheckList q a.raws = true
  | .one d dom, hw, q => by
    simp only [Args.wf, Bool.and_eq_true] at hw
    exact semList_one _ _ (semantic_node2 .NT_ARG_DECL .none _ _ rfl (semList_cons _ _ _
      (semantic_node2 .ID_LOCAL d [] _ rfl (semList_nil _)) (semList_one _ _ ((semantic_raw2 dom hw.2).1 _))))
  | .more d dom r, hw, q => by
    simp only [Args.wf, Bool.and_eq_true] at hw
    exact semList_cons _ _ _ (semantic_node2 .NT_ARG_DECL .none _ _ rfl (semList_cons _ _ _
      (semantic_node2 .ID_LOCAL d [] _ rfl (semList_nil _)) (semList_one _ _ ((semantic_raw2 dom hw.1.2).1 _))))
      (sem_args r hw.2 q)

theorem strip_args : ∀ a : Args, a.wf = true → stripBracketsList a.raws = some a.asts
  | .one d dom, hw => by
    simp only [Args.wf, Bool.and_eq_true] at hw
    exact stripList_one _ _ (strip_node2 .NT_ARG_DECL .none _ _ rfl (stripList_cons _ _ _ _
      (strip_node2 .ID_LOCAL d [] [] rfl stripList_nil) (stripList_one _ _ (strip_raw2 dom hw.2).1)))
  | .more d dom r, hw => by
    simp only [Args.wf, Bool.and_eq_true] at hw
    exact stripList_cons _ _ _ _ (strip_node2 .NT_ARG_DECL .none _ _ rfl (stripList_cons _ _ _ _
      (strip_node2 .ID_LOCAL d [] [] rfl stripList_nil) (stripList_one _ _ (strip_raw2 dom hw.1.2).1)))
      (strip_args r hw.2)

theorem sem_body (b : Body) (hw : b.wf = true) (p : Option Tok) : semanticCheck p b.raw = true := by
  cases b with
  | expr e => simp only [Body.wf, Bool.and_eq_true] at hw; exact (semantic_raw2 e hw.2).1 p
  | fdef a e =>
    simp only [Body.wf, Bool.and_eq_true] at hw
    exact semantic_node2 .NT_FUNC_DEFINITION .none _ p rfl (semList_cons _ _ _
      (semantic_node2 .NT_ARGUMENTS .none _ _ rfl (sem_args a hw.1.1 _)) (semList_one _ _ ((semantic_raw2 e hw.2).1 _)))

theorem strip_body (b : Body) (hw : b.wf = true) : stripBrackets b.raw = some b.ast := by
  cases b with
  | expr e => simp only [Body.wf, Bool.and_eq_true] at hw; exact (strip_raw2 e hw.2).1
  | fdef a e =>
    simp only [Body.wf, Bool.and_eq_true] at hw
    exact strip_node2 .NT_FUNC_DEFINITION .none _ _ rfl (stripList_cons _ _ _ _
      (strip_node2 .NT_ARGUMENTS .none _ _ rfl (strip_args a hw.1.1)) (stripList_one _ _ (strip_raw2 e hw.2).1))

theorem nodeTok2_def {m : Tok} (h : isDefTok m = true) : nodeTok2 m = true := by
  rcases defTok_cases h with rfl | rfl <;> rfl
theorem nodeTok2_glob {g : Tok} (h : isGlobalName g = true) : nodeTok2 g = true := by
  rcases globalName_cases h with rfl | rfl | rfl <;> rfl

theorem sem_top (t : Top) (hw : t.wf = true) : semanticCheck none t.raw = true := by
  cases t with
  | plain b => exact sem_body b hw none
  | glob g name m b =>
    simp only [Top.wf, Bool.and_eq_true] at hw
    exact semantic_node2 m .none _ _ (nodeTok2_def hw.1.2) (semList_cons _ _ _
      (semantic_node2 g name [] _ (nodeTok2_glob hw.1.1) (semList_nil _)) (semList_one _ _ (sem_body b hw.2 _)))
  | globEmpty g name =>
    simp only [Top.wf] at hw
    exact semantic_node2 .PUNC_DEFINE .none _ _ rfl (semList_one _ _ (semantic_node2 g name [] _ (nodeTok2_glob hw) (semList_nil _)))

theorem strip_top (t : Top) (hw : t.wf = true) : stripBrackets t.raw = some t.ast := by
  cases t with
  | plain b => exact strip_body b hw
  | glob g name m b =>
    simp only [Top.wf, Bool.and_eq_true] at hw
    exact strip_node2 m .none _ _ (nodeTok2_def hw.1.2) (stripList_cons _ _ _ _
      (strip_node2 g name [] [] (nodeTok2_glob hw.1.1) stripList_nil) (stripList_one _ _ (strip_body b hw.2)))
  | globEmpty g name =>
    simp only [Top.wf] at hw
    exact strip_node2 .PUNC_DEFINE .none _ _ rfl (stripList_one _ _ (strip_node2 g name [] [] (nodeTok2_glob hw) stripList_nil))

/-! ## `Parser::Parse` -/

def noEnd (ts : Toks) : Bool := ts.all fun t => t.id != .END && t.id != .INTERRUPT

theorem noEnd_of_allF {ts : Toks} (h : allF ts = true) : noEnd ts = true := by
  simp only [allF, noEnd, List.all_eq_true] at h ⊢
  intro t ht
  have := h t ht
  revert this; cases t.id <;> decide

theorem noEnd_cons {t : LTok} {ts : Toks} (h1 : (t.id != .END && t.id != .INTERRUPT) = true) (h2 : noEnd ts = true) :
    noEnd (t :: ts) = true := by
  unfold noEnd at *; rw [List.all_cons, h1, h2]; rfl

theorem noEnd_append {a b : Toks} (h1 : noEnd a = true) (h2 : noEnd b = true) : noEnd (a ++ b) = true := by
  unfold noEnd at *; rw [List.all_append, h1, h2]; rfl

theorem noEnd_args : ∀ a : Args, a.wf = true → noEnd a.toks = true
  | .one d dom, hw => by
    simp only [Args.wf, Bool.and_eq_true] at hw
    exact noEnd_cons rfl (noEnd_cons rfl (noEnd_of_allF (toks_frag2 dom hw.2)))
  | .more d dom r, hw => by
    simp only [Args.wf, Bool.and_eq_true] at hw
    exact noEnd_cons rfl (noEnd_cons rfl (noEnd_append (noEnd_of_allF (toks_frag2 dom hw.1.2))
      (noEnd_cons rfl (noEnd_args r hw.2))))

theorem noEnd_body (b : Body) (hw : b.wf = true) : noEnd b.toks = true := by
  cases b with
  | expr e => simp only [Body.wf, Bool.and_eq_true] at hw; exact noEnd_of_allF (toks_frag2 e hw.2)
  | fdef a e =>
    simp only [Body.wf, Bool.and_eq_true] at hw
    exact noEnd_cons rfl (noEnd_append (noEnd_args a hw.1.1) (noEnd_cons rfl (noEnd_of_allF (toks_frag2 e hw.2))))

theorem noEnd_top (t : Top) (hw : t.wf = true) : noEnd t.toks = true := by
  cases t with
  | plain b => exact noEnd_body b hw
  | glob g name m b =>
    simp only [Top.wf, Bool.and_eq_true] at hw
    exact noEnd_cons (by rcases globalName_cases hw.1.1 with rfl | rfl | rfl <;> rfl)
      (noEnd_cons (by rcases defTok_cases hw.1.2 with rfl | rfl <;> rfl) (noEnd_body b hw.2))
  | globEmpty g name =>
    simp only [Top.wf] at hw
    exact noEnd_cons (by rcases globalName_cases hw with rfl | rfl | rfl <;> rfl) (noEnd_cons rfl rfl)

/-- **the parser gives back the tree of a top-level form**: function definitions and global declarations over `E3` -/
theorem parseToks_top (t : Top) (hw : t.wf = true) : parseToks (t.toks ++ [tk .END]) = some t.ast := by
  have hne := noEnd_top t hw
  have hall : ∀ x ∈ t.toks, (x.id != .END && x.id != .INTERRUPT) = true := by
    simpa [noEnd, List.all_eq_true] using hne
  have hbody : (t.toks ++ [tk .END]).takeWhile (fun t => t.id != .END && t.id != .INTERRUPT) = t.toks :=
    takeWhile_snoc _ _ _ hall rfl
  have hany : (t.toks ++ [tk .END]).any (fun t => t.id == .INTERRUPT) = false := by
    rw [List.any_append]
    have : t.toks.any (fun t => t.id == .INTERRUPT) = false := by
      rw [List.any_eq_false]
      intro x hx
      have := hall x hx
      revert this; cases x.id <;> decide
    rw [this]; rfl
  unfold parseToks
  simp only [hbody, hany, Bool.false_eq_true, if_false]
  rw [expression_top t hw _ (by unfold fuelFor; omega)]
  simp only [sem_top t hw, if_true]
  exact strip_top t hw

end CCVerif.PP3
